/-
  OFV.Lemmas.SwStats — reads beyond the end of a slice panic; the multipart record decoders for table / port / queue
  statistics (OpenFlow 1.0 record sizes) on records of the OpenFlow 1.3 sizes.  Used by OFV/Props/C04.lean for the
  counterexamples.
-/
import OFV.Model.All
import OFV.Lemmas.SwBasic
namespace OFV.Sw
open OFV OFV.Go OFV.Model

theorem rd32_none (bs : Bytes) (h : bs.length < 4) : rd32 bs = none := by
  match bs, h with
  | [], _ => rfl
  | [_], _ => rfl
  | [_, _], _ => rfl
  | [_, _, _], _ => rfl

theorem rd64_none (bs : Bytes) (h : bs.length < 8) : rd64 bs = none := by
  match bs, h with
  | [], _ => rfl
  | [_], _ => rfl
  | [_, _], _ => rfl
  | [_, _, _], _ => rfl
  | [_, _, _, _], _ => rfl
  | [_, _, _, _, _], _ => rfl
  | [_, _, _, _, _, _], _ => rfl
  | [_, _, _, _, _, _, _], _ => rfl

/-- `binary.BigEndian.Uint32(data[n:])` with fewer than 4 bytes left panics -/
theorem u32From_short (s : Slice) (hwf : s.WF) (n : Nat) (h : s.len < n + 4) : s.u32From n = .panic := by
  unfold Slice.u32From
  by_cases hn : n ≤ s.len
  · obtain ⟨t, h1, htwf, htl, _⟩ := fromR_at s hwf n hn
    rw [h1]
    show Res.ofOption (rd32 t.bytes) = _
    rw [rd32_none _ (by rw [bytes_length t htwf]; omega)]; rfl
  · have hp : s.fromR n = .panic := by unfold Slice.fromR Slice.from_ Res.ofOption; simp [hn]
    rw [hp]; rfl

theorem u64From_short (s : Slice) (hwf : s.WF) (n : Nat) (h : s.len < n + 8) : s.u64From n = .panic := by
  unfold Slice.u64From
  by_cases hn : n ≤ s.len
  · obtain ⟨t, h1, htwf, htl, _⟩ := fromR_at s hwf n hn
    rw [h1]
    show Res.ofOption (rd64 t.bytes) = _
    rw [rd64_none _ (by rw [bytes_length t htwf]; omega)]; rfl
  · have hp : s.fromR n = .panic := by unfold Slice.fromR Slice.from_ Res.ofOption; simp [hn]
    rw [hp]; rfl

theorem msgLoopW_panic {σ} (f : Nat) (cond : σ → Bool) (cursor : σ → Nat) (body : σ → R σ) (s : σ)
    (hc : cond s = true) (hb : body s = .panic) : msgLoopW (f + 1) cond cursor body s = .panic := by
  unfold msgLoopW
  simp only [hc, if_true, hb]

/-! ### TableStats: the decoder needs 64 bytes (OpenFlow 1.0 `ofp_table_stats` with a 32-byte name) -/

theorem tableStats_short (d : Slice) (hwf : d.WF) (hl1 : 4 ≤ d.len) (hl : d.len < 40) :
    TableStats.unmarshal TableStats.new d = .panic := by
  obtain ⟨x, hx⟩ := Slice.byteAt_ok d hwf 0 (by omega)
  obtain ⟨s1, h1, _⟩ := fromR_at d hwf 1 (by omega)
  obtain ⟨s2, h2, _⟩ := fromR_at d hwf 4 (by omega)
  unfold TableStats.unmarshal TableStats.new
  simp only [zeros_length, Gen.openflow13.MAX_TABLE_NAME_LEN, Nat.reduceAdd, hx, h1, h2, Res.bind_ok,
    u32From_short d hwf 36 (by omega)]
  rfl

/-! ### PortStats: the decoder reads 104 bytes (OpenFlow 1.0 `ofp_port_stats`) -/

theorem readCounters_ok (d : Slice) (hwf : d.WF) (k : Nat) : ∀ n, n + 8 * k ≤ d.len →
    ∃ cs, PortStats.readCounters d n k = .ok cs := by
  induction k with
  | zero => intro n _; exact ⟨[], rfl⟩
  | succ k ih =>
    intro n h
    obtain ⟨x, hx⟩ := Slice.u64From_ok d hwf n (by omega)
    obtain ⟨cs, hcs⟩ := ih (n + 8) (by omega)
    refine ⟨V.u64 x :: cs, ?_⟩
    unfold PortStats.readCounters
    simp only [hx, hcs, Res.bind_ok]; rfl

theorem readCounters_short (d : Slice) (hwf : d.WF) (k n : Nat) (h : d.len < n + 8) :
    PortStats.readCounters d n (k + 1) = .panic := by
  unfold PortStats.readCounters
  rw [u64From_short d hwf n h]; rfl

/-- a record of at least 104 bytes decodes to some PortStats value … -/
theorem portStats_ok (d : Slice) (hwf : d.WF) (hl : 104 ≤ d.len) :
    ∃ p pad cs, PortStats.unmarshal PortStats.new d = .ok (.obj "PortStats" (p :: .bytes pad :: cs)) := by
  obtain ⟨x, hx⟩ := Slice.u16From_ok d hwf 0 (by omega)
  obtain ⟨s1, h1, _⟩ := fromR_at d hwf 2 (by omega)
  obtain ⟨cs, hcs⟩ := readCounters_ok d hwf 12 8 (by omega)
  refine ⟨V.u16 x, copyInto (zeros 6) s1.bytes, cs, ?_⟩
  unfold PortStats.unmarshal PortStats.new
  simp only [List.cons_append, List.nil_append, zeros_length, Nat.reduceAdd, hx, h1, hcs, Res.bind_ok]
  rfl

/-- … and what is left of a 112-byte OpenFlow 1.3 record (8 bytes) makes the next iteration panic -/
theorem portStats_short (d : Slice) (hwf : d.WF) (hl1 : 2 ≤ d.len) (hl : d.len < 16) :
    PortStats.unmarshal PortStats.new d = .panic := by
  obtain ⟨x, hx⟩ := Slice.u16From_ok d hwf 0 (by omega)
  obtain ⟨s1, h1, _⟩ := fromR_at d hwf 2 (by omega)
  unfold PortStats.unmarshal PortStats.new
  simp only [List.cons_append, List.nil_append, zeros_length, Nat.reduceAdd, hx, h1, Res.bind_ok,
    readCounters_short d hwf 11 8 (by omega)]
  rfl

theorem portStats_len (p : V) (pad : Bytes) (cs : List V) :
    anyLenM (.obj "PortStats" (p :: .bytes pad :: cs)) = .ok (104, .obj "PortStats" (p :: .bytes pad :: cs)) := rfl

/-! ### QueueStats: the decoder reads 32 bytes (16-bit port, 2 pad bytes, queue id at 4, counters at 8, 16, 24) and
    reports 32 (OpenFlow 1.0 `ofp_queue_stats`) -/

theorem queueStats_ok (d : Slice) (hwf : d.WF) (hl : 32 ≤ d.len) :
    ∃ p q tb tp te, QueueStats.unmarshal QueueStats.zero d = .ok (.obj "QueueStats" [p, .bytes [], q, tb, tp, te]) := by
  obtain ⟨x, hx⟩ := Slice.u16From_ok d hwf 0 (by omega)
  obtain ⟨s1, h1, _⟩ := fromR_at d hwf 2 (by omega)
  obtain ⟨q, hq⟩ := Slice.u32From_ok d hwf 4 (by omega)
  obtain ⟨tb, htb⟩ := Slice.u64From_ok d hwf 8 (by omega)
  obtain ⟨tp, htp⟩ := Slice.u64From_ok d hwf 16 (by omega)
  obtain ⟨te, hte⟩ := Slice.u64From_ok d hwf 24 (by omega)
  refine ⟨V.u16 x, V.u32 q, V.u64 tb, V.u64 tp, V.u64 te, ?_⟩
  unfold QueueStats.unmarshal QueueStats.zero
  simp only [Nat.reduceAdd, hx, h1, hq, htb, htp, hte, Res.bind_ok, copyInto_nil]
  rfl

/-- what is left of a 40-byte OpenFlow 1.3 record (8 bytes) makes the next iteration panic: the first counter is
    read from offset 8 -/
theorem queueStats_short (d : Slice) (hwf : d.WF) (hl1 : 8 ≤ d.len) (hl : d.len < 16) :
    QueueStats.unmarshal QueueStats.zero d = .panic := by
  obtain ⟨x, hx⟩ := Slice.u16From_ok d hwf 0 (by omega)
  obtain ⟨s1, h1, _⟩ := fromR_at d hwf 2 (by omega)
  obtain ⟨q, hq⟩ := Slice.u32From_ok d hwf 4 (by omega)
  unfold QueueStats.unmarshal QueueStats.zero
  simp only [Nat.reduceAdd, hx, h1, hq, Res.bind_ok,
    u64From_short d hwf 8 (by omega)]
  rfl

theorem queueStats_len (p q tb tp te : V) :
    anyLenM (.obj "QueueStats" [p, .bytes [], q, tb, tp, te]) = .ok (32, .obj "QueueStats" [p, .bytes [], q, tb, tp, te]) :=
  rfl

end OFV.Sw
