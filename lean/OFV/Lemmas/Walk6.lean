/-
  OFV.Lemmas.Walk6 — walker-only: acceptance of a Nicira reg_load2 action (subtype 33) by `Spec.walkAction`, given that
  its OXM TLV (at offset 10) is accepted by `Spec.walkOxm`.
-/
import OFV.Lemmas.Walk5
namespace OFV.Walk6
open OFV OFV.Spec OFV.Walk2 OFV.Walk3 OFV.Walk4

/-- reg_load2: experimenter type, Nicira vendor, subtype 33, the length word declares the action's own bytes = 10 + the
    field's bytes rounded up to 8, the field `fb` (accepted as an OXM TLV with subtree `t`) follows the 10 header bytes,
    the rest is zero -/
theorem accept_regLoad2 (b fb : Bytes) (t : Tree) (h16 : 16 ≤ b.length) (hal : b.length % 8 = 0)
    (h0 : beAt b 0 2 = 65535) (h2 : beAt b 2 2 = b.length) (hv : beAt b 4 4 = 0x2320) (hsb : beAt b 8 2 = 33)
    (hox : OxmAccept fb t) (hr : round8 (10 + fb.length) = b.length)
    (hb : b.drop 10 = fb ++ List.replicate (b.length - (10 + fb.length)) 0) : ActAccept b (.node "nx 33" b [t]) := by
  intro fuel tail
  rw [walkAction_tail b tail fuel (by omega) hal h2]
  have e0 : u16At b 0 = 65535 := by rw [u16At_eq_beAt _ _ (by omega), h0]
  have e2 : u16At b 2 = b.length := by rw [u16At_eq_beAt _ _ (by omega), h2]
  have e4 : u32At b 4 = 0x2320 := by rw [u32At_eq_beAt _ _ (by omega), hv]
  have e8 : u16At b 8 = 33 := by rw [u16At_eq_beAt _ _ (by omega), hsb]
  have t2 : b.take b.length = b := List.take_length
  have l1 : ¬ b.length < 4 := by omega
  have l2 : ¬ (b.length < 8 ∨ b.length % 8 ≠ 0) := by omega
  have l3 : ¬ b.length < b.length := by omega
  have l4 : ¬ b.length < 16 := by omega
  have hn : nxFixed.lookup 33 = none := by decide
  have hw : walkOxm (b.drop 10) = .ok (t, fb.length) := by rw [hb]; exact hox.2 _
  have hle : 10 + fb.length ≤ b.length := by rw [← hr]; unfold round8; omega
  have hz : zerosAt b (10 + fb.length) (b.length - 10 - fb.length) "reg_load2" = .ok () := by
    apply zerosAt_ok
    apply zeros_slice
    have : b.drop (10 + fb.length) = (b.drop 10).drop fb.length := by rw [List.drop_drop]
    rw [this, hb, List.drop_left]
    congr 1; omega
  have hr' : ¬ round8 (10 + fb.length) ≠ b.length := by rw [hr]; simp
  simp only [walkAction, e0, e2, e4, e8, t2, l1, l2, l3, l4, hn, hw, if_false, ne_eq, not_true_eq_false]
  show (do if round8 (10 + fb.length) ≠ b.length then fail s!"reg_load2: oxm of {fb.length} bytes in an action of {b.length}"
           zerosAt b (10 + fb.length) (b.length - 10 - fb.length) "reg_load2"
           pure (Tree.node "nx 33" b [t], b.length) : W (Tree × Nat)) = _
  rw [if_neg hr', hz]
  rfl

end OFV.Walk6
