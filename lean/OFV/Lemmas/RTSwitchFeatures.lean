/-
  OFV.Lemmas.RTSwitchFeatures — SwitchFeatures through Parse: header, DPID, fixed part, ports; the decoder walks over the
  ports and keeps none.  Used by OFV/Props/C05.lean.
-/
import OFV.Model.All
import OFV.Lemmas.Size
import OFV.Lemmas.RTBasic
import OFV.Lemmas.RTMsg
import OFV.Lemmas.RTMatch
import OFV.Lemmas.RTMsgMore
namespace OFV.RT
set_option linter.unusedSimpArgs false
open OFV OFV.Go OFV.Model

/-- a port description `p` with its 64-byte encoding `e` -/
def PortRT (p : V) (e : Bytes) : Prop :=
  PhyPort.marshalM p = .ok (e, p) ∧ PhyPort.lenM p = .ok (64, p) ∧ PhyPort.len p = .ok 64 ∧ e.length = 64 ∧
  ∀ (data : Slice) (tail : Bytes), data.WF → data.bytes = e ++ tail → PhyPort.unmarshal PhyPort.new data = .ok p

inductive PortsRT : List V → List Bytes → Prop
  | nil : PortsRT [] []
  | cons {p : V} {e : Bytes} {ps : List V} {es : List Bytes} : PortRT p e → PortsRT ps es → PortsRT (p :: ps) (e :: es)

theorem portRT_phyPort (no : Nat) (hw name : Bytes) (cfg st cur adv sup peer cs ms : Nat)
    (hno : no < 4294967296) (hhw : hw.length = 6) (hname : name.length = 16) (hcfg : cfg < 4294967296)
    (hst : st < 4294967296) (hcur : cur < 4294967296) (hadv : adv < 4294967296) (hsup : sup < 4294967296)
    (hpeer : peer < 4294967296) (hcs : cs < 4294967296) (hms : ms < 4294967296) :
    PortRT (phyPortV no hw name cfg st cur adv sup peer cs ms) (phyPortBytes no hw name cfg st cur adv sup peer cs ms) := by
  obtain ⟨h0, h1, h2, h3⟩ := phyPort_rt no hw name cfg st cur adv sup peer cs ms hno hhw hname hcfg hst hcur hadv hsup hpeer hcs hms
  refine ⟨h1, h2, ?_, h0, h3⟩
  simp only [phyPortV, PhyPort.len, hhw, hname]
  rfl

theorem ports_mapM2 (ps : List V) (es : List Bytes) (h : PortsRT ps es) :
    mapM2 PhyPort.lenM ps = .ok (es.map (fun _ => (64 : UInt16)), ps) ∧ mapM2 PhyPort.marshalM ps = .ok (es, ps) ∧
    es.flatten.length = 64 * es.length ∧ ((es.map (fun _ => (64 : UInt16))).map UInt16.toNat).sum = 64 * es.length := by
  induction h with
  | nil => exact ⟨rfl, rfl, rfl, rfl⟩
  | @cons p e ps es h1 _ ih =>
    obtain ⟨hm, hl, _, he, _⟩ := h1
    obtain ⟨i1, i2, i3, i4⟩ := ih
    refine ⟨by simp [mapM2, hl, i1], by simp [mapM2, hm, i2], ?_, ?_⟩
    · simp only [List.flatten_cons, List.length_append, List.length_cons, he, i3]; omega
    · simp only [List.map_cons, List.sum_cons, i4, List.length_cons]
      have : (64 : UInt16).toNat = 64 := rfl
      rw [this]; omega

/-- the port loop of SwitchFeatures.UnmarshalBinary: it decodes every port up to the end of the buffer — and keeps none -/
theorem ports_loop (data : Slice) (hd : data.WF) (ps : List V) (es : List Bytes) (h : PortsRT ps es) :
    ∀ (pre : Bytes) (ran : Bool) (fuel : Nat), data.bytes = pre ++ es.flatten → es.length < fuel →
      ∃ r, goLoop (σ := SwitchFeatures.St) fuel (fun s => s.next < data.len) (·.next)
        (fun s => do
          let d ← data.fromR s.next
          let p ← PhyPort.unmarshal PhyPort.new d
          let l ← PhyPort.len p
          pure { next := s.next + l.toNat, ran := true })
        { next := pre.length, ran := ran }
      = .ok { next := data.len, ran := r } := by
  induction h with
  | nil =>
    intro pre ran fuel hb hfuel
    have hl : data.len = pre.length := by
      rw [← Slice.bytes_length data hd, hb]; simp
    cases fuel with
    | zero => simp at hfuel
    | succ k => exact ⟨ran, by simp [goLoop, hl]⟩
  | @cons p e ps es h1 _ ih =>
    intro pre ran fuel hb hfuel
    obtain ⟨_, _, hlen, he, hdec⟩ := h1
    have hl : data.len = pre.length + (64 + es.flatten.length) := by
      rw [← Slice.bytes_length data hd, hb]
      simp only [List.flatten_cons, List.length_append, he]
    cases fuel with
    | zero => simp at hfuel
    | succ k =>
      obtain ⟨d, hd1, hd2, _, _⟩ := Slice.fromR_bytes data pre.length (by omega)
      have hdwf : d.WF := (Slice.fromR_wf data hd _ d hd1).1
      have hdb : d.bytes = e ++ es.flatten := by
        rw [hd2, hb, List.drop_left' rfl]; simp only [List.flatten_cons]
      unfold goLoop
      have hc : decide (pre.length < data.len) = true := by simp; omega
      have h64 : (64 : UInt16).toNat = 64 := rfl
      simp only [hc, if_true, hd1, Res.bind_ok, hdec d _ hdwf hdb, hlen, Res.pure_eq, h64]
      have hcur : ¬ (pre.length + 64 ≤ pre.length) := by omega
      simp only [hcur, if_false]
      obtain ⟨r, hr⟩ := ih (pre ++ e) true k (by rw [hb]; simp) (by simp only [List.length_cons] at hfuel; omega)
      simp only [List.length_append, he] at hr
      exact ⟨r, hr⟩

def switchFeaturesV (ver ln xid : Nat) (dpid : Bytes) (b nt ax : Nat) (pad : Bytes) (caps acts : Nat) (ports : List V) : V :=
  .obj "SwitchFeatures" [.obj "Header" [.num ver, .num Gen.openflow13.Type_FeaturesReply, .num ln, .num xid], .bytes dpid,
    .num b, .num nt, .num ax, .bytes pad, .num caps, .num acts, .list ports]

/-- SwitchFeatures through Parse (decoded into NewFeaturesReply(): 8-byte DPID, 2 pad bytes, no ports), the buffer holding
    exactly the message.  The encoder writes header (Length set), DPID, the 16 fixed bytes and the ports; the decoder walks
    over the ports and DISCARDS them: the result has the receiver's (empty) port list. -/
theorem switchFeatures_rt (ver xid : Nat) (dpid : Bytes) (b nt ax : Nat) (pad : Bytes) (caps acts : Nat)
    (ports : List V) (es : List Bytes)
    (hver : ver < 256) (hxid : xid < 4294967296) (hdp : dpid.length = 8) (hb32 : b < 4294967296) (hnt : nt < 256)
    (hax : ax < 256) (hpad : pad.length = 2) (hcaps : caps < 4294967296) (hacts : acts < 4294967296)
    (hps : PortsRT ports es) (hL : 32 + 64 * es.length < 65536) :
    let L := 32 + 64 * es.length
    let bs := [n8 ver, n8 Gen.openflow13.Type_FeaturesReply] ++ be16 (n16 L) ++ be32 (n32 xid) ++ dpid ++ be32 (n32 b)
      ++ [n8 nt, n8 ax] ++ pad ++ be32 (n32 caps) ++ be32 (n32 acts) ++ es.flatten
    (∀ ln0, SwitchFeatures.marshalM (switchFeaturesV ver ln0 xid dpid b nt ax pad caps acts ports)
      = .ok (bs, switchFeaturesV ver L xid dpid b nt ax pad caps acts ports)) ∧
    ∀ (depth : Nat) (data : Slice), data.WF → data.bytes = bs →
      parse depth data = .ok (switchFeaturesV ver L xid dpid b nt ax pad caps acts []) := by
  intro L bs
  obtain ⟨m1, m2, m3, m4⟩ := ports_mapM2 ports es hps
  have hbl : bs.length = L := by
    simp only [bs, List.length_append, be16_length, be32_length, List.length_cons, List.length_nil, hdp, hpad, m3, L]
  have hsum : (sum16 (es.map (fun _ => (64 : UInt16)))).toNat = 64 * es.length := by
    rw [sum16_toNat _ (by rw [m4]; omega), m4]
  have hlto : ((8 : UInt16) + n16 dpid.length + 16 + sum16 (es.map (fun _ => (64 : UInt16)))).toNat = L := by
    rw [UInt16.toNat_add, hsum, hdp]
    have : ((8 : UInt16) + n16 8 + 16).toNat = 32 := rfl
    rw [this]; simp only [L]; omega
  refine ⟨?_, ?_⟩
  · intro ln0
    have hlenM : ∀ ln, SwitchFeatures.lenM (switchFeaturesV ver ln xid dpid b nt ax pad caps acts ports) =
        .ok ((8 : UInt16) + n16 dpid.length + 16 + sum16 (es.map (fun _ => (64 : UInt16))),
          switchFeaturesV ver ln xid dpid b nt ax pad caps acts ports) := by
      intro ln
      simp only [switchFeaturesV, SwitchFeatures.lenM, m1, Res.bind_ok, Res.pure_eq]
    unfold SwitchFeatures.marshalM
    rw [hlenM]
    simp only [Res.bind_ok]
    rw [hlenM]
    have hu : V.u16 ((8 : UInt16) + n16 dpid.length + 16 + sum16 (es.map (fun _ => (64 : UInt16)))) = .num L := by
      simp only [V.u16, hlto]
    simp only [Res.bind_ok, switchFeaturesV, Header.setLength, Header.bytes, hu, m2, hlto, V.asBytes]
    obtain ⟨p1, p2, p3⟩ := pieces_copy es
    have hp : piecesLen ([pCopy ([n8 ver, n8 Gen.openflow13.Type_FeaturesReply] ++ be16 (n16 L) ++ be32 (n32 xid)), pCopy dpid,
        pU32 b, pU8 nt, pU8 ax, pCopy pad, pU32 caps, pU32 acts] ++ es.map pCopy) = L := by
      simp only [piecesLen, List.map_append, List.sum_append] at p1 ⊢
      rw [p1, m3]
      simp [pCopy, pU32, pU8, Piece.adv, hdp, hpad, L]
    have hpb : piecesBytes ([pCopy ([n8 ver, n8 Gen.openflow13.Type_FeaturesReply] ++ be16 (n16 L) ++ be32 (n32 xid)), pCopy dpid,
        pU32 b, pU8 nt, pU8 ax, pCopy pad, pU32 caps, pU32 acts] ++ es.map pCopy) = bs := by
      simp only [piecesBytes, List.map_append, List.flatten_append] at p2 ⊢
      rw [p2]
      simp [pCopy, pU32, pU8, Piece.bytes, bs]
    have := fill_exact' ([pCopy ([n8 ver, n8 Gen.openflow13.Type_FeaturesReply] ++ be16 (n16 L) ++ be32 (n32 xid)), pCopy dpid,
        pU32 b, pU8 nt, pU8 ax, pCopy pad, pU32 caps, pU32 acts] ++ es.map pCopy)
      (by
        intro p hp
        rcases List.mem_append.mp hp with h | h
        · simp only [List.mem_cons, List.not_mem_nil, or_false] at h
          rcases h with rfl | rfl | rfl | rfl | rfl | rfl | rfl | rfl <;> trivial
        · exact p3 p h)
    rw [hp, hpb] at this
    rw [this]
    rfl
  · intro depth data hdw hb
    have hlen : data.len = L := by rw [← Slice.bytes_length data hdw, hb, hbl]
    obtain ⟨d0, d1, d2, d3, d4, d5, d6, d7, rfl⟩ : ∃ d0 d1 d2 d3 d4 d5 d6 d7, dpid = [d0, d1, d2, d3, d4, d5, d6, d7] := by
      match dpid, hdp with
      | [d0, d1, d2, d3, d4, d5, d6, d7], _ => exact ⟨d0, d1, d2, d3, d4, d5, d6, d7, rfl⟩
    obtain ⟨q0, q1, rfl⟩ : ∃ q0 q1, pad = [q0, q1] := by
      match pad, hpad with
      | [q0, q1], _ => exact ⟨q0, q1, rfl⟩
    have hb' : data.bytes = ([n8 ver, n8 Gen.openflow13.Type_FeaturesReply] ++ be16 (n16 L) ++ be32 (n32 xid)) ++
        ([d0, d1, d2, d3, d4, d5, d6, d7] ++ (be32 (n32 b) ++ ([n8 nt, n8 ax] ++ ([q0, q1] ++ (be32 (n32 caps) ++
        (be32 (n32 acts) ++ es.flatten)))))) := by
      rw [hb]; simp only [bs, List.append_assoc]
    obtain ⟨_, _, hdec⟩ := header_roundtrip ver Gen.openflow13.Type_FeaturesReply L xid hver (by decide) hL hxid
    unfold parse
    obtain ⟨k, hk⟩ : ∃ k, max depth (data.cap + 1) = k + 1 := ⟨max depth (data.cap + 1) - 1, by omega⟩
    rw [hk]
    unfold parseD parseStep
    have e1 : data.bytes[1]? = some (n8 Gen.openflow13.Type_FeaturesReply) := by rw [hb']; rfl
    have ht6 : (n8 Gen.openflow13.Type_FeaturesReply).toNat = 6 := by decide
    have ht6' : (n8 6).toNat = 6 := by decide
    simp only [Slice.byteAt_eq, e1, Res.ofOption, Res.bind_ok, ht6, ht6',
      Gen.openflow13.Type_EchoRequest, Gen.openflow13.Type_EchoReply, Gen.openflow13.Type_GetConfigRequest,
      Gen.openflow13.Type_BarrierRequest, Gen.openflow13.Type_BarrierReply, Gen.openflow13.Type_FeaturesRequest,
      Gen.openflow13.Type_Hello, Gen.openflow13.Type_Error, Gen.openflow13.Type_Experimenter,
      Gen.openflow13.Type_FeaturesReply,
      Nat.reduceEqDiff, reduceIte, if_false, if_true, or_true, true_or, or_false, false_or, or_self]
    obtain ⟨s1, h11, h12, _, _⟩ := Slice.fromR_bytes data 8 (by simp only [L] at hlen; omega)
    obtain ⟨s2, h21, h22, _, _⟩ := Slice.fromR_bytes data 22 (by simp only [L] at hlen; omega)
    have hs1 : s1.bytes = [d0, d1, d2, d3, d4, d5, d6, d7] ++ (be32 (n32 b) ++ ([n8 nt, n8 ax] ++ ([q0, q1] ++ (be32 (n32 caps) ++
        (be32 (n32 acts) ++ es.flatten))))) := by rw [h12, hb']; rfl
    have hs2 : s2.bytes = [q0, q1] ++ (be32 (n32 caps) ++ (be32 (n32 acts) ++ es.flatten)) := by rw [h22, hb']; rfl
    have e16 : rd32 (data.bytes.drop 16) = some (n32 b) := by rw [hb']; exact rd32_be32 _ _
    have e20 : data.bytes[20]? = some (n8 nt) := by rw [hb']; rfl
    have e21 : data.bytes[21]? = some (n8 ax) := by rw [hb']; rfl
    have e24 : rd32 (data.bytes.drop 24) = some (n32 caps) := by rw [hb']; exact rd32_be32 _ _
    have e28 : rd32 (data.bytes.drop 28) = some (n32 acts) := by rw [hb']; exact rd32_be32 _ _
    obtain ⟨r, hloop⟩ := ports_loop data hdw ports es hps
      (([n8 ver, n8 Gen.openflow13.Type_FeaturesReply] ++ be16 (n16 L) ++ be32 (n32 xid)) ++
        ([d0, d1, d2, d3, d4, d5, d6, d7] ++ (be32 (n32 b) ++ ([n8 nt, n8 ax] ++ ([q0, q1] ++ (be32 (n32 caps) ++
        be32 (n32 acts))))))) false (data.len + 1)
      (by rw [hb']; simp only [List.append_assoc]) (by simp only [L] at hlen; omega)
    simp only [List.length_append, be16_length, be32_length, List.length_cons, List.length_nil, Nat.reduceAdd] at hloop
    simp only [SwitchFeatures.unmarshal, SwitchFeatures.new, msgTryU, hdec _ data _ hdw hb', Res.bind_ok, zeros_length,
      Nat.reduceAdd, h11, h21, Slice.u32From_eq, Slice.byteAt_eq, e16, e20, e21, e24, e28, Res.ofOption]
    erw [hloop]
    simp only [Res.bind_ok, Bool.false_and, Bool.false_eq_true, if_false, hs1, hs2,
      copyInto_prefix (zeros 8) [d0, d1, d2, d3, d4, d5, d6, d7] _ rfl, copyInto_prefix (zeros 2) [q0, q1] _ rfl, Res.pure_eq,
      u32_n32 b hb32, u8_n8 nt hnt, u8_n8 ax hax, u32_n32 caps hcaps, u32_n32 acts hacts, recoverR, switchFeaturesV]

end OFV.RT
