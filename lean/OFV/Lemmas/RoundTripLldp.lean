/-
  OFV.Lemmas.RoundTripLldp — helper lemmas for the LLDP round-trip theorems of C09b (Go: protocol/lldp.go):
  * the 7 + 9 bit type/length word of a TLV (`tlv_pack_toNat`, `tlv_lane`);
  * wire forms `tlvWire` (Chassis / Port TLV) and `ttlWire` (TTL TLV) and what `ChassisTLV/PortTLV.Write`,
    `TTLTLV.Write` make of them (`tlv_write_ok`, `tlv_write_short`, `ttl_write_ok`);
  * `LLDP.Write` on a frame Chassis ++ Port ++ TTL (`lldp_write_frame`), and on one cut inside the TTL TLV
    (`lldp_write_ttl_short`);
  * `LLDP.Read` is `copy(b, Chassis ++ Port ++ TTL)` for every buffer (`lldp_read_copy`, `copyInto_append`), in particular
    on a buffer that is long enough (`lldp_read_long`).
-/
import OFV.Model.Proto
import OFV.Lemmas.LaneBits
import OFV.Lemmas.RoundTripCore
namespace OFV.Lemmas.RT
open OFV OFV.Go OFV.Model OFV.Lemmas.Lane

/-- the packed word is `type · 512 + length` when the type fits 7 bits and the length 9 bits -/
theorem tlv_pack_toNat (ty : UInt8) (ln : UInt16) (h1 : ty.toNat < 128) (h2 : ln.toNat < 512) :
    (PTLV.packTypeLen ty ln).toNat = ty.toNat * 512 + ln.toNat := by
  unfold PTLV.packTypeLen
  simp only [UInt16.toNat_add, UInt16.toNat_or, UInt16.toNat_shiftLeft, UInt8.toNat_toUInt16, Nat.shiftLeft_eq]
  simp
  omega

/-- type (7 bits) and length (9 bits) come back exactly from the packed word -/
theorem tlv_lane (ty : UInt8) (ln : UInt16) (h1 : ty.toNat < 128) (h2 : ln.toNat < 512) :
    PTLV.unpackType (PTLV.packTypeLen ty ln) = ty ∧ PTLV.unpackLen (PTLV.packTypeLen ty ln) = ln := by
  have hp := tlv_pack_toNat ty ln h1 h2
  constructor
  · unfold PTLV.unpackType
    apply UInt8.toNat_inj.mp
    simp only [UInt16.toNat_toUInt8, UInt16.toNat_shiftRight, hp, Nat.shiftRight_eq_div_pow]
    have : (9 : UInt16).toNat % 16 = 9 := by decide
    rw [this]
    omega
  · unfold PTLV.unpackLen
    apply UInt16.toNat_inj.mp
    simp only [UInt16.toNat_and, hp]
    have : (0x01ff : UInt16).toNat = 2 ^ 9 - 1 := by decide
    rw [this, mask_and]
    omega

/-- wire form of a Chassis / Port TLV: packed type/length word, subtype, data -/
def tlvWire (ty ln st : Nat) (d : Bytes) : Bytes := be16 (PTLV.packTypeLen (n8 ty) (n16 ln)) ++ [n8 st] ++ d
/-- wire form of a TTL TLV: packed type/length word, seconds -/
def ttlWire (ty ln secs : Nat) : Bytes := be16 (PTLV.packTypeLen (n8 ty) (n16 ln)) ++ be16 (n16 secs)

theorem tlvWire_length (ty ln st : Nat) (d : Bytes) : (tlvWire ty ln st d).length = 3 + d.length := by
  simp [tlvWire]; omega

theorem ttlWire_length (ty ln secs : Nat) : (ttlWire ty ln secs).length = 4 := rfl

/-- the two bytes of a big-endian word give the word back -/
theorem be16_toNat (v : UInt16) : (hi16 v).toNat * 256 + (lo16 v).toNat = v.toNat := by
  have := v.toNat_lt
  simp only [hi16, lo16, UInt8.toNat_ofNat']
  omega

/-- `ChassisTLV/PortTLV.Write` on the wire form of in-range fields (data as long as `Length` says), whatever follows:
    the fields come back, `3 + Length` bytes are consumed, no error -/
theorem tlv_write_ok (kind : String) (ty ln st : Nat) (d tail : Bytes) (r1 r2 r3 r4 : V)
    (h1 : ty < 128) (h2 : ln < 512) (h3 : st < 256) (h4 : d.length = ln) :
    PTLV.write kind (.obj kind [r1, r2, r3, r4]) (tlvWire ty ln st d ++ tail)
      = .ok (3 + ln, false, .obj kind [.num ty, .num ln, .num st, .bytes d]) := by
  obtain ⟨l1, l2⟩ := tlv_lane (n8 ty) (n16 ln) (by rw [n8_toNat _ (by omega)]; exact h1)
    (by rw [n16_toNat _ (by omega)]; exact h2)
  unfold PTLV.write tlvWire
  simp only [be16_cells, List.cons_append, List.nil_append, ne_eq, not_true_eq_false, if_false, be16_toNat,
    UInt16.ofNat_toNat, l1, l2, n16_toNat ln (by omega), List.length_append, h4]
  rw [if_neg (by omega)]
  simp [u8_n8 ty (by omega), u16_n16 ln (by omega), u8_n8 st h3, take_prefix ln d tail h4]

/-- … and when fewer data bytes than `Length` follow: an error after 3 bytes, the data left as `Length` zero bytes -/
theorem tlv_write_short (kind : String) (ty ln st : Nat) (d : Bytes) (r1 r2 r3 r4 : V)
    (h1 : ty < 128) (h2 : ln < 512) (h3 : st < 256) (h4 : d.length < ln) :
    PTLV.write kind (.obj kind [r1, r2, r3, r4]) (tlvWire ty ln st d)
      = .ok (3, true, .obj kind [.num ty, .num ln, .num st, .bytes (zeros ln)]) := by
  obtain ⟨l1, l2⟩ := tlv_lane (n8 ty) (n16 ln) (by rw [n8_toNat _ (by omega)]; exact h1)
    (by rw [n16_toNat _ (by omega)]; exact h2)
  unfold PTLV.write tlvWire
  simp only [be16_cells, List.cons_append, List.nil_append, ne_eq, not_true_eq_false, if_false, be16_toNat,
    UInt16.ofNat_toNat, l1, l2, n16_toNat ln (by omega)]
  rw [if_pos h4]
  simp [u8_n8 ty (by omega), u16_n16 ln (by omega), u8_n8 st h3]

/-- `TTLTLV.Write` on the wire form of in-range fields, whatever follows: the fields come back, 4 bytes consumed -/
theorem ttl_write_ok (ty ln secs : Nat) (tail : Bytes) (r1 r2 r3 : V) (h1 : ty < 128) (h2 : ln < 512) (h3 : secs < 65536) :
    PTLV.ttlWrite (.obj "p.TTLTLV" [r1, r2, r3]) (ttlWire ty ln secs ++ tail)
      = .ok (4, false, .obj "p.TTLTLV" [.num ty, .num ln, .num secs]) := by
  obtain ⟨l1, l2⟩ := tlv_lane (n8 ty) (n16 ln) (by rw [n8_toNat _ (by omega)]; exact h1)
    (by rw [n16_toNat _ (by omega)]; exact h2)
  unfold PTLV.ttlWrite ttlWire
  simp only [be16_cells, List.cons_append, List.nil_append, be16_toNat, UInt16.ofNat_toNat, l1, l2, n16_toNat secs h3,
    u8_n8 ty (by omega), u16_n16 ln (by omega)]

/-- `TTLTLV.Write` on fewer than 4 bytes: an error (after 0 or 2 bytes) -/
theorem ttl_write_short (r1 r2 r3 : V) (b : Bytes) (h : b.length < 4) :
    ∃ n w, PTLV.ttlWrite (.obj "p.TTLTLV" [r1, r2, r3]) b = .ok (n, true, w) := by
  unfold PTLV.ttlWrite
  match b, h with
  | [], _ => exact ⟨_, _, rfl⟩
  | [_], _ => exact ⟨_, _, rfl⟩
  | [_, _], _ => exact ⟨_, _, rfl⟩
  | [_, _, _], _ => exact ⟨_, _, rfl⟩

/-- `LLDP.Write` on a frame — Chassis TLV, Port TLV, TTL TLV in a row, whatever follows: the three TLVs come back in
    their fields, and the byte count is the sum of the three -/
theorem lldp_write_frame (c1 c2 c3 c4 p1 p2 p3 p4 t1 t2 t3 : V) (ty ln st : Nat) (d : Bytes) (ty' ln' st' : Nat) (d' : Bytes)
    (t3' l3 secs : Nat) (tail : Bytes)
    (h1 : ty < 128) (h2 : ln < 512) (h3 : st < 256) (h4 : d.length = ln)
    (g1 : ty' < 128) (g2 : ln' < 512) (g3 : st' < 256) (g4 : d'.length = ln')
    (k1 : t3' < 128) (k2 : l3 < 512) (k3 : secs < 65536) :
    PLLDP.write (.obj "p.LLDP" [.obj "p.ChassisTLV" [c1, c2, c3, c4], .obj "p.PortTLV" [p1, p2, p3, p4],
          .obj "p.TTLTLV" [t1, t2, t3]])
        (tlvWire ty ln st d ++ (tlvWire ty' ln' st' d' ++ (ttlWire t3' l3 secs ++ tail)))
      = .ok (.obj "p.LLDP" [.obj "p.ChassisTLV" [.num ty, .num ln, .num st, .bytes d],
          .obj "p.PortTLV" [.num ty', .num ln', .num st', .bytes d'], .obj "p.TTLTLV" [.num t3', .num l3, .num secs]],
          (3 + ln) + (3 + ln') + 4) := by
  unfold PLLDP.write
  simp only [tlv_write_ok "p.ChassisTLV" ty ln st d _ c1 c2 c3 c4 h1 h2 h3 h4, Res.bind_ok]
  rw [if_neg (by omega)]
  have e1 : List.drop (3 + ln) (tlvWire ty ln st d ++ (tlvWire ty' ln' st' d' ++ (ttlWire t3' l3 secs ++ tail)))
      = tlvWire ty' ln' st' d' ++ (ttlWire t3' l3 secs ++ tail) :=
    List.drop_left' (by rw [tlvWire_length, h4])
  have e2 : List.drop (3 + ln + (3 + ln')) (tlvWire ty ln st d ++ (tlvWire ty' ln' st' d' ++ (ttlWire t3' l3 secs ++ tail)))
      = ttlWire t3' l3 secs ++ tail := by
    rw [← List.drop_drop, e1]
    exact List.drop_left' (by rw [tlvWire_length, g4])
  simp only [e1, tlv_write_ok "p.PortTLV" ty' ln' st' d' _ p1 p2 p3 p4 g1 g2 g3 g4, Res.bind_ok]
  rw [if_neg (by omega)]
  simp only [e2, ttl_write_ok t3' l3 secs tail t1 t2 t3 k1 k2 k3, Res.bind_ok]
  rfl

/-- … and when fewer than 4 bytes are left for the TTL TLV (a frame cut inside its last TLV): an error -/
theorem lldp_write_ttl_short (c1 c2 c3 c4 p1 p2 p3 p4 t1 t2 t3 : V) (ty ln st : Nat) (d : Bytes) (ty' ln' st' : Nat)
    (d' rest : Bytes)
    (h1 : ty < 128) (h2 : ln < 512) (h3 : st < 256) (h4 : d.length = ln)
    (g1 : ty' < 128) (g2 : ln' < 512) (g3 : st' < 256) (g4 : d'.length = ln') (hr : rest.length < 4) :
    PLLDP.write (.obj "p.LLDP" [.obj "p.ChassisTLV" [c1, c2, c3, c4], .obj "p.PortTLV" [p1, p2, p3, p4],
          .obj "p.TTLTLV" [t1, t2, t3]])
        (tlvWire ty ln st d ++ (tlvWire ty' ln' st' d' ++ rest)) = .err := by
  unfold PLLDP.write
  simp only [tlv_write_ok "p.ChassisTLV" ty ln st d _ c1 c2 c3 c4 h1 h2 h3 h4, Res.bind_ok]
  rw [if_neg (by omega)]
  have e1 : List.drop (3 + ln) (tlvWire ty ln st d ++ (tlvWire ty' ln' st' d' ++ rest))
      = tlvWire ty' ln' st' d' ++ rest :=
    List.drop_left' (by rw [tlvWire_length, h4])
  have e2 : List.drop (3 + ln + (3 + ln')) (tlvWire ty ln st d ++ (tlvWire ty' ln' st' d' ++ rest)) = rest := by
    rw [← List.drop_drop, e1]
    exact List.drop_left' (by rw [tlvWire_length, g4])
  simp only [e1, tlv_write_ok "p.PortTLV" ty' ln' st' d' _ p1 p2 p3 p4 g1 g2 g3 g4, Res.bind_ok]
  rw [if_neg (by omega)]
  obtain ⟨n, w, hw⟩ := ttl_write_short t1 t2 t3 rest hr
  simp only [e2, hw, Res.bind_ok]
  rfl

/-- equal byte counts give equal results -/
theorem ok_count (X : V) (a b : Nat) (h : a = b) : (Res.ok (X, a) : R (V × Nat)) = .ok (X, b) := by rw [h]

/-- `copy(dst, src)` with `len(src) ≤ len(dst)`: `src` followed by the untouched rest of `dst` -/
theorem copyInto_prefix (dst src : Bytes) (h : src.length ≤ dst.length) : copyInto dst src = src ++ dst.drop src.length := by
  simp [copyInto, List.take_of_length_le h]

/-- `copy(dst, src)` into an empty destination copies nothing -/
theorem copyInto_nil (src : Bytes) : copyInto [] src = [] := by simp [copyInto]

/-- copying `x ++ y` = copying `x`, then copying `y` into what is left of the destination behind the `min |dst| |x|`
    bytes the first copy wrote — the step `LLDP.Read` makes from one TLV to the next -/
theorem copyInto_append (dst x y : Bytes) :
    copyInto dst (x ++ y)
      = (copyInto dst x).take (min dst.length x.length) ++ copyInto ((copyInto dst x).drop (min dst.length x.length)) y := by
  by_cases h : x.length ≤ dst.length
  · rw [copyInto_prefix dst x h, Nat.min_eq_right h, take_prefix _ x _ rfl, List.drop_left' rfl]
    simp only [copyInto, List.take_append, List.length_drop, List.take_of_length_le h, List.length_append, List.drop_drop,
      List.append_assoc]
  · have h' : dst.length ≤ x.length := by omega
    have e : copyInto dst x = x.take dst.length := by
      simp [copyInto, List.drop_eq_nil_of_le h']
    rw [e, Nat.min_eq_left h', List.take_take, Nat.min_self,
      List.drop_eq_nil_of_le (by rw [List.length_take]; omega), copyInto_nil, List.append_nil]
    simp only [copyInto, List.take_append, List.length_append]
    rw [List.drop_eq_nil_of_le (by omega), List.append_nil, show dst.length - x.length = 0 by omega, List.take_zero,
      List.append_nil]

/-- `LLDP.Read(b)` is `copy(b, chassis bytes ++ port bytes ++ ttl bytes)`, for a buffer of ANY length: the three TLVs
    are written one behind the other, cut where the buffer ends, and the count is the number of bytes that fitted
    (the two TLV encodings in front are never empty, so the early exits of `Read` agree with this) -/
theorem lldp_read_copy (ch pt ttl : V) (cb pb tb b : Bytes)
    (r1 : PTLV.readBuf "p.ChassisTLV" ch = .ok cb) (r2 : PTLV.readBuf "p.PortTLV" pt = .ok pb)
    (r3 : PTLV.ttlReadBuf ttl = .ok tb) (hc : 0 < cb.length) (hp : 0 < pb.length) :
    PLLDP.read (.obj "p.LLDP" [ch, pt, ttl]) b
      = .ok (copyInto b (cb ++ (pb ++ tb)), min b.length (cb.length + pb.length + tb.length)) := by
  unfold PLLDP.read
  simp only [r1, Res.bind_ok]
  have hl1 : (copyInto b cb).length = b.length := copyInto_length b cb
  by_cases hm : min b.length cb.length = 0
  · rw [if_pos hm]
    have hb : b = [] := List.eq_nil_of_length_eq_zero (by omega)
    subst hb
    simp [copyInto_nil]
  · rw [if_neg hm]
    simp only [r2, Res.bind_ok]
    rw [copyInto_append b cb (pb ++ tb)]
    by_cases ho : min (b.length - min b.length cb.length) pb.length = 0
    · rw [if_pos ho]
      have hd : (copyInto b cb).drop (min b.length cb.length) = [] :=
        List.drop_eq_nil_of_le (by rw [hl1]; omega)
      rw [hd, copyInto_nil, copyInto_nil]
      congr 2
      omega
    · rw [if_neg ho]
      simp only [r3, Res.bind_ok]
      obtain ⟨m, hmm⟩ : ∃ m, m = min b.length cb.length := ⟨_, rfl⟩
      obtain ⟨b1, hb1⟩ : ∃ b1, b1 = copyInto b cb := ⟨_, rfl⟩
      rw [← hmm] at ho ⊢
      rw [← hb1]
      rw [← hb1] at hl1
      have hl2 : (b1.drop m).length = b.length - m := by rw [List.length_drop, hl1]
      have hlt : (b1.take m).length = m := by rw [List.length_take, hl1]; omega
      rw [copyInto_append (b1.drop m) pb tb, hl2]
      obtain ⟨o, hoo⟩ : ∃ o, o = min (b.length - m) pb.length := ⟨_, rfl⟩
      obtain ⟨X, hX⟩ : ∃ X, X = copyInto (b1.drop m) pb := ⟨_, rfl⟩
      rw [← hoo] at ho ⊢
      rw [← hX]
      have hlX : X.length = b.length - m := by rw [hX, copyInto_length, hl2]
      have e1 : (b1.take m ++ X).take (m + o) = b1.take m ++ X.take o := by
        rw [List.take_append, hlt, List.take_of_length_le (by omega), Nat.add_sub_cancel_left]
      have e2 : (b1.take m ++ X).drop (m + o) = X.drop o := by
        rw [List.drop_append, hlt, List.drop_eq_nil_of_le (by omega), Nat.add_sub_cancel_left, List.nil_append]
      rw [e1, e2, List.append_assoc]
      congr 2
      omega

/-- … into a buffer that holds the whole frame: the frame, then the untouched rest of the buffer; count = frame size -/
theorem lldp_read_long (ch pt ttl : V) (cb pb tb b : Bytes)
    (r1 : PTLV.readBuf "p.ChassisTLV" ch = .ok cb) (r2 : PTLV.readBuf "p.PortTLV" pt = .ok pb)
    (r3 : PTLV.ttlReadBuf ttl = .ok tb) (hc : 0 < cb.length) (hp : 0 < pb.length)
    (hb : cb.length + pb.length + tb.length ≤ b.length) :
    PLLDP.read (.obj "p.LLDP" [ch, pt, ttl]) b
      = .ok (cb ++ (pb ++ tb) ++ b.drop (cb.length + pb.length + tb.length), cb.length + pb.length + tb.length) := by
  rw [lldp_read_copy ch pt ttl cb pb tb b r1 r2 r3 hc hp, copyInto_prefix _ _ (by simp; omega), Nat.min_eq_right hb]
  simp [Nat.add_assoc]

end OFV.Lemmas.RT
