/-
  OFV.Lemmas.RoundTripLldp — helper lemmas for the LLDP round-trip theorems of C09b (Go: protocol/lldp.go):
  * the 7 + 9 bit type/length word of a TLV (`tlv_pack_toNat`, `tlv_lane`);
  * wire forms `tlvWire` (Chassis / Port TLV) and `ttlWire` (TTL TLV) and what `ChassisTLV/PortTLV.Write`,
    `TTLTLV.Write` make of them (`tlv_write_ok`, `tlv_write_short`, `ttl_write_ok`);
  * `LLDP.Write` on three Chassis-format TLVs in a row (`lldp_write_three`) — it parses Chassis, Port, Chassis;
  * `LLDP.Read` on a buffer that is long enough (`lldp_read_long`).
-/
import OFV.Model.Proto
import OFV.Lemmas.LaneBits
import OFV.Lemmas.RoundTripCore
namespace OFV.Lemmas.RT
open OFV OFV.Go OFV.Model OFV.Lemmas.Lane

/-- the packed word is `type · 512 + length` when the type fits 7 bits and the length 9 bits -/
theorem tlv_pack_toNat (ty : UInt8) (ln : UInt16) (h1 : ty.toNat < 128) (h2 : ln.toNat < 512) :
    (PTLV.packTypeLen ty ln).toNat = ty.toNat * 512 + ln.toNat := by
  unfold PTLV.packTypeLen
  simp only [UInt16.toNat_add, UInt16.toNat_or, UInt16.toNat_shiftLeft, UInt8.toNat_toUInt16, Nat.shiftLeft_eq]
  simp
  omega

/-- type (7 bits) and length (9 bits) come back exactly from the packed word -/
theorem tlv_lane (ty : UInt8) (ln : UInt16) (h1 : ty.toNat < 128) (h2 : ln.toNat < 512) :
    PTLV.unpackType (PTLV.packTypeLen ty ln) = ty ∧ PTLV.unpackLen (PTLV.packTypeLen ty ln) = ln := by
  have hp := tlv_pack_toNat ty ln h1 h2
  constructor
  · unfold PTLV.unpackType
    apply UInt8.toNat_inj.mp
    simp only [UInt16.toNat_toUInt8, UInt16.toNat_shiftRight, hp, Nat.shiftRight_eq_div_pow]
    have : (9 : UInt16).toNat % 16 = 9 := by decide
    rw [this]
    omega
  · unfold PTLV.unpackLen
    apply UInt16.toNat_inj.mp
    simp only [UInt16.toNat_and, hp]
    have : (0x01ff : UInt16).toNat = 2 ^ 9 - 1 := by decide
    rw [this, mask_and]
    omega

/-- wire form of a Chassis / Port TLV: packed type/length word, subtype, data -/
def tlvWire (ty ln st : Nat) (d : Bytes) : Bytes := be16 (PTLV.packTypeLen (n8 ty) (n16 ln)) ++ [n8 st] ++ d
/-- wire form of a TTL TLV: packed type/length word, seconds -/
def ttlWire (ty ln secs : Nat) : Bytes := be16 (PTLV.packTypeLen (n8 ty) (n16 ln)) ++ be16 (n16 secs)

theorem tlvWire_length (ty ln st : Nat) (d : Bytes) : (tlvWire ty ln st d).length = 3 + d.length := by
  simp [tlvWire]; omega

theorem ttlWire_length (ty ln secs : Nat) : (ttlWire ty ln secs).length = 4 := rfl

/-- the two bytes of a big-endian word give the word back -/
theorem be16_toNat (v : UInt16) : (hi16 v).toNat * 256 + (lo16 v).toNat = v.toNat := by
  have := v.toNat_lt
  simp only [hi16, lo16, UInt8.toNat_ofNat']
  omega

/-- `ChassisTLV/PortTLV.Write` on the wire form of in-range fields (data as long as `Length` says), whatever follows:
    the fields come back, `3 + Length` bytes are consumed, no error -/
theorem tlv_write_ok (kind : String) (ty ln st : Nat) (d tail : Bytes) (r1 r2 r3 r4 : V)
    (h1 : ty < 128) (h2 : ln < 512) (h3 : st < 256) (h4 : d.length = ln) :
    PTLV.write kind (.obj kind [r1, r2, r3, r4]) (tlvWire ty ln st d ++ tail)
      = .ok (3 + ln, false, .obj kind [.num ty, .num ln, .num st, .bytes d]) := by
  obtain ⟨l1, l2⟩ := tlv_lane (n8 ty) (n16 ln) (by rw [n8_toNat _ (by omega)]; exact h1)
    (by rw [n16_toNat _ (by omega)]; exact h2)
  unfold PTLV.write tlvWire
  simp only [be16_cells, List.cons_append, List.nil_append, ne_eq, not_true_eq_false, if_false, be16_toNat,
    UInt16.ofNat_toNat, l1, l2, n16_toNat ln (by omega), List.length_append, h4]
  rw [if_neg (by omega)]
  simp [u8_n8 ty (by omega), u16_n16 ln (by omega), u8_n8 st h3, take_prefix ln d tail h4]

/-- … and when fewer data bytes than `Length` follow: an error after 3 bytes, the data left as `Length` zero bytes -/
theorem tlv_write_short (kind : String) (ty ln st : Nat) (d : Bytes) (r1 r2 r3 r4 : V)
    (h1 : ty < 128) (h2 : ln < 512) (h3 : st < 256) (h4 : d.length < ln) :
    PTLV.write kind (.obj kind [r1, r2, r3, r4]) (tlvWire ty ln st d)
      = .ok (3, true, .obj kind [.num ty, .num ln, .num st, .bytes (zeros ln)]) := by
  obtain ⟨l1, l2⟩ := tlv_lane (n8 ty) (n16 ln) (by rw [n8_toNat _ (by omega)]; exact h1)
    (by rw [n16_toNat _ (by omega)]; exact h2)
  unfold PTLV.write tlvWire
  simp only [be16_cells, List.cons_append, List.nil_append, ne_eq, not_true_eq_false, if_false, be16_toNat,
    UInt16.ofNat_toNat, l1, l2, n16_toNat ln (by omega)]
  rw [if_pos h4]
  simp [u8_n8 ty (by omega), u16_n16 ln (by omega), u8_n8 st h3]

/-- `TTLTLV.Write` on the wire form of in-range fields, whatever follows: the fields come back, 4 bytes consumed -/
theorem ttl_write_ok (ty ln secs : Nat) (tail : Bytes) (r1 r2 r3 : V) (h1 : ty < 128) (h2 : ln < 512) (h3 : secs < 65536) :
    PTLV.ttlWrite (.obj "p.TTLTLV" [r1, r2, r3]) (ttlWire ty ln secs ++ tail)
      = .ok (4, false, .obj "p.TTLTLV" [.num ty, .num ln, .num secs]) := by
  obtain ⟨l1, l2⟩ := tlv_lane (n8 ty) (n16 ln) (by rw [n8_toNat _ (by omega)]; exact h1)
    (by rw [n16_toNat _ (by omega)]; exact h2)
  unfold PTLV.ttlWrite ttlWire
  simp only [be16_cells, List.cons_append, List.nil_append, be16_toNat, UInt16.ofNat_toNat, l1, l2, n16_toNat secs h3,
    u8_n8 ty (by omega), u16_n16 ln (by omega)]

/-- `LLDP.Write` on three Chassis-format TLVs in a row: the first goes to Chassis, the second to Port, the third to
    Chassis AGAIN (overwriting the first); the TTL field keeps the receiver's value -/
theorem lldp_write_three (c1 c2 c3 c4 p1 p2 p3 p4 ttl : V) (ty ln st : Nat) (d : Bytes) (ty' ln' st' : Nat) (d' : Bytes)
    (ty2 ln2 st2 : Nat) (d2 tail : Bytes)
    (h1 : ty < 128) (h2 : ln < 512) (h3 : st < 256) (h4 : d.length = ln)
    (g1 : ty' < 128) (g2 : ln' < 512) (g3 : st' < 256) (g4 : d'.length = ln')
    (k1 : ty2 < 128) (k2 : ln2 < 512) (k3 : st2 < 256) (k4 : d2.length = ln2) :
    PLLDP.write (.obj "p.LLDP" [.obj "p.ChassisTLV" [c1, c2, c3, c4], .obj "p.PortTLV" [p1, p2, p3, p4], ttl])
        (tlvWire ty ln st d ++ (tlvWire ty' ln' st' d' ++ (tlvWire ty2 ln2 st2 d2 ++ tail)))
      = .ok (.obj "p.LLDP" [.obj "p.ChassisTLV" [.num ty2, .num ln2, .num st2, .bytes d2],
          .obj "p.PortTLV" [.num ty', .num ln', .num st', .bytes d'], ttl], (3 + ln) + (3 + ln') + (3 + ln2)) := by
  unfold PLLDP.write
  simp only [tlv_write_ok "p.ChassisTLV" ty ln st d _ c1 c2 c3 c4 h1 h2 h3 h4, Res.bind_ok]
  rw [if_neg (by omega)]
  have e1 : List.drop (3 + ln) (tlvWire ty ln st d ++ (tlvWire ty' ln' st' d' ++ (tlvWire ty2 ln2 st2 d2 ++ tail)))
      = tlvWire ty' ln' st' d' ++ (tlvWire ty2 ln2 st2 d2 ++ tail) :=
    List.drop_left' (by rw [tlvWire_length, h4])
  have e2 : List.drop (3 + ln + (3 + ln')) (tlvWire ty ln st d ++ (tlvWire ty' ln' st' d' ++ (tlvWire ty2 ln2 st2 d2 ++ tail)))
      = tlvWire ty2 ln2 st2 d2 ++ tail := by
    rw [← List.drop_drop, e1]
    exact List.drop_left' (by rw [tlvWire_length, g4])
  simp only [e1, tlv_write_ok "p.PortTLV" ty' ln' st' d' _ p1 p2 p3 p4 g1 g2 g3 g4, Res.bind_ok]
  rw [if_neg (by omega)]
  simp only [e2, tlv_write_ok "p.ChassisTLV" ty2 ln2 st2 d2 _ _ _ _ _ k1 k2 k3 k4, Res.bind_ok]
  rfl

/-- … and when the third TLV is cut short (fewer data bytes than its length field says): an error -/
theorem lldp_write_third_short (c1 c2 c3 c4 p1 p2 p3 p4 ttl : V) (ty ln st : Nat) (d : Bytes) (ty' ln' st' : Nat) (d' : Bytes)
    (ty2 ln2 st2 : Nat) (d2 : Bytes)
    (h1 : ty < 128) (h2 : ln < 512) (h3 : st < 256) (h4 : d.length = ln)
    (g1 : ty' < 128) (g2 : ln' < 512) (g3 : st' < 256) (g4 : d'.length = ln')
    (k1 : ty2 < 128) (k2 : ln2 < 512) (k3 : st2 < 256) (k4 : d2.length < ln2) :
    PLLDP.write (.obj "p.LLDP" [.obj "p.ChassisTLV" [c1, c2, c3, c4], .obj "p.PortTLV" [p1, p2, p3, p4], ttl])
        (tlvWire ty ln st d ++ (tlvWire ty' ln' st' d' ++ tlvWire ty2 ln2 st2 d2)) = .err := by
  unfold PLLDP.write
  simp only [tlv_write_ok "p.ChassisTLV" ty ln st d _ c1 c2 c3 c4 h1 h2 h3 h4, Res.bind_ok]
  rw [if_neg (by omega)]
  have e1 : List.drop (3 + ln) (tlvWire ty ln st d ++ (tlvWire ty' ln' st' d' ++ tlvWire ty2 ln2 st2 d2))
      = tlvWire ty' ln' st' d' ++ tlvWire ty2 ln2 st2 d2 :=
    List.drop_left' (by rw [tlvWire_length, h4])
  have e2 : List.drop (3 + ln + (3 + ln')) (tlvWire ty ln st d ++ (tlvWire ty' ln' st' d' ++ tlvWire ty2 ln2 st2 d2))
      = tlvWire ty2 ln2 st2 d2 := by
    rw [← List.drop_drop, e1]
    exact List.drop_left' (by rw [tlvWire_length, g4])
  simp only [e1, tlv_write_ok "p.PortTLV" ty' ln' st' d' _ p1 p2 p3 p4 g1 g2 g3 g4, Res.bind_ok]
  rw [if_neg (by omega)]
  simp only [e2, tlv_write_short "p.ChassisTLV" ty2 ln2 st2 d2 _ _ _ _ k1 k2 k3 k4, Res.bind_ok]
  rfl

/-- a TTL TLV (type 3, length 2) followed by the two zero bytes of an End-of-LLDPDU TLV reads, as a Chassis-format
    TLV, as: type 3, length 2, subtype = high byte of the seconds, data = low byte of the seconds and one zero -/
theorem ttl_as_chassis (secs : Nat) (tail : Bytes) :
    ttlWire 3 2 secs ++ (0 :: 0 :: tail) = tlvWire 3 2 ((n16 secs).toNat / 256) [lo16 (n16 secs), 0] ++ (0 :: tail) := by
  simp only [ttlWire, tlvWire, be16_cells, List.cons_append, List.nil_append, hi16, n8]

/-- … and without anything behind it, as a Chassis-format TLV that is one data byte short -/
theorem ttl_as_chassis_short (secs : Nat) :
    ttlWire 3 2 secs = tlvWire 3 2 ((n16 secs).toNat / 256) [lo16 (n16 secs)] := by
  simp only [ttlWire, tlvWire, be16_cells, List.cons_append, List.nil_append, hi16, n8]

/-- equal byte counts give equal results -/
theorem ok_count (X : V) (a b : Nat) (h : a = b) : (Res.ok (X, a) : R (V × Nat)) = .ok (X, b) := by rw [h]

/-- `copy(dst, src)` with `len(src) ≤ len(dst)`: `src` followed by the untouched rest of `dst` -/
theorem copyInto_prefix (dst src : Bytes) (h : src.length ≤ dst.length) : copyInto dst src = src ++ dst.drop src.length := by
  simp [copyInto, List.take_of_length_le h]

/-- `LLDP.Read` into a buffer that holds either TLV: Chassis, Port and Chassis again are each copied to the START of
    the buffer, and the byte count is the sum of the three -/
theorem lldp_read_long (ty ln st : Nat) (d : Bytes) (ty' ln' st' : Nat) (d' : Bytes) (ttl : V) (b : Bytes)
    (h1 : 3 + d.length ≤ b.length) (h2 : 3 + d'.length ≤ b.length) :
    PLLDP.read (.obj "p.LLDP" [.obj "p.ChassisTLV" [.num ty, .num ln, .num st, .bytes d],
        .obj "p.PortTLV" [.num ty', .num ln', .num st', .bytes d'], ttl]) b
      = .ok (copyInto (copyInto (copyInto b (tlvWire ty ln st d)) (tlvWire ty' ln' st' d')) (tlvWire ty ln st d),
          (3 + d.length) + (3 + d'.length) + (3 + d.length)) := by
  have r1 : PTLV.readBuf "p.ChassisTLV" (.obj "p.ChassisTLV" [.num ty, .num ln, .num st, .bytes d]) = .ok (tlvWire ty ln st d) := rfl
  have r2 : PTLV.readBuf "p.PortTLV" (.obj "p.PortTLV" [.num ty', .num ln', .num st', .bytes d']) = .ok (tlvWire ty' ln' st' d') := rfl
  unfold PLLDP.read
  simp only [r1, r2, Res.bind_ok, tlvWire_length, Nat.min_eq_right h1, Nat.min_eq_right h2]
  rw [if_neg (by omega), if_neg (by omega)]

end OFV.Lemmas.RT
