/-
  OFV.Lemmas.RTMatch — round trip of MatchField (header word, value, optional mask, through DecodeMatchField) and of
  Match (type, length, field list, padding).  Used by OFV/Props/C05.lean.
-/
import OFV.Model.All
import OFV.Lemmas.Size
import OFV.Lemmas.RTBasic
import OFV.Lemmas.RTPayload
namespace OFV.RT
set_option linter.unusedSimpArgs false
open OFV OFV.Go OFV.Model

theorem fld_bits_fin : ∀ f : Fin 128,
    ((shl8 (n8 f.val) 1 &&& 1) == 1) = false ∧ (shl8 (n8 f.val) 1) >>> 1 = n8 f.val ∧
    (((shl8 (n8 f.val) 1 ||| 1) &&& 1) == 1) = true ∧ (shl8 (n8 f.val) 1 ||| 1) >>> 1 = n8 f.val := by
  decide

theorem fld_bits (f : Nat) (hf : f < 128) :
    ((shl8 (n8 f) 1 &&& 1) == 1) = false ∧ (shl8 (n8 f) 1) >>> 1 = n8 f ∧
    (((shl8 (n8 f) 1 ||| 1) &&& 1) == 1) = true ∧ (shl8 (n8 f) 1 ||| 1) >>> 1 = n8 f :=
  fld_bits_fin ⟨f, hf⟩

/-- the receiver `DecodeMatchField` allocates for (class, field) — classes OPENFLOW_BASIC and NXM_1 -/
def fieldRecv (c f ln : Nat) (hm : Bool) : Option V :=
  if c = Gen.openflow13.OXM_CLASS_OPENFLOW_BASIC then
    match decTarget basicFieldTable f with
    | .val r => some r
    | _ => none
  else if c = Gen.openflow13.OXM_CLASS_NXM_1 then
    match decTarget (nxm1FieldTable ln hm) f with
    | .val r => some r
    | _ => none
  else none

theorem decode_of_fieldRecv (c f ln : Nat) (hm : Bool) (r : V) (h : fieldRecv c f ln hm = some r) (d : Slice) :
    DecodeMatchField c f ln hm d = MatchPayload.unmarshal r d := by
  unfold fieldRecv at h
  unfold DecodeMatchField
  split at h
  · rename_i hc
    rw [if_pos hc]
    split at h
    · rename_i r' hr'; cases h; rw [hr']
    · cases h
  · rename_i hc
    rw [if_neg hc]
    split at h
    · rename_i hc2
      rw [if_pos hc2]
      split at h
      · rename_i r' hr'; cases h; rw [hr']
      · cases h
    · cases h

theorem fieldRecv_class (c f ln : Nat) (hm : Bool) (r : V) (h : fieldRecv c f ln hm = some r) :
    c = 32768 ∨ c = 1 := by
  unfold fieldRecv at h
  split at h
  · left; assumption
  · split at h
    · right; assumption
    · cases h


/-- well-formed match field: header numbers within their widths (Field has 7 bits), no experimenter id, a class/field the
    library's DecodeMatchField knows (receiver `r`), a well-formed value of the kind registered for it, and a
    well-formed mask of that kind exactly when HasMask is set (no mask: the Mask interface is nil) -/
def MatchFieldWF : V → Prop
  | .obj "MatchField" [.num c, .num f, .num hm, .num ln, .num eid, val, mask] =>
    c < 65536 ∧ f < 128 ∧ ln < 256 ∧ eid = 0 ∧ PayloadWF val ∧
    ∃ r, fieldRecv c f ln (hm != 0) = some r ∧ RecvOK val r ∧
      ((hm = 0 ∧ mask = .nil) ∨ (hm = 1 ∧ PayloadWF mask ∧ RecvOK mask r))
  | _ => False

/-- encoding of a well-formed field without mask -/
theorem matchField_encode_nomask (c f ln : Nat) (val mask : V) (hwf : PayloadWF val) (vb : Bytes) (v2 : V)
    (hvb : MatchPayload.marshalM val = .ok (vb, v2)) :
    let v := V.obj "MatchField" [.num c, .num f, .num 0, .num ln, .num 0, val, mask]
    MatchField.marshalM v = .ok (be16 (n16 c) ++ [shl8 (n8 f) 1, n8 ln] ++ vb, v) ∧
    MatchField.lenM v = .ok (UInt16.ofNat (4 + vb.length), v) := by
  intro v
  obtain ⟨lv, hl, hlv, hle⟩ := payload_len val hwf vb v2 hvb
  obtain ⟨bs', he'⟩ := payload_encode val hwf
  rw [he'] at hvb; cases hvb
  have hlen : MatchField.lenM v = .ok (4 + lv, v) := by
    simp only [v, MatchField.lenM, hl, Res.bind_ok, if_true, Res.pure_eq]
  have h4 : (4 + lv : UInt16).toNat = 4 + vb.length := by
    rw [UInt16.toNat_add]; simp [hlv]; omega
  have h4' : (4 + lv : UInt16) = UInt16.ofNat (4 + vb.length) := by
    apply UInt16.toNat_inj.mp; rw [h4]; simp [UInt16.toNat_ofNat']; omega
  refine ⟨?_, by rw [hlen, h4']⟩
  unfold MatchField.marshalM
  rw [hlen]
  simp only [Res.bind_ok, v, he', if_true, h4]
  have hp : 4 + vb.length = piecesLen [pU16 c, .put [shl8 (n8 f) 1], pU8 ln, pCopy vb] := by
    simp [piecesLen, Piece.adv, pU16, pU8, pCopy]; omega
  rw [hp, fill_exact' _ (by intro p hp; simp [pU16, pU8, pCopy] at hp; rcases hp with rfl | rfl | rfl | rfl <;> trivial)]
  simp [piecesBytes, Piece.bytes, pU16, pU8, pCopy]


/-- encoding of a well-formed field with mask -/
theorem matchField_encode_mask (c f ln : Nat) (val mask : V) (hwf : PayloadWF val) (hwfm : PayloadWF mask)
    (vb mb : Bytes) (v2 m2 : V)
    (hvb : MatchPayload.marshalM val = .ok (vb, v2)) (hmb : MatchPayload.marshalM mask = .ok (mb, m2)) :
    let v := V.obj "MatchField" [.num c, .num f, .num 1, .num ln, .num 0, val, mask]
    MatchField.marshalM v = .ok (be16 (n16 c) ++ [shl8 (n8 f) 1 ||| 1, n8 ln] ++ vb ++ mb, v) ∧
    MatchField.lenM v = .ok (UInt16.ofNat (4 + vb.length + mb.length), v) := by
  intro v
  obtain ⟨lv, hl, hlv, hle⟩ := payload_len val hwf vb v2 hvb
  obtain ⟨lm, hlm, hlmv, hlme⟩ := payload_len mask hwfm mb m2 hmb
  obtain ⟨bs', he'⟩ := payload_encode val hwf
  rw [he'] at hvb; cases hvb
  obtain ⟨bs'', he''⟩ := payload_encode mask hwfm
  rw [he''] at hmb; cases hmb
  have hlen : MatchField.lenM v = .ok (4 + lv + lm, v) := by
    simp only [v, MatchField.lenM, hl, hlm, Res.bind_ok, Res.pure_eq]
    rfl
  have h4 : (4 + lv + lm : UInt16).toNat = 4 + vb.length + mb.length := by
    rw [UInt16.toNat_add, UInt16.toNat_add]; simp [hlv, hlmv]; omega
  have h4' : (4 + lv + lm : UInt16) = UInt16.ofNat (4 + vb.length + mb.length) := by
    apply UInt16.toNat_inj.mp; rw [h4]; simp [UInt16.toNat_ofNat']; omega
  refine ⟨?_, by rw [hlen, h4']⟩
  unfold MatchField.marshalM
  rw [hlen]
  simp only [Res.bind_ok, v, he', he'', h4]
  have hp : 4 + vb.length + mb.length = piecesLen [pU16 c, .put [shl8 (n8 f) 1 ||| 1], pU8 ln, pCopy vb, pCopy mb] := by
    simp [piecesLen, Piece.adv, pU16, pU8, pCopy]; omega
  have h10 : ((1 : Nat) = 0) = False := by simp
  simp only [h10, if_false, Res.bind_ok]
  rw [hp, fill_exact' _ (by intro p hp; simp [pU16, pU8, pCopy] at hp; rcases hp with rfl | rfl | rfl | rfl | rfl <;> trivial)]
  simp [piecesBytes, Piece.bytes, pU16, pU8, pCopy]

theorem matchField_decode_nomask (c f ln : Nat) (val : V) (hc : c < 65536) (hf : f < 128) (hln : ln < 256)
    (hwf : PayloadWF val) (r : V) (hr : fieldRecv c f ln false = some r) (hro : RecvOK val r)
    (vb : Bytes) (v2 : V) (hvb : MatchPayload.marshalM val = .ok (vb, v2))
    (data : Slice) (hd : data.WF) (tail : Bytes)
    (hb : data.bytes = (be16 (n16 c) ++ [shl8 (n8 f) 1, n8 ln] ++ vb) ++ tail) :
    MatchField.unmarshal MatchField.zero data =
      .ok (.obj "MatchField" [.num c, .num f, .num 0, .num ln, .num 0, val, .nil]) := by
  obtain ⟨lv, hl, hlv, hle⟩ := payload_len val hwf vb v2 hvb
  obtain ⟨hb1, hb2, hb3, hb4⟩ := fld_bits f hf
  have hlen := Slice.len_ge_of_bytes data _ _ hb
  simp at hlen
  have hcls := fieldRecv_class c f ln false r hr
  unfold MatchField.unmarshal MatchField.zero
  simp only [Slice.u16From_eq, Slice.byteAt_eq, hb, List.drop_zero, List.append_assoc, rd16_be16, Res.ofOption,
    Res.bind_ok]
  have e2 : (be16 (n16 c) ++ ([shl8 (n8 f) 1, n8 ln] ++ (vb ++ tail)))[2]? = some (shl8 (n8 f) 1) := rfl
  have e3 : (be16 (n16 c) ++ ([shl8 (n8 f) 1, n8 ln] ++ (vb ++ tail)))[3]? = some (n8 ln) := rfl
  simp only [e2, e3, Res.bind_ok, hb1, hb2, n16_toNat c hc]
  have hne : ¬ c = Gen.openflow13.OXM_CLASS_EXPERIMENTER := by
    rcases hcls with h | h <;> (rw [h]; decide)
  rw [if_neg hne]
  simp only [Res.bind_ok, Res.pure_eq]
  obtain ⟨t, ht1, ht2, ht3, _⟩ := Slice.fromR_bytes data 4 (by omega)
  have h4 : (4 : UInt16).toNat = 4 := rfl
  rw [h4, ht1]
  simp only [Res.bind_ok, n8_toNat f (by omega), n8_toNat ln hln]
  have htb : t.bytes = vb ++ tail := by
    rw [ht2, hb]; rfl
  have htwf : t.WF := (Slice.fromR_wf data hd 4 t ht1).1
  rw [decode_of_fieldRecv c f ln false r hr t, payload_decode val r hwf hro vb v2 hvb t htwf tail htb]
  simp only [Res.bind_ok, hl]
  simp [V.u16, V.u8, V.bool, n16_toNat c hc, n8_toNat f (by omega), n8_toNat ln hln]


theorem matchField_decode_mask (c f ln : Nat) (val mask : V) (hc : c < 65536) (hf : f < 128) (hln : ln < 256)
    (hwf : PayloadWF val) (hwfm : PayloadWF mask) (r : V) (hr : fieldRecv c f ln true = some r)
    (hro : RecvOK val r) (hrom : RecvOK mask r)
    (vb mb : Bytes) (v2 m2 : V) (hvb : MatchPayload.marshalM val = .ok (vb, v2))
    (hmb : MatchPayload.marshalM mask = .ok (mb, m2))
    (data : Slice) (hd : data.WF) (tail : Bytes)
    (hb : data.bytes = (be16 (n16 c) ++ [shl8 (n8 f) 1 ||| 1, n8 ln] ++ vb ++ mb) ++ tail) :
    MatchField.unmarshal MatchField.zero data =
      .ok (.obj "MatchField" [.num c, .num f, .num 1, .num ln, .num 0, val, mask]) := by
  obtain ⟨lv, hl, hlv, hle⟩ := payload_len val hwf vb v2 hvb
  obtain ⟨lm, hlm, hlmv, hlme⟩ := payload_len mask hwfm mb m2 hmb
  obtain ⟨hb1, hb2, hb3, hb4⟩ := fld_bits f hf
  have hlen := Slice.len_ge_of_bytes data _ _ hb
  simp at hlen
  have hcls := fieldRecv_class c f ln true r hr
  unfold MatchField.unmarshal MatchField.zero
  simp only [Slice.u16From_eq, Slice.byteAt_eq, hb, List.drop_zero, List.append_assoc, rd16_be16, Res.ofOption,
    Res.bind_ok]
  have e2 : (be16 (n16 c) ++ ([shl8 (n8 f) 1 ||| 1, n8 ln] ++ (vb ++ (mb ++ tail))))[2]? = some (shl8 (n8 f) 1 ||| 1) := rfl
  have e3 : (be16 (n16 c) ++ ([shl8 (n8 f) 1 ||| 1, n8 ln] ++ (vb ++ (mb ++ tail))))[3]? = some (n8 ln) := rfl
  simp only [e2, e3, Res.bind_ok, hb3, hb4, n16_toNat c hc]
  have hne : ¬ c = Gen.openflow13.OXM_CLASS_EXPERIMENTER := by
    rcases hcls with h | h <;> (rw [h]; decide)
  rw [if_neg hne]
  simp only [Res.bind_ok, Res.pure_eq]
  obtain ⟨t, ht1, ht2, ht3, _⟩ := Slice.fromR_bytes data 4 (by omega)
  have h4 : (4 : UInt16).toNat = 4 := rfl
  rw [h4, ht1]
  simp only [Res.bind_ok, n8_toNat f (by omega), n8_toNat ln hln]
  have htb : t.bytes = vb ++ (mb ++ tail) := by
    rw [ht2, hb]; simp only [List.append_assoc]; rfl
  have htwf : t.WF := (Slice.fromR_wf data hd 4 t ht1).1
  rw [decode_of_fieldRecv c f ln true r hr t, payload_decode val r hwf hro vb v2 hvb t htwf _ htb]
  simp only [Res.bind_ok, hl, if_true]
  have h4l : (4 + lv : UInt16).toNat = 4 + vb.length := by
    rw [UInt16.toNat_add]; simp [hlv]; omega
  obtain ⟨t2, hu1, hu2, hu3, _⟩ := Slice.fromR_bytes data (4 + vb.length) (by omega)
  rw [h4l, hu1]
  have hub : t2.bytes = mb ++ tail := by
    rw [hu2, hb]
    simp only [List.append_assoc]
    have : (be16 (n16 c) ++ ([shl8 (n8 f) 1 ||| 1, n8 ln] ++ (vb ++ (mb ++ tail))))
        = (be16 (n16 c) ++ [shl8 (n8 f) 1 ||| 1, n8 ln] ++ vb) ++ (mb ++ tail) := by simp
    rw [this]
    apply List.drop_left'
    simp; omega
  have huwf : t2.WF := (Slice.fromR_wf data hd _ t2 hu1).1
  simp only [Res.bind_ok]
  rw [decode_of_fieldRecv c f ln true r hr t2, payload_decode mask r hwfm hrom mb m2 hmb t2 huwf _ hub]
  simp only [Res.bind_ok, hlm]
  simp [V.u16, V.u8, V.bool, n16_toNat c hc, n8_toNat f (by omega), n8_toNat ln hln]

/-- MatchField round trip: a well-formed field encodes (Len() = size of the encoding, which is between 4 and 514 bytes), and
    decoding its encoding followed by anything gives the field back -/
theorem matchField_roundtrip (v : V) (hwf : MatchFieldWF v) :
    ∃ bs, MatchField.marshalM v = .ok (bs, v) ∧ MatchField.lenM v = .ok (UInt16.ofNat bs.length, v) ∧
      4 ≤ bs.length ∧ bs.length ≤ 514 ∧
      ∀ (data : Slice) (tail : Bytes), data.WF → data.bytes = bs ++ tail →
        MatchField.unmarshal MatchField.zero data = .ok v := by
  unfold MatchFieldWF at hwf
  split at hwf
  · rename_i c f hm ln eid val mask
    obtain ⟨hc, hf, hln, rfl, hwv, r, hr, hro, hm⟩ := hwf
    obtain ⟨vb, hvb⟩ := payload_encode val hwv
    obtain ⟨_, _, _, hle⟩ := payload_len val hwv vb val hvb
    rcases hm with ⟨rfl, rfl⟩ | ⟨rfl, hwm, hrom⟩
    · obtain ⟨h1, h2⟩ := matchField_encode_nomask c f ln val .nil hwv vb val hvb
      have hL : (be16 (n16 c) ++ [shl8 (n8 f) 1, n8 ln] ++ vb).length = 4 + vb.length := by
        simp only [List.length_append, be16_length, List.length_cons, List.length_nil]
      refine ⟨_, h1, by rw [h2, hL], by omega, by omega, ?_⟩
      · intro data tail hd hb
        exact matchField_decode_nomask c f ln val hc hf hln hwv r hr hro vb val hvb data hd tail hb
    · obtain ⟨mb, hmb⟩ := payload_encode mask hwm
      obtain ⟨_, _, _, hlem⟩ := payload_len mask hwm mb mask hmb
      obtain ⟨h1, h2⟩ := matchField_encode_mask c f ln val mask hwv hwm vb mb val mask hvb hmb
      have hL : (be16 (n16 c) ++ [shl8 (n8 f) 1 ||| 1, n8 ln] ++ vb ++ mb).length = 4 + vb.length + mb.length := by
        simp only [List.length_append, be16_length, List.length_cons, List.length_nil]
      refine ⟨_, h1, by rw [h2, hL], by omega, by omega, ?_⟩
      · intro data tail hd hb
        exact matchField_decode_mask c f ln val mask hc hf hln hwv hwm r hr hro hrom vb mb val mask hvb hmb data hd tail hb
  · exact absurd hwf id


/-! ### Match -/

/-- what `matchField_roundtrip` gives for one field `f` with encoding `e` -/
def FieldRT (f : V) (e : Bytes) : Prop :=
  MatchField.marshalM f = .ok (e, f) ∧ MatchField.lenM f = .ok (UInt16.ofNat e.length, f) ∧
  4 ≤ e.length ∧ e.length ≤ 514 ∧
  ∀ (data : Slice) (tail : Bytes), data.WF → data.bytes = e ++ tail →
    MatchField.unmarshal MatchField.zero data = .ok f

/-- fields paired with their encodings -/
inductive AllRT : List V → List Bytes → Prop
  | nil : AllRT [] []
  | cons {f : V} {e : Bytes} {fs : List V} {es : List Bytes} : FieldRT f e → AllRT fs es → AllRT (f :: fs) (e :: es)

theorem fields_encs (fs : List V) (h : ∀ f ∈ fs, MatchFieldWF f) : ∃ encs, AllRT fs encs := by
  induction fs with
  | nil => exact ⟨[], .nil⟩
  | cons f fs ih =>
    obtain ⟨e, he⟩ := matchField_roundtrip f (h f (by simp))
    obtain ⟨es, hes⟩ := ih (fun g hg => h g (by simp [hg]))
    exact ⟨e :: es, .cons he hes⟩

theorem mapM2_marshal (fs : List V) (encs : List Bytes) (h : AllRT fs encs) :
    mapM2 MatchField.marshalM fs = .ok (encs, fs) ∧
    mapM2 MatchField.lenM fs = .ok (encs.map (fun e => UInt16.ofNat e.length), fs) := by
  induction h with
  | nil => exact ⟨rfl, rfl⟩
  | cons h1 _ ih =>
    obtain ⟨hm, hl, _⟩ := h1
    constructor <;> simp [mapM2, hm, hl, ih.1, ih.2]

theorem flatten_len_ge (encs : List Bytes) (h : ∀ e ∈ encs, 4 ≤ e.length) : 4 * encs.length ≤ encs.flatten.length := by
  induction encs with
  | nil => simp
  | cons e es ih =>
    have h1 := h e (by simp)
    have h2 := ih (fun g hg => h g (by simp [hg]))
    simp only [List.flatten_cons, List.length_append, List.length_cons]
    omega

theorem forall2_bounds (fs : List V) (encs : List Bytes) (h : AllRT fs encs) :
    ∀ e ∈ encs, 4 ≤ e.length ∧ e.length ≤ 514 := by
  induction h with
  | nil => intro e he; cases he
  | cons h1 _ ih =>
    intro e he
    rcases List.mem_cons.mp he with rfl | he
    · exact ⟨h1.2.2.1, h1.2.2.2.1⟩
    · exact ih e he

/-- the field loop of Match.UnmarshalBinary over the encodings of well-formed fields -/
theorem match_loop (data : Slice) (hd : data.WF) (ln : Nat) (fs : List V) (encs : List Bytes)
    (h : AllRT fs encs) :
    ∀ (pre rest : Bytes) (acc : List V) (fuel : Nat),
      data.bytes = pre ++ encs.flatten ++ rest → ln = pre.length + encs.flatten.length → encs.length < fuel →
      goLoop (σ := Match.St) fuel (fun s => !s.err && s.n < ln) (fun s => s.n + (if s.err then 1 else 0))
        (fun s => do
          let d ← data.fromR s.n
          match MatchField.unmarshal MatchField.zero d with
          | .ok f => do
            let (l, f) ← MatchField.lenM f
            pure { n := s.n + l.toNat, fields := s.fields ++ [f], err := false }
          | .err => pure { s with err := true }
          | .panic => .panic
          | .spin => .spin)
        { n := pre.length, fields := acc, err := false }
      = .ok { n := ln, fields := acc ++ fs, err := false } := by
  induction h with
  | nil =>
    intro pre rest acc fuel hb hln hfuel
    simp at hln
    subst hln
    cases fuel with
    | zero => simp at hfuel
    | succ k => simp [goLoop]
  | @cons f e fs es h1 _ ih =>
    intro pre rest acc fuel hb hln hfuel
    obtain ⟨hm, hl, h4, h514, hdec⟩ := h1
    cases fuel with
    | zero => simp at hfuel
    | succ k =>
      simp only [List.flatten_cons, List.length_append] at hln
      have hlen := Slice.bytes_length_le data
      rw [hb] at hlen
      simp only [List.flatten_cons, List.length_append] at hlen
      obtain ⟨t, ht1, ht2, _, _⟩ := Slice.fromR_bytes data pre.length (by omega)
      have htb : t.bytes = e ++ (es.flatten ++ rest) := by
        rw [ht2, hb]; simp only [List.flatten_cons, List.append_assoc]; exact List.drop_left' rfl
      have htwf : t.WF := (Slice.fromR_wf data hd _ t ht1).1
      have hto : (UInt16.ofNat e.length).toNat = e.length := by
        simp [UInt16.toNat_ofNat']; omega
      unfold goLoop
      have hcond : (!false && decide (pre.length < ln)) = true := by simp; omega
      simp only [hcond, if_true, ht1, Res.bind_ok, hdec t _ htwf htb, hl, Res.pure_eq, hto]
      have hcur : ¬ (pre.length + e.length + 0 ≤ pre.length + 0) := by omega
      simp only [Bool.false_eq_true, if_false, hcur]
      have := ih (pre ++ e) rest (acc ++ [f]) k (by rw [hb]; simp) (by simp only [List.length_append]; omega) (by simp only [List.length_cons] at hfuel; omega)
      simp only [List.length_append, List.append_assoc, List.cons_append, List.nil_append] at this
      exact this


/-- the size `MatchField.Len()` reports (0 when it fails) -/
def encLen (f : V) : Nat :=
  match MatchField.lenM f with
  | .ok (l, _) => l.toNat
  | _ => 0

/-- well-formed match: Type within 16 bits, well-formed fields, Length = 4 + the sizes of the fields (what NewMatch /
    AddField maintain), small enough for the padded size to fit 16 bits -/
def MatchWF : V → Prop
  | .obj "Match" [.num ty, .num ln, .list fs] =>
    ty < 65536 ∧ (∀ f ∈ fs, MatchFieldWF f) ∧ ln = 4 + (fs.map encLen).sum ∧ ln < 65529
  | _ => False

theorem encLen_sum (fs : List V) (encs : List Bytes) (h : AllRT fs encs) :
    (fs.map encLen).sum = encs.flatten.length ∧
    ((encs.map (fun e => UInt16.ofNat e.length)).map UInt16.toNat).sum = encs.flatten.length := by
  induction h with
  | nil => simp
  | @cons f e fs es h1 _ ih =>
    obtain ⟨_, hl, _, h514, _⟩ := h1
    have hto : (UInt16.ofNat e.length).toNat = e.length := by
      simp [UInt16.toNat_ofNat']; omega
    constructor
    · simp only [List.map_cons, List.sum_cons, List.flatten_cons, List.length_append, ih.1, encLen, hl, hto]
    · simp only [List.map_cons, List.sum_cons, List.flatten_cons, List.length_append, ih.2, hto]

theorem pieces_copy (encs : List Bytes) :
    piecesLen (encs.map pCopy) = encs.flatten.length ∧ piecesBytes (encs.map pCopy) = encs.flatten ∧
    ∀ p ∈ encs.map pCopy, p.Tight := by
  induction encs with
  | nil => simp [piecesLen, piecesBytes]
  | cons e es ih =>
    obtain ⟨h1, h2, h3⟩ := ih
    simp only [piecesLen, piecesBytes] at h1 h2
    refine ⟨?_, ?_, ?_⟩
    · simp [piecesLen, pCopy, Piece.adv] at h1 ⊢; omega
    · simp [piecesBytes, pCopy, Piece.bytes] at h2 ⊢; rw [h2]
    · intro p hp
      simp only [List.map_cons, List.mem_cons] at hp
      rcases hp with rfl | hp
      · trivial
      · exact h3 p hp

theorem round8_toNat (x : UInt16) (h : x.toNat + 7 < 65536) : (round8 x).toNat = (x.toNat + 7) / 8 * 8 := by
  unfold round8
  rw [UInt16.toNat_mul, UInt16.toNat_div, UInt16.toNat_add]
  have h7 : (7 : UInt16).toNat = 7 := rfl
  have h8 : (8 : UInt16).toNat = 8 := rfl
  rw [h7, h8, Nat.mod_eq_of_lt h]
  apply Nat.mod_eq_of_lt
  omega

/-- Match round trip -/
theorem match_roundtrip (v : V) (hwf : MatchWF v) :
    ∃ bs, Match.marshalM v = .ok (bs, v) ∧ Match.lenM v = .ok (UInt16.ofNat bs.length, v) ∧ bs.length % 8 = 0 ∧
      (∀ (data : Slice) (tail : Bytes), data.WF → data.bytes = bs ++ tail →
        Match.unmarshal Match.zero data = .ok v) ∧ 8 ≤ bs.length ∧ bs.length < 65536 := by
  unfold MatchWF at hwf
  split at hwf
  · rename_i ty ln fs
    obtain ⟨hty, hfs, hln, hlt⟩ := hwf
    obtain ⟨encs, hall⟩ := fields_encs fs hfs
    obtain ⟨hm, hl⟩ := mapM2_marshal fs encs hall
    obtain ⟨hs1, hs2⟩ := encLen_sum fs encs hall
    rw [hs1] at hln
    have hsum : (sum16 (encs.map (fun e => UInt16.ofNat e.length))).toNat = encs.flatten.length := by
      rw [sum16_toNat _ (by rw [hs2]; omega), hs2]
    have h4s : ((4 : UInt16) + sum16 (encs.map (fun e => UInt16.ofNat e.length))).toNat = ln := by
      rw [UInt16.toNat_add, hsum]
      have : (4 : UInt16).toNat = 4 := rfl
      rw [this]; omega
    have hr8 := round8_toNat ((4 : UInt16) + sum16 (encs.map (fun e => UInt16.ofNat e.length))) (by omega)
    rw [h4s] at hr8
    have hlenM : Match.lenM (.obj "Match" [.num ty, .num ln, .list fs]) =
        .ok (round8 (4 + sum16 (encs.map (fun e => UInt16.ofNat e.length))), .obj "Match" [.num ty, .num ln, .list fs]) := by
      simp only [Match.lenM, hl, Res.bind_ok, same]
    obtain ⟨hp1, hp2, hp3⟩ := pieces_copy encs
    have hpl : piecesLen (pU16 ty :: pU16 ln :: encs.map pCopy) = ln := by
      simp only [piecesLen, List.map_cons, List.sum_cons] at hp1 ⊢
      rw [hp1]; simp only [pU16, Piece.adv, be16_length]; omega
    have hpb : piecesBytes (pU16 ty :: pU16 ln :: encs.map pCopy) = be16 (n16 ty) ++ be16 (n16 ln) ++ encs.flatten := by
      simp only [piecesBytes, List.map_cons, List.flatten_cons] at hp2 ⊢
      rw [hp2]; simp only [pU16, Piece.bytes, List.append_assoc]
    have htight : ∀ p ∈ pU16 ty :: pU16 ln :: encs.map pCopy, p.Tight := by
      intro p hp
      simp only [List.mem_cons] at hp
      rcases hp with rfl | rfl | hp
      · trivial
      · trivial
      · exact hp3 p hp
    have hfill := fill_exact ((ln + 7) / 8 * 8) _ htight (by rw [hpl]; omega)
    rw [hpl, hpb] at hfill
    have hmar : Match.marshalM (.obj "Match" [.num ty, .num ln, .list fs]) =
        .ok (be16 (n16 ty) ++ be16 (n16 ln) ++ encs.flatten ++ zeros ((ln + 7) / 8 * 8 - ln),
          .obj "Match" [.num ty, .num ln, .list fs]) := by
      unfold Match.marshalM
      rw [hlenM]
      simp only [Res.bind_ok, hm, hr8, hfill, same]
    have hbl : (be16 (n16 ty) ++ be16 (n16 ln) ++ encs.flatten ++ zeros ((ln + 7) / 8 * 8 - ln)).length
        = (ln + 7) / 8 * 8 := by
      simp only [List.length_append, be16_length, zeros_length]; omega
    refine ⟨_, hmar, ?_, ?_, ?_, by rw [hbl]; omega, by rw [hbl]; omega⟩
    · rw [hlenM, hbl]
      congr 2
      apply UInt16.toNat_inj.mp
      rw [hr8]; simp [UInt16.toNat_ofNat']; omega
    · rw [hbl]; omega
    · intro data tail hd hb
      have hlen := Slice.len_ge_of_bytes data _ _ hb
      rw [hbl] at hlen
      unfold Match.unmarshal Match.unmarshalP Match.zero
      have e0 : rd16 (data.bytes.drop 0) = some (n16 ty) := by
        rw [hb]; simp only [List.drop_zero, List.append_assoc]; exact rd16_be16 _ _
      have e2 : rd16 (data.bytes.drop 2) = some (n16 ln) := by
        rw [hb]; simp only [List.append_assoc]
        have : List.drop 2 (be16 (n16 ty) ++ (be16 (n16 ln) ++ (encs.flatten ++ (zeros ((ln + 7) / 8 * 8 - ln) ++ tail))))
            = be16 (n16 ln) ++ (encs.flatten ++ (zeros ((ln + 7) / 8 * 8 - ln) ++ tail)) := rfl
        rw [this]; exact rd16_be16 _ _
      simp only [Slice.u16From_eq, e0, e2, Res.ofOption, Res.bind_ok, n16_toNat ln (by omega)]
      have hfl := flatten_len_ge encs (fun e he => (forall2_bounds fs encs hall e he).1)
      have hloop := match_loop data hd ln fs encs hall (be16 (n16 ty) ++ be16 (n16 ln))
        (zeros ((ln + 7) / 8 * 8 - ln) ++ tail) [] (data.len + 2)
        (by rw [hb]; simp only [List.append_assoc]) (by simp only [List.length_append, be16_length]; omega) (by omega)
      simp only [List.length_append, be16_length, List.nil_append, Nat.reduceAdd] at hloop
      erw [hloop]
      simp only [Res.bind_ok, Res.pure_eq]
      simp [V.u16, n16_toNat ty hty, n16_toNat ln (by omega)]
  · exact absurd hwf id

/-- the variant of the decoder that FlowMod / FlowStats use (result and error flag) -/
theorem unmarshalP_of_unmarshal (recv : V) (d : Slice) (v : V) (h : Match.unmarshal recv d = .ok v) :
    Match.unmarshalP recv d = .ok (v, false) := by
  unfold Match.unmarshal at h
  split at h
  · rename_i v' heq; cases h; exact heq
  all_goals cases h

/-- decoding into NewMatch() and into new(Match) is the same (only the receiver's field list is used) -/
theorem unmarshalP_new (d : Slice) : Match.unmarshalP Match.new d = Match.unmarshalP Match.zero d := rfl

end OFV.RT
