/-
  OFV.Lemmas.RTMatch — round trip of MatchField (header word, value, optional mask, through DecodeMatchField) and of
  Match (type, length, field list, padding).  Used by OFV/Props/C05.lean.
-/
import OFV.Model.All
import OFV.Lemmas.Size
import OFV.Lemmas.RTBasic
import OFV.Lemmas.RTPayload
namespace OFV.RT
set_option linter.unusedSimpArgs false
open OFV OFV.Go OFV.Model

theorem fld_bits_fin : ∀ f : Fin 128,
    ((shl8 (n8 f.val) 1 &&& 1) == 1) = false ∧ (shl8 (n8 f.val) 1) >>> 1 = n8 f.val ∧
    (((shl8 (n8 f.val) 1 ||| 1) &&& 1) == 1) = true ∧ (shl8 (n8 f.val) 1 ||| 1) >>> 1 = n8 f.val := by
  decide

theorem fld_bits (f : Nat) (hf : f < 128) :
    ((shl8 (n8 f) 1 &&& 1) == 1) = false ∧ (shl8 (n8 f) 1) >>> 1 = n8 f ∧
    (((shl8 (n8 f) 1 ||| 1) &&& 1) == 1) = true ∧ (shl8 (n8 f) 1 ||| 1) >>> 1 = n8 f :=
  fld_bits_fin ⟨f, hf⟩

/-- the receiver `DecodeMatchField` allocates for (class, field) — classes OPENFLOW_BASIC, NXM_1 and EXPERIMENTER -/
def fieldRecv (c f ln : Nat) (hm : Bool) : Option V :=
  if c = Gen.openflow13.OXM_CLASS_OPENFLOW_BASIC then
    match decTarget basicFieldTable f with
    | .val r => some r
    | _ => none
  else if c = Gen.openflow13.OXM_CLASS_NXM_1 then
    match decTarget (nxm1FieldTable ln hm) f with
    | .val r => some r
    | _ => none
  else if c = Gen.openflow13.OXM_CLASS_EXPERIMENTER then
    match decTarget experimenterFieldTable f with
    | .val r => some r
    | _ => none
  else none

theorem decode_of_fieldRecv (c f ln : Nat) (hm : Bool) (r : V) (h : fieldRecv c f ln hm = some r) (d : Slice) :
    DecodeMatchField c f ln hm d = MatchPayload.unmarshal r d := by
  unfold fieldRecv at h
  unfold DecodeMatchField
  split at h
  · rename_i hc
    rw [if_pos hc]
    split at h
    · rename_i r' hr'; cases h; rw [hr']
    · cases h
  · rename_i hc
    rw [if_neg hc]
    split at h
    · rename_i hc2
      rw [if_pos hc2]
      split at h
      · rename_i r' hr'; cases h; rw [hr']
      · cases h
    · rename_i hc2
      rw [if_neg hc2]
      split at h
      · rename_i hc3
        rw [if_pos hc3]
        split at h
        · rename_i r' hr'; cases h; rw [hr']
        · cases h
      · cases h

theorem fieldRecv_class (c f ln : Nat) (hm : Bool) (r : V) (h : fieldRecv c f ln hm = some r) :
    c = 32768 ∨ c = 1 ∨ c = 65535 := by
  unfold fieldRecv at h
  split at h
  · left; assumption
  · split at h
    · right; left; assumption
    · split at h
      · right; right; assumption
      · cases h

/-- the experimenter id a field of class `c` carries: the ONF id in the experimenter class, none (0) otherwise -/
def eidOf (c : Nat) : Nat :=
  if c = Gen.openflow13.OXM_CLASS_EXPERIMENTER then Gen.openflow13.ONF_EXPERIMENTER_ID else 0

/-- the bytes the encoder writes for it -/
def eidBytes (c : Nat) : Bytes :=
  if c = Gen.openflow13.OXM_CLASS_EXPERIMENTER then be32 (n32 Gen.openflow13.ONF_EXPERIMENTER_ID) else []

theorem eidBytes_length_le (c : Nat) : (eidBytes c).length ≤ 4 := by
  unfold eidBytes; split <;> simp

/-- well-formed match field: header numbers within their widths (Field has 7 bits); ExperimenterID = the ONF id exactly in the
    experimenter class and 0 otherwise; a class/field the library's DecodeMatchField knows (receiver `r`), a well-formed
    value of the kind registered for it, and a well-formed mask of that kind exactly when HasMask is set (no mask: the
    Mask interface is nil) -/
def MatchFieldWF : V → Prop
  | .obj "MatchField" [.num c, .num f, .num hm, .num ln, .num eid, val, mask] =>
    c < 65536 ∧ f < 128 ∧ ln < 256 ∧ eid = eidOf c ∧ PayloadWF val ∧
    ∃ r, fieldRecv c f ln (hm != 0) = some r ∧ RecvOK val r ∧
      ((hm = 0 ∧ mask = .nil) ∨ (hm = 1 ∧ PayloadWF mask ∧ RecvOK mask r))
  | _ => False

/-- Len() prefix and the pieces of the experimenter id, by class -/
theorem eid_facts (c : Nat) :
    ((if eidOf c = 0 then (4 : UInt16) else 8).toNat = 4 + (eidBytes c).length) ∧
    piecesLen (MatchField.eidPieces (.num (eidOf c))) = (eidBytes c).length ∧
    piecesBytes (MatchField.eidPieces (.num (eidOf c))) = eidBytes c ∧
    ∀ p ∈ MatchField.eidPieces (.num (eidOf c)), p.Tight := by
  unfold eidOf eidBytes MatchField.eidPieces
  by_cases hc : c = Gen.openflow13.OXM_CLASS_EXPERIMENTER
  · simp only [hc, if_true, V.asNat]
    have : ¬ Gen.openflow13.ONF_EXPERIMENTER_ID = 0 := by decide
    simp only [this, if_false]
    refine ⟨rfl, rfl, ?_, ?_⟩
    · simp [piecesBytes, pU32, Piece.bytes]
    · intro p hp; simp at hp; subst hp; trivial
  · simp only [hc, if_false, V.asNat, if_true]
    refine ⟨rfl, rfl, rfl, ?_⟩
    intro p hp; cases hp

/-- encoding of a well-formed field without mask -/
theorem matchField_encode_nomask (c f ln : Nat) (val mask : V) (hwf : PayloadWF val) (vb : Bytes) (v2 : V)
    (hvb : MatchPayload.marshalM val = .ok (vb, v2)) :
    let v := V.obj "MatchField" [.num c, .num f, .num 0, .num ln, .num (eidOf c), val, mask]
    MatchField.marshalM v = .ok (be16 (n16 c) ++ [shl8 (n8 f) 1, n8 ln] ++ eidBytes c ++ vb, v) ∧
    MatchField.lenM v = .ok (UInt16.ofNat (4 + (eidBytes c).length + vb.length), v) := by
  intro v
  obtain ⟨lv, hl, hlv, hle⟩ := payload_len val hwf vb v2 hvb
  obtain ⟨bs', he'⟩ := payload_encode val hwf
  rw [he'] at hvb; cases hvb
  obtain ⟨e1, e2, e3, e4⟩ := eid_facts c
  have hE := eidBytes_length_le c
  have hlen : MatchField.lenM v = .ok ((if eidOf c = 0 then (4 : UInt16) else 8) + lv, v) := by
    simp only [v, MatchField.lenM, hl, Res.bind_ok, if_true, Res.pure_eq]
  have h4 : ((if eidOf c = 0 then (4 : UInt16) else 8) + lv).toNat = 4 + (eidBytes c).length + vb.length := by
    rw [UInt16.toNat_add, e1, hlv]; omega
  have h4' : ((if eidOf c = 0 then (4 : UInt16) else 8) + lv) = UInt16.ofNat (4 + (eidBytes c).length + vb.length) := by
    apply UInt16.toNat_inj.mp; rw [h4]; simp [UInt16.toNat_ofNat']; omega
  refine ⟨?_, by rw [hlen, h4']⟩
  unfold MatchField.marshalM
  rw [hlen]
  simp only [Res.bind_ok, v, he', if_true, h4]
  have hp : piecesLen ([pU16 c, .put [shl8 (n8 f) 1], pU8 ln] ++ MatchField.eidPieces (.num (eidOf c)) ++ [pCopy vb])
      = 4 + (eidBytes c).length + vb.length := by
    simp only [piecesLen, List.map_append, List.sum_append] at e2 ⊢
    rw [e2]; simp [Piece.adv, pU16, pU8, pCopy]
  have ht : ∀ p ∈ [pU16 c, .put [shl8 (n8 f) 1], pU8 ln] ++ MatchField.eidPieces (.num (eidOf c)) ++ [pCopy vb], p.Tight := by
    intro p hp
    simp only [List.mem_append, List.mem_cons, List.not_mem_nil, or_false] at hp
    rcases hp with (h | h) | h
    · rcases h with rfl | rfl | rfl <;> trivial
    · exact e4 p h
    · subst h; trivial
  have := fill_exact' _ ht
  rw [hp] at this
  rw [this]
  simp only [piecesBytes, List.map_append, List.flatten_append] at e3 ⊢
  rw [e3]
  simp [Piece.bytes, pU16, pU8, pCopy]

/-- encoding of a well-formed field with mask -/
theorem matchField_encode_mask (c f ln : Nat) (val mask : V) (hwf : PayloadWF val) (hwfm : PayloadWF mask)
    (vb mb : Bytes) (v2 m2 : V)
    (hvb : MatchPayload.marshalM val = .ok (vb, v2)) (hmb : MatchPayload.marshalM mask = .ok (mb, m2)) :
    let v := V.obj "MatchField" [.num c, .num f, .num 1, .num ln, .num (eidOf c), val, mask]
    MatchField.marshalM v = .ok (be16 (n16 c) ++ [shl8 (n8 f) 1 ||| 1, n8 ln] ++ eidBytes c ++ vb ++ mb, v) ∧
    MatchField.lenM v = .ok (UInt16.ofNat (4 + (eidBytes c).length + vb.length + mb.length), v) := by
  intro v
  obtain ⟨lv, hl, hlv, hle⟩ := payload_len val hwf vb v2 hvb
  obtain ⟨lm, hlm, hlmv, hlme⟩ := payload_len mask hwfm mb m2 hmb
  obtain ⟨bs', he'⟩ := payload_encode val hwf
  rw [he'] at hvb; cases hvb
  obtain ⟨bs'', he''⟩ := payload_encode mask hwfm
  rw [he''] at hmb; cases hmb
  obtain ⟨e1, e2, e3, e4⟩ := eid_facts c
  have hE := eidBytes_length_le c
  have hlen : MatchField.lenM v = .ok ((if eidOf c = 0 then (4 : UInt16) else 8) + lv + lm, v) := by
    simp only [v, MatchField.lenM, hl, hlm, Res.bind_ok, Res.pure_eq]
    rfl
  have h4 : ((if eidOf c = 0 then (4 : UInt16) else 8) + lv + lm).toNat
      = 4 + (eidBytes c).length + vb.length + mb.length := by
    rw [UInt16.toNat_add, UInt16.toNat_add, e1, hlv, hlmv]; omega
  have h4' : ((if eidOf c = 0 then (4 : UInt16) else 8) + lv + lm)
      = UInt16.ofNat (4 + (eidBytes c).length + vb.length + mb.length) := by
    apply UInt16.toNat_inj.mp; rw [h4]; simp [UInt16.toNat_ofNat']; omega
  refine ⟨?_, by rw [hlen, h4']⟩
  unfold MatchField.marshalM
  rw [hlen]
  simp only [Res.bind_ok, v, he', he'', h4]
  have hp : piecesLen ([pU16 c, .put [shl8 (n8 f) 1 ||| 1], pU8 ln] ++ MatchField.eidPieces (.num (eidOf c)) ++ [pCopy vb, pCopy mb])
      = 4 + (eidBytes c).length + vb.length + mb.length := by
    simp only [piecesLen, List.map_append, List.sum_append] at e2 ⊢
    rw [e2]; simp [Piece.adv, pU16, pU8, pCopy]; omega
  have ht : ∀ p ∈ [pU16 c, .put [shl8 (n8 f) 1 ||| 1], pU8 ln] ++ MatchField.eidPieces (.num (eidOf c)) ++ [pCopy vb, pCopy mb],
      p.Tight := by
    intro p hp
    simp only [List.mem_append, List.mem_cons, List.not_mem_nil, or_false] at hp
    rcases hp with (h | h) | h
    · rcases h with rfl | rfl | rfl <;> trivial
    · exact e4 p h
    · rcases h with rfl | rfl <;> trivial
  have h10 : ((1 : Nat) = 0) = False := by simp
  simp only [h10, if_false, Res.bind_ok]
  have := fill_exact' _ ht
  rw [hp] at this
  rw [this]
  simp only [piecesBytes, List.map_append, List.flatten_append] at e3 ⊢
  rw [e3]
  simp [Piece.bytes, pU16, pU8, pCopy]

/-- the header part of MatchField.UnmarshalBinary: class, field/mask byte, length, experimenter id -/
theorem matchField_decode_head (c : Nat) (fld ln8 : UInt8) (hc : c < 65536) (_hcls : c = 32768 ∨ c = 1 ∨ c = 65535)
    (data : Slice) (rest : Bytes) (hb : data.bytes = be16 (n16 c) ++ [fld, ln8] ++ eidBytes c ++ rest) :
    data.u16From 0 = .ok (n16 c) ∧ data.byteAt 2 = .ok fld ∧ data.byteAt 3 = .ok ln8 ∧
    ((if (n16 c).toNat = Gen.openflow13.OXM_CLASS_EXPERIMENTER then do
        let e ← data.u32From 4
        if e.toNat = Gen.openflow13.ONF_EXPERIMENTER_ID then pure ((8 : UInt16), V.u32 e) else .err
      else pure ((4 : UInt16), V.num 0) : R (UInt16 × V))
      = .ok (UInt16.ofNat (4 + (eidBytes c).length), .num (eidOf c))) ∧
    data.bytes.drop (4 + (eidBytes c).length) = rest := by
  have hb' : data.bytes = be16 (n16 c) ++ ([fld, ln8] ++ (eidBytes c ++ rest)) := by
    rw [hb]; simp only [List.append_assoc]
  refine ⟨?_, ?_, ?_, ?_, ?_⟩
  · rw [Slice.u16From_eq, hb', List.drop_zero, rd16_be16]; rfl
  · rw [Slice.byteAt_eq, hb']; rfl
  · rw [Slice.byteAt_eq, hb']; rfl
  · rw [n16_toNat c hc]
    by_cases he : c = Gen.openflow13.OXM_CLASS_EXPERIMENTER
    · rw [if_pos he]
      have e4 : rd32 (data.bytes.drop 4) = some (n32 Gen.openflow13.ONF_EXPERIMENTER_ID) := by
        rw [hb']
        have : List.drop 4 (be16 (n16 c) ++ ([fld, ln8] ++ (eidBytes c ++ rest))) = eidBytes c ++ rest := rfl
        rw [this]; unfold eidBytes; rw [if_pos he]; exact rd32_be32 _ _
      have hv : (n32 Gen.openflow13.ONF_EXPERIMENTER_ID).toNat = Gen.openflow13.ONF_EXPERIMENTER_ID := by decide
      simp only [Slice.u32From_eq, e4, Res.ofOption, Res.bind_ok, hv, if_true, Res.pure_eq, eidBytes, eidOf, he,
        be32_length, V.u32]
      rfl
    · rw [if_neg he]
      simp only [eidBytes, eidOf, he, if_false, List.length_nil, Res.pure_eq]
      rfl
  · rw [hb']
    have : be16 (n16 c) ++ ([fld, ln8] ++ (eidBytes c ++ rest)) = (be16 (n16 c) ++ [fld, ln8] ++ eidBytes c) ++ rest := by
      simp only [List.append_assoc]
    rw [this]
    exact List.drop_left' (by simp only [List.length_append, be16_length, List.length_cons, List.length_nil])

theorem matchField_decode_nomask (c f ln : Nat) (val : V) (hc : c < 65536) (hf : f < 128) (hln : ln < 256)
    (hwf : PayloadWF val) (r : V) (hr : fieldRecv c f ln false = some r) (hro : RecvOK val r)
    (vb : Bytes) (v2 : V) (hvb : MatchPayload.marshalM val = .ok (vb, v2))
    (data : Slice) (hd : data.WF) (tail : Bytes)
    (hb : data.bytes = (be16 (n16 c) ++ [shl8 (n8 f) 1, n8 ln] ++ eidBytes c ++ vb) ++ tail) :
    MatchField.unmarshal MatchField.zero data =
      .ok (.obj "MatchField" [.num c, .num f, .num 0, .num ln, .num (eidOf c), val, .nil]) := by
  obtain ⟨lv, hl, hlv, hle⟩ := payload_len val hwf vb v2 hvb
  obtain ⟨hb1, hb2, hb3, hb4⟩ := fld_bits f hf
  have hE := eidBytes_length_le c
  have hlen := Slice.len_ge_of_bytes data _ _ hb
  simp only [List.length_append, be16_length, List.length_cons, List.length_nil] at hlen
  have hcls := fieldRecv_class c f ln false r hr
  obtain ⟨g1, g2, g3, g4, g5⟩ := matchField_decode_head c (shl8 (n8 f) 1) (n8 ln) hc hcls data (vb ++ tail)
    (by rw [hb]; simp only [List.append_assoc])
  unfold MatchField.unmarshal MatchField.zero
  simp only [g1, g2, g3, Res.bind_ok, hb1, hb2]
  rw [g4]
  have hton : (UInt16.ofNat (4 + (eidBytes c).length)).toNat = 4 + (eidBytes c).length := by
    simp [UInt16.toNat_ofNat']; omega
  obtain ⟨t, ht1, ht2, ht3, _⟩ := Slice.fromR_bytes data (4 + (eidBytes c).length) (by omega)
  have htb : t.bytes = vb ++ tail := by rw [ht2, g5]
  have htwf : t.WF := (Slice.fromR_wf data hd _ t ht1).1
  simp only [Res.bind_ok, hton, ht1, n16_toNat c hc, n8_toNat f (by omega), n8_toNat ln hln]
  rw [decode_of_fieldRecv c f ln false r hr t, payload_decode val r hwf hro vb v2 hvb t htwf tail htb]
  simp only [Res.bind_ok, hl]
  simp [V.u16, V.u8, V.bool, n16_toNat c hc, n8_toNat f (by omega), n8_toNat ln hln]

theorem matchField_decode_mask (c f ln : Nat) (val mask : V) (hc : c < 65536) (hf : f < 128) (hln : ln < 256)
    (hwf : PayloadWF val) (hwfm : PayloadWF mask) (r : V) (hr : fieldRecv c f ln true = some r)
    (hro : RecvOK val r) (hrom : RecvOK mask r)
    (vb mb : Bytes) (v2 m2 : V) (hvb : MatchPayload.marshalM val = .ok (vb, v2))
    (hmb : MatchPayload.marshalM mask = .ok (mb, m2))
    (data : Slice) (hd : data.WF) (tail : Bytes)
    (hb : data.bytes = (be16 (n16 c) ++ [shl8 (n8 f) 1 ||| 1, n8 ln] ++ eidBytes c ++ vb ++ mb) ++ tail) :
    MatchField.unmarshal MatchField.zero data =
      .ok (.obj "MatchField" [.num c, .num f, .num 1, .num ln, .num (eidOf c), val, mask]) := by
  obtain ⟨lv, hl, hlv, hle⟩ := payload_len val hwf vb v2 hvb
  obtain ⟨lm, hlm, hlmv, hlme⟩ := payload_len mask hwfm mb m2 hmb
  obtain ⟨hb1, hb2, hb3, hb4⟩ := fld_bits f hf
  have hE := eidBytes_length_le c
  have hlen := Slice.len_ge_of_bytes data _ _ hb
  simp only [List.length_append, be16_length, List.length_cons, List.length_nil] at hlen
  have hcls := fieldRecv_class c f ln true r hr
  obtain ⟨g1, g2, g3, g4, g5⟩ := matchField_decode_head c (shl8 (n8 f) 1 ||| 1) (n8 ln) hc hcls data (vb ++ (mb ++ tail))
    (by rw [hb]; simp only [List.append_assoc])
  unfold MatchField.unmarshal MatchField.zero
  simp only [g1, g2, g3, Res.bind_ok, hb3, hb4]
  rw [g4]
  have hton : (UInt16.ofNat (4 + (eidBytes c).length)).toNat = 4 + (eidBytes c).length := by
    simp [UInt16.toNat_ofNat']; omega
  obtain ⟨t, ht1, ht2, ht3, _⟩ := Slice.fromR_bytes data (4 + (eidBytes c).length) (by omega)
  have htb : t.bytes = vb ++ (mb ++ tail) := by rw [ht2, g5]
  have htwf : t.WF := (Slice.fromR_wf data hd _ t ht1).1
  simp only [Res.bind_ok, hton, ht1, n16_toNat c hc, n8_toNat f (by omega), n8_toNat ln hln]
  rw [decode_of_fieldRecv c f ln true r hr t, payload_decode val r hwf hro vb v2 hvb t htwf _ htb]
  simp only [Res.bind_ok, hl, if_true]
  have h4l : (UInt16.ofNat (4 + (eidBytes c).length) + lv).toNat = 4 + (eidBytes c).length + vb.length := by
    rw [UInt16.toNat_add, hton, hlv]; omega
  obtain ⟨t2, hu1, hu2, hu3, _⟩ := Slice.fromR_bytes data (4 + (eidBytes c).length + vb.length) (by omega)
  rw [h4l, hu1]
  have hub : t2.bytes = mb ++ tail := by
    rw [hu2]
    have : data.bytes.drop (4 + (eidBytes c).length + vb.length) = (data.bytes.drop (4 + (eidBytes c).length)).drop vb.length := by
      rw [List.drop_drop]
    rw [this, g5]
    exact List.drop_left' rfl
  have huwf : t2.WF := (Slice.fromR_wf data hd _ t2 hu1).1
  simp only [Res.bind_ok]
  rw [decode_of_fieldRecv c f ln true r hr t2, payload_decode mask r hwfm hrom mb m2 hmb t2 huwf _ hub]
  simp only [Res.bind_ok, hlm]
  simp [V.u16, V.u8, V.bool, n16_toNat c hc, n8_toNat f (by omega), n8_toNat ln hln]

/-- MatchField round trip: a well-formed field encodes (Len() = size of the encoding, which is between 4 and 518 bytes), and
    decoding its encoding followed by anything gives the field back -/
theorem matchField_roundtrip (v : V) (hwf : MatchFieldWF v) :
    ∃ bs, MatchField.marshalM v = .ok (bs, v) ∧ MatchField.lenM v = .ok (UInt16.ofNat bs.length, v) ∧
      4 ≤ bs.length ∧ bs.length ≤ 518 ∧
      ∀ (data : Slice) (tail : Bytes), data.WF → data.bytes = bs ++ tail →
        MatchField.unmarshal MatchField.zero data = .ok v := by
  unfold MatchFieldWF at hwf
  split at hwf
  · rename_i c f hm ln eid val mask
    obtain ⟨hc, hf, hln, rfl, hwv, r, hr, hro, hm⟩ := hwf
    obtain ⟨vb, hvb⟩ := payload_encode val hwv
    obtain ⟨_, _, _, hle⟩ := payload_len val hwv vb val hvb
    have hE := eidBytes_length_le c
    rcases hm with ⟨rfl, rfl⟩ | ⟨rfl, hwm, hrom⟩
    · obtain ⟨h1, h2⟩ := matchField_encode_nomask c f ln val .nil hwv vb val hvb
      have hL : (be16 (n16 c) ++ [shl8 (n8 f) 1, n8 ln] ++ eidBytes c ++ vb).length = 4 + (eidBytes c).length + vb.length := by
        simp only [List.length_append, be16_length, List.length_cons, List.length_nil]
      refine ⟨_, h1, by rw [h2, hL], by omega, by omega, ?_⟩
      · intro data tail hd hb
        exact matchField_decode_nomask c f ln val hc hf hln hwv r hr hro vb val hvb data hd tail hb
    · obtain ⟨mb, hmb⟩ := payload_encode mask hwm
      obtain ⟨_, _, _, hlem⟩ := payload_len mask hwm mb mask hmb
      obtain ⟨h1, h2⟩ := matchField_encode_mask c f ln val mask hwv hwm vb mb val mask hvb hmb
      have hL : (be16 (n16 c) ++ [shl8 (n8 f) 1 ||| 1, n8 ln] ++ eidBytes c ++ vb ++ mb).length
          = 4 + (eidBytes c).length + vb.length + mb.length := by
        simp only [List.length_append, be16_length, List.length_cons, List.length_nil]
      refine ⟨_, h1, by rw [h2, hL], by omega, by omega, ?_⟩
      · intro data tail hd hb
        exact matchField_decode_mask c f ln val mask hc hf hln hwv hwm r hr hro hrom vb mb val mask hvb hmb data hd tail hb
  · exact absurd hwf id

/-! ### Match -/

/-- what `matchField_roundtrip` gives for one field `f` with encoding `e` -/
def FieldRT (f : V) (e : Bytes) : Prop :=
  MatchField.marshalM f = .ok (e, f) ∧ MatchField.lenM f = .ok (UInt16.ofNat e.length, f) ∧
  4 ≤ e.length ∧ e.length ≤ 518 ∧
  ∀ (data : Slice) (tail : Bytes), data.WF → data.bytes = e ++ tail →
    MatchField.unmarshal MatchField.zero data = .ok f

/-- fields paired with their encodings -/
inductive AllRT : List V → List Bytes → Prop
  | nil : AllRT [] []
  | cons {f : V} {e : Bytes} {fs : List V} {es : List Bytes} : FieldRT f e → AllRT fs es → AllRT (f :: fs) (e :: es)

theorem fields_encs (fs : List V) (h : ∀ f ∈ fs, MatchFieldWF f) : ∃ encs, AllRT fs encs := by
  induction fs with
  | nil => exact ⟨[], .nil⟩
  | cons f fs ih =>
    obtain ⟨e, he⟩ := matchField_roundtrip f (h f (by simp))
    obtain ⟨es, hes⟩ := ih (fun g hg => h g (by simp [hg]))
    exact ⟨e :: es, .cons he hes⟩

theorem mapM2_marshal (fs : List V) (encs : List Bytes) (h : AllRT fs encs) :
    mapM2 MatchField.marshalM fs = .ok (encs, fs) ∧
    mapM2 MatchField.lenM fs = .ok (encs.map (fun e => UInt16.ofNat e.length), fs) := by
  induction h with
  | nil => exact ⟨rfl, rfl⟩
  | cons h1 _ ih =>
    obtain ⟨hm, hl, _⟩ := h1
    constructor <;> simp [mapM2, hm, hl, ih.1, ih.2]

theorem flatten_len_ge (encs : List Bytes) (h : ∀ e ∈ encs, 4 ≤ e.length) : 4 * encs.length ≤ encs.flatten.length := by
  induction encs with
  | nil => simp
  | cons e es ih =>
    have h1 := h e (by simp)
    have h2 := ih (fun g hg => h g (by simp [hg]))
    simp only [List.flatten_cons, List.length_append, List.length_cons]
    omega

theorem forall2_bounds (fs : List V) (encs : List Bytes) (h : AllRT fs encs) :
    ∀ e ∈ encs, 4 ≤ e.length ∧ e.length ≤ 518 := by
  induction h with
  | nil => intro e he; cases he
  | cons h1 _ ih =>
    intro e he
    rcases List.mem_cons.mp he with rfl | he
    · exact ⟨h1.2.2.1, h1.2.2.2.1⟩
    · exact ih e he

/-- the field loop of Match.UnmarshalBinary over the encodings of well-formed fields -/
theorem match_loop (data : Slice) (hd : data.WF) (ln : Nat) (fs : List V) (encs : List Bytes)
    (h : AllRT fs encs) :
    ∀ (pre rest : Bytes) (acc : List V) (fuel : Nat),
      data.bytes = pre ++ encs.flatten ++ rest → ln = pre.length + encs.flatten.length → encs.length < fuel →
      goLoop (σ := Match.St) fuel (fun s => !s.err && s.n < ln) (fun s => s.n + (if s.err then 1 else 0))
        (fun s => do
          let d ← data.fromR s.n
          match MatchField.unmarshal MatchField.zero d with
          | .ok f => do
            let (l, f) ← MatchField.lenM f
            pure { n := s.n + l.toNat, fields := s.fields ++ [f], err := false }
          | .err => pure { s with err := true }
          | .panic => .panic
          | .spin => .spin)
        { n := pre.length, fields := acc, err := false }
      = .ok { n := ln, fields := acc ++ fs, err := false } := by
  induction h with
  | nil =>
    intro pre rest acc fuel hb hln hfuel
    simp at hln
    subst hln
    cases fuel with
    | zero => simp at hfuel
    | succ k => simp [goLoop]
  | @cons f e fs es h1 _ ih =>
    intro pre rest acc fuel hb hln hfuel
    obtain ⟨hm, hl, h4, h514, hdec⟩ := h1
    cases fuel with
    | zero => simp at hfuel
    | succ k =>
      simp only [List.flatten_cons, List.length_append] at hln
      have hlen := Slice.bytes_length_le data
      rw [hb] at hlen
      simp only [List.flatten_cons, List.length_append] at hlen
      obtain ⟨t, ht1, ht2, _, _⟩ := Slice.fromR_bytes data pre.length (by omega)
      have htb : t.bytes = e ++ (es.flatten ++ rest) := by
        rw [ht2, hb]; simp only [List.flatten_cons, List.append_assoc]; exact List.drop_left' rfl
      have htwf : t.WF := (Slice.fromR_wf data hd _ t ht1).1
      have hto : (UInt16.ofNat e.length).toNat = e.length := by
        simp [UInt16.toNat_ofNat']; omega
      unfold goLoop
      have hcond : (!false && decide (pre.length < ln)) = true := by simp; omega
      simp only [hcond, if_true, ht1, Res.bind_ok, hdec t _ htwf htb, hl, Res.pure_eq, hto]
      have hcur : ¬ (pre.length + e.length + 0 ≤ pre.length + 0) := by omega
      simp only [Bool.false_eq_true, if_false, hcur]
      have := ih (pre ++ e) rest (acc ++ [f]) k (by rw [hb]; simp) (by simp only [List.length_append]; omega) (by simp only [List.length_cons] at hfuel; omega)
      simp only [List.length_append, List.append_assoc, List.cons_append, List.nil_append] at this
      exact this


/-- the size `MatchField.Len()` reports (0 when it fails) -/
def encLen (f : V) : Nat :=
  match MatchField.lenM f with
  | .ok (l, _) => l.toNat
  | _ => 0

/-- well-formed match: Type within 16 bits, well-formed fields, Length = 4 + the sizes of the fields (what NewMatch /
    AddField maintain), small enough for the padded size to fit 16 bits -/
def MatchWF : V → Prop
  | .obj "Match" [.num ty, .num ln, .list fs] =>
    ty < 65536 ∧ (∀ f ∈ fs, MatchFieldWF f) ∧ ln = 4 + (fs.map encLen).sum ∧ ln < 65529
  | _ => False

theorem encLen_sum (fs : List V) (encs : List Bytes) (h : AllRT fs encs) :
    (fs.map encLen).sum = encs.flatten.length ∧
    ((encs.map (fun e => UInt16.ofNat e.length)).map UInt16.toNat).sum = encs.flatten.length := by
  induction h with
  | nil => simp
  | @cons f e fs es h1 _ ih =>
    obtain ⟨_, hl, _, h514, _⟩ := h1
    have hto : (UInt16.ofNat e.length).toNat = e.length := by
      simp [UInt16.toNat_ofNat']; omega
    constructor
    · simp only [List.map_cons, List.sum_cons, List.flatten_cons, List.length_append, ih.1, encLen, hl, hto]
    · simp only [List.map_cons, List.sum_cons, List.flatten_cons, List.length_append, ih.2, hto]

theorem pieces_copy (encs : List Bytes) :
    piecesLen (encs.map pCopy) = encs.flatten.length ∧ piecesBytes (encs.map pCopy) = encs.flatten ∧
    ∀ p ∈ encs.map pCopy, p.Tight := by
  induction encs with
  | nil => simp [piecesLen, piecesBytes]
  | cons e es ih =>
    obtain ⟨h1, h2, h3⟩ := ih
    simp only [piecesLen, piecesBytes] at h1 h2
    refine ⟨?_, ?_, ?_⟩
    · simp [piecesLen, pCopy, Piece.adv] at h1 ⊢; omega
    · simp [piecesBytes, pCopy, Piece.bytes] at h2 ⊢; rw [h2]
    · intro p hp
      simp only [List.map_cons, List.mem_cons] at hp
      rcases hp with rfl | hp
      · trivial
      · exact h3 p hp

theorem round8_toNat (x : UInt16) (h : x.toNat + 7 < 65536) : (round8 x).toNat = (x.toNat + 7) / 8 * 8 := by
  unfold round8
  rw [UInt16.toNat_mul, UInt16.toNat_div, UInt16.toNat_add]
  have h7 : (7 : UInt16).toNat = 7 := rfl
  have h8 : (8 : UInt16).toNat = 8 := rfl
  rw [h7, h8, Nat.mod_eq_of_lt h]
  apply Nat.mod_eq_of_lt
  omega

/-- Match round trip -/
theorem match_roundtrip (v : V) (hwf : MatchWF v) :
    ∃ bs, Match.marshalM v = .ok (bs, v) ∧ Match.lenM v = .ok (UInt16.ofNat bs.length, v) ∧ bs.length % 8 = 0 ∧
      (∀ (data : Slice) (tail : Bytes), data.WF → data.bytes = bs ++ tail →
        Match.unmarshal Match.zero data = .ok v) ∧ 8 ≤ bs.length ∧ bs.length < 65536 := by
  unfold MatchWF at hwf
  split at hwf
  · rename_i ty ln fs
    obtain ⟨hty, hfs, hln, hlt⟩ := hwf
    obtain ⟨encs, hall⟩ := fields_encs fs hfs
    obtain ⟨hm, hl⟩ := mapM2_marshal fs encs hall
    obtain ⟨hs1, hs2⟩ := encLen_sum fs encs hall
    rw [hs1] at hln
    have hsum : (sum16 (encs.map (fun e => UInt16.ofNat e.length))).toNat = encs.flatten.length := by
      rw [sum16_toNat _ (by rw [hs2]; omega), hs2]
    have h4s : ((4 : UInt16) + sum16 (encs.map (fun e => UInt16.ofNat e.length))).toNat = ln := by
      rw [UInt16.toNat_add, hsum]
      have : (4 : UInt16).toNat = 4 := rfl
      rw [this]; omega
    have hr8 := round8_toNat ((4 : UInt16) + sum16 (encs.map (fun e => UInt16.ofNat e.length))) (by omega)
    rw [h4s] at hr8
    have hlenM : Match.lenM (.obj "Match" [.num ty, .num ln, .list fs]) =
        .ok (round8 (4 + sum16 (encs.map (fun e => UInt16.ofNat e.length))), .obj "Match" [.num ty, .num ln, .list fs]) := by
      simp only [Match.lenM, hl, Res.bind_ok, same]
    obtain ⟨hp1, hp2, hp3⟩ := pieces_copy encs
    have hpl : piecesLen (pU16 ty :: pU16 ln :: encs.map pCopy) = ln := by
      simp only [piecesLen, List.map_cons, List.sum_cons] at hp1 ⊢
      rw [hp1]; simp only [pU16, Piece.adv, be16_length]; omega
    have hpb : piecesBytes (pU16 ty :: pU16 ln :: encs.map pCopy) = be16 (n16 ty) ++ be16 (n16 ln) ++ encs.flatten := by
      simp only [piecesBytes, List.map_cons, List.flatten_cons] at hp2 ⊢
      rw [hp2]; simp only [pU16, Piece.bytes, List.append_assoc]
    have htight : ∀ p ∈ pU16 ty :: pU16 ln :: encs.map pCopy, p.Tight := by
      intro p hp
      simp only [List.mem_cons] at hp
      rcases hp with rfl | rfl | hp
      · trivial
      · trivial
      · exact hp3 p hp
    have hfill := fill_exact ((ln + 7) / 8 * 8) _ htight (by rw [hpl]; omega)
    rw [hpl, hpb] at hfill
    have hmar : Match.marshalM (.obj "Match" [.num ty, .num ln, .list fs]) =
        .ok (be16 (n16 ty) ++ be16 (n16 ln) ++ encs.flatten ++ zeros ((ln + 7) / 8 * 8 - ln),
          .obj "Match" [.num ty, .num ln, .list fs]) := by
      unfold Match.marshalM
      rw [hlenM]
      simp only [Res.bind_ok, hm, hr8, hfill, same]
    have hbl : (be16 (n16 ty) ++ be16 (n16 ln) ++ encs.flatten ++ zeros ((ln + 7) / 8 * 8 - ln)).length
        = (ln + 7) / 8 * 8 := by
      simp only [List.length_append, be16_length, zeros_length]; omega
    refine ⟨_, hmar, ?_, ?_, ?_, by rw [hbl]; omega, by rw [hbl]; omega⟩
    · rw [hlenM, hbl]
      congr 2
      apply UInt16.toNat_inj.mp
      rw [hr8]; simp [UInt16.toNat_ofNat']; omega
    · rw [hbl]; omega
    · intro data tail hd hb
      have hlen := Slice.len_ge_of_bytes data _ _ hb
      rw [hbl] at hlen
      unfold Match.unmarshal Match.unmarshalP Match.zero
      have e0 : rd16 (data.bytes.drop 0) = some (n16 ty) := by
        rw [hb]; simp only [List.drop_zero, List.append_assoc]; exact rd16_be16 _ _
      have e2 : rd16 (data.bytes.drop 2) = some (n16 ln) := by
        rw [hb]; simp only [List.append_assoc]
        have : List.drop 2 (be16 (n16 ty) ++ (be16 (n16 ln) ++ (encs.flatten ++ (zeros ((ln + 7) / 8 * 8 - ln) ++ tail))))
            = be16 (n16 ln) ++ (encs.flatten ++ (zeros ((ln + 7) / 8 * 8 - ln) ++ tail)) := rfl
        rw [this]; exact rd16_be16 _ _
      simp only [Slice.u16From_eq, e0, e2, Res.ofOption, Res.bind_ok, n16_toNat ln (by omega)]
      have hfl := flatten_len_ge encs (fun e he => (forall2_bounds fs encs hall e he).1)
      have hloop := match_loop data hd ln fs encs hall (be16 (n16 ty) ++ be16 (n16 ln))
        (zeros ((ln + 7) / 8 * 8 - ln) ++ tail) [] (data.len + 2)
        (by rw [hb]; simp only [List.append_assoc]) (by simp only [List.length_append, be16_length]; omega) (by omega)
      simp only [List.length_append, be16_length, List.nil_append, Nat.reduceAdd] at hloop
      erw [hloop]
      simp only [Res.bind_ok, Res.pure_eq]
      simp [V.u16, n16_toNat ty hty, n16_toNat ln (by omega)]
  · exact absurd hwf id

/-- the variant of the decoder that FlowMod / FlowStats use (result and error flag) -/
theorem unmarshalP_of_unmarshal (recv : V) (d : Slice) (v : V) (h : Match.unmarshal recv d = .ok v) :
    Match.unmarshalP recv d = .ok (v, false) := by
  unfold Match.unmarshal at h
  split at h
  · rename_i v' heq; cases h; exact heq
  all_goals cases h

/-- decoding into NewMatch() and into new(Match) is the same (only the receiver's field list is used) -/
theorem unmarshalP_new (d : Slice) : Match.unmarshalP Match.new d = Match.unmarshalP Match.zero d := rfl

end OFV.RT
