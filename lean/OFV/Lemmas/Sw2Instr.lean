/-
  OFV.Lemmas.Sw2Instr — decoding instruction lists and action lists from the specification's bytes:
    * `ActDec ab av`   : the wire form `ab` of one action is read back by DecodeAction as `av` (whatever follows)
    * output, set-field (any decodable OXM TLV), Nicira NXAST_RESUBMIT_TABLE
    * `InstrDec ib iv` : the same for one instruction and DecodeInstr
    * goto-table, write-metadata, write/apply/clear-actions with ANY list of decodable actions
    * meter (any meter id), set_nw_ttl / set_mpls_ttl (any ttl), the header-only actions copy_ttl_out, copy_ttl_in,
      dec_mpls_ttl, dec_nw_ttl, pop_pbb — 8 bytes each
    * `instrs_loop`    : the instruction loop of a flow-stats record over ANY list of decodable instructions
  Used by OFV/Props/C04b.lean.
-/
import OFV.Model.All
import OFV.Lemmas.SwBasic
import OFV.Lemmas.SwMatch
import OFV.Lemmas.Size
import OFV.Lemmas.Sw2Match
namespace OFV.Sw2
open OFV OFV.Go OFV.Model

/-! ### actions -/

/-- the wire form `ab` of one action is read back as `av`, whatever follows it, and `av.Len()` is its size -/
def ActDec (ab : Bytes) (av : V) : Prop :=
  (∀ d : Slice, d.WF → ∀ rest, d.bytes = ab ++ rest → DecodeAction (d.len + 1) d = .ok av) ∧
  Action.lenM av = .ok (UInt16.ofNat ab.length, av) ∧ 0 < ab.length ∧ ab.length < 65536

/-- concatenated wire forms -/
def wireCat (xs : List (Bytes × V)) : Bytes := (xs.map Prod.fst).flatten

theorem wireCat_cons (p : Bytes × V) (xs : List (Bytes × V)) : wireCat (p :: xs) = p.1 ++ wireCat xs := by
  simp [wireCat]

theorem wireCat_len_ge (P : Bytes → V → Prop) (xs : List (Bytes × V)) (h : ∀ p ∈ xs, P p.1 p.2)
    (hpos : ∀ b v, P b v → 0 < b.length) : xs.length ≤ (wireCat xs).length := by
  induction xs with
  | nil => simp [wireCat]
  | cons p xs ih =>
    rw [wireCat_cons, List.length_append, List.length_cons]
    have := hpos _ _ (h p (by simp))
    have := ih (fun q hq => h q (by simp [hq]))
    omega

/-- the action loop (`for n < limit { a := DecodeAction(data[n:]) … n += a.Len() }`) over a list of decodable actions -/
theorem actions_loop (data : Slice) (hwf : data.WF) (limit : Nat) (rest : Bytes) (body : InstrAux.St → R InstrAux.St)
    (hbody : ∀ (s : InstrAux.St) (d : Slice) (a a' : V) (l : UInt16), data.fromR s.n = .ok d →
      DecodeAction (d.len + 1) d = .ok a → Action.lenM a = .ok (l, a') → l ≠ 0 →
      body s = .ok { n := s.n + l.toNat, xs := s.xs ++ [a'], err := false })
    (as : List (Bytes × V)) (h : ∀ p ∈ as, ActDec p.1 p.2) (n : Nat) (acc : List V) (fuel : Nat) (hfuel : as.length < fuel)
    (hb : data.bytes.drop n = wireCat as ++ rest) (hln : limit = n + (wireCat as).length) :
    goLoop (σ := InstrAux.St) fuel (fun s => !s.err && s.n < limit) InstrAux.St.cursor body { n := n, xs := acc, err := false }
    = .ok { n := limit, xs := acc ++ as.map Prod.snd, err := false } := by
  induction as generalizing n acc fuel with
  | nil =>
    obtain ⟨f, rfl⟩ : ∃ f, fuel = f + 1 := ⟨fuel - 1, by simp at hfuel; omega⟩
    simp [wireCat] at hln
    rw [Sw.goLoop_stop _ _ _ _ _ (by simp [hln])]
    simp [hln]
  | cons p as ih =>
    obtain ⟨f, rfl⟩ : ∃ f, fuel = f + 1 := ⟨fuel - 1, by simp at hfuel; omega⟩
    obtain ⟨hdec, hlen, h0, h64⟩ := h p (by simp)
    rw [wireCat_cons] at hb hln
    rw [List.length_append] at hln
    have hnl : n + (p.1 ++ wireCat as ++ rest).length = data.len := by
      have := congrArg List.length hb
      rw [List.length_drop, Sw.bytes_length data hwf] at this
      simp at this ⊢
      omega
    obtain ⟨d, e1, hdwf, _, hd⟩ := Sw.fromR_at data hwf n (by simp at hnl; omega)
    rw [hb, List.append_assoc] at hd
    have hl16 : (UInt16.ofNat p.1.length).toNat = p.1.length := Sw.ofNat16_toNat _ h64
    have hne : UInt16.ofNat p.1.length ≠ 0 := by
      intro h0'
      have := congrArg UInt16.toNat h0'
      rw [hl16] at this
      have h00 : (0 : UInt16).toNat = 0 := rfl
      omega
    rw [Sw.goLoop_step _ _ _ _ _ ⟨n + p.1.length, acc ++ [p.2], false⟩
        (by simp; omega)
        (by rw [hbody ⟨n, acc, false⟩ d p.2 p.2 _ e1 (hdec d hdwf _ hd) hlen hne, hl16])
        (by show n + 0 < n + p.1.length + 0; omega)]
    rw [ih (fun q hq => h q (by simp [hq])) (n + p.1.length) (acc ++ [p.2]) f (by simp at hfuel; omega)
      (by
        rw [← List.drop_drop, hb, List.append_assoc]
        simp)
      (by omega)]
    simp

theorem actions_lens (as : List (Bytes × V)) (h : ∀ p ∈ as, ActDec p.1 p.2) :
    mapM2 Action.lenM (as.map Prod.snd) = .ok (as.map (fun p => UInt16.ofNat p.1.length), as.map Prod.snd) := by
  induction as with
  | nil => rfl
  | cons p as ih =>
    have := (h p (by simp)).2.1
    simp only [List.map_cons, mapM2, this, Res.bind_ok, ih (fun q hq => h q (by simp [hq]))]
    rfl

theorem lens_sum (xs : List (Bytes × V)) (h64 : ∀ p ∈ xs, p.1.length < 65536) (hlen : (wireCat xs).length < 65536) :
    (sum16 (xs.map (fun p => UInt16.ofNat p.1.length))).toNat = (wireCat xs).length := by
  have hs : ((xs.map (fun p => UInt16.ofNat p.1.length)).map UInt16.toNat).sum = (wireCat xs).length := by
    clear hlen
    induction xs with
    | nil => simp [wireCat]
    | cons p xs ih =>
      rw [wireCat_cons, List.length_append]
      simp only [List.map_cons, List.sum_cons]
      rw [ih (fun q hq => h64 q (by simp [hq])), Sw.ofNat16_toNat _ (h64 p (by simp))]
  rw [sum16_toNat _ (by rw [hs]; exact hlen), hs]

/-- the decoded output action -/
def outputV (port : UInt32) (maxLen : UInt16) : V :=
  .obj "ActionOutput" [.obj "ActionHeader" [.num 0, .num 16], .num port.toNat, .num maxLen.toNat, .bytes []]

/-- output action: type 0, length 16, port(4), max_len(2), pad(6) -/
theorem act_output (port : UInt32) (maxLen : UInt16) :
    ActDec (be16 0 ++ (be16 16 ++ (be32 port ++ (be16 maxLen ++ zeros 6)))) (outputV port maxLen) := by
  refine ⟨?_, rfl, by simp, by simp⟩
  intro d hwf rest hb
  have hl : d.len = 16 + rest.length := by rw [← Sw.bytes_length d hwf, hb]; simp; omega
  obtain ⟨d0, e0, hd0wf, hd0l, hd0⟩ := Sw.fromR_at d hwf 0 (by omega)
  rw [hb] at hd0
  obtain ⟨t, e1, _, _, _⟩ := Sw.sliceR_at d hwf 10 16 (by omega) (by omega)
  have hnew : newActionFor d = .ok ActionOutput.zero := by
    unfold newActionFor
    rw [Sw.u16In_at d hwf 0 2 0 _ (by omega) (by omega) (by rw [hb]; rfl)]
    rfl
  have hh : ActionHeader.unmarshal ActionHeader.zero d0 = .ok (ActionHeader.mk 0 16) := by
    unfold ActionHeader.unmarshal
    rw [if_neg (by omega), Sw.u16In_at d0 hd0wf 0 2 0 _ (by omega) (by omega) (by rw [hd0]; rfl),
      Sw.u16In_at d0 hd0wf 2 4 16 _ (by omega) (by omega) (by rw [hd0]; rfl)]
    rfl
  show (newActionFor d >>= fun a => _) = _
  rw [hnew]
  show ActionOutput.unmarshal ActionOutput.zero d = _
  unfold ActionOutput.unmarshal ActionOutput.zero
  simp only
  rw [if_neg (by omega)]
  simp only [e0, hh, Sw.u32From_at d 4 port _ (by rw [hb]; rfl), Sw.u16From_at d 8 maxLen _ (by rw [hb]; rfl), e1, Res.bind_ok,
    Sw.copyInto_nil]
  rfl

/-- the decoded NXAST_RESUBMIT_TABLE action -/
def resubmitTableV (inPort : UInt16) (table : UInt8) : V :=
  .obj "NXActionResubmitTable" [.obj "NXActionHeader" [.obj "ActionHeader" [.num 65535, .num 16], .num 0x2320, .num 14],
    .num inPort.toNat, .num table.toNat, .bytes (zeros 3), .num 0]

/-- Nicira resubmit-to-table action: type 0xffff, length 16, vendor 0x00002320, subtype 14, in_port(2), table(1), pad(3) -/
theorem act_resubmitTable (inPort : UInt16) (table : UInt8) :
    ActDec (be16 0xffff ++ (be16 16 ++ (be32 0x2320 ++ (be16 14 ++ (be16 inPort ++ ([table] ++ zeros 3))))))
      (resubmitTableV inPort table) := by
  refine ⟨?_, rfl, by simp, by simp⟩
  intro d hwf rest hb
  have hl : d.len = 16 + rest.length := by rw [← Sw.bytes_length d hwf, hb]; simp; omega
  obtain ⟨d4, e0, hd4wf, hd4l, hd4⟩ := Sw.uptoR_at d hwf 4 (by omega)
  rw [hb] at hd4
  have hnew : newActionFor d = .ok NXActionResubmitTable.zero := by
    unfold newActionFor DecodeNxAction
    rw [Sw.u16In_at d hwf 0 2 0xffff _ (by omega) (by omega) (by rw [hb]; rfl)]
    have hlk : actionTypeTable.lookup (0xffff : UInt16).toNat = none := rfl
    simp only [Res.bind_ok, hlk]
    rw [if_pos (show (0xffff : UInt16).toNat = Gen.openflow13.ActionType_Experimenter from rfl),
      if_neg (by rw [hl]; show ¬ (16 + rest.length < 10); omega),
      Sw.u32In_at d hwf 4 8 0x2320 _ (by omega) (by omega) (by rw [hb]; rfl)]
    simp only [Res.bind_ok]
    rw [if_pos (show (0x2320 : UInt32).toNat = Gen.openflow13.NxExperimenterID from rfl),
      Sw.u16From_at d 8 14 _ (by rw [hb]; rfl)]
    rfl
  have hh : ActionHeader.unmarshal ActionHeader.zero d4 = .ok (ActionHeader.mk 65535 16) := by
    unfold ActionHeader.unmarshal
    rw [if_neg (by omega), Sw.u16In_at d4 hd4wf 0 2 0xffff _ (by omega) (by omega) (by rw [hd4]; rfl),
      Sw.u16In_at d4 hd4wf 2 4 16 _ (by omega) (by omega) (by rw [hd4]; rfl)]
    rfl
  have hpre : nxPrefix d = .ok (.obj "NXActionHeader" [ActionHeader.mk 65535 16, .num 0x2320, .num 14]) := by
    unfold nxPrefix NXActionHeader.fresh NXActionHeader.unmarshal tryE
    rw [if_neg (by rw [hl]; show ¬ (16 + rest.length < 10); omega)]
    simp only [e0, hh, Res.bind_ok, Sw.u32From_at d 4 0x2320 _ (by rw [hb]; rfl), Sw.u16From_at d 8 14 _ (by rw [hb]; rfl),
      Res.pure_eq]
    show (if d.len < (16 : UInt16).toNat then Res.err else _) = _
    rw [if_neg (by rw [hl]; show ¬ (16 + rest.length < 16); omega)]
    rfl
  show (newActionFor d >>= fun a => _) = _
  rw [hnew]
  show NXActionResubmitTable.unmarshal NXActionResubmitTable.zero d = _
  unfold NXActionResubmitTable.unmarshal NXActionResubmitTable.zero
  simp only [hpre, Sw.u16From_at d 10 inPort _ (by rw [hb]; rfl), Sw.byteAt_at d 12 table _ (by rw [hb]; rfl), Res.bind_ok]
  rfl

/-- the decoded set-field action -/
def setFieldV (len : Nat) (fv : V) : V :=
  .obj "ActionSetField" [.obj "ActionHeader" [.num 25, .num len], fv]

/-- set-field action: type 25, length (header + OXM TLV, rounded up to 8), the TLV, zero padding -/
theorem act_setField (tlv : Bytes) (fv : V) (h : FieldDec tlv fv) (hlen : 4 + tlv.length + 7 < 65536) :
    ActDec (be16 25 ++ (be16 (UInt16.ofNat ((4 + tlv.length + 7) / 8 * 8)) ++ (tlv ++ zeros ((8 - (4 + tlv.length) % 8) % 8))))
      (setFieldV ((4 + tlv.length + 7) / 8 * 8) fv) := by
  obtain ⟨hdec, hflen, h4, h64⟩ := h
  have htot : (be16 25 ++ (be16 (UInt16.ofNat ((4 + tlv.length + 7) / 8 * 8)) ++ (tlv ++ zeros ((8 - (4 + tlv.length) % 8) % 8)))).length
      = (4 + tlv.length + 7) / 8 * 8 := by simp; omega
  have hr8 : round8 (4 + UInt16.ofNat tlv.length) = UInt16.ofNat ((4 + tlv.length + 7) / 8 * 8) := by
    apply UInt16.toNat_inj.mp
    rw [Sw.ofNat16_toNat _ (by omega)]
    unfold round8
    rw [UInt16.toNat_mul, UInt16.toNat_div, UInt16.toNat_add, UInt16.toNat_add, Sw.ofNat16_toNat _ h64]
    show ((4 + tlv.length) % 65536 + 7) % 65536 / 8 * 8 % 65536 = _
    omega
  refine ⟨?_, ?_, by rw [htot]; omega, by rw [htot]; omega⟩
  · intro d hwf rest hb
    have hl : d.len = (4 + tlv.length + 7) / 8 * 8 + rest.length := by
      rw [← Sw.bytes_length d hwf, hb, List.length_append, htot]
    obtain ⟨d0, e0, hd0wf, hd0l, hd0⟩ := Sw.fromR_at d hwf 0 (by omega)
    obtain ⟨d4, e1, hd4wf, _, hd4⟩ := Sw.fromR_at d hwf 4 (by omega)
    rw [hb] at hd0 hd4
    have hd4' : d4.bytes = tlv ++ (zeros ((8 - (4 + tlv.length) % 8) % 8) ++ rest) := by
      rw [hd4]
      show tlv ++ zeros _ ++ rest = _
      rw [List.append_assoc]
    have hnew : newActionFor d = .ok ActionSetField.zero := by
      unfold newActionFor
      rw [Sw.u16In_at d hwf 0 2 25 _ (by omega) (by omega) (by rw [hb]; rfl)]
      rfl
    have hh : ActionHeader.unmarshal ActionHeader.zero d0
        = .ok (ActionHeader.mk 25 (UInt16.ofNat ((4 + tlv.length + 7) / 8 * 8)).toNat) := by
      unfold ActionHeader.unmarshal
      rw [if_neg (by omega), Sw.u16In_at d0 hd0wf 0 2 25 _ (by omega) (by omega) (by rw [hd0]; rfl),
        Sw.u16In_at d0 hd0wf 2 4 _ _ (by omega) (by omega) (by rw [hd0]; rfl)]
      rfl
    show (newActionFor d >>= fun a => _) = _
    rw [hnew]
    show ActionSetField.unmarshal ActionSetField.zero d = _
    unfold ActionSetField.unmarshal ActionSetField.zero tryE
    simp only [e0, hh, e1, Res.bind_ok]
    have hz : mfZero = MatchField.zero := rfl
    rw [hz, hdec d4 hd4wf _ hd4']
    simp only [hflen, Res.bind_ok, Res.pure_eq, Sw.ofNat16_toNat _ (show (4 + tlv.length + 7) / 8 * 8 < 65536 by omega)]
    rfl
  · have hdisp : Action.lenM (setFieldV ((4 + tlv.length + 7) / 8 * 8) fv)
        = ActionSetField.lenM (setFieldV ((4 + tlv.length + 7) / 8 * 8) fv) := rfl
    rw [hdisp]
    unfold ActionSetField.lenM setFieldV
    simp only [hflen, Res.bind_ok, hr8, htot]

/-! ### instructions -/

/-- the wire form `ib` of one instruction is read back as `iv`, whatever follows, and `iv.Len()` is its size -/
def InstrDec (ib : Bytes) (iv : V) : Prop :=
  (∀ d : Slice, d.WF → ∀ rest, d.bytes = ib ++ rest → DecodeInstr d = .ok iv) ∧
  Instruction.lenM iv = .ok (UInt16.ofNat ib.length, iv) ∧ 0 < ib.length ∧ ib.length < 65536

/-- goto-table: type 1, length 8, table id, pad(3) -/
theorem instr_gotoTable (tableId : UInt8) : InstrDec (be16 1 ++ (be16 8 ++ [tableId, 0, 0, 0])) (Sw.gotoTableV tableId) :=
  ⟨fun d hwf rest hb => Sw.instr_gotoTable d hwf tableId rest (by rw [hb]; simp), rfl, by simp, by simp⟩

theorem instrHeader4 (di : Slice) (hwf : di.WF) (ty ln : UInt16) (rest : Bytes) (h : di.bytes = be16 ty ++ (be16 ln ++ rest)) :
    InstrHeader.unmarshal4 InstrHeader.zero di = .ok (.obj "InstrHeader" [.num ty.toNat, .num ln.toNat]) := by
  have hl : 4 + rest.length = di.len := by rw [← Sw.bytes_length di hwf, h]; simp; omega
  obtain ⟨d4, h1, hd4wf, hd4l, hd4⟩ := Sw.uptoR_at di hwf 4 (by omega)
  rw [h] at hd4
  unfold InstrHeader.unmarshal4 InstrHeader.unmarshal InstrAux.catchErr
  simp only [h1, Res.bind_ok]
  rw [if_neg (by omega), Sw.u16In_at d4 hd4wf 0 2 ty _ (by omega) (by omega) (by rw [hd4]; rfl),
    Sw.u16In_at d4 hd4wf 2 4 ln _ (by omega) (by omega) (by rw [hd4]; rfl)]
  rfl

theorem u64In_at (s : Slice) (hwf : s.WF) (a b : Nat) (v : UInt64) (rest : Bytes) (hab : a + 8 ≤ b) (hb : b ≤ s.len)
    (h : s.bytes.drop a = be64 v ++ rest) : s.u64In a b = .ok v := by
  obtain ⟨t, h1, _, _, h2⟩ := Sw.sliceR_at s hwf a b (by omega) hb
  unfold Slice.u64In Slice.u64Here
  rw [h1]; simp only [Res.bind_ok, h2, h]
  obtain ⟨k, hk⟩ : ∃ k, b - a = k + 8 := ⟨b - a - 8, by omega⟩
  rw [hk]
  show Res.ofOption (rd64 (be64 v ++ List.take k rest)) = _
  rw [rd64_be64]; rfl

/-- the decoded write-metadata instruction -/
def writeMetadataV (metadata mask : UInt64) : V :=
  .obj "InstrWriteMetadata" [.obj "InstrHeader" [.num 2, .num 24], .bytes [], .num metadata.toNat, .num mask.toNat]

/-- write-metadata: type 2, length 24, pad(4), metadata(8), metadata_mask(8) -/
theorem instr_writeMetadata (metadata mask : UInt64) :
    InstrDec (be16 2 ++ (be16 24 ++ (zeros 4 ++ (be64 metadata ++ be64 mask)))) (writeMetadataV metadata mask) := by
  refine ⟨?_, rfl, by simp, by simp⟩
  intro d hwf rest hb
  have hl : d.len = 24 + rest.length := by rw [← Sw.bytes_length d hwf, hb]; simp; omega
  obtain ⟨t, e1, _, _, _⟩ := Sw.sliceR_at d hwf 4 8 (by omega) (by omega)
  unfold DecodeInstr
  rw [Sw.u16In_at d hwf 0 2 2 _ (by omega) (by omega) (by rw [hb]; rfl)]
  show (InstrAux.catchErr (InstrWriteMetadata.unmarshal InstrWriteMetadata.zero d) InstrWriteMetadata.zero >>= _) = _
  unfold InstrWriteMetadata.unmarshal InstrWriteMetadata.zero InstrAux.catchErr
  simp only [instrHeader4 d hwf 2 24 ((zeros 4 ++ (be64 metadata ++ be64 mask)) ++ rest) (by rw [hb]; simp only [List.append_assoc]),
    e1, Res.bind_ok,
    u64In_at d hwf 8 16 metadata _ (by omega) (by omega) (by rw [hb]; rfl),
    u64In_at d hwf 16 24 mask _ (by omega) (by omega) (by rw [hb]; rfl), Sw.copyInto_nil]
  rfl

/-- the decoded write-actions, apply-actions or clear-actions instruction -/
def instrActionsV (ty : UInt16) (len : Nat) (as : List V) : V :=
  .obj "InstrActions" [.obj "InstrHeader" [.num ty.toNat, .num len], .bytes [], .list as]

/-- write-actions (3), apply-actions (4), clear-actions (5): type, length (8 + size of the actions), pad(4), the actions —
    for ANY list of decodable actions -/
theorem instr_actions (ty : UInt16) (hty : ty.toNat = 3 ∨ ty.toNat = 4 ∨ ty.toNat = 5) (as : List (Bytes × V))
    (h : ∀ p ∈ as, ActDec p.1 p.2) (hlen : 8 + (wireCat as).length < 65536) :
    InstrDec (be16 ty ++ (be16 (UInt16.ofNat (8 + (wireCat as).length)) ++ (zeros 4 ++ wireCat as)))
      (instrActionsV ty (8 + (wireCat as).length) (as.map Prod.snd)) := by
  have htot : (be16 ty ++ (be16 (UInt16.ofNat (8 + (wireCat as).length)) ++ (zeros 4 ++ wireCat as))).length
      = 8 + (wireCat as).length := by simp; omega
  refine ⟨?_, ?_, by rw [htot]; omega, by rw [htot]; omega⟩
  · intro d hwf rest hb
    have hl : d.len = 8 + (wireCat as).length + rest.length := by
      rw [← Sw.bytes_length d hwf, hb, List.length_append, htot]
    have hge := wireCat_len_ge ActDec as h (fun _ _ hp => hp.2.2.1)
    have hhdr := instrHeader4 d hwf ty (UInt16.ofNat (8 + (wireCat as).length)) ((zeros 4 ++ wireCat as) ++ rest)
      (by rw [hb]; simp only [List.append_assoc])
    have hdrop : d.bytes.drop 8 = wireCat as ++ rest := by
      rw [hb]
      show wireCat as ++ rest = _
      rfl
    have hact : InstrActions.unmarshalP InstrActions.zero d
        = .ok (instrActionsV ty (8 + (wireCat as).length) (as.map Prod.snd), false) := by
      unfold InstrActions.unmarshalP InstrActions.zero InstrAux.decodeActions
      simp only [hhdr, Res.bind_ok, InstrHeader.length, Sw.ofNat16_toNat _ hlen]
      rw [actions_loop d hwf _ rest _
        (by
          intro s d' a a' l h1 h2 h3 h4
          simp only [h1, Res.bind_ok, h2, h3, if_neg h4]
          rfl)
        as h 8 [] _ (by omega) hdrop rfl]
      rfl
    unfold DecodeInstr
    rw [Sw.u16In_at d hwf 0 2 ty _ (by omega) (by omega) (by rw [hb]; rfl)]
    simp only [Res.bind_ok]
    have c1 : ¬ ty.toNat = Gen.openflow13.InstrType_GOTO_TABLE := by
      show ¬ ty.toNat = 1; omega
    have c2 : ¬ ty.toNat = Gen.openflow13.InstrType_WRITE_METADATA := by
      show ¬ ty.toNat = 2; omega
    have c3 : ty.toNat = Gen.openflow13.InstrType_WRITE_ACTIONS ∨ ty.toNat = Gen.openflow13.InstrType_APPLY_ACTIONS
        ∨ ty.toNat = Gen.openflow13.InstrType_CLEAR_ACTIONS := hty
    rw [if_neg c1, if_neg c2, if_pos c3, hact]
    rfl
  · have hls := actions_lens as h
    have hsum := lens_sum as (fun p hp => (h p hp).2.2.2) (by omega)
    have hdisp : Instruction.lenM (instrActionsV ty (8 + (wireCat as).length) (as.map Prod.snd))
        = InstrActions.lenM (instrActionsV ty (8 + (wireCat as).length) (as.map Prod.snd)) := rfl
    rw [hdisp]
    unfold InstrActions.lenM instrActionsV
    simp only [hls, Res.bind_ok, htot]
    congr 2
    apply UInt16.toNat_inj.mp
    rw [UInt16.toNat_add, hsum, Sw.ofNat16_toNat _ hlen]
    show (8 + (wireCat as).length) % 65536 = _
    omega

/-- the instruction loop of a flow-stats record over a list of decodable instructions, starting at offset `n` -/
theorem instrs_loop (data : Slice) (hwf : data.WF) (rest : Bytes) (is : List (Bytes × V)) (h : ∀ p ∈ is, InstrDec p.1 p.2)
    (n : Nat) (hb : data.bytes.drop n = wireCat is ++ rest) :
    FlowStats.decodeInstrs data (n + (wireCat is).length) n [] = .ok (is.map Prod.snd) := by
  have hge := wireCat_len_ge InstrDec is h (fun _ _ hp => hp.2.2.1)
  have hle : (wireCat is).length ≤ data.len := by
    have := congrArg List.length hb
    rw [List.length_drop, Sw.bytes_length data hwf, List.length_append] at this
    omega
  have hgen : ∀ (is : List (Bytes × V)) (_ : ∀ p ∈ is, InstrDec p.1 p.2) (n : Nat) (acc : List V) (fuel limit : Nat),
      is.length < fuel → data.bytes.drop n = wireCat is ++ rest → limit = n + (wireCat is).length →
      goLoop (σ := FlowStats.ISt) fuel (fun s => s.n < limit) (·.n)
        (fun s => do
          let d ← data.fromR s.n
          let i ← DecodeInstr d
          let (l, i) ← Instruction.lenM i
          if l = 0 then .err else
          let (l2, i) ← Instruction.lenM i
          pure { n := s.n + l2.toNat, is := s.is ++ [i] })
        { n := n, is := acc } = .ok { n := limit, is := acc ++ is.map Prod.snd } := by
    intro is
    induction is with
    | nil =>
      intro _ n acc fuel limit hfuel _ hln
      obtain ⟨f, rfl⟩ : ∃ f, fuel = f + 1 := ⟨fuel - 1, by simp at hfuel; omega⟩
      simp [wireCat] at hln
      rw [Sw.goLoop_stop _ _ _ _ _ (by simp [hln])]
      simp [hln]
    | cons p is ih =>
      intro h n acc fuel limit hfuel hb hln
      obtain ⟨f, rfl⟩ : ∃ f, fuel = f + 1 := ⟨fuel - 1, by simp at hfuel; omega⟩
      obtain ⟨hdec, hlen, h0, h64⟩ := h p (by simp)
      rw [wireCat_cons] at hb hln
      rw [List.length_append] at hln
      have hnl : n + (p.1 ++ wireCat is ++ rest).length = data.len := by
        have := congrArg List.length hb
        rw [List.length_drop, Sw.bytes_length data hwf] at this
        simp at this ⊢
        omega
      obtain ⟨d, e1, hdwf, _, hd⟩ := Sw.fromR_at data hwf n (by simp at hnl; omega)
      rw [hb, List.append_assoc] at hd
      have hl16 : (UInt16.ofNat p.1.length).toNat = p.1.length := Sw.ofNat16_toNat _ h64
      have hne : ¬ UInt16.ofNat p.1.length = 0 := by
        intro h0'
        have := congrArg UInt16.toNat h0'
        rw [hl16] at this
        have h00 : (0 : UInt16).toNat = 0 := rfl
        omega
      rw [Sw.goLoop_step _ _ _ _ _ ⟨n + p.1.length, acc ++ [p.2]⟩
          (by simp; omega)
          (by simp only [e1, Res.bind_ok, hdec d hdwf _ hd, hlen, if_neg hne, hl16]; rfl)
          (by show n < n + p.1.length; omega)]
      rw [ih (fun q hq => h q (by simp [hq])) (n + p.1.length) (acc ++ [p.2]) f limit (by simp at hfuel; omega)
        (by
          rw [← List.drop_drop, hb, List.append_assoc]
          simp)
        (by omega)]
      simp
  unfold FlowStats.decodeInstrs
  rw [hgen is h n [] _ _ (by omega) hb rfl]
  rfl

theorem instrs_lens (is : List (Bytes × V)) (h : ∀ p ∈ is, InstrDec p.1 p.2) :
    mapM2 Instruction.lenM (is.map Prod.snd) = .ok (is.map (fun p => UInt16.ofNat p.1.length), is.map Prod.snd) := by
  induction is with
  | nil => rfl
  | cons p is ih =>
    have := (h p (by simp)).2.1
    simp only [List.map_cons, mapM2, this, Res.bind_ok, ih (fun q hq => h q (by simp [hq]))]
    rfl

/-! ### meter instruction, ttl actions, header-only actions (each 8 bytes) -/

theorem goLoop_panic {σ} (f : Nat) (cond : σ → Bool) (cursor : σ → Nat) (body : σ → R σ) (s : σ)
    (hc : cond s = true) (hb : body s = .panic) : goLoop (f + 1) cond cursor body s = .panic := by
  unfold goLoop
  simp only [hc, if_true, hb]

theorem drop_len' (r : Slice) (hwf : r.WF) (n : Nat) (x : Bytes) (h : r.bytes.drop n = x) :
    r.len = n + x.length ∨ (x = [] ∧ r.len ≤ n) := by
  have h2 := congrArg List.length h
  rw [List.length_drop, Sw.bytes_length r hwf] at h2
  by_cases hx : x = []
  · subst hx; simp at h2; right; exact ⟨rfl, by omega⟩
  · left
    have : 0 < x.length := List.length_pos_iff.mpr hx
    omega

/-- the decoded meter instruction -/
def meterV (meterId : UInt32) : V :=
  .obj "InstrMeter" [.obj "InstrHeader" [.num 6, .num 8], .num meterId.toNat]

/-- meter: type 6, length 8, meter id(4) — ANY 32-bit meter id -/
theorem instr_meter (meterId : UInt32) : InstrDec (be16 6 ++ (be16 8 ++ be32 meterId)) (meterV meterId) := by
  refine ⟨?_, rfl, by simp, by simp⟩
  intro d hwf rest hb
  have hl : d.len = 8 + rest.length := by rw [← Sw.bytes_length d hwf, hb]; simp; omega
  unfold DecodeInstr
  rw [Sw.u16In_at d hwf 0 2 6 _ (by omega) (by omega) (by rw [hb]; rfl)]
  show (InstrAux.catchErr (InstrMeter.unmarshal InstrMeter.zero d) InstrMeter.zero >>= _) = _
  unfold InstrMeter.unmarshal InstrMeter.zero InstrAux.catchErr
  simp only
  rw [if_neg (by omega)]
  simp only [instrHeader4 d hwf 6 8 (be32 meterId ++ rest) (by rw [hb]; simp only [List.append_assoc]),
    Sw.u32From_at d 4 meterId _ (by rw [hb]; rfl), Res.bind_ok]
  rfl

/-- the action header read from `data[:4]` -/
theorem actionHeader_upto4 (d : Slice) (hwf : d.WF) (ty ln : UInt16) (rest : Bytes) (h : d.bytes = be16 ty ++ (be16 ln ++ rest)) :
    ∃ d4, d.uptoR 4 = .ok d4 ∧ ActionHeader.unmarshal ActionHeader.zero d4 = .ok (ActionHeader.mk ty.toNat ln.toNat) := by
  have hl : d.len = 4 + rest.length := by rw [← Sw.bytes_length d hwf, h]; simp; omega
  obtain ⟨d4, e0, hd4wf, hd4l, hd4⟩ := Sw.uptoR_at d hwf 4 (by omega)
  rw [h] at hd4
  refine ⟨d4, e0, ?_⟩
  unfold ActionHeader.unmarshal
  rw [if_neg (by omega), Sw.u16In_at d4 hd4wf 0 2 ty _ (by omega) (by omega) (by rw [hd4]; rfl),
    Sw.u16In_at d4 hd4wf 2 4 ln _ (by omega) (by omega) (by rw [hd4]; rfl)]
  rfl

/-- the decoded set_nw_ttl action -/
def setNwTtlV (ttl : UInt8) : V :=
  .obj "ActionNwTtl" [.obj "ActionHeader" [.num 23, .num 8], .num ttl.toNat, .bytes []]

/-- set_nw_ttl: type 23, length 8, ttl(1), pad(3) — ANY ttl -/
theorem act_setNwTtl (ttl : UInt8) : ActDec (be16 23 ++ (be16 8 ++ [ttl, 0, 0, 0])) (setNwTtlV ttl) := by
  refine ⟨?_, rfl, by simp, by simp⟩
  intro d hwf rest hb
  have hl : d.len = 8 + rest.length := by rw [← Sw.bytes_length d hwf, hb]; simp; omega
  obtain ⟨d4, e0, hh⟩ := actionHeader_upto4 d hwf 23 8 ([ttl, 0, 0, 0] ++ rest) (by rw [hb]; simp only [List.append_assoc])
  have hnew : newActionFor d = .ok ActionNwTtl.zero := by
    unfold newActionFor
    rw [Sw.u16In_at d hwf 0 2 23 _ (by omega) (by omega) (by rw [hb]; rfl)]
    rfl
  show (newActionFor d >>= fun a => _) = _
  rw [hnew]
  show ActionNwTtl.unmarshal ActionNwTtl.zero d = _
  unfold ActionNwTtl.unmarshal ActionNwTtl.zero
  simp only
  rw [if_neg (by omega)]
  simp only [e0, hh, Sw.byteAt_at d 4 ttl _ (by rw [hb]; rfl), Res.bind_ok]
  rfl

/-- the decoded set_mpls_ttl action -/
def setMplsTtlV (ttl : UInt8) : V :=
  .obj "ActionMplsTtl" [.obj "ActionHeader" [.num 15, .num 8], .num ttl.toNat, .bytes []]

/-- set_mpls_ttl: type 15, length 8, ttl(1), pad(3) — ANY ttl -/
theorem act_setMplsTtl (ttl : UInt8) : ActDec (be16 15 ++ (be16 8 ++ [ttl, 0, 0, 0])) (setMplsTtlV ttl) := by
  refine ⟨?_, rfl, by simp, by simp⟩
  intro d hwf rest hb
  have hl : d.len = 8 + rest.length := by rw [← Sw.bytes_length d hwf, hb]; simp; omega
  obtain ⟨d4, e0, hh⟩ := actionHeader_upto4 d hwf 15 8 ([ttl, 0, 0, 0] ++ rest) (by rw [hb]; simp only [List.append_assoc])
  have hnew : newActionFor d = .ok ActionMplsTtl.zero := by
    unfold newActionFor
    rw [Sw.u16In_at d hwf 0 2 15 _ (by omega) (by omega) (by rw [hb]; rfl)]
    rfl
  show (newActionFor d >>= fun a => _) = _
  rw [hnew]
  show ActionMplsTtl.unmarshal ActionMplsTtl.zero d = _
  unfold ActionMplsTtl.unmarshal ActionMplsTtl.zero
  simp only
  rw [if_neg (by omega)]
  simp only [e0, hh, Sw.byteAt_at d 4 ttl _ (by rw [hb]; rfl), Res.bind_ok]
  rfl

/-- the decoded header-only action (the library uses one Go type, `ActionDecNwTtl`, for all of them) -/
def headerOnlyV (ty : UInt16) : V :=
  .obj "ActionDecNwTtl" [.obj "ActionHeader" [.num ty.toNat, .num 8], .bytes []]

/-- the action types that consist of the header and four pad bytes: copy_ttl_out (11), copy_ttl_in (12), dec_mpls_ttl (16),
    dec_nw_ttl (24), pop_pbb (27) -/
def HeaderOnly (ty : UInt16) : Prop := ty.toNat = 11 ∨ ty.toNat = 12 ∨ ty.toNat = 16 ∨ ty.toNat = 24 ∨ ty.toNat = 27

instance (ty : UInt16) : Decidable (HeaderOnly ty) := by unfold HeaderOnly; infer_instance

theorem act_headerOnly_of_lookup (ty : UInt16) (hlk : actionTypeTable.lookup ty.toNat = some ActionDecNwTtl.zero) :
    ActDec (be16 ty ++ (be16 8 ++ zeros 4)) (headerOnlyV ty) := by
  refine ⟨?_, rfl, by simp, by simp⟩
  intro d hwf rest hb
  have hl : d.len = 8 + rest.length := by rw [← Sw.bytes_length d hwf, hb]; simp; omega
  obtain ⟨d4, e0, hh⟩ := actionHeader_upto4 d hwf ty 8 (zeros 4 ++ rest) (by rw [hb]; simp only [List.append_assoc])
  have hnew : newActionFor d = .ok ActionDecNwTtl.zero := by
    unfold newActionFor
    rw [Sw.u16In_at d hwf 0 2 ty _ (by omega) (by omega) (by rw [hb]; rfl)]
    simp only [Res.bind_ok, hlk]
    rfl
  show (newActionFor d >>= fun a => _) = _
  rw [hnew]
  show ActionDecNwTtl.unmarshal ActionDecNwTtl.zero d = _
  unfold ActionDecNwTtl.unmarshal ActionDecNwTtl.zero
  simp only [e0, hh, Res.bind_ok]
  rfl

/-- copy_ttl_out, copy_ttl_in, dec_mpls_ttl, dec_nw_ttl, pop_pbb: type, length 8, pad(4) -/
theorem act_headerOnly (ty : UInt16) (hty : HeaderOnly ty) : ActDec (be16 ty ++ (be16 8 ++ zeros 4)) (headerOnlyV ty) := by
  rcases hty with h | h | h | h | h <;> exact act_headerOnly_of_lookup ty (by rw [h]; rfl)

/-- no action type above 27 except 0xffff is known -/
theorem actionType_unknown (x : Nat) (h : 27 < x) : actionTypeTable.lookup x = none := by
  have hne : ∀ k, k ≤ 27 → (x == k) = false := fun k hk => by simp; omega
  simp [actionTypeTable, List.lookup, Gen.openflow13.ActionType_Output, Gen.openflow13.ActionType_CopyTtlOut,
    Gen.openflow13.ActionType_CopyTtlIn, Gen.openflow13.ActionType_SetMplsTtl, Gen.openflow13.ActionType_DecMplsTtl,
    Gen.openflow13.ActionType_PushVlan, Gen.openflow13.ActionType_PopVlan, Gen.openflow13.ActionType_PushMpls,
    Gen.openflow13.ActionType_PopMpls, Gen.openflow13.ActionType_SetQueue, Gen.openflow13.ActionType_Group,
    Gen.openflow13.ActionType_SetNwTtl, Gen.openflow13.ActionType_DecNwTtl, Gen.openflow13.ActionType_SetField,
    Gen.openflow13.ActionType_PushPbb, Gen.openflow13.ActionType_PopPbb, hne]

end OFV.Sw2
