/-
  OFV.Lemmas.SwBasic — evaluating the decoder read idioms on a slice whose visible bytes are known
  (`s.bytes = frame`), and the dispatch of `parse` on the type byte.  Used by OFV/Props/C04.lean.
-/
import OFV.Model.All
import OFV.Lemmas.Read
namespace OFV.Sw
open OFV OFV.Go OFV.Model

/-! ### reads through the visible bytes -/

theorem bytes_length (s : Slice) (h : s.WF) : s.bytes.length = s.len := Slice.bytes_length s h

theorem byteAt_at (s : Slice) (n : Nat) (x : UInt8) (rest : Bytes) (h : s.bytes.drop n = x :: rest) :
    s.byteAt n = .ok x := by
  have hx : s.bytes[n]? = some x := by
    have := List.getElem?_drop (xs := s.bytes) (i := n) (j := 0)
    rw [h] at this
    simpa using this.symm
  unfold Slice.byteAt Slice.index
  unfold Slice.bytes at hx
  rw [List.getElem?_take] at hx
  by_cases hn : n < s.len
  · simp only [hn, if_true] at hx ⊢
    rw [hx]; rfl
  · simp [hn] at hx

theorem fromR_at (s : Slice) (hwf : s.WF) (n : Nat) (h : n ≤ s.len) :
    ∃ t, s.fromR n = .ok t ∧ t.WF ∧ t.len = s.len - n ∧ t.bytes = s.bytes.drop n := by
  refine ⟨⟨s.buf.drop n, s.len - n⟩, Slice.fromR_ok s n h, ?_, rfl, ?_⟩
  · unfold Slice.WF at *; simp; omega
  · simp only [Slice.bytes]; rw [List.drop_take]

theorem sliceR_at (s : Slice) (hwf : s.WF) (a b : Nat) (hab : a ≤ b) (hb : b ≤ s.len) :
    ∃ t, s.sliceR a b = .ok t ∧ t.WF ∧ t.len = b - a ∧ t.bytes = (s.bytes.drop a).take (b - a) := by
  unfold Slice.WF at hwf
  refine ⟨⟨s.buf.drop a, b - a⟩, Slice.sliceR_ok s a b hab (by omega), ?_, rfl, ?_⟩
  · unfold Slice.WF; simp; omega
  · simp only [Slice.bytes]
    rw [List.drop_take, List.take_take]
    congr 1
    omega

theorem uptoR_at (s : Slice) (hwf : s.WF) (b : Nat) (hb : b ≤ s.len) :
    ∃ t, s.uptoR b = .ok t ∧ t.WF ∧ t.len = b ∧ t.bytes = s.bytes.take b := by
  have := sliceR_at s hwf 0 b (Nat.zero_le _) hb
  simpa [Slice.uptoR, Slice.upto, Slice.sliceR] using this

private theorem fromR_drop (s : Slice) (n : Nat) :
    (s.fromR n >>= fun t => Res.ofOption (rd16 t.bytes)) = Res.ofOption (rd16 (s.bytes.drop n)) ∧
    (s.fromR n >>= fun t => Res.ofOption (rd32 t.bytes)) = Res.ofOption (rd32 (s.bytes.drop n)) ∧
    (s.fromR n >>= fun t => Res.ofOption (rd64 t.bytes)) = Res.ofOption (rd64 (s.bytes.drop n)) := by
  by_cases h : n ≤ s.len
  · rw [Slice.fromR_ok s n h]
    simp only [Res.bind_ok, Slice.bytes, List.drop_take, and_self]
  · have hp : s.fromR n = .panic := by unfold Slice.fromR Slice.from_ Res.ofOption; simp [h]
    have hl : s.bytes.drop n = [] := by
      apply List.drop_eq_nil_of_le; simp [Slice.bytes]; omega
    rw [hp, hl]
    exact ⟨rfl, rfl, rfl⟩

theorem u16From_at (s : Slice) (n : Nat) (v : UInt16) (rest : Bytes) (h : s.bytes.drop n = be16 v ++ rest) :
    s.u16From n = .ok v := by
  have := (fromR_drop s n).1
  unfold Slice.u16From Slice.u16Here
  rw [this, h, rd16_be16]; rfl

theorem u32From_at (s : Slice) (n : Nat) (v : UInt32) (rest : Bytes) (h : s.bytes.drop n = be32 v ++ rest) :
    s.u32From n = .ok v := by
  have := (fromR_drop s n).2.1
  unfold Slice.u32From Slice.u32Here
  rw [this, h, rd32_be32]; rfl

theorem u64From_at (s : Slice) (n : Nat) (v : UInt64) (rest : Bytes) (h : s.bytes.drop n = be64 v ++ rest) :
    s.u64From n = .ok v := by
  have := (fromR_drop s n).2.2
  unfold Slice.u64From Slice.u64Here
  rw [this, h, rd64_be64]; rfl

theorem u16In_at (s : Slice) (hwf : s.WF) (a b : Nat) (v : UInt16) (rest : Bytes) (hab : a + 2 ≤ b) (hb : b ≤ s.len)
    (h : s.bytes.drop a = be16 v ++ rest) : s.u16In a b = .ok v := by
  obtain ⟨t, h1, _, _, h2⟩ := sliceR_at s hwf a b (by omega) hb
  unfold Slice.u16In Slice.u16Here
  rw [h1]; simp only [Res.bind_ok, h2, h]
  obtain ⟨k, hk⟩ : ∃ k, b - a = k + 2 := ⟨b - a - 2, by omega⟩
  rw [hk]
  show Res.ofOption (rd16 (be16 v ++ List.take k rest)) = _
  rw [rd16_be16]; rfl

theorem u32In_at (s : Slice) (hwf : s.WF) (a b : Nat) (v : UInt32) (rest : Bytes) (hab : a + 4 ≤ b) (hb : b ≤ s.len)
    (h : s.bytes.drop a = be32 v ++ rest) : s.u32In a b = .ok v := by
  obtain ⟨t, h1, _, _, h2⟩ := sliceR_at s hwf a b (by omega) hb
  unfold Slice.u32In Slice.u32Here
  rw [h1]; simp only [Res.bind_ok, h2, h]
  obtain ⟨k, hk⟩ : ∃ k, b - a = k + 4 := ⟨b - a - 4, by omega⟩
  rw [hk]
  show Res.ofOption (rd32 (be32 v ++ List.take k rest)) = _
  rw [rd32_be32]; rfl

/-! ### the OpenFlow header -/

/-- the 8-byte header at the front of the visible bytes is decoded field by field (frame in right-nested form, as
    `simp only [List.append_assoc]` leaves it) -/
theorem header_at (recv : V) (s : Slice) (hwf : s.WF) (ver ty : UInt8) (ln : UInt16) (xid : UInt32) (rest : Bytes)
    (h : s.bytes = [ver, ty] ++ (be16 ln ++ (be32 xid ++ rest))) :
    Header.unmarshal recv s = .ok (.obj "Header" [.num ver.toNat, .num ty.toNat, .num ln.toNat, .num xid.toNat]) := by
  have hl : 8 + rest.length = s.len := by
    rw [← bytes_length s hwf, h]; simp; omega
  unfold Header.unmarshal
  rw [if_neg (by omega)]
  rw [byteAt_at s 0 ver (ty :: (be16 ln ++ be32 xid ++ rest)) (by rw [h]; rfl),
    byteAt_at s 1 ty (be16 ln ++ be32 xid ++ rest) (by rw [h]; rfl),
    u16In_at s hwf 2 4 ln (be32 xid ++ rest) (by omega) (by omega) (by rw [h]; rfl),
    u32In_at s hwf 4 8 xid rest (by omega) (by omega) (by rw [h]; rfl)]
  rfl

/-! ### Parse: one level, and the dispatch on the type byte -/

theorem parse_step (depth : Nat) (s : Slice) : ∃ k, parse depth s = recoverR (parseStep (parseD k) s) := by
  refine ⟨max depth (s.cap + 1) - 1, ?_⟩
  unfold parse
  obtain ⟨k, hk⟩ : ∃ k, max depth (s.cap + 1) = k + 1 := ⟨max depth (s.cap + 1) - 1, by omega⟩
  rw [hk]
  rfl

theorem step_hello (self : Slice → R V) (s : Slice) (h : s.byteAt 1 = .ok 0) :
    parseStep self s = Hello.unmarshal (.obj "Hello" [Header.zero, .list []]) s := by
  unfold parseStep; rw [h]; rfl

theorem step_error (self : Slice → R V) (s : Slice) (h : s.byteAt 1 = .ok 1) :
    parseStep self s = (do
      let e ← ErrorMsg.unmarshal ErrorMsg.zero s
      if ErrorMsg.errType e = 65535 then VendorError.unmarshal VendorError.zero s else pure e) := by
  unfold parseStep; rw [h]; rfl

theorem step_echoRequest (self : Slice → R V) (s : Slice) (h : s.byteAt 1 = .ok 2) :
    parseStep self s = Header.unmarshal Header.zero s := by
  unfold parseStep; rw [h]; rfl

theorem step_echoReply (self : Slice → R V) (s : Slice) (h : s.byteAt 1 = .ok 3) :
    parseStep self s = Header.unmarshal Header.zero s := by
  unfold parseStep; rw [h]; rfl

theorem step_barrierReply (self : Slice → R V) (s : Slice) (h : s.byteAt 1 = .ok 21) :
    parseStep self s = Header.unmarshal Header.zero s := by
  unfold parseStep; rw [h]; rfl

theorem step_experimenter (self : Slice → R V) (s : Slice) (h : s.byteAt 1 = .ok 4) :
    parseStep self s = VendorHeader.unmarshalWith (decodeVendorDataWith self anyLenM) VendorHeader.zero s := by
  unfold parseStep; rw [h]; rfl

theorem step_featuresReply (self : Slice → R V) (s : Slice) (h : s.byteAt 1 = .ok 6) :
    parseStep self s = SwitchFeatures.unmarshal SwitchFeatures.new s := by
  unfold parseStep; rw [h]; rfl

theorem step_getConfigReply (self : Slice → R V) (s : Slice) (h : s.byteAt 1 = .ok 8) :
    parseStep self s = SwitchConfig.unmarshal SwitchConfig.zero s := by
  unfold parseStep; rw [h]; rfl

theorem step_packetIn (self : Slice → R V) (s : Slice) (h : s.byteAt 1 = .ok 10) :
    parseStep self s = PacketIn.unmarshal PacketIn.zero s := by
  unfold parseStep; rw [h]; rfl

theorem step_flowRemoved (self : Slice → R V) (s : Slice) (h : s.byteAt 1 = .ok 11) :
    parseStep self s = FlowRemoved.unmarshal flowRemovedRecv s := by
  unfold parseStep; rw [h]; rfl

theorem step_portStatus (self : Slice → R V) (s : Slice) (h : s.byteAt 1 = .ok 12) :
    parseStep self s = PortStatus.unmarshal PortStatus.new s := by
  unfold parseStep; rw [h]; rfl

theorem step_multipartReply (self : Slice → R V) (s : Slice) (h : s.byteAt 1 = .ok 19) :
    parseStep self s = MultipartReply.unmarshalWith anyLenM MultipartReply.zero s := by
  unfold parseStep; rw [h]; rfl

/-! ### loops: one iteration at a time -/

theorem goLoop_stop {σ} (f : Nat) (cond : σ → Bool) (cursor : σ → Nat) (body : σ → R σ) (s : σ)
    (h : cond s = false) : goLoop (f + 1) cond cursor body s = .ok s := by
  unfold goLoop; simp [h]

theorem goLoop_step {σ} (f : Nat) (cond : σ → Bool) (cursor : σ → Nat) (body : σ → R σ) (s s' : σ)
    (hc : cond s = true) (hb : body s = .ok s') (hlt : cursor s < cursor s') :
    goLoop (f + 1) cond cursor body s = goLoop f cond cursor body s' := by
  conv => lhs; unfold goLoop
  simp only [hc, if_true, hb]
  rw [if_neg (by omega)]

theorem msgLoopW_stop {σ} (f : Nat) (cond : σ → Bool) (cursor : σ → Nat) (body : σ → R σ) (s : σ)
    (h : cond s = false) : msgLoopW (f + 1) cond cursor body s = .ok s := by
  unfold msgLoopW; simp [h]

theorem msgLoopW_step {σ} (f : Nat) (cond : σ → Bool) (cursor : σ → Nat) (body : σ → R σ) (s s' : σ)
    (hc : cond s = true) (hb : body s = .ok s') (hlt : cursor s < cursor s') :
    msgLoopW (f + 1) cond cursor body s = msgLoopW f cond cursor body s' := by
  conv => lhs; unfold msgLoopW
  simp only [hc, if_true, hb]
  rw [if_neg (by omega)]

/-! ### byte strings of a fixed small length are explicit lists -/

theorem len6 (l : Bytes) (h : l.length = 6) : ∃ a b c d e f, l = [a, b, c, d, e, f] := by
  match l, h with
  | [a, b, c, d, e, f], _ => exact ⟨a, b, c, d, e, f, rfl⟩

theorem len16 (l : Bytes) (h : l.length = 16) :
    ∃ a0 a1 a2 a3 a4 a5 a6 a7 a8 a9 a10 a11 a12 a13 a14 a15,
      l = [a0, a1, a2, a3, a4, a5, a6, a7, a8, a9, a10, a11, a12, a13, a14, a15] := by
  match l, h with
  | [a0, a1, a2, a3, a4, a5, a6, a7, a8, a9, a10, a11, a12, a13, a14, a15], _ =>
    exact ⟨a0, a1, a2, a3, a4, a5, a6, a7, a8, a9, a10, a11, a12, a13, a14, a15, rfl⟩

theorem ofNat16_toNat (n : Nat) (h : n < 65536) : (UInt16.ofNat n).toNat = n := by
  simp [UInt16.toNat_ofNat', Nat.mod_eq_of_lt h]

/-- dropping a prefix of known length -/
theorem drop_pre (pre post : Bytes) (n : Nat) (hn : pre.length = n) : (pre ++ post).drop n = post := by
  subst hn; simp

theorem take_pre (pre post : Bytes) (n : Nat) (hn : pre.length = n) : (pre ++ post).take n = pre := by
  subst hn; simp

/-- `make([]byte, n); copy(dst, src)` with at least n source bytes: the first n source bytes -/
theorem copyInto_zeros (n : Nat) (src : Bytes) (h : n ≤ src.length) : copyInto (zeros n) src = src.take n := by
  simp [copyInto, List.drop_eq_nil_of_le, h]

theorem copyInto_nil (src : Bytes) : copyInto [] src = [] := by
  simp [copyInto]

/-- a fixed-size field copied into a fresh buffer of its size: exactly the field's bytes -/
theorem copy_field (n : Nat) (pre x post : Bytes) (k : Nat) (hpre : pre.length = k) (hx : x.length = n) :
    copyInto (zeros n) ((pre ++ (x ++ post)).drop k) = x := by
  rw [drop_pre pre _ k hpre, copyInto_zeros n _ (by simp; omega), take_pre x post n hx]

theorem helloElemHeader_at (recv : V) (d : Slice) (hwf : d.WF) (ty ln : UInt16) (rest : Bytes)
    (h : d.bytes = be16 ty ++ (be16 ln ++ rest)) :
    HelloElemHeader.unmarshal recv d = .ok (.obj "HelloElemHeader" [.num ty.toNat, .num ln.toNat]) := by
  have hl : 4 + rest.length = d.len := by rw [← bytes_length d hwf, h]; simp; omega
  unfold HelloElemHeader.unmarshal
  rw [if_neg (by omega), u16In_at d hwf 0 2 ty _ (by omega) (by omega) h,
    u16In_at d hwf 2 4 ln _ (by omega) (by omega) (by rw [h]; rfl)]
  rfl

/-- a slice with exactly the given bytes and no spare capacity -/
theorem exact_bytes (bs : Bytes) : (Slice.exact bs).bytes = bs := List.take_length

/-- a slice showing `bs` with `spare` behind it in the backing array -/
theorem spare_bytes (bs spare : Bytes) : (Slice.mk (bs ++ spare) bs.length).bytes = bs := by
  simp [Slice.bytes]

theorem spare_wf (bs spare : Bytes) : (Slice.mk (bs ++ spare) bs.length).WF := by
  simp [Slice.WF]

end OFV.Sw
