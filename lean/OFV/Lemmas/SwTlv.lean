/-
  OFV.Lemmas.SwTlv — the list of TLV-table mappings of a Nicira TLV-table reply decodes element by element.
  Used by OFV/Props/C04.lean.
-/
import OFV.Model.All
import OFV.Lemmas.SwBasic
namespace OFV.Sw
open OFV OFV.Go OFV.Model

/-- one `nx_tlv_map` entry: option class, option type, option length, index -/
structure TlvMap where
  optClass : UInt16
  optType : UInt8
  optLength : UInt8
  index : UInt16

/-- wire form of a mapping (8 bytes): class(2), type(1), length(1), index(2), pad(2) -/
def TlvMap.bytes (m : TlvMap) : Bytes := be16 m.optClass ++ ([m.optType, m.optLength] ++ (be16 m.index ++ [0, 0]))

/-- the decoded mapping -/
def TlvMap.val (m : TlvMap) : V :=
  .obj "TLVTableMap" [.num m.optClass.toNat, .num m.optType.toNat, .num m.optLength.toNat, .num m.index.toNat,
    .bytes [0, 0]]

def tlvBytes : List TlvMap → Bytes
  | [] => []
  | m :: ms => m.bytes ++ tlvBytes ms

theorem tlvBytes_length (ms : List TlvMap) : (tlvBytes ms).length = 8 * ms.length := by
  induction ms with
  | nil => rfl
  | cons m ms ih => simp [tlvBytes, TlvMap.bytes, ih]; omega

theorem tlvMap_at (d : Slice) (hwf : d.WF) (m : TlvMap) (rest : Bytes) (h : d.bytes = m.bytes ++ rest) :
    TLVTableMap.unmarshal TLVTableMap.zero d = .ok m.val := by
  simp only [TlvMap.bytes, List.append_assoc] at h
  have hl : 8 + rest.length = d.len := by rw [← bytes_length d hwf, h]; simp; omega
  unfold TLVTableMap.unmarshal TLVTableMap.zero
  simp only []
  rw [if_neg (by omega), u16From_at d 0 m.optClass _ h, byteAt_at d 2 m.optType _ (by rw [h]; rfl),
    byteAt_at d 3 m.optLength _ (by rw [h]; rfl), u16From_at d 4 m.index _ (by rw [h]; rfl)]
  rfl

/-- the mapping loop: from offset `n0`, with the mappings `ms` occupying the rest of the slice -/
theorem tlv_loop (data : Slice) (hwf : data.WF) (ms : List TlvMap) :
    ∀ (fuel n0 : Nat) (acc : List V), ms.length < fuel → n0 + 8 * ms.length = data.len →
      data.bytes.drop n0 = tlvBytes ms →
      goLoop (σ := TLVTableMap.St) fuel (fun s => s.n < data.len) (·.n)
        (fun s => do
          let d ← data.fromR s.n
          let m ← TLVTableMap.unmarshal TLVTableMap.zero d
          pure { n := s.n + 8, maps := s.maps ++ [m] })
        { n := n0, maps := acc } = .ok { n := data.len, maps := acc ++ ms.map TlvMap.val } := by
  induction ms with
  | nil =>
    intro fuel n0 acc hf hn _
    obtain ⟨f, rfl⟩ : ∃ f, fuel = f + 1 := ⟨fuel - 1, by omega⟩
    rw [goLoop_stop _ _ _ _ _ (by simp at hn ⊢; omega)]
    simp at hn ⊢; omega
  | cons m ms ih =>
    intro fuel n0 acc hf hn hb
    obtain ⟨f, rfl⟩ : ∃ f, fuel = f + 1 := ⟨fuel - 1, by omega⟩
    simp only [List.length_cons] at hf hn
    obtain ⟨d, h1, hdwf, _, hd⟩ := fromR_at data hwf n0 (by omega)
    rw [hb] at hd
    rw [goLoop_step _ _ _ _ _ ⟨n0 + 8, acc ++ [m.val]⟩ (by simp; omega)
      (by simp only [h1, Res.bind_ok, tlvMap_at d hdwf m (tlvBytes ms) hd]; rfl) (by show n0 < n0 + 8; omega)]
    rw [ih f (n0 + 8) (acc ++ [m.val]) (by omega) (by omega)
      (by
        have : data.bytes.drop (n0 + 8) = (data.bytes.drop n0).drop 8 := by rw [List.drop_drop]
        rw [this, hb]
        exact drop_pre m.bytes (tlvBytes ms) 8 rfl)]
    simp

/-- `TLVTableMap.decodeList` on a slice whose bytes from `n0` on are the mappings `ms` -/
theorem tlv_decodeList (data : Slice) (hwf : data.WF) (ms : List TlvMap) (n0 : Nat)
    (hn : n0 + 8 * ms.length = data.len) (hb : data.bytes.drop n0 = tlvBytes ms) :
    TLVTableMap.decodeList data n0 [] = .ok (ms.map TlvMap.val) := by
  unfold TLVTableMap.decodeList
  rw [tlv_loop data hwf ms (data.len + 1) n0 [] (by omega) hn hb]
  rfl

end OFV.Sw
