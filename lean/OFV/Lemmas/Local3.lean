/-
  OFV.Lemmas.Local3 — frame locality, continued: the experimenter (vendor) message and its bodies, and whether the
  over-reads found in `OFV.Lemmas.Local2` are reachable through `openflow13.Parse`.

  * `VendorHeader.UnmarshalBinary` (openflow13/openflow13.go:847-849) slices `data[16:v.Header.Length]` with the length
    taken from the wire and never compared with `len(data)`: NOT local (`VendorHeader_not_local_counterexample`), and
    reachable through Parse on a frame shorter than its own Length field (`parse_vendor_not_local_counterexample`).
  * The `TLVTableReply` over-read IS reachable through Parse on a frame whose length equals its Length field
    (`parse_tlvtablereply_not_local_counterexample`): an experimenter frame of 22 bytes in a 32-byte buffer.
  * `BundleAdd.UnmarshalBinary` checks `8 + msgLen > len(data)` before slicing: local, provided the embedded Parse is.
-/
import OFV.Lemmas.Local2
namespace OFV.Model
open OFV OFV.Go OFV.Go.Slice

/-! ### counterexamples through `Parse` -/

/-- an NXT TLV-table-reply frame: header (version 4, type 4 = experimenter, Length 22, xid 7), vendor 0x2320, experimenter
    type 26, body `00 00 00 01 | 00 02`; visible length 22 = the Length field; 10 more bytes of capacity -/
def tlvFrameS : Slice := ⟨[4,4,0,22, 0,0,0,7, 0,0,0x23,0x20, 0,0,0,26, 0,0,0,1, 0,2] ++ [1,1,1,1,1,1,1,1,1,1], 22⟩
def tlvFrameT : Slice := ⟨[4,4,0,22, 0,0,0,7, 0,0,0x23,0x20, 0,0,0,26, 0,0,0,1, 0,2] ++ [2,2,2,2,2,2,2,2,2,2], 22⟩

theorem tlvFrame_agree : tlvFrameS.WF ∧ tlvFrameT.WF ∧ tlvFrameS.Agree tlvFrameT ∧ 8 ≤ tlvFrameT.len := by
  unfold WF Agree; decide

theorem tlvFrameS_eval : parse 23 tlvFrameS = .ok (.obj "VendorHeader" [.obj "Header" [.num 4, .num 4, .num 22, .num 7],
    .num 8992, .num 26, .obj "TLVTableReply" [.num 1, .num 2, .bytes [1,1,1,1,1,1,1,1,1,1], .list []]]) := by rfl
theorem tlvFrameT_eval : parse 23 tlvFrameT = .ok (.obj "VendorHeader" [.obj "Header" [.num 4, .num 4, .num 22, .num 7],
    .num 8992, .num 26, .obj "TLVTableReply" [.num 1, .num 2, .bytes [2,2,2,2,2,2,2,2,2,2], .list []]]) := by rfl

/-- REACHABLE THROUGH PARSE with a frame whose visible length equals its Length field (what the stream delivers):
    the 10 reserved bytes of the TLV table reply are the 10 bytes that follow the frame in the buffer. -/
theorem parse_tlvtablereply_not_local_counterexample :
    tlvFrameS.WF ∧ tlvFrameT.WF ∧ tlvFrameS.Agree tlvFrameT ∧ 8 ≤ tlvFrameT.len ∧
    parse (tlvFrameS.len + 1) tlvFrameS ≠ parse (tlvFrameT.len + 1) tlvFrameT := by
  refine ⟨tlvFrame_agree.1, tlvFrame_agree.2.1, tlvFrame_agree.2.2.1, tlvFrame_agree.2.2.2, ?_⟩
  show parse 23 tlvFrameS ≠ parse 23 tlvFrameT
  rw [tlvFrameS_eval, tlvFrameT_eval]; intro h; simp at h

/-- an NXT set-controller-id frame cut after the 16-byte vendor header: Length field 24, visible length 16 -/
def vendorCexS : Slice := ⟨[4,4,0,24, 0,0,0,7, 0,0,0x23,0x20, 0,0,0,20] ++ [0,0,0,0,0,0,0,1], 16⟩
def vendorCexT : Slice := ⟨[4,4,0,24, 0,0,0,7, 0,0,0x23,0x20, 0,0,0,20] ++ [0,0,0,0,0,0,0,2], 16⟩

theorem vendorCex_agree : vendorCexS.WF ∧ vendorCexT.WF ∧ vendorCexS.Agree vendorCexT ∧ 8 ≤ vendorCexT.len := by
  unfold WF Agree; decide

theorem vendorCexS_eval : VendorHeader.unmarshal VendorHeader.zero vendorCexS =
    .ok (.obj "VendorHeader" [.obj "Header" [.num 4, .num 4, .num 24, .num 7], .num 8992, .num 20,
      .obj "ControllerID" [.bytes [0,0,0,0,0,0], .num 1]]) := by rfl
theorem vendorCexT_eval : VendorHeader.unmarshal VendorHeader.zero vendorCexT =
    .ok (.obj "VendorHeader" [.obj "Header" [.num 4, .num 4, .num 24, .num 7], .num 8992, .num 20,
      .obj "ControllerID" [.bytes [0,0,0,0,0,0], .num 2]]) := by rfl

/-- FALSE: `decodeVendorData(v.ExperimenterType, data[n:v.Header.Length])` (openflow13.go:849) — the Length field is
    not compared with `len(data)`; a 16-byte slice whose Length field says 24 gets its body from behind the slice. -/
theorem VendorHeader_not_local_counterexample :
    vendorCexS.WF ∧ vendorCexT.WF ∧ vendorCexS.Agree vendorCexT ∧
    VendorHeader.unmarshal VendorHeader.zero vendorCexS ≠ VendorHeader.unmarshal VendorHeader.zero vendorCexT := by
  refine ⟨vendorCex_agree.1, vendorCex_agree.2.1, vendorCex_agree.2.2.1, ?_⟩
  rw [vendorCexS_eval, vendorCexT_eval]; intro h; simp at h

theorem vendorCexS_parse : parse 17 vendorCexS =
    .ok (.obj "VendorHeader" [.obj "Header" [.num 4, .num 4, .num 24, .num 7], .num 8992, .num 20,
      .obj "ControllerID" [.bytes [0,0,0,0,0,0], .num 1]]) := by rfl
theorem vendorCexT_parse : parse 17 vendorCexT =
    .ok (.obj "VendorHeader" [.obj "Header" [.num 4, .num 4, .num 24, .num 7], .num 8992, .num 20,
      .obj "ControllerID" [.bytes [0,0,0,0,0,0], .num 2]]) := by rfl

/-- the same through Parse — but only on a slice SHORTER than the frame's own Length field (16 < 24), which the stream
    does not deliver (it cuts frames at their Length field). -/
theorem parse_vendor_not_local_counterexample :
    vendorCexS.WF ∧ vendorCexT.WF ∧ vendorCexS.Agree vendorCexT ∧ 8 ≤ vendorCexT.len ∧
    parse (vendorCexS.len + 1) vendorCexS ≠ parse (vendorCexT.len + 1) vendorCexT := by
  refine ⟨vendorCex_agree.1, vendorCex_agree.2.1, vendorCex_agree.2.2.1, vendorCex_agree.2.2.2, ?_⟩
  show parse 17 vendorCexS ≠ parse 17 vendorCexT
  rw [vendorCexS_parse, vendorCexT_parse]; intro h; simp at h

/-- the header over-read through Parse: only on a slice of 4..7 bytes (here an echo request cut after 4 bytes); with
    `8 ≤ len` the header is local (`Header_loc_partial`), and so is Hello with its version bitmaps (`Hello_loc`), so
    neither the header nor the version-bitmap over-read is reachable through Parse on a frame of at least 8 bytes. -/
theorem parse_header_not_local_counterexample :
    hdrCexS.WF ∧ hdrCexT.WF ∧ hdrCexS.Agree hdrCexT ∧
    parse 5 ⟨[4, 2, 0, 8, 0, 0, 0, 1], 4⟩ ≠ parse 5 ⟨[4, 2, 0, 8, 0, 0, 0, 2], 4⟩ := by
  refine ⟨hdrCex_agree.1, hdrCex_agree.2.1, hdrCex_agree.2.2, ?_⟩
  have e1 : parse 5 ⟨[4, 2, 0, 8, 0, 0, 0, 1], 4⟩ = .ok (.obj "Header" [.num 4, .num 2, .num 8, .num 1]) := by rfl
  have e2 : parse 5 ⟨[4, 2, 0, 8, 0, 0, 0, 2], 4⟩ = .ok (.obj "Header" [.num 4, .num 2, .num 8, .num 2]) := by rfl
  rw [e1, e2]; intro h; simp at h

/-! ### the provable parts -/

theorem byteAt_ne_err (t : Slice) (n : Nat) : t.byteAt n ≠ .err := by
  unfold byteAt Res.ofOption; split <;> simp
theorem u16In_ne_err (t : Slice) (a b : Nat) : t.u16In a b ≠ .err := by
  unfold u16In sliceR u16Here Res.ofOption
  cases t.slice a b with
  | none => simp
  | some x => simp only [Res.bind_ok]; split <;> simp
theorem u32In_ne_err (t : Slice) (a b : Nat) : t.u32In a b ≠ .err := by
  unfold u32In sliceR u32Here Res.ofOption
  cases t.slice a b with
  | none => simp
  | some x => simp only [Res.bind_ok]; split <;> simp

/-- the Length field of a decoded header is the 16-bit word at offset 2 -/
theorem Header_length_of (recv h : V) (t : Slice) (e : Bool) (hh : msgTryU Header.unmarshal recv t = .ok (h, e))
    (hlen : 4 ≤ t.len) : ∃ w, t.u16In 2 4 = .ok w ∧ Header.length h = w.toNat := by
  unfold msgTryU Header.unmarshal at hh
  rw [if_neg (by omega)] at hh
  cases h0 : t.byteAt 0 with
  | ok b0 =>
    cases h1 : t.byteAt 1 with
    | ok b1 =>
      cases h2 : t.u16In 2 4 with
      | ok w =>
        cases h3 : t.u32In 4 8 with
        | ok x =>
          simp only [h0, h1, h2, h3, Res.bind_ok, Res.pure_eq] at hh
          cases hh
          exact ⟨w, rfl, rfl⟩
        | err => exact absurd h3 (u32In_ne_err _ _ _)
        | panic => simp [h0, h1, h2, h3] at hh
        | spin => simp [h0, h1, h2, h3] at hh
      | err => exact absurd h2 (u16In_ne_err _ _ _)
      | panic => simp [h0, h1, h2] at hh
      | spin => simp [h0, h1, h2] at hh
    | err => exact absurd h1 (byteAt_ne_err _ _)
    | panic => simp [h0, h1] at hh
    | spin => simp [h0, h1] at hh
  | err => exact absurd h0 (byteAt_ne_err _ _)
  | panic => simp [h0] at hh
  | spin => simp [h0] at hh

/-- the experimenter message on agreeing slices that are at least as long as their own Length field says, for body
    decoders that respect agreement -/
theorem VendorHeader_unmarshalWith_loc_partial (decVD decVD' : Nat → Slice → R V) (recv : V) {s t : Slice} (haw : AW s t)
    (hL : ∀ w, t.u16In 2 4 = .ok w → w.toNat ≤ t.len)
    (hd : ∀ ty x y, AW x y → x.len + 16 ≤ t.len → decVD ty x = decVD' ty y) :
    VendorHeader.unmarshalWith decVD recv s = VendorHeader.unmarshalWith decVD' recv t := by
  unfold VendorHeader.unmarshalWith
  loc_norm haw
  split
  · apply ite_congr rfl (fun _ => rfl); intro h16
    rw [msgTryU_Header_loc _ haw (by omega)]
    apply bind_congr_ok; intro he hhe
    obtain ⟨w, hw, hlw⟩ := Header_length_of _ he.1 t he.2 hhe (by omega)
    have hle := hL w hw
    apply Res.bind_congr2 rfl; intro _
    apply Res.bind_congr2 rfl; intro ty
    apply ite_congr rfl _ (fun _ => rfl); intro hlt
    rcases Slice.sliceR_loc haw 16 (Header.length he.1) (by omega) with ⟨h1, h2⟩ | ⟨x, y, h1, h2, hxy⟩
    · rw [h1, h2]; rfl
    · rw [h1, h2]
      have hx := (Slice.sliceR_wf s 16 _ x h1).2
      simp only [Res.bind_ok]
      rw [hd ty.toNat x y hxy (by omega)]
  · rfl

theorem BundleAdd_unmarshalWith_loc (parseF parseF' : Slice → R V) (cl cl' : MsgLenF) (recv : V) {s t : Slice} (haw : AW s t)
    (hp : ∀ x y, AW x y → 8 ≤ y.len → y.len + 8 ≤ t.len → parseF x = parseF' y) :
    BundleAdd.unmarshalWith parseF cl recv s = BundleAdd.unmarshalWith parseF' cl' recv t := by
  unfold BundleAdd.unmarshalWith
  loc_norm haw
  split
  · apply ite_congr rfl (fun _ => rfl); intro h16
    apply Res.bind_congr2 rfl; intro _
    apply Res.bind_congr2 rfl; intro _
    apply Res.bind_congr2 rfl; intro ml
    apply ite_congr rfl (fun _ => rfl); intro hc
    simp only [Bool.or_eq_true, decide_eq_true_eq, not_or, Nat.not_lt, Nat.not_lt] at hc
    rcases Slice.sliceR_loc haw 8 (8 + ml.toNat) (by omega) with ⟨h1, h2⟩ | ⟨x, y, h1, h2, hxy⟩
    · rw [h1, h2]; rfl
    · rw [h1, h2]
      have hy := (Slice.sliceR_wf t 8 _ y h2).2
      simp only [Res.bind_ok]
      rw [hp x y hxy (by omega) (by omega)]
      apply Res.bind_congr2 rfl; intro _
      apply ite_congr rfl (fun _ => rfl); intro _
      apply ite_congr rfl _ (fun _ => rfl); intro _
      apply Res.bind_congr2 _ (fun _ => rfl)
      apply goLoop_congr
      intro st _
      apply Slice.fromR_bind_loc haw; intro x y hxy
      rw [BundlePropertyExperimenter_loc _ hxy]
  · rfl

/-- decodeVendorData on agreeing bodies: local for every experimenter type except the TLV table reply, which needs its
    16 fixed bytes (`TLVTableReply_not_local_counterexample`); a bundle-add body needs the embedded Parse to be local -/
theorem decodeVendorDataWith_loc_partial (parseF parseF' : Slice → R V) (cl cl' : MsgLenF) (ty : Nat) {x y : Slice}
    (hxy : AW x y) (htlv : ty = Gen.openflow13.Type_TlvTableReply → 16 ≤ y.len)
    (hp : ∀ u v, AW u v → 8 ≤ v.len → v.len + 8 ≤ y.len → parseF u = parseF' v) :
    decodeVendorDataWith parseF cl ty x = decodeVendorDataWith parseF' cl' ty y := by
  unfold decodeVendorDataWith
  rw [ControllerID_loc _ hxy, TLVTableMod_loc _ hxy, BundleControl_loc _ hxy,
    BundleAdd_unmarshalWith_loc parseF parseF' cl cl' _ hxy hp]
  apply ite_congr rfl (fun _ => rfl); intro _
  apply ite_congr rfl (fun _ => rfl); intro _
  apply ite_congr rfl _ (fun _ => rfl); intro h26
  exact TLVTableReply_loc_partial _ hxy (htlv h26)

/-! ### "both sides panic or both agree": decoders that slice against the capacity first and only later hit a
    length-checked read (PhyPort).  On a short slice the capacity-checked windows may or may not succeed, but the later
    `binary.BigEndian.Uint32(data[n:])` fails on both sides, so the results are equal all the same. -/

/-- outcome is a value or a panic (never an error return, never a non-terminating loop) -/
def OkOrPanic {α} (x : Res α) : Prop := (∃ a, x = .ok a) ∨ x = .panic

theorem ofOption_oop {α} (o : Option α) : OkOrPanic (Res.ofOption o) := by
  cases o with
  | none => exact Or.inr rfl
  | some a => exact Or.inl ⟨a, rfl⟩

theorem bind_oop {α β} {x : Res α} {f : α → Res β} (hx : OkOrPanic x) (hf : ∀ a, OkOrPanic (f a)) : OkOrPanic (x >>= f) := by
  rcases hx with ⟨a, rfl⟩ | rfl
  · exact hf a
  · exact Or.inr rfl

theorem sliceR_oop (s : Slice) (a b : Nat) : OkOrPanic (s.sliceR a b) := ofOption_oop _
theorem fromR_oop (s : Slice) (a : Nat) : OkOrPanic (s.fromR a) := ofOption_oop _
theorem byteAt_oop (s : Slice) (a : Nat) : OkOrPanic (s.byteAt a) := ofOption_oop _
theorem u16From_oop (s : Slice) (a : Nat) : OkOrPanic (s.u16From a) := bind_oop (fromR_oop s a) (fun _ => ofOption_oop _)
theorem u32From_oop (s : Slice) (a : Nat) : OkOrPanic (s.u32From a) := bind_oop (fromR_oop s a) (fun _ => ofOption_oop _)
theorem u64From_oop (s : Slice) (a : Nat) : OkOrPanic (s.u64From a) := bind_oop (fromR_oop s a) (fun _ => ofOption_oop _)

/-- a step that yields a value or panics, followed by a continuation that always panics, panics -/
theorem bind_panic_of {α β} {x : Res α} {f : α → Res β} (hx : OkOrPanic x) (hf : ∀ a, f a = .panic) : (x >>= f) = .panic := by
  rcases hx with ⟨a, rfl⟩ | rfl
  · exact hf a
  · rfl

theorem rd32_none (bs : Bytes) (h : bs.length < 4) : rd32 bs = none := by
  match bs, h with
  | [], _ => rfl
  | [_], _ => rfl
  | [_, _], _ => rfl
  | [_, _, _], _ => rfl
  | _ :: _ :: _ :: _ :: _, h => simp at h; omega

/-- `binary.BigEndian.Uint32(data[n:])` with fewer than 4 bytes left inside `len` panics, whatever the capacity -/
theorem u32From_panic (s : Slice) (hs : s.WF) (n : Nat) (h : s.len < n + 4) : s.u32From n = .panic := by
  unfold u32From
  by_cases hn : n ≤ s.len
  · rw [Slice.fromR_ok s n hn]
    simp only [Res.bind_ok]
    unfold u32Here
    rw [rd32_none]
    · rfl
    · have := (Slice.fromR_wf s hs n _ (Slice.fromR_ok s n hn))
      rw [Slice.bytes_length _ this.1]; simp only []; omega
  · unfold fromR from_ Res.ofOption; simp [hn]

/-- a PhyPort on fewer than 36 bytes panics: the four windows `data[4:8] … data[16:32]` are checked against the capacity
    only, but `binary.BigEndian.Uint32(data[32:])` right after them is checked against `len` -/
theorem PhyPort_short_panic (recv : V) (t : Slice) (ht : t.WF) (h : t.len < 36) : PhyPort.unmarshal recv t = .panic := by
  unfold PhyPort.unmarshal
  split
  · apply bind_panic_of (u32From_oop _ _); intro _
    apply bind_panic_of (sliceR_oop _ _ _); intro _
    apply bind_panic_of (sliceR_oop _ _ _); intro _
    apply bind_panic_of (sliceR_oop _ _ _); intro _
    apply bind_panic_of (sliceR_oop _ _ _); intro _
    rw [u32From_panic t ht 32 (by omega)]; rfl
  · rfl

theorem PhyPort_loc (recv : V) {s t : Slice} (haw : AW s t) : PhyPort.unmarshal recv s = PhyPort.unmarshal recv t := by
  by_cases h36 : t.len < 36
  · rw [PhyPort_short_panic recv t haw.2.1 h36, PhyPort_short_panic recv s haw.1 (by rw [haw.len_eq]; exact h36)]
  · unfold PhyPort.unmarshal
    loc_norm haw
    split
    · repeat' loc_step haw
    · rfl

theorem PortStatus_loc (recv : V) {s t : Slice} (haw : AW s t) (h8 : 8 ≤ t.len) :
    PortStatus.unmarshal recv s = PortStatus.unmarshal recv t := by
  unfold PortStatus.unmarshal
  loc_norm haw
  simp only [msgTryU_Header_loc _ haw h8]
  split
  · repeat' first
      | loc_step haw
      | simp only [PhyPort_loc _ ‹AW _ _›]
  · rfl

theorem SwitchFeatures_loc (recv : V) {s t : Slice} (haw : AW s t) (h8 : 8 ≤ t.len) :
    SwitchFeatures.unmarshal recv s = SwitchFeatures.unmarshal recv t := by
  unfold SwitchFeatures.unmarshal
  loc_norm haw
  simp only [msgTryU_Header_loc _ haw h8]
  split
  · have hloop : ∀ fuel cond cursor st,
        goLoop (σ := SwitchFeatures.St) fuel cond cursor (fun st => do
          let d ← s.fromR st.next
          let p ← PhyPort.unmarshal PhyPort.new d
          let l ← PhyPort.len p
          pure { next := st.next + l.toNat, ran := true }) st =
        goLoop fuel cond cursor (fun st => do
          let d ← t.fromR st.next
          let p ← PhyPort.unmarshal PhyPort.new d
          let l ← PhyPort.len p
          pure { next := st.next + l.toNat, ran := true }) st := by
      intro fuel cond cursor st
      apply goLoop_congr
      intro st _
      apply Slice.fromR_bind_loc haw; intro x y hxy
      rw [PhyPort_loc _ hxy]
    simp only [hloop]
    repeat' loc_step haw
  · rfl

end OFV.Model
