/-
  OFV.Lemmas.RT4b — the multipart request bodies decoded into ARBITRARY receivers (in particular `new(T)`, whose pads are nil):
  the pads of the result are `copyInto <receiver's pad> <wire bytes>`; encoders for pads shorter than their slot.
  Used by OFV/Props/C05d.lean.
-/
import OFV.Lemmas.RT4
namespace OFV.RT4
set_option linter.unusedSimpArgs false
open OFV OFV.Go OFV.Model OFV.RT OFV.RT2

/-- encoder with a pad of at most 6 bytes (nil included): the slot is filled up with zeros -/
theorem portStatsRequest_enc (p : Nat) (pad : Bytes) (hpad : pad.length ≤ 6) :
    let v := V.obj "PortStatsRequest" [.num p, .bytes pad]
    PortStatsRequest.marshalM v = .ok (be16 (n16 p) ++ (pad ++ zeros (6 - pad.length)), v) := by
  intro v
  simp only [v, PortStatsRequest.marshalM]
  rw [fill_exact 8 _ (by intro q hq; simp at hq; rcases hq with rfl | rfl <;> trivial)
    (by simp [piecesLen, pU16, pCopy, Piece.adv]; omega)]
  simp [piecesBytes, piecesLen, pU16, pCopy, Piece.bytes, Piece.adv, same]
  congr 1; omega

/-- decoder into any receiver: the pad is `copy(receiver's pad, data[2:])` -/
theorem portStatsRequest_dec (p : Nat) (w rpad : Bytes) (r0 : V) (hp : p < 65536)
    (data : Slice) (tail : Bytes) (_hdw : data.WF) (hb : data.bytes = be16 (n16 p) ++ w ++ tail) :
    PortStatsRequest.unmarshal (.obj "PortStatsRequest" [r0, .bytes rpad]) data
      = .ok (.obj "PortStatsRequest" [.num p, .bytes (copyInto rpad (w ++ tail))]) := by
  have hlenD := Slice.len_ge_of_bytes data _ _ hb
  simp only [List.length_append, be16_length] at hlenD
  have hb' : data.bytes = be16 (n16 p) ++ (w ++ tail) := by rw [hb]; simp only [List.append_assoc]
  have e0 : rd16 (data.bytes.drop 0) = some (n16 p) := by rw [hb']; exact rd16_be16 _ _
  obtain ⟨s, hs1, hs2, _, _⟩ := Slice.fromR_bytes data 2 (by omega)
  have hsb : s.bytes = w ++ tail := by rw [hs2, hb']; rfl
  simp only [PortStatsRequest.unmarshal, Slice.u16From_eq, e0, Res.ofOption, Res.bind_ok, hs1, hsb, Res.pure_eq, u16_n16 p hp]

theorem queueStatsRequest_enc (p q : Nat) (pad : Bytes) (hpad : pad.length ≤ 2) :
    let v := V.obj "QueueStatsRequest" [.num p, .bytes pad, .num q]
    QueueStatsRequest.marshalM v = .ok (be16 (n16 p) ++ (pad ++ zeros (2 - pad.length)) ++ be32 (n32 q), v) := by
  intro v
  simp only [v, QueueStatsRequest.marshalM]
  rw [fill_eq 8 _ (by intro x hx; simp at hx; rcases hx with rfl | rfl | rfl; trivial; (simp [pCopyAdv, Piece.Tight]; omega); trivial)
    (by simp [piecesLen, pU16, pU32, pCopyAdv, Piece.adv])]
  have : List.take 2 pad = pad := List.take_of_length_le hpad
  simp [piecesBytes, pU16, pU32, pCopyAdv, Piece.bytes, same, this]

theorem queueStatsRequest_dec (p q : Nat) (w rpad : Bytes) (r0 r2 : V) (hp : p < 65536) (hq : q < 4294967296) (hw : w.length = 2)
    (data : Slice) (tail : Bytes) (_hdw : data.WF) (hb : data.bytes = be16 (n16 p) ++ w ++ be32 (n32 q) ++ tail) :
    QueueStatsRequest.unmarshal (.obj "QueueStatsRequest" [r0, .bytes rpad, r2]) data
      = .ok (.obj "QueueStatsRequest" [.num p, .bytes (copyInto rpad (w ++ be32 (n32 q) ++ tail)), .num q]) := by
  have hlenD := Slice.len_ge_of_bytes data _ _ hb
  simp only [List.length_append, be16_length, be32_length, hw] at hlenD
  obtain ⟨a, b, rfl⟩ : ∃ a b, w = [a, b] := by
    match w, hw with
    | [a, b], _ => exact ⟨a, b, rfl⟩
  have hb' : data.bytes = be16 (n16 p) ++ ([a, b] ++ (be32 (n32 q) ++ tail)) := by rw [hb]; simp only [List.append_assoc]
  have e0 : rd16 (data.bytes.drop 0) = some (n16 p) := by rw [hb']; exact rd16_be16 _ _
  have e4 : rd32 (data.bytes.drop 4) = some (n32 q) := by rw [hb']; exact rd32_be32 _ _
  obtain ⟨s, hs1, hs2, _, _⟩ := Slice.fromR_bytes data 2 (by omega)
  have hsb : s.bytes = [a, b] ++ be32 (n32 q) ++ tail := by rw [hs2, hb']; rfl
  simp only [QueueStatsRequest.unmarshal, Slice.u16From_eq, Slice.u32From_eq, e0, e4, Res.ofOption, Res.bind_ok, hs1, hsb, Res.pure_eq,
    u16_n16 p hp, u32_n32 q hq]

/-- FlowStatsRequest / AggregateStatsRequest with pads of at most 3 / 4 bytes (nil included) -/
theorem statsReq_enc (k : String) (t op og c cm : Nat) (p p2 : Bytes) (m : V) (mbs : Bytes)
    (hp : p.length ≤ 3) (hp2 : p2.length ≤ 4) (hmm : Match.marshalM m = .ok (mbs, m)) :
    let v := statsReqV k t p op og p2 c cm m
    StatsReq.marshalM k v = .ok (statsReqFixed t (p ++ zeros (3 - p.length)) op og (p2 ++ zeros (4 - p2.length)) c cm ++ mbs, v) := by
  intro v
  simp only [v, statsReqV, StatsReq.marshalM, ne_eq, not_true_eq_false, if_false]
  rw [fill_eq 32 _ (by intro x hx; simp at hx; rcases hx with rfl | rfl | rfl | rfl | rfl | rfl | rfl <;>
        first | trivial | (simp [pCopyAdv, Piece.Tight]; omega))
    (by simp [piecesLen, pU8, pU32, pU64, pCopyAdv, Piece.adv])]
  simp only [Res.bind_ok, hmm, Res.pure_eq]
  have h1 : List.take 3 p = p := List.take_of_length_le hp
  have h2 : List.take 4 p2 = p2 := List.take_of_length_le hp2
  simp [piecesBytes, pU8, pU32, pU64, pCopyAdv, Piece.bytes, statsReqFixed, h1, h2]

/-- decoder into any receiver with Match `new(Match)` / `NewMatch()`: the pads are `copy(receiver's pad, data[1:4])`, `… data[12:16]` -/
theorem statsReq_dec (k : String) (t op og c cm : Nat) (w w2 rp rp2 : Bytes) (m r0 r2 r3 r5 r6 : V)
    (ht : t < 256) (hop : op < 4294967296) (hog : og < 4294967296) (hc : c < 18446744073709551616) (hcm : cm < 18446744073709551616)
    (hw : w.length = 3) (hw2 : w2.length = 4) (hm : MatchWF m) (mbs : Bytes) (hmm : Match.marshalM m = .ok (mbs, m))
    (data : Slice) (tail : Bytes) (hdw : data.WF) (hb : data.bytes = statsReqFixed t w op og w2 c cm ++ mbs ++ tail) :
    StatsReq.unmarshalP k (.obj k [r0, .bytes rp, r2, r3, .bytes rp2, r5, r6, Match.zero]) data
      = .ok (statsReqV k t (copyInto rp w) op og (copyInto rp2 w2) c cm m, false) := by
  obtain ⟨mbs', hmm', hml, hm8, hmdec, hm8', hmlt⟩ := RT.match_roundtrip m hm
  rw [hmm] at hmm'; cases hmm'
  have hfx : (statsReqFixed t w op og w2 c cm).length = 32 := by
    simp only [statsReqFixed, List.length_append, be32_length, be64_length, hw, hw2, List.length_cons, List.length_nil]
  have hlenD := Slice.len_ge_of_bytes data _ _ hb
  simp only [List.length_append, hfx] at hlenD
  obtain ⟨a1, a2, a3, rfl⟩ : ∃ a1 a2 a3, w = [a1, a2, a3] := by
    match w, hw with
    | [a, b, c], _ => exact ⟨a, b, c, rfl⟩
  obtain ⟨b1, b2, b3, b4, rfl⟩ : ∃ b1 b2 b3 b4, w2 = [b1, b2, b3, b4] := by
    match w2, hw2 with
    | [a, b, c, d], _ => exact ⟨a, b, c, d, rfl⟩
  have hb' : data.bytes = [n8 t] ++ ([a1, a2, a3] ++ (be32 (n32 op) ++ (be32 (n32 og) ++ ([b1, b2, b3, b4] ++ (be64 (n64 c) ++ (be64 (n64 cm) ++
      (mbs ++ tail))))))) := by
    rw [hb]; simp only [statsReqFixed, List.append_assoc]
  have e0 : data.bytes[0]? = some (n8 t) := by rw [hb']; rfl
  have e4 : rd32 (data.bytes.drop 4) = some (n32 op) := by rw [hb']; exact rd32_be32 _ _
  have e8 : rd32 (data.bytes.drop 8) = some (n32 og) := by rw [hb']; exact rd32_be32 _ _
  have e16 : rd64 (data.bytes.drop 16) = some (n64 c) := by rw [hb']; exact rd64_be64 _ _
  have e24 : rd64 (data.bytes.drop 24) = some (n64 cm) := by rw [hb']; exact rd64_be64 _ _
  obtain ⟨s1, hs1, hs1b, _⟩ := Slice.sliceR_bytes data hdw 1 4 (by omega) (by omega)
  have hs1b' : s1.bytes = [a1, a2, a3] := by rw [hs1b, hb']; rfl
  obtain ⟨s2, hs2, hs2b, _⟩ := Slice.sliceR_bytes data hdw 12 16 (by omega) (by omega)
  have hs2b' : s2.bytes = [b1, b2, b3, b4] := by rw [hs2b, hb']; rfl
  obtain ⟨dm, hm1, hm2, _, _⟩ := Slice.fromR_bytes data 32 (by omega)
  have hdm : dm.WF := (Slice.fromR_wf data hdw 32 dm hm1).1
  have hdmb : dm.bytes = mbs ++ tail := by rw [hm2, hb']; rfl
  have hmP : Match.unmarshalP Match.zero dm = .ok (m, false) := unmarshalP_of_unmarshal _ _ _ (hmdec dm _ hdm hdmb)
  simp only [StatsReq.unmarshalP, ne_eq, not_true_eq_false, if_false, Slice.byteAt_eq, Slice.u32From_eq, Slice.u64From_eq, e0, e4, e8, e16, e24,
    Res.ofOption, Res.bind_ok, hs1, hs2, hm1, hmP, hml, Res.pure_eq, hs1b', hs2b', u8_n8 t ht, u32_n32 op hop, u32_n32 og hog,
    u64_n64 c hc, u64_n64 cm hcm, statsReqV]

end OFV.RT4
