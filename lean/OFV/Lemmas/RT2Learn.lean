/-
  OFV.Lemmas.RT2Learn — NXLearnSpecHeader / NXLearnSpecField / NXLearnSpec (the five constructor shapes) and NXActionLearn with any
  list of round-tripping specs through DecodeAction.  Used by OFV/Props/C05b.lean.
-/
import OFV.Model.All
import OFV.Lemmas.Size
import OFV.Lemmas.RTBasic
import OFV.Lemmas.RTMatch
import OFV.Lemmas.RTAction
import OFV.Lemmas.RTNx
import OFV.Lemmas.RT2Nx
namespace OFV.RT2
set_option linter.unusedSimpArgs false
open OFV OFV.Go OFV.Model OFV.RT

def b2n (b : Bool) : Nat := if b then 1 else 0

set_option maxRecDepth 100000 in
/-- the 16-bit spec header word: flags and the 11-bit n_bits come back (checked for all 2048 × 6 combinations) -/
theorem learnWord_fin : ∀ (nb : Fin 2048) (s d o : Bool), (s && o) = false →
    let w := NXLearnSpecHeader.word (b2n s) (b2n d) (b2n o) nb.val
    decide (w &&& NXLearnSpecHeader.bitMatch ≠ 0) = s ∧ decide (w &&& NXLearnSpecHeader.bitLoad ≠ 0) = d ∧
    decide (w &&& NXLearnSpecHeader.bitOutput ≠ 0) = o ∧ (shr16 0xffff 5 &&& w).toNat = nb.val := by
  decide +kernel

/-- NXLearnSpecHeader with flags src / dst / output (bools) and n_bits -/
def specHdrV (s d o : Bool) (nb : Nat) : V := .obj "NXLearnSpecHeader" [.num (b2n s), .num (b2n d), .num (b2n o), .num nb, .num 2]

theorem b2n_true : b2n true = 1 := rfl
theorem b2n_false : b2n false = 0 := rfl
theorem bool_b2n (b : Bool) : V.bool b = .num (b2n b) := by cases b <;> rfl

theorem specHdr_rt (s d o : Bool) (nb : Nat) (hso : (s && o) = false) (hnb : nb < 2048) :
    let w := NXLearnSpecHeader.word (b2n s) (b2n d) (b2n o) nb
    NXLearnSpecHeader.bytes (specHdrV s d o nb) = .ok (be16 w) ∧
    ∀ (data : Slice) (rest : Bytes), data.bytes = be16 w ++ rest →
      NXLearnSpecHeader.unmarshal NXLearnSpecHeader.zero data = .ok (specHdrV s d o nb) := by
  intro w
  refine ⟨rfl, ?_⟩
  intro data rest hb
  have hlen := Slice.len_ge_of_bytes data _ _ hb
  simp only [be16_length] at hlen
  obtain ⟨h1, h2, h3, h4⟩ := learnWord_fin ⟨nb, hnb⟩ s d o hso
  unfold NXLearnSpecHeader.unmarshal
  rw [if_neg (by omega)]
  have e : data.u16Here = .ok w := by
    unfold Slice.u16Here
    rw [hb, rd16_be16]; rfl
  simp only [e, Res.bind_ok, Res.pure_eq]
  simp only at h1 h2 h3 h4
  simp only [h1, h2, h3, V.u16, h4, bool_b2n, specHdrV, w]

/-- NXLearnSpecField in decoded form: header-only MatchField and bit offset -/
def specFieldV (c f hm l ofs : Nat) : V := .obj "NXLearnSpecField" [hdrField c f hm l, .num ofs]
def specFieldBytes (c f hm l ofs : Nat) : Bytes := be32 (hdrWord c f hm l) ++ be16 (n16 ofs)

theorem specField_rt (c f hm l ofs : Nat) (hh : HdrOK c f hm l) (hofs : ofs < 65536) :
    NXLearnSpecField.marshalM (specFieldV c f hm l ofs) = .ok (specFieldBytes c f hm l ofs, specFieldV c f hm l ofs) ∧
    ∀ (data : Slice) (rest : Bytes), data.bytes = specFieldBytes c f hm l ofs ++ rest →
      NXLearnSpecField.unmarshal NXLearnSpecField.zero data = .ok (specFieldV c f hm l ofs) := by
  constructor
  · have hw : mfHeader (hdrField c f hm l) = .ok (hdrWord c f hm l).toNat := rfl
    simp only [specFieldV, NXLearnSpecField.marshalM, hw, Res.bind_ok]
    have hp : (6 : Nat) = piecesLen [pU32 (hdrWord c f hm l).toNat, pU16 ofs] := rfl
    rw [hp, fill_exact' _ (by intro p hp; simp at hp; rcases hp with rfl | rfl <;> trivial)]
    simp only [pU32, n32_ofToNat]
    rfl
  · intro data rest hb
    have hlen := Slice.len_ge_of_bytes data _ _ hb
    have h6 : (specFieldBytes c f hm l ofs).length = 6 := rfl
    unfold NXLearnSpecField.unmarshal
    rw [if_neg (by omega)]
    obtain ⟨d0, h01, h02, _⟩ := Slice.fromR_bytes data 0 (by omega)
    have hd0 : d0.bytes = be32 (hdrWord c f hm l) ++ (be16 (n16 ofs) ++ rest) := by
      rw [h02, hb]; simp only [specFieldBytes, List.drop_zero, List.append_assoc]
    have e4 : rd16 (data.bytes.drop 4) = some (n16 ofs) := by
      rw [hb]; exact rd16_be16 _ _
    simp only [h01, Res.bind_ok, hdr_unmarshal c f hm l hh d0 _ hd0, Slice.u16From_eq, e4, Res.ofOption, Res.pure_eq,
      u16_n16 ofs hofs, specFieldV]


theorem srcLen_toNat (nb : Nat) (h : nb < 2048) : (NXLearnSpec.srcLen nb).toNat = 2 * ((nb + 15) / 16) := by
  unfold NXLearnSpec.srcLen
  rw [UInt16.toNat_mul, UInt16.toNat_div, UInt16.toNat_add, n16_toNat nb (by omega)]
  have h2 : (2 : UInt16).toNat = 2 := rfl
  have h15 : (15 : UInt16).toNat = 15 := rfl
  have h16 : (16 : UInt16).toNat = 16 := rfl
  rw [h2, h15, h16]
  omega

/-- one learn spec `s` with encoding `e`: encodes unchanged, Len() = |e| (at least 8), decodes from `e` followed by anything -/
def SpecRT (s : V) (e : Bytes) : Prop :=
  NXLearnSpec.marshalM s = .ok (e, s) ∧ NXLearnSpec.len s = .ok (n16 e.length) ∧ 8 ≤ e.length ∧ e.length < 65536 ∧
  ∀ (data : Slice) (tail : Bytes), data.WF → data.bytes = e ++ tail → NXLearnSpec.unmarshal NXLearnSpec.zero data = .ok s

/-- match / load FROM A VALUE (NewLearnHeaderMatchFromValue: dst = false, NewLearnHeaderLoadFromValue: dst = true):
    header, the immediate value (2·⌈n_bits/16⌉ bytes), destination field -/
theorem specRT_fromValue (d : Bool) (nb : Nat) (sv : Bytes) (c f hm l ofs : Nat) (hnb : nb < 2048)
    (hsv : sv.length = 2 * ((nb + 15) / 16)) (hh : HdrOK c f hm l) (hofs : ofs < 65536) :
    SpecRT (.obj "NXLearnSpec" [specHdrV true d false nb, .nil, specFieldV c f hm l ofs, .bytes sv])
      (be16 (NXLearnSpecHeader.word 1 (b2n d) 0 nb) ++ sv ++ specFieldBytes c f hm l ofs) := by
  obtain ⟨hh1, hh2⟩ := specHdr_rt true d false nb rfl hnb
  obtain ⟨hf1, hf2⟩ := specField_rt c f hm l ofs hh hofs
  have hk := srcLen_toNat nb hnb
  have hsl : NXLearnSpec.srcLen nb = n16 sv.length := by
    apply UInt16.toNat_inj.mp; rw [hk, n16_toNat _ (by omega), hsv]
  have hel : (be16 (NXLearnSpecHeader.word 1 (b2n d) 0 nb) ++ sv ++ specFieldBytes c f hm l ofs).length = 8 + sv.length := by
    simp only [List.length_append, be16_length]
    have : (specFieldBytes c f hm l ofs).length = 6 := rfl
    omega
  have hlen : NXLearnSpec.len (.obj "NXLearnSpec" [specHdrV true d false nb, .nil, specFieldV c f hm l ofs, .bytes sv])
      = .ok (n16 (8 + sv.length)) := by
    simp only [NXLearnSpec.len, specHdrV, b2n_true, b2n_false, hsl]
    have : (n16 2 + n16 sv.length + 6) = n16 (8 + sv.length) := by
      have h6 : (6 : UInt16) = n16 6 := rfl
      rw [h6, n16_add, n16_add]; congr 1; omega
    simp [this]
  refine ⟨?_, by rw [hlen, hel], by omega, by omega, ?_⟩
  · unfold NXLearnSpec.marshalM
    rw [hlen]
    simp only [specHdrV, b2n_true, b2n_false, Res.bind_ok] at hh1 ⊢
    simp only [hh1, Res.bind_ok, hk, ← hsv, Nat.le_refl, if_true, List.take_length, hf1, Bool.false_eq_true, if_false, Res.pure_eq,
      Nat.succ_ne_zero, ne_eq, not_false_eq_true]
    rw [fill_eq _ _ (by intro p hp; simp at hp; rcases hp with rfl | rfl | rfl <;> simp [Piece.Tight, pCopy, pCopyAdv])
      (by rw [n16_toNat _ (by omega)]; simp [piecesLen, pCopy, pCopyAdv, Piece.adv]; have : (specFieldBytes c f hm l ofs).length = 6 := rfl
          omega)]
    simp [piecesBytes, pCopy, pCopyAdv, Piece.bytes, zeros, same]
  · intro data tail hd hb
    have hlen := Slice.len_ge_of_bytes data _ _ hb
    rw [hel] at hlen
    have hb' : data.bytes = be16 (NXLearnSpecHeader.word 1 (b2n d) 0 nb) ++ (sv ++ (specFieldBytes c f hm l ofs ++ tail)) := by
      rw [hb]; simp only [List.append_assoc]
    unfold NXLearnSpec.unmarshal NXLearnSpec.zero
    simp only [b2n_true, b2n_false] at hh2
    simp only [hh2 data _ hb', Res.bind_ok, specHdrV, b2n_true, b2n_false]
    simp only [Nat.succ_ne_zero, ne_eq, not_false_eq_true, if_true, hk, ← hsv]
    obtain ⟨s, hs1, hs2, _⟩ := Slice.sliceR_bytes data hd 2 (2 + sv.length) (by omega) (by omega)
    have hsb : s.bytes = sv := by
      rw [hs2, hb']
      have : List.drop 2 (be16 (NXLearnSpecHeader.word 1 (b2n d) 0 nb) ++ (sv ++ (specFieldBytes c f hm l ofs ++ tail)))
        = sv ++ (specFieldBytes c f hm l ofs ++ tail) := rfl
      rw [this]; simp
    have hn : ((2 : UInt16) + NXLearnSpec.srcLen nb).toNat = 2 + sv.length := by
      rw [hsl]; have : (2 : UInt16) = n16 2 := rfl
      rw [this, n16_add, n16_toNat _ (by omega)]
    obtain ⟨dd, hd1, hd2, _⟩ := Slice.fromR_bytes data (2 + sv.length) (by omega)
    have hddb : dd.bytes = specFieldBytes c f hm l ofs ++ tail := by
      rw [hd2, hb']
      have : (2 + sv.length) = (be16 (NXLearnSpecHeader.word 1 (b2n d) 0 nb) ++ sv).length := by simp only [List.length_append, be16_length]
      rw [this, ← List.append_assoc, List.drop_left]
    simp only [hs1, Res.bind_ok, hsb, makeCopy_self _ sv rfl, Res.pure_eq, hn, hd1, hf2 dd _ hddb, if_true]



/-- match / load FROM A FIELD (NewLearnHeaderMatchFromField: dst = false, NewLearnHeaderLoadFromField: dst = true):
    header, source field, destination field (14 bytes) -/
theorem specRT_fromField (d : Bool) (nb c1 f1 hm1 l1 ofs1 c2 f2 hm2 l2 ofs2 : Nat) (hnb : nb < 2048)
    (hh1 : HdrOK c1 f1 hm1 l1) (hofs1 : ofs1 < 65536) (hh2 : HdrOK c2 f2 hm2 l2) (hofs2 : ofs2 < 65536) :
    SpecRT (.obj "NXLearnSpec" [specHdrV false d false nb, specFieldV c1 f1 hm1 l1 ofs1, specFieldV c2 f2 hm2 l2 ofs2, .bytes []])
      (be16 (NXLearnSpecHeader.word 0 (b2n d) 0 nb) ++ specFieldBytes c1 f1 hm1 l1 ofs1 ++ specFieldBytes c2 f2 hm2 l2 ofs2) := by
  obtain ⟨hw1, hw2⟩ := specHdr_rt false d false nb rfl hnb
  obtain ⟨hf1, hf2⟩ := specField_rt c1 f1 hm1 l1 ofs1 hh1 hofs1
  obtain ⟨hg1, hg2⟩ := specField_rt c2 f2 hm2 l2 ofs2 hh2 hofs2
  have hel : (be16 (NXLearnSpecHeader.word 0 (b2n d) 0 nb) ++ specFieldBytes c1 f1 hm1 l1 ofs1 ++ specFieldBytes c2 f2 hm2 l2 ofs2).length = 14 := rfl
  have hlen : NXLearnSpec.len (.obj "NXLearnSpec" [specHdrV false d false nb, specFieldV c1 f1 hm1 l1 ofs1, specFieldV c2 f2 hm2 l2 ofs2, .bytes []])
      = .ok (n16 14) := rfl
  refine ⟨?_, by rw [hlen, hel], by omega, by omega, ?_⟩
  · unfold NXLearnSpec.marshalM
    rw [hlen]
    simp only [specHdrV, b2n_true, b2n_false, Res.bind_ok] at hw1 ⊢
    simp only [hw1, Res.bind_ok, hf1, hg1, ne_eq, not_true_eq_false, if_false, if_true, Res.pure_eq]
    rw [fill_eq (n16 14).toNat _ (by intro p hp; simp at hp; rcases hp with rfl | rfl | rfl <;> first | trivial | exact (Nat.le_of_eq rfl)) rfl]
    simp [piecesBytes, pCopy, pCopyAdv, Piece.bytes, zeros, same]
    rfl
  · intro data tail hd hb
    have hlen := Slice.len_ge_of_bytes data _ _ hb
    rw [hel] at hlen
    have hb' : data.bytes = be16 (NXLearnSpecHeader.word 0 (b2n d) 0 nb) ++ (specFieldBytes c1 f1 hm1 l1 ofs1 ++ (specFieldBytes c2 f2 hm2 l2 ofs2 ++ tail)) := by
      rw [hb]; simp only [List.append_assoc]
    unfold NXLearnSpec.unmarshal NXLearnSpec.zero
    simp only [b2n_true, b2n_false] at hw2
    simp only [hw2 data _ hb', Res.bind_ok, specHdrV, b2n_true, b2n_false]
    simp only [ne_eq, not_true_eq_false, if_false, if_true]
    obtain ⟨d2, h21, h22, _⟩ := Slice.fromR_bytes data 2 (by omega)
    obtain ⟨d8, h81, h82, _⟩ := Slice.fromR_bytes data 8 (by omega)
    have hd2b : d2.bytes = specFieldBytes c1 f1 hm1 l1 ofs1 ++ (specFieldBytes c2 f2 hm2 l2 ofs2 ++ tail) := by
      rw [h22, hb']; rfl
    have hd8b : d8.bytes = specFieldBytes c2 f2 hm2 l2 ofs2 ++ tail := by
      rw [h82, hb']; rfl
    have h8 : (8 : UInt16).toNat = 8 := rfl
    simp only [h21, Res.bind_ok, hf2 d2 _ hd2b, Res.pure_eq, h8, h81, hg2 d8 _ hd8b]

/-- output FROM A FIELD (NewLearnHeaderOutputFromField): header, source field (8 bytes), no destination -/
theorem specRT_output (d : Bool) (nb c f hm l ofs : Nat) (hnb : nb < 2048) (hh : HdrOK c f hm l) (hofs : ofs < 65536) :
    SpecRT (.obj "NXLearnSpec" [specHdrV false d true nb, specFieldV c f hm l ofs, .nil, .bytes []])
      (be16 (NXLearnSpecHeader.word 0 (b2n d) 1 nb) ++ specFieldBytes c f hm l ofs) := by
  obtain ⟨hw1, hw2⟩ := specHdr_rt false d true nb rfl hnb
  obtain ⟨hf1, hf2⟩ := specField_rt c f hm l ofs hh hofs
  have hel : (be16 (NXLearnSpecHeader.word 0 (b2n d) 1 nb) ++ specFieldBytes c f hm l ofs).length = 8 := rfl
  have hlen : NXLearnSpec.len (.obj "NXLearnSpec" [specHdrV false d true nb, specFieldV c f hm l ofs, .nil, .bytes []])
      = .ok (n16 8) := rfl
  refine ⟨?_, by rw [hlen, hel], by omega, by omega, ?_⟩
  · unfold NXLearnSpec.marshalM
    rw [hlen]
    simp only [specHdrV, b2n_true, b2n_false, Res.bind_ok] at hw1 ⊢
    simp only [hw1, Res.bind_ok, hf1, ne_eq, not_true_eq_false, if_false, if_true, Res.pure_eq, Nat.succ_ne_zero]
    rw [fill_eq (n16 8).toNat _ (by intro p hp; simp at hp; rcases hp with rfl | rfl <;> first | trivial | exact (Nat.le_of_eq rfl)) rfl]
    simp [piecesBytes, pCopy, pCopyAdv, Piece.bytes, zeros, same]
    rfl
  · intro data tail hd hb
    have hlen := Slice.len_ge_of_bytes data _ _ hb
    rw [hel] at hlen
    have hb' : data.bytes = be16 (NXLearnSpecHeader.word 0 (b2n d) 1 nb) ++ (specFieldBytes c f hm l ofs ++ tail) := by
      rw [hb]; simp only [List.append_assoc]
    unfold NXLearnSpec.unmarshal NXLearnSpec.zero
    simp only [b2n_true, b2n_false] at hw2
    simp only [hw2 data _ hb', Res.bind_ok, specHdrV, b2n_true, b2n_false]
    simp only [ne_eq, not_true_eq_false, if_false, if_true, Nat.succ_ne_zero]
    obtain ⟨d2, h21, h22, _⟩ := Slice.fromR_bytes data 2 (by omega)
    have hd2b : d2.bytes = specFieldBytes c f hm l ofs ++ tail := by
      rw [h22, hb']; rfl
    simp only [h21, Res.bind_ok, hf2 d2 _ hd2b, Res.pure_eq]


/-- learn specs paired with their encodings -/
inductive SpecsRT : List V → List Bytes → Prop
  | nil : SpecsRT [] []
  | cons {s : V} {e : Bytes} {ss : List V} {es : List Bytes} : SpecRT s e → SpecsRT ss es → SpecsRT (s :: ss) (e :: es)

theorem specs_marshal (ss : List V) (es : List Bytes) (h : SpecsRT ss es) (hfit : es.flatten.length < 65536) :
    mapM2 NXLearnSpec.marshalM ss = .ok (es, ss) ∧ NXActionLearn.specsLen ss = .ok (n16 es.flatten.length) ∧
    8 * es.length ≤ es.flatten.length := by
  induction h with
  | nil => exact ⟨rfl, rfl, by simp⟩
  | @cons s e ss es h1 _ ih =>
    obtain ⟨hm, hl, h8, _, _⟩ := h1
    simp only [List.flatten_cons, List.length_append] at hfit
    obtain ⟨i1, i2, i3⟩ := ih (by omega)
    refine ⟨?_, ?_, ?_⟩
    · simp [mapM2, hm, i1]
    · simp only [NXActionLearn.specsLen, hl, i2, Res.bind_ok, Res.pure_eq, n16_add, List.flatten_cons, List.length_append]
    · simp only [List.length_cons, List.flatten_cons, List.length_append]; omega

/-- the spec loop of NXActionLearn.UnmarshalBinary: runs while at least 8 bytes of the action are left -/
theorem learn_loop (data : Slice) (hd : data.WF) (L : Nat) (ss : List V) (es : List Bytes) (h : SpecsRT ss es) :
    ∀ (pre rest : Bytes) (acc : List V) (fuel : Nat),
      data.bytes = pre ++ es.flatten ++ rest → pre.length + es.flatten.length ≤ L → L < pre.length + es.flatten.length + 8 →
      es.length < fuel →
      goLoop (σ := NXActionLearn.St) fuel (fun s => decide (s.n < L) && !decide (L - s.n < 8)) (·.n)
        (fun s => do
          let d ← data.fromR s.n
          let spec ← NXLearnSpec.unmarshal NXLearnSpec.zero d
          let sl ← NXLearnSpec.len spec
          pure { n := s.n + sl.toNat, specs := s.specs ++ [spec] })
        { n := pre.length, specs := acc }
      = .ok { n := pre.length + es.flatten.length, specs := acc ++ ss } := by
  induction h with
  | nil =>
    intro pre rest acc fuel hb hlo hhi hfuel
    simp only [List.flatten_nil, List.length_nil, Nat.add_zero] at hlo hhi ⊢
    cases fuel with
    | zero => simp at hfuel
    | succ k =>
      unfold goLoop
      have hc : (decide (pre.length < L) && !decide (L - pre.length < 8)) = false := by
        simp only [Bool.and_eq_false_iff, decide_eq_false_iff_not, Bool.not_eq_false', decide_eq_true_eq]; omega
      simp [hc]
  | @cons s e ss es h1 _ ih =>
    intro pre rest acc fuel hb hlo hhi hfuel
    obtain ⟨hm, hl, h8, h64, hdec⟩ := h1
    cases fuel with
    | zero => simp at hfuel
    | succ k =>
      simp only [List.flatten_cons, List.length_append] at hlo hhi
      have hlen := Slice.bytes_length_le data
      rw [hb] at hlen
      simp only [List.flatten_cons, List.length_append] at hlen
      obtain ⟨t, ht1, ht2, _, _⟩ := Slice.fromR_bytes data pre.length (by omega)
      have htb : t.bytes = e ++ (es.flatten ++ rest) := by
        rw [ht2, hb]; simp only [List.flatten_cons, List.append_assoc]; exact List.drop_left' rfl
      have htwf : t.WF := (Slice.fromR_wf data hd _ t ht1).1
      unfold goLoop
      have hc : (decide (pre.length < L) && !decide (L - pre.length < 8)) = true := by
        simp only [Bool.and_eq_true, decide_eq_true_eq, Bool.not_eq_true', decide_eq_false_iff_not]; omega
      simp only [hc, if_true, ht1, Res.bind_ok, hdec t _ htwf htb, hl, Res.pure_eq, n16_toNat e.length h64]
      have hcur : ¬ (pre.length + e.length ≤ pre.length) := by omega
      simp only [if_false, hcur]
      have := ih (pre ++ e) rest (acc ++ [s]) k (by rw [hb]; simp) (by simp only [List.length_append]; omega)
        (by simp only [List.length_append]; omega) (by simp only [List.length_cons] at hfuel; omega)
      simp only [List.length_append, List.append_assoc, List.cons_append, List.nil_append, Res.pure_eq] at this
      rw [this]
      simp only [List.flatten_cons, List.length_append, Nat.add_assoc]


/-- an NXActionLearn value with the given stored Length and (unexported) pads -/
def learnV (ln : Nat) (pad pad2 : V) (idle hard prio cookie fl tid fi fh : Nat) (specs : List V) : V :=
  .obj "NXActionLearn" [nxHdr ln Gen.openflow13.NXAST_LEARN, .num idle, .num hard, .num prio, .num cookie, .num fl, .num tid, pad,
    .num fi, .num fh, .list specs, pad2]

/-- the 22 fixed bytes behind the Nicira header -/
def learnFixed (idle hard prio cookie fl tid fi fh : Nat) : Bytes :=
  be16 (n16 idle) ++ be16 (n16 hard) ++ be16 (n16 prio) ++ be64 (n64 cookie) ++ be16 (n16 fl) ++ [n8 tid, 0] ++ be16 (n16 fi) ++ be16 (n16 fh)

theorem learn_rt (idle hard prio cookie fl tid fi fh : Nat) (ss : List V) (es : List Bytes)
    (hidle : idle < 65536) (hhard : hard < 65536) (hprio : prio < 65536) (hcookie : cookie < 18446744073709551616)
    (hfl : fl < 65536) (htid : tid < 256) (hfi : fi < 65536) (hfh : fh < 65536) (hss : SpecsRT ss es)
    (hS : 32 + es.flatten.length + 7 < 65536) :
    let S := es.flatten.length
    let L := (32 + S + 7) / 8 * 8
    let v' := learnV L (.num 0) (.bytes []) idle hard prio cookie fl tid fi fh ss
    let bs := nxHdrBytes L Gen.openflow13.NXAST_LEARN ++ learnFixed idle hard prio cookie fl tid fi fh ++ es.flatten ++ zeros (L - (32 + S))
    (∀ (ln0 : Nat) (pad pad2 : V), Action.marshalM (learnV ln0 pad pad2 idle hard prio cookie fl tid fi fh ss)
      = .ok (bs, learnV L pad pad2 idle hard prio cookie fl tid fi fh ss)) ∧
    Action.lenM v' = .ok (n16 L, v') ∧ bs.length = L ∧
    ∀ (data : Slice) (tail : Bytes) (k : Nat), data.WF → data.bytes = bs ++ tail → DecodeAction (k + 1) data = .ok v' := by
  intro S L v' bs
  obtain ⟨hmap, hsl, hcnt⟩ := specs_marshal ss es hss (by omega)
  obtain ⟨pc1, pc2, pc3⟩ := pieces_copy es
  have hL : L < 65536 := by simp only [L, S]; omega
  have hLge : 32 + S ≤ L := by simp only [L]; omega
  have hLlt : L < 32 + S + 8 := by simp only [L]; omega
  have hfx : (learnFixed idle hard prio cookie fl tid fi fh).length = 22 := rfl
  have h10 : (nxHdrBytes L Gen.openflow13.NXAST_LEARN).length = 10 := rfl
  have hbl : bs.length = L := by
    simp only [bs, List.length_append, zeros_length, hfx, h10]; omega
  have hlen : ∀ (ln0 : Nat) (pad pad2 : V), NXActionLearn.len (learnV ln0 pad pad2 idle hard prio cookie fl tid fi fh ss) = .ok (n16 L) := by
    intro ln0 pad pad2
    simp only [learnV, NXActionLearn.len, hsl, Res.bind_ok, Res.pure_eq]
    have : (10 : UInt16) + 22 + n16 es.flatten.length = n16 (32 + S) := by
      have h32 : (10 : UInt16) + 22 = n16 32 := rfl
      rw [h32, n16_add]
    rw [this, round8_n16 _ (by simp only [S]; omega)]
  refine ⟨fun ln0 pad pad2 => ?_, ?_, hbl, ?_⟩
  · rw [action_marshal_leaf _ (by simp [learnV, V.kind])]
    simp only [Action.marshalLeaf, learnV, V.kind]
    unfold NXActionLearn.marshalM
    have := hlen ln0 pad pad2
    simp only [learnV] at this
    rw [this]
    simp only [Res.bind_ok, nxHdr_setLength ln0 _ L hL, nxHdr_bytes, hmap, n16_toNat L hL]
    have hpl : piecesLen ([pCopy (nxHdrBytes L Gen.openflow13.NXAST_LEARN), pU16 idle, pU16 hard, pU16 prio, pU64 cookie, pU16 fl,
        pU8 tid, pSkip 1, pU16 fi, pU16 fh] ++ es.map pCopy) = 32 + S := by
      rw [piecesLen_app, pc1]; rfl
    rw [fill_exact L _ (by
        intro p hp
        simp only [List.mem_append, List.mem_cons, List.not_mem_nil, or_false] at hp
        rcases hp with (rfl | rfl | rfl | rfl | rfl | rfl | rfl | rfl | rfl | rfl) | hp
        all_goals first | trivial | exact pc3 p hp) (by rw [hpl]; exact hLge), hpl, piecesBytes_app, pc2]
    simp only [Res.bind_ok, bs]
    rfl
  · rw [action_len_leaf v' (by simp [v', learnV, V.kind])]
    simp only [v', Action.lenLeaf, learnV, V.kind, NXActionLearn.lenM]
    have := hlen L (.num 0) (.bytes [])
    simp only [learnV] at this
    rw [this]; rfl
  · intro data tail k hd hb
    have hlen' := Slice.len_ge_of_bytes data _ _ hb
    rw [hbl] at hlen'
    have hb' : data.bytes = nxHdrBytes L Gen.openflow13.NXAST_LEARN ++ (learnFixed idle hard prio cookie fl tid fi fh ++ (es.flatten ++
        (zeros (L - (32 + S)) ++ tail))) := by
      rw [hb]; simp only [bs, List.append_assoc]
    rw [decodeAction_nx data hd L Gen.openflow13.NXAST_LEARN (by decide) _ hb' NXActionLearn.zero rfl (by decide)]
    simp only [Action.unmarshalLeaf, NXActionLearn.zero, V.kind, NXActionLearn.unmarshal]
    rw [nxHeader_unmarshal _ data hd L Gen.openflow13.NXAST_LEARN hL (by decide) _ hb']
    simp only [Res.bind_ok, nxHdr_length, n16_toNat L hL]
    rw [if_neg (by omega)]
    have hb2 : data.bytes = nxHdrBytes L Gen.openflow13.NXAST_LEARN ++ (be16 (n16 idle) ++ (be16 (n16 hard) ++ (be16 (n16 prio) ++
        (be64 (n64 cookie) ++ (be16 (n16 fl) ++ ([n8 tid, 0] ++ (be16 (n16 fi) ++ (be16 (n16 fh) ++ (es.flatten ++
        (zeros (L - (32 + S)) ++ tail)))))))))) := by
      rw [hb']; simp only [learnFixed, List.append_assoc]
    have e10 : rd16 (data.bytes.drop 10) = some (n16 idle) := by rw [hb2]; exact rd16_be16 _ _
    have e12 : rd16 (data.bytes.drop 12) = some (n16 hard) := by rw [hb2]; exact rd16_be16 _ _
    have e14 : rd16 (data.bytes.drop 14) = some (n16 prio) := by rw [hb2]; exact rd16_be16 _ _
    have e16 : rd64 (data.bytes.drop 16) = some (n64 cookie) := by rw [hb2]; exact rd64_be64 _ _
    have e24 : rd16 (data.bytes.drop 24) = some (n16 fl) := by rw [hb2]; exact rd16_be16 _ _
    have e26 : data.bytes[26]? = some (n8 tid) := by rw [hb2]; rfl
    have e28 : rd16 (data.bytes.drop 28) = some (n16 fi) := by rw [hb2]; exact rd16_be16 _ _
    have e30 : rd16 (data.bytes.drop 30) = some (n16 fh) := by rw [hb2]; exact rd16_be16 _ _
    have hloop := learn_loop data hd L ss es hss (nxHdrBytes L Gen.openflow13.NXAST_LEARN ++ learnFixed idle hard prio cookie fl tid fi fh)
      (zeros (L - (32 + S)) ++ tail) [] 65536 (by rw [hb']; simp only [List.append_assoc])
      (by simp only [List.length_append, hfx, h10]; omega) (by simp only [List.length_append, hfx, h10]; omega) (by omega)
    simp only [List.length_append, hfx, h10, List.nil_append, Nat.reduceAdd] at hloop
    simp only [Slice.u16From_eq, Slice.u64From_eq, Slice.byteAt_eq, e10, e12, e14, e16, e24, e26, e28, e30, Res.ofOption, Res.bind_ok]
    erw [hloop]
    simp only [Res.bind_ok, Res.pure_eq, u16_n16 idle hidle, u16_n16 hard hhard, u16_n16 prio hprio, u64_n64 cookie hcookie,
      u16_n16 fl hfl, u8_n8 tid htid, u16_n16 fi hfi, u16_n16 fh hfh]
    rfl

end OFV.RT2
