/-
  OFV.Lemmas.Local6 — frame locality, round 3 continued: the multipart record kinds other than flow-stats, the multipart
  reply that carries them, and the actions whose decoders check their length first.
-/
import OFV.Lemmas.Local5
namespace OFV.Model
open OFV OFV.Go OFV.Go.Slice

/-- `msgLoopW` with bodies that coincide on every state satisfying the loop condition -/
theorem msgLoopW_congr {σ} (cond : σ → Bool) (cursor : σ → Nat) (body body' : σ → R σ)
    (h : ∀ st, cond st = true → body st = body' st) :
    ∀ fuel st, msgLoopW fuel cond cursor body st = msgLoopW fuel cond cursor body' st := by
  intro fuel
  induction fuel with
  | zero => intro st; rfl
  | succ f ih =>
    intro st
    unfold msgLoopW
    by_cases hc : cond st = true
    · simp only [hc, if_true]
      rw [h st hc]
      cases body' st with
      | ok s' => simp only []; split
                 · rfl
                 · exact ih _
      | err => rfl
      | panic => rfl
      | spin => rfl
    · simp only [hc]; rfl

/-! ### stats records -/

theorem AggregateStats_loc (recv : V) {s t : Slice} (haw : AW s t) : AggregateStats.unmarshal recv s = AggregateStats.unmarshal recv t := by
  unfold AggregateStats.unmarshal
  (loc_norm haw) <;> (repeat' first | loc_step haw | split)

theorem DescStats_loc (recv : V) {s t : Slice} (haw : AW s t) : DescStats.unmarshal recv s = DescStats.unmarshal recv t := by
  unfold DescStats.unmarshal
  (loc_norm haw) <;> (repeat' first | loc_step haw | split)

theorem TableStats_loc (recv : V) {s t : Slice} (haw : AW s t) : TableStats.unmarshal recv s = TableStats.unmarshal recv t := by
  unfold TableStats.unmarshal
  (loc_norm haw) <;> (repeat' first | loc_step haw | split)

theorem PortStats_readCounters_loc {s t : Slice} (haw : AW s t) : ∀ (k n : Nat), PortStats.readCounters s n k = PortStats.readCounters t n k := by
  intro k
  induction k with
  | zero => intro n; rfl
  | succ k ih => intro n; unfold PortStats.readCounters; rw [Slice.u64From_loc haw, ih]

theorem PortStats_loc (recv : V) {s t : Slice} (haw : AW s t) : PortStats.unmarshal recv s = PortStats.unmarshal recv t := by
  unfold PortStats.unmarshal
  simp only [PortStats_readCounters_loc haw]
  (loc_norm haw) <;> (repeat' first | loc_step haw | split)

theorem QueueStats_loc (recv : V) {s t : Slice} (haw : AW s t) : QueueStats.unmarshal recv s = QueueStats.unmarshal recv t := by
  unfold QueueStats.unmarshal
  (loc_norm haw) <;> (repeat' first | loc_step haw | split)

theorem PortStatsRequest_loc (recv : V) {s t : Slice} (haw : AW s t) : PortStatsRequest.unmarshal recv s = PortStatsRequest.unmarshal recv t := by
  unfold PortStatsRequest.unmarshal
  (loc_norm haw) <;> (repeat' first | loc_step haw | split)

theorem QueueStatsRequest_loc (recv : V) {s t : Slice} (haw : AW s t) : QueueStatsRequest.unmarshal recv s = QueueStatsRequest.unmarshal recv t := by
  unfold QueueStatsRequest.unmarshal
  (loc_norm haw) <;> (repeat' first | loc_step haw | split)

/-- a multipart record of any type but flow (flow-stats records carry instructions: over-read, see `Local5`) -/
theorem decodeRecord_loc (ty : Nat) {s t : Slice} (haw : AW s t) (hty : ty ≠ Gen.openflow13.MultipartType_Flow) :
    MultipartReply.decodeRecord ty s = MultipartReply.decodeRecord ty t := by
  unfold MultipartReply.decodeRecord msgTryU
  rw [AggregateStats_loc _ haw, DescStats_loc _ haw, PortStats_loc _ haw, TableStats_loc _ haw, QueueStats_loc _ haw,
    if_neg hty, if_neg hty]

/-- a multipart reply of any type but flow, on a frame of at least 8 bytes -/
theorem MultipartReply_unmarshalWith_loc_partial (cl : MsgLenF) (recv : V) {s t : Slice} (haw : AW s t) (h8 : 8 ≤ t.len)
    (hty : ∀ mt, t.u16From 8 = .ok mt → mt.toNat ≠ Gen.openflow13.MultipartType_Flow) :
    MultipartReply.unmarshalWith cl recv s = MultipartReply.unmarshalWith cl recv t := by
  unfold MultipartReply.unmarshalWith
  loc_norm haw
  simp only [msgTryU_Header_loc _ haw h8]
  split
  · apply Res.bind_congr2 rfl; intro _
    apply bind_congr_ok; intro mt hmt
    apply Res.bind_congr2 rfl; intro _
    apply Res.bind_congr2 _ (fun _ => rfl)
    apply msgLoopW_congr
    intro st _
    apply Slice.fromR_bind_loc haw; intro x y hxy
    rw [decodeRecord_loc _ hxy (hty mt hmt)]
  · rfl

/-! ### actions whose decoders check `len(data)` before slicing -/

theorem ActionHeader_loc (recv : V) {s t : Slice} (haw : AW s t) : ActionHeader.unmarshal recv s = ActionHeader.unmarshal recv t := by
  unfold ActionHeader.unmarshal
  (loc_norm haw) <;> (repeat' first | loc_step haw | split)

theorem ActionOutput_loc (recv : V) {s t : Slice} (haw : AW s t) : ActionOutput.unmarshal recv s = ActionOutput.unmarshal recv t := by
  unfold ActionOutput.unmarshal
  split
  · (loc_norm haw) <;> (repeat' first | loc_step haw | simp only [ActionHeader_loc _ ‹AW _ _›])
  · rfl

theorem ActionGroup_loc (recv : V) {s t : Slice} (haw : AW s t) : ActionGroup.unmarshal recv s = ActionGroup.unmarshal recv t := by
  unfold ActionGroup.unmarshal
  split
  · (loc_norm haw) <;> (repeat' first | loc_step haw | simp only [ActionHeader_loc _ ‹AW _ _›])
  · rfl

theorem ActionMplsTtl_loc (recv : V) {s t : Slice} (haw : AW s t) : ActionMplsTtl.unmarshal recv s = ActionMplsTtl.unmarshal recv t := by
  unfold ActionMplsTtl.unmarshal
  split
  · (loc_norm haw) <;> (repeat' first | loc_step haw | simp only [ActionHeader_loc _ ‹AW _ _›])
  · rfl

theorem ActionNwTtl_loc (recv : V) {s t : Slice} (haw : AW s t) : ActionNwTtl.unmarshal recv s = ActionNwTtl.unmarshal recv t := by
  unfold ActionNwTtl.unmarshal
  split
  · (loc_norm haw) <;> (repeat' first | loc_step haw | simp only [ActionHeader_loc _ ‹AW _ _›])
  · rfl

theorem ActionSetqueue_loc (recv : V) {s t : Slice} (haw : AW s t) : ActionSetqueue.unmarshal recv s = ActionSetqueue.unmarshal recv t := by
  unfold ActionSetqueue.unmarshal
  split
  · (loc_norm haw) <;> (repeat' first | loc_step haw | simp only [ActionHeader_loc _ ‹AW _ _›])
  · rfl

theorem NXActionHeader_loc (recv : V) {s t : Slice} (haw : AW s t) : NXActionHeader.unmarshal recv s = NXActionHeader.unmarshal recv t := by
  unfold NXActionHeader.unmarshal
  have hc : Gen.openflow13.NxActionHeaderLength = 10 := rfl
  rw [hc]
  (loc_norm haw) <;> (repeat' first | loc_step haw | simp only [ActionHeader_loc _ ‹AW _ _›] | split)

/-- FALSE for the actions that re-slice `data[:4]` without a length check (`ActionDecNwTtl`, action.go:342; likewise
    `ActionPopVlan`): on an empty slice the action header is whatever follows in the buffer -/
theorem ActionDecNwTtl_not_local_counterexample :
    (Slice.mk [0, 24, 0, 8] 0).WF ∧ (Slice.mk [0, 24, 0, 9] 0).WF ∧ (Slice.mk [0, 24, 0, 8] 0).Agree (Slice.mk [0, 24, 0, 9] 0) ∧
    ActionDecNwTtl.unmarshal ActionDecNwTtl.zero (Slice.mk [0, 24, 0, 8] 0) ≠
      ActionDecNwTtl.unmarshal ActionDecNwTtl.zero (Slice.mk [0, 24, 0, 9] 0) := by
  refine ⟨by unfold WF; decide, by unfold WF; decide, by unfold Agree; decide, ?_⟩
  have e1 : ActionDecNwTtl.unmarshal ActionDecNwTtl.zero (Slice.mk [0, 24, 0, 8] 0) =
      .ok (.obj "ActionDecNwTtl" [.obj "ActionHeader" [.num 24, .num 8], .bytes []]) := by rfl
  have e2 : ActionDecNwTtl.unmarshal ActionDecNwTtl.zero (Slice.mk [0, 24, 0, 9] 0) =
      .ok (.obj "ActionDecNwTtl" [.obj "ActionHeader" [.num 24, .num 9], .bytes []]) := by rfl
  rw [e1, e2]; intro h; simp at h

end OFV.Model
