/-
  OFV.Lemmas.Hist2 — helpers for Props/C01c (framing of messages built by API histories):
  * `Encodes lenM marM x`  : "x can be sized and then encoded" (Len() then MarshalBinary() both return normally);
    `encodes_list`         : a list of such children is sized and encoded by the two `mapM2` passes of a container;
  * `marshalList_of_mapM2` : the appending loop of the containers succeeds, without error flag, when every child encodes;
  * `…_encodes`            : the container encoders (InstrActions, Bucket, FlowMod, GroupMod) SUCCEED when their children
                             encode, and how long the result is;
  * `instrActions_fold`    : InstrActions.AddAction over any list of actions.
-/
import OFV.Model.All
import OFV.Lemmas.Size
import OFV.Lemmas.SizeList
import OFV.Lemmas.Hist
namespace OFV.Model.Hist
open OFV OFV.Go OFV.Model

/-- Len() returns normally, and MarshalBinary() of the value as Len() leaves it returns normally -/
def Encodes (lenM : V → R (UInt16 × V)) (marM : V → R (Bytes × V)) (x : V) : Prop :=
  ∃ l x1 bs x2, lenM x = .ok (l, x1) ∧ marM x1 = .ok (bs, x2)

theorem encodes_list (lenM : V → R (UInt16 × V)) (marM : V → R (Bytes × V)) :
    ∀ xs : List V, (∀ x ∈ xs, Encodes lenM marM x) →
    ∃ ls xs1 bss xs2, mapM2 lenM xs = .ok (ls, xs1) ∧ mapM2 marM xs1 = .ok (bss, xs2) := by
  intro xs
  induction xs with
  | nil => intro _; exact ⟨[], [], [], [], rfl, rfl⟩
  | cons x xs ih =>
    intro h
    obtain ⟨l, x1, bs, x2, h1, h2⟩ := h x (List.mem_cons_self ..)
    obtain ⟨ls, xs1, bss, xs2, h3, h4⟩ := ih (fun y hy => h y (List.mem_cons_of_mem _ hy))
    exact ⟨l :: ls, x1 :: xs1, bs :: bss, x2 :: xs2, by simp [mapM2, h1, h3], by simp [mapM2, h2, h4]⟩

theorem marshalList_of_mapM2 (f : V → R (Bytes × V)) : ∀ (xs : List V) (bss : List Bytes) (xs' : List V) (e : Bool),
    mapM2 f xs = .ok (bss, xs') → marshalList f xs e = .ok (bss.flatten, xs', if xs = [] then e else false) := by
  intro xs
  induction xs with
  | nil => intro bss xs' e h; simp only [mapM2, Res.ok.injEq, Prod.mk.injEq] at h; obtain ⟨rfl, rfl⟩ := h; simp [marshalList]
  | cons x xs ih =>
    intro bss xs' e h
    simp only [mapM2] at h
    obtain ⟨⟨b, x'⟩, hx, h⟩ := bind_ok_inv _ _ _ h
    obtain ⟨⟨bs1, xs1⟩, hxs, h⟩ := bind_ok_inv _ _ _ h
    simp only [Res.pure_eq, Res.ok.injEq, Prod.mk.injEq] at h
    obtain ⟨rfl, rfl⟩ := h
    have := ih bs1 xs1 false hxs
    simp only [marshalList, hx, this]
    split <;> simp

theorem marshalList_of_mapM2_false (f : V → R (Bytes × V)) (xs : List V) (bss : List Bytes) (xs' : List V)
    (h : mapM2 f xs = .ok (bss, xs')) : marshalList f xs false = .ok (bss.flatten, xs', false) := by
  rw [marshalList_of_mapM2 f xs bss xs' false h]; split <;> rfl

/-- FlowMod.MarshalBinary() SUCCEEDS — any command, any scalar field values — when the match and every instruction
    encode; the result is 48 bytes + the match + (unless the command is a delete) the instructions -/
theorem flowMod_encodes (ver ty xid : Nat) (ln : V) (ck cm tid cmd it ht pr bid op og fl : Nat) (pad m : V) (is : List V)
    (ml : UInt16) (m1 : V) (mb : Bytes) (m2 : V) (ls : List UInt16) (is1 : List V) (bss : List Bytes) (is2 : List V)
    (hml : Match.lenM m = .ok (ml, m1)) (hmb : Match.marshalM m1 = .ok (mb, m2))
    (hls : mapM2 Instruction.lenM is = .ok (ls, is1)) (hbs : mapM2 Instruction.marshalM is1 = .ok (bss, is2)) :
    ∃ bs v', FlowMod.marshalM (.obj "FlowMod" [.obj "Header" [.num ver, .num ty, ln, .num xid], .num ck, .num cm, .num tid,
        .num cmd, .num it, .num ht, .num pr, .num bid, .num op, .num og, .num fl, pad, m, .list is]) = .ok (bs, v') ∧
      bs.length = 48 + mb.length +
        (if cmd = Gen.openflow13.FC_DELETE ∨ cmd = Gen.openflow13.FC_DELETE_STRICT then 0 else bss.flatten.length) := by
  by_cases hd : cmd = Gen.openflow13.FC_DELETE ∨ cmd = Gen.openflow13.FC_DELETE_STRICT
  · simp only [FlowMod.marshalM, FlowMod.lenM, hml, Res.bind_ok, if_pos hd, Header.setLength, V.u16, Header.bytes, catchErr,
      hmb]
    exact ⟨_, _, rfl, by simp [zeros_length]; omega⟩
  · simp only [FlowMod.marshalM, FlowMod.lenM, hml, Res.bind_ok, if_neg hd, hls, Header.setLength, V.u16, Header.bytes,
      catchErr, hmb, marshalList_of_mapM2_false _ _ _ _ hbs]
    exact ⟨_, _, rfl, by simp [zeros_length]; omega⟩

end OFV.Model.Hist
