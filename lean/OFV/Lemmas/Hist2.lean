/-
  OFV.Lemmas.Hist2 — helpers for Props/C01c (framing of messages built by API histories):
  * `Encodes lenM marM x`  : "x can be sized and then encoded" (Len() then MarshalBinary() both return normally);
    `encodes_list`         : a list of such children is sized and encoded by the two `mapM2` passes of a container;
  * `marshalList_of_mapM2` : the appending loop of the containers succeeds, without error flag, when every child encodes;
  * `…_encodes`            : the container encoders (InstrActions, Bucket, FlowMod, GroupMod) SUCCEED when their children
                             encode, and how long the result is;
  * `instrActions_fold`    : InstrActions.AddAction over any list of actions.
-/
import OFV.Model.All
import OFV.Lemmas.Size
import OFV.Lemmas.SizeList
import OFV.Lemmas.Hist
import OFV.Lemmas.LayNat
namespace OFV.Model.Hist
open OFV OFV.Go OFV.Model InstrAux

/-- Len() returns normally WITHOUT modifying the value (true of everything the constructors and adders build), and
    MarshalBinary() returns normally -/
def Encodes (lenM : V → R (UInt16 × V)) (marM : V → R (Bytes × V)) (x : V) : Prop :=
  (∃ l, lenM x = .ok (l, x)) ∧ ∃ bs x', marM x = .ok (bs, x')

theorem encodes_list (lenM : V → R (UInt16 × V)) (marM : V → R (Bytes × V)) :
    ∀ xs : List V, (∀ x ∈ xs, Encodes lenM marM x) →
    ∃ ls bss xs2, mapM2 lenM xs = .ok (ls, xs) ∧ mapM2 marM xs = .ok (bss, xs2) := by
  intro xs
  induction xs with
  | nil => intro _; exact ⟨[], [], [], rfl, rfl⟩
  | cons x xs ih =>
    intro h
    obtain ⟨⟨l, h1⟩, bs, x2, h2⟩ := h x (List.mem_cons_self ..)
    obtain ⟨ls, bss, xs2, h3, h4⟩ := ih (fun y hy => h y (List.mem_cons_of_mem _ hy))
    exact ⟨l :: ls, bs :: bss, x2 :: xs2, by simp [mapM2, h1, h3], by simp [mapM2, h2, h4]⟩

theorem marshalList_of_mapM2 (f : V → R (Bytes × V)) : ∀ (xs : List V) (bss : List Bytes) (xs' : List V) (e : Bool),
    mapM2 f xs = .ok (bss, xs') → marshalList f xs e = .ok (bss.flatten, xs', if xs = [] then e else false) := by
  intro xs
  induction xs with
  | nil => intro bss xs' e h; simp only [mapM2, Res.ok.injEq, Prod.mk.injEq] at h; obtain ⟨rfl, rfl⟩ := h; simp [marshalList]
  | cons x xs ih =>
    intro bss xs' e h
    simp only [mapM2] at h
    obtain ⟨⟨b, x'⟩, hx, h⟩ := bind_ok_inv _ _ _ h
    obtain ⟨⟨bs1, xs1⟩, hxs, h⟩ := bind_ok_inv _ _ _ h
    simp only [Res.pure_eq, Res.ok.injEq, Prod.mk.injEq] at h
    obtain ⟨rfl, rfl⟩ := h
    have := ih bs1 xs1 false hxs
    simp only [marshalList, hx, this]
    split <;> simp

theorem marshalList_of_mapM2_false (f : V → R (Bytes × V)) (xs : List V) (bss : List Bytes) (xs' : List V)
    (h : mapM2 f xs = .ok (bss, xs')) : marshalList f xs false = .ok (bss.flatten, xs', false) := by
  rw [marshalList_of_mapM2 f xs bss xs' false h]; split <;> rfl

/-- FlowMod.MarshalBinary() SUCCEEDS — any command, any scalar field values — when the match and every instruction
    encode; the result is 48 bytes + the match + (unless the command is a delete) the instructions -/
theorem flowMod_encodes (ver ty xid : Nat) (ln : V) (ck cm tid cmd it ht pr bid op og fl : Nat) (pad m : V) (is : List V)
    (ml : UInt16) (m1 : V) (mb : Bytes) (m2 : V) (ls : List UInt16) (is1 : List V) (bss : List Bytes) (is2 : List V)
    (hml : Match.lenM m = .ok (ml, m1)) (hmb : Match.marshalM m1 = .ok (mb, m2))
    (hls : mapM2 Instruction.lenM is = .ok (ls, is1)) (hbs : mapM2 Instruction.marshalM is1 = .ok (bss, is2)) :
    ∃ bs v', FlowMod.marshalM (.obj "FlowMod" [.obj "Header" [.num ver, .num ty, ln, .num xid], .num ck, .num cm, .num tid,
        .num cmd, .num it, .num ht, .num pr, .num bid, .num op, .num og, .num fl, pad, m, .list is]) = .ok (bs, v') ∧
      bs.length = 48 + mb.length +
        (if cmd = Gen.openflow13.FC_DELETE ∨ cmd = Gen.openflow13.FC_DELETE_STRICT then 0 else bss.flatten.length) := by
  by_cases hd : cmd = Gen.openflow13.FC_DELETE ∨ cmd = Gen.openflow13.FC_DELETE_STRICT
  · simp only [FlowMod.marshalM, FlowMod.lenM, hml, Res.bind_ok, if_pos hd, Header.setLength, V.u16, Header.bytes, catchErr,
      hmb]
    exact ⟨_, _, rfl, by simp [zeros_length]; omega⟩
  · simp only [FlowMod.marshalM, FlowMod.lenM, hml, Res.bind_ok, if_neg hd, hls, Header.setLength, V.u16, Header.bytes,
      catchErr, hmb, marshalList_of_mapM2_false _ _ _ _ hbs]
    exact ⟨_, _, rfl, by simp [zeros_length]; omega⟩

/-- an apply/write-actions instruction with a numeric type and any stored length, whose actions encode, encodes
    (through the Instruction interface) -/
theorem instrActions_encodes (ty : Nat) (x : V) (pad : Bytes) (as : List V)
    (h : ∀ a ∈ as, Encodes Action.lenM Action.marshalM a) :
    Encodes Instruction.lenM Instruction.marshalM
      (.obj "InstrActions" [.obj "InstrHeader" [.num ty, x], .bytes pad, .list as]) := by
  obtain ⟨ls, bss, as2, h1, h2⟩ := encodes_list _ _ as h
  constructor
  · exact ⟨8 + sum16 ls, by simp [Instruction.lenM, V.kind, InstrActions.lenM, h1]⟩
  · simp only [Instruction.marshalM, V.kind, InstrActions.marshalM, InstrActions.lenM, h1, Res.bind_ok, V.u16,
      InstrHeader.bytes, marshalList_of_mapM2_false _ _ _ _ h2]
    exact ⟨_, _, rfl⟩

/-- a bucket with numeric weight / watch fields whose actions encode, encodes (as GroupMod encodes it: on a copy) -/
theorem bucket_encodes (l : V) (w wp wg : Nat) (p : V) (as : List V)
    (h : ∀ a ∈ as, Encodes Action.lenM Action.marshalM a) :
    Encodes Bucket.lenM Bucket.marshalCopyM (.obj "Bucket" [l, .num w, .num wp, .num wg, p, .list as]) := by
  obtain ⟨ls, bss, as2, h1, h2⟩ := encodes_list _ _ as h
  constructor
  · exact ⟨round8 (16 + sum16 ls), by simp [Bucket.lenM, h1]⟩
  · simp only [Bucket.marshalCopyM, Bucket.marshalM, Bucket.lenM, h1, Res.bind_ok, marshalList_of_mapM2_false _ _ _ _ h2]
    exact ⟨_, _, rfl⟩

/-- GroupMod.MarshalBinary() SUCCEEDS — any command, type, group id — when every bucket encodes -/
theorem groupMod_encodes (ver ty xid : Nat) (ln : V) (cmd t p g : Nat) (bks : List V)
    (ls : List UInt16) (bks1 : List V) (bss : List Bytes) (bks2 : List V)
    (hls : mapM2 Bucket.lenM bks = .ok (ls, bks1)) (hbs : mapM2 Bucket.marshalCopyM bks1 = .ok (bss, bks2)) :
    ∃ bs v', GroupMod.marshalM (.obj "GroupMod" [.obj "Header" [.num ver, .num ty, ln, .num xid], .num cmd, .num t, .num p,
        .num g, .list bks]) = .ok (bs, v') ∧
      bs.length = 16 + (if cmd = Gen.openflow13.OFPGC_DELETE then 0 else bss.flatten.length) := by
  by_cases hd : cmd = Gen.openflow13.OFPGC_DELETE
  · simp only [GroupMod.marshalM, GroupMod.lenM, if_pos hd, Res.bind_ok, Header.setLength, V.u16, Header.bytes]
    exact ⟨_, _, rfl, by simp⟩
  · simp only [GroupMod.marshalM, GroupMod.lenM, if_neg hd, hls, Res.bind_ok, Header.setLength, V.u16, Header.bytes,
      marshalList_of_mapM2_false _ _ _ _ hbs]
    exact ⟨_, _, rfl, by simp; omega⟩

/-- InstrActions.AddAction(act, false) over ANY list of actions whose Len() is stable: the actions are appended in
    call order, type and pad are untouched, the header's Length is rewritten at every call -/
theorem instrActions_fold : ∀ (as : List V) (ty : Nat) (x0 : V) (pad : Bytes) (as0 : List V),
    (∀ a ∈ as0 ++ as, Encodes Action.lenM Action.marshalM a) →
    ∃ x, foldAdd (fun v a => InstrActions.addAction v a false)
        (.obj "InstrActions" [.obj "InstrHeader" [.num ty, x0], .bytes pad, .list as0]) as =
      .ok (.obj "InstrActions" [.obj "InstrHeader" [.num ty, x], .bytes pad, .list (as0 ++ as)]) := by
  intro as
  induction as with
  | nil => intro ty x0 pad as0 _; exact ⟨x0, by simp [foldAdd, runOps]⟩
  | cons a as ih =>
    intro ty x0 pad as0 h
    have h' : ∀ b ∈ (as0 ++ [a]) ++ as, Encodes Action.lenM Action.marshalM b := by
      intro b hb; apply h; simpa using hb
    obtain ⟨ls, _, _, h1, _⟩ := encodes_list _ _ (as0 ++ [a]) (fun b hb => h' b (List.mem_append_left _ hb))
    obtain ⟨x, hx⟩ := ih ty (V.u16 (8 + sum16 ls)) pad (as0 ++ [a]) h'
    refine ⟨x, ?_⟩
    have step : InstrActions.addAction (.obj "InstrActions" [.obj "InstrHeader" [.num ty, x0], .bytes pad, .list as0]) a false =
        .ok (.obj "InstrActions" [.obj "InstrHeader" [.num ty, V.u16 (8 + sum16 ls)], .bytes pad, .list (as0 ++ [a])]) := by
      simp [InstrActions.addAction, InstrActions.lenM, h1]
    simp only [foldAdd] at hx
    show (InstrActions.addAction _ a false >>= fun v' => runOps _ v' as) = _
    rw [step, Res.bind_ok, hx]
    simp

/-- Hello.MarshalBinary() SUCCEEDS when the elements encode (Len() stable) and the uint16 size 8 + Σ Len() covers the
    elements' encodings (no wrap-around, each element as long as it reports) -/
theorem hello_encodes (ver ty xid : Nat) (ln : V) (es : List V) (ls : List UInt16) (ebs : List Bytes) (es' : List V)
    (hl : mapM2 HelloElem.lenM es = .ok (ls, es)) (hm : mapM2 HelloElem.marshalM es = .ok (ebs, es'))
    (hfit : 8 + ebs.flatten.length ≤ (8 + sum16 ls).toNat) :
    ∃ bs v', Hello.marshalM (.obj "Hello" [.obj "Header" [.num ver, .num ty, ln, .num xid], .list es]) = .ok (bs, v') := by
  have htl : ∀ p ∈ pCopy ([n8 ver, n8 ty] ++ be16 (n16 (8 + sum16 ls).toNat) ++ be32 (n32 xid)) :: ebs.map pCopy, p.Tight := by
    intro p hp
    rcases List.mem_cons.mp hp with rfl | hp
    · trivial
    · exact tight_map_pCopy ebs p hp
  have hpl : piecesLen (pCopy ([n8 ver, n8 ty] ++ be16 (n16 (8 + sum16 ls).toNat) ++ be32 (n32 xid)) :: ebs.map pCopy) =
      8 + ebs.flatten.length := by
    have := piecesLen_append [pCopy ([n8 ver, n8 ty] ++ be16 (n16 (8 + sum16 ls).toNat) ++ be32 (n32 xid))] (ebs.map pCopy)
    simp only [List.singleton_append] at this
    rw [this, piecesLen_eq_bytes _ (tight_map_pCopy ebs), piecesBytes_map_pCopy]
    simp [piecesLen, pCopy, Piece.adv]
  simp only [Hello.marshalM, Hello.lenM, hl, Res.bind_ok, Header.setLength, V.u16, Header.bytes, hm,
    fill_exact _ _ htl (by rw [hpl]; exact hfit)]
  exact ⟨_, _, rfl⟩

end OFV.Model.Hist
