/-
  OFV.Lemmas.RT2Nx — the remaining fixed-shape Nicira actions through DecodeAction: ct_clear, reg_load, reg_move, output_reg,
  controller, dec_ttl_cnt_ids, note, reg_load2; the OXM header word (MarshalHeader / UnmarshalHeader) round trip they use.
  Used by OFV/Props/C05b.lean.
-/
import OFV.Model.All
import OFV.Lemmas.Size
import OFV.Lemmas.RTBasic
import OFV.Lemmas.RTMatch
import OFV.Lemmas.RTAction
import OFV.Lemmas.RTNx
namespace OFV.RT2
set_option linter.unusedSimpArgs false
open OFV OFV.Go OFV.Model OFV.RT
open OFV.Gen.openflow13 (MatchField)

/-- NXActionCTClear (Length 16) -/
theorem nxCTClear_rt :
    let v := V.obj "NXActionCTClear" [nxHdr 16 Gen.openflow13.NXAST_CT_CLEAR, .bytes (zeros 4)]
    let bs := nxHdrBytes 16 Gen.openflow13.NXAST_CT_CLEAR ++ zeros 6
    Action.marshalM v = .ok (bs, v) ∧ Action.lenM v = .ok (16, v) ∧
    ∀ (data : Slice) (tail : Bytes) (k : Nat), data.WF → data.bytes = bs ++ tail → DecodeAction (k + 1) data = .ok v := by
  intro v bs
  refine ⟨rfl, rfl, ?_⟩
  intro data tail k hd hb
  have hlen := Slice.len_ge_of_bytes data _ _ hb
  have hlen16 : 16 ≤ data.len := by
    have : bs.length = 16 := rfl
    omega
  have hb' : data.bytes = nxHdrBytes 16 Gen.openflow13.NXAST_CT_CLEAR ++ (zeros 6 ++ tail) := by
    rw [hb]; simp only [bs, List.append_assoc]
  rw [decodeAction_nx data hd 16 Gen.openflow13.NXAST_CT_CLEAR (by decide) _ hb' NXActionCTClear.zero rfl (by decide)]
  simp only [Action.unmarshalLeaf, NXActionCTClear.zero, V.kind, NXActionCTClear.unmarshal]
  rw [nxPrefix_ok data hd 16 Gen.openflow13.NXAST_CT_CLEAR (by decide) (by decide) _ hb' (by omega)]
  rfl


/-- arithmetic form of the packed OXM header word -/
theorem marshalHeader_toNat (c : UInt16) (f : UInt8) (m : Bool) (l : UInt8) (hf : f.toNat < 128) :
    (MatchField.MarshalHeader { Class := c, Field := f, HasMask := m, Length := l }).toNat =
      c.toNat * 65536 + f.toNat * 512 + (if m then 256 else 0) + l.toNat := by
  have hc := c.toNat_lt
  have hl := l.toNat_lt
  unfold MatchField.MarshalHeader Go.shl32
  simp only [show (16 : Nat) < 32 by omega, show (9 : Nat) < 32 by omega, if_true]
  have e16 : (UInt32.ofNat 16) = 16 := rfl
  have e9 : (UInt32.ofNat 9) = 9 := rfl
  have hcs : ((c.toUInt64.toUInt32) <<< (16 : UInt32)).toNat = c.toNat <<< 16 := by
    simp [UInt32.toNat_shiftLeft, Nat.shiftLeft_eq]; omega
  have hfs : ((f.toUInt64.toUInt32) <<< (9 : UInt32)).toNat = f.toNat <<< 9 := by
    simp [UInt32.toNat_shiftLeft, Nat.shiftLeft_eq]; omega
  have hl32 : (l.toUInt64.toUInt32).toNat = l.toNat := by simp
  rw [e16, e9]
  cases m
  · simp only [Bool.false_eq_true, if_false]
    rw [UInt32.toNat_or, UInt32.toNat_or, UInt32.toNat_or, hcs, hfs, hl32]
    have h1 : c.toNat <<< 16 ||| f.toNat <<< 9 = (c.toNat * 128 + f.toNat) <<< 9 := by
      rw [← Nat.shiftLeft_add_eq_or_of_lt (by simp [Nat.shiftLeft_eq]; omega)]
      simp [Nat.shiftLeft_eq]; omega
    rw [h1]
    have h0 : (0 : UInt32).toNat = 0 := rfl
    rw [h0, Nat.or_zero, ← Nat.shiftLeft_add_eq_or_of_lt (by omega)]
    simp [Nat.shiftLeft_eq]; omega
  · simp only [if_true]
    rw [UInt32.toNat_or, UInt32.toNat_or, UInt32.toNat_or, hcs, hfs, hl32]
    have h1 : c.toNat <<< 16 ||| f.toNat <<< 9 = (c.toNat * 128 + f.toNat) <<< 9 := by
      rw [← Nat.shiftLeft_add_eq_or_of_lt (by simp [Nat.shiftLeft_eq]; omega)]
      simp [Nat.shiftLeft_eq]; omega
    rw [h1]
    have h256 : (256 : UInt32).toNat = 256 := rfl
    rw [h256, ← Nat.shiftLeft_add_eq_or_of_lt (by omega)]
    have h2 : (c.toNat * 128 + f.toNat) <<< 9 + 256 = (c.toNat * 256 + f.toNat * 2 + 1) <<< 8 := by
      simp [Nat.shiftLeft_eq]; omega
    rw [h2, ← Nat.shiftLeft_add_eq_or_of_lt (by omega)]
    simp [Nat.shiftLeft_eq]; omega

theorem u8_and1 (b : UInt8) : (b &&& 1).toNat = b.toNat % 2 := by
  rw [UInt8.toNat_and]; exact Nat.and_two_pow_sub_one_eq_mod _ 1

theorem u8_shr1 (b : UInt8) : (b >>> 1).toNat = b.toNat / 2 := by
  simp [UInt8.toNat_shiftRight, Nat.shiftRight_eq_div_pow]

theorem u8_andff (b : UInt8) : b &&& 0xff = b := by
  apply UInt8.toNat_inj.mp
  rw [UInt8.toNat_and]
  have := b.toNat_lt
  show b.toNat &&& (2 ^ 8 - 1) = b.toNat
  rw [Nat.and_two_pow_sub_one_eq_mod]; omega

/-- pack then unpack: every header with a 7-bit field number comes back exactly -/
theorem pack_unpack (c : UInt16) (f : UInt8) (m : Bool) (l : UInt8) (hf : f.toNat < 128) (rest : Bytes) :
    UnmarshalHeader (be32 (MatchField.MarshalHeader { Class := c, Field := f, HasMask := m, Length := l }) ++ rest) =
      some { Class := c, Field := f, HasMask := m, Length := l } := by
  have hN := marshalHeader_toNat c f m l hf
  have hc := c.toNat_lt
  have hl := l.toNat_lt
  generalize MatchField.MarshalHeader { Class := c, Field := f, HasMask := m, Length := l } = w at hN
  simp only [be32, List.cons_append, List.nil_append, UnmarshalHeader, Option.some.injEq, MatchField.mk.injEq, u8_andff]
  refine ⟨?_, ?_, ?_, ?_, trivial⟩
  · apply UInt16.toNat_inj.mp
    cases m <;> simp [hN] <;> omega
  · apply UInt8.toNat_inj.mp
    rw [u8_shr1]
    cases m <;> simp [hN] <;> omega
  · have h2 : (UInt8.ofNat (w.toNat / 256 % 256) &&& 1).toNat = (if m then 1 else 0) := by
      rw [u8_and1]; cases m <;> simp [hN] <;> omega
    cases m
    · simp only [Bool.false_eq_true, if_false] at h2
      simp only [decide_eq_false_iff_not]
      intro hh
      have := congrArg UInt8.toNat hh
      rw [h2] at this
      exact absurd this (by decide)
    · simp only [if_true] at h2
      simp only [decide_eq_true_eq]
      apply UInt8.toNat_inj.mp
      rw [h2]; rfl
  · apply UInt8.toNat_inj.mp
    cases m <;> simp [hN] <;> omega

/-- a MatchField as the header-only decoders leave it (`new(MatchField)` + UnmarshalHeader): Class, Field, HasMask, Length
    set, ExperimenterID 0, Value and Mask nil -/
def hdrField (c f hm l : Nat) : V := .obj "MatchField" [.num c, .num f, .num hm, .num l, .num 0, .nil, .nil]

/-- header fields of a MatchField inside their widths (HasMask is a bool: 0 or 1) -/
def HdrOK (c f hm l : Nat) : Prop := c < 65536 ∧ f < 128 ∧ hm ≤ 1 ∧ l < 256

/-- the packed 32-bit OXM header of a field with these header values -/
def hdrWord (c f hm l : Nat) : UInt32 := MatchField.MarshalHeader ⟨n16 c, n8 f, decide (hm ≠ 0), n8 l, 0⟩

/-- `f.MarshalHeader()` of any MatchField with these header fields (whatever ExperimenterID, Value, Mask) -/
theorem mfHeader_eq (c f hm l eid : Nat) (val mask : V) :
    mfHeader (.obj "MatchField" [.num c, .num f, .num hm, .num l, .num eid, val, mask]) = .ok (hdrWord c f hm l).toNat := rfl

/-- … written with PutUint32 and read back by UnmarshalHeader into `new(MatchField)` -/
theorem hdr_unmarshal (c f hm l : Nat) (h : HdrOK c f hm l) (s : Slice) (rest : Bytes)
    (hs : s.bytes = be32 (hdrWord c f hm l) ++ rest) : MatchField.unmarshalHeader mfZero s = .ok (hdrField c f hm l) := by
  obtain ⟨hc, hf, hhm, hl⟩ := h
  unfold MatchField.unmarshalHeader mfZero
  simp only [hs, hdrWord]
  rw [pack_unpack _ _ _ _ (by rw [n8_toNat f (by omega)]; exact hf)]
  have hb : V.bool (decide (hm ≠ 0)) = .num hm := by
    have : hm = 0 ∨ hm = 1 := by omega
    rcases this with rfl | rfl <;> rfl
  simp only [hdrField, u16_n16 c hc, u8_n8 f (by omega), u8_n8 l hl, hb]

theorem n32_ofToNat (w : UInt32) : n32 w.toNat = w := by
  apply UInt32.toNat_inj.mp
  simp [n32, UInt32.toNat_ofNat']

theorem h24 : (n16 24).toNat = 24 := by decide

/-- NXActionRegLoad (Length 24): ofs_nbits, the destination field's OXM header, the 64-bit value.  DstReg comes back as
    the header-only MatchField `hdrField`. -/
theorem nxRegLoad_rt (ofs c f hm l eid val : Nat) (fv fm : V) (hofs : ofs < 65536) (hh : HdrOK c f hm l)
    (hval : val < 18446744073709551616) :
    let dst := V.obj "MatchField" [.num c, .num f, .num hm, .num l, .num eid, fv, fm]
    let v := V.obj "NXActionRegLoad" [nxHdr 24 Gen.openflow13.NXAST_REG_LOAD, .num ofs, dst, .num val]
    let v' := V.obj "NXActionRegLoad" [nxHdr 24 Gen.openflow13.NXAST_REG_LOAD, .num ofs, hdrField c f hm l, .num val]
    let bs := nxHdrBytes 24 Gen.openflow13.NXAST_REG_LOAD ++ be16 (n16 ofs) ++ be32 (hdrWord c f hm l) ++ be64 (n64 val)
    Action.marshalM v = .ok (bs, v) ∧ Action.marshalM v' = .ok (bs, v') ∧ Action.lenM v' = .ok (24, v') ∧
    ∀ (data : Slice) (tail : Bytes) (k : Nat), data.WF → data.bytes = bs ++ tail → DecodeAction (k + 1) data = .ok v' := by
  intro dst v v' bs
  have hw1 := mfHeader_eq c f hm l eid fv fm
  have hw2 := hdr_unmarshal c f hm l hh
  have hw3 : mfHeader (hdrField c f hm l) = .ok (hdrWord c f hm l).toNat := rfl
  have hmar : ∀ d : V, mfHeader d = .ok (hdrWord c f hm l).toNat →
      Action.marshalM (V.obj "NXActionRegLoad" [nxHdr 24 Gen.openflow13.NXAST_REG_LOAD, .num ofs, d, .num val])
        = .ok (bs, V.obj "NXActionRegLoad" [nxHdr 24 Gen.openflow13.NXAST_REG_LOAD, .num ofs, d, .num val]) := by
    intro d hd
    rw [action_marshal_leaf _ (by simp [V.kind])]
    simp only [Action.marshalLeaf, V.kind, NXActionRegLoad.marshalM, nxHdr_length, nxHdr_bytes, Res.bind_ok, h24, hd]
    have hp : piecesLen [pCopy (nxHdrBytes 24 Gen.openflow13.NXAST_REG_LOAD), pU16 ofs, pU32 (hdrWord c f hm l).toNat, pU64 val] = 24 := rfl
    rw [fill_exact 24 _ (by intro p hp; simp at hp; rcases hp with rfl | rfl | rfl | rfl <;> trivial) (by rw [hp]; omega), hp]
    simp only [pU32, n32_ofToNat]
    rfl
  refine ⟨hmar dst hw1, hmar _ hw3, rfl, ?_⟩
  intro data tail k hd hb
  have hlen := Slice.len_ge_of_bytes data _ _ hb
  have hlen24 : 24 ≤ data.len := by
    have : bs.length = 24 := rfl
    omega
  have hb' : data.bytes = nxHdrBytes 24 Gen.openflow13.NXAST_REG_LOAD ++ (be16 (n16 ofs) ++ (be32 (hdrWord c f hm l) ++ (be64 (n64 val) ++ tail))) := by
    rw [hb]; simp only [bs, List.append_assoc]
  rw [decodeAction_nx data hd 24 Gen.openflow13.NXAST_REG_LOAD (by decide) _ hb' NXActionRegLoad.zero rfl (by decide)]
  simp only [Action.unmarshalLeaf, NXActionRegLoad.zero, V.kind, NXActionRegLoad.unmarshal]
  rw [nxPrefix_ok data hd 24 Gen.openflow13.NXAST_REG_LOAD (by decide) (by decide) _ hb' (by omega)]
  have e10 : rd16 (data.bytes.drop 10) = some (n16 ofs) := by
    rw [hb']
    have : List.drop 10 (nxHdrBytes 24 Gen.openflow13.NXAST_REG_LOAD ++ (be16 (n16 ofs) ++ (be32 (hdrWord c f hm l) ++ (be64 (n64 val) ++ tail))))
      = be16 (n16 ofs) ++ (be32 (hdrWord c f hm l) ++ (be64 (n64 val) ++ tail)) := rfl
    rw [this]; exact rd16_be16 _ _
  have e16 : rd64 (data.bytes.drop 16) = some (n64 val) := by
    rw [hb']
    have : List.drop 16 (nxHdrBytes 24 Gen.openflow13.NXAST_REG_LOAD ++ (be16 (n16 ofs) ++ (be32 (hdrWord c f hm l) ++ (be64 (n64 val) ++ tail))))
      = be64 (n64 val) ++ tail := rfl
    rw [this]; exact rd64_be64 _ _
  obtain ⟨s, hs1, hs2, _⟩ := Slice.sliceR_bytes data hd 12 16 (by omega) (by omega)
  have hsb : s.bytes = be32 (hdrWord c f hm l) ++ [] := by
    rw [hs2, hb']; rfl
  simp only [Res.bind_ok, Slice.u16From_eq, Slice.u64From_eq, e10, e16, hs1, hw2 s [] hsb, tryE, Res.ofOption, Res.pure_eq,
    u16_n16 ofs hofs, u64_n64 val hval]
  rfl


/-- NXActionRegMove (Length 24): n_bits, src_ofs, dst_ofs, the OXM headers of source and destination field -/
theorem nxRegMove_rt (nb so dso c1 f1 hm1 l1 e1 c2 f2 hm2 l2 e2 : Nat) (v1 m1 v2 m2 : V) (hnb : nb < 65536) (hso : so < 65536)
    (hdso : dso < 65536) (hh1 : HdrOK c1 f1 hm1 l1) (hh2 : HdrOK c2 f2 hm2 l2) :
    let sf := V.obj "MatchField" [.num c1, .num f1, .num hm1, .num l1, .num e1, v1, m1]
    let df := V.obj "MatchField" [.num c2, .num f2, .num hm2, .num l2, .num e2, v2, m2]
    let v := V.obj "NXActionRegMove" [nxHdr 24 Gen.openflow13.NXAST_REG_MOVE, .num nb, .num so, .num dso, sf, df]
    let v' := V.obj "NXActionRegMove" [nxHdr 24 Gen.openflow13.NXAST_REG_MOVE, .num nb, .num so, .num dso,
      hdrField c1 f1 hm1 l1, hdrField c2 f2 hm2 l2]
    let bs := nxHdrBytes 24 Gen.openflow13.NXAST_REG_MOVE ++ be16 (n16 nb) ++ be16 (n16 so) ++ be16 (n16 dso)
      ++ be32 (hdrWord c1 f1 hm1 l1) ++ be32 (hdrWord c2 f2 hm2 l2)
    Action.marshalM v = .ok (bs, v) ∧ Action.marshalM v' = .ok (bs, v') ∧ Action.lenM v' = .ok (24, v') ∧
    ∀ (data : Slice) (tail : Bytes) (k : Nat), data.WF → data.bytes = bs ++ tail → DecodeAction (k + 1) data = .ok v' := by
  intro sf df v v' bs
  have hmar : ∀ d1 d2 : V, mfHeader d1 = .ok (hdrWord c1 f1 hm1 l1).toNat → mfHeader d2 = .ok (hdrWord c2 f2 hm2 l2).toNat →
      Action.marshalM (V.obj "NXActionRegMove" [nxHdr 24 Gen.openflow13.NXAST_REG_MOVE, .num nb, .num so, .num dso, d1, d2])
        = .ok (bs, V.obj "NXActionRegMove" [nxHdr 24 Gen.openflow13.NXAST_REG_MOVE, .num nb, .num so, .num dso, d1, d2]) := by
    intro d1 d2 hd1 hd2
    rw [action_marshal_leaf _ (by simp [V.kind])]
    simp only [Action.marshalLeaf, V.kind, NXActionRegMove.marshalM, nxHdr_length, nxHdr_bytes, Res.bind_ok, h24, hd1, hd2]
    have hp : piecesLen [pCopy (nxHdrBytes 24 Gen.openflow13.NXAST_REG_MOVE), pU16 nb, pU16 so, pU16 dso,
      pU32 (hdrWord c1 f1 hm1 l1).toNat, pU32 (hdrWord c2 f2 hm2 l2).toNat] = 24 := rfl
    rw [fill_exact 24 _ (by intro p hp; simp at hp; rcases hp with rfl | rfl | rfl | rfl | rfl | rfl <;> trivial) (by rw [hp]; omega), hp]
    simp only [pU32, n32_ofToNat]
    rfl
  refine ⟨hmar sf df rfl rfl, hmar _ _ rfl rfl, rfl, ?_⟩
  intro data tail k hd hb
  have hlen := Slice.len_ge_of_bytes data _ _ hb
  have hlen24 : 24 ≤ data.len := by
    have : bs.length = 24 := rfl
    omega
  have hb' : data.bytes = nxHdrBytes 24 Gen.openflow13.NXAST_REG_MOVE ++ (be16 (n16 nb) ++ (be16 (n16 so) ++ (be16 (n16 dso)
      ++ (be32 (hdrWord c1 f1 hm1 l1) ++ (be32 (hdrWord c2 f2 hm2 l2) ++ tail))))) := by
    rw [hb]; simp only [bs, List.append_assoc]
  rw [decodeAction_nx data hd 24 Gen.openflow13.NXAST_REG_MOVE (by decide) _ hb' NXActionRegMove.zero rfl (by decide)]
  simp only [Action.unmarshalLeaf, NXActionRegMove.zero, V.kind, NXActionRegMove.unmarshal]
  rw [nxPrefix_ok data hd 24 Gen.openflow13.NXAST_REG_MOVE (by decide) (by decide) _ hb' (by omega)]
  have e10 : rd16 (data.bytes.drop 10) = some (n16 nb) := by
    rw [hb']; exact rd16_be16 _ _
  have e12 : rd16 (data.bytes.drop 12) = some (n16 so) := by
    rw [hb']; exact rd16_be16 _ _
  have e14 : rd16 (data.bytes.drop 14) = some (n16 dso) := by
    rw [hb']; exact rd16_be16 _ _
  obtain ⟨d16, h161, h162, _⟩ := Slice.fromR_bytes data 16 (by omega)
  obtain ⟨d20, h201, h202, _⟩ := Slice.fromR_bytes data 20 (by omega)
  have hs16 : d16.bytes = be32 (hdrWord c1 f1 hm1 l1) ++ (be32 (hdrWord c2 f2 hm2 l2) ++ tail) := by
    rw [h162, hb']; rfl
  have hs20 : d20.bytes = be32 (hdrWord c2 f2 hm2 l2) ++ tail := by
    rw [h202, hb']; rfl
  simp only [Res.bind_ok, Slice.u16From_eq, e10, e12, e14, h161, h201, hdr_unmarshal c1 f1 hm1 l1 hh1 d16 _ hs16,
    hdr_unmarshal c2 f2 hm2 l2 hh2 d20 _ hs20, tryE, Res.ofOption, Res.pure_eq,
    u16_n16 nb hnb, u16_n16 so hso, u16_n16 dso hdso]
  rfl

/-- NXActionOutputReg (Length 24; subtypes OUTPUT_REG 15 and OUTPUT_REG2 32): ofs_nbits, the source field's OXM header,
    max_len, 6 zero bytes -/
theorem nxOutputReg_rt (sub ofs c f hm l eid ml : Nat) (fv fm : V)
    (hsub : sub = Gen.openflow13.NXAST_OUTPUT_REG ∨ sub = Gen.openflow13.NXAST_OUTPUT_REG2)
    (hofs : ofs < 65536) (hh : HdrOK c f hm l) (hml : ml < 65536) :
    let sf := V.obj "MatchField" [.num c, .num f, .num hm, .num l, .num eid, fv, fm]
    let v := V.obj "NXActionOutputReg" [nxHdr 24 sub, .num ofs, sf, .num ml, .bytes (zeros 6)]
    let v' := V.obj "NXActionOutputReg" [nxHdr 24 sub, .num ofs, hdrField c f hm l, .num ml, .bytes (zeros 6)]
    let bs := nxHdrBytes 24 sub ++ be16 (n16 ofs) ++ be32 (hdrWord c f hm l) ++ be16 (n16 ml) ++ zeros 6
    Action.marshalM v = .ok (bs, v) ∧ Action.marshalM v' = .ok (bs, v') ∧ Action.lenM v' = .ok (24, v') ∧
    ∀ (data : Slice) (tail : Bytes) (k : Nat), data.WF → data.bytes = bs ++ tail → DecodeAction (k + 1) data = .ok v' := by
  intro sf v v' bs
  have hsub16 : sub < 65536 := by rcases hsub with h | h <;> (rw [h]; decide)
  have hlook : nxSubtypeTable.lookup sub = some NXActionOutputReg.zero := by rcases hsub with h | h <;> (rw [h]; rfl)
  have hmar : ∀ d : V, mfHeader d = .ok (hdrWord c f hm l).toNat →
      Action.marshalM (V.obj "NXActionOutputReg" [nxHdr 24 sub, .num ofs, d, .num ml, .bytes (zeros 6)])
        = .ok (bs, V.obj "NXActionOutputReg" [nxHdr 24 sub, .num ofs, d, .num ml, .bytes (zeros 6)]) := by
    intro d hd
    rw [action_marshal_leaf _ (by simp [V.kind])]
    simp only [Action.marshalLeaf, V.kind, NXActionOutputReg.marshalM, nxHdr_length, nxHdr_bytes, Res.bind_ok, h24, hd]
    have hp : piecesLen [pCopy (nxHdrBytes 24 sub), pU16 ofs, pU32 (hdrWord c f hm l).toNat, pU16 ml, pCopyAdv (zeros 6) 6] = 24 := rfl
    rw [fill_exact 24 _ (by intro p hp; simp at hp; rcases hp with rfl | rfl | rfl | rfl | rfl <;> simp [Piece.Tight, pCopy, pU16, pU32, pCopyAdv])
      (by rw [hp]; omega), hp]
    simp only [pU32, n32_ofToNat]
    rfl
  refine ⟨hmar sf rfl, hmar _ rfl, rfl, ?_⟩
  intro data tail k hd hb
  have hlen := Slice.len_ge_of_bytes data _ _ hb
  have hlen24 : 24 ≤ data.len := by
    have : bs.length = 24 := rfl
    omega
  have hb' : data.bytes = nxHdrBytes 24 sub ++ (be16 (n16 ofs) ++ (be32 (hdrWord c f hm l) ++ (be16 (n16 ml) ++ (zeros 6 ++ tail)))) := by
    rw [hb]; simp only [bs, List.append_assoc]
  rw [decodeAction_nx data hd 24 sub hsub16 _ hb' NXActionOutputReg.zero hlook (by decide)]
  simp only [Action.unmarshalLeaf, NXActionOutputReg.zero, V.kind, NXActionOutputReg.unmarshal]
  rw [nxPrefix_ok data hd 24 sub (by decide) hsub16 _ hb' (by omega)]
  have e10 : rd16 (data.bytes.drop 10) = some (n16 ofs) := by
    rw [hb']; exact rd16_be16 _ _
  have e16 : rd16 (data.bytes.drop 16) = some (n16 ml) := by
    rw [hb']; exact rd16_be16 _ _
  obtain ⟨s, hs1, hs2, _⟩ := Slice.sliceR_bytes data hd 12 16 (by omega) (by omega)
  have hsb : s.bytes = be32 (hdrWord c f hm l) ++ [] := by
    rw [hs2, hb']; rfl
  simp only [Res.bind_ok, Slice.u16From_eq, e10, e16, hs1, hdr_unmarshal c f hm l hh s [] hsb, tryE, Res.ofOption, Res.pure_eq,
    u16_n16 ofs hofs, u16_n16 ml hml]
  rfl

/-- NXActionController (Length 16: `MarshalBinary` stores 16 whatever Length `ln0` was there): max_len, controller id,
    reason, one zero byte.  The unexported pad byte comes back 0. -/
theorem nxController_rt (ml id rs : Nat) (hml : ml < 65536) (hid : id < 65536) (hrs : rs < 256) :
    let v' := V.obj "NXActionController" [nxHdr 16 Gen.openflow13.NXAST_CONTROLLER, .num ml, .num id, .num rs, .num 0]
    let bs := nxHdrBytes 16 Gen.openflow13.NXAST_CONTROLLER ++ be16 (n16 ml) ++ be16 (n16 id) ++ [n8 rs, 0]
    (∀ (ln0 : Nat) (pad : V), Action.marshalM (.obj "NXActionController" [nxHdr ln0 Gen.openflow13.NXAST_CONTROLLER,
        .num ml, .num id, .num rs, pad])
      = .ok (bs, .obj "NXActionController" [nxHdr 16 Gen.openflow13.NXAST_CONTROLLER, .num ml, .num id, .num rs, pad])) ∧
    Action.lenM v' = .ok (16, v') ∧
    ∀ (data : Slice) (tail : Bytes) (k : Nat), data.WF → data.bytes = bs ++ tail → DecodeAction (k + 1) data = .ok v' := by
  intro v' bs
  refine ⟨?_, rfl, ?_⟩
  · intro ln0 pad
    rw [action_marshal_leaf _ (by simp [V.kind])]
    simp only [Action.marshalLeaf, V.kind, NXActionController.marshalM, nxHdr, NXActionHeader.setLength, ActionHeader.mk,
      ActionHeader.setLength, Res.bind_ok, Res.pure_eq]
    have hu : V.u16 16 = .num 16 := rfl
    rw [hu]
    have := nxHdr_bytes 16 Gen.openflow13.NXAST_CONTROLLER
    simp only [nxHdr, ActionHeader.mk] at this
    simp only [this, Res.bind_ok]
    have hp : piecesLen [pCopy (nxHdrBytes 16 Gen.openflow13.NXAST_CONTROLLER), pU16 ml, pU16 id, pU8 rs] = 15 := rfl
    rw [fill_exact 16 _ (by intro p hp; simp at hp; rcases hp with rfl | rfl | rfl | rfl <;> trivial) (by rw [hp]; omega), hp]
    rfl
  · intro data tail k hd hb
    have hlen := Slice.len_ge_of_bytes data _ _ hb
    have hlen16 : 16 ≤ data.len := by
      have : bs.length = 16 := rfl
      omega
    have hb' : data.bytes = nxHdrBytes 16 Gen.openflow13.NXAST_CONTROLLER ++ (be16 (n16 ml) ++ (be16 (n16 id) ++ ([n8 rs, 0] ++ tail))) := by
      rw [hb]; simp only [bs, List.append_assoc]
    rw [decodeAction_nx data hd 16 Gen.openflow13.NXAST_CONTROLLER (by decide) _ hb' NXActionController.zero rfl (by decide)]
    simp only [Action.unmarshalLeaf, NXActionController.zero, V.kind, NXActionController.unmarshal]
    rw [nxHeader_unmarshal _ data hd 16 Gen.openflow13.NXAST_CONTROLLER (by decide) (by decide) _ hb']
    simp only [Res.bind_ok, nxHdr_length, h16]
    rw [if_neg (by omega)]
    have e10 : rd16 (data.bytes.drop 10) = some (n16 ml) := by
      rw [hb']; exact rd16_be16 _ _
    have e12 : rd16 (data.bytes.drop 12) = some (n16 id) := by
      rw [hb']; exact rd16_be16 _ _
    have e14 : data.bytes[14]? = some (n8 rs) := by rw [hb']; rfl
    simp only [Res.bind_ok, Slice.u16From_eq, Slice.byteAt_eq, e10, e12, e14, Res.ofOption, Res.pure_eq,
      u16_n16 ml hml, u16_n16 id hid, u8_n8 rs hrs]
    rfl


theorem fill_eq (L : Nat) (ps : List Piece) (ht : ∀ p ∈ ps, p.Tight) (hL : piecesLen ps = L) :
    fill L ps = .ok (piecesBytes ps) := by
  subst hL; exact fill_exact' ps ht

theorem piecesBytes_app (a b : List Piece) : piecesBytes (a ++ b) = piecesBytes a ++ piecesBytes b := by
  simp [piecesBytes]
theorem piecesLen_app (a b : List Piece) : piecesLen (a ++ b) = piecesLen a + piecesLen b := by
  simp [piecesLen]

/-- the controller ids on the wire -/
def idsBytes (ns : List Nat) : Bytes := (ns.map (fun n => be16 (n16 n))).flatten

theorem idsBytes_length (ns : List Nat) : (idsBytes ns).length = 2 * ns.length := by
  induction ns with
  | nil => rfl
  | cons n ns ih => simp only [idsBytes, List.map_cons, List.flatten_cons, List.length_append, be16_length, List.length_cons] at ih ⊢; omega

theorem ids_pieces (ns : List Nat) :
    let ps := (ns.map V.num).map (fun i => pU16 i.asNat)
    piecesLen ps = 2 * ns.length ∧ piecesBytes ps = idsBytes ns ∧ ∀ p ∈ ps, p.Tight := by
  induction ns with
  | nil => exact ⟨rfl, rfl, by simp⟩
  | cons n ns ih =>
    obtain ⟨h1, h2, h3⟩ := ih
    refine ⟨?_, ?_, ?_⟩
    · simp only [List.map_cons, piecesLen, List.sum_cons, List.length_cons] at h1 ⊢
      rw [h1]; simp [pU16, Piece.adv]; omega
    · simp only [List.map_cons, piecesBytes, List.flatten_cons, idsBytes] at h2 ⊢
      rw [h2]; rfl
    · intro p hp
      simp only [List.map_cons, List.mem_cons] at hp
      rcases hp with rfl | hp
      · trivial
      · exact h3 p hp

theorem readIDs_ok (data : Slice) (ns : List Nat) (hns : ∀ n ∈ ns, n < 65536) :
    ∀ (pre rest : Bytes), data.bytes = pre ++ idsBytes ns ++ rest →
      NXActionDecTTLCntIDs.readIDs data ns.length pre.length = .ok (ns.map V.num) := by
  induction ns with
  | nil => intro pre rest _; rfl
  | cons n ns ih =>
    intro pre rest hb
    have hn : n < 65536 := hns n (by simp)
    have e : rd16 (data.bytes.drop pre.length) = some (n16 n) := by
      rw [hb]
      simp only [idsBytes, List.map_cons, List.flatten_cons, List.append_assoc]
      rw [List.drop_left' rfl]; exact rd16_be16 _ _
    have := ih (fun m hm => hns m (by simp [hm])) (pre ++ be16 (n16 n)) rest
      (by rw [hb]; simp [idsBytes])
    simp only [List.length_append, be16_length] at this
    simp only [List.length_cons, NXActionDecTTLCntIDs.readIDs, Slice.u16From_eq, e, Res.ofOption, Res.bind_ok, this,
      Res.pure_eq, u16_n16 n hn, List.map_cons]

/-- NXActionDecTTLCntIDs: `controllers` = number of ids, 4 zero bytes, the ids, zero padding up to the header's Length
    (any Length that holds the ids; the constructor rounds 16 + 2·#ids up to a multiple of 8) -/
theorem nxDecTTLCntIDs_rt (ln : Nat) (ns : List Nat) (hns : ∀ n ∈ ns, n < 65536) (hfit : 16 + 2 * ns.length ≤ ln)
    (hln : ln < 65536) :
    let v := V.obj "NXActionDecTTLCntIDs" [nxHdr ln Gen.openflow13.NXAST_DEC_TTL_CNT_IDS, .num ns.length, .bytes (zeros 4),
      .list (ns.map V.num)]
    let bs := nxHdrBytes ln Gen.openflow13.NXAST_DEC_TTL_CNT_IDS ++ be16 (n16 ns.length) ++ zeros 4 ++ idsBytes ns
      ++ zeros (ln - (16 + 2 * ns.length))
    Action.marshalM v = .ok (bs, v) ∧ Action.lenM v = .ok (n16 ln, v) ∧ bs.length = ln ∧
    ∀ (data : Slice) (tail : Bytes) (k : Nat), data.WF → data.bytes = bs ++ tail → DecodeAction (k + 1) data = .ok v := by
  intro v bs
  obtain ⟨hp1, hp2, hp3⟩ := ids_pieces ns
  have hbl : bs.length = ln := by
    simp only [bs, List.length_append, zeros_length, idsBytes_length, be16_length]
    have : (nxHdrBytes ln Gen.openflow13.NXAST_DEC_TTL_CNT_IDS).length = 10 := rfl
    omega
  refine ⟨?_, rfl, hbl, ?_⟩
  · rw [action_marshal_leaf v (by simp [v, V.kind])]
    simp only [v, Action.marshalLeaf, V.kind, NXActionDecTTLCntIDs.marshalM, nxHdr_length, nxHdr_bytes, Res.bind_ok,
      n16_toNat ln hln]
    have hpl : piecesLen ([pCopy (nxHdrBytes ln Gen.openflow13.NXAST_DEC_TTL_CNT_IDS), pU16 ns.length, pCopyAdv (zeros 4) 4] ++
        (ns.map V.num).map (fun i => pU16 i.asNat)) = 16 + 2 * ns.length := by
      rw [piecesLen_app, hp1]; rfl
    rw [fill_exact ln _ (by
        intro p hp
        simp only [List.mem_append, List.mem_cons, List.not_mem_nil, or_false] at hp
        rcases hp with (rfl | rfl | rfl) | hp
        · trivial
        · trivial
        · simp [Piece.Tight, pCopyAdv]
        · exact hp3 p hp) (by rw [hpl]; exact hfit), hpl, piecesBytes_app, hp2]
    rfl
  · intro data tail k hd hb
    have hlen := Slice.len_ge_of_bytes data _ _ hb
    rw [hbl] at hlen
    have hb' : data.bytes = nxHdrBytes ln Gen.openflow13.NXAST_DEC_TTL_CNT_IDS ++ (be16 (n16 ns.length) ++ (zeros 4 ++ (idsBytes ns
        ++ (zeros (ln - (16 + 2 * ns.length)) ++ tail)))) := by
      rw [hb]; simp only [bs, List.append_assoc]
    rw [decodeAction_nx data hd ln Gen.openflow13.NXAST_DEC_TTL_CNT_IDS (by decide) _ hb' NXActionDecTTLCntIDs.zero rfl (by decide)]
    simp only [Action.unmarshalLeaf, NXActionDecTTLCntIDs.zero, V.kind, NXActionDecTTLCntIDs.unmarshal]
    rw [nxPrefix_ok data hd ln Gen.openflow13.NXAST_DEC_TTL_CNT_IDS hln (by decide) _ hb' (by omega)]
    have e10 : rd16 (data.bytes.drop 10) = some (n16 ns.length) := by
      rw [hb']; exact rd16_be16 _ _
    have hids := readIDs_ok data ns hns (nxHdrBytes ln Gen.openflow13.NXAST_DEC_TTL_CNT_IDS ++ be16 (n16 ns.length) ++ zeros 4)
      (zeros (ln - (16 + 2 * ns.length)) ++ tail) (by rw [hb']; simp only [List.append_assoc])
    have h16 : (nxHdrBytes ln Gen.openflow13.NXAST_DEC_TTL_CNT_IDS ++ be16 (n16 ns.length) ++ zeros 4).length = 16 := rfl
    rw [h16] at hids
    have hnl : ns.length < 65536 := by omega
    simp only [Res.bind_ok, Slice.u16From_eq, e10, Res.ofOption, n16_toNat ns.length hnl, hids, Res.pure_eq,
      u16_n16 ns.length hnl, List.nil_append]
    rfl


theorem n16_add (a b : Nat) : n16 a + n16 b = n16 (a + b) := by
  apply UInt16.toNat_inj.mp
  simp [n16, UInt16.toNat_add, UInt16.toNat_ofNat']

theorem round8_n16 (x : Nat) (h : x + 7 < 65536) : round8 (n16 x) = n16 ((x + 7) / 8 * 8) := by
  apply UInt16.toNat_inj.mp
  rw [round8_toNat _ (by rw [n16_toNat x (by omega)]; exact h), n16_toNat x (by omega), n16_toNat _ (by omega)]

theorem nxHdr_setLength (ln0 sub : Nat) (l : Nat) (hl : l < 65536) :
    NXActionHeader.setLength (n16 l) (nxHdr ln0 sub) = .ok (nxHdr l sub) := by
  simp only [nxHdr, NXActionHeader.setLength, ActionHeader.mk, ActionHeader.setLength, Res.bind_ok, Res.pure_eq, u16_n16 l hl]

/-- NXActionNote.  `MarshalBinary` stores Length `L` = 10 + |note| rounded up to a multiple of 8 (whatever `ln0` was there) and
    pads with zeros; `UnmarshalBinary` takes everything up to Length as the note: the note comes back WITH the padding
    (`note ++ zeros (L - 10 - |note|)`; identical when 10 + |note| is a multiple of 8).  That value encodes to the same bytes. -/
theorem nxNote_rt (note : Bytes) (hn : 10 + note.length + 7 < 65536) :
    let L := (10 + note.length + 7) / 8 * 8
    let note' := note ++ zeros (L - (10 + note.length))
    let v' := V.obj "NXActionNote" [nxHdr L Gen.openflow13.NXAST_NOTE, .bytes note']
    let bs := nxHdrBytes L Gen.openflow13.NXAST_NOTE ++ note'
    (∀ ln0, Action.marshalM (.obj "NXActionNote" [nxHdr ln0 Gen.openflow13.NXAST_NOTE, .bytes note])
      = .ok (bs, .obj "NXActionNote" [nxHdr L Gen.openflow13.NXAST_NOTE, .bytes note])) ∧
    Action.marshalM v' = .ok (bs, v') ∧ Action.lenM v' = .ok (n16 L, v') ∧ bs.length = L ∧
    ∀ (data : Slice) (tail : Bytes) (k : Nat), data.WF → data.bytes = bs ++ tail → DecodeAction (k + 1) data = .ok v' := by
  intro L note' v' bs
  have hL : L < 65536 := by simp only [L]; omega
  have hL8 : L % 8 = 0 := by simp only [L]; omega
  have hLge : 10 + note.length ≤ L := by simp only [L]; omega
  have hn'l : note'.length = L - 10 := by simp only [note', List.length_append, zeros_length]; omega
  have hbl : bs.length = L := by
    simp only [bs, List.length_append, hn'l]
    have : (nxHdrBytes L Gen.openflow13.NXAST_NOTE).length = 10 := rfl
    omega
  have hr : round8 (10 + n16 note.length) = n16 L := by
    have : (10 : UInt16) = n16 10 := rfl
    rw [this, n16_add, round8_n16 _ hn]
  have hr' : round8 (10 + n16 note'.length) = n16 L := by
    have : (10 : UInt16) = n16 10 := rfl
    rw [this, n16_add, round8_n16 _ (by rw [hn'l]; omega), hn'l]
    congr 1; omega
  have hmar : ∀ (ln0 : Nat) (nt : Bytes), round8 (10 + n16 nt.length) = n16 L → nt.length ≤ L - 10 →
      Action.marshalM (.obj "NXActionNote" [nxHdr ln0 Gen.openflow13.NXAST_NOTE, .bytes nt])
        = .ok (nxHdrBytes L Gen.openflow13.NXAST_NOTE ++ nt ++ zeros (L - (10 + nt.length)),
          .obj "NXActionNote" [nxHdr L Gen.openflow13.NXAST_NOTE, .bytes nt]) := by
    intro ln0 nt hrr hnt
    rw [action_marshal_leaf _ (by simp [V.kind])]
    simp only [Action.marshalLeaf, V.kind, NXActionNote.marshalM, hrr, nxHdr_setLength ln0 _ L hL, nxHdr_bytes, Res.bind_ok,
      n16_toNat L hL]
    have hp : piecesLen [pCopy (nxHdrBytes L Gen.openflow13.NXAST_NOTE), pCopy nt] = 10 + nt.length := by
      simp [piecesLen, pCopy, Piece.adv]; rfl
    rw [fill_exact L _ (by intro p hp; simp at hp; rcases hp with rfl | rfl <;> trivial) (by rw [hp]; omega), hp]
    simp [piecesBytes, pCopy, Piece.bytes]
  refine ⟨fun ln0 => ?_, ?_, ?_, hbl, ?_⟩
  · rw [hmar ln0 note hr (by omega)]
    simp only [bs, note', List.append_assoc]
  · have := hmar L note' hr' (by omega)
    rw [this]
    have hz : L - (10 + note'.length) = 0 := by omega
    simp only [hz, zeros, List.replicate_zero, List.append_nil, bs, v']
  · rw [action_len_leaf v' (by simp [v', V.kind])]
    simp only [v', Action.lenLeaf, V.kind, NXActionNote.lenM, hr']
    rfl
  · intro data tail k hd hb
    have hlen := Slice.len_ge_of_bytes data _ _ hb
    rw [hbl] at hlen
    have hb' : data.bytes = nxHdrBytes L Gen.openflow13.NXAST_NOTE ++ (note' ++ tail) := by
      rw [hb]; simp only [bs, List.append_assoc]
    rw [decodeAction_nx data hd L Gen.openflow13.NXAST_NOTE (by decide) _ hb' NXActionNote.zero rfl (by decide)]
    simp only [Action.unmarshalLeaf, NXActionNote.zero, V.kind, NXActionNote.unmarshal]
    rw [nxHeader_unmarshal _ data hd L Gen.openflow13.NXAST_NOTE hL (by decide) _ hb']
    simp only [Res.bind_ok, nxHdr_length, n16_toNat L hL]
    rw [if_neg (by omega)]
    obtain ⟨s, hs1, hs2, _⟩ := Slice.sliceR_bytes data hd 10 L (by omega) (by omega)
    have hsb : s.bytes = note' := by
      rw [hs2, hb']
      have : List.drop 10 (nxHdrBytes L Gen.openflow13.NXAST_NOTE ++ (note' ++ tail)) = note' ++ tail := rfl
      rw [this, ← hn'l]; simp
    have h10 : (n16 L - 10).toNat = L - 10 := by
      have : (10 : UInt16) = n16 10 := rfl
      rw [this, UInt16.toNat_sub_of_le _ _ (by
        rw [UInt16.le_iff_toNat_le, n16_toNat 10 (by decide), n16_toNat L hL]; omega),
        n16_toNat L hL, n16_toNat 10 (by decide)]
    simp only [hs1, Res.bind_ok, hsb, h10, Res.pure_eq, makeCopy_self _ note' hn'l]
    rfl


theorem matchFieldWF_obj (f : V) (h : MatchFieldWF f) : ∃ fs, f = .obj "MatchField" fs := by
  unfold MatchFieldWF at h
  split at h
  · exact ⟨_, rfl⟩
  · exact absurd h id

/-- NXActionRegLoad2 around any well-formed match field (OXM header, value, optional mask): 10-byte header, the field, zero
    padding to a multiple of 8.  `MarshalBinary` stores the size in Length (whatever `ln0` was there); the unexported pad comes
    back nil. -/
theorem nxRegLoad2_rt (f : V) (hf : MatchFieldWF f) :
    ∃ fb, MatchField.marshalM f = .ok (fb, f) ∧ 4 ≤ fb.length ∧ fb.length ≤ 518 ∧
    let L := (10 + fb.length + 7) / 8 * 8
    let v' := V.obj "NXActionRegLoad2" [nxHdr L Gen.openflow13.NXAST_REG_LOAD2, f, .bytes []]
    let bs := nxHdrBytes L Gen.openflow13.NXAST_REG_LOAD2 ++ fb ++ zeros (L - (10 + fb.length))
    (∀ (ln0 : Nat) (pad : V), Action.marshalM (.obj "NXActionRegLoad2" [nxHdr ln0 Gen.openflow13.NXAST_REG_LOAD2, f, pad])
      = .ok (bs, .obj "NXActionRegLoad2" [nxHdr L Gen.openflow13.NXAST_REG_LOAD2, f, pad])) ∧
    Action.lenM v' = .ok (n16 L, v') ∧ bs.length = L ∧
    ∀ (data : Slice) (tail : Bytes) (k : Nat), data.WF → data.bytes = bs ++ tail → DecodeAction (k + 1) data = .ok v' := by
  obtain ⟨fb, hm, hl, h4, h518, hdec⟩ := matchField_roundtrip f hf
  refine ⟨fb, hm, h4, h518, ?_⟩
  intro L v' bs
  have hL : L < 65536 := by simp only [L]; omega
  have hLge : 10 + fb.length ≤ L := by simp only [L]; omega
  have hbl : bs.length = L := by
    simp only [bs, List.length_append, zeros_length]
    have : (nxHdrBytes L Gen.openflow13.NXAST_REG_LOAD2).length = 10 := rfl
    omega
  have hr : round8 (10 + UInt16.ofNat fb.length) = n16 L := by
    have : (10 : UInt16) = n16 10 := rfl
    rw [this]; show round8 (n16 10 + n16 fb.length) = _
    rw [n16_add, round8_n16 _ (by omega)]
  obtain ⟨fs, rfl⟩ := matchFieldWF_obj f hf
  have hlenM : ∀ (h pad : V), NXActionRegLoad2.lenM (.obj "NXActionRegLoad2" [h, .obj "MatchField" fs, pad])
      = .ok (n16 L, .obj "NXActionRegLoad2" [h, .obj "MatchField" fs, pad]) := by
    intro h pad
    simp only [NXActionRegLoad2.lenM, hl, Res.bind_ok, hr]
  refine ⟨fun ln0 pad => ?_, ?_, hbl, ?_⟩
  · rw [action_marshal_leaf _ (by simp [V.kind])]
    simp only [Action.marshalLeaf, V.kind]
    unfold NXActionRegLoad2.marshalM
    simp only [hlenM, Res.bind_ok, nxHdr_setLength ln0 _ L hL, nxHdr_bytes, hm, n16_toNat L hL]
    have hp : piecesLen [pCopy (nxHdrBytes L Gen.openflow13.NXAST_REG_LOAD2), pCopy fb] = 10 + fb.length := by
      simp [piecesLen, pCopy, Piece.adv]; rfl
    rw [fill_exact L _ (by intro p hp; simp at hp; rcases hp with rfl | rfl <;> trivial) (by rw [hp]; omega), hp]
    simp [piecesBytes, pCopy, Piece.bytes, bs]
  · rw [action_len_leaf v' (by simp [v', V.kind])]
    simp only [v', Action.lenLeaf, V.kind, hlenM]
  · intro data tail k hd hb
    have hlen := Slice.len_ge_of_bytes data _ _ hb
    rw [hbl] at hlen
    have hb' : data.bytes = nxHdrBytes L Gen.openflow13.NXAST_REG_LOAD2 ++ (fb ++ (zeros (L - (10 + fb.length)) ++ tail)) := by
      rw [hb]; simp only [bs, List.append_assoc]
    rw [decodeAction_nx data hd L Gen.openflow13.NXAST_REG_LOAD2 (by decide) _ hb' NXActionRegLoad2.zero rfl (by decide)]
    simp only [Action.unmarshalLeaf, NXActionRegLoad2.zero, V.kind, NXActionRegLoad2.unmarshal]
    rw [nxPrefix_ok data hd L Gen.openflow13.NXAST_REG_LOAD2 hL (by decide) _ hb' (by omega)]
    obtain ⟨d, hd1, hd2, _⟩ := Slice.fromR_bytes data 10 (by omega)
    have hdwf : d.WF := (Slice.fromR_wf data hd 10 d hd1).1
    have hdb : d.bytes = fb ++ (zeros (L - (10 + fb.length)) ++ tail) := by
      rw [hd2, hb']; rfl
    have hz : mfZero = MatchField.zero := rfl
    simp only [Res.bind_ok, hd1, hz, hdec d _ hdwf hdb, Res.pure_eq]
    rfl

end OFV.RT2
