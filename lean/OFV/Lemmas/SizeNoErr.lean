/-
  OFV.Lemmas.SizeNoErr — "this encoder never returns a Go error": it succeeds, panics or does not terminate.
  True of Len() and MarshalBinary() of every match payload, MatchField, Match and every action kind (the only `error`
  an action encoder can return is one handed up from a nested action, and there is none to start with).
  Containers that overwrite or drop their children's errors (InstrActions, Bucket, FlowMod, …) therefore never meet one.
-/
import OFV.Model.All
import OFV.Lemmas.Size
import OFV.Lemmas.SizeTac
namespace OFV.Model
open OFV OFV.Go

/-- the call does not return a Go `error` (a structure, so that `intro` does not unfold it) -/
structure NoErr {α} (r : R α) : Prop where
  ne : r ≠ .err

theorem noErr_ok {α} (a : α) : NoErr (.ok a : R α) := ⟨by simp⟩
theorem noErr_panic {α} : NoErr (.panic : R α) := ⟨by simp⟩
theorem noErr_spin {α} : NoErr (.spin : R α) := ⟨by simp⟩
theorem noErr_same {α} (a : α) (v : V) : NoErr (same a v) := noErr_ok _
theorem noErr_pure {α} (a : α) : NoErr (pure a : R α) := noErr_ok _

theorem NoErr.bind {α β} {r : R α} {f : α → R β} (h1 : NoErr r) (h2 : ∀ x, NoErr (f x)) : NoErr (r >>= f) := by
  cases r with
  | ok x => exact h2 x
  | err => exact absurd rfl h1.ne
  | panic => exact noErr_panic
  | spin => exact noErr_spin

theorem fillFrom_noErr (ps : List Piece) : ∀ (buf : Bytes) (n : Nat), NoErr (fillFrom buf n ps) := by
  induction ps with
  | nil => intro buf n; exact noErr_ok _
  | cons p ps ih =>
    intro buf n
    cases p <;> simp only [fillFrom] <;> (try split) <;> first | exact ih _ _ | exact noErr_panic

theorem fill_noErr (L : Nat) (ps : List Piece) : NoErr (fill L ps) := fillFrom_noErr _ _ _

theorem mapM2_noErr {α} (f : V → R (α × V)) (hf : ∀ x, NoErr (f x)) : ∀ xs, NoErr (mapM2 f xs) := by
  intro xs
  induction xs with
  | nil => exact noErr_ok _
  | cons x xs ih =>
    simp only [mapM2]
    apply NoErr.bind (hf x)
    intro _
    apply NoErr.bind ih
    intro _
    exact noErr_ok _

/-- extensible list of facts `NoErr (K.f …)` used by `noerr`;
    add with ``macro_rules | `(tactic| noerr_lemma) => `(tactic| exact foo _)`` -/
syntax "noerr_lemma" : tactic
macro_rules | `(tactic| noerr_lemma) => `(tactic| exact noErr_ok _)
macro_rules | `(tactic| noerr_lemma) => `(tactic| exact noErr_panic)
macro_rules | `(tactic| noerr_lemma) => `(tactic| exact noErr_spin)
macro_rules | `(tactic| noerr_lemma) => `(tactic| exact noErr_same _ _)
macro_rules | `(tactic| noerr_lemma) => `(tactic| exact noErr_pure _)
macro_rules | `(tactic| noerr_lemma) => `(tactic| exact fill_noErr _ _)
macro_rules | `(tactic| noerr_lemma) => `(tactic| exact fillFrom_noErr _ _ _)

macro "noerr_step" : tactic => `(tactic| first
  | noerr_lemma
  | (apply NoErr.bind)
  | (intro _)
  | split
  | (dsimp only))

/-- decompose a `do` block / `match` / `if` into its calls and discharge each with a known `NoErr` fact -/
macro "noerr" : tactic => `(tactic| (repeat' noerr_step))

/-! ### match payloads, MatchField, Match -/

theorem MatchPayload.lenM_noErr (v : V) : NoErr (MatchPayload.lenM v) := by
  unfold MatchPayload.lenM
  split
  all_goals first
    | exact noErr_panic
    | (simp only [InPortField.lenM, EthDstField.lenM, EthSrcField.lenM, EthTypeField.lenM, VlanIdField.lenM, MplsLabelField.lenM, MplsBosField.lenM, Ipv4SrcField.lenM, Ipv4DstField.lenM, Ipv6SrcField.lenM, Ipv6DstField.lenM, IPv6FlowLabelField.lenM, IpProtoField.lenM, IpDscpField.lenM, TunnelIdField.lenM, MetadataField.lenM, PortField.lenM, TcpFlagsField.lenM, ArpOperField.lenM, TunnelIpv4SrcField.lenM, TunnelIpv4DstField.lenM, ArpXHaField.lenM, ArpXPaField.lenM, ActsetOutputField.lenM, IcmpTypeField.lenM, IcmpCodeField.lenM, Uint16Message.lenM, Uint32Message.lenM, ByteArrayField.lenM, CTLabel.lenM]; noerr)
macro_rules | `(tactic| noerr_lemma) => `(tactic| exact MatchPayload.lenM_noErr _)

theorem MatchPayload.marshalM_noErr (v : V) : NoErr (MatchPayload.marshalM v) := by
  unfold MatchPayload.marshalM
  split
  all_goals first
    | exact noErr_panic
    | (simp only [InPortField.marshalM, EthDstField.marshalM, EthSrcField.marshalM, EthTypeField.marshalM, VlanIdField.marshalM, MplsLabelField.marshalM, MplsBosField.marshalM, Ipv4SrcField.marshalM, Ipv4DstField.marshalM, Ipv6SrcField.marshalM, Ipv6DstField.marshalM, IPv6FlowLabelField.marshalM, IpProtoField.marshalM, IpDscpField.marshalM, TunnelIdField.marshalM, MetadataField.marshalM, PortField.marshalM, TcpFlagsField.marshalM, ArpOperField.marshalM, TunnelIpv4SrcField.marshalM, TunnelIpv4DstField.marshalM, ArpXHaField.marshalM, ArpXPaField.marshalM, ActsetOutputField.marshalM, IcmpTypeField.marshalM, IcmpCodeField.marshalM, Uint16Message.marshalM, Uint32Message.marshalM, ByteArrayField.marshalM, CTLabel.marshalM]; noerr)
macro_rules | `(tactic| noerr_lemma) => `(tactic| exact MatchPayload.marshalM_noErr _)

theorem MatchField.lenM_noErr (v : V) : NoErr (MatchField.lenM v) := by
  unfold MatchField.lenM; noerr
macro_rules | `(tactic| noerr_lemma) => `(tactic| exact MatchField.lenM_noErr _)

theorem MatchField.marshalM_noErr (v : V) : NoErr (MatchField.marshalM v) := by
  unfold MatchField.marshalM; noerr
macro_rules | `(tactic| noerr_lemma) => `(tactic| exact MatchField.marshalM_noErr _)

macro_rules | `(tactic| noerr_lemma) => `(tactic| exact mapM2_noErr _ MatchField.lenM_noErr _)
macro_rules | `(tactic| noerr_lemma) => `(tactic| exact mapM2_noErr _ MatchField.marshalM_noErr _)
theorem Match.lenM_noErr (v : V) : NoErr (Match.lenM v) := by
  unfold Match.lenM; noerr
macro_rules | `(tactic| noerr_lemma) => `(tactic| exact Match.lenM_noErr _)

theorem Match.marshalM_noErr (v : V) : NoErr (Match.marshalM v) := by
  unfold Match.marshalM; noerr
macro_rules | `(tactic| noerr_lemma) => `(tactic| exact Match.marshalM_noErr _)

/-! ### actions -/

theorem ActionHeader.bytes_noErr (h : V) : NoErr (ActionHeader.bytes h) := by
  unfold ActionHeader.bytes; noerr
macro_rules | `(tactic| noerr_lemma) => `(tactic| exact ActionHeader.bytes_noErr _)
theorem mfHeader_noErr (f : V) : NoErr (mfHeader f) := by
  unfold mfHeader; noerr
macro_rules | `(tactic| noerr_lemma) => `(tactic| exact mfHeader_noErr _)
theorem NXActionHeader.bytes_noErr (h : V) : NoErr (NXActionHeader.bytes h) := by
  unfold NXActionHeader.bytes; noerr
macro_rules | `(tactic| noerr_lemma) => `(tactic| exact NXActionHeader.bytes_noErr _)
theorem ActionHeader.length_noErr (h : V) : NoErr (ActionHeader.length h) := by
  unfold ActionHeader.length; noerr
macro_rules | `(tactic| noerr_lemma) => `(tactic| exact ActionHeader.length_noErr _)
theorem ActionHeader.setLength_noErr (l : UInt16) (h : V) : NoErr (ActionHeader.setLength l h) := by
  unfold ActionHeader.setLength; noerr
macro_rules | `(tactic| noerr_lemma) => `(tactic| exact ActionHeader.setLength_noErr _ _)
theorem NXActionHeader.length_noErr (h : V) : NoErr (NXActionHeader.length h) := by
  unfold NXActionHeader.length; noerr
macro_rules | `(tactic| noerr_lemma) => `(tactic| exact NXActionHeader.length_noErr _)
theorem NXActionHeader.setLength_noErr (l : UInt16) (h : V) : NoErr (NXActionHeader.setLength l h) := by
  unfold NXActionHeader.setLength; noerr
macro_rules | `(tactic| noerr_lemma) => `(tactic| exact NXActionHeader.setLength_noErr _ _)

theorem ActionHeader.lenM_noErr (v : V) : NoErr (ActionHeader.lenM v) := by
  unfold ActionHeader.lenM; noerr
macro_rules | `(tactic| noerr_lemma) => `(tactic| exact ActionHeader.lenM_noErr _)
theorem ActionOutput.lenM_noErr (v : V) : NoErr (ActionOutput.lenM v) := by
  unfold ActionOutput.lenM; noerr
macro_rules | `(tactic| noerr_lemma) => `(tactic| exact ActionOutput.lenM_noErr _)
theorem ActionSetqueue.lenM_noErr (v : V) : NoErr (ActionSetqueue.lenM v) := by
  unfold ActionSetqueue.lenM; noerr
macro_rules | `(tactic| noerr_lemma) => `(tactic| exact ActionSetqueue.lenM_noErr _)
theorem ActionGroup.lenM_noErr (v : V) : NoErr (ActionGroup.lenM v) := by
  unfold ActionGroup.lenM; noerr
macro_rules | `(tactic| noerr_lemma) => `(tactic| exact ActionGroup.lenM_noErr _)
theorem ActionMplsTtl.lenM_noErr (v : V) : NoErr (ActionMplsTtl.lenM v) := by
  unfold ActionMplsTtl.lenM; noerr
macro_rules | `(tactic| noerr_lemma) => `(tactic| exact ActionMplsTtl.lenM_noErr _)
theorem ActionNwTtl.lenM_noErr (v : V) : NoErr (ActionNwTtl.lenM v) := by
  unfold ActionNwTtl.lenM; noerr
macro_rules | `(tactic| noerr_lemma) => `(tactic| exact ActionNwTtl.lenM_noErr _)
theorem ActionDecNwTtl.lenM_noErr (v : V) : NoErr (ActionDecNwTtl.lenM v) := by
  unfold ActionDecNwTtl.lenM; noerr
macro_rules | `(tactic| noerr_lemma) => `(tactic| exact ActionDecNwTtl.lenM_noErr _)
theorem ActionPush.lenM_noErr (v : V) : NoErr (ActionPush.lenM v) := by
  unfold ActionPush.lenM; noerr
macro_rules | `(tactic| noerr_lemma) => `(tactic| exact ActionPush.lenM_noErr _)
theorem ActionPopVlan.lenM_noErr (v : V) : NoErr (ActionPopVlan.lenM v) := by
  unfold ActionPopVlan.lenM; noerr
macro_rules | `(tactic| noerr_lemma) => `(tactic| exact ActionPopVlan.lenM_noErr _)
theorem ActionPopMpls.lenM_noErr (v : V) : NoErr (ActionPopMpls.lenM v) := by
  unfold ActionPopMpls.lenM; noerr
macro_rules | `(tactic| noerr_lemma) => `(tactic| exact ActionPopMpls.lenM_noErr _)
theorem ActionSetField.lenM_noErr (v : V) : NoErr (ActionSetField.lenM v) := by
  unfold ActionSetField.lenM; noerr
macro_rules | `(tactic| noerr_lemma) => `(tactic| exact ActionSetField.lenM_noErr _)
theorem NXActionHeader.lenM_noErr (v : V) : NoErr (NXActionHeader.lenM v) := by
  unfold NXActionHeader.lenM; noerr
macro_rules | `(tactic| noerr_lemma) => `(tactic| exact NXActionHeader.lenM_noErr _)
theorem NXActionConjunction.lenM_noErr (v : V) : NoErr (NXActionConjunction.lenM v) := by
  unfold NXActionConjunction.lenM; noerr
macro_rules | `(tactic| noerr_lemma) => `(tactic| exact NXActionConjunction.lenM_noErr _)
theorem NXActionRegLoad.lenM_noErr (v : V) : NoErr (NXActionRegLoad.lenM v) := by
  unfold NXActionRegLoad.lenM; noerr
macro_rules | `(tactic| noerr_lemma) => `(tactic| exact NXActionRegLoad.lenM_noErr _)
theorem NXActionRegMove.lenM_noErr (v : V) : NoErr (NXActionRegMove.lenM v) := by
  unfold NXActionRegMove.lenM; noerr
macro_rules | `(tactic| noerr_lemma) => `(tactic| exact NXActionRegMove.lenM_noErr _)
theorem NXActionResubmit.lenM_noErr (v : V) : NoErr (NXActionResubmit.lenM v) := by
  unfold NXActionResubmit.lenM; noerr
macro_rules | `(tactic| noerr_lemma) => `(tactic| exact NXActionResubmit.lenM_noErr _)
theorem NXActionResubmitTable.lenM_noErr (v : V) : NoErr (NXActionResubmitTable.lenM v) := by
  unfold NXActionResubmitTable.lenM; noerr
macro_rules | `(tactic| noerr_lemma) => `(tactic| exact NXActionResubmitTable.lenM_noErr _)
theorem NXActionCTNAT.lenM_noErr (v : V) : NoErr (NXActionCTNAT.lenM v) := by
  unfold NXActionCTNAT.lenM; noerr
macro_rules | `(tactic| noerr_lemma) => `(tactic| exact NXActionCTNAT.lenM_noErr _)
theorem NXActionOutputReg.lenM_noErr (v : V) : NoErr (NXActionOutputReg.lenM v) := by
  unfold NXActionOutputReg.lenM; noerr
macro_rules | `(tactic| noerr_lemma) => `(tactic| exact NXActionOutputReg.lenM_noErr _)
theorem NXActionCTClear.lenM_noErr (v : V) : NoErr (NXActionCTClear.lenM v) := by
  unfold NXActionCTClear.lenM; noerr
macro_rules | `(tactic| noerr_lemma) => `(tactic| exact NXActionCTClear.lenM_noErr _)
theorem NXActionDecTTL.lenM_noErr (v : V) : NoErr (NXActionDecTTL.lenM v) := by
  unfold NXActionDecTTL.lenM; noerr
macro_rules | `(tactic| noerr_lemma) => `(tactic| exact NXActionDecTTL.lenM_noErr _)
theorem NXActionDecTTLCntIDs.lenM_noErr (v : V) : NoErr (NXActionDecTTLCntIDs.lenM v) := by
  unfold NXActionDecTTLCntIDs.lenM; noerr
macro_rules | `(tactic| noerr_lemma) => `(tactic| exact NXActionDecTTLCntIDs.lenM_noErr _)
theorem NXActionNote.lenM_noErr (v : V) : NoErr (NXActionNote.lenM v) := by
  unfold NXActionNote.lenM; noerr
macro_rules | `(tactic| noerr_lemma) => `(tactic| exact NXActionNote.lenM_noErr _)
theorem NXActionRegLoad2.lenM_noErr (v : V) : NoErr (NXActionRegLoad2.lenM v) := by
  unfold NXActionRegLoad2.lenM; noerr
macro_rules | `(tactic| noerr_lemma) => `(tactic| exact NXActionRegLoad2.lenM_noErr _)
theorem NXActionController.lenM_noErr (v : V) : NoErr (NXActionController.lenM v) := by
  unfold NXActionController.lenM; noerr
macro_rules | `(tactic| noerr_lemma) => `(tactic| exact NXActionController.lenM_noErr _)
theorem ActionHeader.marshalM_noErr (v : V) : NoErr (ActionHeader.marshalM v) := by
  unfold ActionHeader.marshalM; noerr
theorem ActionOutput.marshalM_noErr (v : V) : NoErr (ActionOutput.marshalM v) := by
  unfold ActionOutput.marshalM; noerr
theorem ActionSetqueue.marshalM_noErr (v : V) : NoErr (ActionSetqueue.marshalM v) := by
  unfold ActionSetqueue.marshalM; noerr
theorem ActionGroup.marshalM_noErr (v : V) : NoErr (ActionGroup.marshalM v) := by
  unfold ActionGroup.marshalM; noerr
theorem ActionMplsTtl.marshalM_noErr (v : V) : NoErr (ActionMplsTtl.marshalM v) := by
  unfold ActionMplsTtl.marshalM; noerr
theorem ActionNwTtl.marshalM_noErr (v : V) : NoErr (ActionNwTtl.marshalM v) := by
  unfold ActionNwTtl.marshalM; noerr
theorem ActionDecNwTtl.marshalM_noErr (v : V) : NoErr (ActionDecNwTtl.marshalM v) := by
  unfold ActionDecNwTtl.marshalM; noerr
theorem ActionPush.marshalM_noErr (v : V) : NoErr (ActionPush.marshalM v) := by
  unfold ActionPush.marshalM; noerr
theorem ActionPopVlan.marshalM_noErr (v : V) : NoErr (ActionPopVlan.marshalM v) := by
  unfold ActionPopVlan.marshalM; noerr
theorem ActionPopMpls.marshalM_noErr (v : V) : NoErr (ActionPopMpls.marshalM v) := by
  unfold ActionPopMpls.marshalM; noerr
theorem ActionSetField.marshalM_noErr (v : V) : NoErr (ActionSetField.marshalM v) := by
  unfold ActionSetField.marshalM; noerr
theorem NXActionHeader.marshalM_noErr (v : V) : NoErr (NXActionHeader.marshalM v) := by
  unfold NXActionHeader.marshalM; noerr
theorem NXActionConjunction.marshalM_noErr (v : V) : NoErr (NXActionConjunction.marshalM v) := by
  unfold NXActionConjunction.marshalM; noerr
theorem NXActionRegLoad.marshalM_noErr (v : V) : NoErr (NXActionRegLoad.marshalM v) := by
  unfold NXActionRegLoad.marshalM; noerr
theorem NXActionRegMove.marshalM_noErr (v : V) : NoErr (NXActionRegMove.marshalM v) := by
  unfold NXActionRegMove.marshalM; noerr
theorem NXActionResubmit.marshalM_noErr (v : V) : NoErr (NXActionResubmit.marshalM v) := by
  unfold NXActionResubmit.marshalM; noerr
theorem NXActionResubmitTable.marshalM_noErr (v : V) : NoErr (NXActionResubmitTable.marshalM v) := by
  unfold NXActionResubmitTable.marshalM; noerr
theorem NXActionCTNAT.marshalM_noErr (v : V) : NoErr (NXActionCTNAT.marshalM v) := by
  unfold NXActionCTNAT.marshalM; noerr
theorem NXActionOutputReg.marshalM_noErr (v : V) : NoErr (NXActionOutputReg.marshalM v) := by
  unfold NXActionOutputReg.marshalM; noerr
theorem NXActionCTClear.marshalM_noErr (v : V) : NoErr (NXActionCTClear.marshalM v) := by
  unfold NXActionCTClear.marshalM; noerr
theorem NXActionDecTTL.marshalM_noErr (v : V) : NoErr (NXActionDecTTL.marshalM v) := by
  unfold NXActionDecTTL.marshalM; noerr
theorem NXActionDecTTLCntIDs.marshalM_noErr (v : V) : NoErr (NXActionDecTTLCntIDs.marshalM v) := by
  unfold NXActionDecTTLCntIDs.marshalM; noerr
theorem NXActionNote.marshalM_noErr (v : V) : NoErr (NXActionNote.marshalM v) := by
  unfold NXActionNote.marshalM; noerr
theorem NXActionRegLoad2.marshalM_noErr (v : V) : NoErr (NXActionRegLoad2.marshalM v) := by
  unfold NXActionRegLoad2.marshalM; noerr
theorem NXActionController.marshalM_noErr (v : V) : NoErr (NXActionController.marshalM v) := by
  unfold NXActionController.marshalM; noerr

theorem NXLearnSpecHeader.bytes_noErr (v : V) : NoErr (NXLearnSpecHeader.bytes v) := by
  unfold NXLearnSpecHeader.bytes; noerr
macro_rules | `(tactic| noerr_lemma) => `(tactic| exact NXLearnSpecHeader.bytes_noErr _)
theorem NXLearnSpecField.marshalM_noErr (v : V) : NoErr (NXLearnSpecField.marshalM v) := by
  unfold NXLearnSpecField.marshalM; noerr
macro_rules | `(tactic| noerr_lemma) => `(tactic| exact NXLearnSpecField.marshalM_noErr _)
theorem NXLearnSpec.len_noErr (v : V) : NoErr (NXLearnSpec.len v) := by
  unfold NXLearnSpec.len; noerr
macro_rules | `(tactic| noerr_lemma) => `(tactic| exact NXLearnSpec.len_noErr _)
theorem NXLearnSpec.marshalM_noErr (v : V) : NoErr (NXLearnSpec.marshalM v) := by
  unfold NXLearnSpec.marshalM; noerr
theorem NXActionLearn.specsLen_noErr (xs : List V) : NoErr (NXActionLearn.specsLen xs) := by
  induction xs with
  | nil => exact noErr_ok _
  | cons x xs ih =>
    simp only [NXActionLearn.specsLen]
    apply NoErr.bind (NXLearnSpec.len_noErr _); intro _
    apply NoErr.bind ih; intro _
    exact noErr_ok _
macro_rules | `(tactic| noerr_lemma) => `(tactic| exact NXActionLearn.specsLen_noErr _)
theorem NXActionLearn.len_noErr (v : V) : NoErr (NXActionLearn.len v) := by
  unfold NXActionLearn.len; noerr
macro_rules | `(tactic| noerr_lemma) => `(tactic| exact NXActionLearn.len_noErr _)
theorem NXActionLearn.lenM_noErr (v : V) : NoErr (NXActionLearn.lenM v) := by
  unfold NXActionLearn.lenM; noerr
theorem NXActionLearn.marshalM_noErr (v : V) : NoErr (NXActionLearn.marshalM v) := by
  unfold NXActionLearn.marshalM
  apply NoErr.bind (NXActionLearn.len_noErr _); intro _
  split
  · apply NoErr.bind (NXActionHeader.setLength_noErr _ _); intro _
    apply NoErr.bind (NXActionHeader.bytes_noErr _); intro _
    apply NoErr.bind (mapM2_noErr _ NXLearnSpec.marshalM_noErr _)
    noerr
  · exact noErr_panic

theorem NXActionConnTrack.lenWith_noErr (sub : V → R (UInt16 × V)) (hs : ∀ x, NoErr (sub x)) (v : V) :
    NoErr (NXActionConnTrack.lenWith sub v) := by
  unfold NXActionConnTrack.lenWith
  split
  · apply NoErr.bind (NXActionHeader.lenM_noErr _); intro _
    apply NoErr.bind (mapM2_noErr _ hs _); intro _
    apply NoErr.bind (NXActionHeader.setLength_noErr _ _); intro _
    exact noErr_ok _
  · exact noErr_panic

theorem NXActionConnTrack.marshalActs_noErr (sub : V → R (Bytes × V)) (hs : ∀ x, NoErr (sub x)) :
    ∀ acts buf n, NoErr (NXActionConnTrack.marshalActs sub acts buf n) := by
  intro acts
  induction acts with
  | nil => intro buf n; exact noErr_ok _
  | cons a as ih =>
    intro buf n
    simp only [NXActionConnTrack.marshalActs]
    apply NoErr.bind (hs a); intro _
    apply NoErr.bind (fillFrom_noErr _ _ _); intro _
    apply NoErr.bind (ih _ _); intro _
    exact noErr_ok _

theorem NXActionConnTrack.marshalWith_noErr (subLen : V → R (UInt16 × V)) (sub : V → R (Bytes × V))
    (hl : ∀ x, NoErr (subLen x)) (hs : ∀ x, NoErr (sub x)) (v : V) :
    NoErr (NXActionConnTrack.marshalWith subLen sub v) := by
  unfold NXActionConnTrack.marshalWith
  apply NoErr.bind (NXActionConnTrack.lenWith_noErr subLen hl v); intro ⟨l, v'⟩
  simp only
  split
  · apply NoErr.bind (NXActionHeader.bytes_noErr _); intro _
    apply NoErr.bind (fill_noErr _ _); intro _
    apply NoErr.bind (NXActionConnTrack.marshalActs_noErr sub hs _ _ _); intro _
    exact noErr_ok _
  · exact noErr_panic

theorem Action.lenLeaf_noErr (v : V) : NoErr (Action.lenLeaf v) := by
  unfold Action.lenLeaf
  split
  · exact ActionHeader.lenM_noErr _
  · exact ActionOutput.lenM_noErr _
  · exact ActionSetqueue.lenM_noErr _
  · exact ActionGroup.lenM_noErr _
  · exact ActionMplsTtl.lenM_noErr _
  · exact ActionNwTtl.lenM_noErr _
  · exact ActionDecNwTtl.lenM_noErr _
  · exact ActionPush.lenM_noErr _
  · exact ActionPopVlan.lenM_noErr _
  · exact ActionPopMpls.lenM_noErr _
  · exact ActionSetField.lenM_noErr _
  · exact NXActionHeader.lenM_noErr _
  · exact NXActionConjunction.lenM_noErr _
  · exact NXActionRegLoad.lenM_noErr _
  · exact NXActionRegMove.lenM_noErr _
  · exact NXActionResubmit.lenM_noErr _
  · exact NXActionResubmitTable.lenM_noErr _
  · exact NXActionCTNAT.lenM_noErr _
  · exact NXActionOutputReg.lenM_noErr _
  · exact NXActionCTClear.lenM_noErr _
  · exact NXActionDecTTL.lenM_noErr _
  · exact NXActionDecTTLCntIDs.lenM_noErr _
  · exact NXActionLearn.lenM_noErr _
  · exact NXActionNote.lenM_noErr _
  · exact NXActionRegLoad2.lenM_noErr _
  · exact NXActionController.lenM_noErr _
  · exact noErr_panic

theorem Action.lenD_noErr : ∀ (d : Nat) (v : V), NoErr (Action.lenD d v) := by
  intro d
  induction d with
  | zero => intro v; exact noErr_panic
  | succ d ih =>
    intro v
    unfold Action.lenD
    split
    · exact NXActionConnTrack.lenWith_noErr _ ih v
    · exact Action.lenLeaf_noErr v

/-- Action.Len() never returns an error (it has no error result in Go) -/
theorem Action.lenM_noErr (v : V) : NoErr (Action.lenM v) := Action.lenD_noErr _ v

theorem Action.marshalLeaf_noErr (v : V) : NoErr (Action.marshalLeaf v) := by
  unfold Action.marshalLeaf
  split
  · exact ActionHeader.marshalM_noErr _
  · exact ActionOutput.marshalM_noErr _
  · exact ActionSetqueue.marshalM_noErr _
  · exact ActionGroup.marshalM_noErr _
  · exact ActionMplsTtl.marshalM_noErr _
  · exact ActionNwTtl.marshalM_noErr _
  · exact ActionDecNwTtl.marshalM_noErr _
  · exact ActionPush.marshalM_noErr _
  · exact ActionPopVlan.marshalM_noErr _
  · exact ActionPopMpls.marshalM_noErr _
  · exact ActionSetField.marshalM_noErr _
  · exact NXActionHeader.marshalM_noErr _
  · exact NXActionConjunction.marshalM_noErr _
  · exact NXActionRegLoad.marshalM_noErr _
  · exact NXActionRegMove.marshalM_noErr _
  · exact NXActionResubmit.marshalM_noErr _
  · exact NXActionResubmitTable.marshalM_noErr _
  · exact NXActionCTNAT.marshalM_noErr _
  · exact NXActionOutputReg.marshalM_noErr _
  · exact NXActionCTClear.marshalM_noErr _
  · exact NXActionDecTTL.marshalM_noErr _
  · exact NXActionDecTTLCntIDs.marshalM_noErr _
  · exact NXActionLearn.marshalM_noErr _
  · exact NXActionNote.marshalM_noErr _
  · exact NXActionRegLoad2.marshalM_noErr _
  · exact NXActionController.marshalM_noErr _
  · exact noErr_panic

theorem Action.marshalD_noErr : ∀ (d : Nat) (v : V), NoErr (Action.marshalD d v) := by
  intro d
  induction d with
  | zero => intro v; exact noErr_panic
  | succ d ih =>
    intro v
    unfold Action.marshalD
    split
    · exact NXActionConnTrack.marshalWith_noErr _ _ (Action.lenD_noErr d) ih v
    · exact Action.marshalLeaf_noErr v

/-- no action encoder ever returns an error: Action.MarshalBinary() succeeds, panics, or (never) spins -/
theorem Action.marshalM_noErr (v : V) : NoErr (Action.marshalM v) := Action.marshalD_noErr _ v

macro_rules | `(tactic| noerr_lemma) => `(tactic| exact Action.lenM_noErr _)
macro_rules | `(tactic| noerr_lemma) => `(tactic| exact Action.marshalM_noErr _)

end OFV.Model
