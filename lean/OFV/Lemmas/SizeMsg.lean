/-
  OFV.Lemmas.SizeMsg — helpers for the message kinds of Msg.lean: `msgTryM` on children that never return an error,
  the "all but the last / the last" loops of FlowStats and MultipartReply, purity of a few Len() functions.
-/
import OFV.Model.All
import OFV.Lemmas.Size
import OFV.Lemmas.SizeTac
import OFV.Lemmas.SizeNoErr
import OFV.Lemmas.SizeList
import OFV.Lemmas.SizeIdem
import OFV.Lemmas.SizeInstr
namespace OFV.Model
open OFV OFV.Go

/-- `b, err = x.MarshalBinary()` with the error overwritten afterwards is plain MarshalBinary when there is no error -/
theorem msgTryM_noErr (f : V → R (Bytes × V)) (x : V) (hn : NoErr (f x)) : msgTryM f x = f x := by
  unfold msgTryM
  split
  · rename_i h; exact absurd h hn.ne
  · rfl

theorem msgTryM_eq (f : V → R (Bytes × V)) (hn : ∀ x, NoErr (f x)) : msgTryM f = f :=
  funext fun x => msgTryM_noErr f x (hn x)

theorem PhyPort.lenM_pure (v : V) : LenPure PhyPort.lenM v := by
  intro l v1 h
  unfold PhyPort.lenM at h
  obtain ⟨_, _, h'⟩ := bind_ok_inv _ _ _ h
  exact (same_ok _ _ _ _ h').2

theorem UBuffer.lenM_pure (v : V) : LenPure UBuffer.lenM v := by
  intro l v1 h
  unfold UBuffer.lenM at h
  obtain ⟨_, _, h'⟩ := bind_ok_inv _ _ _ h
  exact (same_ok _ _ _ _ h').2

theorem ErrorMsg.lenM_pure (v : V) : LenPure ErrorMsg.lenM v := by
  intro l v1 h
  unfold ErrorMsg.lenM at h
  split at h
  · obtain ⟨⟨lb, d'⟩, hd, h2⟩ := bind_ok_inv _ _ _ h
    have e := UBuffer.lenM_pure _ _ _ hd
    subst e
    cases h2; rfl
  · exact absurd h (by simp)

theorem VendorError.lenM_pure (v : V) : LenPure VendorError.lenM v := by
  intro l v1 h
  unfold VendorError.lenM at h
  split at h
  · exact absurd h (by simp)
  · obtain ⟨⟨le, e'⟩, he, h2⟩ := bind_ok_inv _ _ _ h
    have e := ErrorMsg.lenM_pure _ _ _ he
    subst e
    cases h2; rfl
  · exact absurd h (by simp)

theorem FlowRemoved.lenM_pure (v : V) : LenPure FlowRemoved.lenM v := by
  intro l v1 h
  unfold FlowRemoved.lenM at h
  split at h
  · obtain ⟨⟨lm, m'⟩, hm, h2⟩ := bind_ok_inv _ _ _ h
    have e := Match.lenM_pure _ _ _ hm
    subst e
    cases h2; rfl
  · exact absurd h (by simp)

/-- Len() first (result stored in the header), Len() again for the buffer: with a pure Len() both calls agree -/
theorem len_twice {lenM : V → R (UInt16 × V)} {v : V} (hp : ∀ w, LenPure lenM w) {l0 l1 : UInt16} {v0 v1 : V}
    (h0 : lenM v = .ok (l0, v0)) (h1 : lenM v0 = .ok (l1, v1)) : v0 = v ∧ l1 = l0 ∧ v1 = v := by
  have e0 := hp v l0 v0 h0
  subst e0
  rw [h0] at h1
  cases h1
  exact ⟨rfl, rfl, rfl⟩

/-- Len() loop and encoder loop over the SAME children -/
theorem mapM2_flatten_same (g : V → R (UInt16 × V)) (f : V → R (Bytes × V)) :
    ∀ (xs : List V) (ls : List UInt16) (ys : List V) (bss : List Bytes) (zs : List V),
    mapM2 g xs = .ok (ls, ys) → mapM2 f xs = .ok (bss, zs) → (∀ x ∈ xs, SizeMod g f x) →
    (sum16 ls).toNat = bss.flatten.length % 65536 := by
  intro xs
  induction xs with
  | nil =>
    intro ls ys bss zs h1 h2 _
    simp [mapM2] at h1; obtain ⟨rfl, rfl⟩ := h1
    simp [mapM2] at h2; obtain ⟨rfl, rfl⟩ := h2
    rfl
  | cons x xs ih =>
    intro ls ys bss zs h1 h2 hp
    obtain ⟨l, y, ls', ys', e1, e2, rfl, rfl⟩ := mapM2_cons_ok _ _ _ _ _ h1
    obtain ⟨b, z, bss', zs', e3, e4, rfl, rfl⟩ := mapM2_cons_ok _ _ _ _ _ h2
    have hx := hp x (by simp) l y b z e1 e3
    have ih' := ih ls' ys' bss' zs' e2 e4 (fun w hw => hp w (by simp [hw]))
    rw [sum16_cons, UInt16.toNat_add, List.flatten_cons, List.length_append, hx, ih']
    have : (2:Nat) ^ 16 = 65536 := rfl
    rw [this]; omega

/-- the shape `match xs.reverse with | last :: revInit` -/
theorem reverse_eq_cons {α} (xs : List α) (last : α) (revInit : List α) (h : xs.reverse = last :: revInit) :
    xs = revInit.reverse ++ [last] := by
  have := congrArg List.reverse h
  simpa using this

theorem mapM2_snoc_of_ok {α} (f : V → R (α × V)) (xs : List V) (x : V) (as : List α) (ys : List V) (a : α) (y : V)
    (h1 : mapM2 f xs = .ok (as, ys)) (h2 : f x = .ok (a, y)) : mapM2 f (xs ++ [x]) = .ok (as ++ [a], ys ++ [y]) :=
  mapM2_append_of_ok f xs [x] as ys [a] [y] h1 (mapM2_cons_of_ok f x [] a y [] [] h2 rfl)

end OFV.Model
