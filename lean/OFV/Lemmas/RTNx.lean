/-
  OFV.Lemmas.RTNx — Nicira (experimenter) actions through DecodeAction / DecodeNxAction: the common header, and the
  fixed-size kinds conjunction, resubmit-table / ct-resubmit, dec-ttl, resubmit.  Used by OFV/Props/C05.lean.
-/
import OFV.Model.All
import OFV.Lemmas.Size
import OFV.Lemmas.RTBasic
import OFV.Lemmas.RTAction
namespace OFV.RT
set_option linter.unusedSimpArgs false
open OFV OFV.Go OFV.Model

/-- NXActionHeader of a Nicira action: type 0xffff, the given Length, vendor 0x2320, subtype -/
def nxHdr (ln sub : Nat) : V :=
  .obj "NXActionHeader" [ActionHeader.mk Gen.openflow13.ActionType_Experimenter ln, .num Gen.openflow13.NxExperimenterID, .num sub]
def nxHdrBytes (ln sub : Nat) : Bytes :=
  be16 (n16 Gen.openflow13.ActionType_Experimenter) ++ be16 (n16 ln) ++ be32 (n32 Gen.openflow13.NxExperimenterID) ++ be16 (n16 sub)

theorem nxHdr_bytes (ln sub : Nat) : NXActionHeader.bytes (nxHdr ln sub) = .ok (nxHdrBytes ln sub) := by
  simp only [nxHdr, NXActionHeader.bytes, ActionHeader.mk, ActionHeader.bytes, Res.bind_ok]
  have hp : Gen.openflow13.NxActionHeaderLength = piecesLen [pCopy (be16 (n16 Gen.openflow13.ActionType_Experimenter) ++ be16 (n16 ln)),
      pU32 Gen.openflow13.NxExperimenterID, pU16 sub] := rfl
  rw [hp, fill_exact' _ (by intro p hp; simp at hp; rcases hp with rfl | rfl | rfl <;> trivial)]
  rfl

theorem nxHdr_length (ln sub : Nat) : NXActionHeader.length (nxHdr ln sub) = .ok (n16 ln) := rfl

theorem nxHeader_unmarshal (recv : V) (data : Slice) (hd : data.WF) (ln sub : Nat) (hln : ln < 65536) (hsub : sub < 65536)
    (rest : Bytes) (hb : data.bytes = nxHdrBytes ln sub ++ rest) :
    NXActionHeader.unmarshal recv data = .ok (nxHdr ln sub) := by
  have hlen := Slice.len_ge_of_bytes data _ _ hb
  have hlen10 : 10 ≤ data.len := by
    have : (nxHdrBytes ln sub).length = 10 := rfl
    omega
  unfold NXActionHeader.unmarshal
  have h10 : Gen.openflow13.NxActionHeaderLength = 10 := rfl
  rw [h10, if_neg (by omega)]
  obtain ⟨d4, h41, h42⟩ := actionHeader_upto4 ActionHeader.zero data hd Gen.openflow13.ActionType_Experimenter ln
    (by decide) hln (be32 (n32 Gen.openflow13.NxExperimenterID) ++ (be16 (n16 sub) ++ rest))
    (by rw [hb]; simp only [nxHdrBytes, List.append_assoc])
  have e4 : rd32 (data.bytes.drop 4) = some (n32 Gen.openflow13.NxExperimenterID) := by
    rw [hb]
    have : List.drop 4 (nxHdrBytes ln sub ++ rest) = be32 (n32 Gen.openflow13.NxExperimenterID) ++ (be16 (n16 sub) ++ rest) := rfl
    rw [this]; exact rd32_be32 _ _
  have e8 : rd16 (data.bytes.drop 8) = some (n16 sub) := by
    rw [hb]
    have : List.drop 8 (nxHdrBytes ln sub ++ rest) = be16 (n16 sub) ++ rest := rfl
    rw [this]; exact rd16_be16 _ _
  simp only [h41, Res.bind_ok, h42, Slice.u32From_eq, Slice.u16From_eq, e4, e8, Res.ofOption, Res.pure_eq,
    u32_n32 Gen.openflow13.NxExperimenterID (by decide), u16_n16 sub hsub]
  rfl

theorem nxPrefix_ok (data : Slice) (hd : data.WF) (ln sub : Nat) (hln : ln < 65536) (hsub : sub < 65536)
    (rest : Bytes) (hb : data.bytes = nxHdrBytes ln sub ++ rest) (hfit : ln ≤ data.len) :
    nxPrefix data = .ok (nxHdr ln sub) := by
  unfold nxPrefix NXActionHeader.fresh
  rw [nxHeader_unmarshal _ data hd ln sub hln hsub rest hb]
  simp only [tryE, Res.bind_ok, nxHdr_length, n16_toNat ln hln]
  rw [if_neg (by omega)]
  rfl

/-- the `switch` of DecodeAction / DecodeNxAction for a Nicira subtype other than conntrack -/
theorem decodeAction_nx (data : Slice) (hd : data.WF) (ln sub : Nat) (hsub : sub < 65536) (rest : Bytes)
    (hb : data.bytes = nxHdrBytes ln sub ++ rest) (z : V) (hlook : nxSubtypeTable.lookup sub = some z)
    (hk : z.kind ≠ "NXActionConnTrack") (k : Nat) :
    DecodeAction (k + 1) data = Action.unmarshalLeaf z data := by
  have hlen := Slice.len_ge_of_bytes data _ _ hb
  have hlen10 : 10 ≤ data.len := by
    have : (nxHdrBytes ln sub).length = 10 := rfl
    omega
  have e0 : rd16 ((data.bytes.drop 0).take (2 - 0)) = some (n16 Gen.openflow13.ActionType_Experimenter) := by
    rw [hb]; rfl
  have e4 : rd32 ((data.bytes.drop 4).take (8 - 4)) = some (n32 Gen.openflow13.NxExperimenterID) := by
    rw [hb]; rfl
  have e8 : rd16 (data.bytes.drop 8) = some (n16 sub) := by
    rw [hb]
    have : List.drop 8 (nxHdrBytes ln sub ++ rest) = be16 (n16 sub) ++ rest := rfl
    rw [this]; exact rd16_be16 _ _
  have hnone : actionTypeTable.lookup Gen.openflow13.ActionType_Experimenter = none := by decide
  have ht : (n16 Gen.openflow13.ActionType_Experimenter).toNat = Gen.openflow13.ActionType_Experimenter := by decide
  have hv : (n32 Gen.openflow13.NxExperimenterID).toNat = Gen.openflow13.NxExperimenterID := by decide
  have h10 : Gen.openflow13.NxActionHeaderLength = 10 := rfl
  unfold DecodeAction newActionFor
  simp only [Slice.u16In_eq data hd 0 2 (by omega) (by omega), Slice.u32In_eq data hd 4 8 (by omega) (by omega), e0, e4,
    Res.ofOption, Res.bind_ok, hnone, ht, hv, if_true, h10]
  rw [if_neg (by omega)]
  simp only [DecodeNxAction, Slice.u16From_eq, e8, Res.ofOption, Res.bind_ok, n16_toNat sub hsub, hlook, Option.getD_some,
    Res.pure_eq, if_true]
  rw [if_neg hk]


theorem h16 : (n16 16).toNat = 16 := by decide

/-- NXActionConjunction (Length 16) -/
theorem nxConjunction_rt (c nc id : Nat) (hc : c < 256) (hnc : nc < 256) (hid : id < 4294967296) :
    let v := V.obj "NXActionConjunction" [nxHdr 16 Gen.openflow13.NXAST_CONJUNCTION, .num c, .num nc, .num id]
    let bs := nxHdrBytes 16 Gen.openflow13.NXAST_CONJUNCTION ++ [n8 c, n8 nc] ++ be32 (n32 id)
    Action.marshalM v = .ok (bs, v) ∧ Action.lenM v = .ok (16, v) ∧
    ∀ (data : Slice) (tail : Bytes) (k : Nat), data.WF → data.bytes = bs ++ tail → DecodeAction (k + 1) data = .ok v := by
  intro v bs
  refine ⟨?_, rfl, ?_⟩
  · rw [action_marshal_leaf v (by simp [v, V.kind])]
    simp only [v, Action.marshalLeaf, V.kind, NXActionConjunction.marshalM, nxHdr_length, nxHdr_bytes, Res.bind_ok, h16]
    have hp : piecesLen [pCopy (nxHdrBytes 16 Gen.openflow13.NXAST_CONJUNCTION), pU8 c, pU8 nc, pU32 id] = 16 := rfl
    rw [fill_exact 16 _ (by intro p hp; simp at hp; rcases hp with rfl | rfl | rfl | rfl <;> trivial) (by rw [hp]; omega), hp]
    rfl
  · intro data tail k hd hb
    have hlen := Slice.len_ge_of_bytes data _ _ hb
    have hlen16 : 16 ≤ data.len := by
      have : bs.length = 16 := rfl
      omega
    have hb' : data.bytes = nxHdrBytes 16 Gen.openflow13.NXAST_CONJUNCTION ++ ([n8 c, n8 nc] ++ (be32 (n32 id) ++ tail)) := by
      rw [hb]; simp only [bs, List.append_assoc]
    rw [decodeAction_nx data hd 16 Gen.openflow13.NXAST_CONJUNCTION (by decide) _ hb' NXActionConjunction.zero rfl (by decide)]
    simp only [Action.unmarshalLeaf, NXActionConjunction.zero, V.kind, NXActionConjunction.unmarshal]
    rw [nxPrefix_ok data hd 16 Gen.openflow13.NXAST_CONJUNCTION (by decide) (by decide) _ hb' (by omega)]
    have e10 : data.bytes[10]? = some (n8 c) := by rw [hb']; rfl
    have e11 : data.bytes[11]? = some (n8 nc) := by rw [hb']; rfl
    have e12 : rd32 (data.bytes.drop 12) = some (n32 id) := by
      rw [hb']
      have : List.drop 12 (nxHdrBytes 16 Gen.openflow13.NXAST_CONJUNCTION ++ ([n8 c, n8 nc] ++ (be32 (n32 id) ++ tail)))
        = be32 (n32 id) ++ tail := rfl
      rw [this]; exact rd32_be32 _ _
    simp only [Res.bind_ok, Slice.byteAt_eq, Slice.u32From_eq, e10, e11, e12, Res.ofOption, Res.pure_eq, u8_n8 c hc,
      u8_n8 nc hnc, u32_n32 id hid]
    rfl

/-- NXActionResubmitTable (Length 16): resubmit-table (subtype 14, withCT false) and ct-resubmit (subtype 44, withCT true);
    pad is the [3]byte array of zeros -/
theorem nxResubmitTable_rt (sub ct ip t : Nat)
    (hsub : (sub = Gen.openflow13.NXAST_RESUBMIT_TABLE ∧ ct = 0) ∨ (sub = Gen.openflow13.NXAST_CT_RESUBMIT ∧ ct = 1))
    (hip : ip < 65536) (ht : t < 256) :
    let v := V.obj "NXActionResubmitTable" [nxHdr 16 sub, .num ip, .num t, .bytes (zeros 3), .num ct]
    let bs := nxHdrBytes 16 sub ++ be16 (n16 ip) ++ [n8 t] ++ zeros 3
    Action.marshalM v = .ok (bs, v) ∧ Action.lenM v = .ok (16, v) ∧
    ∀ (data : Slice) (tail : Bytes) (k : Nat), data.WF → data.bytes = bs ++ tail → DecodeAction (k + 1) data = .ok v := by
  intro v bs
  have hsub16 : sub < 65536 := by rcases hsub with ⟨h, _⟩ | ⟨h, _⟩ <;> (rw [h]; decide)
  refine ⟨?_, rfl, ?_⟩
  · rw [action_marshal_leaf v (by simp [v, V.kind])]
    simp only [v, Action.marshalLeaf, V.kind, NXActionResubmitTable.marshalM, nxHdr_length, nxHdr_bytes, Res.bind_ok, h16]
    have hp : piecesLen [pCopy (nxHdrBytes 16 sub), pU16 ip, pU8 t] = 13 := rfl
    rw [fill_exact 16 _ (by intro p hp; simp at hp; rcases hp with rfl | rfl | rfl <;> trivial) (by rw [hp]; omega), hp]
    rfl
  · intro data tail k hd hb
    have hlen := Slice.len_ge_of_bytes data _ _ hb
    have hlen16 : 16 ≤ data.len := by
      have : bs.length = 16 := rfl
      omega
    have hb' : data.bytes = nxHdrBytes 16 sub ++ (be16 (n16 ip) ++ ([n8 t] ++ (zeros 3 ++ tail))) := by
      rw [hb]; simp only [bs, List.append_assoc]
    have e10 : rd16 (data.bytes.drop 10) = some (n16 ip) := by
      rw [hb']
      have : List.drop 10 (nxHdrBytes 16 sub ++ (be16 (n16 ip) ++ ([n8 t] ++ (zeros 3 ++ tail))))
        = be16 (n16 ip) ++ ([n8 t] ++ (zeros 3 ++ tail)) := rfl
      rw [this]; exact rd16_be16 _ _
    have e12 : data.bytes[12]? = some (n8 t) := by rw [hb']; rfl
    rcases hsub with ⟨h1, h2⟩ | ⟨h1, h2⟩
    · subst h1; subst h2
      rw [decodeAction_nx data hd 16 Gen.openflow13.NXAST_RESUBMIT_TABLE (by decide) _ hb' NXActionResubmitTable.zero rfl (by decide)]
      simp only [Action.unmarshalLeaf, NXActionResubmitTable.zero, V.kind, NXActionResubmitTable.unmarshal]
      rw [nxPrefix_ok data hd 16 Gen.openflow13.NXAST_RESUBMIT_TABLE (by decide) (by decide) _ hb' (by omega)]
      simp only [Res.bind_ok, Slice.byteAt_eq, Slice.u16From_eq, e10, e12, Res.ofOption, Res.pure_eq, u16_n16 ip hip, u8_n8 t ht]
      rfl
    · subst h1; subst h2
      rw [decodeAction_nx data hd 16 Gen.openflow13.NXAST_CT_RESUBMIT (by decide) _ hb' NXActionResubmitTable.zeroCT rfl (by decide)]
      simp only [Action.unmarshalLeaf, NXActionResubmitTable.zeroCT, V.kind, NXActionResubmitTable.unmarshal]
      rw [nxPrefix_ok data hd 16 Gen.openflow13.NXAST_CT_RESUBMIT (by decide) (by decide) _ hb' (by omega)]
      simp only [Res.bind_ok, Slice.byteAt_eq, Slice.u16From_eq, e10, e12, Res.ofOption, Res.pure_eq, u16_n16 ip hip, u8_n8 t ht]
      rfl

/-- NXActionDecTTL (Length 16) -/
theorem nxDecTTL_rt (c : Nat) (hc : c < 65536) :
    let v := V.obj "NXActionDecTTL" [nxHdr 16 Gen.openflow13.NXAST_DEC_TTL, .num c, .bytes (zeros 4)]
    let bs := nxHdrBytes 16 Gen.openflow13.NXAST_DEC_TTL ++ be16 (n16 c) ++ zeros 4
    Action.marshalM v = .ok (bs, v) ∧ Action.lenM v = .ok (16, v) ∧
    ∀ (data : Slice) (tail : Bytes) (k : Nat), data.WF → data.bytes = bs ++ tail → DecodeAction (k + 1) data = .ok v := by
  intro v bs
  refine ⟨?_, rfl, ?_⟩
  · rw [action_marshal_leaf v (by simp [v, V.kind])]
    simp only [v, Action.marshalLeaf, V.kind, NXActionDecTTL.marshalM, nxHdr_length, nxHdr_bytes, Res.bind_ok, h16]
    have hp : piecesLen [pCopy (nxHdrBytes 16 Gen.openflow13.NXAST_DEC_TTL), pU16 c, pCopy (zeros 4)] = 16 := rfl
    rw [fill_exact 16 _ (by intro p hp; simp at hp; rcases hp with rfl | rfl | rfl <;> trivial) (by rw [hp]; omega), hp]
    rfl
  · intro data tail k hd hb
    have hlen := Slice.len_ge_of_bytes data _ _ hb
    have hlen16 : 16 ≤ data.len := by
      have : bs.length = 16 := rfl
      omega
    have hb' : data.bytes = nxHdrBytes 16 Gen.openflow13.NXAST_DEC_TTL ++ (be16 (n16 c) ++ (zeros 4 ++ tail)) := by
      rw [hb]; simp only [bs, List.append_assoc]
    rw [decodeAction_nx data hd 16 Gen.openflow13.NXAST_DEC_TTL (by decide) _ hb' NXActionDecTTL.zero rfl (by decide)]
    simp only [Action.unmarshalLeaf, NXActionDecTTL.zero, V.kind, NXActionDecTTL.unmarshal]
    rw [nxPrefix_ok data hd 16 Gen.openflow13.NXAST_DEC_TTL (by decide) (by decide) _ hb' (by omega)]
    have e10 : rd16 (data.bytes.drop 10) = some (n16 c) := by
      rw [hb']
      have : List.drop 10 (nxHdrBytes 16 Gen.openflow13.NXAST_DEC_TTL ++ (be16 (n16 c) ++ (zeros 4 ++ tail)))
        = be16 (n16 c) ++ (zeros 4 ++ tail) := rfl
      rw [this]; exact rd16_be16 _ _
    simp only [Res.bind_ok, Slice.u16From_eq, e10, Res.ofOption, Res.pure_eq, u16_n16 c hc]
    rfl

/-- NXActionResubmit (Length 16).  TableID is OFPTT_ALL (255) in every value the constructor builds; MarshalBinary (re)stores
    255 in the receiver, UnmarshalBinary sets 255: whatever TableID `t` the value held, the encoder leaves `v 255` behind
    and the decoder returns `v 255` -/
theorem nxResubmit_rt (ip t : Nat) (hip : ip < 65536) :
    let v := V.obj "NXActionResubmit" [nxHdr 16 Gen.openflow13.NXAST_RESUBMIT, .num ip, .num t, .bytes (zeros 3)]
    let v1 := V.obj "NXActionResubmit" [nxHdr 16 Gen.openflow13.NXAST_RESUBMIT, .num ip, .num Gen.openflow13.OFPTT_ALL, .bytes (zeros 3)]
    let bs := nxHdrBytes 16 Gen.openflow13.NXAST_RESUBMIT ++ be16 (n16 ip) ++ zeros 4
    Action.marshalM v = .ok (bs, v1) ∧ Action.lenM v1 = .ok (16, v1) ∧
    ∀ (data : Slice) (tail : Bytes) (k : Nat), data.WF → data.bytes = bs ++ tail → DecodeAction (k + 1) data = .ok v1 := by
  intro v v1 bs
  refine ⟨?_, rfl, ?_⟩
  · rw [action_marshal_leaf v (by simp [v, V.kind])]
    simp only [v, Action.marshalLeaf, V.kind, NXActionResubmit.marshalM, nxHdr_length, nxHdr_bytes, Res.bind_ok, h16]
    have hp : piecesLen [pCopy (nxHdrBytes 16 Gen.openflow13.NXAST_RESUBMIT), pU16 ip] = 12 := rfl
    rw [fill_exact 16 _ (by intro p hp; simp at hp; rcases hp with rfl | rfl <;> trivial) (by rw [hp]; omega), hp]
    rfl
  · intro data tail k hd hb
    have hlen := Slice.len_ge_of_bytes data _ _ hb
    have hlen16 : 16 ≤ data.len := by
      have : bs.length = 16 := rfl
      omega
    have hb' : data.bytes = nxHdrBytes 16 Gen.openflow13.NXAST_RESUBMIT ++ (be16 (n16 ip) ++ (zeros 4 ++ tail)) := by
      rw [hb]; simp only [bs, List.append_assoc]
    rw [decodeAction_nx data hd 16 Gen.openflow13.NXAST_RESUBMIT (by decide) _ hb' NXActionResubmit.zero rfl (by decide)]
    simp only [Action.unmarshalLeaf, NXActionResubmit.zero, V.kind, NXActionResubmit.unmarshal]
    rw [nxPrefix_ok data hd 16 Gen.openflow13.NXAST_RESUBMIT (by decide) (by decide) _ hb' (by omega)]
    have e10 : rd16 (data.bytes.drop 10) = some (n16 ip) := by
      rw [hb']
      have : List.drop 10 (nxHdrBytes 16 Gen.openflow13.NXAST_RESUBMIT ++ (be16 (n16 ip) ++ (zeros 4 ++ tail)))
        = be16 (n16 ip) ++ (zeros 4 ++ tail) := rfl
      rw [this]; exact rd16_be16 _ _
    simp only [Res.bind_ok, Slice.u16From_eq, e10, Res.ofOption, Res.pure_eq, u16_n16 ip hip]
    rfl

end OFV.RT
