/-
  OFV.Lemmas.PoolInv — the content invariant of PoolSys (what every buffer holds, wherever it is) and its preservation
  by every transition of the library (`reset = true`).  Helper lemmas for Props/C10b.
-/
import OFV.Model.Stream.PoolSys
import OFV.Model.Stream.Deframer
namespace OFV.Pool
open OFV OFV.Model.PoolSys
open OFV.Model.Deframer (WFFrame declLen)

/-! ## schedules are runs -/

theorem fire_reach (r : Bool) (cap n : Nat) (s0 s : St) (m : Move) (h : Reach r cap n s0 s) :
    Reach r cap n s0 (fire r cap n s m) := by
  cases m with
  | rd =>
    simp only [fire]
    split
    · next b p hr =>
      split
      · next c rest hc =>
        by_cases hd : (onByte s.regs p c).2.2 = true
        · simp only [hd, if_true]
          exact Reach.step _ _ h (Step.rdLast s b p c rest hr hc hd)
        · have hd' : (onByte s.regs p c).2.2 = false := by simpa using hd
          simp only [hd', Bool.false_eq_true, if_false]
          exact Reach.step _ _ h (Step.rdByte s b p c rest hr hc hd')
      · next hc =>
        split
        · next c cs hn => exact Reach.step _ _ h (Step.read s b p c cs hr hc hn)
        · exact h
    · next b p hr =>
      split
      · next hl => exact Reach.step _ _ h (Step.sendFull s b p hr hl)
      · exact h
    · next hr =>
      split
      · next b p e he => exact Reach.step _ _ h (Step.takeBuf s b p e hr he)
      · exact h
    · exact h
  | fail =>
    simp only [fire]
    split
    · next b p hr =>
      split
      · next hc => exact Reach.step _ _ h (Step.readError s b p hr hc.1 hc.2)
      · exact h
    · exact h
  | par i =>
    simp only [fire]
    split
    · next hp =>
      obtain ⟨hi, hp'⟩ := List.getElem?_eq_some_iff.mp hp
      split
      · next b c r hf => exact Reach.step _ _ h (Step.parTake s i b c r hi hp' hf)
      · split
        · next k hk => exact Reach.step _ _ h (Step.parShutdown s i k hi hp' hk)
        · exact h
    · next b c hp =>
      obtain ⟨hi, hp'⟩ := List.getElem?_eq_some_iff.mp hp
      split
      · next hn => exact Reach.step _ _ h (Step.parSend s i b c hi hp' hn)
      · exact h
    · next b c hp =>
      obtain ⟨hi, hp'⟩ := List.getElem?_eq_some_iff.mp hp
      exact Reach.step _ _ h (Step.parRelease s i b c hi hp')
    · exact h
  | consume =>
    simp only [fire]
    split
    · next f hf => exact Reach.step _ _ h (Step.consume s f hf)
    · exact h

/-- every schedule is a run: the state it leads to is reachable -/
theorem run_reach (r : Bool) (cap n : Nat) (s0 : St) (ms : List Move) : Reach r cap n s0 (run r cap n s0 ms) := by
  suffices ∀ s, Reach r cap n s0 s → Reach r cap n s0 (run r cap n s ms) from this s0 Reach.refl
  induction ms with
  | nil => intro s h; exact h
  | cons m ms ih => intro s h; exact ih _ (fire_reach r cap n s0 s m h)

theorem reach_trans (r : Bool) (cap n : Nat) (s0 s s' : St) (h : Reach r cap n s0 s) (h' : Reach r cap n s s') :
    Reach r cap n s0 s' := by
  induction h' with
  | refl => exact h
  | step a b _ hs ih => exact Reach.step _ _ ih hs

/-! ## the reader's local variables agree with the content of its buffer -/

/-- `hdr`, `hdrBuf`, `msg` are what they must be when the buffer holds the prefix `p` of a frame -/
structure RegsOK (r : Regs) (p : Bytes) : Prop where
  hdr : r.hdr = min p.length 4
  h2 : 3 ≤ p.length → r.h2 = p[2]?.getD 0
  h3 : 4 ≤ p.length → r.h3 = p[3]?.getD 0
  msg : 4 ≤ p.length → r.msg = (declLen p : Int) - p.length

theorem get_snoc_lt (p : Bytes) (c : UInt8) (i : Nat) (h : i < p.length) :
    (p ++ [c])[i]?.getD 0 = p[i]?.getD 0 := by rw [List.getElem?_append_left h]

theorem get_snoc_eq (p : Bytes) (c : UInt8) (i : Nat) (h : i = p.length) : (p ++ [c])[i]?.getD 0 = c := by
  subst h; simp

theorem declLen_prefix (p q : Bytes) (h : 4 ≤ p.length) : declLen (p ++ q) = declLen p := by
  unfold declLen
  rw [List.getElem?_append_left (by omega), List.getElem?_append_left (by omega)]

theorem wf_ne_nil (f : Bytes) (hf : WFFrame f) : f ≠ [] := by
  intro h0; have := hf.1; rw [h0] at this; simp at this

/-- a byte that does not complete the frame `f = p ++ c :: q` is appended, nothing is handed over -/
theorem onByte_mid (r : Regs) (f p q : Bytes) (c : UInt8) (hf : WFFrame f) (hpq : f = p ++ c :: q)
    (h : RegsOK r p) (hq : q ≠ []) :
    (onByte r p c).2.1 = p ++ [c] ∧ (onByte r p c).2.2 = false ∧ RegsOK (onByte r p c).1 (p ++ [c]) := by
  have hlen : f.length = p.length + 1 + q.length := by rw [hpq]; simp; omega
  have hqpos : 0 < q.length := List.length_pos_iff.mpr hq
  have hdl : declLen f = f.length := hf.2
  unfold onByte
  by_cases h4 : p.length < 4
  · have hs : r.hdr = p.length := by rw [h.hdr]; omega
    have hh : r.hdr < 4 := by omega
    simp only [hh, if_true]
    refine ⟨by first | trivial | rfl, by first | trivial | rfl, ?_⟩
    constructor
    · simp [hs]; omega
    · intro h3; simp at h3
      by_cases e : p.length = 2
      · simp only [hs, e, if_true]; exact (get_snoc_eq p c 2 e.symm).symm
      · simp only [hs, e, if_false]; rw [get_snoc_lt p c 2 (by omega)]; exact h.h2 (by omega)
    · intro h3; simp at h3
      have e : p.length = 3 := by omega
      simp only [hs, e, if_true]; exact (get_snoc_eq p c 3 e.symm).symm
    · intro h3; simp at h3
      have e : p.length = 3 := by omega
      have e2 := h.h2 (by omega)
      simp [hs, e, e2, declLen]
  · have hh : ¬ r.hdr < 4 := by rw [h.hdr]; omega
    have hm := h.msg (by omega)
    have hd : declLen p = f.length := by rw [← hdl, hpq, declLen_prefix p _ (by omega)]
    have hpos : r.msg > 0 := by rw [hm, hd]; omega
    have hne : ¬ (r.msg - 1 = 0) := by rw [hm, hd]; omega
    simp only [hh, if_false, hpos, if_true, hne]
    refine ⟨by first | trivial | rfl, by first | trivial | rfl, ?_⟩
    constructor
    · simp [h.hdr]; omega
    · intro _; show r.h2 = _; rw [get_snoc_lt p c 2 (by omega)]; exact h.h2 (by omega)
    · intro _; show r.h3 = _; rw [get_snoc_lt p c 3 (by omega)]; exact h.h3 (by omega)
    · intro _; show r.msg - 1 = _; rw [declLen_prefix p _ (by omega), hm]; simp; omega

/-- the byte that completes the frame `f = p ++ [c]`: the buffer now holds `f`, it is handed over, `hdr = 0` -/
theorem onByte_last (r : Regs) (f p : Bytes) (c : UInt8) (hf : WFFrame f) (hpq : f = p ++ [c]) (h : RegsOK r p) :
    (onByte r p c).2.1 = f ∧ (onByte r p c).2.2 = true ∧ RegsOK (onByte r p c).1 [] := by
  have hlen : f.length = p.length + 1 := by rw [hpq]; simp
  have h8 := hf.1
  have hdl : declLen f = f.length := hf.2
  have hh : ¬ r.hdr < 4 := by rw [h.hdr]; omega
  have hm := h.msg (by omega)
  have hd : declLen p = f.length := by rw [← hdl, hpq, declLen_prefix p _ (by omega)]
  have hpos : r.msg > 0 := by rw [hm, hd]; omega
  have he : r.msg - 1 = 0 := by rw [hm, hd]; omega
  unfold onByte
  simp only [hh, if_false, hpos, if_true, he]
  exact ⟨by first | exact hpq.symm | simp [hpq], by first | trivial | rfl, ⟨rfl, by simp, by simp, by simp⟩⟩

/-! ## the invariant -/

def RSt.isStopped : RSt → Bool | .stopped _ _ => true | _ => false

/-- what holds in every reachable state of the library, for a connection that sends the frames `script`:
    * `emptyClean`  every buffer in pool.Empty has length 0;
    * `regs`, `stream`  the frames handed over so far are the first frames of the script, and the reader's buffer holds
      exactly the bytes received since — a proper prefix of the next frame;
    * `have_`, `full`, `pars`  a buffer on its way to a parser, or with a parser, holds one frame that was handed over;
    * `failed`, `errors`  the error was published iff the reader stopped. -/
structure Inv (script : List Frame) (tail : Bytes) (s : St) : Prop where
  emptyClean : ∀ x ∈ s.empty, x.2 = []
  regs : RegsOK s.regs s.rdr.pending
  stream : ∃ todo, script = s.handed ++ todo ∧ s.rdr.pending ++ s.unread ++ tail = todo.flatten ∧
    ∀ f t, todo = f :: t → ∃ q, f = s.rdr.pending ++ q ∧ q ≠ []
  have_ : ∀ b p, s.rdr = .have_ b p → ∃ h, s.handed = h ++ [p]
  full : ∀ x ∈ s.full, x.2 ∈ s.handed
  pars : ∀ x ∈ s.pars, ∀ y ∈ x.bufs, y.2 ∈ s.handed
  failed : s.failed = RSt.isStopped s.rdr
  errors : s.errors = if RSt.isStopped s.rdr then 1 else 0

theorem init_inv (nBuf nPar : Nat) (script : List Frame) (chunks : List Bytes) (tail : Bytes)
    (hwf : ∀ f ∈ script, WFFrame f) (hch : chunks.flatten ++ tail = script.flatten) : Inv script tail (initSt nBuf nPar chunks) := by
  have hp : (initSt nBuf nPar chunks).rdr.pending = [] := by
    unfold initSt; by_cases h : nBuf = 0 <;> simp [h, RSt.pending]
  have hs : RSt.isStopped (initSt nBuf nPar chunks).rdr = false := by
    unfold initSt; by_cases h : nBuf = 0 <;> simp [h, RSt.isStopped]
  constructor
  · intro x hx; simp [initSt] at hx; obtain ⟨_, _, e⟩ := hx; rw [← e]
  · rw [hp]; exact ⟨rfl, by simp, by simp, by simp⟩
  · rw [hp]
    refine ⟨script, by simp [initSt], by simp [initSt, St.unread, hch], ?_⟩
    intro f t e
    exact ⟨f, rfl, wf_ne_nil f (hwf f (by simp [e]))⟩
  · intro b p e; unfold initSt at e; by_cases h : nBuf = 0 <;> simp [h] at e
  · intro x hx; simp [initSt] at hx
  · intro x hx y hy; simp [initSt] at hx; rw [hx.2] at hy; simp [PSt.bufs] at hy
  · rw [hs]; rfl
  · rw [hs]; rfl

/-- what the next byte does, when the reader is appending to a buffer that holds `p` and the chunk starts with `c`:
    `c` is the next byte of the frame `f` in progress; it completes the frame or not -/
theorem next_byte (script : List Frame) (tail : Bytes) (hwf : ∀ f ∈ script, WFFrame f) (s : St) (inv : Inv script tail s)
    (b : BufId) (p : Bytes) (c : UInt8) (rest : Bytes) (hr : s.rdr = .cur b p) (hc : s.chunk = c :: rest) :
    ∃ f t q, script = s.handed ++ f :: t ∧ f = p ++ c :: q ∧ rest ++ s.conn.flatten ++ tail = q ++ t.flatten ∧ WFFrame f ∧
      (q ≠ [] → (onByte s.regs p c).2.1 = p ++ [c] ∧ (onByte s.regs p c).2.2 = false ∧
                 RegsOK (onByte s.regs p c).1 (p ++ [c])) ∧
      (q = [] → (onByte s.regs p c).2.1 = f ∧ (onByte s.regs p c).2.2 = true ∧ RegsOK (onByte s.regs p c).1 []) := by
  obtain ⟨todo, h1, h2, h3⟩ := inv.stream
  have hregs := inv.regs
  have hpend : s.rdr.pending = p := by rw [hr]; rfl
  rw [hpend] at h2 h3 hregs
  simp only [St.unread, hc] at h2
  cases todo with
  | nil => simp at h2
  | cons f t =>
    obtain ⟨q0, hf, hq0⟩ := h3 f t rfl
    have hwff : WFFrame f := hwf f (by rw [h1]; simp)
    rw [List.flatten_cons, hf] at h2
    simp only [List.append_assoc] at h2
    have h2' := List.append_cancel_left h2
    cases q0 with
    | nil => exact absurd rfl hq0
    | cons c' q =>
      simp only [List.cons_append, List.cons.injEq] at h2'
      obtain ⟨ec, h2''⟩ := h2'
      subst ec
      refine ⟨f, t, q, h1, hf, by rw [List.append_assoc]; exact h2'', hwff, ?_, ?_⟩
      · intro hq; exact onByte_mid s.regs f p q c hwff hf hregs hq
      · intro hq; subst hq; exact onByte_last s.regs f p c hwff hf hregs

theorem app4 (a b c d : Bytes) : a ++ (b ++ c) ++ d = a ++ (b ++ c ++ d) := by simp

theorem mem_handed_mono {x : Frame} {h : List Frame} (y : Frame) (hx : x ∈ h) : x ∈ h ++ [y] := by simp [hx]

/-- the invariant is preserved by every transition of the library -/
theorem step_inv (script : List Frame) (tail : Bytes) (hwf : ∀ f ∈ script, WFFrame f) (cap n : Nat) (s s' : St)
    (h : Step true cap n s s') (inv : Inv script tail s) : Inv script tail s' := by
  cases h with
  | read b p c cs hr hc hn =>
    obtain ⟨todo, h1, h2, h3⟩ := inv.stream
    exact { inv with
      stream := ⟨todo, h1, by simpa [St.unread, hc, hn] using h2, h3⟩ }
  | rdByte b p c rest hr hc hd =>
    obtain ⟨f, t, q, h1, hf, h2, hwff, hmid, hlast⟩ := next_byte script tail hwf s inv b p c rest hr hc
    have hq : q ≠ [] := by
      intro e; have := (hlast e).2.1; rw [hd] at this; exact absurd this (by simp)
    obtain ⟨e1, _, e3⟩ := hmid hq
    exact { inv with
      regs := by show RegsOK _ (onByte s.regs p c).2.1; rw [e1]; exact e3
      stream := by
        refine ⟨f :: t, h1, ?_, ?_⟩
        · show (onByte s.regs p c).2.1 ++ (rest ++ s.conn.flatten) ++ tail = _
          rw [e1, app4, h2, hf]; simp
        · intro f' t' e
          show ∃ q', f' = (onByte s.regs p c).2.1 ++ q' ∧ q' ≠ []
          simp only [List.cons.injEq] at e
          rw [e1, ← e.1, hf]
          exact ⟨q, by simp, hq⟩
      have_ := by intro b' p' e; exact absurd e (by simp)
      failed := by have := inv.failed; rw [hr] at this; exact this
      errors := by have := inv.errors; rw [hr] at this; exact this }
  | rdLast b p c rest hr hc hd =>
    obtain ⟨f, t, q, h1, hf, h2, hwff, hmid, hlast⟩ := next_byte script tail hwf s inv b p c rest hr hc
    have hq : q = [] := by
      apply Classical.byContradiction
      intro e; have := (hmid e).2.1; rw [hd] at this; exact absurd this (by simp)
    obtain ⟨e1, _, e3⟩ := hlast hq
    subst hq
    exact { inv with
      regs := e3
      stream := by
        refine ⟨t, ?_, ?_, ?_⟩
        · show script = (s.handed ++ [(onByte s.regs p c).2.1]) ++ t
          rw [e1, h1]; simp
        · show [] ++ (rest ++ s.conn.flatten) ++ tail = _
          rw [app4, h2]; simp
        · intro f' t' e
          refine ⟨f', rfl, wf_ne_nil f' (hwf f' ?_)⟩
          rw [h1, e]; simp
      have_ := by
        intro b' p' e
        simp only [RSt.have_.injEq] at e
        exact ⟨s.handed, by rw [← e.2]⟩
      full := fun x hx => mem_handed_mono _ (inv.full x hx)
      pars := fun x hx y hy => mem_handed_mono _ (inv.pars x hx y hy)
      failed := by have := inv.failed; rw [hr] at this; exact this
      errors := by have := inv.errors; rw [hr] at this; exact this }
  | sendFull b p hr hl =>
    obtain ⟨todo, h1, h2, h3⟩ := inv.stream
    have hregs := inv.regs
    rw [hr] at h2 h3 hregs
    exact { inv with
      regs := hregs
      stream := ⟨todo, h1, h2, h3⟩
      have_ := by intro b' p' e; exact absurd e (by simp)
      full := by
        intro x hx
        rcases List.mem_append.mp hx with hx | hx
        · exact inv.full x hx
        · simp only [List.mem_singleton] at hx
          obtain ⟨hh, e⟩ := inv.have_ b p hr
          rw [hx, e]; simp
      failed := by have := inv.failed; rw [hr] at this; exact this
      errors := by have := inv.errors; rw [hr] at this; exact this }
  | takeBuf b p e hr he =>
    obtain ⟨todo, h1, h2, h3⟩ := inv.stream
    have hregs := inv.regs
    have hp : p = [] := inv.emptyClean (b, p) (by rw [he]; simp)
    subst hp
    rw [hr] at h2 h3 hregs
    exact { inv with
      emptyClean := fun x hx => inv.emptyClean x (by rw [he]; simp [hx])
      regs := hregs
      stream := ⟨todo, h1, h2, h3⟩
      have_ := by intro b' p' e; exact absurd e (by simp)
      failed := by have := inv.failed; rw [hr] at this; exact this
      errors := by have := inv.errors; rw [hr] at this; exact this }
  | readError b p hr hc he =>
    obtain ⟨todo, h1, h2, h3⟩ := inv.stream
    have hregs := inv.regs
    rw [hr] at h2 h3 hregs
    exact { inv with
      regs := hregs
      stream := ⟨todo, h1, h2, h3⟩
      have_ := by intro b' p' e; exact absurd e (by simp)
      failed := rfl
      errors := rfl }
  | parTake i b c r hi hp hf =>
    exact { inv with
      full := fun x hx => inv.full x (by rw [hf]; simp [hx])
      pars := by
        intro x hx y hy
        rcases List.mem_or_eq_of_mem_set hx with hx | hx
        · exact inv.pars x hx y hy
        · rw [hx] at hy; simp only [PSt.bufs, List.mem_singleton] at hy
          rw [hy]; exact inv.full (b, c) (by rw [hf]; simp) }
  | parSend i b c hi hp hn =>
    exact { inv with
      pars := by
        intro x hx y hy
        rcases List.mem_or_eq_of_mem_set hx with hx | hx
        · exact inv.pars x hx y hy
        · rw [hx] at hy; simp only [PSt.bufs, List.mem_singleton] at hy
          rw [hy]
          exact inv.pars _ (hp ▸ List.getElem_mem hi) (b, c) (by simp [PSt.bufs]) }
  | parRelease i b c hi hp =>
    exact { inv with
      emptyClean := by
        intro x hx
        rcases List.mem_append.mp hx with hx | hx
        · exact inv.emptyClean x hx
        · simp only [List.mem_singleton] at hx; rw [hx]; rfl
      pars := by
        intro x hx y hy
        rcases List.mem_or_eq_of_mem_set hx with hx | hx
        · exact inv.pars x hx y hy
        · rw [hx] at hy; simp [PSt.bufs] at hy }
  | parShutdown i k hi hp hk =>
    exact { inv with
      pars := by
        intro x hx y hy
        rcases List.mem_or_eq_of_mem_set hx with hx | hx
        · exact inv.pars x hx y hy
        · rw [hx] at hy; simp [PSt.bufs] at hy }
  | consume f hn => exact { inv with }

theorem reach_inv (script : List Frame) (tail : Bytes) (hwf : ∀ f ∈ script, WFFrame f) (cap n : Nat) (s0 s : St)
    (h : Reach true cap n s0 s) (inv : Inv script tail s0) : Inv script tail s := by
  induction h with
  | refl => exact inv
  | step a b _ hs ih => exact step_inv script tail hwf cap n a b hs ih

end OFV.Pool
