/-
  OFV.Lemmas.SizeProtoFill — what a SUCCESSFUL `fill L ps` returns, without any "the pieces fit" hypothesis:
  the first `L` bytes of the pieces' concatenation, zero-padded to `L` (`fill_take`).
  The packet-header encoders of `protocol/*.go` allocate `make([]byte, Len())` and then `copy` the parts in; a
  `copy` past the end is silently cut.  `fill_take` is therefore the strongest statement that holds for every
  value, and "the container's header-length field is consistent with its children" is exactly what turns the
  `take` into the full concatenation.  (Used by Props/C06c.)
-/
import OFV.Go.Fill
import OFV.Lemmas.Fill
import OFV.Lemmas.LayFill
namespace OFV.SizeP
open OFV OFV.Go

/-- the buffer after the bytes `P` have been written from the start into `make([]byte, L)` (cut at `L`) -/
def cutPad (P : Bytes) (L : Nat) : Bytes := P.take L ++ zeros (L - P.length)

theorem cutPad_length (P : Bytes) (L : Nat) : (cutPad P L).length = L := by
  simp [cutPad]; omega

theorem cutPad_nil (L : Nat) : cutPad [] L = zeros L := by simp [cutPad]

theorem cutPad_of_le (P : Bytes) (L : Nat) (h : P.length ≤ L) : cutPad P L = P ++ zeros (L - P.length) := by
  simp [cutPad, List.take_of_length_le h]

theorem cutPad_exact (P : Bytes) : cutPad P P.length = P := by
  simp [cutPad, zeros]

/-- zero bytes "written" behind `P` do not change the buffer (it was zero there) -/
theorem cutPad_zeros (P : Bytes) (k L : Nat) : cutPad (P ++ zeros k) L = cutPad P L := by
  unfold cutPad
  rw [List.take_append]
  simp only [zeros, List.take_replicate, List.length_append, List.length_replicate, List.append_assoc,
    List.replicate_append_replicate]
  congr 2
  omega

/-- `copy(data[n:], bs)` on a buffer that holds `P` (n = len P) and zeros: the general case, `bs` cut at the end -/
theorem overwrite_zeros' (pre bs : Bytes) (k : Nat) :
    overwrite (pre ++ zeros k) pre.length bs = pre ++ bs.take k ++ zeros (k - bs.length) := by
  unfold overwrite
  have h1 : (pre ++ zeros k).take pre.length = pre := by simp
  have h2 : (pre ++ zeros k).length - pre.length = k := by simp
  have h4 : (pre ++ zeros k).drop (pre.length + bs.length) = zeros (k - bs.length) := by
    rw [List.drop_append]
    simp [zeros, List.drop_replicate]
  rw [h1, h2, h4]

theorem overwrite_nf (P bs : Bytes) (L : Nat) (h : P.length ≤ L) :
    overwrite (cutPad P L) P.length bs = cutPad (P ++ bs) L := by
  rw [cutPad_of_le P L h, overwrite_zeros']
  unfold cutPad
  rw [List.take_append, List.take_of_length_le h]
  simp only [List.length_append, List.append_assoc]
  congr 2
  congr 1
  omega

/-- the loop invariant of `fill`: after writing `P` the buffer is `cutPad P L`; every tight piece extends `P` -/
theorem fillFrom_nf (ps : List Piece) : ∀ (P : Bytes) (L : Nat) (out : Bytes), (∀ p ∈ ps, p.Tight) →
    fillFrom (cutPad P L) P.length ps = .ok out → out = cutPad (P ++ piecesBytes ps) L := by
  induction ps with
  | nil => intro P L out _ h; simp only [fillFrom] at h; cases h; simp [piecesBytes]
  | cons p ps ih =>
    intro P L out ht h
    have htp := ht p (by simp)
    have hts : ∀ q ∈ ps, q.Tight := fun q hq => ht q (by simp [hq])
    have hpb : piecesBytes (p :: ps) = p.bytes ++ piecesBytes ps := by simp [piecesBytes]
    rw [hpb]
    cases p with
    | put bs =>
      simp only [fillFrom, cutPad_length] at h
      split at h
      · rw [overwrite_nf P bs L (by omega)] at h
        have := ih (P ++ bs) L out hts (by simpa [List.length_append] using h)
        simpa [Piece.bytes, List.append_assoc] using this
      · exact absurd h (by simp)
    | copy bs =>
      simp only [fillFrom, cutPad_length] at h
      split at h
      · rw [overwrite_nf P bs L (by omega)] at h
        have := ih (P ++ bs) L out hts (by simpa [List.length_append] using h)
        simpa [Piece.bytes, List.append_assoc] using this
      · exact absurd h (by simp)
    | copyAdv bs a =>
      simp only [Piece.Tight] at htp
      simp only [fillFrom, cutPad_length] at h
      split at h
      · rw [overwrite_nf P bs L (by omega), ← cutPad_zeros (P ++ bs) (a - bs.length) L] at h
        have hl : P.length + a = (P ++ bs ++ zeros (a - bs.length)).length := by
          simp only [List.length_append, zeros_length]; omega
        rw [hl] at h
        have := ih _ L out hts h
        simpa [Piece.bytes, List.append_assoc, List.take_of_length_le htp] using this
      · exact absurd h (by simp)
    | skip k =>
      simp only [fillFrom] at h
      rw [← cutPad_zeros P k L] at h
      have hl : P.length + k = (P ++ zeros k).length := by simp
      rw [hl] at h
      have := ih _ L out hts h
      simpa [Piece.bytes, List.append_assoc] using this

/-- THE lemma: a successful `fill L ps` (every `copy … ; n += k` piece copying at most `k` bytes) returns the first
    `L` bytes of the pieces' concatenation, zero-padded to `L`.  No hypothesis that anything fits. -/
theorem fill_take (L : Nat) (ps : List Piece) (out : Bytes) (ht : ∀ p ∈ ps, p.Tight) (h : fill L ps = .ok out) :
    out = (piecesBytes ps).take L ++ zeros (L - (piecesBytes ps).length) := by
  unfold fill at h
  rw [← cutPad_nil] at h
  have := fillFrom_nf ps [] L out ht h
  simpa [cutPad] using this

theorem fill_cutPad (L : Nat) (ps : List Piece) (out : Bytes) (ht : ∀ p ∈ ps, p.Tight) (h : fill L ps = .ok out) :
    out = cutPad (piecesBytes ps) L := fill_take L ps out ht h

theorem cutPad_eq_of_length (P : Bytes) (L : Nat) (h : P.length = L) : cutPad P L = P := by
  subst h; exact cutPad_exact P

/-- … when the pieces' total is exactly `L`: the concatenation itself -/
theorem fill_take_exact (L : Nat) (ps : List Piece) (out : Bytes) (ht : ∀ p ∈ ps, p.Tight) (h : fill L ps = .ok out)
    (hl : (piecesBytes ps).length = L) : out = piecesBytes ps := by
  rw [fill_take L ps out ht h, ← hl]
  simp [zeros]

/-- … when they are shorter: followed by zeros -/
theorem fill_take_le (L : Nat) (ps : List Piece) (out : Bytes) (ht : ∀ p ∈ ps, p.Tight) (h : fill L ps = .ok out)
    (hl : (piecesBytes ps).length ≤ L) : out = piecesBytes ps ++ zeros (L - (piecesBytes ps).length) := by
  rw [fill_take L ps out ht h, List.take_of_length_le hl]

/-- `buf := fill L pre; fillFrom buf (len pre) qs` is one `fill L (pre ++ qs)` -/
theorem fill_then (L : Nat) (pre qs : List Piece) (buf out : Bytes) (h1 : fill L pre = .ok buf)
    (h2 : fillFrom buf (piecesLen pre) qs = .ok out) : fill L (pre ++ qs) = .ok out := by
  unfold fill at h1 ⊢
  rw [OFV.Go.fillFrom_append, h1]
  simpa using h2

/-! ### success implies that the checked writes were inside the buffer -/

/-- a successful write sequence whose k-th piece is not a plain `n += j`: the k-th piece started inside the buffer -/
theorem fillFrom_start_le (ps : List Piece) : ∀ (buf : Bytes) (n : Nat) (out : Bytes) (q : Piece) (qs : List Piece),
    fillFrom buf n (ps ++ q :: qs) = .ok out → (∀ k, q ≠ .skip k) → n + piecesLen ps ≤ buf.length := by
  intro buf n out q qs h hq
  rw [OFV.Go.fillFrom_append] at h
  cases hb : fillFrom buf n ps with
  | ok b =>
    rw [hb] at h
    simp only [Res.bind_ok] at h
    have hlen := fillFrom_length ps buf n b hb
    cases q with
    | put bs =>
      simp only [fillFrom] at h
      split at h
      · omega
      · exact absurd h (by simp)
    | copy bs =>
      simp only [fillFrom] at h
      split at h
      · omega
      · exact absurd h (by simp)
    | copyAdv bs a =>
      simp only [fillFrom] at h
      split at h
      · omega
      · exact absurd h (by simp)
    | skip k => exact absurd rfl (hq k)
  | err => rw [hb] at h; exact absurd h (by simp)
  | panic => rw [hb] at h; exact absurd h (by simp)
  | spin => rw [hb] at h; exact absurd h (by simp)

theorem fill_start_le (L : Nat) (ps : List Piece) (q : Piece) (qs : List Piece) (out : Bytes)
    (h : fill L (ps ++ q :: qs) = .ok out) (hq : ∀ k, q ≠ .skip k) : piecesLen ps ≤ L := by
  have := fillFrom_start_le ps (zeros L) 0 out q qs h hq
  simpa using this

/-- a fixed-width write (`PutUintN`, `data[n] = x`, `copy(data[n:n+k], …)`) that succeeded was inside the buffer -/
theorem fill_put_fits (L : Nat) (ps : List Piece) (bs : Bytes) (qs : List Piece) (out : Bytes)
    (h : fill L (ps ++ .put bs :: qs) = .ok out) : piecesLen ps + bs.length ≤ L := by
  unfold fill at h
  rw [OFV.Go.fillFrom_append] at h
  cases hb : fillFrom (zeros L) 0 ps with
  | ok b =>
    rw [hb] at h
    simp only [Res.bind_ok, fillFrom] at h
    have hlen := fillFrom_length ps _ 0 b hb
    split at h
    · simp at hlen; omega
    · exact absurd h (by simp)
  | err => rw [hb] at h; exact absurd h (by simp)
  | panic => rw [hb] at h; exact absurd h (by simp)
  | spin => rw [hb] at h; exact absurd h (by simp)

/-- when every piece is a fixed-width write, success means everything fitted -/
theorem fillFrom_puts_fit (ps : List Piece) : ∀ (buf : Bytes) (n : Nat) (out : Bytes),
    (∀ p ∈ ps, ∃ bs, p = .put bs) → n ≤ buf.length → fillFrom buf n ps = .ok out → n + piecesLen ps ≤ buf.length := by
  induction ps with
  | nil => intro buf n out _ hn _; simpa [piecesLen] using hn
  | cons p ps ih =>
    intro buf n out hp hn h
    obtain ⟨bs, rfl⟩ := hp p (by simp)
    simp only [fillFrom] at h
    split at h
    · rename_i hfit
      have := ih (overwrite buf n bs) (n + bs.length) out (fun q hq => hp q (by simp [hq]))
        (by rw [overwrite_length' _ _ _ (by omega)]; exact hfit) h
      rw [overwrite_length' _ _ _ (by omega)] at this
      have e : piecesLen (.put bs :: ps) = bs.length + piecesLen ps := by simp [piecesLen, Piece.adv]
      rw [e]; omega
    · exact absurd h (by simp)

theorem fill_puts_fit (L : Nat) (ps : List Piece) (out : Bytes) (hp : ∀ p ∈ ps, ∃ bs, p = .put bs)
    (h : fill L ps = .ok out) : piecesLen ps ≤ L := by
  have := fillFrom_puts_fit ps (zeros L) 0 out hp (by simp) h
  simpa using this

/-! ### small list facts -/

theorem flatten_length_sum (bss : List Bytes) : bss.flatten.length = (bss.map List.length).sum := by
  simp [List.length_flatten]

theorem take_append_zeros_exact (a : Bytes) (L : Nat) (h : a.length = L) : a.take L ++ zeros (L - a.length) = a := by
  subst h; simp [zeros]

end OFV.SizeP
