/-
  OFV.Lemmas.RT2Group — Bucket (any list of round-tripping actions) and GroupMod (any list of round-tripping buckets) through their
  own decoders.  Used by OFV/Props/C05b.lean.
-/
import OFV.Model.All
import OFV.Lemmas.Size
import OFV.Lemmas.RTBasic
import OFV.Lemmas.RTMatch
import OFV.Lemmas.RTAction
import OFV.Lemmas.RTList
import OFV.Lemmas.RTMsg
import OFV.Lemmas.RTNx
import OFV.Lemmas.RT2Nx
import OFV.Lemmas.RT2Ct
import OFV.Lemmas.RT2Deep
namespace OFV.RT2
set_option linter.unusedSimpArgs false
open OFV OFV.Go OFV.Model OFV.Model.InstrAux OFV.RT

/-- a Bucket value -/
def bucketV (ln w wp wg : Nat) (pad : V) (as : List V) : V := .obj "Bucket" [.num ln, .num w, .num wp, .num wg, pad, .list as]

def bucketBytes (L w wp wg : Nat) (encs : List Bytes) : Bytes :=
  be16 (n16 L) ++ be16 (n16 w) ++ be32 (n32 wp) ++ be32 (n32 wg) ++ zeros 4 ++ encs.flatten

/-- Bucket holding any list of round-tripping actions (`ActionsRTd`: conntrack actions included) whose sizes add up to a multiple of 8 (no padding needed): 16 fixed bytes,
    then the actions.  `MarshalBinary` stores the size in Length (whatever `ln0` was there); the unexported pad comes back nil. -/
theorem bucket_rt (w wp wg : Nat) (as : List V) (encs : List Bytes) (hw : w < 65536) (hwp : wp < 4294967296)
    (hwg : wg < 4294967296) (has : ActionsRTd as encs) (h8 : encs.flatten.length % 8 = 0) (hS : 16 + encs.flatten.length < 65536) :
    let L := 16 + encs.flatten.length
    let bs := bucketBytes L w wp wg encs
    (∀ (ln0 : Nat) (pad : V), Bucket.marshalM (bucketV ln0 w wp wg pad as) = .ok (bs, bucketV L w wp wg pad as)) ∧
    (∀ (ln0 : Nat) (pad : V), Bucket.lenM (bucketV ln0 w wp wg pad as) = .ok (n16 L, bucketV ln0 w wp wg pad as)) ∧ bs.length = L ∧
    ∀ (data : Slice) (tail : Bytes), data.WF → data.bytes = bs ++ tail →
      Bucket.unmarshalP Bucket.zero data = .ok (bucketV L w wp wg (.bytes []) as, false) := by
  intro L bs
  obtain ⟨hml, hll⟩ := actionsd_marshalList as encs has
  obtain ⟨hcnt, hsum⟩ := actionsd_len as encs has
  have hs16 := sum16_lens encs hsum (by omega)
  have hL : L < 65536 := hS
  have hbl : bs.length = L := by
    simp only [bs, bucketBytes, List.length_append, be16_length, be32_length, zeros_length, L]
  have hr : round8 (16 + n16 encs.flatten.length) = n16 L := by
    have : (16 : UInt16) = n16 16 := rfl
    rw [this, n16_add, round8_n16 _ (by omega)]
    congr 1; simp only [L]; omega
  have hlenM : ∀ (ln0 : Nat) (pad : V), Bucket.lenM (bucketV ln0 w wp wg pad as) = .ok (n16 L, bucketV ln0 w wp wg pad as) := by
    intro ln0 pad
    simp only [bucketV, Bucket.lenM, hll, Res.bind_ok, hs16, hr]
  refine ⟨fun ln0 pad => ?_, hlenM, hbl, ?_⟩
  · unfold Bucket.marshalM
    rw [hlenM ln0 pad]
    simp only [bucketV, Res.bind_ok, hml, Bool.false_eq_true, if_false, u16_n16 L hL, n16_toNat L hL]
    have : (be16 (n16 L) ++ be16 (n16 w) ++ be32 (n32 wp) ++ be32 (n32 wg) ++ zeros 4 ++ encs.flatten).length = L := hbl
    rw [this, Nat.sub_self]
    simp only [zeros, List.replicate_zero, List.append_nil, bs, bucketBytes]
  · intro data tail hd hb
    have hlen := Slice.len_ge_of_bytes data _ _ hb
    rw [hbl] at hlen
    have hb' : data.bytes = be16 (n16 L) ++ (be16 (n16 w) ++ (be32 (n32 wp) ++ (be32 (n32 wg) ++ (zeros 4 ++ (encs.flatten ++ tail))))) := by
      rw [hb]; simp only [bs, bucketBytes, List.append_assoc]
    have e0 : rd16 (data.bytes.drop 0) = some (n16 L) := by rw [hb']; exact rd16_be16 _ _
    have e2 : rd16 (data.bytes.drop 2) = some (n16 w) := by rw [hb']; exact rd16_be16 _ _
    have e4 : rd32 (data.bytes.drop 4) = some (n32 wp) := by rw [hb']; exact rd32_be32 _ _
    have e8 : rd32 (data.bytes.drop 8) = some (n32 wg) := by rw [hb']; exact rd32_be32 _ _
    have hloop := decodeActions_loop_d data hd L as encs has (be16 (n16 L) ++ be16 (n16 w) ++ be32 (n32 wp) ++ be32 (n32 wg) ++ zeros 4)
      tail [] (data.len + 2) (by rw [hb]; simp only [bs, bucketBytes])
      (by simp only [List.length_append, be16_length, be32_length, zeros_length, L]) (by omega)
    simp only [List.length_append, be16_length, be32_length, zeros_length, List.nil_append, Nat.reduceAdd] at hloop
    simp only [Bucket.unmarshalP, Bucket.zero, Slice.u16From_eq, Slice.u32From_eq, e0, e2, e4, e8, Res.ofOption, Res.bind_ok,
      decodeActions, n16_toNat L hL]
    erw [hloop]
    simp only [Res.bind_ok, Res.pure_eq, u16_n16 L hL, u16_n16 w hw, u32_n32 wp hwp, u32_n32 wg hwg, bucketV]


/-- one bucket `b` (decoded form, Length = its size) with encoding `e` -/
def BucketRT (b : V) (e : Bytes) : Prop :=
  Bucket.marshalCopyM b = .ok (e, b) ∧ Bucket.lenM b = .ok (n16 e.length, b) ∧ 0 < e.length ∧ e.length < 65536 ∧
  ∀ (data : Slice) (tail : Bytes), data.WF → data.bytes = e ++ tail → Bucket.unmarshalP Bucket.zero data = .ok (b, false)

inductive BucketsRT : List V → List Bytes → Prop
  | nil : BucketsRT [] []
  | cons {b : V} {e : Bytes} {bs : List V} {es : List Bytes} : BucketRT b e → BucketsRT bs es → BucketsRT (b :: bs) (e :: es)

theorem bucketRT_of (w wp wg : Nat) (as : List V) (encs : List Bytes) (hw : w < 65536) (hwp : wp < 4294967296)
    (hwg : wg < 4294967296) (has : ActionsRTd as encs) (h8 : encs.flatten.length % 8 = 0) (hS : 16 + encs.flatten.length < 65536) :
    BucketRT (bucketV (16 + encs.flatten.length) w wp wg (.bytes []) as) (bucketBytes (16 + encs.flatten.length) w wp wg encs) := by
  obtain ⟨h1, h2, h3, h4⟩ := bucket_rt w wp wg as encs hw hwp hwg has h8 hS
  refine ⟨?_, by rw [h3]; exact h2 _ _, by rw [h3]; omega, by rw [h3]; exact hS, h4⟩
  simp only [Bucket.marshalCopyM, h1, Res.bind_ok, Res.pure_eq]
  rfl

theorem buckets_marshalList (bs : List V) (es : List Bytes) (h : BucketsRT bs es) (hfit : es.flatten.length < 65536) :
    marshalList Bucket.marshalCopyM bs false = .ok (es.flatten, bs, false) ∧
    mapM2 Bucket.lenM bs = .ok (es.map (fun e => n16 e.length), bs) ∧
    sum16 (es.map (fun e => n16 e.length)) = n16 es.flatten.length ∧ es.length ≤ es.flatten.length := by
  induction h with
  | nil => exact ⟨rfl, rfl, rfl, by simp⟩
  | @cons b e bs es h1 _ ih =>
    obtain ⟨hm, hl, h0, _, _⟩ := h1
    simp only [List.flatten_cons, List.length_append] at hfit
    obtain ⟨i1, i2, i3, i4⟩ := ih (by omega)
    refine ⟨?_, ?_, ?_, ?_⟩
    · simp [marshalList, hm, i1]
    · simp [mapM2, hl, i2]
    · simp only [List.map_cons, sum16_cons, i3, n16_add, List.flatten_cons, List.length_append]
    · simp only [List.length_cons, List.flatten_cons, List.length_append]; omega

/-- the bucket loop of GroupMod.UnmarshalBinary -/
theorem group_loop (data : Slice) (hd : data.WF) (bs : List V) (es : List Bytes) (h : BucketsRT bs es) :
    ∀ (pre rest : Bytes) (acc : List V) (fuel : Nat),
      data.bytes = pre ++ es.flatten ++ rest → es.length < fuel →
      goLoop (σ := St) fuel (fun s => decide (s.n < pre.length + es.flatten.length)) (·.n)
        (fun s => do
          let d ← data.fromR s.n
          let (b, _) ← Bucket.unmarshalP Bucket.zero d
          let (l, b') ← Bucket.lenM b
          if l = 0 then .err else
          pure { n := s.n + l.toNat, xs := s.xs ++ [b'], err := false })
        { n := pre.length, xs := acc, err := false }
      = .ok { n := pre.length + es.flatten.length, xs := acc ++ bs, err := false } := by
  induction h with
  | nil =>
    intro pre rest acc fuel hb hfuel
    cases fuel with
    | zero => simp at hfuel
    | succ j => simp [goLoop]
  | @cons b e bs es h1 _ ih =>
    intro pre rest acc fuel hb hfuel
    obtain ⟨hm, hl, h0, h64, hdec⟩ := h1
    cases fuel with
    | zero => simp at hfuel
    | succ j =>
      have hlen := Slice.bytes_length_le data
      rw [hb] at hlen
      simp only [List.flatten_cons, List.length_append] at hlen
      obtain ⟨t, ht1, ht2, _, _⟩ := Slice.fromR_bytes data pre.length (by omega)
      have htb : t.bytes = e ++ (es.flatten ++ rest) := by
        rw [ht2, hb]; simp only [List.flatten_cons, List.append_assoc]; exact List.drop_left' rfl
      have htwf : t.WF := (Slice.fromR_wf data hd _ t ht1).1
      have hto : (n16 e.length).toNat = e.length := n16_toNat _ h64
      have hne : ¬ (n16 e.length = 0) := by
        intro h0'
        have := congrArg UInt16.toNat h0'
        rw [hto] at this
        have h00 : (0 : UInt16).toNat = 0 := rfl
        rw [h00] at this; omega
      unfold goLoop
      have hcond : decide (pre.length < pre.length + (e :: es).flatten.length) = true := by
        simp only [List.flatten_cons, List.length_append, decide_eq_true_eq]; omega
      simp only [hcond, if_true, ht1, Res.bind_ok, hdec t _ htwf htb, hl, Res.pure_eq, hto, hne, if_false]
      have hcur : ¬ (pre.length + e.length ≤ pre.length) := by omega
      simp only [if_false, hcur]
      have := ih (pre ++ e) rest (acc ++ [b]) j (by rw [hb]; simp) (by simp only [List.length_cons] at hfuel; omega)
      simp only [List.length_append, List.append_assoc, List.cons_append, List.nil_append, Res.pure_eq] at this
      simp only [List.flatten_cons, List.length_append, ← Nat.add_assoc]
      rw [this]

theorem bucketsRT_nil (es : List Bytes) (h : BucketsRT [] es) : es = [] := by cases h; rfl

/-- a GroupMod value -/
def groupModV (ver ty ln xid cmd t p g : Nat) (bs : List V) : V :=
  .obj "GroupMod" [.obj "Header" [.num ver, .num ty, .num ln, .num xid], .num cmd, .num t, .num p, .num g, .list bs]

theorem groupMod_rt (ver ty xid cmd t p g : Nat) (bs : List V) (es : List Bytes) (hver : ver < 256) (hty : ty < 256)
    (hxid : xid < 4294967296) (hcmd : cmd < 65536) (ht : t < 256) (hp : p < 256) (hg : g < 4294967296)
    (hbs : BucketsRT bs es) (hdel : cmd = Gen.openflow13.OFPGC_DELETE → bs = []) (hS : 16 + es.flatten.length < 65536) :
    let L := 16 + es.flatten.length
    let v' := groupModV ver ty L xid cmd t p g bs
    let bytes := [n8 ver, n8 ty] ++ be16 (n16 L) ++ be32 (n32 xid) ++ be16 (n16 cmd) ++ [n8 t, n8 p] ++ be32 (n32 g) ++ es.flatten
    (∀ ln0, GroupMod.marshalM (groupModV ver ty ln0 xid cmd t p g bs) = .ok (bytes, v')) ∧
    GroupMod.lenM v' = .ok (n16 L, v') ∧ bytes.length = L ∧
    ∀ (data : Slice) (tail : Bytes), data.WF → data.bytes = bytes ++ tail → GroupMod.unmarshal GroupMod.zero data = .ok v' := by
  intro L v' bytes
  obtain ⟨hml, hll, hs16, hcnt⟩ := buckets_marshalList bs es hbs (by omega)
  have hL : L < 65536 := hS
  have hbl : bytes.length = L := by
    simp only [bytes, List.length_append, be16_length, be32_length, List.length_cons, List.length_nil, L]
  have hlenM : ∀ ln0, GroupMod.lenM (groupModV ver ty ln0 xid cmd t p g bs) = .ok (n16 L, groupModV ver ty ln0 xid cmd t p g bs) := by
    intro ln0
    simp only [groupModV, GroupMod.lenM]
    by_cases hd : cmd = Gen.openflow13.OFPGC_DELETE
    · have := hdel hd
      subst this
      have := bucketsRT_nil es hbs
      subst this
      rw [if_pos hd]; rfl
    · rw [if_neg hd]
      simp only [hll, Res.bind_ok, hs16]
      have : (16 : UInt16) = n16 16 := rfl
      rw [this, n16_add]
  refine ⟨fun ln0 => ?_, hlenM L, hbl, ?_⟩
  · unfold GroupMod.marshalM
    rw [hlenM ln0]
    simp only [Res.bind_ok, groupModV, Header.setLength, Header.bytes, u16_n16 L hL]
    have hib : (if cmd = Gen.openflow13.OFPGC_DELETE then (.ok ([], bs, false) : R (Bytes × List V × Bool))
        else marshalList Bucket.marshalCopyM bs false) = .ok (es.flatten, bs, false) := by
      by_cases hd : cmd = Gen.openflow13.OFPGC_DELETE
      · have := hdel hd
        subst this
        have := bucketsRT_nil es hbs
        subst this
        rw [if_pos hd]; rfl
      · rw [if_neg hd, hml]
    rw [hib]
    simp only [Res.bind_ok, Bool.false_eq_true, if_false, bytes, v', groupModV]
  · intro data tail hd hb
    have hlen := Slice.len_ge_of_bytes data _ _ hb
    rw [hbl] at hlen
    have hb' : data.bytes = [n8 ver, n8 ty] ++ (be16 (n16 L) ++ (be32 (n32 xid) ++ (be16 (n16 cmd) ++ ([n8 t, n8 p] ++ (be32 (n32 g) ++
        (es.flatten ++ tail)))))) := by
      rw [hb]; simp only [bytes, List.append_assoc]
    unfold GroupMod.unmarshal GroupMod.zero
    obtain ⟨d0, h01, h02, _⟩ := Slice.fromR_bytes data 0 (by omega)
    have hd0 : d0.WF := (Slice.fromR_wf data hd 0 d0 h01).1
    obtain ⟨_, _, hhdr⟩ := header_roundtrip ver ty L xid hver hty hL hxid
    have hh := hhdr Header.zero d0 (be16 (n16 cmd) ++ ([n8 t, n8 p] ++ (be32 (n32 g) ++ (es.flatten ++ tail)))) hd0
      (by rw [h02, hb']; simp only [List.drop_zero, List.append_assoc])
    have e8 : rd16 (data.bytes.drop 8) = some (n16 cmd) := by rw [hb']; exact rd16_be16 _ _
    have e10 : data.bytes[10]? = some (n8 t) := by rw [hb']; rfl
    have e11 : data.bytes[11]? = some (n8 p) := by rw [hb']; rfl
    have e12 : rd32 (data.bytes.drop 12) = some (n32 g) := by rw [hb']; exact rd32_be32 _ _
    have hloop := group_loop data hd bs es hbs ([n8 ver, n8 ty] ++ be16 (n16 L) ++ be32 (n32 xid) ++ be16 (n16 cmd) ++ [n8 t, n8 p] ++ be32 (n32 g))
      tail [] (data.len + 2) (by rw [hb]) (by omega)
    simp only [List.length_append, be16_length, be32_length, List.length_cons, List.length_nil, List.nil_append, Nat.reduceAdd] at hloop
    simp only [h01, Res.bind_ok, hh, catchErr, Slice.u16From_eq, Slice.u32From_eq, Slice.byteAt_eq, e8, e10, e11, e12, Res.ofOption,
      Header.length]
    erw [hloop]
    simp only [Res.bind_ok, Res.pure_eq, u16_n16 cmd hcmd, u8_n8 t ht, u8_n8 p hp, u32_n32 g hg, v', groupModV]

/-! the standard action kinds are all multiples of 8 bytes long -/

theorem round8_mod8 (n : UInt16) : (round8 n).toNat % 8 = 0 := by
  unfold round8
  rw [UInt16.toNat_mul, UInt16.toNat_div]
  have h8 : (8 : UInt16).toNat = 8 := rfl
  rw [h8]
  have := (n + 7).toNat_lt
  omega

theorem lookup_mem {β} (l : List (Nat × β)) (k : Nat) (z : β) (h : l.lookup k = some z) : (k, z) ∈ l := by
  induction l with
  | nil => simp [List.lookup] at h
  | cons p l ih =>
    obtain ⟨a, b⟩ := p
    simp only [List.lookup] at h
    split at h
    · rename_i heq
      have : k = a := by simpa using heq
      cases h; subst this; simp
    · exact List.mem_cons_of_mem _ (ih h)

/-- a value of a kind `DecodeAction` allocates for one of the standard (non-experimenter) action types -/
def StdKind (a : V) : Prop := ∃ ty z, actionTypeTable.lookup ty = some z ∧ a.kind = z.kind

/-- every standard action kind has a Len() that is a multiple of 8 (since the header-only types, set-mpls-ttl and set-nw-ttl
    are 8-byte kinds): whatever the field values -/
theorem stdKind_len8 (v v' : V) (l : UInt16) (hs : StdKind v) (hl : Action.lenM v = .ok (l, v')) : l.toNat % 8 = 0 := by
  obtain ⟨ty, z, hlook, hk⟩ := hs
  have hmem := lookup_mem _ _ _ hlook
  have hne : v.kind ≠ "NXActionConnTrack" := by
    simp only [actionTypeTable, List.mem_cons, List.not_mem_nil, or_false, Prod.mk.injEq] at hmem
    rcases hmem with ⟨_, rfl⟩ | ⟨_, rfl⟩ | ⟨_, rfl⟩ | ⟨_, rfl⟩ | ⟨_, rfl⟩ | ⟨_, rfl⟩ | ⟨_, rfl⟩ | ⟨_, rfl⟩ | ⟨_, rfl⟩ | ⟨_, rfl⟩ |
      ⟨_, rfl⟩ | ⟨_, rfl⟩ | ⟨_, rfl⟩ | ⟨_, rfl⟩ | ⟨_, rfl⟩ | ⟨_, rfl⟩ <;> (rw [hk]; decide)
  rw [action_len_leaf v hne] at hl
  unfold Action.lenLeaf at hl
  simp only [actionTypeTable, List.mem_cons, List.not_mem_nil, or_false, Prod.mk.injEq] at hmem
  rcases hmem with ⟨_, rfl⟩ | ⟨_, rfl⟩ | ⟨_, rfl⟩ | ⟨_, rfl⟩ | ⟨_, rfl⟩ | ⟨_, rfl⟩ | ⟨_, rfl⟩ | ⟨_, rfl⟩ | ⟨_, rfl⟩ | ⟨_, rfl⟩ |
      ⟨_, rfl⟩ | ⟨_, rfl⟩ | ⟨_, rfl⟩ | ⟨_, rfl⟩ | ⟨_, rfl⟩ | ⟨_, rfl⟩ <;> rw [hk] at hl
  all_goals first
    | (cases hl; rfl)
    | skip
  replace hl : ActionSetField.lenM v = .ok (l, v') := hl
  unfold ActionSetField.lenM at hl
  split at hl
  · obtain ⟨⟨fl, f'⟩, _, g1⟩ := bind_ok_inv _ _ _ hl
    cases g1
    exact round8_mod8 _
  · cases hl

/-- a list of round-tripping actions of standard kinds occupies a multiple of 8 bytes -/
theorem stdKinds_flatten8 (as : List V) (encs : List Bytes) (h : ActionsRTd as encs) (hstd : ∀ a ∈ as, StdKind a) :
    encs.flatten.length % 8 = 0 := by
  induction h with
  | nil => rfl
  | @cons a e as es h1 _ ih =>
    obtain ⟨_, hl, _, h64, _⟩ := h1
    have h8 := stdKind_len8 a a _ (hstd a (by simp)) hl
    have hto : (UInt16.ofNat e.length).toNat = e.length := by
      simp [UInt16.toNat_ofNat']; omega
    rw [hto] at h8
    have := ih (fun x hx => hstd x (by simp [hx]))
    simp only [List.flatten_cons, List.length_append]
    omega

/-- `bucket_rt` for action lists of standard kinds: the hypothesis "sizes add up to a multiple of 8" always holds -/
theorem bucket_rt_std (w wp wg : Nat) (as : List V) (encs : List Bytes) (hw : w < 65536) (hwp : wp < 4294967296)
    (hwg : wg < 4294967296) (has : ActionsRTd as encs) (hstd : ∀ a ∈ as, StdKind a) (hS : 16 + encs.flatten.length < 65536) :
    let L := 16 + encs.flatten.length
    let bs := bucketBytes L w wp wg encs
    (∀ (ln0 : Nat) (pad : V), Bucket.marshalM (bucketV ln0 w wp wg pad as) = .ok (bs, bucketV L w wp wg pad as)) ∧
    (∀ (ln0 : Nat) (pad : V), Bucket.lenM (bucketV ln0 w wp wg pad as) = .ok (n16 L, bucketV ln0 w wp wg pad as)) ∧ bs.length = L ∧
    ∀ (data : Slice) (tail : Bytes), data.WF → data.bytes = bs ++ tail →
      Bucket.unmarshalP Bucket.zero data = .ok (bucketV L w wp wg (.bytes []) as, false) :=
  bucket_rt w wp wg as encs hw hwp hwg has (stdKinds_flatten8 as encs has hstd) hS

end OFV.RT2
