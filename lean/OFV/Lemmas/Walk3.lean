/-
  OFV.Lemmas.Walk3 — acceptance of single actions by the REAL grammar walker (`Spec.walkAction`), stated on bytes in the
  `beAt` vocabulary of C02b (type word, length word, vendor, subtype, pad bytes), and the list walks built on it:
  `walkActions_flatten`, `walkBuckets_flatten`.  Pure reasoning about the walker; nothing about the model here.
-/
import OFV.Lemmas.Walk2
namespace OFV.Walk3
open OFV OFV.Spec OFV.Walk2

/-- the real walker accepts the element `b` as ONE action, whatever follows it, at every nesting bound ≥ 1, and reports
    the subtree `t` and exactly `b.length` bytes consumed -/
def ActAccept (b : Bytes) (t : Tree) : Prop := ∀ fuel tail, walkAction (fuel + 1) (b ++ tail) = .ok (t, b.length)

/-- an action that declares exactly its own bytes (a positive multiple of 8) is walked the same way whatever follows -/
theorem walkAction_tail (b tail : Bytes) (fuel : Nat) (h8 : 8 ≤ b.length) (hal : b.length % 8 = 0)
    (hd : beAt b 2 2 = b.length) : walkAction (fuel + 1) (b ++ tail) = walkAction (fuel + 1) b := by
  have e0 : u16At (b ++ tail) 0 = u16At b 0 := u16At_append_left _ _ _ (by omega)
  have e2 : u16At (b ++ tail) 2 = b.length := by rw [u16At_append_left _ _ _ (by omega), u16At_eq_beAt _ _ (by omega), hd]
  have e2' : u16At b 2 = b.length := by rw [u16At_eq_beAt _ _ (by omega), hd]
  have l1 : ¬ (b ++ tail).length < 4 := by simp; omega
  have l2 : ¬ b.length < 4 := by omega
  have l3 : ¬ (b.length < 8 ∨ b.length % 8 ≠ 0) := by omega
  have l4 : ¬ (b ++ tail).length < b.length := by simp
  have l5 : ¬ b.length < b.length := by omega
  have t1 : (b ++ tail).take b.length = b := List.take_left
  have t2 : b.take b.length = b := List.take_length
  simp only [walkAction, e0, e2, e2', l1, l2, l3, l4, l5, t1, t2, if_false]

theorem zeros_slice (b : Bytes) (o n : Nat) (h : b.drop o = List.replicate n 0) : allZero (slice b o n) = true := by
  unfold slice; rw [h]
  apply (allZero_iff _).mpr
  intro x hx
  have := List.mem_of_mem_take hx
  exact (List.mem_replicate.mp this).2

/-- output action: 16 bytes, type 0, the last 6 zero -/
theorem accept_output (b : Bytes) (hl : b.length = 16) (h0 : beAt b 0 2 = 0) (h2 : beAt b 2 2 = 16)
    (hz : b.drop 10 = List.replicate 6 0) : ActAccept b (.node "act 0" b []) := by
  intro fuel tail
  rw [walkAction_tail b tail fuel (by omega) (by omega) (by omega)]
  have e0 : u16At b 0 = 0 := by rw [u16At_eq_beAt _ _ (by omega), h0]
  have e2 : u16At b 2 = 16 := by rw [u16At_eq_beAt _ _ (by omega), h2]
  have t2 : b.take 16 = b := by rw [← hl]; exact List.take_length
  have z := zerosAt_ok b 10 6 "output action" (zeros_slice b 10 6 hz)
  simp only [walkAction, e0, e2, hl, t2, z]
  rfl

theorem u32At_eq_beAt (bs : Bytes) (i : Nat) (h : i + 4 ≤ bs.length) : u32At bs i = beAt bs i 4 := by
  have h1 : i < bs.length := by omega
  have h2 : i + 1 < bs.length := by omega
  have h3 : i + 2 < bs.length := by omega
  have h4 : i + 3 < bs.length := by omega
  have e : bs.drop i = bs[i] :: bs[i + 1] :: bs[i + 2] :: bs[i + 3] :: bs.drop (i + 4) := by
    rw [List.drop_eq_getElem_cons h1, List.drop_eq_getElem_cons h2, List.drop_eq_getElem_cons h3,
      List.drop_eq_getElem_cons h4]
  unfold u32At u16At u8At beAt
  rw [e]
  simp only [List.take_succ_cons, List.take_zero, List.foldl_cons, List.foldl_nil, List.getElem?_eq_getElem h1,
    List.getElem?_eq_getElem h2, List.getElem?_eq_getElem h3, List.getElem?_eq_getElem h4, Option.getD_some,
    Nat.add_assoc]
  omega

/-- the 8-byte actions with 4 pad bytes: copy-ttl-out/in, dec-mpls-ttl, pop-vlan, dec-nw-ttl, pop-pbb -/
theorem accept_pad4 (ty : Nat) (hty : ty ∈ [11, 12, 16, 18, 24, 27]) (b : Bytes) (hl : b.length = 8)
    (h0 : beAt b 0 2 = ty) (h2 : beAt b 2 2 = 8) (hz : b.drop 4 = List.replicate 4 0) :
    ActAccept b (.node s!"act {ty}" b []) := by
  intro fuel tail
  rw [walkAction_tail b tail fuel (by omega) (by omega) (by omega)]
  have e0 : u16At b 0 = ty := by rw [u16At_eq_beAt _ _ (by omega), h0]
  have e2 : u16At b 2 = 8 := by rw [u16At_eq_beAt _ _ (by omega), h2]
  have t2 : b.take 8 = b := by rw [← hl]; exact List.take_length
  have z : ∀ w, zerosAt b 4 4 w = .ok () := fun w => zerosAt_ok b 4 4 w (zeros_slice b 4 4 hz)
  simp only [List.mem_cons, List.mem_nil_iff, or_false] at hty
  rcases hty with rfl | rfl | rfl | rfl | rfl | rfl <;> (simp only [walkAction, e0, e2, hl, t2, z]; rfl)

/-- set-mpls-ttl, set-nw-ttl: 8 bytes, 3 pad bytes -/
theorem accept_pad3 (ty : Nat) (hty : ty ∈ [15, 23]) (b : Bytes) (hl : b.length = 8)
    (h0 : beAt b 0 2 = ty) (h2 : beAt b 2 2 = 8) (hz : b.drop 5 = List.replicate 3 0) :
    ActAccept b (.node s!"act {ty}" b []) := by
  intro fuel tail
  rw [walkAction_tail b tail fuel (by omega) (by omega) (by omega)]
  have e0 : u16At b 0 = ty := by rw [u16At_eq_beAt _ _ (by omega), h0]
  have e2 : u16At b 2 = 8 := by rw [u16At_eq_beAt _ _ (by omega), h2]
  have t2 : b.take 8 = b := by rw [← hl]; exact List.take_length
  have z : ∀ w, zerosAt b 5 3 w = .ok () := fun w => zerosAt_ok b 5 3 w (zeros_slice b 5 3 hz)
  simp only [List.mem_cons, List.mem_nil_iff, or_false] at hty
  rcases hty with rfl | rfl <;> (simp only [walkAction, e0, e2, hl, t2, z]; rfl)

/-- push-vlan, push-mpls, pop-mpls, push-pbb: 8 bytes, 2 pad bytes -/
theorem accept_pad2 (ty : Nat) (hty : ty ∈ [17, 19, 20, 26]) (b : Bytes) (hl : b.length = 8)
    (h0 : beAt b 0 2 = ty) (h2 : beAt b 2 2 = 8) (hz : b.drop 6 = List.replicate 2 0) :
    ActAccept b (.node s!"act {ty}" b []) := by
  intro fuel tail
  rw [walkAction_tail b tail fuel (by omega) (by omega) (by omega)]
  have e0 : u16At b 0 = ty := by rw [u16At_eq_beAt _ _ (by omega), h0]
  have e2 : u16At b 2 = 8 := by rw [u16At_eq_beAt _ _ (by omega), h2]
  have t2 : b.take 8 = b := by rw [← hl]; exact List.take_length
  have z : ∀ w, zerosAt b 6 2 w = .ok () := fun w => zerosAt_ok b 6 2 w (zeros_slice b 6 2 hz)
  simp only [List.mem_cons, List.mem_nil_iff, or_false] at hty
  rcases hty with rfl | rfl | rfl | rfl <;> (simp only [walkAction, e0, e2, hl, t2, z]; rfl)

/-- set-queue, group: 8 bytes, no padding -/
theorem accept_nopad (ty : Nat) (hty : ty ∈ [21, 22]) (b : Bytes) (hl : b.length = 8)
    (h0 : beAt b 0 2 = ty) (h2 : beAt b 2 2 = 8) : ActAccept b (.node s!"act {ty}" b []) := by
  intro fuel tail
  rw [walkAction_tail b tail fuel (by omega) (by omega) (by omega)]
  have e0 : u16At b 0 = ty := by rw [u16At_eq_beAt _ _ (by omega), h0]
  have e2 : u16At b 2 = 8 := by rw [u16At_eq_beAt _ _ (by omega), h2]
  have t2 : b.take 8 = b := by rw [← hl]; exact List.take_length
  simp only [List.mem_cons, List.mem_nil_iff, or_false] at hty
  rcases hty with rfl | rfl <;> (simp only [walkAction, e0, e2, hl, t2]; rfl)

/-- the fixed-size Nicira actions of the walker's table `nxFixed` (resubmit, resubmit-table, ct-resubmit, reg-move,
    reg-load, output-reg, dec-ttl, controller, conjunction, ct-clear): experimenter type, Nicira vendor id, the
    subtype, and exactly the table's size -/
theorem accept_nxFixed (sub : Nat) (b : Bytes) (hs : nxFixed.lookup sub = some b.length) (h16 : 16 ≤ b.length)
    (hal : b.length % 8 = 0) (h0 : beAt b 0 2 = 65535) (h2 : beAt b 2 2 = b.length) (hv : beAt b 4 4 = 0x2320)
    (hsb : beAt b 8 2 = sub) : ActAccept b (.node s!"nx {sub}" b []) := by
  intro fuel tail
  rw [walkAction_tail b tail fuel (by omega) (by omega) h2]
  have e0 : u16At b 0 = 65535 := by rw [u16At_eq_beAt _ _ (by omega), h0]
  have e2 : u16At b 2 = b.length := by rw [u16At_eq_beAt _ _ (by omega), h2]
  have e4 : u32At b 4 = 0x2320 := by rw [u32At_eq_beAt _ _ (by omega), hv]
  have e8 : u16At b 8 = sub := by rw [u16At_eq_beAt _ _ (by omega), hsb]
  have t2 : b.take b.length = b := List.take_length
  have l1 : ¬ b.length < 4 := by omega
  have l2 : ¬ (b.length < 8 ∨ b.length % 8 ≠ 0) := by omega
  have l3 : ¬ b.length < b.length := by omega
  have l4 : ¬ b.length < 16 := by omega
  simp only [walkAction, e0, e2, e4, e8, t2, l1, l2, l3, l4, hs, if_false, ne_eq, not_true_eq_false]
  rfl

/-- note: any experimenter action of subtype 8 of at least 16 bytes -/
theorem accept_note (b : Bytes) (h16 : 16 ≤ b.length)
    (hal : b.length % 8 = 0) (h0 : beAt b 0 2 = 65535) (h2 : beAt b 2 2 = b.length) (hv : beAt b 4 4 = 0x2320)
    (hsb : beAt b 8 2 = 8) : ActAccept b (.node "nx 8" b []) := by
  intro fuel tail
  rw [walkAction_tail b tail fuel (by omega) (by omega) h2]
  have e0 : u16At b 0 = 65535 := by rw [u16At_eq_beAt _ _ (by omega), h0]
  have e2 : u16At b 2 = b.length := by rw [u16At_eq_beAt _ _ (by omega), h2]
  have e4 : u32At b 4 = 0x2320 := by rw [u32At_eq_beAt _ _ (by omega), hv]
  have e8 : u16At b 8 = 8 := by rw [u16At_eq_beAt _ _ (by omega), hsb]
  have t2 : b.take b.length = b := List.take_length
  have l1 : ¬ b.length < 4 := by omega
  have l2 : ¬ (b.length < 8 ∨ b.length % 8 ≠ 0) := by omega
  have l3 : ¬ b.length < b.length := by omega
  have l4 : ¬ b.length < 16 := by omega
  have hn : nxFixed.lookup 8 = none := by decide
  simp only [walkAction, e0, e2, e4, e8, t2, l1, l2, l3, l4, hn, if_false, ne_eq, not_true_eq_false]
  rfl

/-! ### lists of actions, lists of buckets -/

/-- the subtree the walker builds for the action `b` -/
def actTree (b : Bytes) : Tree :=
  match walkAction 1 b with
  | .ok (t, _) => t
  | .error _ => .node "rejected" b []

theorem actTree_of_accept (b : Bytes) (t : Tree) (h : ActAccept b t) : actTree b = t := by
  have := h 0 []
  rw [List.append_nil] at this
  unfold actTree; rw [this]

/-- the real walker accepts `b` as one action (with the subtree it builds for it) -/
def Accepted (b : Bytes) : Prop := ActAccept b (actTree b)

theorem accepted_of (b : Bytes) (t : Tree) (h : ActAccept b t) : Accepted b := by
  unfold Accepted; rw [actTree_of_accept b t h]; exact h

/-- WALK: a concatenation of accepted, non-empty actions is accepted by the walker's action-list walk, which returns
    exactly one subtree per action, in order, and ends exactly at the end -/
theorem walkActions_flatten (bss : List Bytes) (h : ∀ b ∈ bss, Accepted b ∧ 0 < b.length) : ∀ fuel, bss.length + 1 < fuel →
    walkActions fuel bss.flatten = .ok (bss.map actTree) := by
  induction bss with
  | nil => intro fuel hf; cases fuel with
    | zero => omega
    | succ f => simp [walkActions]; rfl
  | cons c cs ih =>
    intro fuel hf
    cases fuel with
    | zero => omega
    | succ f =>
      obtain ⟨ha, hpos⟩ := h c (by simp)
      have hne := isEmpty_append_false c cs.flatten hpos
      have hacc : walkAction f (c ++ cs.flatten) = .ok (actTree c, c.length) := by
        obtain ⟨f', rfl⟩ : ∃ f', f = f' + 1 := ⟨f - 1, by simp at hf; omega⟩
        exact ha f' cs.flatten
      have hd : (c ++ cs.flatten).drop c.length = cs.flatten := List.drop_left
      have hrec := ih (fun x hx => h x (by simp [hx])) f (by simp at hf; omega)
      rw [List.flatten_cons, walkActions]
      simp only [hne, Bool.false_eq_true, if_false, hacc]
      show (do let rest ← walkActions f ((c ++ cs.flatten).drop c.length); pure (actTree c :: rest) : W (List Tree)) = _
      rw [hd, hrec]
      rfl

/-- what the walker demands of one bucket: it declares exactly its own bytes (at least 16, a multiple of 8), the 4 pad
    bytes are zero, and the action area behind the 16 fixed bytes is accepted, giving the subtrees `ts` -/
def BucketOK (c : Bytes) (ts : List Tree) : Prop :=
  16 ≤ c.length ∧ c.length % 8 = 0 ∧ beAt c 0 2 = c.length ∧ allZero (slice c 12 4) = true ∧
  walkActions (c.length + 1) (c.drop 16) = .ok ts

theorem walkBuckets_flatten (bt : Bytes → List Tree) (bss : List Bytes) (h : ∀ c ∈ bss, BucketOK c (bt c)) :
    ∀ fuel, bss.length < fuel →
    walkBuckets fuel bss.flatten = .ok (bss.map (fun c => Tree.node "bucket" c (bt c))) := by
  induction bss with
  | nil => intro fuel hf; cases fuel with
    | zero => omega
    | succ f => simp [walkBuckets]; rfl
  | cons c cs ih =>
    intro fuel hf
    cases fuel with
    | zero => omega
    | succ f =>
      obtain ⟨h16, hal, hd, hz, hw⟩ := h c (by simp)
      have hne := isEmpty_append_false c cs.flatten (by omega)
      have e0 : u16At (c ++ cs.flatten) 0 = c.length := by
        rw [u16At_append_left _ _ _ (by omega), u16At_eq_beAt _ _ (by omega), hd]
      have l1 : ¬ (c ++ cs.flatten).length < 16 := by simp; omega
      have l2 : ¬ (c.length < 16 ∨ c.length % 8 ≠ 0) := by omega
      have l3 : ¬ (c ++ cs.flatten).length < c.length := by simp
      have t1 : (c ++ cs.flatten).take c.length = c := List.take_left
      have d1 : (c ++ cs.flatten).drop c.length = cs.flatten := List.drop_left
      have z := zerosAt_ok c 12 4 "bucket" hz
      simp only [walkBuckets, List.flatten_cons, hne, Bool.false_eq_true, if_false, e0, l1, l2, l3, t1, d1, z, hw,
        ih (fun x hx => h x (by simp [hx])) f (by simp at hf; omega), List.map_cons]
      rfl

end OFV.Walk3
