/-
  OFV.Lemmas.Loop — the decoder loop `goLoop`: when every iteration moves the cursor forward and the cursor is bounded
  while the condition holds, the loop terminates (never `.spin`), and it panics only if an iteration does.
-/
import OFV.Model.Core
namespace OFV.Model
open OFV OFV.Go

/-- a loop whose iterations always advance a bounded cursor does not spin -/
theorem goLoop_no_spin {σ} (cond : σ → Bool) (cursor : σ → Nat) (body : σ → R σ) (bound : Nat)
    (hb : ∀ s, cond s = true → cursor s < bound)
    (hp : ∀ s s', cond s = true → body s = .ok s' → cursor s < cursor s')
    (hs : ∀ s, cond s = true → body s ≠ .spin) :
    ∀ fuel s, bound - cursor s < fuel → goLoop fuel cond cursor body s ≠ .spin := by
  intro fuel
  induction fuel with
  | zero => intro s h; omega
  | succ f ih =>
    intro s h
    unfold goLoop
    by_cases hc : cond s = true
    · simp only [hc, if_true]
      have hlt := hb s hc
      cases hbody : body s with
      | ok s' =>
        have hadv := hp s s' hc hbody
        simp only
        rw [if_neg (by omega)]
        exact ih s' (by omega)
      | err => simp
      | panic => simp
      | spin => exact absurd hbody (hs s hc)
    · simp [hc]

/-- … and does not panic when no iteration does -/
theorem goLoop_no_panic {σ} (cond : σ → Bool) (cursor : σ → Nat) (body : σ → R σ) (P : σ → Prop)
    (hinv : ∀ s s', P s → cond s = true → body s = .ok s' → P s')
    (hs : ∀ s, P s → cond s = true → body s ≠ .panic) :
    ∀ fuel s, P s → goLoop fuel cond cursor body s ≠ .panic := by
  intro fuel
  induction fuel with
  | zero => intro s _; simp [goLoop]
  | succ f ih =>
    intro s hP
    unfold goLoop
    by_cases hc : cond s = true
    · simp only [hc, if_true]
      cases hbody : body s with
      | ok s' =>
        simp only
        by_cases hle : cursor s' ≤ cursor s
        · simp [hle]
        · rw [if_neg hle]; exact ih s' (hinv s s' hP hc hbody)
      | err => simp
      | panic => exact absurd hbody (hs s hP hc)
      | spin => simp
    · simp [hc]

/-- the loop invariant holds of the final state -/
theorem goLoop_inv {σ} (cond : σ → Bool) (cursor : σ → Nat) (body : σ → R σ) (P : σ → Prop)
    (hinv : ∀ s s', P s → cond s = true → body s = .ok s' → P s') :
    ∀ fuel s t, P s → goLoop fuel cond cursor body s = .ok t → P t ∧ cond t = false := by
  intro fuel
  induction fuel with
  | zero => intro s t _ h; simp [goLoop] at h
  | succ f ih =>
    intro s t hP h
    unfold goLoop at h
    by_cases hc : cond s = true
    · simp only [hc, if_true] at h
      cases hbody : body s with
      | ok s' =>
        rw [hbody] at h
        simp only at h
        by_cases hle : cursor s' ≤ cursor s
        · simp [hle] at h
        · rw [if_neg hle] at h; exact ih s' t (hinv s s' hP hc hbody) h
      | err => rw [hbody] at h; simp at h
      | panic => rw [hbody] at h; simp at h
      | spin => rw [hbody] at h; simp at h
    · simp only [hc] at h
      have : t = s := by simpa using h.symm
      subst this
      exact ⟨hP, by simpa using hc⟩

end OFV.Model
