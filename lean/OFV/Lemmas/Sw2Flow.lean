/-
  OFV.Lemmas.Sw2Flow — flow-statistics records and the multipart reply that carries ANY number of them:
    * `MatchDec mb mv`, `InstrsDec ib iv` : what the generic theorems of OFV/Props/C04.lean ask of a match / an instruction
      list, in a form that tolerates following bytes; `matchDec_of_fields`, `instrsDec_of_list` discharge them for any
      list of decodable OXM TLVs / instructions
    * `FsRec` : one `ofp_flow_stats` record (fixed fields, match, instructions); `flowStats_record` decodes it
    * `flowStats_reply` : a multipart reply of type OFPMP_FLOW with any list of records
    * `flowStats_reply_flag_err` : a record whose match decoder reports an error ends the reply with that error
  Used by OFV/Props/C04b.lean.
-/
import OFV.Model.All
import OFV.Lemmas.SwBasic
import OFV.Lemmas.SwMatch
import OFV.Lemmas.Size
import OFV.Lemmas.Sw2Match
import OFV.Lemmas.Sw2Instr
import OFV.Lemmas.SwStats
namespace OFV.Sw2
open OFV OFV.Go OFV.Model

/-- the padded `ofp_match` bytes `mb` decode (into any fresh Match receiver, whatever follows) to `mv`, whose `Len()` is
    their number -/
def MatchDec (mb : Bytes) (mv : V) : Prop :=
  (∀ (a b : V) (dm : Slice), dm.WF → ∀ rest, dm.bytes = mb ++ rest →
    Match.unmarshalP (.obj "Match" [a, b, .list []]) dm = .ok (mv, false)) ∧
  (∃ ml, Match.lenM mv = .ok (ml, mv) ∧ ml.toNat = mb.length) ∧ mb.length < 60000

theorem matchDec_of_fields (fs : List (Bytes × V)) (h : ∀ p ∈ fs, FieldDec p.1 p.2)
    (hlen : 4 + (tlvCat fs).length + 7 < 60000) : MatchDec (matchBytes fs) (matchV fs) := by
  refine ⟨?_, ?_, by rw [matchBytes_length]; omega⟩
  · intro a b dm hwf rest hb
    exact match_fields a b fs h dm hwf (zeros ((8 - (4 + (tlvCat fs).length) % 8) % 8) ++ rest) (by omega)
      (by rw [hb]; simp only [matchBytes, List.append_assoc])
  · obtain ⟨ml, h1, h2⟩ := match_len fs h (by omega)
    exact ⟨ml, h1, by rw [h2, matchBytes_length]⟩

/-- the instruction bytes `ib`, found at any offset `n` of a record and followed by anything, decode to the list `iv`,
    whose `Len()`s add up to their number -/
def InstrsDec (ib : Bytes) (iv : List V) : Prop :=
  (∀ (d : Slice), d.WF → ∀ n rest, d.bytes.drop n = ib ++ rest →
    FlowStats.decodeInstrs d (n + ib.length) n [] = .ok iv) ∧
  ∃ ls, mapM2 Instruction.lenM iv = .ok (ls, iv) ∧ (sum16 ls).toNat = ib.length

theorem instrsDec_of_list (is : List (Bytes × V)) (h : ∀ p ∈ is, InstrDec p.1 p.2) (hlen : (wireCat is).length < 65536) :
    InstrsDec (wireCat is) (is.map Prod.snd) :=
  ⟨fun d hwf n rest hb => instrs_loop d hwf rest is h n hb,
   ⟨_, instrs_lens is h, lens_sum is (fun p hp => (h p hp).2.2.2) hlen⟩⟩

/-- one `ofp_flow_stats` record as the specification writes it -/
structure FsRec where
  tableId : UInt8
  durationSec : UInt32
  durationNsec : UInt32
  priority : UInt16
  idleTimeout : UInt16
  hardTimeout : UInt16
  flags : UInt16
  cookie : UInt64
  packetCount : UInt64
  byteCount : UInt64
  /-- the padded `ofp_match` and its value -/
  mb : Bytes
  mv : V
  /-- the instructions and their values -/
  ib : Bytes
  iv : List V

namespace FsRec
/-- size of the record -/
def size (r : FsRec) : Nat := 48 + r.mb.length + r.ib.length
/-- length(2), table_id(1), pad(1), duration_sec(4), duration_nsec(4), priority(2), idle_timeout(2), hard_timeout(2),
    flags(2), pad(4), cookie(8), packet_count(8), byte_count(8), match, instructions -/
def bytes (r : FsRec) : Bytes :=
  be16 (UInt16.ofNat r.size) ++ ([r.tableId, 0] ++ (be32 r.durationSec ++ (be32 r.durationNsec ++ (be16 r.priority ++
    (be16 r.idleTimeout ++ (be16 r.hardTimeout ++ (be16 r.flags ++ (zeros 4 ++ (be64 r.cookie ++ (be64 r.packetCount ++
    (be64 r.byteCount ++ (r.mb ++ r.ib))))))))))))
/-- the decoded record -/
def val (r : FsRec) : V :=
  .obj "FlowStats" [.num r.size, .num r.tableId.toNat, .num 0, .num r.durationSec.toNat, .num r.durationNsec.toNat,
    .num r.priority.toNat, .num r.idleTimeout.toNat, .num r.hardTimeout.toNat, .num r.flags.toNat, .bytes (zeros 4),
    .num r.cookie.toNat, .num r.packetCount.toNat, .num r.byteCount.toNat, r.mv, .list r.iv]
/-- match and instructions decode, and the record fits a 16-bit length -/
def OK (r : FsRec) : Prop := MatchDec r.mb r.mv ∧ InstrsDec r.ib r.iv ∧ r.size < 65536
theorem bytes_length (r : FsRec) : r.bytes.length = r.size := by
  simp [bytes, size]; omega
end FsRec

theorem FsRec.drop_match (r : FsRec) (rest : Bytes) : (r.bytes ++ rest).drop (48 + r.mb.length) = r.ib ++ rest := by
  rw [← List.drop_drop]
  unfold FsRec.bytes
  show List.drop r.mb.length (r.mb ++ r.ib ++ rest) = _
  rw [List.append_assoc]; simp

/-- the decoded record with a given instruction list -/
def FsRec.valWith (r : FsRec) (is : List V) : V :=
  .obj "FlowStats" [.num r.size, .num r.tableId.toNat, .num 0, .num r.durationSec.toNat, .num r.durationNsec.toNat,
    .num r.priority.toNat, .num r.idleTimeout.toNat, .num r.hardTimeout.toNat, .num r.flags.toNat, .bytes (zeros 4),
    .num r.cookie.toNat, .num r.packetCount.toNat, .num r.byteCount.toNat, r.mv, .list is]

/-- the fixed fields and the match of a record are read from their places; what remains is the instruction loop.
    `e`: the error flag of the match decoder, which FlowStats.UnmarshalBinary hands on but does not act upon -/
theorem flowStats_record_preE (r : FsRec) (e : Bool)
    (hm : ∀ (a b : V) (dm : Slice), dm.WF → ∀ rest, dm.bytes = r.mb ++ rest →
      Match.unmarshalP (.obj "Match" [a, b, .list []]) dm = .ok (r.mv, e))
    (ml : UInt16) (hml : Match.lenM r.mv = .ok (ml, r.mv)) (hmlen : ml.toNat = r.mb.length)
    (hsize : r.size < 65536) (d : Slice) (hdwf : d.WF)
    (rest : Bytes) (hb : d.bytes = r.bytes ++ rest) :
    FlowStats.unmarshalP FlowStats.new d
      = (FlowStats.decodeInstrs d r.size (48 + r.mb.length) [] >>= fun is => pure (r.valWith is, e)) := by
  have hl : d.len = r.size + rest.length := by
    rw [← Sw.bytes_length d hdwf, hb, List.length_append, FsRec.bytes_length]
  have hsz : r.size = 48 + r.mb.length + r.ib.length := rfl
  have hd' : d.bytes = be16 (UInt16.ofNat r.size) ++ ([r.tableId, 0] ++ (be32 r.durationSec ++ (be32 r.durationNsec ++
      (be16 r.priority ++ (be16 r.idleTimeout ++ (be16 r.hardTimeout ++ (be16 r.flags ++ (zeros 4 ++ (be64 r.cookie ++
      (be64 r.packetCount ++ (be64 r.byteCount ++ (r.mb ++ (r.ib ++ rest))))))))))))) := by
    rw [hb]; simp only [FsRec.bytes, List.append_assoc]
  obtain ⟨p, e1, _, _, hp⟩ := Sw.sliceR_at d hdwf 20 24 (by omega) (by omega)
  obtain ⟨dm, e2, hdmwf, _, hdm⟩ := Sw.fromR_at d hdwf 48 (by omega)
  have hlen48 : (UInt16.ofNat r.size).toNat = r.size := Sw.ofNat16_toNat _ hsize
  unfold FlowStats.unmarshalP FlowStats.new
  simp only [Sw.u16From_at d 0 _ _ hd',
    Sw.byteAt_at d 2 r.tableId _ (by rw [hd']; rfl),
    Sw.byteAt_at d 3 0 _ (by rw [hd']; rfl),
    Sw.u32From_at d 4 r.durationSec _ (by rw [hd']; rfl),
    Sw.u32From_at d 8 r.durationNsec _ (by rw [hd']; rfl),
    Sw.u16From_at d 12 r.priority _ (by rw [hd']; rfl),
    Sw.u16From_at d 14 r.idleTimeout _ (by rw [hd']; rfl),
    Sw.u16From_at d 16 r.hardTimeout _ (by rw [hd']; rfl),
    Sw.u16From_at d 18 r.flags _ (by rw [hd']; rfl), e1,
    Sw.u64From_at d 24 r.cookie _ (by rw [hd']; rfl),
    Sw.u64From_at d 32 r.packetCount _ (by rw [hd']; rfl),
    Sw.u64From_at d 40 r.byteCount _ (by rw [hd']; rfl), e2, Res.bind_ok, Match.new,
    hm _ _ dm hdmwf (r.ib ++ rest) (by rw [hdm, hd']; rfl), hml, hmlen, V.u16, hlen48, hp, hd']
  rfl

theorem flowStats_record_pre (r : FsRec) (hmd : MatchDec r.mb r.mv) (hsize : r.size < 65536) (d : Slice) (hdwf : d.WF)
    (rest : Bytes) (hb : d.bytes = r.bytes ++ rest) :
    FlowStats.unmarshalP FlowStats.new d
      = (FlowStats.decodeInstrs d r.size (48 + r.mb.length) [] >>= fun is => pure (r.valWith is, false)) := by
  obtain ⟨hm, ⟨ml, hml, hmlen⟩, _⟩ := hmd
  exact flowStats_record_preE r false hm ml hml hmlen hsize d hdwf rest hb

/-- one flow-stats record, followed by anything, decodes to its values; its `Len()` is its size -/
theorem flowStats_record (r : FsRec) (hok : r.OK) (d : Slice) (hdwf : d.WF) (rest : Bytes) (hb : d.bytes = r.bytes ++ rest) :
    FlowStats.unmarshalP FlowStats.new d = .ok (r.val, false) ∧ anyLenM r.val = .ok (UInt16.ofNat r.size, r.val) := by
  obtain ⟨⟨hm, ⟨ml, hml, hmlen⟩, hmb⟩, ⟨hi, ls, hls, hsum⟩, hsize⟩ := hok
  have hl : d.len = r.size + rest.length := by
    rw [← Sw.bytes_length d hdwf, hb, List.length_append, FsRec.bytes_length]
  have hsz : r.size = 48 + r.mb.length + r.ib.length := rfl
  have hd' : d.bytes = be16 (UInt16.ofNat r.size) ++ ([r.tableId, 0] ++ (be32 r.durationSec ++ (be32 r.durationNsec ++
      (be16 r.priority ++ (be16 r.idleTimeout ++ (be16 r.hardTimeout ++ (be16 r.flags ++ (zeros 4 ++ (be64 r.cookie ++
      (be64 r.packetCount ++ (be64 r.byteCount ++ (r.mb ++ (r.ib ++ rest))))))))))))) := by
    rw [hb]; simp only [FsRec.bytes, List.append_assoc]
  obtain ⟨p, e1, _, _, hp⟩ := Sw.sliceR_at d hdwf 20 24 (by omega) (by omega)
  obtain ⟨dm, e2, hdmwf, _, hdm⟩ := Sw.fromR_at d hdwf 48 (by omega)
  have hdrop : d.bytes.drop (48 + r.mb.length) = r.ib ++ rest := by
    have : d.bytes.drop (48 + r.mb.length) = (d.bytes.drop 48).drop r.mb.length := by rw [List.drop_drop]
    rw [this, hd']
    exact Sw.drop_pre r.mb (r.ib ++ rest) _ rfl
  have hlen48 : (UInt16.ofNat r.size).toNat = r.size := Sw.ofNat16_toNat _ hsize
  have hins : FlowStats.decodeInstrs d r.size (48 + r.mb.length) [] = .ok r.iv := hi d hdwf (48 + r.mb.length) rest hdrop
  constructor
  · unfold FlowStats.unmarshalP FlowStats.new
    simp only [Sw.u16From_at d 0 _ _ hd',
      Sw.byteAt_at d 2 r.tableId _ (by rw [hd']; rfl),
      Sw.byteAt_at d 3 0 _ (by rw [hd']; rfl),
      Sw.u32From_at d 4 r.durationSec _ (by rw [hd']; rfl),
      Sw.u32From_at d 8 r.durationNsec _ (by rw [hd']; rfl),
      Sw.u16From_at d 12 r.priority _ (by rw [hd']; rfl),
      Sw.u16From_at d 14 r.idleTimeout _ (by rw [hd']; rfl),
      Sw.u16From_at d 16 r.hardTimeout _ (by rw [hd']; rfl),
      Sw.u16From_at d 18 r.flags _ (by rw [hd']; rfl), e1,
      Sw.u64From_at d 24 r.cookie _ (by rw [hd']; rfl),
      Sw.u64From_at d 32 r.packetCount _ (by rw [hd']; rfl),
      Sw.u64From_at d 40 r.byteCount _ (by rw [hd']; rfl), e2, Res.bind_ok, Match.new,
      hm _ _ dm hdmwf (r.ib ++ rest) (by rw [hdm, hd']; rfl), hml, hmlen, V.u16, hlen48, hins, hp, hd']
    rfl
  · have hltot : ((48 : UInt16) + ml + sum16 ls) = UInt16.ofNat r.size := by
      apply UInt16.toNat_inj.mp
      rw [hlen48, UInt16.toNat_add, UInt16.toNat_add, hmlen, hsum]
      show ((48 + r.mb.length) % 65536 + r.ib.length) % 65536 = _
      omega
    unfold FsRec.val
    rw [Sw.anyLenM_flowStats]
    unfold FlowStats.lenM
    simp only [hml, hls, Res.bind_ok, hltot]
    rfl

/-- the concatenated records -/
def recsBytes (rs : List FsRec) : Bytes := (rs.map FsRec.bytes).flatten

theorem recsBytes_cons (r : FsRec) (rs : List FsRec) : recsBytes (r :: rs) = r.bytes ++ recsBytes rs := by
  simp [recsBytes]

theorem recsBytes_len_ge (rs : List FsRec) : 48 * rs.length ≤ (recsBytes rs).length := by
  induction rs with
  | nil => simp [recsBytes]
  | cons r rs ih =>
    rw [recsBytes_cons, List.length_append, List.length_cons, FsRec.bytes_length]
    have : r.size = 48 + r.mb.length + r.ib.length := rfl
    omega

/-- the record loop of MultipartReply.UnmarshalBinary over any list of flow-stats records -/
theorem records_loop (s : Slice) (hwf : s.WF) (body : MultipartReply.St → R MultipartReply.St)
    (hbody : ∀ (st : MultipartReply.St) (d : Slice) (r r' : V) (l : UInt16), s.fromR st.n = .ok d →
      FlowStats.unmarshalP FlowStats.new d = .ok (r, false) → anyLenM r = .ok (l, r') → l ≠ 0 →
      body st = .ok { n := st.n + l.toNat, body := st.body ++ [r'], err := false })
    (rs : List FsRec) (h : ∀ r ∈ rs, r.OK) (n : Nat) (acc : List V) (fuel limit : Nat) (hfuel : rs.length < fuel)
    (hb : s.bytes.drop n = recsBytes rs) (hln : limit = n + (recsBytes rs).length) :
    msgLoopW (σ := MultipartReply.St) fuel (fun st => st.n < limit) (·.n) body { n := n, body := acc, err := false }
    = .ok { n := limit, body := acc ++ rs.map FsRec.val, err := false } := by
  induction rs generalizing n acc fuel with
  | nil =>
    obtain ⟨f, rfl⟩ : ∃ f, fuel = f + 1 := ⟨fuel - 1, by simp at hfuel; omega⟩
    simp [recsBytes] at hln
    rw [Sw.msgLoopW_stop _ _ _ _ _ (by simp [hln])]
    simp [hln]
  | cons r rs ih =>
    obtain ⟨f, rfl⟩ : ∃ f, fuel = f + 1 := ⟨fuel - 1, by simp at hfuel; omega⟩
    have hok := h r (by simp)
    rw [recsBytes_cons] at hb hln
    rw [List.length_append, FsRec.bytes_length] at hln
    have hnl : n + (r.bytes ++ recsBytes rs).length = s.len := by
      have := congrArg List.length hb
      rw [List.length_drop, Sw.bytes_length s hwf] at this
      have h48 : 0 < (r.bytes ++ recsBytes rs).length := by
        rw [List.length_append, FsRec.bytes_length]
        have : r.size = 48 + r.mb.length + r.ib.length := rfl
        omega
      omega
    obtain ⟨d, e1, hdwf, _, hd⟩ := Sw.fromR_at s hwf n (by omega)
    rw [hb] at hd
    obtain ⟨hrec, hrlen⟩ := flowStats_record r hok d hdwf (recsBytes rs) hd
    have hl16 : (UInt16.ofNat r.size).toNat = r.size := Sw.ofNat16_toNat _ hok.2.2
    have hsz : r.size = 48 + r.mb.length + r.ib.length := rfl
    have hne : UInt16.ofNat r.size ≠ 0 := by
      intro h0'
      have := congrArg UInt16.toNat h0'
      rw [hl16] at this
      have h00 : (0 : UInt16).toNat = 0 := rfl
      omega
    rw [Sw.msgLoopW_step _ _ _ _ _ ⟨n + r.size, acc ++ [r.val], false⟩
        (by simp; omega)
        (by rw [hbody ⟨n, acc, false⟩ d r.val r.val _ e1 hrec hrlen hne, hl16])
        (by show n < n + r.size; omega)]
    rw [ih (fun q hq => h q (by simp [hq])) (n + r.size) (acc ++ [r.val]) f (by simp at hfuel; omega)
      (by
        rw [← List.drop_drop, hb, ← FsRec.bytes_length]
        simp)
      (by omega)]
    simp

/-- multipart reply of type OFPMP_FLOW (header type 19; multipart type 1, flags, pad 4) carrying ANY list of flow-stats
    records: every record comes back, in order, with its match and instructions -/
theorem flowStats_reply (xid : UInt32) (mpFlags : UInt16) (rs : List FsRec) (h : ∀ r ∈ rs, r.OK)
    (hsize : 16 + (recsBytes rs).length < 65536) (depth : Nat) (s : Slice) (hwf : s.WF)
    (hb : s.bytes = [4, 19] ++ (be16 (UInt16.ofNat (16 + (recsBytes rs).length)) ++ (be32 xid ++ (be16 1 ++ (be16 mpFlags ++
      (zeros 4 ++ recsBytes rs)))))) :
    parse depth s = .ok (.obj "MultipartReply" [.obj "Header" [.num 4, .num 19, .num (16 + (recsBytes rs).length),
      .num xid.toNat], .num 1, .num mpFlags.toNat, .bytes [], .list (rs.map FsRec.val)]) := by
  obtain ⟨k, hk⟩ := Sw.parse_step depth s
  have hge := recsBytes_len_ge rs
  have hdrop : s.bytes.drop 16 = recsBytes rs := by rw [hb]; rfl
  rw [hk, Sw.step_multipartReply _ s (Sw.byteAt_at s 1 19 _ (by rw [hb]; rfl))]
  unfold MultipartReply.unmarshalWith MultipartReply.zero msgTryU
  simp only [Sw.header_at _ s hwf 4 19 _ xid _ hb, Res.bind_ok,
    Sw.u16From_at s 8 1 _ (by rw [hb]; rfl),
    Sw.u16From_at s 10 mpFlags _ (by rw [hb]; rfl), Header.length, Sw.ofNat16_toNat _ hsize]
  rw [records_loop s hwf _
    (by
      intro st d r r' l h1 h2 h3 h4
      have hty : MultipartReply.decodeRecord (1 : UInt16).toNat d = FlowStats.unmarshalP FlowStats.new d := rfl
      simp only [h1, Res.bind_ok, hty, h2, h3, if_neg h4]
      rfl)
    rs h 16 [] _ _ (by omega) hdrop rfl]
  rfl

/-- a multipart flow-stats reply with one record whose match decodes but whose instruction loop panics: Parse recovers the
    panic and returns an error for the whole message -/
theorem flowStats_reply_instr_panic (xid : UInt32) (mpFlags : UInt16) (r : FsRec) (hmd : MatchDec r.mb r.mv)
    (hsize : 16 + r.size < 65536)
    (hpanic : ∀ d : Slice, d.WF → d.bytes.drop (48 + r.mb.length) = r.ib →
      FlowStats.decodeInstrs d r.size (48 + r.mb.length) [] = .panic)
    (depth : Nat) (s : Slice) (hwf : s.WF)
    (hb : s.bytes = [4, 19] ++ (be16 (UInt16.ofNat (16 + r.size)) ++ (be32 xid ++ (be16 1 ++ (be16 mpFlags ++
      (zeros 4 ++ r.bytes)))))) :
    parse depth s = .err := by
  obtain ⟨k, hk⟩ := Sw.parse_step depth s
  have hl : s.len = 16 + r.size := by
    rw [← Sw.bytes_length s hwf, hb]; simp [FsRec.bytes_length]; omega
  have hsz : r.size = 48 + r.mb.length + r.ib.length := rfl
  obtain ⟨d, h1, hdwf, hdl, hd⟩ := Sw.fromR_at s hwf 16 (by omega)
  rw [hb] at hd
  have hd' : d.bytes = r.bytes ++ [] := by rw [hd, List.append_nil]; rfl
  have hdrop : d.bytes.drop (48 + r.mb.length) = r.ib := by
    rw [hd', List.append_nil, ← List.drop_drop]
    unfold FsRec.bytes
    show List.drop r.mb.length (r.mb ++ r.ib) = _
    simp
  have hrec : MultipartReply.decodeRecord (1 : UInt16).toNat d = .panic := by
    show FlowStats.unmarshalP FlowStats.new d = _
    rw [flowStats_record_pre r hmd (by omega) d hdwf [] hd', hpanic d hdwf hdrop]
    rfl
  rw [hk, Sw.step_multipartReply _ s (Sw.byteAt_at s 1 19 _ (by rw [hb]; rfl))]
  unfold MultipartReply.unmarshalWith MultipartReply.zero msgTryU
  simp only [Sw.header_at _ s hwf 4 19 _ xid _ hb, Res.bind_ok,
    Sw.u16From_at s 8 1 _ (by rw [hb]; rfl),
    Sw.u16From_at s 10 mpFlags _ (by rw [hb]; rfl), Header.length, Sw.ofNat16_toNat _ hsize]
  rw [Sw.msgLoopW_panic _ _ _ _ _ (by simp; omega) (by simp only [h1, Res.bind_ok, hrec]; rfl)]
  rfl

theorem msgLoopW_err {σ} (f : Nat) (cond : σ → Bool) (cursor : σ → Nat) (body : σ → R σ) (s : σ)
    (hc : cond s = true) (hb : body s = .err) : msgLoopW (f + 1) cond cursor body s = .err := by
  unfold msgLoopW
  simp only [hc, if_true, hb]

/-- the record loop over a list of decodable flow-stats records that are FOLLOWED by further bytes (`rest`) inside the
    reply: the loop arrives behind them with their values appended -/
theorem records_prefix (s : Slice) (hwf : s.WF) (body : MultipartReply.St → R MultipartReply.St)
    (hbody : ∀ (st : MultipartReply.St) (d : Slice) (r r' : V) (l : UInt16), s.fromR st.n = .ok d →
      FlowStats.unmarshalP FlowStats.new d = .ok (r, false) → anyLenM r = .ok (l, r') → l ≠ 0 →
      body st = .ok { n := st.n + l.toNat, body := st.body ++ [r'], err := false })
    (rs : List FsRec) (h : ∀ r ∈ rs, r.OK) (n : Nat) (acc : List V) (f limit : Nat) (rest : Bytes)
    (hb : s.bytes.drop n = recsBytes rs ++ rest) (hln : n + (recsBytes rs).length < limit) :
    msgLoopW (σ := MultipartReply.St) (rs.length + f) (fun st => st.n < limit) (·.n) body { n := n, body := acc, err := false }
    = msgLoopW f (fun st => st.n < limit) (·.n) body
        { n := n + (recsBytes rs).length, body := acc ++ rs.map FsRec.val, err := false } := by
  induction rs generalizing n acc with
  | nil => simp [recsBytes]
  | cons r rs ih =>
    have hok := h r (by simp)
    rw [recsBytes_cons, List.append_assoc] at hb
    rw [recsBytes_cons, List.length_append, FsRec.bytes_length] at hln
    have hsz : r.size = 48 + r.mb.length + r.ib.length := rfl
    have hnl : n + (r.bytes ++ (recsBytes rs ++ rest)).length = s.len := by
      have := congrArg List.length hb
      rw [List.length_drop, Sw.bytes_length s hwf] at this
      have h48 : 0 < (r.bytes ++ (recsBytes rs ++ rest)).length := by
        rw [List.length_append, FsRec.bytes_length]
        omega
      omega
    obtain ⟨d, e1, hdwf, _, hd⟩ := Sw.fromR_at s hwf n (by omega)
    rw [hb] at hd
    obtain ⟨hrec, hrlen⟩ := flowStats_record r hok d hdwf (recsBytes rs ++ rest) hd
    have hl16 : (UInt16.ofNat r.size).toNat = r.size := Sw.ofNat16_toNat _ hok.2.2
    have hne : UInt16.ofNat r.size ≠ 0 := by
      intro h0'
      have := congrArg UInt16.toNat h0'
      rw [hl16] at this
      have h00 : (0 : UInt16).toNat = 0 := rfl
      omega
    have hfu : (r :: rs).length + f = (rs.length + f) + 1 := by simp; omega
    rw [hfu, Sw.msgLoopW_step _ _ _ _ _ ⟨n + r.size, acc ++ [r.val], false⟩
        (by simp; omega)
        (by rw [hbody ⟨n, acc, false⟩ d r.val r.val _ e1 hrec hrlen hne, hl16])
        (by show n < n + r.size; omega)]
    rw [ih (fun q hq => h q (by simp [hq])) (n + r.size) (acc ++ [r.val])
      (by
        rw [← List.drop_drop, hb, ← FsRec.bytes_length]
        simp)
      (by omega)]
    rw [recsBytes_cons, List.length_append, FsRec.bytes_length]
    simp [Nat.add_assoc]

/-- a multipart flow-stats reply in which — after ANY list of decodable records — comes a record whose match decoder
    reports an error (`r1.mv` = the fields read up to there, whose `Len()` equals the size of the match on the wire, so
    that the instruction loop still finds the instructions): the record loop returns that error at once, whatever
    follows the record (`tail`), and Parse rejects the reply -/
theorem flowStats_reply_flag_err (xid : UInt32) (mpFlags len : UInt16) (rs : List FsRec) (h : ∀ r ∈ rs, r.OK) (r1 : FsRec)
    (hm1 : ∀ (a b : V) (dm : Slice), dm.WF → ∀ rest, dm.bytes = r1.mb ++ rest →
      Match.unmarshalP (.obj "Match" [a, b, .list []]) dm = .ok (r1.mv, true))
    (ml1 : UInt16) (hml1 : Match.lenM r1.mv = .ok (ml1, r1.mv)) (hmlen1 : ml1.toNat = r1.mb.length)
    (hi1 : InstrsDec r1.ib r1.iv) (hsize1 : r1.size < 65536) (tail : Bytes)
    (hlen : 16 + (recsBytes rs).length < len.toNat) (depth : Nat) (s : Slice) (hwf : s.WF)
    (hb : s.bytes = [4, 19] ++ (be16 len ++ (be32 xid ++ (be16 1 ++ (be16 mpFlags ++
      (zeros 4 ++ (recsBytes rs ++ (r1.bytes ++ tail)))))))) :
    parse depth s = .err := by
  obtain ⟨k, hk⟩ := Sw.parse_step depth s
  have hge := recsBytes_len_ge rs
  have hlt := len.toNat_lt
  have hs1 : r1.size = 48 + r1.mb.length + r1.ib.length := rfl
  have hl : s.len = 16 + ((recsBytes rs).length + (r1.size + tail.length)) := by
    rw [← Sw.bytes_length s hwf, hb]; simp [FsRec.bytes_length]; omega
  have hdrop : s.bytes.drop 16 = recsBytes rs ++ (r1.bytes ++ tail) := by rw [hb]; rfl
  obtain ⟨d1, g1, hd1wf, _, hd1⟩ := Sw.fromR_at s hwf (16 + (recsBytes rs).length) (by omega)
  have hd1' : d1.bytes = r1.bytes ++ tail := by
    rw [hd1, ← List.drop_drop, hdrop]; simp
  obtain ⟨hi1a, ls1, hls1, hsum1⟩ := hi1
  have hdrop1 : d1.bytes.drop (48 + r1.mb.length) = r1.ib ++ tail := by
    rw [hd1', FsRec.drop_match]
  have hrec1 : FlowStats.unmarshalP FlowStats.new d1 = .ok (r1.val, true) := by
    rw [flowStats_record_preE r1 true hm1 ml1 hml1 hmlen1 hsize1 d1 hd1wf tail hd1', hs1, hi1a d1 hd1wf _ _ hdrop1]
    rfl
  have hty : ∀ d, MultipartReply.decodeRecord (1 : UInt16).toNat d = FlowStats.unmarshalP FlowStats.new d := fun _ => rfl
  have hfuel : (65537 : Nat) = rs.length + ((65536 - rs.length) + 1) := by omega
  rw [hk, Sw.step_multipartReply _ s (Sw.byteAt_at s 1 19 _ (by rw [hb]; rfl))]
  unfold MultipartReply.unmarshalWith MultipartReply.zero msgTryU
  simp only [Sw.header_at _ s hwf 4 19 len xid _ hb, Res.bind_ok,
    Sw.u16From_at s 8 1 _ (by rw [hb]; rfl),
    Sw.u16From_at s 10 mpFlags _ (by rw [hb]; rfl), Header.length]
  rw [hfuel, records_prefix s hwf _
    (by
      intro st d r r' l h1 h2 h3 h4
      simp only [h1, Res.bind_ok, hty, h2, h3, if_neg h4]
      rfl)
    rs h 16 [] _ _ (r1.bytes ++ tail) hdrop (by simpa using hlen),
    msgLoopW_err _ _ _ _ _ (by simpa using hlen) (by simp only [g1, Res.bind_ok, hty, hrec1]; rfl)]
  rfl

end OFV.Sw2
