/-
  OFV.Lemmas.RT4f — ErrorMsg.MarshalBinary for EVERY error type (OFV.RT.errorMsg_rt states it together with the Parse half, for
  types other than ET_EXPERIMENTER).  Used by OFV/Props/C05d.lean.
-/
import OFV.Model.All
import OFV.Lemmas.Size
import OFV.Lemmas.RTBasic
import OFV.Lemmas.RTMsg
import OFV.Lemmas.RTMsgMore
namespace OFV.RT4
set_option linter.unusedSimpArgs false
open OFV OFV.Go OFV.Model OFV.RT

theorem errorMsg_enc (ver xid t c : Nat) (d : Bytes) (hd : 12 + d.length < 65536) (ln0 : Nat) :
    ErrorMsg.marshalM (errorMsgV ver ln0 xid t c d) =
      .ok ([n8 ver, n8 Gen.openflow13.Type_Error] ++ be16 (n16 (12 + d.length)) ++ be32 (n32 xid) ++ be16 (n16 t) ++ be16 (n16 c) ++ d,
        errorMsgV ver (12 + d.length) xid t c d) := by
  have hdl : (n16 d.length).toNat = d.length := n16_toNat _ (by omega)
  have hlen : ∀ ln', ErrorMsg.lenM (errorMsgV ver ln' xid t c d) = .ok ((8 : UInt16) + 2 + 2 + n16 d.length, errorMsgV ver ln' xid t c d) := by
    intro ln'
    simp only [errorMsgV, ErrorMsg.lenM, UBuffer.lenM, UBuffer.mk, UBuffer.content, Res.bind_ok, same, Res.pure_eq]
  have hto : ((8 : UInt16) + 2 + 2 + n16 d.length).toNat = 12 + d.length := by
    rw [UInt16.toNat_add, hdl]
    have : ((8 : UInt16) + 2 + 2).toNat = 12 := rfl
    rw [this]; omega
  have hu : V.u16 ((8 : UInt16) + 2 + 2 + n16 d.length) = .num (12 + d.length) := by simp only [V.u16, hto]
  unfold ErrorMsg.marshalM
  rw [hlen]
  simp only [Res.bind_ok]
  rw [hlen]
  simp only [Res.bind_ok, errorMsgV, Header.setLength, hu, Header.bytes, UBuffer.marshalM, UBuffer.mk, UBuffer.content, same, hto]
  have hp : piecesLen [pCopy ([n8 ver, n8 Gen.openflow13.Type_Error] ++ be16 (n16 (12 + d.length)) ++ be32 (n32 xid)), pU16 t, pU16 c,
      pCopy d] = 12 + d.length := by
    simp [piecesLen, pU16, pCopy, Piece.adv]; omega
  have := fill_exact' [pCopy ([n8 ver, n8 Gen.openflow13.Type_Error] ++ be16 (n16 (12 + d.length)) ++ be32 (n32 xid)), pU16 t, pU16 c, pCopy d]
    (by intro p hp; simp at hp; rcases hp with rfl | rfl | rfl | rfl <;> trivial)
  rw [hp] at this
  rw [this]
  simp [piecesBytes, pU16, pCopy, Piece.bytes]

end OFV.RT4
