/-
  OFV.Lemmas.ParseInstr — openflow13/instruction.go, flowmod.go decoders never spin: the action-list loop leaves on a
  decode error or an action of length 0, the instruction loop of FlowMod refuses an instruction of length 0.
-/
import OFV.Lemmas.ParseAction
set_option linter.unusedSimpArgs false
namespace OFV.Model
open OFV OFV.Go InstrAux

theorem catchErr_ns {α} (r : R α) (d : α) (h : NS r) : NS (catchErr r d) := by
  unfold catchErr
  split <;> first | post_leaf | exact absurd rfl h.1

theorem InstrHeader_unmarshal_ns (recv : V) (d : Slice) : NS (InstrHeader.unmarshal recv d) := by
  unfold InstrHeader.unmarshal; post_auto
theorem InstrHeader_unmarshal4_ns (recv : V) (d : Slice) : NS (InstrHeader.unmarshal4 recv d) := by
  unfold InstrHeader.unmarshal4; post_auto [catchErr_ns, InstrHeader_unmarshal_ns]
theorem InstrGotoTable_unmarshal_ns (recv : V) (d : Slice) : NS (InstrGotoTable.unmarshal recv d) := by
  unfold InstrGotoTable.unmarshal; post_auto [InstrHeader_unmarshal4_ns]
theorem InstrWriteMetadata_unmarshal_ns (recv : V) (d : Slice) : NS (InstrWriteMetadata.unmarshal recv d) := by
  unfold InstrWriteMetadata.unmarshal; post_auto [InstrHeader_unmarshal4_ns]
theorem InstrMeter_unmarshal_ns (recv : V) (d : Slice) : NS (InstrMeter.unmarshal recv d) := by
  unfold InstrMeter.unmarshal; post_auto [InstrHeader_unmarshal4_ns]

/-- the action-list loop (InstrActions, Bucket) terminates: a decode error or an action of length 0 leaves it -/
theorem decodeActions_ns (data : Slice) (limit n0 : Nat) (xs0 : List V) : NS (decodeActions data limit n0 xs0) := by
  unfold decodeActions
  refine (goLoop_post _ _ _ (fun _ => True) (data.len + 1) ?_ _ _ trivial ?_).ns
  · intro s _ hc
    simp only [Bool.and_eq_true, Bool.not_eq_true', decide_eq_true_eq] at hc
    apply post_bind (P := fun _ => s.n ≤ data.len) ?_ ?_
    · exact ⟨(ns_fromR _ _).1, fun d hd => (fromR_inv _ _ _ hd).1⟩
    intro d _ hn
    split
    · rename_i act _
      apply post_bind_ns (Action_lenM_ns _); intro p _
      obtain ⟨l, act'⟩ := p
      simp only []
      split
      · apply post_ok; simp [St.cursor, hc.1]; omega
      · rename_i hne
        have : l.toNat ≠ 0 := fun h => hne (UInt16.toNat_inj.mp h)
        apply post_ok; simp [St.cursor, hc.1]; omega
    · apply post_ok; simp [St.cursor, hc.1]; omega
    · exact post_panic
    · exact absurd ‹_› (DecodeAction_ns _ _).1
  · simp [St.cursor]; omega

theorem InstrActions_unmarshalP_ns (recv : V) (d : Slice) : NS (InstrActions.unmarshalP recv d) := by
  unfold InstrActions.unmarshalP; post_auto [InstrHeader_unmarshal4_ns, decodeActions_ns]

theorem DecodeInstr_ns (d : Slice) : NS (DecodeInstr d) := by
  unfold DecodeInstr
  post_auto [catchErr_ns, InstrGotoTable_unmarshal_ns, InstrWriteMetadata_unmarshal_ns, InstrMeter_unmarshal_ns,
    InstrActions_unmarshalP_ns]

theorem Instruction_lenM_ns (v : V) : NS (Instruction.lenM v) := by
  unfold Instruction.lenM
  split <;> first
    | exact post_panic
    | ((first | unfold InstrGotoTable.lenM | unfold InstrWriteMetadata.lenM | unfold InstrActions.lenM | unfold InstrMeter.lenM)
       post_auto [mapM2_ns, Action_lenM_ns])

theorem matchUnmarshalP_ns (recv : V) (d : Slice) : NS (matchUnmarshalP recv d) := Match_unmarshalP_ns _ _

/-- the instruction loop of FlowMod terminates (an instruction of length 0 is refused) -/
theorem FlowMod_unmarshal_ns (recv : V) (data : Slice) : NS (FlowMod.unmarshal recv data) := by
  unfold FlowMod.unmarshal
  split
  · apply post_bind_ns (ns_fromR _ _); intro d0 _
    apply post_bind_ns (catchErr_ns _ _ (Header_unmarshal_ns _ _)); intro p _
    split
    apply post_bind_ns (ns_u64From _ _); intro _ _
    apply post_bind_ns (ns_u64From _ _); intro _ _
    apply post_bind_ns (ns_byteAt _ _); intro _ _
    apply post_bind_ns (ns_byteAt _ _); intro _ _
    apply post_bind_ns (ns_u16From _ _); intro _ _
    apply post_bind_ns (ns_u16From _ _); intro _ _
    apply post_bind_ns (ns_u16From _ _); intro _ _
    apply post_bind_ns (ns_u32From _ _); intro _ _
    apply post_bind_ns (ns_u32From _ _); intro _ _
    apply post_bind_ns (ns_u32From _ _); intro _ _
    apply post_bind_ns (ns_u16From _ _); intro _ _
    apply post_bind_ns (ns_fromR _ _); intro dm _
    apply post_bind_ns (matchUnmarshalP_ns _ _); intro p2 _
    split
    apply post_bind_ns (Match_lenM_ns _); intro p3 _
    split
    simp only []
    apply post_bind_ns
    · refine (goLoop_post _ _ _ (fun _ => True) (data.len + 1) ?_ _ _ trivial ?_).ns
      · intro s _ hc
        simp only [decide_eq_true_eq] at hc
        apply post_bind (P := fun _ => s.n ≤ data.len) ?_ ?_
        · exact ⟨(ns_fromR _ _).1, fun d hd => (fromR_inv _ _ _ hd).1⟩
        intro d _ hn
        apply post_bind_ns (DecodeInstr_ns _); intro i _
        apply post_bind_ns (Instruction_lenM_ns _); intro p _
        obtain ⟨l, i'⟩ := p
        simp only []
        split
        · exact post_err
        · rename_i hne
          have : l.toNat ≠ 0 := fun h => hne (UInt16.toNat_inj.mp h)
          apply post_ok; simp only [true_and]; omega
      · simp only []; omega
    · intro st _; post_auto
  · exact post_panic

theorem FlowRemoved_unmarshal_ns (recv : V) (data : Slice) : NS (FlowRemoved.unmarshal recv data) := by
  unfold FlowRemoved.unmarshal
  post_auto [catchErr_ns, Header_unmarshal_ns, matchUnmarshalP_ns, Match_lenM_ns]

end OFV.Model
