/-
  OFV.Lemmas.ParseSpin — a decoder that is NOT total on its own, outside the reach of Parse (`bundleAdd_spin`):
  `new(BundleAdd).UnmarshalBinary(data)` loops for ever on the 65545-byte input
      bundle id, pad, flags | embedded message: an 8-byte echo request |
      property: type ffff, Length 65529 (fff9), experimenter 1, type 2, 65517 payload bytes (arbitrary)
  because BundlePropertyExperimenter.Len() = (12 + 65517 + 7) / 8 * 8 wraps to 0 in uint16 and the property loop
  `n += int(property.Len())` stops advancing.  Reproduced on the Go library: `dec BundleAdd <hex> 65545 => spin`.
  Parse cannot reach it: the payload of an experimenter message is `data[16:Header.Length]`, at most 65519 bytes
  (that is the hypothesis `data.len ≤ 65528` of `BundleAdd_unmarshalWith_ns`).
  Nothing else depends on this file: when the defect is fixed in the library (and the fix mirrored in the model) this
  file and the theorem of C07 that uses it are to be dropped.
-/
import OFV.Lemmas.ParseFlowStats
set_option linter.unusedSimpArgs false
namespace OFV.Model
open OFV OFV.Go InstrAux

theorem goLoop_stuck {σ} (f : Nat) (cond : σ → Bool) (cursor : σ → Nat) (body : σ → R σ) (s s' : σ)
    (h1 : cond s = true) (h2 : body s = .ok s') (h3 : cursor s' ≤ cursor s) :
    goLoop (f + 1) cond cursor body s = .spin := by
  rw [goLoop, if_pos h1, h2]
  simp only []
  rw [if_pos h3]

/-- bundle id, pad, flags, then an 8-byte echo request as the embedded message -/
def BA16 : Bytes := [0,0,0,1, 0,0, 0,0, 4,2,0,8,0,0,0,1]
/-- a bundle property whose Length field is 65529 -/
def PROP12 : Bytes := [255,255, 255,249, 0,0,0,1, 0,0,0,2]
def bundleFrame (pd : Bytes) : Bytes := BA16 ++ (PROP12 ++ pd)

theorem bundleAdd_spin (pd : Bytes) (hpd : pd.length = 65517) :
    BundleAdd.unmarshal BundleAdd.zero ⟨bundleFrame pd, 65545⟩ = .spin := by
  have r0 : (⟨bundleFrame pd, 65545⟩ : Slice).u32From 0 = .ok 1 := rfl
  have r6 : (⟨bundleFrame pd, 65545⟩ : Slice).u16From 6 = .ok 0 := rfl
  have r10 : (⟨bundleFrame pd, 65545⟩ : Slice).u16From 10 = .ok 8 := rfl
  have hs : (⟨bundleFrame pd, 65545⟩ : Slice).sliceR 8 (8 + (8 : UInt16).toNat)
      = .ok ⟨[4,2,0,8,0,0,0,1] ++ (PROP12 ++ pd), 8⟩ := rfl
  have hparse : parse (65545 + 1) ⟨[4,2,0,8,0,0,0,1] ++ (PROP12 ++ pd), 8⟩
      = .ok (.obj "Header" [.num 4, .num 2, .num 8, .num 1]) := by
    have hmax : ∀ c, ∃ d, max (65545 + 1) (c + 1) = d + 1 := fun c => ⟨max (65545 + 1) (c + 1) - 1, by omega⟩
    obtain ⟨d, hd⟩ := hmax (⟨[4,2,0,8,0,0,0,1] ++ (PROP12 ++ pd), 8⟩ : Slice).cap
    unfold parse
    rw [hd]
    rfl
  have f16 : (⟨bundleFrame pd, 65545⟩ : Slice).fromR 16 = .ok ⟨PROP12 ++ pd, 65529⟩ := rfl
  have hsl : (⟨PROP12 ++ pd, 65529⟩ : Slice).sliceR 12 (65529 : UInt16).toNat
      = .ok ⟨(PROP12 ++ pd).drop 12, (65529 : UInt16).toNat - 12⟩ :=
    Slice.sliceR_ok _ _ _ (by decide) (by simp [PROP12, hpd])
  have hprop : ∃ pr, BundlePropertyExperimenter.unmarshal BundlePropertyExperimenter.zero ⟨PROP12 ++ pd, 65529⟩ = .ok pr
      ∧ BundlePropertyExperimenter.len pr = .ok 0 := by
    refine ⟨.obj "BundlePropertyExperimenter" [.num 65535, .num 65529, .num 1, .num 2,
      .bytes (makeCopy ((65529 : UInt16).toNat - 12) (⟨(PROP12 ++ pd).drop 12, (65529 : UInt16).toNat - 12⟩ : Slice).bytes)], ?_, ?_⟩
    · have q0 : (⟨PROP12 ++ pd, 65529⟩ : Slice).u16From 0 = .ok 65535 := rfl
      have q2 : (⟨PROP12 ++ pd, 65529⟩ : Slice).u16From 2 = .ok 65529 := rfl
      have q4 : (⟨PROP12 ++ pd, 65529⟩ : Slice).u32From 4 = .ok 1 := rfl
      have q8 : (⟨PROP12 ++ pd, 65529⟩ : Slice).u32From 8 = .ok 2 := rfl
      unfold BundlePropertyExperimenter.unmarshal
      rw [if_neg (by simp [show (65529 : UInt16).toNat = 65529 from rfl, show (8 : UInt16).toNat = 8 from rfl])]
      simp only [q0, q2, q4, q8, Res.bind_ok]
      rw [if_neg (by simp [show (65529 : UInt16).toNat = 65529 from rfl, show (8 : UInt16).toNat = 8 from rfl]), hsl]
      rfl
    · simp only [BundlePropertyExperimenter.len, makeCopy_length']
      rfl
  obtain ⟨pr, hpr, hlen⟩ := hprop
  unfold BundleAdd.unmarshal
  simp only [BundleAdd.unmarshalWith, BundleAdd.zero]
  rw [if_neg (by simp [show (65529 : UInt16).toNat = 65529 from rfl, show (8 : UInt16).toNat = 8 from rfl])]
  simp only [r0, r6, r10, Res.bind_ok]
  rw [if_neg (by simp [show (65529 : UInt16).toNat = 65529 from rfl, show (8 : UInt16).toNat = 8 from rfl])]
  simp only [hs, Res.bind_ok, hparse]
  rw [if_neg (by decide), if_pos (by simp [show (65529 : UInt16).toNat = 65529 from rfl, show (8 : UInt16).toNat = 8 from rfl])]
  show (goLoop (65545 + 1) _ _ _ _ >>= _) = _
  rw [goLoop_stuck (σ := BundleAdd.St) 65545 _ _ _ _ ({ n := 16, ps := [pr] } : BundleAdd.St) (by rfl) ?b (by exact Nat.le_refl _)]
  · rfl
  case b =>
    rw [show (8 + (8 : UInt16).toNat + 7) / 8 * 8 = 16 from rfl]
    simp only [f16, Res.bind_ok, hpr, hlen]
    rfl

end OFV.Model
