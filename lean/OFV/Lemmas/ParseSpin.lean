/-
  OFV.Lemmas.ParseSpin — COUNTEREXAMPLE to the total-ness of Parse (`FlowStats_spin`): a multipart FlowStats reply of
  the legal maximum size (65535 bytes) in a buffer with at least 67 bytes of spare capacity on which `Parse` loops
  for ever.  The frame (`frame2 nb tail`, any 65222 note bytes `nb`, any `tail` of at least 256 bytes):
      header 04 13 ffff xid | multipart type 1 (flow) | FlowStats record: Length ffff, empty match (00 01 00 04) |
      instruction apply-actions, length ffff |
      action 1: NX note, length 65232 | action 2: NX learn, stored length 40, one spec `37 ff` (match from a 2047-bit
      value, output) whose 256 value bytes `data[2:258]` lie beyond len(data) but inside the capacity.
  `Len()` of the learn action is recomputed from its spec: 296; the cursor of the action loop ends at 65536;
  InstrActions.Len() = 8 + 65232 + 296 = 65536 wraps to 0; `n += int(instr.Len())` in FlowStats.UnmarshalBinary
  never advances.  Reproduced on the Go library: `parse <frame + 67 spare bytes> 65535 => spin` (66 spare: err).
  Nothing else depends on this file: when the defect is fixed in the library (and the fix mirrored in the model) this
  file and the theorems of C07 that use it are to be dropped.
-/
import OFV.Lemmas.ParseFlowStats
set_option linter.unusedSimpArgs false
namespace OFV.Model
open OFV OFV.Go InstrAux

def P80 : Bytes := [4,19,255,255,0,0,0,0, 0,1,0,0,0,0,0,0, 255,255] ++ zeros 46 ++ [0,1,0,4,0,0,0,0, 0,4,255,255,0,0,0,0]
def NOTE10 : Bytes := [255,255,254,208,0,0,35,32,0,8]
def LEARN34 : Bytes := [255,255,0,40,0,0,35,32,0,16] ++ zeros 22 ++ [0x37, 0xff]
def frame2 (nb tail : Bytes) : Bytes := P80 ++ (NOTE10 ++ (nb ++ (LEARN34 ++ tail)))

def noteHdr : V := .obj "NXActionHeader" [.obj "ActionHeader" [.num 65535, .num 65232], .num 8992, .num 8]

/-- the note action (65232 bytes) at the head of the action list decodes, and reports its stored length -/
theorem note_dec (nb rest : Bytes) (hnb : nb.length = 65222) (k : Nat) :
    ∃ v, DecodeAction (k + 1) ⟨NOTE10 ++ (nb ++ rest), 65455⟩ = .ok v ∧ Action.lenM v = .ok (65232, v) := by
  have hnew : newActionFor ⟨NOTE10 ++ (nb ++ rest), 65455⟩ = .ok NXActionNote.zero := rfl
  have hhdr : NXActionHeader.unmarshal NXActionHeader.zero ⟨NOTE10 ++ (nb ++ rest), 65455⟩ = .ok noteHdr := rfl
  have hlen : NXActionHeader.length noteHdr = .ok 65232 := rfl
  have hsl : (⟨NOTE10 ++ (nb ++ rest), 65455⟩ : Slice).sliceR 10 (65232 : UInt16).toNat
      = .ok ⟨(NOTE10 ++ (nb ++ rest)).drop 10, (65232 : UInt16).toNat - 10⟩ :=
    Slice.sliceR_ok _ _ _ (by decide) (by simp [NOTE10, hnb])
  refine ⟨.obj "NXActionNote" [noteHdr, .bytes (makeCopy ((65232 : UInt16) - 10).toNat
    (⟨(NOTE10 ++ (nb ++ rest)).drop 10, (65232 : UInt16).toNat - 10⟩ : Slice).bytes)], ?_, ?_⟩
  · unfold DecodeAction
    simp only [hnew, Res.bind_ok]
    rw [if_neg (by decide)]
    show NXActionNote.unmarshal NXActionNote.zero ⟨NOTE10 ++ (nb ++ rest), 65455⟩ = _
    unfold NXActionNote.unmarshal
    simp only [hhdr, Res.bind_ok, hlen]
    rw [if_neg (by decide), hsl]
    rfl
  · rw [Action_lenM_Note]
    simp only [NXActionNote.lenM, same, makeCopy_length']
    rfl


def specHdr : V := .obj "NXLearnSpecHeader" [.num 1, .num 0, .num 1, .num 2047, .num 2]

/-- the learn spec `37 ff` (match from a 2047-bit value, output): its 256 value bytes are taken through the capacity -/
theorem spec_dec (tail : Bytes) (ht : 256 ≤ tail.length) :
    ∃ spec, NXLearnSpec.unmarshal NXLearnSpec.zero ⟨[0x37, 0xff] ++ tail, 191⟩ = .ok spec ∧ NXLearnSpec.len spec = .ok 258 := by
  have hh : NXLearnSpecHeader.unmarshal NXLearnSpecHeader.zero ⟨[0x37, 0xff] ++ tail, 191⟩ = .ok specHdr := rfl
  have hk : (NXLearnSpec.srcLen 2047).toNat = 256 := rfl
  have hsl : (⟨[0x37, 0xff] ++ tail, 191⟩ : Slice).sliceR 2 (2 + (NXLearnSpec.srcLen 2047).toNat)
      = .ok ⟨([0x37, 0xff] ++ tail).drop 2, 2 + (NXLearnSpec.srcLen 2047).toNat - 2⟩ :=
    Slice.sliceR_ok _ _ _ (by omega) (by simp [hk]; omega)
  refine ⟨.obj "NXLearnSpec" [specHdr, .nil, .nil, .bytes (makeCopy (NXLearnSpec.srcLen 2047).toNat
    (⟨([0x37, 0xff] ++ tail).drop 2, 2 + (NXLearnSpec.srcLen 2047).toNat - 2⟩ : Slice).bytes)], ?_, rfl⟩
  simp only [NXLearnSpec.unmarshal, NXLearnSpec.zero, hh, Res.bind_ok, specHdr]
  simp only [hsl, Res.bind_ok]
  rfl


def learnHdr : V := .obj "NXActionHeader" [.obj "ActionHeader" [.num 65535, .num 40], .num 8992, .num 16]

/-- the learn action (stored length 40, one spec) decodes, and `Len()` recomputes its size from the spec: 296 -/
theorem learn_dec (tail : Bytes) (ht : 256 ≤ tail.length) (k : Nat) :
    ∃ v, DecodeAction (k + 1) ⟨LEARN34 ++ tail, 223⟩ = .ok v ∧ Action.lenM v = .ok (296, v) := by
  obtain ⟨spec, hspec, hslen⟩ := spec_dec tail ht
  have hnew : newActionFor ⟨LEARN34 ++ tail, 223⟩ = .ok NXActionLearn.zero := rfl
  have hhdr : NXActionHeader.unmarshal NXActionHeader.zero ⟨LEARN34 ++ tail, 223⟩ = .ok learnHdr := rfl
  have hlen : NXActionHeader.length learnHdr = .ok 40 := rfl
  have r10 : (⟨LEARN34 ++ tail, 223⟩ : Slice).u16From 10 = .ok 0 := rfl
  have r12 : (⟨LEARN34 ++ tail, 223⟩ : Slice).u16From 12 = .ok 0 := rfl
  have r14 : (⟨LEARN34 ++ tail, 223⟩ : Slice).u16From 14 = .ok 0 := rfl
  have r16 : (⟨LEARN34 ++ tail, 223⟩ : Slice).u64From 16 = .ok 0 := rfl
  have r24 : (⟨LEARN34 ++ tail, 223⟩ : Slice).u16From 24 = .ok 0 := rfl
  have r26 : (⟨LEARN34 ++ tail, 223⟩ : Slice).byteAt 26 = .ok 0 := rfl
  have r28 : (⟨LEARN34 ++ tail, 223⟩ : Slice).u16From 28 = .ok 0 := rfl
  have r30 : (⟨LEARN34 ++ tail, 223⟩ : Slice).u16From 30 = .ok 0 := rfl
  have hfrom : (⟨LEARN34 ++ tail, 223⟩ : Slice).fromR 32 = .ok ⟨[0x37, 0xff] ++ tail, 191⟩ := rfl
  refine ⟨.obj "NXActionLearn" [learnHdr, .num 0, .num 0, .num 0, .num 0, .num 0, .num 0, .num 0, .num 0, .num 0,
    .list [spec], .bytes []], ?_, ?_⟩
  · unfold DecodeAction
    simp only [hnew, Res.bind_ok]
    rw [if_neg (by decide)]
    show NXActionLearn.unmarshal NXActionLearn.zero ⟨LEARN34 ++ tail, 223⟩ = _
    simp only [NXActionLearn.unmarshal, NXActionLearn.zero, hhdr, Res.bind_ok, hlen]
    rw [if_neg (by decide)]
    simp only [r10, r12, r14, r16, r24, r26, r28, r30, Res.bind_ok]
    show (goLoop (65535 + 1) _ _ _ _ >>= _) = _
    unfold goLoop
    rw [if_pos (by decide)]
    simp only [hfrom, Res.bind_ok, hspec, hslen, Res.pure_eq]
    rw [if_neg (by decide)]
    unfold goLoop
    rw [if_neg (by simp [show (258 : UInt16).toNat = 258 from rfl, show (40 : UInt16).toNat = 40 from rfl])]
    rfl
  · rw [Action_lenM_Learn]
    simp only [NXActionLearn.lenM, NXActionLearn.len, NXActionLearn.specsLen, hslen, Res.bind_ok, Res.pure_eq, same]
    rfl


def Ibuf (nb tail : Bytes) : Bytes := [0,4,255,255,0,0,0,0] ++ (NOTE10 ++ (nb ++ (LEARN34 ++ tail)))

theorem Ibuf_drop (nb tail : Bytes) (hnb : nb.length = 65222) : (Ibuf nb tail).drop 65240 = LEARN34 ++ tail := by
  have : Ibuf nb tail = ([0,4,255,255,0,0,0,0] ++ NOTE10 ++ nb) ++ (LEARN34 ++ tail) := by
    simp [Ibuf, List.append_assoc]
  rw [this]
  have hl : ([0,4,255,255,0,0,0,0] ++ NOTE10 ++ nb : Bytes).length = 65240 := by simp [NOTE10, hnb]
  rw [← hl, List.drop_left']
  rfl

theorem goLoop_step {σ} (f : Nat) (cond : σ → Bool) (cursor : σ → Nat) (body : σ → R σ) (s s' : σ)
    (h1 : cond s = true) (h2 : body s = .ok s') (h3 : cursor s < cursor s') :
    goLoop (f + 1) cond cursor body s = goLoop f cond cursor body s' := by
  rw [goLoop, if_pos h1, h2]
  simp only []
  rw [if_neg (by omega)]

theorem goLoop_done {σ} (f : Nat) (cond : σ → Bool) (cursor : σ → Nat) (body : σ → R σ) (s : σ)
    (h1 : cond s = false) : goLoop (f + 1) cond cursor body s = .ok s := by
  rw [goLoop, if_neg (by simp [h1])]

theorem goLoop_stuck {σ} (f : Nat) (cond : σ → Bool) (cursor : σ → Nat) (body : σ → R σ) (s s' : σ)
    (h1 : cond s = true) (h2 : body s = .ok s') (h3 : cursor s' ≤ cursor s) :
    goLoop (f + 1) cond cursor body s = .spin := by
  rw [goLoop, if_pos h1, h2]
  simp only []
  rw [if_pos h3]

/-- the action list of the instruction: a note of 65232 bytes and a learn action reporting 296 bytes — 65528 in all,
    the cursor ends at 65536 -/
theorem actions_dec (nb tail : Bytes) (hnb : nb.length = 65222) (ht : 256 ≤ tail.length) :
    ∃ a1 a2, decodeActions ⟨Ibuf nb tail, 65463⟩ 65535 8 [] = .ok { n := 65536, xs := [a1, a2], err := false }
      ∧ Action.lenM a1 = .ok (65232, a1) ∧ Action.lenM a2 = .ok (296, a2) := by
  obtain ⟨a1, h1, hl1⟩ := note_dec nb (LEARN34 ++ tail) hnb 65455
  obtain ⟨a2, h2, hl2⟩ := learn_dec tail ht 223
  refine ⟨a1, a2, ?_, hl1, hl2⟩
  have f8 : (⟨Ibuf nb tail, 65463⟩ : Slice).fromR 8 = .ok ⟨NOTE10 ++ (nb ++ (LEARN34 ++ tail)), 65455⟩ := rfl
  have f2 : (⟨Ibuf nb tail, 65463⟩ : Slice).fromR 65240 = .ok ⟨LEARN34 ++ tail, 223⟩ := by
    rw [Slice.fromR_ok _ _ (by simp)]
    simp only [Ibuf_drop nb tail hnb]
  unfold decodeActions
  show goLoop (65464 + 1) _ _ _ _ = _
  rw [goLoop_step 65464 _ _ _ _ { n := 65240, xs := [a1], err := false } rfl ?b1 (by simp [St.cursor])]
  case b1 =>
    simp only [f8, Res.bind_ok, h1, hl1]
    rfl
  show goLoop (65463 + 1) _ _ _ _ = _
  rw [goLoop_step 65463 _ _ _ _ { n := 65536, xs := [a1, a2], err := false } rfl ?b2 (by simp [St.cursor])]
  case b2 =>
    simp only [f2, Res.bind_ok, h2, hl2]
    rfl
  exact goLoop_done _ _ _ _ _ rfl


/-- the apply-actions instruction decodes, and its `Len()` = 8 + 65232 + 296 wraps to 0 -/
theorem instr_dec (nb tail : Bytes) (hnb : nb.length = 65222) (ht : 256 ≤ tail.length) :
    ∃ i, DecodeInstr ⟨Ibuf nb tail, 65463⟩ = .ok i ∧ Instruction.lenM i = .ok (0, i) := by
  obtain ⟨a1, a2, hdec, hl1, hl2⟩ := actions_dec nb tail hnb ht
  have h4 : InstrHeader.unmarshal4 InstrHeader.zero ⟨Ibuf nb tail, 65463⟩ = .ok (.obj "InstrHeader" [.num 4, .num 65535]) := rfl
  have ht16 : (⟨Ibuf nb tail, 65463⟩ : Slice).u16In 0 2 = .ok 4 := rfl
  refine ⟨.obj "InstrActions" [.obj "InstrHeader" [.num 4, .num 65535], .bytes [], .list [a1, a2]], ?_, ?_⟩
  · unfold DecodeInstr
    simp only [ht16, Res.bind_ok]
    rw [if_neg (by decide), if_neg (by decide), if_pos (by decide)]
    simp only [InstrActions.unmarshalP, InstrActions.zero, h4, Res.bind_ok]
    have : InstrHeader.length (.obj "InstrHeader" [.num 4, .num 65535]) = 65535 := rfl
    rw [this, hdec]
    rfl
  · rw [Instruction_lenM_InstrActions]
    simp only [InstrActions.lenM, mapM2, hl1, hl2, Res.bind_ok, Res.pure_eq]
    rfl


def Rbuf (nb tail : Bytes) : Bytes := [255,255] ++ zeros 46 ++ [0,1,0,4,0,0,0,0] ++ Ibuf nb tail

/-- the instruction loop of the FlowStats record never advances -/
theorem instrs_spin (nb tail : Bytes) (hnb : nb.length = 65222) (ht : 256 ≤ tail.length) (is0 : List V) :
    FlowStats.decodeInstrs ⟨Rbuf nb tail, 65519⟩ 65535 56 is0 = .spin := by
  obtain ⟨i, hi, hli⟩ := instr_dec nb tail hnb ht
  have f56 : (⟨Rbuf nb tail, 65519⟩ : Slice).fromR 56 = .ok ⟨Ibuf nb tail, 65463⟩ := rfl
  unfold FlowStats.decodeInstrs
  rw [show ({ buf := Rbuf nb tail, len := 65519 } : Slice).len = 65519 from rfl]
  show (goLoop (131054 + 1) _ _ _ _ >>= _) = _
  rw [goLoop_stuck (σ := FlowStats.ISt) 131054 _ _ _ _ ({ n := 56, is := is0 ++ [i] } : FlowStats.ISt) (by rfl) ?b (by exact Nat.le_refl _)]
  · rfl
  case b =>
    simp only [f56, Res.bind_ok, hi, hli]
    rfl

theorem record_spin (nb tail : Bytes) (hnb : nb.length = 65222) (ht : 256 ≤ tail.length) :
    FlowStats.unmarshalP FlowStats.new ⟨Rbuf nb tail, 65519⟩ = .spin := by
  have hm : Match.unmarshalP Match.new ⟨[0,1,0,4,0,0,0,0] ++ Ibuf nb tail, 65471⟩
      = .ok (.obj "Match" [.num 1, .num 4, .list []], false) := rfl
  have hml : Match.lenM (.obj "Match" [.num 1, .num 4, .list []]) = .ok (8, .obj "Match" [.num 1, .num 4, .list []]) := rfl
  have r0 : (⟨Rbuf nb tail, 65519⟩ : Slice).u16From 0 = .ok 65535 := rfl
  have r2 : (⟨Rbuf nb tail, 65519⟩ : Slice).byteAt 2 = .ok 0 := rfl
  have r3 : (⟨Rbuf nb tail, 65519⟩ : Slice).byteAt 3 = .ok 0 := rfl
  have r4 : (⟨Rbuf nb tail, 65519⟩ : Slice).u32From 4 = .ok 0 := rfl
  have r8 : (⟨Rbuf nb tail, 65519⟩ : Slice).u32From 8 = .ok 0 := rfl
  have r12 : (⟨Rbuf nb tail, 65519⟩ : Slice).u16From 12 = .ok 0 := rfl
  have r14 : (⟨Rbuf nb tail, 65519⟩ : Slice).u16From 14 = .ok 0 := rfl
  have r16 : (⟨Rbuf nb tail, 65519⟩ : Slice).u16From 16 = .ok 0 := rfl
  have r18 : (⟨Rbuf nb tail, 65519⟩ : Slice).u16From 18 = .ok 0 := rfl
  have r20 : (⟨Rbuf nb tail, 65519⟩ : Slice).sliceR 20 24 = .ok ⟨(Rbuf nb tail).drop 20, 4⟩ := rfl
  have r24 : (⟨Rbuf nb tail, 65519⟩ : Slice).u64From 24 = .ok 0 := rfl
  have r32 : (⟨Rbuf nb tail, 65519⟩ : Slice).u64From 32 = .ok 0 := rfl
  have r40 : (⟨Rbuf nb tail, 65519⟩ : Slice).u64From 40 = .ok 0 := rfl
  have r48 : (⟨Rbuf nb tail, 65519⟩ : Slice).fromR 48 = .ok ⟨[0,1,0,4,0,0,0,0] ++ Ibuf nb tail, 65471⟩ := rfl
  simp only [FlowStats.unmarshalP, FlowStats.new, r0, r2, r3, r4, r8, r12, r14, r16, r18, r20, r24, r32, r40, r48,
    Res.bind_ok, hm, hml]
  have : FlowStats.decodeInstrs ⟨Rbuf nb tail, 65519⟩ (65535 : UInt16).toNat (48 + (8 : UInt16).toNat) []
      = .spin := instrs_spin nb tail hnb ht []
  rw [this]
  rfl


theorem msgLoopW_body_spin {σ} (f : Nat) (cond : σ → Bool) (cursor : σ → Nat) (body : σ → R σ) (s : σ)
    (h1 : cond s = true) (h2 : body s = .spin) : msgLoopW (f + 1) cond cursor body s = .spin := by
  rw [msgLoopW, if_pos h1, h2]

/-- COUNTEREXAMPLE (genuine defect).  A multipart FlowStats reply of the legal maximum size, 65535 bytes, in a buffer
    with at least 67 bytes of spare capacity makes Parse loop for ever. -/
theorem FlowStats_spin (nb tail : Bytes) (hnb : nb.length = 65222) (ht : 256 ≤ tail.length) (depth : Nat) :
    parse depth ⟨frame2 nb tail, 65535⟩ = .spin := by
  have hmax : ∀ c, ∃ d, max depth (c + 1) = d + 1 := fun c => ⟨max depth (c + 1) - 1, by omega⟩
  obtain ⟨d, hd⟩ := hmax (⟨frame2 nb tail, 65535⟩ : Slice).cap
  unfold parse
  rw [hd]
  unfold parseD parseStep
  have hb1 : (⟨frame2 nb tail, 65535⟩ : Slice).byteAt 1 = .ok 19 := rfl
  simp only [hb1, Res.bind_ok]
  have ht19 : (19 : UInt8).toNat = 19 := rfl
  simp only [ht19]
  suffices h : MultipartReply.unmarshalWith anyLenM MultipartReply.zero ⟨frame2 nb tail, 65535⟩ = .spin by
    simp (config := { decide := true }) only [Gen.openflow13.Type_Hello, Gen.openflow13.Type_Error,
      Gen.openflow13.Type_EchoRequest, Gen.openflow13.Type_EchoReply, Gen.openflow13.Type_GetConfigRequest,
      Gen.openflow13.Type_BarrierRequest, Gen.openflow13.Type_BarrierReply, Gen.openflow13.Type_Experimenter,
      Gen.openflow13.Type_FeaturesRequest, Gen.openflow13.Type_FeaturesReply, Gen.openflow13.Type_GetConfigReply,
      Gen.openflow13.Type_SetConfig, Gen.openflow13.Type_PacketIn, Gen.openflow13.Type_FlowRemoved,
      Gen.openflow13.Type_PortStatus, Gen.openflow13.Type_FlowMod, Gen.openflow13.Type_PacketOut,
      Gen.openflow13.Type_GroupMod, Gen.openflow13.Type_PortMod, Gen.openflow13.Type_TableMod,
      Gen.openflow13.Type_QueueGetConfigRequest, Gen.openflow13.Type_QueueGetConfigReply,
      Gen.openflow13.Type_MultiPartRequest, Gen.openflow13.Type_MultiPartReply, if_true, if_false, or_self, h]
    rfl
  have hh : msgTryU Header.unmarshal Header.zero ⟨frame2 nb tail, 65535⟩
      = .ok (.obj "Header" [.num 4, .num 19, .num 65535, .num 0], false) := rfl
  have r8 : (⟨frame2 nb tail, 65535⟩ : Slice).u16From 8 = .ok 1 := rfl
  have r10 : (⟨frame2 nb tail, 65535⟩ : Slice).u16From 10 = .ok 0 := rfl
  have f16 : (⟨frame2 nb tail, 65535⟩ : Slice).fromR 16 = .ok ⟨Rbuf nb tail, 65519⟩ := rfl
  have hrec : MultipartReply.decodeRecord (1 : UInt16).toNat ⟨Rbuf nb tail, 65519⟩ = .spin := by
    have : MultipartReply.decodeRecord (1 : UInt16).toNat ⟨Rbuf nb tail, 65519⟩
        = FlowStats.unmarshalP FlowStats.new ⟨Rbuf nb tail, 65519⟩ := rfl
    rw [this, record_spin nb tail hnb ht]
  simp only [MultipartReply.unmarshalWith, MultipartReply.zero, hh, Res.bind_ok, r8, r10]
  show (msgLoopW (65536 + 1) _ _ _ _ >>= _) = _
  rw [msgLoopW_body_spin 65536 _ _ _ _ (by rfl) ?b]
  · rfl
  case b =>
    simp only [f16, Res.bind_ok, hrec]
    rfl

end OFV.Model
