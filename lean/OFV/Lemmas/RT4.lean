/-
  OFV.Lemmas.RT4 — round-trip lemmas for the kinds C05 / C05b / C05c left open: VendorError through Parse, the multipart request
  bodies (PortStatsRequest, QueueStatsRequest, FlowStatsRequest / AggregateStatsRequest) through their own decoders, and the
  four 16-byte Nicira actions of C05 §4 as `ActionRT` facts (so that they can be elements of action lists).
  Used by OFV/Props/C05d.lean.
-/
import OFV.Model.All
import OFV.Lemmas.Size
import OFV.Lemmas.RTBasic
import OFV.Lemmas.RTMsg
import OFV.Lemmas.RTMatch
import OFV.Lemmas.RTMsgMore
import OFV.Lemmas.RTList
import OFV.Lemmas.RTNx
import OFV.Lemmas.RT2Nx
namespace OFV.RT4
set_option linter.unusedSimpArgs false
open OFV OFV.Go OFV.Model OFV.RT OFV.RT2

def vendorErrorV (ver ln xid t c x : Nat) (d : Bytes) : V :=
  .obj "VendorError" [.obj "ErrorMsg" [.obj "Header" [.num ver, .num Gen.openflow13.Type_Error, .num ln, .num xid], .num t, .num c,
    UBuffer.mk d], .num x]

theorem vendorError_rt (ver xid c x : Nat) (d : Bytes) (hver : ver < 256) (hxid : xid < 4294967296)
    (hc : c < 65536) (hx : x < 4294967296) (hd : 16 + d.length < 65536) :
    let t := Gen.openflow13.ET_EXPERIMENTER
    let bs := [n8 ver, n8 Gen.openflow13.Type_Error] ++ be16 (n16 (16 + d.length)) ++ be32 (n32 xid) ++ be16 (n16 t) ++ be16 (n16 c)
      ++ be32 (n32 x) ++ d
    (∀ ln0, VendorError.marshalM (vendorErrorV ver ln0 xid t c x d) = .ok (bs, vendorErrorV ver (16 + d.length) xid t c x d)) ∧
    ∀ (depth : Nat) (data : Slice) (tail : Bytes), data.WF → data.bytes = bs ++ tail →
      parse depth data = .ok (vendorErrorV ver (16 + d.length) xid t c x (d ++ tail)) := by
  intro t bs
  have hdl : (n16 d.length).toNat = d.length := n16_toNat _ (by omega)
  refine ⟨?_, ?_⟩
  · intro ln0
    have hlen : ∀ ln', VendorError.lenM (vendorErrorV ver ln' xid t c x d) = .ok ((8 : UInt16) + 2 + 2 + n16 d.length + 4, vendorErrorV ver ln' xid t c x d) := by
      intro ln'
      simp only [vendorErrorV, VendorError.lenM, ErrorMsg.lenM, UBuffer.lenM, UBuffer.mk, UBuffer.content, Res.bind_ok, same, Res.pure_eq]
    have hto : ((8 : UInt16) + 2 + 2 + n16 d.length + 4).toNat = 16 + d.length := by
      rw [UInt16.toNat_add, UInt16.toNat_add, hdl]
      have : ((8 : UInt16) + 2 + 2).toNat = 12 := rfl
      rw [this]
      have : (4 : UInt16).toNat = 4 := rfl
      rw [this]; omega
    have hu : V.u16 ((8 : UInt16) + 2 + 2 + n16 d.length + 4) = .num (16 + d.length) := by simp only [V.u16, hto]
    unfold VendorError.marshalM
    rw [hlen]
    simp only [Res.bind_ok]
    rw [hlen]
    simp only [Res.bind_ok, vendorErrorV, Header.setLength, hu, Header.bytes, UBuffer.marshalM, UBuffer.mk, UBuffer.content, same, hto]
    have hp : piecesLen [pCopy ([n8 ver, n8 Gen.openflow13.Type_Error] ++ be16 (n16 (16 + d.length)) ++ be32 (n32 xid)), pU16 t, pU16 c,
        pU32 x, pCopy d] = 16 + d.length := by
      simp [piecesLen, pU16, pU32, pCopy, Piece.adv]; omega
    have := fill_exact' [pCopy ([n8 ver, n8 Gen.openflow13.Type_Error] ++ be16 (n16 (16 + d.length)) ++ be32 (n32 xid)), pU16 t, pU16 c, pU32 x, pCopy d]
      (by intro p hp; simp at hp; rcases hp with rfl | rfl | rfl | rfl | rfl <;> trivial)
    rw [hp] at this
    rw [this]
    simp [piecesBytes, pU16, pU32, pCopy, Piece.bytes, bs]
  · intro depth data tail hdw hb
    have hlenD := Slice.len_ge_of_bytes data _ _ hb
    simp only [bs, List.length_append, be16_length, be32_length, List.length_cons, List.length_nil] at hlenD
    have hb' : data.bytes = ([n8 ver, n8 Gen.openflow13.Type_Error] ++ be16 (n16 (16 + d.length)) ++ be32 (n32 xid)) ++
        (be16 (n16 t) ++ (be16 (n16 c) ++ (be32 (n32 x) ++ (d ++ tail)))) := by
      rw [hb]; simp only [bs, List.append_assoc]
    obtain ⟨_, _, hdec⟩ := header_roundtrip ver Gen.openflow13.Type_Error (16 + d.length) xid hver (by decide) hd hxid
    unfold parse
    obtain ⟨k, hk⟩ : ∃ k, max depth (data.cap + 1) = k + 1 := ⟨max depth (data.cap + 1) - 1, by omega⟩
    rw [hk]
    unfold parseD parseStep
    have e1 : data.bytes[1]? = some (n8 Gen.openflow13.Type_Error) := by rw [hb']; rfl
    have ht1 : (n8 Gen.openflow13.Type_Error).toNat = 1 := by decide
    have ht1' : (n8 1).toNat = 1 := by decide
    simp only [Slice.byteAt_eq, e1, Res.ofOption, Res.bind_ok, ht1, ht1', Gen.openflow13.Type_Hello, Gen.openflow13.Type_Error,
      Nat.reduceEqDiff, reduceIte, if_false, if_true]
    have e8 : rd16 (data.bytes.drop 8) = some (n16 t) := by
      rw [hb']
      have : List.drop 8 (([n8 ver, n8 Gen.openflow13.Type_Error] ++ be16 (n16 (16 + d.length)) ++ be32 (n32 xid)) ++
        (be16 (n16 t) ++ (be16 (n16 c) ++ (be32 (n32 x) ++ (d ++ tail))))) = be16 (n16 t) ++ (be16 (n16 c) ++ (be32 (n32 x) ++ (d ++ tail))) := rfl
      rw [this]; exact rd16_be16 _ _
    have e10 : rd16 (data.bytes.drop 10) = some (n16 c) := by
      rw [hb']
      have : List.drop 10 (([n8 ver, n8 Gen.openflow13.Type_Error] ++ be16 (n16 (16 + d.length)) ++ be32 (n32 xid)) ++
        (be16 (n16 t) ++ (be16 (n16 c) ++ (be32 (n32 x) ++ (d ++ tail))))) = be16 (n16 c) ++ (be32 (n32 x) ++ (d ++ tail)) := rfl
      rw [this]; exact rd16_be16 _ _
    have e12 : rd32 (data.bytes.drop 12) = some (n32 x) := by
      rw [hb']
      have : List.drop 12 (([n8 ver, n8 Gen.openflow13.Type_Error] ++ be16 (n16 (16 + d.length)) ++ be32 (n32 xid)) ++
        (be16 (n16 t) ++ (be16 (n16 c) ++ (be32 (n32 x) ++ (d ++ tail))))) = be32 (n32 x) ++ (d ++ tail) := rfl
      rw [this]; exact rd32_be32 _ _
    obtain ⟨s, hs1, hs2, _, _⟩ := Slice.fromR_bytes data 12 (by omega)
    obtain ⟨s', hs1', hs2', _, _⟩ := Slice.fromR_bytes data 16 (by omega)
    have hsb : s'.bytes = d ++ tail := by rw [hs2', hb']; rfl
    have htt : (n16 t).toNat = Gen.openflow13.ET_EXPERIMENTER := by decide
    simp only [ErrorMsg.unmarshal, ErrorMsg.zero, msgTryU, hdec _ data _ hdw hb', Res.bind_ok, Slice.u16From_eq, Slice.u32From_eq, e8, e10, e12,
      Res.ofOption, hs1, hs1', UBuffer.unmarshal, hsb, Res.pure_eq, ErrorMsg.errType, V.u16, V.u32, htt, if_true,
      VendorError.unmarshal, VendorError.zero,
      recoverR, vendorErrorV, n16_toNat c hc, n32_toNat x hx, t]

/-- PortStatsRequest: port number, 6 pad bytes -/
theorem portStatsRequest_rt (p : Nat) (pad rpad : Bytes) (r0 : V) (hp : p < 65536) (hpad : pad.length = 6) (hrp : rpad.length = 6) :
    let v := V.obj "PortStatsRequest" [.num p, .bytes pad]
    let bs := be16 (n16 p) ++ pad
    PortStatsRequest.marshalM v = .ok (bs, v) ∧ PortStatsRequest.lenM v = .ok (8, v) ∧ bs.length = 8 ∧
    ∀ (data : Slice) (tail : Bytes), data.WF → data.bytes = bs ++ tail →
      PortStatsRequest.unmarshal (.obj "PortStatsRequest" [r0, .bytes rpad]) data = .ok v := by
  intro v bs
  have hbl : bs.length = 8 := by simp only [bs, List.length_append, be16_length, hpad]
  refine ⟨?_, rfl, hbl, ?_⟩
  · simp only [v, PortStatsRequest.marshalM]
    rw [fill_eq 8 _ (by intro q hq; simp at hq; rcases hq with rfl | rfl <;> trivial)
      (by simp [piecesLen, pU16, pCopy, Piece.adv, hpad])]
    simp [piecesBytes, pU16, pCopy, Piece.bytes, bs, same]
  · intro data tail hdw hb
    have hlenD := Slice.len_ge_of_bytes data _ _ hb
    rw [hbl] at hlenD
    have hb' : data.bytes = be16 (n16 p) ++ (pad ++ tail) := by rw [hb]; simp only [bs, List.append_assoc]
    have e0 : rd16 (data.bytes.drop 0) = some (n16 p) := by rw [hb']; exact rd16_be16 _ _
    obtain ⟨s, hs1, hs2, _, _⟩ := Slice.fromR_bytes data 2 (by omega)
    have hsb : s.bytes = pad ++ tail := by rw [hs2, hb']; rfl
    simp only [PortStatsRequest.unmarshal, Slice.u16From_eq, e0, Res.ofOption, Res.bind_ok, hs1, hsb, Res.pure_eq,
      copyInto_prefix rpad pad tail (by omega), u16_n16 p hp, v]

/-- QueueStatsRequest: port number, 2 pad bytes, queue id -/
theorem queueStatsRequest_rt (p q : Nat) (pad rpad : Bytes) (r0 r2 : V) (hp : p < 65536) (hq : q < 4294967296)
    (hpad : pad.length = 2) (hrp : rpad.length = 2) :
    let v := V.obj "QueueStatsRequest" [.num p, .bytes pad, .num q]
    let bs := be16 (n16 p) ++ pad ++ be32 (n32 q)
    QueueStatsRequest.marshalM v = .ok (bs, v) ∧ QueueStatsRequest.lenM v = .ok (8, v) ∧ bs.length = 8 ∧
    ∀ (data : Slice) (tail : Bytes), data.WF → data.bytes = bs ++ tail →
      QueueStatsRequest.unmarshal (.obj "QueueStatsRequest" [r0, .bytes rpad, r2]) data = .ok v := by
  intro v bs
  have hbl : bs.length = 8 := by simp only [bs, List.length_append, be16_length, be32_length, hpad]
  refine ⟨?_, rfl, hbl, ?_⟩
  · simp only [v, QueueStatsRequest.marshalM]
    rw [fill_eq 8 _ (by intro x hx; simp at hx; rcases hx with rfl | rfl | rfl; trivial; (simp [pCopyAdv, Piece.Tight]; omega); trivial)
      (by simp [piecesLen, pU16, pU32, pCopyAdv, Piece.adv])]
    simp [piecesBytes, pU16, pU32, pCopyAdv, Piece.bytes, bs, same, hpad, zeros]
    exact List.take_of_length_le (by omega)
  · intro data tail hdw hb
    have hlenD := Slice.len_ge_of_bytes data _ _ hb
    rw [hbl] at hlenD
    obtain ⟨a, b, rfl⟩ : ∃ a b, pad = [a, b] := by
      match pad, hpad with
      | [a, b], _ => exact ⟨a, b, rfl⟩
    have hb' : data.bytes = be16 (n16 p) ++ ([a, b] ++ (be32 (n32 q) ++ tail)) := by rw [hb]; simp only [bs, List.append_assoc]
    have e0 : rd16 (data.bytes.drop 0) = some (n16 p) := by rw [hb']; exact rd16_be16 _ _
    have e4 : rd32 (data.bytes.drop 4) = some (n32 q) := by rw [hb']; exact rd32_be32 _ _
    obtain ⟨s, hs1, hs2, _, _⟩ := Slice.fromR_bytes data 2 (by omega)
    have hsb : s.bytes = [a, b] ++ (be32 (n32 q) ++ tail) := by rw [hs2, hb']; rfl
    simp only [QueueStatsRequest.unmarshal, Slice.u16From_eq, Slice.u32From_eq, e0, e4, Res.ofOption, Res.bind_ok, hs1, hsb, Res.pure_eq,
      copyInto_prefix rpad [a, b] _ (by simp [hrp]), u16_n16 p hp, u32_n32 q hq, v]

def statsReqV (k : String) (t : Nat) (p : Bytes) (op og : Nat) (p2 : Bytes) (c cm : Nat) (m : V) : V :=
  .obj k [.num t, .bytes p, .num op, .num og, .bytes p2, .num c, .num cm, m]

def statsReqFixed (t : Nat) (p : Bytes) (op og : Nat) (p2 : Bytes) (c cm : Nat) : Bytes :=
  [n8 t] ++ p ++ be32 (n32 op) ++ be32 (n32 og) ++ p2 ++ be64 (n64 c) ++ be64 (n64 cm)

/-- the shared codec of FlowStatsRequest / AggregateStatsRequest: 32 fixed bytes, then the Match -/
theorem statsReq_rt (k : String) (t op og c cm : Nat) (p p2 rp rp2 : Bytes) (m r0 r2 r3 r5 r6 : V)
    (ht : t < 256) (hop : op < 4294967296) (hog : og < 4294967296) (hc : c < 18446744073709551616) (hcm : cm < 18446744073709551616)
    (hp : p.length = 3) (hp2 : p2.length = 4) (hrp : rp.length = 3) (hrp2 : rp2.length = 4) (hm : MatchWF m) :
    ∃ mbs, Match.marshalM m = .ok (mbs, m) ∧
      let v := statsReqV k t p op og p2 c cm m
      let bs := statsReqFixed t p op og p2 c cm ++ mbs
      StatsReq.marshalM k v = .ok (bs, v) ∧ StatsReq.lenM k v = .ok (n16 bs.length, v) ∧ bs.length = 32 + mbs.length ∧
      ∀ (data : Slice) (tail : Bytes), data.WF → data.bytes = bs ++ tail →
        StatsReq.unmarshalP k (.obj k [r0, .bytes rp, r2, r3, .bytes rp2, r5, r6, Match.zero]) data = .ok (v, false) := by
  obtain ⟨mbs, hmm, hml, hm8, hmdec, hm8', hmlt⟩ := RT.match_roundtrip m hm
  refine ⟨mbs, hmm, ?_⟩
  intro v bs
  have hfx : (statsReqFixed t p op og p2 c cm).length = 32 := by
    simp only [statsReqFixed, List.length_append, be32_length, be64_length, hp, hp2, List.length_cons, List.length_nil]
  have hbl : bs.length = 32 + mbs.length := by simp only [bs, List.length_append, hfx]
  refine ⟨?_, ?_, hbl, ?_⟩
  · simp only [v, statsReqV, StatsReq.marshalM, ne_eq, not_true_eq_false, if_false]
    rw [fill_eq 32 _ (by intro x hx; simp at hx; rcases hx with rfl | rfl | rfl | rfl | rfl | rfl | rfl <;>
          first | trivial | (simp [pCopyAdv, Piece.Tight]; omega))
      (by simp [piecesLen, pU8, pU32, pU64, pCopyAdv, Piece.adv])]
    simp only [Res.bind_ok, hmm, Res.pure_eq]
    have h1 : List.take 3 p = p := List.take_of_length_le (by omega)
    have h2 : List.take 4 p2 = p2 := List.take_of_length_le (by omega)
    simp [piecesBytes, pU8, pU32, pU64, pCopyAdv, Piece.bytes, bs, statsReqFixed, hp, hp2, zeros, h1, h2]
  · simp only [v, statsReqV, StatsReq.lenM, ne_eq, not_true_eq_false, if_false, hml, Res.bind_ok, Res.pure_eq, hbl]
    congr 2
    apply UInt16.toNat_inj.mp
    simp [UInt16.toNat_add, UInt16.toNat_ofNat', n16]; omega
  · intro data tail hdw hb
    have hlenD := Slice.len_ge_of_bytes data _ _ hb
    rw [hbl] at hlenD
    obtain ⟨a1, a2, a3, rfl⟩ : ∃ a1 a2 a3, p = [a1, a2, a3] := by
      match p, hp with
      | [a, b, c], _ => exact ⟨a, b, c, rfl⟩
    obtain ⟨b1, b2, b3, b4, rfl⟩ : ∃ b1 b2 b3 b4, p2 = [b1, b2, b3, b4] := by
      match p2, hp2 with
      | [a, b, c, d], _ => exact ⟨a, b, c, d, rfl⟩
    have hb' : data.bytes = [n8 t] ++ ([a1, a2, a3] ++ (be32 (n32 op) ++ (be32 (n32 og) ++ ([b1, b2, b3, b4] ++ (be64 (n64 c) ++ (be64 (n64 cm) ++
        (mbs ++ tail))))))) := by
      rw [hb]; simp only [bs, statsReqFixed, List.append_assoc]
    have e0 : data.bytes[0]? = some (n8 t) := by rw [hb']; rfl
    have e4 : rd32 (data.bytes.drop 4) = some (n32 op) := by rw [hb']; exact rd32_be32 _ _
    have e8 : rd32 (data.bytes.drop 8) = some (n32 og) := by rw [hb']; exact rd32_be32 _ _
    have e16 : rd64 (data.bytes.drop 16) = some (n64 c) := by rw [hb']; exact rd64_be64 _ _
    have e24 : rd64 (data.bytes.drop 24) = some (n64 cm) := by rw [hb']; exact rd64_be64 _ _
    obtain ⟨s1, hs1, hs1b, _⟩ := Slice.sliceR_bytes data hdw 1 4 (by omega) (by omega)
    have hs1b' : s1.bytes = [a1, a2, a3] := by rw [hs1b, hb']; rfl
    obtain ⟨s2, hs2, hs2b, _⟩ := Slice.sliceR_bytes data hdw 12 16 (by omega) (by omega)
    have hs2b' : s2.bytes = [b1, b2, b3, b4] := by rw [hs2b, hb']; rfl
    obtain ⟨dm, hm1, hm2, _, _⟩ := Slice.fromR_bytes data 32 (by omega)
    have hdm : dm.WF := (Slice.fromR_wf data hdw 32 dm hm1).1
    have hdmb : dm.bytes = mbs ++ tail := by rw [hm2, hb']; rfl
    have hmP : Match.unmarshalP Match.zero dm = .ok (m, false) := unmarshalP_of_unmarshal _ _ _ (hmdec dm _ hdm hdmb)
    have c1 : copyInto rp [a1, a2, a3] = [a1, a2, a3] := by
      have := copyInto_prefix rp [a1, a2, a3] [] (by simp [hrp]); simpa using this
    have c2 : copyInto rp2 [b1, b2, b3, b4] = [b1, b2, b3, b4] := by
      have := copyInto_prefix rp2 [b1, b2, b3, b4] [] (by simp [hrp2]); simpa using this
    simp only [StatsReq.unmarshalP, ne_eq, not_true_eq_false, if_false, Slice.byteAt_eq, Slice.u32From_eq, Slice.u64From_eq, e0, e4, e8, e16, e24,
      Res.ofOption, Res.bind_ok, hs1, hs2, hm1, hmP, hml, Res.pure_eq, hs1b', hs2b', c1, c2, u8_n8 t ht, u32_n32 op hop, u32_n32 og hog,
      u64_n64 c hc, u64_n64 cm hcm, v, statsReqV]

/-! the four 16-byte Nicira actions of C05 §4 as `ActionRT` facts -/

theorem actionRT_conjunction (c nc id : Nat) (hc : c < 256) (hnc : nc < 256) (hid : id < 4294967296) :
    ActionRT (.obj "NXActionConjunction" [nxHdr 16 Gen.openflow13.NXAST_CONJUNCTION, .num c, .num nc, .num id])
      (nxHdrBytes 16 Gen.openflow13.NXAST_CONJUNCTION ++ [n8 c, n8 nc] ++ be32 (n32 id)) := by
  obtain ⟨h1, h2, h3⟩ := nxConjunction_rt c nc id hc hnc hid
  exact ⟨h1, h2, by simp [nxHdrBytes], by simp [nxHdrBytes], h3⟩

theorem actionRT_resubmitTable (sub ct ip t : Nat)
    (hsub : (sub = Gen.openflow13.NXAST_RESUBMIT_TABLE ∧ ct = 0) ∨ (sub = Gen.openflow13.NXAST_CT_RESUBMIT ∧ ct = 1))
    (hip : ip < 65536) (ht : t < 256) :
    ActionRT (.obj "NXActionResubmitTable" [nxHdr 16 sub, .num ip, .num t, .bytes (zeros 3), .num ct])
      (nxHdrBytes 16 sub ++ be16 (n16 ip) ++ [n8 t] ++ zeros 3) := by
  obtain ⟨h1, h2, h3⟩ := nxResubmitTable_rt sub ct ip t hsub hip ht
  exact ⟨h1, h2, by simp [nxHdrBytes], by simp [nxHdrBytes], h3⟩

theorem actionRT_decTTL (c : Nat) (hc : c < 65536) :
    ActionRT (.obj "NXActionDecTTL" [nxHdr 16 Gen.openflow13.NXAST_DEC_TTL, .num c, .bytes (zeros 4)])
      (nxHdrBytes 16 Gen.openflow13.NXAST_DEC_TTL ++ be16 (n16 c) ++ zeros 4) := by
  obtain ⟨h1, h2, h3⟩ := nxDecTTL_rt c hc
  exact ⟨h1, h2, by simp [nxHdrBytes], by simp [nxHdrBytes], h3⟩

theorem actionRT_resubmit (ip : Nat) (hip : ip < 65536) :
    ActionRT (.obj "NXActionResubmit" [nxHdr 16 Gen.openflow13.NXAST_RESUBMIT, .num ip, .num Gen.openflow13.OFPTT_ALL, .bytes (zeros 3)])
      (nxHdrBytes 16 Gen.openflow13.NXAST_RESUBMIT ++ be16 (n16 ip) ++ zeros 4) := by
  obtain ⟨h1, h2, h3⟩ := nxResubmit_rt ip Gen.openflow13.OFPTT_ALL hip
  exact ⟨h1, h2, by simp [nxHdrBytes], by simp [nxHdrBytes], h3⟩

end OFV.RT4
