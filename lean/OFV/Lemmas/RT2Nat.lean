/-
  OFV.Lemmas.RT2Nat — NXActionCTNAT through DecodeAction for every combination of its six optional ranges (IPv4 min/max,
  IPv6 min/max, port min/max).  Used by OFV/Props/C05b.lean.
-/
import OFV.Model.All
import OFV.Lemmas.Size
import OFV.Lemmas.RTBasic
import OFV.Lemmas.RTMatch
import OFV.Lemmas.RTAction
import OFV.Lemmas.RTNx
import OFV.Lemmas.RT2Nx
namespace OFV.RT2
set_option linter.unusedSimpArgs false
open OFV OFV.Go OFV.Model OFV.RT

/-! ### NXActionCTNAT: any combination of the six optional ranges -/

abbrev IP4 := UInt8 × UInt8 × UInt8 × UInt8

/-- an optional IPv4 address as the net.IP the decoder builds (`net.IPv4(a,b,c,d)`: 16-byte form), nil when absent -/
def v4Val : Option IP4 → Bytes
  | none => []
  | some (a, b, c, d) => actIpv4 a b c d
def v4Wire : Option IP4 → Bytes
  | none => []
  | some (a, b, c, d) => [a, b, c, d]
/-- an optional port as `*uint16` -/
def portVal : Option Nat → V
  | none => .nil
  | some x => .num x
def portWire : Option Nat → Bytes
  | none => []
  | some x => be16 (n16 x)
def bitIf (p : Bool) (b : Nat) : Nat := if p then b else 0
/-- rangePresent: one bit per range that is present -/
def rangeBits (a4 b4 : Option IP4) (a6 b6 : Option Bytes) (pa pb : Option Nat) : Nat :=
  bitIf a4.isSome 1 + bitIf b4.isSome 2 + bitIf a6.isSome 4 + bitIf b6.isSome 8 + bitIf pa.isSome 16 + bitIf pb.isSome 32
def rangesWire (a4 b4 : Option IP4) (a6 b6 : Option Bytes) (pa pb : Option Nat) : Bytes :=
  v4Wire a4 ++ v4Wire b4 ++ a6.getD [] ++ b6.getD [] ++ portWire pa ++ portWire pb

theorem has_bits (p0 p1 p2 p3 p4 p5 : Bool) :
    let rp := n16 (bitIf p0 1 + bitIf p1 2 + bitIf p2 4 + bitIf p3 8 + bitIf p4 16 + bitIf p5 32)
    NXActionCTNAT.has rp Gen.openflow13.NX_NAT_RANGE_IPV4_MIN = p0 ∧ NXActionCTNAT.has rp Gen.openflow13.NX_NAT_RANGE_IPV4_MAX = p1 ∧
    NXActionCTNAT.has rp Gen.openflow13.NX_NAT_RANGE_IPV6_MIN = p2 ∧ NXActionCTNAT.has rp Gen.openflow13.NX_NAT_RANGE_IPV6_MAX = p3 ∧
    NXActionCTNAT.has rp Gen.openflow13.NX_NAT_RANGE_PROTO_MIN = p4 ∧ NXActionCTNAT.has rp Gen.openflow13.NX_NAT_RANGE_PROTO_MAX = p5 := by
  revert p0 p1 p2 p3 p4 p5; decide

theorem has_rangeBits (a4 b4 : Option IP4) (a6 b6 : Option Bytes) (pa pb : Option Nat) :
    let rp := n16 (rangeBits a4 b4 a6 b6 pa pb)
    NXActionCTNAT.has rp Gen.openflow13.NX_NAT_RANGE_IPV4_MIN = a4.isSome ∧ NXActionCTNAT.has rp Gen.openflow13.NX_NAT_RANGE_IPV4_MAX = b4.isSome ∧
    NXActionCTNAT.has rp Gen.openflow13.NX_NAT_RANGE_IPV6_MIN = a6.isSome ∧ NXActionCTNAT.has rp Gen.openflow13.NX_NAT_RANGE_IPV6_MAX = b6.isSome ∧
    NXActionCTNAT.has rp Gen.openflow13.NX_NAT_RANGE_PROTO_MIN = pa.isSome ∧ NXActionCTNAT.has rp Gen.openflow13.NX_NAT_RANGE_PROTO_MAX = pb.isSome :=
  has_bits a4.isSome b4.isSome a6.isSome b6.isSome pa.isSome pb.isSome

theorem drop_step (l a r : Bytes) (n : Nat) (h : l.drop n = a ++ r) : l.drop (n + a.length) = r := by
  rw [← List.drop_drop, h]; simp

theorem rdIPv4_opt (data : Slice) (o : Option IP4) (n : Nat) (rest : Bytes) (h : data.bytes.drop n = v4Wire o ++ rest) :
    NXActionCTNAT.rdIPv4 o.isSome data n (.bytes []) = .ok (.bytes (v4Val o), n + (v4Wire o).length) := by
  cases o with
  | none => rfl
  | some x =>
    obtain ⟨a, b, c, d⟩ := x
    have e : ∀ i, data.bytes[n + i]? = (v4Wire (some (a, b, c, d)) ++ rest)[i]? := by
      intro i; rw [← h, List.getElem?_drop]
    have e0 := e 0; have e1 := e 1; have e2 := e 2; have e3 := e 3
    simp only [v4Wire, List.cons_append, List.nil_append, Nat.add_zero] at e0 e1 e2 e3
    simp only [NXActionCTNAT.rdIPv4, Option.isSome_some, if_true, Slice.byteAt_eq, e0, e1, e2, e3, Res.ofOption, Res.bind_ok,
      Res.pure_eq, List.getElem?_cons_zero, List.getElem?_cons_succ]
    rfl

theorem rdIPv6_opt (data : Slice) (hd : data.WF) (o : Option Bytes) (ho : ∀ x, o = some x → x.length = 16) (n : Nat) (rest : Bytes)
    (h : data.bytes.drop n = o.getD [] ++ rest) :
    NXActionCTNAT.rdIPv6 o.isSome data n (.bytes []) = .ok (.bytes (o.getD []), n + (o.getD []).length) := by
  cases o with
  | none => rfl
  | some x =>
    have hx := ho x rfl
    simp only [Option.getD_some] at h ⊢
    have hl : n + 16 ≤ data.len := by
      have h1 := Slice.bytes_length_le data
      have h2 := congrArg List.length h
      simp only [List.length_drop, List.length_append] at h2
      omega
    obtain ⟨s, hs1, hs2, _⟩ := Slice.sliceR_bytes data hd n (n + 16) (by omega) hl
    have hsb : s.bytes = x := by
      rw [hs2, h]; simp [← hx]
    simp only [NXActionCTNAT.rdIPv6, Option.isSome_some, if_true, hs1, Res.bind_ok, hsb, makeCopy_self 16 x hx, Res.pure_eq, hx]

theorem rdPort_opt (data : Slice) (o : Option Nat) (ho : ∀ x, o = some x → x < 65536) (n : Nat) (rest : Bytes)
    (h : data.bytes.drop n = portWire o ++ rest) :
    NXActionCTNAT.rdPort o.isSome data n .nil = .ok (portVal o, n + (portWire o).length) := by
  cases o with
  | none => rfl
  | some x =>
    have e : rd16 (data.bytes.drop n) = some (n16 x) := by rw [h]; exact rd16_be16 _ _
    simp only [NXActionCTNAT.rdPort, Option.isSome_some, if_true, Slice.u16From_eq, e, Res.ofOption, Res.bind_ok, Res.pure_eq,
      u16_n16 x (ho x rfl), portVal, portWire, be16_length]

def portPieces : Option Nat → List Piece
  | none => []
  | some x => [pU16 x]

/-- the pieces MarshalBinary writes for the six optional ranges -/
def rangePieces (a4 b4 : Option IP4) (a6 b6 : Option Bytes) (pa pb : Option Nat) : List Piece :=
  (if v4Val a4 ≠ [] then [pCopyAdv (actIpTo4 (v4Val a4)) 4] else [])
    ++ (if v4Val b4 ≠ [] then [pCopyAdv (actIpTo4 (v4Val b4)) 4] else [])
    ++ (if a6.getD [] ≠ [] then [pCopyAdv (actIpTo16 (a6.getD [])) 16] else [])
    ++ (if b6.getD [] ≠ [] then [pCopyAdv (actIpTo16 (b6.getD [])) 16] else [])
    ++ portPieces pa ++ portPieces pb

theorem v4_piece (o : Option IP4) :
    let ps := (if v4Val o ≠ [] then [pCopyAdv (actIpTo4 (v4Val o)) 4] else [])
    piecesLen ps = (v4Wire o).length ∧ piecesBytes ps = v4Wire o ∧ ∀ p ∈ ps, p.Tight := by
  cases o with
  | none => exact ⟨rfl, rfl, by simp [v4Val]⟩
  | some x =>
    obtain ⟨a, b, c, d⟩ := x
    have h1 : v4Val (some (a, b, c, d)) ≠ [] := by simp [v4Val, actIpv4, actV4InV6Prefix]
    have h2 : actIpTo4 (v4Val (some (a, b, c, d))) = [a, b, c, d] := by
      simp [v4Val, actIpTo4, actIpv4, actV4InV6Prefix, zeros]
    simp only [h1, ne_eq, not_false_eq_true, if_true, h2]
    exact ⟨rfl, rfl, by intro p hp; simp at hp; subst hp; simp [Piece.Tight, pCopyAdv]⟩

theorem v6_piece (o : Option Bytes) (ho : ∀ x, o = some x → x.length = 16) :
    let ps := (if o.getD [] ≠ [] then [pCopyAdv (actIpTo16 (o.getD [])) 16] else [])
    piecesLen ps = (o.getD []).length ∧ piecesBytes ps = o.getD [] ∧ ∀ p ∈ ps, p.Tight := by
  cases o with
  | none => exact ⟨rfl, rfl, by simp⟩
  | some x =>
    have hx := ho x rfl
    have h1 : x ≠ [] := by intro h; rw [h] at hx; simp at hx
    have h2 : actIpTo16 x = x := by simp [actIpTo16, hx]
    simp only [Option.getD_some, h1, ne_eq, not_false_eq_true, if_true, h2]
    refine ⟨by simp [piecesLen, pCopyAdv, Piece.adv, hx], ?_, by intro p hp; simp at hp; subst hp; simp [Piece.Tight, pCopyAdv, hx]⟩
    simp [piecesBytes, pCopyAdv, Piece.bytes, hx, zeros]
    rw [← hx]; simp

theorem port_piece (o : Option Nat) :
    let ps := portPieces o
    piecesLen ps = (portWire o).length ∧ piecesBytes ps = portWire o ∧ ∀ p ∈ ps, p.Tight := by
  cases o with
  | none => exact ⟨rfl, rfl, by simp [portPieces]⟩
  | some x => exact ⟨rfl, by simp [portPieces, portWire, piecesBytes, pU16, Piece.bytes], by intro p hp; simp [portPieces] at hp; subst hp; trivial⟩

theorem rangePieces_ok (a4 b4 : Option IP4) (a6 b6 : Option Bytes) (pa pb : Option Nat)
    (ha6 : ∀ x, a6 = some x → x.length = 16) (hb6 : ∀ x, b6 = some x → x.length = 16) :
    piecesLen (rangePieces a4 b4 a6 b6 pa pb) = (rangesWire a4 b4 a6 b6 pa pb).length ∧
    piecesBytes (rangePieces a4 b4 a6 b6 pa pb) = rangesWire a4 b4 a6 b6 pa pb ∧
    ∀ p ∈ rangePieces a4 b4 a6 b6 pa pb, p.Tight := by
  obtain ⟨x1, y1, z1⟩ := v4_piece a4
  obtain ⟨x2, y2, z2⟩ := v4_piece b4
  obtain ⟨x3, y3, z3⟩ := v6_piece a6 ha6
  obtain ⟨x4, y4, z4⟩ := v6_piece b6 hb6
  obtain ⟨x5, y5, z5⟩ := port_piece pa
  obtain ⟨x6, y6, z6⟩ := port_piece pb
  refine ⟨?_, ?_, ?_⟩
  · simp only [rangePieces, piecesLen_app, x1, x2, x3, x4, x5, x6, rangesWire, List.length_append]
  · simp only [rangePieces, piecesBytes_app, y1, y2, y3, y4, y5, y6, rangesWire]
  · intro p hp
    simp only [rangePieces, List.mem_append] at hp
    rcases hp with ((((hp | hp) | hp) | hp) | hp) | hp
    · exact z1 p hp
    · exact z2 p hp
    · exact z3 p hp
    · exact z4 p hp
    · exact z5 p hp
    · exact z6 p hp


theorem ctnat_fill (L : Nat) (hb : Bytes) (hhb : hb.length = 10) (fl rp : Nat) (R : List Piece) (W : Bytes)
    (hR : piecesLen R = W.length ∧ piecesBytes R = W ∧ ∀ p ∈ R, p.Tight) (hfit : 16 + W.length ≤ L) :
    fill L ([pCopy hb, pSkip 2, pU16 fl, pU16 rp] ++ R)
      = .ok (hb ++ zeros 2 ++ be16 (n16 fl) ++ be16 (n16 rp) ++ W ++ zeros (L - (16 + W.length))) := by
  obtain ⟨h1, h2, h3⟩ := hR
  have hpl : piecesLen ([pCopy hb, pSkip 2, pU16 fl, pU16 rp] ++ R) = 16 + W.length := by
    rw [piecesLen_app, h1]; simp [piecesLen, pCopy, pSkip, pU16, Piece.adv, hhb]
  rw [fill_exact L _ (by
      intro p hp
      simp only [List.mem_append, List.mem_cons, List.not_mem_nil, or_false] at hp
      rcases hp with (rfl | rfl | rfl | rfl) | hp
      · trivial
      · trivial
      · trivial
      · trivial
      · exact h3 p hp) (by rw [hpl]; exact hfit), hpl, piecesBytes_app, h2]
  simp [piecesBytes, pCopy, pSkip, pU16, Piece.bytes]

/-- the NXActionCTNAT value with the given stored Length and (unexported) pad -/
def ctnatV (ln : Nat) (pad : V) (fl : Nat) (a4 b4 : Option IP4) (a6 b6 : Option Bytes) (pa pb : Option Nat) : V :=
  .obj "NXActionCTNAT" [nxHdr ln Gen.openflow13.NXAST_NAT, pad, .num fl, .num (rangeBits a4 b4 a6 b6 pa pb),
    .bytes (v4Val a4), .bytes (v4Val b4), .bytes (a6.getD []), .bytes (b6.getD []), portVal pa, portVal pb]

theorem rangesWire_le (a4 b4 : Option IP4) (a6 b6 : Option Bytes) (pa pb : Option Nat)
    (ha6 : ∀ x, a6 = some x → x.length = 16) (hb6 : ∀ x, b6 = some x → x.length = 16) :
    (rangesWire a4 b4 a6 b6 pa pb).length ≤ 44 := by
  have h1 : ∀ o, (v4Wire o).length ≤ 4 := by intro o; rcases o with _ | ⟨a, b, c, d⟩ <;> simp [v4Wire]
  have h2 : ∀ o : Option Bytes, (∀ x, o = some x → x.length = 16) → (o.getD []).length ≤ 16 := by
    intro o ho; cases o with
    | none => simp
    | some x => simp [ho x rfl]
  have h3 : ∀ o, (portWire o).length ≤ 2 := by intro o; cases o <;> simp [portWire]
  have := h1 a4; have := h1 b4; have := h2 a6 ha6; have := h2 b6 hb6; have := h3 pa; have := h3 pb
  simp only [rangesWire, List.length_append]; omega

theorem rangeBits_lt (a4 b4 : Option IP4) (a6 b6 : Option Bytes) (pa pb : Option Nat) : rangeBits a4 b4 a6 b6 pa pb < 64 := by
  simp only [rangeBits, bitIf]
  repeat' split
  all_goals omega

theorem nxCTNAT_rt (fl : Nat) (a4 b4 : Option IP4) (a6 b6 : Option Bytes) (pa pb : Option Nat) (hfl : fl < 65536)
    (ha6 : ∀ x, a6 = some x → x.length = 16) (hb6 : ∀ x, b6 = some x → x.length = 16)
    (hpa : ∀ x, pa = some x → x < 65536) (hpb : ∀ x, pb = some x → x < 65536) :
    let W := rangesWire a4 b4 a6 b6 pa pb
    let L := (16 + W.length + 7) / 8 * 8
    let v' := ctnatV L (.bytes []) fl a4 b4 a6 b6 pa pb
    let bs := nxHdrBytes L Gen.openflow13.NXAST_NAT ++ zeros 2 ++ be16 (n16 fl) ++ be16 (n16 (rangeBits a4 b4 a6 b6 pa pb)) ++ W
      ++ zeros (L - (16 + W.length))
    (∀ (ln0 : Nat) (pad : V), (ln0 + 7) / 8 * 8 = L →
      Action.marshalM (ctnatV ln0 pad fl a4 b4 a6 b6 pa pb) = .ok (bs, ctnatV L pad fl a4 b4 a6 b6 pa pb)) ∧
    Action.lenM v' = .ok (n16 L, v') ∧ bs.length = L ∧
    ∀ (data : Slice) (tail : Bytes) (k : Nat), data.WF → data.bytes = bs ++ tail → DecodeAction (k + 1) data = .ok v' := by
  intro W L v' bs
  have hW : W.length ≤ 44 := rangesWire_le a4 b4 a6 b6 pa pb ha6 hb6
  have hL : L < 65536 := by simp only [L]; omega
  have hL8 : (L + 7) / 8 * 8 = L := by simp only [L]; omega
  have hLge : 16 + W.length ≤ L := by simp only [L]; omega
  have hbl : bs.length = L := by
    simp only [bs, List.length_append, zeros_length, be16_length]
    have : (nxHdrBytes L Gen.openflow13.NXAST_NAT).length = 10 := rfl
    omega
  have hlenM : ∀ (ln0 : Nat) (pad : V), (ln0 + 7) / 8 * 8 = L →
      NXActionCTNAT.lenM (ctnatV ln0 pad fl a4 b4 a6 b6 pa pb) = .ok (n16 L, ctnatV L pad fl a4 b4 a6 b6 pa pb) := by
    intro ln0 pad hl0
    have : round8 (n16 ln0) = n16 L := by rw [round8_n16 _ (by omega), hl0]
    simp only [ctnatV, NXActionCTNAT.lenM, nxHdr_length, Res.bind_ok, this, nxHdr_setLength ln0 _ L hL]
  refine ⟨fun ln0 pad hl0 => ?_, ?_, hbl, ?_⟩
  · rw [action_marshal_leaf _ (by simp [ctnatV, V.kind])]
    simp only [Action.marshalLeaf, ctnatV, V.kind]
    unfold NXActionCTNAT.marshalM
    have := hlenM ln0 pad hl0
    simp only [ctnatV] at this
    rw [this]
    have hfill := ctnat_fill L (nxHdrBytes L Gen.openflow13.NXAST_NAT) rfl fl (rangeBits a4 b4 a6 b6 pa pb) _ W
      (rangePieces_ok a4 b4 a6 b6 pa pb ha6 hb6) hLge
    cases pa <;> cases pb <;>
      simp only [Res.bind_ok, nxHdr_bytes, portVal, n16_toNat L hL] <;>
      simp only [rangePieces, portPieces, List.append_assoc, List.append_nil] at hfill <;>
      simp only [List.append_assoc, List.append_nil, hfill, Res.bind_ok, bs, W]
  · rw [action_len_leaf v' (by simp [v', ctnatV, V.kind])]
    simp only [v', Action.lenLeaf, ctnatV, V.kind]
    have := hlenM L (.bytes []) hL8
    simp only [ctnatV] at this
    exact this
  · intro data tail k hd hb
    have hlen := Slice.len_ge_of_bytes data _ _ hb
    rw [hbl] at hlen
    have hb' : data.bytes = nxHdrBytes L Gen.openflow13.NXAST_NAT ++ (zeros 2 ++ (be16 (n16 fl) ++
        (be16 (n16 (rangeBits a4 b4 a6 b6 pa pb)) ++ (W ++ (zeros (L - (16 + W.length)) ++ tail))))) := by
      rw [hb]; simp only [bs, List.append_assoc]
    rw [decodeAction_nx data hd L Gen.openflow13.NXAST_NAT (by decide) _ hb' NXActionCTNAT.zero rfl (by decide)]
    simp only [Action.unmarshalLeaf, NXActionCTNAT.zero, V.kind, NXActionCTNAT.unmarshal, NXActionHeader.fresh]
    rw [nxHeader_unmarshal _ data hd L Gen.openflow13.NXAST_NAT hL (by decide) _ hb']
    have hr : round8 (n16 L) = n16 L := by rw [round8_n16 _ (by omega), hL8]
    simp only [tryE, Res.bind_ok, nxHdr_length, hr, nxHdr_setLength L _ L hL, n16_toNat L hL]
    rw [if_neg (by omega)]
    have e12 : rd16 (data.bytes.drop 12) = some (n16 fl) := by
      rw [hb']; exact rd16_be16 _ _
    have e14 : rd16 (data.bytes.drop 14) = some (n16 (rangeBits a4 b4 a6 b6 pa pb)) := by
      rw [hb']; exact rd16_be16 _ _
    obtain ⟨b0, b1, b2, b3, b4', b5⟩ := has_rangeBits a4 b4 a6 b6 pa pb
    have d0 : data.bytes.drop 16 = v4Wire a4 ++ (v4Wire b4 ++ (a6.getD [] ++ (b6.getD [] ++ (portWire pa ++ (portWire pb ++
        (zeros (L - (16 + W.length)) ++ tail)))))) := by
      rw [hb']; simp only [W, rangesWire, List.append_assoc]; rfl
    have d1 := drop_step _ _ _ _ d0
    have d2 := drop_step _ _ _ _ d1
    have d3 := drop_step _ _ _ _ d2
    have d4 := drop_step _ _ _ _ d3
    have d5 := drop_step _ _ _ _ d4
    simp only [Slice.u16From_eq, e12, e14, Res.ofOption, Res.bind_ok, b0, b1, b2, b3, b4', b5,
      rdIPv4_opt data a4 16 _ d0, rdIPv4_opt data b4 _ _ d1, rdIPv6_opt data hd a6 ha6 _ _ d2, rdIPv6_opt data hd b6 hb6 _ _ d3,
      rdPort_opt data pa hpa _ _ d4, rdPort_opt data pb hpb _ _ d5, Res.pure_eq, u16_n16 fl hfl,
      u16_n16 _ (Nat.lt_trans (rangeBits_lt a4 b4 a6 b6 pa pb) (by decide))]
    rfl

end OFV.RT2
