/-
  OFV.Lemmas.RoundTripCore — tools for the encode/decode round-trip theorems of C09.
  The encoders are `fill L pieces`; when the pieces fit exactly the result is their concatenation (`fill_ok`).
  The decoders read a `Slice` whose backing array is that concatenation; to let `simp` evaluate the reads on explicit
  cons cells without normalising the big-endian arithmetic away, the bytes of a word are named (`hi16`, `lo16`, `b3` …)
  and the word assembled from bytes is named (`mk16`, `mk32`); `mk16 (hi16 v) (lo16 v) = v`.
-/
import OFV.Model.Proto
import OFV.Lemmas.Fill
import OFV.Lemmas.Read
namespace OFV.Lemmas.RT
open OFV OFV.Go OFV.Model

/-! ### named bytes of big-endian words -/
def hi16 (v : UInt16) : UInt8 := UInt8.ofNat (v.toNat / 256)
def lo16 (v : UInt16) : UInt8 := UInt8.ofNat (v.toNat % 256)
def mk16 (a b : UInt8) : UInt16 := UInt16.ofNat (a.toNat * 256 + b.toNat)

def b3 (v : UInt32) : UInt8 := UInt8.ofNat (v.toNat / 16777216)
def b2 (v : UInt32) : UInt8 := UInt8.ofNat (v.toNat / 65536 % 256)
def b1 (v : UInt32) : UInt8 := UInt8.ofNat (v.toNat / 256 % 256)
def b0 (v : UInt32) : UInt8 := UInt8.ofNat (v.toNat % 256)
def mk32 (a b c d : UInt8) : UInt32 := UInt32.ofNat (a.toNat * 16777216 + b.toNat * 65536 + c.toNat * 256 + d.toNat)

theorem be16_cells (v : UInt16) : be16 v = [hi16 v, lo16 v] := rfl
theorem be32_cells (v : UInt32) : be32 v = [b3 v, b2 v, b1 v, b0 v] := rfl
theorem rd16_cons (a b : UInt8) (r : Bytes) : rd16 (a :: b :: r) = some (mk16 a b) := rfl
theorem rd32_cons (a b c d : UInt8) (r : Bytes) : rd32 (a :: b :: c :: d :: r) = some (mk32 a b c d) := rfl

theorem rd16_take (k : Nat) (a b : UInt8) (r : Bytes) (h : 2 ≤ k) : rd16 (List.take k (a :: b :: r)) = some (mk16 a b) := by
  obtain ⟨j, rfl⟩ : ∃ j, k = j + 2 := ⟨k - 2, by omega⟩
  rfl
theorem rd32_take (k : Nat) (a b c d : UInt8) (r : Bytes) (h : 4 ≤ k) :
    rd32 (List.take k (a :: b :: c :: d :: r)) = some (mk32 a b c d) := by
  obtain ⟨j, rfl⟩ : ∃ j, k = j + 4 := ⟨k - 4, by omega⟩
  rfl

@[simp] theorem mk16_cells (v : UInt16) : mk16 (hi16 v) (lo16 v) = v := by
  have := rd16_be16 v []
  simpa [be16, rd16, mk16, hi16, lo16] using this

@[simp] theorem mk32_cells (v : UInt32) : mk32 (b3 v) (b2 v) (b1 v) (b0 v) = v := by
  have := rd32_be32 v []
  simpa [be32, rd32, mk32, b3, b2, b1, b0] using this

/-- every pair of bytes is the big-endian form of the word read from it -/
theorem cells_mk16 (a b : UInt8) : be16 (mk16 a b) = [a, b] := be16_rd16 a b
theorem cells_mk32 (a b c d : UInt8) : be32 (mk32 a b c d) = [a, b, c, d] := be32_rd32 a b c d

/-! ### numeric fields within their width -/
theorem n8_toNat (n : Nat) (h : n < 256) : (n8 n).toNat = n := by
  simp only [n8, UInt8.toNat_ofNat']; omega
theorem n16_toNat (n : Nat) (h : n < 65536) : (n16 n).toNat = n := by
  simp only [n16, UInt16.toNat_ofNat']; omega
theorem n32_toNat (n : Nat) (h : n < 4294967296) : (n32 n).toNat = n := by
  simp only [n32, UInt32.toNat_ofNat']; omega

theorem u8_n8 (n : Nat) (h : n < 256) : V.u8 (n8 n) = .num n := by simp [V.u8, n8_toNat n h]
theorem u16_n16 (n : Nat) (h : n < 65536) : V.u16 (n16 n) = .num n := by simp [V.u16, n16_toNat n h]
theorem u32_n32 (n : Nat) (h : n < 4294967296) : V.u32 (n32 n) = .num n := by simp [V.u32, n32_toNat n h]

/-! ### encoder / copy facts -/
theorem fill_ok (L : Nat) (ps : List Piece) (ht : ∀ p ∈ ps, p.Tight) (hfit : piecesLen ps = L) :
    fill L ps = .ok (piecesBytes ps) := by
  subst hfit; exact fill_exact' ps ht

theorem fill_ok_le (L : Nat) (ps : List Piece) (ht : ∀ p ∈ ps, p.Tight) (hfit : piecesLen ps ≤ L) :
    ∃ out, fill L ps = .ok out := ⟨_, fill_exact L ps ht hfit⟩

theorem makeCopy_self (n : Nat) (bs : Bytes) (h : bs.length = n) : makeCopy n bs = bs := by
  subst h
  simp [makeCopy, copyInto]

theorem pFitTo_self (k : Nat) (b : Bytes) (h : b.length = k) : pFitTo k b = b := by
  subst h; simp [pFitTo, zeros]

theorem pIpTo4_four (ip : Bytes) (h : ip.length = 4) : pIpTo4 ip = ip := by
  simp [pIpTo4, pIpTo4?, h]

theorem bytes_len4 (b : Bytes) (h : b.length = 4) : ∃ x0 x1 x2 x3, b = [x0, x1, x2, x3] := by
  match b, h with
  | [x0, x1, x2, x3], _ => exact ⟨x0, x1, x2, x3, rfl⟩

theorem bytes_len6 (b : Bytes) (h : b.length = 6) : ∃ x0 x1 x2 x3 x4 x5, b = [x0, x1, x2, x3, x4, x5] := by
  match b, h with
  | [x0, x1, x2, x3, x4, x5], _ => exact ⟨x0, x1, x2, x3, x4, x5, rfl⟩

/-- the first `n` bytes of a buffer that starts with an `n`-byte string -/
theorem take_prefix (n : Nat) (a r : Bytes) (h : a.length = n) : List.take n (a ++ r) = a := by
  subst h; simp

/-- binding after a conditional = conditional of the bindings (lets the `do` blocks of the decoders be folded back) -/
theorem bind_ite {α β} (c : Prop) [Decidable c] (a b : R α) (f : α → R β) :
    ((if c then a else b) >>= f) = if c then a >>= f else b >>= f := by
  split <;> rfl

theorem bytes_len16 (b : Bytes) (h : b.length = 16) :
    ∃ x0 x1 x2 x3 x4 x5 x6 x7 x8 x9 x10 x11 x12 x13 x14 x15,
      b = [x0, x1, x2, x3, x4, x5, x6, x7, x8, x9, x10, x11, x12, x13, x14, x15] := by
  match b, h with
  | [x0, x1, x2, x3, x4, x5, x6, x7, x8, x9, x10, x11, x12, x13, x14, x15], _ =>
    exact ⟨x0, x1, x2, x3, x4, x5, x6, x7, x8, x9, x10, x11, x12, x13, x14, x15, rfl⟩

/-- copying a list of encodings one after the other -/
theorem copy_pieces (ws : List Bytes) :
    piecesBytes (ws.map pCopy) = ws.flatten ∧ piecesLen (ws.map pCopy) = ws.flatten.length ∧
      ∀ p ∈ ws.map pCopy, p.Tight := by
  induction ws with
  | nil => exact ⟨rfl, rfl, by simp⟩
  | cons w ws ih =>
    obtain ⟨i1, i2, i3⟩ := ih
    refine ⟨?_, ?_, ?_⟩
    · simp only [List.map_cons, List.flatten_cons, ← i1]; simp [piecesBytes, Piece.bytes, pCopy]
    · simp only [List.map_cons, List.flatten_cons, List.length_append, ← i2]; simp [piecesLen, Piece.adv, pCopy]
    · intro p hp
      simp only [List.map_cons, List.mem_cons] at hp
      rcases hp with rfl | hp
      · simp [Piece.Tight, pCopy]
      · exact i3 p hp

/-- only the nil value is nil -/
theorem isNil_eq (X : V) (h : X.isNil = true) : X = .nil := by
  cases X <;> simp_all [V.isNil]

/-! ### tactics -/

/-- evaluate the decoder's reads on a slice whose backing array is an explicit concatenation -/
macro "rt_reads" "[" ts:Lean.Parser.Tactic.simpLemma,* "]" : tactic =>
  `(tactic| simp [be16_cells, be32_cells, rd16_cons, rd32_cons, rd16_take, rd32_take, Slice.byteAt, Slice.index,
      Slice.u16In, Slice.u32In, Slice.u16From, Slice.u32From, Slice.sliceR, Slice.slice, Slice.fromR, Slice.from_,
      Res.ofOption, Slice.u16Here, Slice.u32Here, Slice.bytes, u8_n8, u16_n16, u32_n32, makeCopy_self, $ts,*])

/-- rewrite `fill L pieces` whose pieces fit exactly into the concatenation of the pieces -/
macro "rt_fill" : tactic =>
  `(tactic| rw [fill_ok _ _ (by simp [Piece.Tight, pU8, pU16, pU32, pCopy, pCopyIn])
      (by simp [piecesLen, Piece.adv, pU8, pU16, pU32, pCopy, pCopyIn] <;> omega)])

end OFV.Lemmas.RT
