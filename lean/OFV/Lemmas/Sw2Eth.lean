/-
  OFV.Lemmas.Sw2Eth — decoding the specification's byte layout of an Ethernet frame, layer by layer:
  Ethernet II (untagged, 802.1Q-tagged), IPv4 (IHL 5), ICMP, UDP, opaque payloads.  Each layer is generic in the
  payload it carries (`Dec f bytes value`: the decoder `f` maps every well-formed slice showing `bytes` to `value`).
  IPv6 is in Sw2Ip6.lean.  Used by OFV/Props/C04b.lean.
-/
import OFV.Model.All
import OFV.Lemmas.SwBasic
import OFV.Lemmas.SwMatch
import OFV.Lemmas.RTBasic
namespace OFV.Sw2
open OFV OFV.Go OFV.Model

/-- the decoder `f` maps every well-formed slice whose visible bytes are `b` to the value `v` -/
def Dec (f : Slice → R V) (b : Bytes) (v : V) : Prop := ∀ r : Slice, r.WF → r.bytes = b → f r = .ok v

/-! ### bit fields as arithmetic -/

theorem and_mask (x n : Nat) (m : Nat) (hm : m = 2 ^ n - 1) : x &&& m = x % 2 ^ n := by
  subst hm; exact Nat.and_two_pow_sub_one_eq_mod x n

theorem v4_ver (b : UInt8) : (PIPv4.unpackVersion b).toNat = b.toNat / 16 := by
  unfold PIPv4.unpackVersion
  rw [UInt8.toNat_shiftRight]
  show b.toNat >>> 4 = _
  rw [Nat.shiftRight_eq_div_pow]

theorem v4_ihl (b : UInt8) : (PIPv4.unpackIHL b).toNat = b.toNat % 16 := by
  unfold PIPv4.unpackIHL
  rw [UInt8.toNat_and]
  exact and_mask _ 4 _ rfl

theorem v4_dscp (b : UInt8) : (PIPv4.unpackDSCP b).toNat = b.toNat / 4 := by
  unfold PIPv4.unpackDSCP
  rw [UInt8.toNat_shiftRight]
  show b.toNat >>> 2 = _
  rw [Nat.shiftRight_eq_div_pow]

theorem v4_ecn (b : UInt8) : (PIPv4.unpackECN b).toNat = b.toNat % 4 := by
  unfold PIPv4.unpackECN
  rw [UInt8.toNat_and]
  exact and_mask _ 2 _ rfl

theorem v4_flags (w : UInt16) : (PIPv4.unpackFlags w).toNat = w.toNat / 8192 := by
  unfold PIPv4.unpackFlags
  rw [UInt16.toNat_shiftRight]
  show w.toNat >>> 13 = _
  rw [Nat.shiftRight_eq_div_pow]

theorem v4_frag (w : UInt16) : (PIPv4.unpackFrag w).toNat = w.toNat % 8192 := by
  unfold PIPv4.unpackFrag
  rw [UInt16.toNat_and]
  exact and_mask _ 13 _ rfl

theorem vlan_pcp (w : UInt16) : (PVLAN.unpackPCP w).toNat = w.toNat / 8192 := by
  unfold PVLAN.unpackPCP
  have hw := w.toNat_lt
  rw [UInt16.toNat_toUInt8, UInt16.toNat_shiftRight, UInt16.toNat_and]
  show ((57344 &&& w.toNat) >>> 13) % 256 = _
  rw [Nat.shiftRight_and_distrib]
  show (7 &&& w.toNat >>> 13) % 256 = _
  rw [Nat.and_comm, and_mask _ 3 7 rfl, Nat.shiftRight_eq_div_pow]
  omega

theorem vlan_dei (w : UInt16) : (PVLAN.unpackDEI w).toNat = w.toNat / 4096 % 2 := by
  unfold PVLAN.unpackDEI
  have hw := w.toNat_lt
  rw [UInt16.toNat_toUInt8, UInt16.toNat_shiftRight, UInt16.toNat_and]
  show ((4096 &&& w.toNat) >>> 12) % 256 = _
  rw [Nat.shiftRight_and_distrib]
  show (1 &&& w.toNat >>> 12) % 256 = _
  rw [Nat.and_comm, and_mask _ 1 1 rfl, Nat.shiftRight_eq_div_pow]
  omega

theorem vlan_vid (w : UInt16) : (PVLAN.unpackVID w).toNat = w.toNat % 4096 := by
  unfold PVLAN.unpackVID
  rw [UInt16.toNat_and, Nat.and_comm]
  exact and_mask _ 12 _ rfl

/-! ### leaf payloads -/

/-- an opaque payload is kept byte for byte -/
theorem buffer_dec (recv : V) (pb : Bytes) : Dec (UBuffer.unmarshal recv) pb (.obj "u.Buffer" [.bytes pb]) := by
  intro r _ hb
  unfold UBuffer.unmarshal UBuffer.mk
  rw [hb]

/-- ICMP / ICMPv6: type(1), code(1), checksum(2), data -/
theorem icmp_dec (recv : V) (ty code : UInt8) (cs : UInt16) (data : Bytes) :
    Dec (PICMP.unmarshal recv) ([ty, code] ++ (be16 cs ++ data))
      (.obj "p.ICMP" [.num ty.toNat, .num code.toNat, .num cs.toNat, .bytes data]) := by
  intro r hwf hb
  have hl : r.len = 4 + data.length := by rw [← Sw.bytes_length r hwf, hb]; simp; omega
  obtain ⟨t, h1, _, _, ht⟩ := Sw.fromR_at r hwf 4 (by omega)
  rw [hb] at ht
  have ht' : t.bytes = data := ht
  unfold PICMP.unmarshal
  rw [if_neg (by omega)]
  simp only [Sw.byteAt_at r 0 ty _ (by rw [hb]; rfl), Sw.byteAt_at r 1 code _ (by rw [hb]; rfl),
    Sw.u16In_at r hwf 2 4 cs data (by omega) (by omega) (by rw [hb]; rfl), h1, Res.bind_ok, ht', hl]
  rw [show 4 + data.length - 4 = data.length by omega, RT.makeCopy_self _ _ rfl]
  rfl

/-- UDP: source port(2), destination port(2), length(2), checksum(2), data (receiver: a fresh `NewUDP()`) -/
theorem udp_dec (sport dport len cs : UInt16) (data : Bytes) :
    Dec (PUDP.unmarshal PIPv4.newUDP) (be16 sport ++ (be16 dport ++ (be16 len ++ (be16 cs ++ data))))
      (.obj "p.UDP" [.num sport.toNat, .num dport.toNat, .num len.toNat, .num cs.toNat, .bytes data]) := by
  intro r hwf hb
  have hl : r.len = 8 + data.length := by rw [← Sw.bytes_length r hwf, hb]; simp; omega
  obtain ⟨t, h1, _, _, ht⟩ := Sw.fromR_at r hwf 8 (by omega)
  rw [hb] at ht
  have ht' : t.bytes = data := ht
  unfold PUDP.unmarshal PIPv4.newUDP
  rw [if_neg (by omega)]
  simp only [Sw.u16In_at r hwf 0 2 sport _ (by omega) (by omega) (by rw [hb]; rfl),
    Sw.u16In_at r hwf 2 4 dport _ (by omega) (by omega) (by rw [hb]; rfl),
    Sw.u16In_at r hwf 4 6 len _ (by omega) (by omega) (by rw [hb]; rfl),
    Sw.u16In_at r hwf 6 8 cs _ (by omega) (by omega) (by rw [hb]; rfl), h1, Res.bind_ok, ht']
  rfl

/-! ### IPv4 -/

/-- what the IPv4 decoder does with the bytes behind the header, by protocol number -/
def ip4Data (pr : UInt8) (rest : Slice) : R V :=
  if pr.toNat = Gen.protocol.Type_ICMP then PICMP.unmarshal PIPv4.newICMP rest
  else if pr.toNat = Gen.protocol.Type_UDP then PUDP.unmarshal PIPv4.newUDP rest
  else UBuffer.unmarshal UBuffer.zero rest

theorem ip4Data_icmp (pb : Bytes) (pv : V) (h : Dec (PICMP.unmarshal PIPv4.newICMP) pb pv) : Dec (ip4Data 1) pb pv := h

theorem ip4Data_udp (pb : Bytes) (pv : V) (h : Dec (PUDP.unmarshal PIPv4.newUDP) pb pv) : Dec (ip4Data 17) pb pv := h

theorem ip4Data_other (pr : UInt8) (h1 : pr.toNat ≠ 1) (h17 : pr.toNat ≠ 17) (pb : Bytes) :
    Dec (ip4Data pr) pb (.obj "u.Buffer" [.bytes pb]) := by
  intro r hwf hb
  unfold ip4Data
  rw [if_neg (show ¬ pr.toNat = Gen.protocol.Type_ICMP from h1), if_neg (show ¬ pr.toNat = Gen.protocol.Type_UDP from h17)]
  exact buffer_dec _ pb r hwf hb

/-- IPv4 header without options (IHL 5): version/IHL(1), DSCP/ECN(1), total length(2), identification(2),
    flags/fragment offset(2), TTL(1), protocol(1), header checksum(2), source(4), destination(4), payload -/
theorem ipv4_dec (b0 b1 : UInt8) (totalLen ident flagsFrag : UInt16) (ttl proto : UInt8) (cs : UInt16)
    (src dst : Bytes) (pb : Bytes) (pv : V) (hihl : b0.toNat % 16 = 5) (hsrc : src.length = 4) (hdst : dst.length = 4)
    (hp : Dec (ip4Data proto) pb pv) :
    Dec (PIPv4.unmarshal PIPv4.zero)
      ([b0, b1] ++ (be16 totalLen ++ (be16 ident ++ (be16 flagsFrag ++ ([ttl, proto] ++ (be16 cs ++ (src ++ (dst ++ pb))))))))
      (.obj "p.IPv4" [.num (b0.toNat / 16), .num 5, .num (b1.toNat / 4), .num (b1.toNat % 4), .num totalLen.toNat,
        .num ident.toNat, .num (flagsFrag.toNat / 8192), .num (flagsFrag.toNat % 8192), .num ttl.toNat, .num proto.toNat,
        .num cs.toNat, .bytes src, .bytes dst, .obj "u.Buffer" [.bytes []], pv]) := by
  intro r hwf hb
  obtain ⟨s0, s1, s2, s3, rfl⟩ := Sw.len4 src hsrc
  obtain ⟨d0, d1, d2, d3, rfl⟩ := Sw.len4 dst hdst
  have hl : r.len = 20 + pb.length := by rw [← Sw.bytes_length r hwf, hb]; simp; omega
  obtain ⟨t1, e1, _, _, ht1⟩ := Sw.sliceR_at r hwf 12 16 (by omega) (by omega)
  obtain ⟨t2, e2, _, _, ht2⟩ := Sw.sliceR_at r hwf 16 20 (by omega) (by omega)
  obtain ⟨t3, e3, _, _, ht3⟩ := Sw.sliceR_at r hwf 20 20 (by omega) (by omega)
  obtain ⟨rest, e4, hrwf, _, hrest⟩ := Sw.fromR_at r hwf 20 (by omega)
  rw [hb] at ht1 ht2 ht3 hrest
  have hrest' : rest.bytes = pb := hrest
  have hihl8 : PIPv4.unpackIHL b0 = 5 := UInt8.toNat_inj.mp (by rw [v4_ihl, hihl]; rfl)
  have hpay := hp rest hrwf hrest'
  unfold ip4Data at hpay
  unfold PIPv4.unmarshal
  rw [if_neg (by omega)]
  simp only [Sw.byteAt_at r 0 b0 _ (by rw [hb]; rfl), Sw.byteAt_at r 1 b1 _ (by rw [hb]; rfl),
    Sw.u16From_at r 2 totalLen _ (by rw [hb]; rfl), Sw.u16From_at r 4 ident _ (by rw [hb]; rfl),
    Sw.u16From_at r 6 flagsFrag _ (by rw [hb]; rfl), Sw.byteAt_at r 8 ttl _ (by rw [hb]; rfl),
    Sw.byteAt_at r 9 proto _ (by rw [hb]; rfl), Sw.u16From_at r 10 cs _ (by rw [hb]; rfl), e1, e2, Res.bind_ok, hihl8]
  rw [if_neg (by rw [hl]; simp)]
  show (r.sliceR 20 20 >>= fun osl => _) = _
  simp only [e3, Res.bind_ok, UBuffer.unmarshal, UBuffer.mk]
  show (r.fromR 20 >>= fun rest => _) = _
  simp only [e4, Res.bind_ok, Res.pure_eq, V.u8, V.u16, v4_ver, v4_dscp, v4_ecn, v4_flags, v4_frag, ht1, ht2, ht3]
  by_cases c1 : proto.toNat = Gen.protocol.Type_ICMP
  · rw [if_pos c1] at hpay ⊢; rw [hpay]; rfl
  · rw [if_neg c1] at hpay ⊢
    by_cases c2 : proto.toNat = Gen.protocol.Type_UDP
    · rw [if_pos c2] at hpay ⊢; rw [hpay]; rfl
    · rw [if_neg c2] at hpay ⊢
      unfold UBuffer.unmarshal UBuffer.mk at hpay
      cases hpay; rfl

/-! ### Ethernet II -/

/-- what the Ethernet decoder does with the bytes behind the ethertype -/
def ethData (et : UInt16) (rest : Slice) : R V :=
  if et.toNat = Gen.protocol.IPv4_MSG then PIPv4.unmarshal PIPv4.zero rest
  else if et.toNat = Gen.protocol.IPv6_MSG then PIPv6.unmarshal PIPv6.zero rest
  else if et.toNat = Gen.protocol.ARP_MSG then PARP.unmarshal PARP.zero rest
  else UBuffer.unmarshal UBuffer.zero rest

theorem ethData_ipv4 (pb : Bytes) (pv : V) (h : Dec (PIPv4.unmarshal PIPv4.zero) pb pv) : Dec (ethData 0x0800) pb pv := h

theorem ethData_ipv6 (pb : Bytes) (pv : V) (h : Dec (PIPv6.unmarshal PIPv6.zero) pb pv) : Dec (ethData 0x86dd) pb pv := h

theorem ethData_arp (pb : Bytes) (pv : V) (h : Dec (PARP.unmarshal PARP.zero) pb pv) : Dec (ethData 0x0806) pb pv := h

theorem ethData_other (et : UInt16) (h4 : et.toNat ≠ 0x0800) (h6 : et.toNat ≠ 0x86dd) (ha : et.toNat ≠ 0x0806) (pb : Bytes) :
    Dec (ethData et) pb (.obj "u.Buffer" [.bytes pb]) := by
  intro r hwf hb
  unfold ethData
  rw [if_neg (show ¬ et.toNat = Gen.protocol.IPv4_MSG from h4), if_neg (show ¬ et.toNat = Gen.protocol.IPv6_MSG from h6),
    if_neg (show ¬ et.toNat = Gen.protocol.ARP_MSG from ha)]
  exact buffer_dec _ pb r hwf hb

/-- an Ethernet/IPv4 ARP packet: htype 1, ptype 0x0800, hlen 6, plen 4, operation, sender hardware address(6), sender
    protocol address(4), target hardware address(6), target protocol address(4) -/
theorem arp_dec (oper : UInt16) (sha spa tha tpa : Bytes) (hsha : sha.length = 6) (hspa : spa.length = 4)
    (htha : tha.length = 6) (htpa : tpa.length = 4) :
    Dec (PARP.unmarshal PARP.zero)
      (be16 1 ++ (be16 0x0800 ++ ([6, 4] ++ (be16 oper ++ (sha ++ (spa ++ (tha ++ tpa)))))))
      (.obj "p.ARP" [.num 1, .num 0x0800, .num 6, .num 4, .num oper.toNat, .bytes sha, .bytes spa, .bytes tha,
        .bytes tpa]) := by
  intro r hrwf hr
  obtain ⟨c0, c1, c2, c3, c4, c5, rfl⟩ := Sw.len6 sha hsha
  obtain ⟨e0, e1, e2, e3, e4, e5, rfl⟩ := Sw.len6 tha htha
  obtain ⟨f0, f1, f2, f3, rfl⟩ := Sw.len4 spa hspa
  obtain ⟨g0, g1, g2, g3, rfl⟩ := Sw.len4 tpa htpa
  have hrl' : r.len = 28 := by rw [← Sw.bytes_length r hrwf, hr]; rfl
  obtain ⟨t1, q1, _, _, ht1⟩ := Sw.sliceR_at r hrwf 8 14 (by omega) (by omega)
  obtain ⟨t2, q2, _, _, ht2⟩ := Sw.sliceR_at r hrwf 14 18 (by omega) (by omega)
  obtain ⟨t3, q3, _, _, ht3⟩ := Sw.sliceR_at r hrwf 18 24 (by omega) (by omega)
  obtain ⟨t4, q4, _, _, ht4⟩ := Sw.sliceR_at r hrwf 24 28 (by omega) (by omega)
  unfold PARP.unmarshal
  rw [if_neg (by omega)]
  simp only [Sw.u16In_at r hrwf 0 2 1 _ (by omega) (by omega) (by rw [hr]; rfl),
    Sw.u16In_at r hrwf 2 4 0x0800 _ (by omega) (by omega) (by rw [hr]; rfl),
    Sw.byteAt_at r 4 6 _ (by rw [hr]; rfl), Sw.byteAt_at r 5 4 _ (by rw [hr]; rfl),
    Sw.u16In_at r hrwf 6 8 oper _ (by omega) (by omega) (by rw [hr]; rfl), Res.bind_ok, hrl']
  rw [if_neg (by decide)]
  show (r.sliceR 8 14 >>= fun s1 => r.sliceR 14 18 >>= fun s2 => r.sliceR 18 24 >>= fun s3 =>
    r.sliceR 24 28 >>= fun s4 => _) = _
  simp only [q1, q2, q3, q4, Res.bind_ok, ht1, ht2, ht3, ht4, hr]
  rfl

/-- untagged Ethernet II frame: destination(6), source(6), ethertype(2) (not 0x8100), payload -/
theorem eth_untagged (dst src : Bytes) (et : UInt16) (pb : Bytes) (pv : V) (hdst : dst.length = 6) (hsrc : src.length = 6)
    (het : et.toNat ≠ 0x8100) (hp : Dec (ethData et) pb pv) :
    Dec (PEthernet.unmarshal PEthernet.zero) (dst ++ (src ++ (be16 et ++ pb)))
      (.obj "p.Ethernet" [.num 0, .bytes dst, .bytes src, .obj "p.VLAN" [.num 0, .num 0, .num 0, .num 0], .num et.toNat,
        pv]) := by
  intro de hwf h
  obtain ⟨a0, a1, a2, a3, a4, a5, rfl⟩ := Sw.len6 dst hdst
  obtain ⟨b0, b1, b2, b3, b4, b5, rfl⟩ := Sw.len6 src hsrc
  have hl : 14 + pb.length = de.len := by rw [← Sw.bytes_length de hwf, h]; simp; omega
  obtain ⟨s1, e1, _, _, hs1⟩ := Sw.sliceR_at de hwf 0 6 (by omega) (by omega)
  obtain ⟨s2, e2, _, _, hs2⟩ := Sw.sliceR_at de hwf 6 12 (by omega) (by omega)
  obtain ⟨r, e3, hrwf, _, hr⟩ := Sw.fromR_at de hwf 14 (by omega)
  rw [h] at hs1 hs2 hr
  have hr' : r.bytes = pb := hr
  have hpay := hp r hrwf hr'
  unfold ethData at hpay
  unfold PEthernet.unmarshal
  rw [if_neg (by omega)]
  simp only [PEthernet.zero, e1, e2, Sw.u16From_at de 12 et _ (by rw [h]; rfl), Res.bind_ok]
  rw [if_neg (show ¬ et.toNat = Gen.protocol.VLAN_MSG from het)]
  simp only [Res.bind_ok, e3, Res.pure_eq, hs1, hs2, PVLAN.zero, V.u16]
  by_cases c1 : et.toNat = Gen.protocol.IPv4_MSG
  · rw [if_pos c1] at hpay ⊢; rw [hpay]; rfl
  · rw [if_neg c1] at hpay ⊢
    by_cases c2 : et.toNat = Gen.protocol.IPv6_MSG
    · rw [if_pos c2] at hpay ⊢; rw [hpay]; rfl
    · rw [if_neg c2] at hpay ⊢
      by_cases c3 : et.toNat = Gen.protocol.ARP_MSG
      · rw [if_pos c3] at hpay ⊢; rw [hpay]; rfl
      · rw [if_neg c3] at hpay ⊢; rw [hpay]; rfl

/-- 802.1Q-tagged frame: destination(6), source(6), TPID 0x8100, TCI(2) = PCP(3 bits) DEI(1) VID(12), ethertype(2),
    payload.  The tag's fields come back as the bit fields of the TCI -/
theorem eth_tagged (dst src : Bytes) (tci et : UInt16) (pb : Bytes) (pv : V) (hdst : dst.length = 6) (hsrc : src.length = 6)
    (hp : Dec (ethData et) pb pv) :
    Dec (PEthernet.unmarshal PEthernet.zero) (dst ++ (src ++ (be16 0x8100 ++ (be16 tci ++ (be16 et ++ pb)))))
      (.obj "p.Ethernet" [.num 0, .bytes dst, .bytes src,
        .obj "p.VLAN" [.num 0x8100, .num (tci.toNat / 8192), .num (tci.toNat / 4096 % 2), .num (tci.toNat % 4096)],
        .num et.toNat, pv]) := by
  intro de hwf h
  obtain ⟨a0, a1, a2, a3, a4, a5, rfl⟩ := Sw.len6 dst hdst
  obtain ⟨b0, b1, b2, b3, b4, b5, rfl⟩ := Sw.len6 src hsrc
  have hl : 18 + pb.length = de.len := by rw [← Sw.bytes_length de hwf, h]; simp; omega
  obtain ⟨s1, e1, _, _, hs1⟩ := Sw.sliceR_at de hwf 0 6 (by omega) (by omega)
  obtain ⟨s2, e2, _, _, hs2⟩ := Sw.sliceR_at de hwf 6 12 (by omega) (by omega)
  obtain ⟨dv, e3, hdvwf, hdvl, hdv⟩ := Sw.fromR_at de hwf 12 (by omega)
  obtain ⟨r, e4, hrwf, _, hr⟩ := Sw.fromR_at de hwf 18 (by omega)
  rw [h] at hs1 hs2 hr hdv
  have hr' : r.bytes = pb := hr
  have hpay := hp r hrwf hr'
  unfold ethData at hpay
  have hvl : PVLAN.unmarshal PVLAN.zero dv = .ok (.obj "p.VLAN" [.num 0x8100, .num (tci.toNat / 8192),
      .num (tci.toNat / 4096 % 2), .num (tci.toNat % 4096)]) := by
    unfold PVLAN.unmarshal
    rw [if_neg (by omega)]
    simp only [Sw.u16In_at dv hdvwf 0 2 0x8100 _ (by omega) (by omega) (by rw [hdv]; rfl),
      Sw.u16From_at dv 2 tci _ (by rw [hdv]; rfl), Res.bind_ok, Res.pure_eq, V.u8, V.u16, vlan_pcp, vlan_dei, vlan_vid]
    rfl
  unfold PEthernet.unmarshal
  rw [if_neg (by omega)]
  simp only [PEthernet.zero, e1, e2, Sw.u16From_at de 12 0x8100 _ (by rw [h]; rfl), Res.bind_ok]
  rw [if_pos (by decide)]
  simp only [Res.bind_ok, e3, hvl]
  rw [if_neg (by omega)]
  simp only [Sw.u16From_at de 16 et _ (by rw [h]; rfl), Res.bind_ok, Res.pure_eq, e4, hs1, hs2, V.u16]
  by_cases c1 : et.toNat = Gen.protocol.IPv4_MSG
  · rw [if_pos c1] at hpay ⊢; rw [hpay]; rfl
  · rw [if_neg c1] at hpay ⊢
    by_cases c2 : et.toNat = Gen.protocol.IPv6_MSG
    · rw [if_pos c2] at hpay ⊢; rw [hpay]; rfl
    · rw [if_neg c2] at hpay ⊢
      by_cases c3 : et.toNat = Gen.protocol.ARP_MSG
      · rw [if_pos c3] at hpay ⊢; rw [hpay]; rfl
      · rw [if_neg c3] at hpay ⊢; rw [hpay]; rfl

end OFV.Sw2
