/-
  OFV.Lemmas.RTSwitchConfig — SwitchConfig (get-config reply / set-config) through Parse.  Used by OFV/Props/C05.lean.
-/
import OFV.Model.All
import OFV.Lemmas.Size
import OFV.Lemmas.RTBasic
import OFV.Lemmas.RTMsg
namespace OFV.RT
set_option linter.unusedSimpArgs false
open OFV OFV.Go OFV.Model

def switchConfigV (ver ty ln xid fl ms : Nat) : V :=
  .obj "SwitchConfig" [.obj "Header" [.num ver, .num ty, .num ln, .num xid], .num fl, .num ms]

/-- SwitchConfig (get-config reply 8, set-config 9) through Parse; MarshalBinary sets Header.Length = 12 -/
theorem switchConfig_rt (ver ty xid fl ms : Nat) (hver : ver < 256)
    (hty : ty = Gen.openflow13.Type_GetConfigReply ∨ ty = Gen.openflow13.Type_SetConfig)
    (hxid : xid < 4294967296) (hfl : fl < 65536) (hms : ms < 65536) :
    let bs := [n8 ver, n8 ty] ++ be16 (n16 12) ++ be32 (n32 xid) ++ be16 (n16 fl) ++ be16 (n16 ms)
    (∀ ln0, SwitchConfig.marshalM (switchConfigV ver ty ln0 xid fl ms) = .ok (bs, switchConfigV ver ty 12 xid fl ms)) ∧
    ∀ (depth : Nat) (data : Slice) (tail : Bytes), data.WF → data.bytes = bs ++ tail →
      parse depth data = .ok (switchConfigV ver ty 12 xid fl ms) := by
  intro bs
  have ht : ty < 256 := by rcases hty with h | h <;> (rw [h]; decide)
  refine ⟨?_, ?_⟩
  · intro ln0
    have hu : V.u16 (12 : UInt16) = .num 12 := rfl
    have h12 : (12 : UInt16).toNat = 12 := rfl
    simp only [switchConfigV, SwitchConfig.marshalM, SwitchConfig.lenM, same, Res.bind_ok, Header.setLength, Header.bytes, hu, h12]
    have hp : piecesLen [pCopy ([n8 ver, n8 ty] ++ be16 (n16 12) ++ be32 (n32 xid)), pU16 fl, pU16 ms] = 12 := rfl
    rw [fill_exact 12 _ (by intro p hp; simp at hp; rcases hp with rfl | rfl | rfl <;> trivial) (by rw [hp]; omega), hp]
    rfl
  · intro depth data tail hd hb
    have hb' : data.bytes = ([n8 ver, n8 ty] ++ be16 (n16 12) ++ be32 (n32 xid)) ++ (be16 (n16 fl) ++ (be16 (n16 ms) ++ tail)) := by
      rw [hb]; simp only [bs, List.append_assoc]
    obtain ⟨_, _, hdec⟩ := header_roundtrip ver ty 12 xid hver ht (by decide) hxid
    unfold parse
    obtain ⟨k, hk⟩ : ∃ k, max depth (data.cap + 1) = k + 1 := ⟨max depth (data.cap + 1) - 1, by omega⟩
    rw [hk]
    unfold parseD parseStep
    have e1 : data.bytes[1]? = some (n8 ty) := by rw [hb']; rfl
    have e8 : rd16 (data.bytes.drop 8) = some (n16 fl) := by
      rw [hb']
      have : List.drop 8 (([n8 ver, n8 ty] ++ be16 (n16 12) ++ be32 (n32 xid)) ++ (be16 (n16 fl) ++ (be16 (n16 ms) ++ tail)))
        = be16 (n16 fl) ++ (be16 (n16 ms) ++ tail) := rfl
      rw [this]; exact rd16_be16 _ _
    have e10 : rd16 (data.bytes.drop 10) = some (n16 ms) := by
      rw [hb']
      have : List.drop 10 (([n8 ver, n8 ty] ++ be16 (n16 12) ++ be32 (n32 xid)) ++ (be16 (n16 fl) ++ (be16 (n16 ms) ++ tail)))
        = be16 (n16 ms) ++ tail := rfl
      rw [this]; exact rd16_be16 _ _
    simp only [Slice.byteAt_eq, e1, Res.ofOption, Res.bind_ok, n8_toNat ty ht]
    rcases hty with h | h <;> subst h <;>
      simp only [Gen.openflow13.Type_EchoRequest, Gen.openflow13.Type_EchoReply, Gen.openflow13.Type_GetConfigRequest,
        Gen.openflow13.Type_BarrierRequest, Gen.openflow13.Type_BarrierReply, Gen.openflow13.Type_FeaturesRequest,
        Gen.openflow13.Type_Hello, Gen.openflow13.Type_Error, Gen.openflow13.Type_Experimenter,
        Gen.openflow13.Type_FeaturesReply, Gen.openflow13.Type_GetConfigReply, Gen.openflow13.Type_SetConfig,
        Nat.reduceEqDiff, reduceIte, if_false, if_true, or_true, true_or, or_false, false_or, or_self] <;>
      simp only [SwitchConfig.unmarshal, SwitchConfig.zero, SwitchConfig.new, msgTryU,
        hdec _ data _ hd hb', Res.bind_ok, Slice.u16From_eq, e8, e10, Res.ofOption, Bool.false_eq_true, if_false,
        Res.pure_eq, u16_n16 fl hfl, u16_n16 ms hms, recoverR, switchConfigV] <;> rfl

end OFV.RT
