/-
  OFV.Lemmas.RTHello — hello elements and Hello through Parse: the version-bitmap decoder consumes every 32-bit word up to
  the end of its buffer (`helloElem_decode`), so a Hello with exactly one element round-trips (`hello_one_rt`) and nothing
  else does.  Used by OFV/Props/C05.lean.
-/
import OFV.Model.All
import OFV.Lemmas.Size
import OFV.Lemmas.RTBasic
import OFV.Lemmas.RTMsg
namespace OFV.RT
set_option linter.unusedSimpArgs false
open OFV OFV.Go OFV.Model

/-- the words of a byte string made of big-endian 32-bit words -/
def wordsBytes (ws : List Nat) : Bytes := (ws.map (fun w => be32 (n32 w))).flatten

theorem wordsBytes_length (ws : List Nat) : (wordsBytes ws).length = 4 * ws.length := by
  induction ws with
  | nil => rfl
  | cons w ws ih =>
    simp only [wordsBytes, List.map_cons, List.flatten_cons, List.length_append, be32_length, List.length_cons] at ih ⊢
    omega

/-- the bitmap loop of HelloElemVersionBitmap.UnmarshalBinary: it consumes every 32-bit word up to the END OF THE BUFFER -/
theorem bitmap_loop (data : Slice) (hd : data.WF) (ws : List Nat) (hws : ∀ w ∈ ws, w < 4294967296) :
    ∀ (pre : Bytes) (acc : List V) (fuel : Nat),
      data.bytes = pre ++ wordsBytes ws → ws.length < fuel →
      goLoop (σ := HelloElemVersionBitmap.St) fuel (fun s => s.read < data.len) (·.read)
        (fun s => do
          let w ← data.u32In s.read (s.read + 4)
          pure { read := s.read + 4, bms := s.bms ++ [V.u32 w] })
        { read := pre.length, bms := acc }
      = .ok { read := data.len, bms := acc ++ ws.map V.num } := by
  induction ws with
  | nil =>
    intro pre acc fuel hb hfuel
    have hl : data.len = pre.length := by
      rw [← Slice.bytes_length data hd, hb]; simp [wordsBytes]
    cases fuel with
    | zero => simp at hfuel
    | succ k => simp [goLoop, hl]
  | cons w ws ih =>
    intro pre acc fuel hb hfuel
    have hw := hws w (by simp)
    have hl : data.len = pre.length + 4 * (w :: ws).length := by
      rw [← Slice.bytes_length data hd, hb, List.length_append, wordsBytes_length]
    simp only [List.length_cons] at hl
    cases fuel with
    | zero => simp at hfuel
    | succ k =>
      have e : rd32 ((data.bytes.drop pre.length).take (pre.length + 4 - pre.length)) = some (n32 w) := by
        rw [hb, List.drop_left' rfl]
        have : pre.length + 4 - pre.length = 4 := by omega
        rw [this]
        simp only [wordsBytes, List.map_cons, List.flatten_cons]
        rw [take_be32]; exact rd32_be32' _
      unfold goLoop
      have hcond : decide (pre.length < data.len) = true := by simp; omega
      simp only [hcond, if_true, Slice.u32In_eq data hd pre.length (pre.length + 4) (by omega) (by omega), e, Res.ofOption,
        Res.bind_ok, Res.pure_eq, u32_n32 w hw]
      have hcur : ¬ (pre.length + 4 ≤ pre.length) := by omega
      simp only [hcur, if_false]
      have := ih (fun x hx => hws x (by simp [hx])) (pre ++ be32 (n32 w)) (acc ++ [V.num w]) k
        (by rw [hb]; simp [wordsBytes]) (by simp only [List.length_cons] at hfuel; omega)
      simp only [List.length_append, be32_length, List.append_assoc, List.cons_append, List.nil_append] at this
      simp only [List.map_cons]
      exact this

/-- HelloElemVersionBitmap.UnmarshalBinary on an element header followed by ANY words `ws`: all of them become bitmaps -/
theorem helloElem_decode (recv : V) (data : Slice) (hd : data.WF) (t l : Nat) (ht : t < 65536) (hl : l < 65536)
    (ws : List Nat) (hws : ∀ w ∈ ws, w < 4294967296)
    (hb : data.bytes = be16 (n16 t) ++ be16 (n16 l) ++ wordsBytes ws) :
    HelloElemVersionBitmap.unmarshal recv data =
      .ok (.obj "HelloElemVersionBitmap" [.obj "HelloElemHeader" [.num t, .num l], .list (ws.map V.num)]) := by
  have hlen : data.len = 4 + 4 * ws.length := by
    rw [← Slice.bytes_length data hd, hb]
    simp only [List.length_append, be16_length, wordsBytes_length]
  unfold HelloElemVersionBitmap.unmarshal
  obtain ⟨d4, h41, h42, h43⟩ := Slice.uptoR_bytes data hd 4 (by omega)
  have hd4 : d4.WF := (Slice.sliceR_wf data 0 4 d4 h41).1
  have hd4b : d4.bytes = be16 (n16 t) ++ be16 (n16 l) := by
    rw [h42, hb]; simp only [List.append_assoc]; rfl
  have e0 : rd16 ((d4.bytes.drop 0).take (2 - 0)) = some (n16 t) := by rw [hd4b]; exact rd16_be16' _
  have e2 : rd16 ((d4.bytes.drop 2).take (4 - 2)) = some (n16 l) := by
    rw [hd4b]
    have : (List.drop 2 (be16 (n16 t) ++ be16 (n16 l))).take (4 - 2) = be16 (n16 l) := rfl
    rw [this]; exact rd16_be16' _
  have hhdr : ∀ r, HelloElemHeader.unmarshal r d4 = .ok (.obj "HelloElemHeader" [.num t, .num l]) := by
    intro r
    unfold HelloElemHeader.unmarshal
    rw [if_neg (by omega)]
    simp only [Slice.u16In_eq d4 hd4 0 2 (by omega) (by omega), Slice.u16In_eq d4 hd4 2 4 (by omega) (by omega), e0, e2,
      Res.ofOption, Res.bind_ok, Res.pure_eq, u16_n16 t ht, u16_n16 l hl]
  have hloop := bitmap_loop data hd ws hws (be16 (n16 t) ++ be16 (n16 l)) [] (data.len + 1) hb (by omega)
  simp only [List.length_append, be16_length, List.nil_append, Nat.reduceAdd] at hloop
  simp only [h41, Res.bind_ok, hhdr]
  erw [hloop]
  rfl


theorem helloElemHeader_unmarshal (recv : V) (data : Slice) (hd : data.WF) (t l : Nat) (ht : t < 65536) (hl : l < 65536)
    (rest : Bytes) (hb : data.bytes = be16 (n16 t) ++ be16 (n16 l) ++ rest) :
    HelloElemHeader.unmarshal recv data = .ok (.obj "HelloElemHeader" [.num t, .num l]) := by
  have hlen := Slice.len_ge_of_bytes data _ _ hb
  simp only [List.length_append, be16_length] at hlen
  have e0 : rd16 ((data.bytes.drop 0).take (2 - 0)) = some (n16 t) := by
    rw [hb]; simp only [List.append_assoc]; exact rd16_be16' _
  have e2 : rd16 ((data.bytes.drop 2).take (4 - 2)) = some (n16 l) := by
    rw [hb]; simp only [List.append_assoc]
    have : (List.drop 2 (be16 (n16 t) ++ (be16 (n16 l) ++ rest))).take (4 - 2) = be16 (n16 l) := rfl
    rw [this]; exact rd16_be16' _
  unfold HelloElemHeader.unmarshal
  rw [if_neg (by omega)]
  simp only [Slice.u16In_eq data hd 0 2 (by omega) (by omega), Slice.u16In_eq data hd 2 4 (by omega) (by omega), e0, e2,
    Res.ofOption, Res.bind_ok, Res.pure_eq, u16_n16 t ht, u16_n16 l hl]

theorem words_pieces (ws : List Nat) :
    piecesLen ((ws.map V.num).map (fun b => pU32 b.asNat)) = 4 * ws.length ∧
    piecesBytes ((ws.map V.num).map (fun b => pU32 b.asNat)) = wordsBytes ws ∧
    ∀ p ∈ (ws.map V.num).map (fun b => pU32 b.asNat), p.Tight := by
  induction ws with
  | nil => simp [piecesLen, piecesBytes, wordsBytes]
  | cons w ws ih =>
    obtain ⟨h1, h2, h3⟩ := ih
    simp only [piecesLen, piecesBytes] at h1 h2
    refine ⟨?_, ?_, ?_⟩
    · simp only [piecesLen, List.map_cons, List.sum_cons, h1]
      have : (pU32 (V.num w).asNat).adv = 4 := rfl
      rw [this]; simp only [List.length_cons]; omega
    · simp only [piecesBytes, List.map_cons, List.flatten_cons, h2]
      rfl
    · intro p hp
      simp only [List.map_cons, List.mem_cons] at hp
      rcases hp with rfl | hp
      · trivial
      · exact h3 p hp

/-- encoding of a version-bitmap element with bitmaps `ws` (its header Length field `l` is written as it is) -/
theorem helloElem_encode (t l : Nat) (ws : List Nat) (hk : 4 + 4 * ws.length < 65536) :
    let e := V.obj "HelloElemVersionBitmap" [.obj "HelloElemHeader" [.num t, .num l], .list (ws.map V.num)]
    HelloElemVersionBitmap.marshalM e = .ok (be16 (n16 t) ++ be16 (n16 l) ++ wordsBytes ws, e) ∧
    HelloElemVersionBitmap.len e = .ok (UInt16.ofNat (4 + 4 * ws.length)) := by
  intro e
  have hlen : HelloElemVersionBitmap.len e = .ok (UInt16.ofNat (4 + 4 * ws.length)) := by
    simp only [e, HelloElemVersionBitmap.len, List.length_map]
    congr 1
    apply UInt16.toNat_inj.mp
    rw [UInt16.toNat_add]
    simp [n16, UInt16.toNat_ofNat']
    omega
  refine ⟨?_, hlen⟩
  obtain ⟨h1, h2, h3⟩ := words_pieces ws
  have hto : (UInt16.ofNat (4 + 4 * ws.length)).toNat = 4 + 4 * ws.length := by
    simp [UInt16.toNat_ofNat']; omega
  have hpl : piecesLen (pCopy (be16 (n16 t) ++ be16 (n16 l)) :: (ws.map V.num).map (fun b => pU32 b.asNat)) = 4 + 4 * ws.length := by
    simp only [piecesLen, List.map_cons, List.sum_cons] at h1 ⊢
    rw [h1]; rfl
  have hpb : piecesBytes (pCopy (be16 (n16 t) ++ be16 (n16 l)) :: (ws.map V.num).map (fun b => pU32 b.asNat))
      = be16 (n16 t) ++ be16 (n16 l) ++ wordsBytes ws := by
    simp only [piecesBytes, List.map_cons, List.flatten_cons] at h2 ⊢
    rw [h2]; rfl
  unfold HelloElemVersionBitmap.marshalM
  simp only [e, hlen, Res.bind_ok, HelloElemHeader.bytes, hto]
  have := fill_exact' (pCopy (be16 (n16 t) ++ be16 (n16 l)) :: (ws.map V.num).map (fun b => pU32 b.asNat))
    (by intro p hp; simp only [List.mem_cons] at hp; rcases hp with rfl | hp; exact trivial; exact h3 p hp)
  rw [hpl, hpb] at this
  simp only [e] at hlen
  simp only [hlen, Res.bind_ok, hto, this, same]


def helloElemV (l : Nat) (ws : List Nat) : V :=
  .obj "HelloElemVersionBitmap" [.obj "HelloElemHeader" [.num 1, .num l], .list (ws.map V.num)]
def helloV (ver ln xid l : Nat) (ws : List Nat) : V :=
  .obj "Hello" [.obj "Header" [.num ver, .num 0, .num ln, .num xid], .list [helloElemV l ws]]

/-- Hello with ONE version-bitmap element through Parse, the buffer holding exactly the message -/
theorem hello_one_rt (ver xid l : Nat) (ws : List Nat) (hver : ver < 256) (hxid : xid < 4294967296) (hl : l < 65536)
    (hws : ∀ w ∈ ws, w < 4294967296) (hk : 12 + 4 * ws.length < 65536) :
    let bs := [n8 ver, n8 0] ++ be16 (n16 (12 + 4 * ws.length)) ++ be32 (n32 xid) ++ (be16 (n16 1) ++ be16 (n16 l) ++ wordsBytes ws)
    (∀ ln0, Hello.marshalM (helloV ver ln0 xid l ws) = .ok (bs, helloV ver (12 + 4 * ws.length) xid l ws)) ∧
    ∀ (depth : Nat) (data : Slice), data.WF → data.bytes = bs →
      parse depth data = .ok (helloV ver (12 + 4 * ws.length) xid l ws) := by
  intro bs
  obtain ⟨hem, hel⟩ := helloElem_encode 1 l ws (by omega)
  have hto : (UInt16.ofNat (4 + 4 * ws.length)).toNat = 4 + 4 * ws.length := by
    simp [UInt16.toNat_ofNat']; omega
  have h8 : ((8 : UInt16) + sum16 [UInt16.ofNat (4 + 4 * ws.length)]).toNat = 12 + 4 * ws.length := by
    have : sum16 [UInt16.ofNat (4 + 4 * ws.length)] = UInt16.ofNat (4 + 4 * ws.length) := by
      simp [sum16]
    rw [this, UInt16.toNat_add, hto]
    have : (8 : UInt16).toNat = 8 := rfl
    rw [this]; omega
  have hbl : bs.length = 12 + 4 * ws.length := by
    simp only [bs, List.length_append, be16_length, be32_length, wordsBytes_length, List.length_cons, List.length_nil]
    omega
  refine ⟨?_, ?_⟩
  · intro ln0
    have hlenM : ∀ ln, Hello.lenM (helloV ver ln xid l ws) =
        .ok ((8 : UInt16) + sum16 [UInt16.ofNat (4 + 4 * ws.length)], helloV ver ln xid l ws) := by
      intro ln
      simp only [helloV, helloElemV, Hello.lenM, mapM2, HelloElem.lenM, V.kind, HelloElemVersionBitmap.lenM, hel,
        Res.bind_ok, same, Res.pure_eq]
    unfold Hello.marshalM
    rw [hlenM]
    simp only [Res.bind_ok]
    rw [hlenM]
    simp only [Res.bind_ok, helloV, helloElemV, Header.setLength, Header.bytes, mapM2, HelloElem.marshalM, V.kind, hem,
      Res.pure_eq, h8, List.map_cons, List.map_nil, V.u16]
    have hp : piecesLen [pCopy ([n8 ver, n8 0] ++ be16 (n16 (12 + 4 * ws.length)) ++ be32 (n32 xid)),
        pCopy (be16 (n16 1) ++ be16 (n16 l) ++ wordsBytes ws)] = 12 + 4 * ws.length := by
      simp only [piecesLen, pCopy, Piece.adv, List.map_cons, List.map_nil, List.sum_cons, List.sum_nil, List.length_append,
        be16_length, be32_length, wordsBytes_length, List.length_cons, List.length_nil]
      omega
    have := fill_exact' [pCopy ([n8 ver, n8 0] ++ be16 (n16 (12 + 4 * ws.length)) ++ be32 (n32 xid)),
        pCopy (be16 (n16 1) ++ be16 (n16 l) ++ wordsBytes ws)]
      (by intro p hp; simp only [List.mem_cons, List.not_mem_nil, or_false] at hp; rcases hp with rfl | rfl <;> trivial)
    rw [hp] at this
    rw [this]
    simp [piecesBytes, pCopy, Piece.bytes, bs]
  · intro depth data hd hb
    have hlen : data.len = 12 + 4 * ws.length := by rw [← Slice.bytes_length data hd, hb, hbl]
    have hb' : data.bytes = ([n8 ver, n8 0] ++ be16 (n16 (12 + 4 * ws.length)) ++ be32 (n32 xid)) ++
        (be16 (n16 1) ++ be16 (n16 l) ++ wordsBytes ws) := by rw [hb]
    obtain ⟨_, _, hdec⟩ := header_roundtrip ver 0 (12 + 4 * ws.length) xid hver (by decide) hk hxid
    unfold parse
    obtain ⟨k, hk'⟩ : ∃ k, max depth (data.cap + 1) = k + 1 := ⟨max depth (data.cap + 1) - 1, by omega⟩
    rw [hk']
    unfold parseD parseStep
    have e1 : data.bytes[1]? = some (n8 0) := by rw [hb']; rfl
    have h0 : (n8 0).toNat = 0 := rfl
    simp only [Slice.byteAt_eq, e1, Res.ofOption, Res.bind_ok, h0, Gen.openflow13.Type_Hello, if_true]
    unfold Hello.unmarshal
    obtain ⟨d0, h01, h02, _⟩ := Slice.fromR_bytes data 0 (by omega)
    have hd0 : d0.WF := (Slice.fromR_wf data hd 0 d0 h01).1
    have hh := hdec Header.zero d0 _ hd0 (by rw [h02, hb']; rfl)
    obtain ⟨d8, h81, h82, _⟩ := Slice.fromR_bytes data 8 (by omega)
    have hd8 : d8.WF := (Slice.fromR_wf data hd 8 d8 h81).1
    have hd8b : d8.bytes = be16 (n16 1) ++ be16 (n16 l) ++ wordsBytes ws := by rw [h82, hb']; rfl
    have hEH := helloElemHeader_unmarshal HelloElemHeader.new d8 hd8 1 l (by decide) hl (wordsBytes ws) hd8b
    have hEV := helloElem_decode HelloElemVersionBitmap.new d8 hd8 1 l (by decide) hl ws hws hd8b
    obtain ⟨_, hel'⟩ := helloElem_encode 1 l ws (by omega)
    simp only [h01, Res.bind_ok, hh]
    -- the element loop: one iteration
    obtain ⟨f, hf⟩ : ∃ f, data.len + 1 = f + 2 := ⟨data.len - 1, by omega⟩
    rw [hf]
    unfold goLoop
    have hc1 : decide (8 < data.len) = true := by simp; omega
    simp only [hc1, if_true, h81, Res.bind_ok, hEH, hEV, hel', Res.pure_eq, hto]
    have hcur : ¬ (8 + (4 + 4 * ws.length) ≤ 8) := by omega
    simp only [hcur, if_false]
    unfold goLoop
    have hc2 : decide (8 + (4 + 4 * ws.length) < data.len) = false := by simp; omega
    simp only [hc2, Bool.false_eq_true, if_false, Res.bind_ok, List.nil_append, recoverR, helloV, helloElemV]

end OFV.RT
