/-
  OFV.Lemmas.RTHello — hello elements and Hello through Parse: the version-bitmap decoder reads the bitmaps up to the
  element's own Length (`helloElem_decode`), the element loop advances by the Length rounded up to 8 (`hello_loop`);
  the encoder stores Length = 4 + 4·#bitmaps in every element and pads it with zeros to a multiple of 8
  (`helloElem_encode`); a Hello with any number of version-bitmap elements, each with any number of bitmaps, round-trips
  (`hello_rt`).  Used by OFV/Props/C05.lean.
-/
import OFV.Model.All
import OFV.Lemmas.Size
import OFV.Lemmas.RTBasic
import OFV.Lemmas.RTMsg
import OFV.Lemmas.RTMatch
namespace OFV.RT
set_option linter.unusedSimpArgs false
open OFV OFV.Go OFV.Model

/-- the words of a byte string made of big-endian 32-bit words -/
def wordsBytes (ws : List Nat) : Bytes := (ws.map (fun w => be32 (n32 w))).flatten

theorem wordsBytes_length (ws : List Nat) : (wordsBytes ws).length = 4 * ws.length := by
  induction ws with
  | nil => rfl
  | cons w ws ih =>
    simp only [wordsBytes, List.map_cons, List.flatten_cons, List.length_append, be32_length, List.length_cons] at ih ⊢
    omega

/-- the bitmap loop of HelloElemVersionBitmap.UnmarshalBinary: it reads the 32-bit words up to the element's Length -/
theorem bitmap_loop (data : Slice) (hd : data.WF) (length : Nat) (rest : Bytes) (ws : List Nat)
    (hws : ∀ w ∈ ws, w < 4294967296) :
    ∀ (pre : Bytes) (acc : List V) (fuel : Nat),
      data.bytes = pre ++ wordsBytes ws ++ rest → length = pre.length + 4 * ws.length → ws.length < fuel →
      goLoop (σ := HelloElemVersionBitmap.St) fuel (fun s => s.read + 4 ≤ length) (·.read)
        (fun s => do
          let w ← data.u32In s.read (s.read + 4)
          pure { read := s.read + 4, bms := s.bms ++ [V.u32 w] })
        { read := pre.length, bms := acc }
      = .ok { read := length, bms := acc ++ ws.map V.num } := by
  induction ws with
  | nil =>
    intro pre acc fuel hb hl hfuel
    simp at hl
    subst hl
    cases fuel with
    | zero => simp at hfuel
    | succ k =>
      unfold goLoop
      have hc : decide (pre.length + 4 ≤ pre.length) = false := by simp
      simp only [hc, Bool.false_eq_true, if_false, List.map_nil, List.append_nil]
  | cons w ws ih =>
    intro pre acc fuel hb hl hfuel
    have hw := hws w (by simp)
    have hlen := Slice.bytes_length_le data
    rw [hb] at hlen
    simp only [List.length_append, wordsBytes_length, List.length_cons] at hlen hl
    cases fuel with
    | zero => simp at hfuel
    | succ k =>
      have e : rd32 ((data.bytes.drop pre.length).take (pre.length + 4 - pre.length)) = some (n32 w) := by
        rw [hb, List.append_assoc, List.drop_left' rfl]
        have : pre.length + 4 - pre.length = 4 := by omega
        rw [this]
        simp only [wordsBytes, List.map_cons, List.flatten_cons, List.append_assoc]
        rw [take_be32]; exact rd32_be32' _
      unfold goLoop
      have hcond : decide (pre.length + 4 ≤ length) = true := by simp; omega
      simp only [hcond, if_true, Slice.u32In_eq data hd pre.length (pre.length + 4) (by omega) (by omega), e, Res.ofOption,
        Res.bind_ok, Res.pure_eq, u32_n32 w hw]
      have hcur : ¬ (pre.length + 4 ≤ pre.length) := by omega
      simp only [hcur, if_false]
      have := ih (fun x hx => hws x (by simp [hx])) (pre ++ be32 (n32 w)) (acc ++ [V.num w]) k
        (by rw [hb]; simp [wordsBytes]) (by simp only [List.length_append, be32_length]; omega)
        (by simp only [List.length_cons] at hfuel; omega)
      simp only [List.length_append, be32_length, List.append_assoc, List.cons_append, List.nil_append] at this
      simp only [List.map_cons]
      exact this

/-- HelloElemVersionBitmap.UnmarshalBinary on an element (Length = 4 + 4·#bitmaps) followed by anything -/
theorem helloElem_decode (recv : V) (data : Slice) (hd : data.WF) (t : Nat) (ht : t < 65536)
    (ws : List Nat) (hws : ∀ w ∈ ws, w < 4294967296) (hl : 4 + 4 * ws.length < 65536) (rest : Bytes)
    (hb : data.bytes = be16 (n16 t) ++ be16 (n16 (4 + 4 * ws.length)) ++ wordsBytes ws ++ rest) :
    HelloElemVersionBitmap.unmarshal recv data =
      .ok (.obj "HelloElemVersionBitmap" [.obj "HelloElemHeader" [.num t, .num (4 + 4 * ws.length)], .list (ws.map V.num)]) := by
  have hlen := Slice.len_ge_of_bytes data _ _ hb
  simp only [List.length_append, be16_length, wordsBytes_length] at hlen
  unfold HelloElemVersionBitmap.unmarshal
  obtain ⟨d4, h41, h42, h43⟩ := Slice.uptoR_bytes data hd 4 (by omega)
  have hd4 : d4.WF := (Slice.sliceR_wf data 0 4 d4 h41).1
  have hd4b : d4.bytes = be16 (n16 t) ++ be16 (n16 (4 + 4 * ws.length)) := by
    rw [h42, hb]; simp only [List.append_assoc]; rfl
  have e0 : rd16 ((d4.bytes.drop 0).take (2 - 0)) = some (n16 t) := by rw [hd4b]; exact rd16_be16' _
  have e2 : rd16 ((d4.bytes.drop 2).take (4 - 2)) = some (n16 (4 + 4 * ws.length)) := by
    rw [hd4b]
    have : (List.drop 2 (be16 (n16 t) ++ be16 (n16 (4 + 4 * ws.length)))).take (4 - 2) = be16 (n16 (4 + 4 * ws.length)) := rfl
    rw [this]; exact rd16_be16' _
  have hhdr : ∀ r, HelloElemHeader.unmarshal r d4 = .ok (.obj "HelloElemHeader" [.num t, .num (4 + 4 * ws.length)]) := by
    intro r
    unfold HelloElemHeader.unmarshal
    rw [if_neg (by omega)]
    simp only [Slice.u16In_eq d4 hd4 0 2 (by omega) (by omega), Slice.u16In_eq d4 hd4 2 4 (by omega) (by omega), e0, e2,
      Res.ofOption, Res.bind_ok, Res.pure_eq, u16_n16 t ht, u16_n16 _ hl]
  have hloop := bitmap_loop data hd (4 + 4 * ws.length) rest ws hws (be16 (n16 t) ++ be16 (n16 (4 + 4 * ws.length))) []
    (data.len + 1) hb (by simp only [List.length_append, be16_length]) (by omega)
  simp only [List.length_append, be16_length, List.nil_append, Nat.reduceAdd] at hloop
  simp only [h41, Res.bind_ok, hhdr]
  rw [if_neg (by omega)]
  erw [hloop]
  rfl

theorem helloElemHeader_unmarshal (recv : V) (data : Slice) (hd : data.WF) (t l : Nat) (ht : t < 65536) (hl : l < 65536)
    (rest : Bytes) (hb : data.bytes = be16 (n16 t) ++ be16 (n16 l) ++ rest) :
    HelloElemHeader.unmarshal recv data = .ok (.obj "HelloElemHeader" [.num t, .num l]) := by
  have hlen := Slice.len_ge_of_bytes data _ _ hb
  simp only [List.length_append, be16_length] at hlen
  have e0 : rd16 ((data.bytes.drop 0).take (2 - 0)) = some (n16 t) := by
    rw [hb]; simp only [List.append_assoc]; exact rd16_be16' _
  have e2 : rd16 ((data.bytes.drop 2).take (4 - 2)) = some (n16 l) := by
    rw [hb]; simp only [List.append_assoc]
    have : (List.drop 2 (be16 (n16 t) ++ (be16 (n16 l) ++ rest))).take (4 - 2) = be16 (n16 l) := rfl
    rw [this]; exact rd16_be16' _
  unfold HelloElemHeader.unmarshal
  rw [if_neg (by omega)]
  simp only [Slice.u16In_eq data hd 0 2 (by omega) (by omega), Slice.u16In_eq data hd 2 4 (by omega) (by omega), e0, e2,
    Res.ofOption, Res.bind_ok, Res.pure_eq, u16_n16 t ht, u16_n16 l hl]

theorem words_pieces (ws : List Nat) :
    piecesLen ((ws.map V.num).map (fun b => pU32 b.asNat)) = 4 * ws.length ∧
    piecesBytes ((ws.map V.num).map (fun b => pU32 b.asNat)) = wordsBytes ws ∧
    ∀ p ∈ (ws.map V.num).map (fun b => pU32 b.asNat), p.Tight := by
  induction ws with
  | nil => simp [piecesLen, piecesBytes, wordsBytes]
  | cons w ws ih =>
    obtain ⟨h1, h2, h3⟩ := ih
    simp only [piecesLen, piecesBytes] at h1 h2
    refine ⟨?_, ?_, ?_⟩
    · simp only [piecesLen, List.map_cons, List.sum_cons, h1]
      have : (pU32 (V.num w).asNat).adv = 4 := rfl
      rw [this]; simp only [List.length_cons]; omega
    · simp only [piecesBytes, List.map_cons, List.flatten_cons, h2]
      rfl
    · intro p hp
      simp only [List.map_cons, List.mem_cons] at hp
      rcases hp with rfl | hp
      · trivial
      · exact h3 p hp

/-- padding behind a version-bitmap element with `n` bitmaps: 4 + 4n rounded up to a multiple of 8, minus 4 + 4n -/
def helloPad (n : Nat) : Nat := (4 + 4 * n + 7) / 8 * 8 - (4 + 4 * n)

theorem helloPad_eq (n : Nat) : 4 + 4 * n + helloPad n = (4 + 4 * n + 7) / 8 * 8 := by
  unfold helloPad; omega

/-- encoding of a version-bitmap element with bitmaps `ws`: whatever Length `l` is stored in its header, the encoder stores
    4 + 4·#ws there, and pads the element with zeros to a multiple of 8 -/
theorem helloElem_encode (t l : Nat) (ws : List Nat) (hk : 4 + 4 * ws.length + 7 < 65536) :
    HelloElemVersionBitmap.marshalM
        (.obj "HelloElemVersionBitmap" [.obj "HelloElemHeader" [.num t, .num l], .list (ws.map V.num)]) =
      .ok (be16 (n16 t) ++ be16 (n16 (4 + 4 * ws.length)) ++ wordsBytes ws ++ zeros (helloPad ws.length),
           .obj "HelloElemVersionBitmap" [.obj "HelloElemHeader" [.num t, .num (4 + 4 * ws.length)], .list (ws.map V.num)]) ∧
    HelloElemVersionBitmap.len
        (.obj "HelloElemVersionBitmap" [.obj "HelloElemHeader" [.num t, .num l], .list (ws.map V.num)]) =
      .ok (UInt16.ofNat ((4 + 4 * ws.length + 7) / 8 * 8)) := by
  have h4 : ((4 : UInt16) + n16 ((ws.map V.num).length * 4)).toNat = 4 + 4 * ws.length := by
    rw [UInt16.toNat_add]
    simp [n16, UInt16.toNat_ofNat']
    omega
  have hlen : HelloElemVersionBitmap.len
      (.obj "HelloElemVersionBitmap" [.obj "HelloElemHeader" [.num t, .num l], .list (ws.map V.num)]) =
      .ok (UInt16.ofNat ((4 + 4 * ws.length + 7) / 8 * 8)) := by
    simp only [HelloElemVersionBitmap.len]
    congr 1
    apply UInt16.toNat_inj.mp
    rw [UInt16.toNat_mul, UInt16.toNat_div, UInt16.toNat_add, h4]
    simp [UInt16.toNat_ofNat']
    omega
  refine ⟨?_, hlen⟩
  obtain ⟨h1, h2, h3⟩ := words_pieces ws
  have hto : (UInt16.ofNat ((4 + 4 * ws.length + 7) / 8 * 8)).toNat = (4 + 4 * ws.length + 7) / 8 * 8 := by
    simp [UInt16.toNat_ofNat']; omega
  have hpl : piecesLen (pCopy (be16 (n16 t) ++ be16 (n16 (4 + 4 * ws.length))) :: (ws.map V.num).map (fun b => pU32 b.asNat))
      = 4 + 4 * ws.length := by
    simp only [piecesLen, List.map_cons, List.sum_cons] at h1 ⊢
    rw [h1]; rfl
  have hpb : piecesBytes (pCopy (be16 (n16 t) ++ be16 (n16 (4 + 4 * ws.length))) :: (ws.map V.num).map (fun b => pU32 b.asNat))
      = be16 (n16 t) ++ be16 (n16 (4 + 4 * ws.length)) ++ wordsBytes ws := by
    simp only [piecesBytes, List.map_cons, List.flatten_cons] at h2 ⊢
    rw [h2]; rfl
  have hfill := fill_exact ((4 + 4 * ws.length + 7) / 8 * 8)
    (pCopy (be16 (n16 t) ++ be16 (n16 (4 + 4 * ws.length))) :: (ws.map V.num).map (fun b => pU32 b.asNat))
    (by intro p hp; simp only [List.mem_cons] at hp; rcases hp with rfl | hp; exact trivial; exact h3 p hp)
    (by rw [hpl]; omega)
  rw [hpl, hpb] at hfill
  unfold HelloElemVersionBitmap.marshalM
  simp only [hlen, Res.bind_ok, HelloElemHeader.bytes, hto, V.u16, h4, hfill, helloPad]


/-- a version-bitmap element with bitmaps `ws` and the matching Length 4 + 4·#ws -/
def helloElemV (ws : List Nat) : V :=
  .obj "HelloElemVersionBitmap" [.obj "HelloElemHeader" [.num 1, .num (4 + 4 * ws.length)], .list (ws.map V.num)]
/-- its encoding: header, bitmaps, zero padding to a multiple of 8 -/
def helloElemBytes (ws : List Nat) : Bytes :=
  be16 (n16 1) ++ be16 (n16 (4 + 4 * ws.length)) ++ wordsBytes ws ++ zeros (helloPad ws.length)
def helloV (ver ln xid : Nat) (wss : List (List Nat)) : V :=
  .obj "Hello" [.obj "Header" [.num ver, .num 0, .num ln, .num xid], .list (wss.map helloElemV)]
def helloBody (wss : List (List Nat)) : Bytes := (wss.map helloElemBytes).flatten

theorem helloElemBytes_length (ws : List Nat) : (helloElemBytes ws).length = (4 + 4 * ws.length + 7) / 8 * 8 := by
  simp only [helloElemBytes, List.length_append, be16_length, wordsBytes_length, zeros_length, helloPad]
  omega

def ElemsOK (wss : List (List Nat)) : Prop := ∀ ws ∈ wss, (∀ w ∈ ws, w < 4294967296) ∧ 4 + 4 * ws.length < 65536

/-- every element, padding included, fits a 16-bit length -/
def ElemsFit (wss : List (List Nat)) : Prop := ∀ ws ∈ wss, 4 + 4 * ws.length + 7 < 65536

theorem body_len_ge (wss : List (List Nat)) : 8 * wss.length ≤ (helloBody wss).length := by
  induction wss with
  | nil => simp [helloBody]
  | cons ws rest ih =>
    simp only [helloBody, List.map_cons, List.flatten_cons, List.length_append, helloElemBytes_length, List.length_cons] at ih ⊢
    omega

theorem elemsFit_of_body (wss : List (List Nat)) (hk : 8 + (helloBody wss).length < 65536) : ElemsFit wss := by
  induction wss with
  | nil => intro ws h; simp at h
  | cons ws rest ih =>
    simp only [helloBody, List.map_cons, List.flatten_cons, List.length_append, helloElemBytes_length] at hk
    intro x hx
    simp only [List.mem_cons] at hx
    rcases hx with rfl | hx
    · omega
    · exact ih (by simp only [helloBody]; omega) x hx

/-- the element loop of Hello.UnmarshalBinary: every element is padded to a multiple of 8, the cursor (advancing by the
    Length rounded up to 8) lands on the next element and, behind the last one, on the end of the buffer -/
theorem hello_loop (data : Slice) (hd : data.WF) (wss : List (List Nat)) :
    ∀ (pre : Bytes) (acc : List V) (fuel : Nat),
      data.bytes = pre ++ helloBody wss → ElemsOK wss → wss.length < fuel →
      ∃ n, goLoop (σ := Hello.St) fuel (fun s => s.next < data.len) (·.next)
        (fun s => do
          let d ← data.fromR s.next
          let e ← HelloElemHeader.unmarshal HelloElemHeader.new d
          match e with
          | .obj _ [.num ty, .num elen] =>
            if elen < 4 then .err else
            let adv := (elen + 7) / 8 * 8
            if ty = 1 then do
              let v ← HelloElemVersionBitmap.unmarshal HelloElemVersionBitmap.new d
              pure { next := s.next + adv, elems := s.elems ++ [v], err := false }
            else .ok { s with next := s.next + adv }
          | _ => .panic)
        { next := pre.length, elems := acc, err := false }
      = .ok { next := n, elems := acc ++ wss.map helloElemV, err := false } := by
  induction wss with
  | nil =>
    intro pre acc fuel hb _ hfuel
    have hl : data.len = pre.length := by
      rw [← Slice.bytes_length data hd, hb]; simp [helloBody]
    cases fuel with
    | zero => simp at hfuel
    | succ k => exact ⟨pre.length, by simp [goLoop, hl]⟩
  | cons ws rest ih =>
    intro pre acc fuel hb hok hfuel
    obtain ⟨hws, hk⟩ := hok ws (by simp)
    have hl : data.len = pre.length + ((4 + 4 * ws.length + 7) / 8 * 8 + (helloBody rest).length) := by
      rw [← Slice.bytes_length data hd, hb]
      simp only [helloBody, List.map_cons, List.flatten_cons, List.length_append, helloElemBytes_length]
    cases fuel with
    | zero => simp at hfuel
    | succ k =>
      obtain ⟨d, hd1, hd2, _, _⟩ := Slice.fromR_bytes data pre.length (by omega)
      have hdwf : d.WF := (Slice.fromR_wf data hd _ d hd1).1
      have hdb : d.bytes = be16 (n16 1) ++ be16 (n16 (4 + 4 * ws.length)) ++ wordsBytes ws ++
          (zeros (helloPad ws.length) ++ helloBody rest) := by
        rw [hd2, hb, List.drop_left' rfl]
        simp only [helloBody, List.map_cons, List.flatten_cons, helloElemBytes, List.append_assoc]
      have hEH := helloElemHeader_unmarshal HelloElemHeader.new d hdwf 1 (4 + 4 * ws.length) (by decide) hk
        (wordsBytes ws ++ (zeros (helloPad ws.length) ++ helloBody rest)) (by rw [hdb]; simp only [List.append_assoc])
      have hEV := helloElem_decode HelloElemVersionBitmap.new d hdwf 1 (by decide) ws hws hk
        (zeros (helloPad ws.length) ++ helloBody rest) hdb
      unfold goLoop
      have hc1 : decide (pre.length < data.len) = true := by simp; omega
      have hlt : ¬ (4 + 4 * ws.length < 4) := by omega
      simp only [hc1, if_true, hd1, Res.bind_ok, hEH, hlt, if_false, hEV, Res.pure_eq]
      have hcur : ¬ (pre.length + (4 + 4 * ws.length + 7) / 8 * 8 ≤ pre.length) := by omega
      simp only [hcur, if_false]
      obtain ⟨n, hn⟩ := ih (pre ++ helloElemBytes ws) (acc ++ [helloElemV ws]) k
        (by rw [hb]; simp [helloBody]) (fun x hx => hok x (by simp [hx]))
        (by simp only [List.length_cons] at hfuel ⊢; omega)
      refine ⟨n, ?_⟩
      simp only [List.length_append, helloElemBytes_length, List.append_assoc, List.cons_append, List.nil_append] at hn
      simp only [List.map_cons, helloElemV] at hn ⊢
      exact hn

theorem hello_mapM2 (wss : List (List Nat)) (hok : ElemsFit wss) :
    mapM2 HelloElem.lenM (wss.map helloElemV) =
      .ok ((wss.map helloElemBytes).map (fun e => UInt16.ofNat e.length), wss.map helloElemV) ∧
    mapM2 HelloElem.marshalM (wss.map helloElemV) = .ok (wss.map helloElemBytes, wss.map helloElemV) := by
  induction wss with
  | nil => exact ⟨rfl, rfl⟩
  | cons ws rest ih =>
    have hk := hok ws (by simp)
    obtain ⟨i1, i2⟩ := ih (fun x hx => hok x (by simp [hx]))
    obtain ⟨hem, hel⟩ := helloElem_encode 1 (4 + 4 * ws.length) ws hk
    constructor
    · simp only [List.map_cons, mapM2, HelloElem.lenM, helloElemV, V.kind, HelloElemVersionBitmap.lenM, hel, Res.bind_ok,
        same, Res.pure_eq]
      rw [i1]
      simp only [Res.bind_ok, helloElemBytes_length]
    · simp only [List.map_cons, mapM2, HelloElem.marshalM, helloElemV, V.kind, hem, Res.bind_ok, Res.pure_eq]
      rw [i2]
      simp only [Res.bind_ok, helloElemBytes]

theorem body_sum (wss : List (List Nat)) (hok : ElemsFit wss) :
    (((wss.map helloElemBytes).map (fun e => UInt16.ofNat e.length)).map UInt16.toNat).sum = (helloBody wss).length := by
  induction wss with
  | nil => rfl
  | cons ws rest ih =>
    have hk := hok ws (by simp)
    have hto : (UInt16.ofNat (helloElemBytes ws).length).toNat = (helloElemBytes ws).length := by
      rw [helloElemBytes_length]; simp [UInt16.toNat_ofNat']; omega
    simp only [List.map_cons, List.sum_cons, helloBody, List.flatten_cons, List.length_append, hto]
    rw [ih (fun x hx => hok x (by simp [hx]))]
    rfl

/-- Hello with any number of version-bitmap elements through Parse, the buffer holding exactly the message -/
theorem hello_rt (ver xid : Nat) (wss : List (List Nat)) (hver : ver < 256) (hxid : xid < 4294967296)
    (hok : ElemsOK wss) (hk : 8 + (helloBody wss).length < 65536) :
    let bs := [n8 ver, n8 0] ++ be16 (n16 (8 + (helloBody wss).length)) ++ be32 (n32 xid) ++ helloBody wss
    (∀ ln0, Hello.marshalM (helloV ver ln0 xid wss) = .ok (bs, helloV ver (8 + (helloBody wss).length) xid wss)) ∧
    ∀ (depth : Nat) (data : Slice), data.WF → data.bytes = bs →
      parse depth data = .ok (helloV ver (8 + (helloBody wss).length) xid wss) := by
  intro bs
  have hfit := elemsFit_of_body wss hk
  obtain ⟨hml, hmm⟩ := hello_mapM2 wss hfit
  have hsum := body_sum wss hfit
  have h8 : ((8 : UInt16) + sum16 ((wss.map helloElemBytes).map (fun e => UInt16.ofNat e.length))).toNat
      = 8 + (helloBody wss).length := by
    rw [UInt16.toNat_add, sum16_toNat _ (by rw [hsum]; omega), hsum]
    have : (8 : UInt16).toNat = 8 := rfl
    rw [this]; omega
  have hbl : bs.length = 8 + (helloBody wss).length := by
    simp only [bs, List.length_append, be16_length, be32_length, List.length_cons, List.length_nil]
  refine ⟨?_, ?_⟩
  · intro ln0
    have hlenM : ∀ ln, Hello.lenM (helloV ver ln xid wss) =
        .ok ((8 : UInt16) + sum16 ((wss.map helloElemBytes).map (fun e => UInt16.ofNat e.length)), helloV ver ln xid wss) := by
      intro ln
      simp only [helloV, Hello.lenM, hml, Res.bind_ok]
    unfold Hello.marshalM
    rw [hlenM]
    simp only [Res.bind_ok]
    rw [hlenM]
    have hu : V.u16 ((8 : UInt16) + sum16 ((wss.map helloElemBytes).map (fun e => UInt16.ofNat e.length)))
        = .num (8 + (helloBody wss).length) := by simp only [V.u16, h8]
    simp only [Res.bind_ok, helloV, Header.setLength, Header.bytes, hmm, h8, hu]
    obtain ⟨p1, p2, p3⟩ := pieces_copy (wss.map helloElemBytes)
    have hp : piecesLen (pCopy ([n8 ver, n8 0] ++ be16 (n16 (8 + (helloBody wss).length)) ++ be32 (n32 xid)) ::
        (wss.map helloElemBytes).map pCopy) = 8 + (helloBody wss).length := by
      simp only [piecesLen, List.map_cons, List.sum_cons] at p1 ⊢
      rw [p1]; rfl
    have hpb : piecesBytes (pCopy ([n8 ver, n8 0] ++ be16 (n16 (8 + (helloBody wss).length)) ++ be32 (n32 xid)) ::
        (wss.map helloElemBytes).map pCopy) = bs := by
      simp only [piecesBytes, List.map_cons, List.flatten_cons] at p2 ⊢
      rw [p2]; rfl
    have := fill_exact' (pCopy ([n8 ver, n8 0] ++ be16 (n16 (8 + (helloBody wss).length)) ++ be32 (n32 xid)) ::
        (wss.map helloElemBytes).map pCopy)
      (by intro p hp; simp only [List.mem_cons] at hp; rcases hp with rfl | hp; exact trivial; exact p3 p hp)
    rw [hp, hpb] at this
    rw [this]
    rfl
  · intro depth data hd hb
    have hlen : data.len = 8 + (helloBody wss).length := by rw [← Slice.bytes_length data hd, hb, hbl]
    have hb' : data.bytes = ([n8 ver, n8 0] ++ be16 (n16 (8 + (helloBody wss).length)) ++ be32 (n32 xid)) ++ helloBody wss := by
      rw [hb]
    obtain ⟨_, _, hdec⟩ := header_roundtrip ver 0 (8 + (helloBody wss).length) xid hver (by decide) hk hxid
    unfold parse
    obtain ⟨k, hk'⟩ : ∃ k, max depth (data.cap + 1) = k + 1 := ⟨max depth (data.cap + 1) - 1, by omega⟩
    rw [hk']
    unfold parseD parseStep
    have e1 : data.bytes[1]? = some (n8 0) := by rw [hb']; rfl
    have h0 : (n8 0).toNat = 0 := rfl
    simp only [Slice.byteAt_eq, e1, Res.ofOption, Res.bind_ok, h0, Gen.openflow13.Type_Hello, if_true]
    unfold Hello.unmarshal
    obtain ⟨d0, h01, h02, _⟩ := Slice.fromR_bytes data 0 (by omega)
    have hd0 : d0.WF := (Slice.fromR_wf data hd 0 d0 h01).1
    have hh := hdec Header.zero d0 _ hd0 (by rw [h02, hb']; rfl)
    have hcnt := body_len_ge wss
    obtain ⟨n, hloop⟩ := hello_loop data hd wss ([n8 ver, n8 0] ++ be16 (n16 (8 + (helloBody wss).length)) ++ be32 (n32 xid)) []
      (data.len + 1) hb' hok (by omega)
    simp only [List.length_append, be16_length, be32_length, List.length_cons, List.length_nil, List.nil_append,
      Nat.reduceAdd] at hloop
    simp only [h01, Res.bind_ok, hh]
    erw [hloop]
    simp only [Res.bind_ok, Bool.false_eq_true, if_false, recoverR, Res.pure_eq, helloV]

end OFV.RT
