/-
  OFV.Lemmas.FrameMsg — helper lemmas of Props/C01b (message framing) that rest on the size / repeatability results of
  Props/C06b and Props/C13:
  * a second `Len()` of a PacketOut / BundleAdd gives the same answer when that holds for the embedded message;
  * the same for the payload `SetData` stores (util.Buffer) and for a FlowMod / GroupMod inside a bundle;
  * the four multipart request bodies: reported size = encoded size (mod 2^16), through the interface dispatch;
  * a bucket whose actions are all of a padded kind encodes to a multiple of 8 bytes;
  * what `NewOfp13Header()` + Type is as a value.
-/
import OFV.Model.All
import OFV.Lemmas.Size
import OFV.Lemmas.SizeTac
import OFV.Lemmas.SizeList
import OFV.Lemmas.SizeIdem
import OFV.Lemmas.SizeInstr
import OFV.Lemmas.Frame
import OFV.Props.C06b
import OFV.Props.C13
namespace OFV.Frame
open OFV OFV.Go OFV.Model OFV.Spec OFV.Props InstrAux

/-! ### repeatable Len() of the containers whose encoder calls Len() twice -/

/-- PacketOut.Len() twice: same answer, nothing changes further — when that holds for the Data -/
theorem packetOut_lenWith_idem (cl : MsgLenF) (h b ip al pad : V) (as : List V) (d : V) (hd : LenIdem cl d) :
    LenIdem (PacketOut.lenWith cl) (.obj "PacketOut" [h, b, ip, al, pad, .list as, d]) := by
  intro l v1 hl
  simp only [PacketOut.lenWith] at hl
  obtain ⟨⟨ls, as1⟩, hm, hl2⟩ := bind_ok_inv _ _ _ hl
  obtain ⟨⟨ld, d1⟩, hcd, hl3⟩ := bind_ok_inv _ _ _ hl2
  cases hl3
  have e1 := mapM2_idem Action.lenM as ls as1 (fun x _ a x' hx => Action.lenM_idem x a x' hx) hm
  have e2 := hd ld d1 hcd
  simp only [PacketOut.lenWith, e1, e2, Res.bind_ok]
  rfl

/-- BundleAdd.Len() twice: same answer — when that holds for the embedded message -/
theorem bundleAdd_lenWith_idem (cl : MsgLenF) (i p f m : V) (ps : List V) (hm : LenIdem cl m) :
    LenIdem (BundleAdd.lenWith cl) (.obj "BundleAdd" [i, p, f, m, .list ps]) := by
  intro l v1 hl
  simp only [BundleAdd.lenWith] at hl
  obtain ⟨⟨lm, m1⟩, hcm, hl2⟩ := bind_ok_inv _ _ _ hl
  obtain ⟨⟨ls, x⟩, hps, hl3⟩ := bind_ok_inv _ _ _ hl2
  cases hl3
  simp only [BundleAdd.lenWith, hm lm m1 hcm, hps, Res.bind_ok]
  rfl

/-- the payload `PacketOut.SetData` stores (a util.Buffer): Len() changes nothing -/
theorem uBuffer_lenIdem (fs : List V) : LenIdem anyLenM (.obj "u.Buffer" fs) := by
  have e : anyLenM (.obj "u.Buffer" fs) = UBuffer.lenM (.obj "u.Buffer" fs) := rfl
  intro l v1 h
  rw [e] at h
  have := (C13.uBuffer_pure _).1 l v1 h
  subst this
  rw [e]; exact h

/-- a FlowMod as the message of a bundle: its Len() is repeatable (through the interface dispatch one level down) -/
theorem bundled_flowMod_lenIdem (fs : List V) : LenIdem (msgAnyLenD 7) (.obj "FlowMod" fs) := by
  have e : ∀ fs, msgAnyLenD 7 (.obj "FlowMod" fs) = FlowMod.lenM (.obj "FlowMod" fs) := fun _ => rfl
  intro l v1 hl
  rw [e] at hl
  have h2 := (C13.flowMod_repeatable _).lenIdem l v1 hl
  obtain ⟨_, _, _, _, _, _, _, _, _, _, _, _, _, _, _, _, _, _, _, hv1, _⟩ := C13.flowMod_len_shape _ l v1 hl
  subst hv1
  rw [e]; exact h2

/-- a GroupMod as the message of a bundle -/
theorem bundled_groupMod_lenIdem (fs : List V) : LenIdem (msgAnyLenD 7) (.obj "GroupMod" fs) := by
  have e : ∀ fs, msgAnyLenD 7 (.obj "GroupMod" fs) = GroupMod.lenM (.obj "GroupMod" fs) := fun _ => rfl
  intro l v1 hl
  rw [e] at hl
  have h2 := (C13.groupMod_repeatable _).lenIdem l v1 hl
  obtain ⟨_, _, _, _, _, _, _, _, hv1, _⟩ := C13.groupMod_len_shape _ l v1 hl
  subst hv1
  rw [e]; exact h2

/-- a PortMod as the message of a bundle: Len() is a constant and changes nothing -/
theorem bundled_portMod_lenIdem (fs : List V) : LenIdem (msgAnyLenD 7) (.obj "PortMod" fs) := by
  have e : msgAnyLenD 7 (.obj "PortMod" fs) = PortMod.lenM (.obj "PortMod" fs) := rfl
  intro l v1 hl
  rw [e] at hl
  obtain ⟨rfl, rfl⟩ := same_ok _ _ _ _ hl
  rfl

/-- a PacketOut carrying a byte payload (SetData) as the message of a bundle -/
theorem bundled_packetOut_lenIdem (h b ip al pad : V) (as : List V) (payload : List V) :
    LenIdem (msgAnyLenD 7) (.obj "PacketOut" [h, b, ip, al, pad, .list as, .obj "u.Buffer" payload]) := by
  have e : ∀ fs, msgAnyLenD 7 (.obj "PacketOut" fs) = PacketOut.lenWith (msgAnyLenD 6) (.obj "PacketOut" fs) := fun _ => rfl
  have hb : LenIdem (msgAnyLenD 6) (.obj "u.Buffer" payload) := by
    have e6 : msgAnyLenD 6 (.obj "u.Buffer" payload) = UBuffer.lenM (.obj "u.Buffer" payload) := rfl
    intro l v1 h
    rw [e6] at h
    have := (C13.uBuffer_pure _).1 l v1 h
    subst this
    rw [e6]; exact h
  intro l v1 hl
  rw [e] at hl
  have h2 := packetOut_lenWith_idem (msgAnyLenD 6) h b ip al pad as _ hb l v1 hl
  simp only [PacketOut.lenWith] at hl
  obtain ⟨⟨ls, as1⟩, _, hl2⟩ := bind_ok_inv _ _ _ hl
  obtain ⟨⟨ld, d1⟩, _, hl3⟩ := bind_ok_inv _ _ _ hl2
  cases hl3
  rw [e]; exact h2

/-! ### multipart request bodies -/

/-- FlowStatsRequest, AggregateStatsRequest, PortStatsRequest, QueueStatsRequest through `util.Message`: the size
    reported by Len() is the size of the encoding (mod 2^16: the two with a Match are built with `append`) -/
theorem mpBody_size (b : V) (hb : IsMpBody b) :
    ∀ l b' bb b'', anyLenM b = .ok (l, b') → anyMarshalM b' = .ok (bb, b'') → l.toNat = bb.length % 65536 := by
  intro l b' bb b'' h1 h2
  rcases hb with ⟨fs, rfl⟩ | ⟨fs, rfl⟩ | ⟨fs, rfl⟩ | ⟨fs, rfl⟩
  · have e1 : anyLenM (.obj "FlowStatsRequest" fs) = FlowStatsRequest.lenM (.obj "FlowStatsRequest" fs) := rfl
    rw [e1] at h1
    have := (C13.statsReq_pure _ _).1 l b' h1
    subst this
    have e2 : anyMarshalM (.obj "FlowStatsRequest" fs) = FlowStatsRequest.marshalM (.obj "FlowStatsRequest" fs) := rfl
    rw [e2] at h2
    exact C06b.flowStatsRequest_sizeMod _ l _ bb b'' h1 h2
  · have e1 : anyLenM (.obj "AggregateStatsRequest" fs) = AggregateStatsRequest.lenM (.obj "AggregateStatsRequest" fs) := rfl
    rw [e1] at h1
    have := (C13.statsReq_pure _ _).1 l b' h1
    subst this
    have e2 : anyMarshalM (.obj "AggregateStatsRequest" fs) = AggregateStatsRequest.marshalM (.obj "AggregateStatsRequest" fs) := rfl
    rw [e2] at h2
    exact C06b.aggregateStatsRequest_sizeMod _ l _ bb b'' h1 h2
  · have e1 : anyLenM (.obj "PortStatsRequest" fs) = PortStatsRequest.lenM (.obj "PortStatsRequest" fs) := rfl
    rw [e1] at h1
    obtain ⟨rfl, rfl⟩ := same_ok _ _ _ _ h1
    have e2 : anyMarshalM (.obj "PortStatsRequest" fs) = PortStatsRequest.marshalM (.obj "PortStatsRequest" fs) := rfl
    rw [e2] at h2
    exact (C06b.portStatsRequest_size _).toMod _ _ bb b'' rfl h2
  · have e1 : anyLenM (.obj "QueueStatsRequest" fs) = QueueStatsRequest.lenM (.obj "QueueStatsRequest" fs) := rfl
    rw [e1] at h1
    obtain ⟨rfl, rfl⟩ := same_ok _ _ _ _ h1
    have e2 : anyMarshalM (.obj "QueueStatsRequest" fs) = QueueStatsRequest.marshalM (.obj "QueueStatsRequest" fs) := rfl
    rw [e2] at h2
    exact (C06b.queueStatsRequest_size _).toMod _ _ bb b'' rfl h2

/-! ### buckets -/

/-- actions of padded kinds, sized and then encoded: the concatenated encodings are a multiple of 8 bytes long -/
theorem actions_encoding_aligned : ∀ (xs : List V) (ls : List UInt16) (ys : List V) (bss : List Bytes) (zs : List V),
    mapM2 Action.lenM xs = .ok (ls, ys) → mapM2 Action.marshalM ys = .ok (bss, zs) →
    (∀ x ∈ xs, x.kind ∈ PaddedKinds) → bss.flatten.length % 8 = 0 := by
  intro xs
  induction xs with
  | nil =>
    intro ls ys bss zs h1 h2 _
    simp [mapM2] at h1
    obtain ⟨rfl, rfl⟩ := h1
    simp [mapM2] at h2
    obtain ⟨rfl, rfl⟩ := h2
    rfl
  | cons x xs ih =>
    intro ls ys bss zs h1 h2 hk
    obtain ⟨a, x', as', xs', hx, hxs, rfl, rfl⟩ := mapM2_cons_ok _ _ _ _ _ h1
    obtain ⟨b, x'', bs', zs', hb, hbs, rfl, rfl⟩ := mapM2_cons_ok _ _ _ _ _ h2
    have e1 := C06b.action_size x' a x' b x'' (Action.lenM_idem x a x' hx) hb
    have e2 := C06b.action_len_aligned x (hk x (by simp)) a x' hx
    have e3 := ih as' xs' bs' zs' hxs hbs (fun y hy => hk y (by simp [hy]))
    simp only [List.flatten_cons, List.length_append]
    omega

/-! ### NewOfp13Header() -/

/-- `h := NewOfp13Header(); h.Type = ty` (transaction id modelled as 0; programs overwrite it) -/
theorem msgOfpHeader_eq (ty : Nat) (hty : ty < 256) :
    msgOfpHeader ty = .obj "Header" [.num Gen.openflow13.VERSION, .num ty, .num 8, .num 0] := by
  simp only [msgOfpHeader, msgHdrType, newHeader, V.u8, V.u32, n8, UInt8.toNat_ofNat', Nat.mod_eq_of_lt hty]
  rfl

end OFV.Frame
