/-
  OFV.Lemmas.FrameMsg — helper lemmas of Props/C01b (message framing) that rest on the size / repeatability results of
  Props/C06b and Props/C13:
  * a second `Len()` of a PacketOut / BundleAdd gives the same answer when that holds for the embedded message;
  * the same for the payload `SetData` stores (util.Buffer) and for a FlowMod / GroupMod inside a bundle;
  * the four multipart request bodies: reported size = encoded size (mod 2^16), through the interface dispatch;
  * Bucket / GroupMod: reported size = bytes produced while everything fits in 64 KiB (proved from the model), and
    GroupMod.Len() is repeatable;
  * what `NewOfp13Header()` + Type is as a value.
-/
import OFV.Model.All
import OFV.Lemmas.Size
import OFV.Lemmas.SizeTac
import OFV.Lemmas.SizeList
import OFV.Lemmas.SizeIdem
import OFV.Lemmas.SizeInstr
import OFV.Lemmas.Frame
import OFV.Props.C06b
import OFV.Props.C13
namespace OFV.Frame
open OFV OFV.Go OFV.Model OFV.Spec OFV.Props InstrAux

/-! ### buckets and GroupMod (proved from the model: the encoder writes the padding Len() counts) -/

/-- Bucket: the encoding is the 16 fixed bytes, the complete action encodings and zero padding up to the reported
    (rounded) size.  As long as it does not exceed 65528 bytes — the largest size a bucket can report — the reported
    size is exactly the number of bytes produced. -/
theorem bucket_size_fits (v : V) (l : UInt16) (v1 : V) (bs : Bytes) (v2 : V)
    (h1 : Bucket.lenM v = .ok (l, v1)) (h2 : Bucket.marshalM v = .ok (bs, v2)) (hfit : bs.length ≤ 65528) :
    l.toNat = bs.length := by
  unfold Bucket.marshalM at h2
  obtain ⟨⟨l', v'⟩, hl, h3⟩ := bind_ok_inv _ _ _ h2
  rw [h1] at hl
  cases hl
  unfold Bucket.lenM at h1
  split at h1
  · obtain ⟨⟨ls, as'⟩, hm, h1'⟩ := bind_ok_inv _ _ _ h1
    cases h1'
    simp only at h3
    split at h3
    · rename_i heq
      cases heq
      obtain ⟨⟨abs, as'', e⟩, hml, h4⟩ := bind_ok_inv _ _ _ h3
      simp only at h4
      split at h4
      · exact absurd h4 (by simp)
      · cases h4
        have key := marshalList_length_after Action.lenM Action.marshalM _ _ _ _ _ _ _ hm hml
          (fun x _ => Action.marshalM_noErr x)
          (fun x _ l y b z hx hy => (C06b.action_size y).toMod l y b z (Action.lenM_idem x l y hx) hy)
        simp only [List.length_append, be16_length, be32_length, zeros_length] at hfit ⊢
        have hs : (16 + sum16 ls : UInt16).toNat = 16 + abs.length := by
          rw [UInt16.toNat_add, key]
          have h2' : (2:Nat) ^ 16 = 65536 := rfl
          have h16 : (16 : UInt16).toNat = 16 := rfl
          rw [h2', h16]; omega
        have hr := round8_ge (16 + sum16 ls) (by omega)
        omega
    · exact absurd h3 (by simp)
  · exact absurd h1 (by simp)

/-- the buckets of a GroupMod, sized and then encoded (each from a copy): as long as everything fits in 64 KiB minus the
    16 bytes in front, the sizes add up to the number of bytes produced -/
theorem buckets_size : ∀ (bks : List V) (ls : List UInt16) (bks1 : List V) (bss : List Bytes) (bks2 : List V),
    mapM2 Bucket.lenM bks = .ok (ls, bks1) → mapM2 Bucket.marshalCopyM bks1 = .ok (bss, bks2) →
    bss.flatten.length ≤ 65528 → (sum16 ls).toNat = bss.flatten.length := by
  intro bks
  induction bks with
  | nil =>
    intro ls bks1 bss bks2 h1 h2 _
    simp [mapM2] at h1
    obtain ⟨rfl, rfl⟩ := h1
    simp [mapM2] at h2
    obtain ⟨rfl, rfl⟩ := h2
    rfl
  | cons x xs ih =>
    intro ls bks1 bss bks2 h1 h2 hfit
    obtain ⟨l, x', ls', xs', hx, hxs, rfl, rfl⟩ := mapM2_cons_ok _ _ _ _ _ h1
    obtain ⟨b, x'', bss', zs', hb, hbs, rfl, rfl⟩ := mapM2_cons_ok _ _ _ _ _ h2
    simp only [List.flatten_cons, List.length_append] at hfit ⊢
    unfold Bucket.marshalCopyM at hb
    obtain ⟨⟨b', z'⟩, hmb, hb'⟩ := bind_ok_inv _ _ _ hb
    cases hb'
    have e1 := bucket_size_fits x' l x' b z' (Bucket.lenM_idem x l x' hx) hmb (by omega)
    have e2 := ih ls' xs' bss' zs' hxs hbs (by omega)
    rw [sum16_cons, UInt16.toNat_add, e1, e2]
    have h2' : (2:Nat) ^ 16 = 65536 := rfl
    rw [h2']; omega

/-- GroupMod, every command, any buckets with any actions: as long as the encoding is shorter than 64 KiB, the size
    Len() reports is the number of bytes produced -/
theorem groupMod_size (v : V) (l : UInt16) (v1 : V) (bs : Bytes) (v2 : V)
    (h1 : GroupMod.lenM v = .ok (l, v1)) (h2 : GroupMod.marshalM v = .ok (bs, v2)) (hlt : bs.length < 65536) :
    bs.length = l.toNat := by
  unfold GroupMod.marshalM at h2
  obtain ⟨⟨l', v'⟩, hl, h3⟩ := bind_ok_inv _ _ _ h2
  rw [h1] at hl
  cases hl
  unfold GroupMod.lenM at h1
  split at h1
  · rename_i hh cmdn tt pp gg bks'
    split at h1
    · rename_i hdel
      cases h1
      simp only at h3
      split at h3
      · rename_i heq2
        cases heq2
        obtain ⟨hb, hhb, h4⟩ := bind_ok_inv _ _ _ h3
        simp only [hdel, if_true, Res.bind_ok] at h4
        split at h4
        · exact absurd h4 (by simp)
        · cases h4
          have := Header.bytes_length _ _ hhb
          simp [this]
      · exact absurd h3 (by simp)
    · rename_i hdel
      obtain ⟨⟨ls, bks''⟩, hm, h1'⟩ := bind_ok_inv _ _ _ h1
      cases h1'
      simp only at h3
      split at h3
      · rename_i heq2
        cases heq2
        obtain ⟨hb, hhb, h4⟩ := bind_ok_inv _ _ _ h3
        simp only [hdel, if_false] at h4
        obtain ⟨⟨bb, bks3, e⟩, hml, h5⟩ := bind_ok_inv _ _ _ h4
        simp only at h5
        split at h5
        · exact absurd h5 (by simp)
        · cases h5
          obtain ⟨bss, hmm, rfl⟩ := marshalList_eq_mapM2 _ _ _ _ _ _ (fun x _ => Bucket.marshalCopyM_noErr x) hml
          have e8 := Header.bytes_length _ _ hhb
          simp only [List.length_append, e8, be16_length, be32_length, List.length_cons, List.length_nil] at hlt ⊢
          have key := buckets_size _ _ _ _ _ hm hmm (by omega)
          rw [UInt16.toNat_add, key]
          have h2' : (2:Nat) ^ 16 = 65536 := rfl
          have h16 : (16 : UInt16).toNat = 16 := rfl
          rw [h2', h16]; omega
      · exact absurd h3 (by simp)
  · exact absurd h1 (by simp)

/-- GroupMod.Len() twice: same answer, nothing changes further -/
theorem groupMod_lenIdem (v : V) : LenIdem GroupMod.lenM v := by
  intro l v1 hl
  unfold GroupMod.lenM at hl
  split at hl
  · rename_i h cmd t p g bks
    split at hl
    · rename_i hdel
      cases hl
      simp only [GroupMod.lenM, hdel, if_true]
    · rename_i hdel
      obtain ⟨⟨ls, bks1⟩, hm, hl2⟩ := bind_ok_inv _ _ _ hl
      cases hl2
      have := mapM2_idem Bucket.lenM _ _ _ (fun x _ a x' hx => Bucket.lenM_idem x a x' hx) hm
      simp only [GroupMod.lenM, hdel, if_false, this, Res.bind_ok]
  · exact absurd hl (by simp)

/-! ### repeatable Len() of the containers whose encoder calls Len() twice -/

/-- PacketOut.Len() twice: same answer, nothing changes further — when that holds for the Data -/
theorem packetOut_lenWith_idem (cl : MsgLenF) (h b ip al pad : V) (as : List V) (d : V) (hd : LenIdem cl d) :
    LenIdem (PacketOut.lenWith cl) (.obj "PacketOut" [h, b, ip, al, pad, .list as, d]) := by
  intro l v1 hl
  simp only [PacketOut.lenWith] at hl
  obtain ⟨⟨ls, as1⟩, hm, hl2⟩ := bind_ok_inv _ _ _ hl
  obtain ⟨⟨ld, d1⟩, hcd, hl3⟩ := bind_ok_inv _ _ _ hl2
  cases hl3
  have e1 := mapM2_idem Action.lenM as ls as1 (fun x _ a x' hx => Action.lenM_idem x a x' hx) hm
  have e2 := hd ld d1 hcd
  simp only [PacketOut.lenWith, e1, e2, Res.bind_ok]
  rfl

/-- BundleAdd.Len() twice: same answer — when that holds for the embedded message -/
theorem bundleAdd_lenWith_idem (cl : MsgLenF) (i p f m : V) (ps : List V) (hm : LenIdem cl m) :
    LenIdem (BundleAdd.lenWith cl) (.obj "BundleAdd" [i, p, f, m, .list ps]) := by
  intro l v1 hl
  simp only [BundleAdd.lenWith] at hl
  obtain ⟨⟨lm, m1⟩, hcm, hl2⟩ := bind_ok_inv _ _ _ hl
  obtain ⟨⟨ls, x⟩, hps, hl3⟩ := bind_ok_inv _ _ _ hl2
  cases hl3
  simp only [BundleAdd.lenWith, hm lm m1 hcm, hps, Res.bind_ok]
  rfl

/-- the payload `PacketOut.SetData` stores (a util.Buffer): Len() changes nothing -/
theorem uBuffer_lenIdem (fs : List V) : LenIdem anyLenM (.obj "u.Buffer" fs) := by
  have e : anyLenM (.obj "u.Buffer" fs) = UBuffer.lenM (.obj "u.Buffer" fs) := rfl
  intro l v1 h
  rw [e] at h
  have := (C13.uBuffer_pure _).1 l v1 h
  subst this
  rw [e]; exact h

/-- a FlowMod as the message of a bundle: its Len() is repeatable (through the interface dispatch one level down) -/
theorem bundled_flowMod_lenIdem (fs : List V) : LenIdem (msgAnyLenD 7) (.obj "FlowMod" fs) := by
  have e : ∀ fs, msgAnyLenD 7 (.obj "FlowMod" fs) = FlowMod.lenM (.obj "FlowMod" fs) := fun _ => rfl
  intro l v1 hl
  rw [e] at hl
  have h2 := (C13.flowMod_repeatable _).lenIdem l v1 hl
  obtain ⟨_, _, _, _, _, _, _, _, _, _, _, _, _, _, _, _, _, _, _, hv1, _⟩ := C13.flowMod_len_shape _ l v1 hl
  subst hv1
  rw [e]; exact h2

/-- a GroupMod as the message of a bundle -/
theorem bundled_groupMod_lenIdem (fs : List V) : LenIdem (msgAnyLenD 7) (.obj "GroupMod" fs) := by
  have e : ∀ fs, msgAnyLenD 7 (.obj "GroupMod" fs) = GroupMod.lenM (.obj "GroupMod" fs) := fun _ => rfl
  intro l v1 hl
  rw [e] at hl
  have h2 := groupMod_lenIdem _ l v1 hl
  have hk : ∃ fs', v1 = .obj "GroupMod" fs' := by
    unfold GroupMod.lenM at hl
    split at hl
    · split at hl
      · cases hl; exact ⟨_, rfl⟩
      · obtain ⟨_, _, hl2⟩ := bind_ok_inv _ _ _ hl
        cases hl2; exact ⟨_, rfl⟩
    · exact absurd hl (by simp)
  obtain ⟨fs', rfl⟩ := hk
  rw [e]; exact h2

/-- a PortMod as the message of a bundle: Len() is a constant and changes nothing -/
theorem bundled_portMod_lenIdem (fs : List V) : LenIdem (msgAnyLenD 7) (.obj "PortMod" fs) := by
  have e : msgAnyLenD 7 (.obj "PortMod" fs) = PortMod.lenM (.obj "PortMod" fs) := rfl
  intro l v1 hl
  rw [e] at hl
  obtain ⟨rfl, rfl⟩ := same_ok _ _ _ _ hl
  rfl

/-- a PacketOut carrying a byte payload (SetData) as the message of a bundle -/
theorem bundled_packetOut_lenIdem (h b ip al pad : V) (as : List V) (payload : List V) :
    LenIdem (msgAnyLenD 7) (.obj "PacketOut" [h, b, ip, al, pad, .list as, .obj "u.Buffer" payload]) := by
  have e : ∀ fs, msgAnyLenD 7 (.obj "PacketOut" fs) = PacketOut.lenWith (msgAnyLenD 6) (.obj "PacketOut" fs) := fun _ => rfl
  have hb : LenIdem (msgAnyLenD 6) (.obj "u.Buffer" payload) := by
    have e6 : msgAnyLenD 6 (.obj "u.Buffer" payload) = UBuffer.lenM (.obj "u.Buffer" payload) := rfl
    intro l v1 h
    rw [e6] at h
    have := (C13.uBuffer_pure _).1 l v1 h
    subst this
    rw [e6]; exact h
  intro l v1 hl
  rw [e] at hl
  have h2 := packetOut_lenWith_idem (msgAnyLenD 6) h b ip al pad as _ hb l v1 hl
  simp only [PacketOut.lenWith] at hl
  obtain ⟨⟨ls, as1⟩, _, hl2⟩ := bind_ok_inv _ _ _ hl
  obtain ⟨⟨ld, d1⟩, _, hl3⟩ := bind_ok_inv _ _ _ hl2
  cases hl3
  rw [e]; exact h2

/-! ### multipart request bodies -/

/-- FlowStatsRequest, AggregateStatsRequest, PortStatsRequest, QueueStatsRequest through `util.Message`: the size
    reported by Len() is the size of the encoding (mod 2^16: the two with a Match are built with `append`) -/
theorem mpBody_size (b : V) (hb : IsMpBody b) :
    ∀ l b' bb b'', anyLenM b = .ok (l, b') → anyMarshalM b' = .ok (bb, b'') → l.toNat = bb.length % 65536 := by
  intro l b' bb b'' h1 h2
  rcases hb with ⟨fs, rfl⟩ | ⟨fs, rfl⟩ | ⟨fs, rfl⟩ | ⟨fs, rfl⟩
  · have e1 : anyLenM (.obj "FlowStatsRequest" fs) = FlowStatsRequest.lenM (.obj "FlowStatsRequest" fs) := rfl
    rw [e1] at h1
    have := (C13.statsReq_pure _ _).1 l b' h1
    subst this
    have e2 : anyMarshalM (.obj "FlowStatsRequest" fs) = FlowStatsRequest.marshalM (.obj "FlowStatsRequest" fs) := rfl
    rw [e2] at h2
    exact C06b.flowStatsRequest_sizeMod _ l _ bb b'' h1 h2
  · have e1 : anyLenM (.obj "AggregateStatsRequest" fs) = AggregateStatsRequest.lenM (.obj "AggregateStatsRequest" fs) := rfl
    rw [e1] at h1
    have := (C13.statsReq_pure _ _).1 l b' h1
    subst this
    have e2 : anyMarshalM (.obj "AggregateStatsRequest" fs) = AggregateStatsRequest.marshalM (.obj "AggregateStatsRequest" fs) := rfl
    rw [e2] at h2
    exact C06b.aggregateStatsRequest_sizeMod _ l _ bb b'' h1 h2
  · have e1 : anyLenM (.obj "PortStatsRequest" fs) = PortStatsRequest.lenM (.obj "PortStatsRequest" fs) := rfl
    rw [e1] at h1
    obtain ⟨rfl, rfl⟩ := same_ok _ _ _ _ h1
    have e2 : anyMarshalM (.obj "PortStatsRequest" fs) = PortStatsRequest.marshalM (.obj "PortStatsRequest" fs) := rfl
    rw [e2] at h2
    exact (C06b.portStatsRequest_size _).toMod _ _ bb b'' rfl h2
  · have e1 : anyLenM (.obj "QueueStatsRequest" fs) = QueueStatsRequest.lenM (.obj "QueueStatsRequest" fs) := rfl
    rw [e1] at h1
    obtain ⟨rfl, rfl⟩ := same_ok _ _ _ _ h1
    have e2 : anyMarshalM (.obj "QueueStatsRequest" fs) = QueueStatsRequest.marshalM (.obj "QueueStatsRequest" fs) := rfl
    rw [e2] at h2
    exact (C06b.queueStatsRequest_size _).toMod _ _ bb b'' rfl h2

/-! ### NewOfp13Header() -/

/-- `h := NewOfp13Header(); h.Type = ty` (transaction id modelled as 0; programs overwrite it) -/
theorem msgOfpHeader_eq (ty : Nat) (hty : ty < 256) :
    msgOfpHeader ty = .obj "Header" [.num Gen.openflow13.VERSION, .num ty, .num 8, .num 0] := by
  simp only [msgOfpHeader, msgHdrType, newHeader, V.u8, V.u32, n8, UInt8.toNat_ofNat', Nat.mod_eq_of_lt hty]
  rfl

end OFV.Frame
