/-
  OFV.Lemmas.SizeCex — evaluating Len() / MarshalBinary() loops on a list of n identical children without unfolding
  n times (used for the 64 KiB wrap-around counterexamples of Props/C06b).
-/
import OFV.Model.All
import OFV.Lemmas.Size
import OFV.Lemmas.SizeTac
import OFV.Lemmas.SizeList
namespace OFV.Model
open OFV OFV.Go InstrAux

theorem mapM2_replicate {α} (f : V → R (α × V)) (x : V) (a : α) (h : f x = .ok (a, x)) :
    ∀ n, mapM2 f (List.replicate n x) = .ok (List.replicate n a, List.replicate n x) := by
  intro n
  induction n with
  | zero => rfl
  | succ n ih => simp only [List.replicate_succ]; exact mapM2_cons_of_ok f x _ a x _ _ h ih

theorem marshalList_replicate (f : V → R (Bytes × V)) (x : V) (b : Bytes) (h : f x = .ok (b, x)) :
    ∀ n e, marshalList f (List.replicate n x) e = .ok ((List.replicate n b).flatten, List.replicate n x, if n = 0 then e else false) := by
  intro n
  induction n with
  | zero => intro e; rfl
  | succ n ih =>
    intro e
    simp only [List.replicate_succ, marshalList, h, ih false, List.flatten_cons]
    simp

theorem sum16_replicate (n : Nat) (a : UInt16) : (sum16 (List.replicate n a)).toNat = n * a.toNat % 65536 := by
  rw [sum16_toNat_mod]
  congr 1
  induction n with
  | zero => simp
  | succ n ih => simp only [List.replicate_succ, List.map_cons, List.sum_cons, ih]; rw [Nat.succ_mul]; omega

theorem flatten_replicate_length (n : Nat) (b : Bytes) : (List.replicate n b).flatten.length = n * b.length := by
  induction n with
  | zero => simp
  | succ n ih => simp only [List.replicate_succ, List.flatten_cons, List.length_append, ih]; rw [Nat.succ_mul]; omega

end OFV.Model
