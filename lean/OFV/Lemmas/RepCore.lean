/-
  OFV.Lemmas.RepCore — generic machinery for the second part of C13 (Props/C13b):
    * scripts of Len() / MarshalBinary() calls run on one value (`runScript`) and what a `Repeatable` value answers;
    * `ChildOK`: what a container needs from the Len / MarshalBinary functions it uses for a `util.Message` child
      (repeatable on every value, and failing on a nil interface);
    * lists of children that a Len() pass has already settled (`mapM2_settled`);
    * repeatability through an interface dispatch (`Repeatable.of_dispatch`);
    * `kind_tac`: Len() / MarshalBinary() return a value of the receiver's dynamic type.
-/
import OFV.Model.All
import OFV.Props.C13
namespace OFV.Rep
open OFV OFV.Go OFV.Model OFV.Model.InstrAux

/-! ### scripts of calls -/

/-- one call on a value: Len() or MarshalBinary() -/
inductive CallOp where
  | len
  | mar
deriving Repr, DecidableEq

/-- what a call returns: a size or an encoding -/
inductive CallOut where
  | size (l : UInt16)
  | bytes (bs : Bytes)
deriving Repr, DecidableEq

def CallOp.isMar : CallOp → Bool
  | .mar => true
  | .len => false

/-- run the calls one after the other on the same value (each call sees what the previous ones left behind);
    result: the list of answers and the value afterwards.  Any failing call fails the script. -/
def runScript (lenM : V → R (UInt16 × V)) (marshalM : V → R (Bytes × V)) : List CallOp → V → R (List CallOut × V)
  | [], v => .ok ([], v)
  | .len :: ops, v => do
    let (l, v) ← lenM v
    let (outs, v) ← runScript lenM marshalM ops v
    pure (.size l :: outs, v)
  | .mar :: ops, v => do
    let (bs, v) ← marshalM v
    let (outs, v) ← runScript lenM marshalM ops v
    pure (.bytes bs :: outs, v)

/-- the answers a script must give when every Len() says `l` and every MarshalBinary() says `bs` -/
def scriptAnswers (l : UInt16) (bs : Bytes) (ops : List CallOp) : List CallOut :=
  ops.map fun | .len => .size l | .mar => .bytes bs

/-- the value a script leaves behind: untouched (no call), what Len() leaves (only Len() calls), what MarshalBinary()
    leaves (at least one MarshalBinary() call) -/
def scriptEnd (v v1 v2 : V) (ops : List CallOp) : V :=
  if ops.any CallOp.isMar then v2 else if ops.isEmpty then v else v1

theorem runScript_from_mar {lenM marshalM} {l : UInt16} {bs : Bytes} {v2 : V}
    (hl : lenM v2 = .ok (l, v2)) (hm : marshalM v2 = .ok (bs, v2)) :
    ∀ ops, runScript lenM marshalM ops v2 = .ok (scriptAnswers l bs ops, v2) := by
  intro ops
  induction ops with
  | nil => rfl
  | cons o ops ih =>
    cases o
    · simp only [runScript, hl, Res.bind_ok, ih, Res.pure_eq, scriptAnswers, List.map_cons]
    · simp only [runScript, hm, Res.bind_ok, ih, Res.pure_eq, scriptAnswers, List.map_cons]

theorem runScript_from_len {lenM marshalM} {l : UInt16} {bs : Bytes} {v1 v2 : V}
    (hl1 : lenM v1 = .ok (l, v1)) (hm1 : marshalM v1 = .ok (bs, v2))
    (hl2 : lenM v2 = .ok (l, v2)) (hm2 : marshalM v2 = .ok (bs, v2)) :
    ∀ ops, runScript lenM marshalM ops v1 = .ok (scriptAnswers l bs ops, if ops.any CallOp.isMar then v2 else v1) := by
  intro ops
  induction ops with
  | nil => rfl
  | cons o ops ih =>
    cases o
    · simp only [runScript, hl1, Res.bind_ok, ih, Res.pure_eq, scriptAnswers, List.map_cons, List.any_cons, CallOp.isMar,
        Bool.false_or]
    · simp only [runScript, hm1, Res.bind_ok, runScript_from_mar hl2 hm2 ops, Res.pure_eq, scriptAnswers, List.map_cons,
        List.any_cons, CallOp.isMar, Bool.true_or, if_true]

/-- ANY finite script of Len() / MarshalBinary() calls on a repeatable value that can be sized and encoded at all:
    the script succeeds, every Len() answers the size `l` the first Len() gives, every MarshalBinary() answers the
    bytes `bs` the first MarshalBinary() gives, and the value ends up as `scriptEnd` says -/
theorem runScript_repeatable {lenM marshalM} {v : V} (hr : Repeatable lenM marshalM v)
    {l : UInt16} {v1 : V} {bs : Bytes} {v2 : V} (h1 : lenM v = .ok (l, v1)) (h2 : marshalM v = .ok (bs, v2))
    (ops : List CallOp) :
    runScript lenM marshalM ops v = .ok (scriptAnswers l bs ops, scriptEnd v v1 v2 ops) := by
  have hl1 := hr.lenIdem l v1 h1
  have hm1 := hr.marAfterLen l v1 bs v2 h1 h2
  have hl2 := hr.lenAfterMar l v1 bs v2 h1 h2
  have hm2 := hr.marIdem bs v2 h2
  cases ops with
  | nil => rfl
  | cons o ops =>
    cases o
    · simp only [runScript, h1, Res.bind_ok, runScript_from_len hl1 hm1 hl2 hm2 ops, Res.pure_eq, scriptAnswers,
        List.map_cons, scriptEnd, List.any_cons, CallOp.isMar, Bool.false_or, List.isEmpty_cons]
      simp
    · simp only [runScript, h2, Res.bind_ok, runScript_from_mar hl2 hm2 ops, Res.pure_eq, scriptAnswers,
        List.map_cons, scriptEnd, List.any_cons, CallOp.isMar, Bool.true_or, if_true]

/-- only Len() calls: no need for the value to be encodable -/
theorem runScript_lens {lenM marshalM} {v : V} (hr : LenIdem lenM v) {l : UInt16} {v1 : V} (h1 : lenM v = .ok (l, v1))
    (n : Nat) :
    runScript lenM marshalM (List.replicate (n + 1) .len) v = .ok (List.replicate (n + 1) (.size l), v1) := by
  have hl1 := hr l v1 h1
  have : ∀ n, runScript lenM marshalM (List.replicate n .len) v1 = .ok (List.replicate n (.size l), v1) := by
    intro n
    induction n with
    | zero => rfl
    | succ n ih => simp only [List.replicate_succ, runScript, hl1, Res.bind_ok, ih, Res.pure_eq]
  simp only [List.replicate_succ, runScript, h1, Res.bind_ok, this n, Res.pure_eq]

/-- only MarshalBinary() calls: no need for Len() to succeed on the untouched value -/
theorem runScript_mars {lenM marshalM} {v : V} (hr : ∀ bs v2, marshalM v = .ok (bs, v2) → marshalM v2 = .ok (bs, v2))
    {bs : Bytes} {v2 : V} (h2 : marshalM v = .ok (bs, v2)) (n : Nat) :
    runScript lenM marshalM (List.replicate (n + 1) .mar) v = .ok (List.replicate (n + 1) (.bytes bs), v2) := by
  have hm2 := hr bs v2 h2
  have : ∀ n, runScript lenM marshalM (List.replicate n .mar) v2 = .ok (List.replicate n (.bytes bs), v2) := by
    intro n
    induction n with
    | zero => rfl
    | succ n ih => simp only [List.replicate_succ, runScript, hm2, Res.bind_ok, ih, Res.pure_eq]
  simp only [List.replicate_succ, runScript, h2, Res.bind_ok, this n, Res.pure_eq]

/-! ### what a container needs from the functions it calls on a `util.Message` child -/

/-- the child functions are repeatable on every value and fail (nil dereference) on a nil interface -/
structure ChildOK (L : V → R (UInt16 × V)) (M : V → R (Bytes × V)) : Prop where
  rep : ∀ a, Repeatable L M a
  nilL : ∀ r, L .nil ≠ .ok r
  nilM : ∀ r, M .nil ≠ .ok r

theorem ChildOK.len_ne_nil {L M} (h : ChildOK L M) {a : V} {l : UInt16} {a' : V} (hl : L a = .ok (l, a')) : a' ≠ .nil := by
  intro e
  subst e
  exact h.nilL _ ((h.rep a).lenIdem l _ hl)

theorem ChildOK.mar_ne_nil {L M} (h : ChildOK L M) {a : V} {bs : Bytes} {a' : V} (hm : M a = .ok (bs, a')) : a' ≠ .nil := by
  intro e
  subst e
  exact h.nilM _ ((h.rep a).marIdem bs _ hm)

theorem V.isNil_false_of_ne {a : V} (h : a ≠ .nil) : a.isNil = false := by
  cases a <;> first | rfl | exact absurd rfl h

theorem V.ne_nil_of_isNil_false {a : V} (h : a.isNil = false) : a ≠ .nil := by
  intro e; subst e; exact absurd h (by decide)

/-! ### children a Len() pass has settled -/

/-- `xs` is left as it is by the Len() loop; the encoder loop leaves `zs`: then both loops are stable on `zs` -/
theorem mapM2_settled (g : V → R (UInt16 × V)) (f : V → R (Bytes × V)) :
    ∀ (xs : List V) (ls : List UInt16) (bss : List Bytes) (zs : List V),
    mapM2 g xs = .ok (ls, xs) → mapM2 f xs = .ok (bss, zs) →
    (∀ x ∈ xs, ∀ l b z, g x = .ok (l, x) → f x = .ok (b, z) → g z = .ok (l, z) ∧ f z = .ok (b, z)) →
    mapM2 g zs = .ok (ls, zs) ∧ mapM2 f zs = .ok (bss, zs) := by
  intro xs
  induction xs with
  | nil =>
    intro ls bss zs h1 h2 _
    simp [mapM2] at h1
    simp [mapM2] at h2; obtain ⟨rfl, rfl⟩ := h2
    subst h1
    exact ⟨rfl, rfl⟩
  | cons x xs ih =>
    intro ls bss zs h1 h2 hp
    obtain ⟨l, y, ls', ys', e1, e2, rfl, e3⟩ := mapM2_cons_ok _ _ _ _ _ h1
    obtain ⟨b, z, bss', zs', e4, e5, rfl, rfl⟩ := mapM2_cons_ok _ _ _ _ _ h2
    simp only [List.cons.injEq] at e3
    obtain ⟨ey, eys⟩ := e3
    subst ey; subst eys
    obtain ⟨a1, a2⟩ := hp x (by simp) l b z e1 e4
    obtain ⟨b1, b2⟩ := ih ls' bss' zs' e2 e5 (fun w hw => hp w (by simp [hw]))
    exact ⟨mapM2_cons_of_ok _ _ _ _ _ _ _ a1 b1, mapM2_cons_of_ok _ _ _ _ _ _ _ a2 b2⟩

/-- a list the Len() loop leaves as it is: each element is left as it is -/
theorem mapM2_fixed_mem {α} (g : V → R (α × V)) : ∀ (xs : List V) (ls : List α), mapM2 g xs = .ok (ls, xs) →
    ∀ x ∈ xs, ∃ l, g x = .ok (l, x) := by
  intro xs
  induction xs with
  | nil => intro ls _ x hx; exact absurd hx (by simp)
  | cons x xs ih =>
    intro ls h1 w hw
    obtain ⟨l, y, ls', ys', e1, e2, rfl, e3⟩ := mapM2_cons_ok _ _ _ _ _ h1
    simp only [List.cons.injEq] at e3
    obtain ⟨ey, eys⟩ := e3
    subst ey; subst eys
    rcases List.mem_cons.mp hw with rfl | hw'
    · exact ⟨l, e1⟩
    · exact ih ls' e2 w hw'

/-- `b, err = x.MarshalBinary()` with the error dropped (`msgTryM`), on a child Len() has settled -/
theorem msgTryM_settled {L : V → R (UInt16 × V)} {M : V → R (Bytes × V)} (x : V) (hr : Repeatable L M x)
    (l : UInt16) (b : Bytes) (z : V) (hl : L x = .ok (l, x)) (hm : msgTryM M x = .ok (b, z)) :
    L z = .ok (l, z) ∧ msgTryM M z = .ok (b, z) := by
  unfold msgTryM at hm
  split at hm
  · rename_i he
    cases hm
    exact ⟨hl, by simp only [msgTryM, he]⟩
  · rename_i hne
    refine ⟨hr.lenAfterMar l x b z hl hm, ?_⟩
    have := hr.marIdem b z hm
    simp only [msgTryM, this]

/-! ### repeatability through an interface dispatch -/

/-- `L`, `M` dispatch to `L'`, `M'` on every value satisfying `P` (having a certain dynamic type), and `L'`, `M'`
    return values satisfying `P` -/
theorem Repeatable.of_dispatch {L L' : V → R (UInt16 × V)} {M M' : V → R (Bytes × V)} (P : V → Prop) {v : V} (hv : P v)
    (hL : ∀ w, P w → L w = L' w) (hM : ∀ w, P w → M w = M' w)
    (hkL : ∀ l w1, L' v = .ok (l, w1) → P w1) (hkM : ∀ bs w2, M' v = .ok (bs, w2) → P w2)
    (hr : Repeatable L' M' v) : Repeatable L M v := by
  refine ⟨?_, ?_, ?_, ?_⟩
  · intro l v1 h1
    rw [hL v hv] at h1
    rw [hL v1 (hkL l v1 h1)]
    exact hr.lenIdem l v1 h1
  · intro bs v2 h2
    rw [hM v hv] at h2
    rw [hM v2 (hkM bs v2 h2)]
    exact hr.marIdem bs v2 h2
  · intro l v1 bs v2 h1 h2
    rw [hL v hv] at h1
    rw [hM v hv] at h2
    rw [hL v2 (hkM bs v2 h2)]
    exact hr.lenAfterMar l v1 bs v2 h1 h2
  · intro l v1 bs v2 h1 h2
    rw [hL v hv] at h1
    rw [hM v hv] at h2
    rw [hM v1 (hkL l v1 h1)]
    exact hr.marAfterLen l v1 bs v2 h1 h2

/-- a function that fails has nothing to repeat -/
theorem Repeatable.of_fail {L : V → R (UInt16 × V)} {M : V → R (Bytes × V)} {v : V}
    (hL : ∀ r, L v ≠ .ok r) (hM : ∀ r, M v ≠ .ok r) : Repeatable L M v :=
  ⟨fun _ _ h => absurd h (hL _), fun _ _ h => absurd h (hM _), fun _ _ _ _ h _ => absurd h (hL _),
   fun _ _ _ _ h _ => absurd h (hL _)⟩

/-! ### Len() / MarshalBinary() return a value of the receiver's dynamic type -/

/-- Len() on a value of dynamic type `k` returns a value of dynamic type `k` -/
def LenKind (k : String) (lenM : V → R (UInt16 × V)) : Prop := ∀ v l v1, v.kind = k → lenM v = .ok (l, v1) → v1.kind = k
/-- MarshalBinary() on a value of dynamic type `k` returns a value of dynamic type `k` -/
def MarKind (k : String) (marshalM : V → R (Bytes × V)) : Prop :=
  ∀ v bs v2, v.kind = k → marshalM v = .ok (bs, v2) → v2.kind = k

theorem LenKind.of_pure {k lenM} (h : ∀ v, LenPure lenM v) : LenKind k lenM := by
  intro v l v1 hk h1; rw [h v l v1 h1]; exact hk
theorem MarKind.of_pure {k marshalM} (h : ∀ v, MarPure marshalM v) : MarKind k marshalM := by
  intro v bs v2 hk h2; rw [h v bs v2 h2]; exact hk

/-- goal `F … = .ok (x, w) → w.kind = "K"` (with `v.kind = "K"` in the context): walk through the `do` block
    (binds, matches, ifs) to every exit -/
macro "kind_step" : tactic => `(tactic| first
  | (intro h; cases h <;> first | rfl | assumption)
  | peel1
  | (intro h; split at h <;> revert h)
  | (intro h; dsimp only at h; revert h))

macro "kind_tac" f:ident : tactic => `(tactic| (
  intro v x w hk
  unfold $f
  repeat' kind_step))

end OFV.Rep
