/-
  OFV.Lemmas.RTBasic — the decoder read idioms expressed through the visible bytes `data.bytes` of the slice, so
  that a decoder run on `encoding ++ tail` can be evaluated by rewriting.
-/
import OFV.Model.Core
import OFV.Lemmas.Read
namespace OFV.Go
open OFV

namespace Slice

/-- `data[n]` reads the n-th visible byte -/
theorem byteAt_eq (s : Slice) (n : Nat) : s.byteAt n = Res.ofOption (s.bytes[n]?) := by
  unfold byteAt index bytes
  by_cases h : n < s.len
  · simp [h]
  · simp [h, List.getElem?_take]

theorem fromR_bytes (s : Slice) (n : Nat) (h : n ≤ s.len) :
    ∃ t, s.fromR n = .ok t ∧ t.bytes = s.bytes.drop n ∧ t.len = s.len - n ∧ t.buf = s.buf.drop n := by
  refine ⟨⟨s.buf.drop n, s.len - n⟩, fromR_ok s n h, ?_, rfl, rfl⟩
  simp only [bytes]
  rw [List.drop_take]

theorem u16From_eq (s : Slice) (n : Nat) : s.u16From n = Res.ofOption (rd16 (s.bytes.drop n)) := by
  unfold u16From
  by_cases h : n ≤ s.len
  · obtain ⟨t, h1, h2, _⟩ := fromR_bytes s n h
    rw [h1]; simp only [Res.bind_ok, u16Here, h2]
  · have : s.fromR n = .panic := by unfold fromR from_ Res.ofOption; simp [h]
    rw [this]
    have hl : s.bytes.drop n = [] := by
      apply List.drop_eq_nil_of_le; simp [bytes]; omega
    rw [hl]; rfl

theorem u32From_eq (s : Slice) (n : Nat) : s.u32From n = Res.ofOption (rd32 (s.bytes.drop n)) := by
  unfold u32From
  by_cases h : n ≤ s.len
  · obtain ⟨t, h1, h2, _⟩ := fromR_bytes s n h
    rw [h1]; simp only [Res.bind_ok, u32Here, h2]
  · have : s.fromR n = .panic := by unfold fromR from_ Res.ofOption; simp [h]
    rw [this]
    have hl : s.bytes.drop n = [] := by
      apply List.drop_eq_nil_of_le; simp [bytes]; omega
    rw [hl]; rfl

theorem u64From_eq (s : Slice) (n : Nat) : s.u64From n = Res.ofOption (rd64 (s.bytes.drop n)) := by
  unfold u64From
  by_cases h : n ≤ s.len
  · obtain ⟨t, h1, h2, _⟩ := fromR_bytes s n h
    rw [h1]; simp only [Res.bind_ok, u64Here, h2]
  · have : s.fromR n = .panic := by unfold fromR from_ Res.ofOption; simp [h]
    rw [this]
    have hl : s.bytes.drop n = [] := by
      apply List.drop_eq_nil_of_le; simp [bytes]; omega
    rw [hl]; rfl

/-- `data[a:b]` with `b ≤ len(data)` shows the visible bytes a..b -/
theorem sliceR_bytes (s : Slice) (hwf : s.WF) (a b : Nat) (hab : a ≤ b) (hb : b ≤ s.len) :
    ∃ t, s.sliceR a b = .ok t ∧ t.bytes = (s.bytes.drop a).take (b - a) ∧ t.len = b - a := by
  unfold WF at hwf
  refine ⟨⟨s.buf.drop a, b - a⟩, sliceR_ok s a b hab (by omega), ?_, rfl⟩
  simp only [bytes]
  rw [List.drop_take, List.take_take]
  congr 1
  omega

theorem uptoR_bytes (s : Slice) (hwf : s.WF) (b : Nat) (hb : b ≤ s.len) :
    ∃ t, s.uptoR b = .ok t ∧ t.bytes = s.bytes.take b ∧ t.len = b := by
  have := sliceR_bytes s hwf 0 b (Nat.zero_le _) hb
  simpa [uptoR, upto, sliceR] using this

theorem u16In_eq (s : Slice) (hwf : s.WF) (a b : Nat) (hab : a ≤ b) (hb : b ≤ s.len) :
    s.u16In a b = Res.ofOption (rd16 ((s.bytes.drop a).take (b - a))) := by
  obtain ⟨t, h1, h2, _⟩ := sliceR_bytes s hwf a b hab hb
  unfold u16In
  rw [h1]; simp only [Res.bind_ok, u16Here, h2]

theorem u32In_eq (s : Slice) (hwf : s.WF) (a b : Nat) (hab : a ≤ b) (hb : b ≤ s.len) :
    s.u32In a b = Res.ofOption (rd32 ((s.bytes.drop a).take (b - a))) := by
  obtain ⟨t, h1, h2, _⟩ := sliceR_bytes s hwf a b hab hb
  unfold u32In
  rw [h1]; simp only [Res.bind_ok, u32Here, h2]

theorem u64In_eq (s : Slice) (hwf : s.WF) (a b : Nat) (hab : a ≤ b) (hb : b ≤ s.len) :
    s.u64In a b = Res.ofOption (rd64 ((s.bytes.drop a).take (b - a))) := by
  obtain ⟨t, h1, h2, _⟩ := sliceR_bytes s hwf a b hab hb
  unfold u64In
  rw [h1]; simp only [Res.bind_ok, u64Here, h2]

/-- the visible bytes are no longer than `len` -/
theorem bytes_length_le (s : Slice) : s.bytes.length ≤ s.len := by
  simp [bytes]; omega

theorem len_ge_of_bytes (s : Slice) (bs tail : Bytes) (h : s.bytes = bs ++ tail) : bs.length + tail.length ≤ s.len := by
  have := bytes_length_le s
  rw [h] at this
  simpa using this

end Slice
end OFV.Go

namespace OFV.RT
open OFV OFV.Go OFV.Model

theorem n8_toNat (c : Nat) (h : c < 256) : (n8 c).toNat = c := by
  simp [n8, UInt8.toNat_ofNat', Nat.mod_eq_of_lt h]
theorem n16_toNat (c : Nat) (h : c < 65536) : (n16 c).toNat = c := by
  simp [n16, UInt16.toNat_ofNat', Nat.mod_eq_of_lt h]
theorem n32_toNat (c : Nat) (h : c < 4294967296) : (n32 c).toNat = c := by
  simp [n32, UInt32.toNat_ofNat', Nat.mod_eq_of_lt h]
theorem n64_toNat (c : Nat) (h : c < 18446744073709551616) : (n64 c).toNat = c := by
  simp [n64, UInt64.toNat_ofNat', Nat.mod_eq_of_lt h]

theorem u8_n8 (x : Nat) (h : x < 256) : V.u8 (n8 x) = .num x := by
  simp [V.u8, n8_toNat x h]
theorem u16_n16 (x : Nat) (h : x < 65536) : V.u16 (n16 x) = .num x := by
  simp [V.u16, n16_toNat x h]
theorem u32_n32 (x : Nat) (h : x < 4294967296) : V.u32 (n32 x) = .num x := by
  simp [V.u32, n32_toNat x h]
theorem u64_n64 (x : Nat) (h : x < 18446744073709551616) : V.u64 (n64 x) = .num x := by
  simp [V.u64, n64_toNat x h]

theorem rd16_be16' (v : UInt16) : rd16 (be16 v) = some v := by
  have := rd16_be16 v []; simpa using this
theorem rd32_be32' (v : UInt32) : rd32 (be32 v) = some v := by
  have := rd32_be32 v []; simpa using this
theorem rd64_be64' (v : UInt64) : rd64 (be64 v) = some v := by
  have := rd64_be64 v []; simpa using this
theorem take_be16 (v : UInt16) (tail : Bytes) : (be16 v ++ tail).take 2 = be16 v := rfl
theorem take_be32 (v : UInt32) (tail : Bytes) : (be32 v ++ tail).take 4 = be32 v := rfl
theorem take_be64 (v : UInt64) (tail : Bytes) : (be64 v ++ tail).take 8 = be64 v := rfl

theorem makeCopy_exact (n : Nat) (b tail : Bytes) (h : b.length = n) : makeCopy n (b ++ tail) = b := by
  simp [makeCopy, copyInto, h]

theorem makeCopy_self (n : Nat) (b : Bytes) (h : b.length = n) : makeCopy n b = b := by
  have := makeCopy_exact n b [] h
  simpa using this

end OFV.RT
