/-
  OFV.Lemmas.RTBasic — the decoder read idioms expressed through the visible bytes `data.bytes` of the slice, so
  that a decoder run on `encoding ++ tail` can be evaluated by rewriting.
-/
import OFV.Model.Core
import OFV.Lemmas.Read
namespace OFV.Go
open OFV

namespace Slice

/-- `data[n]` reads the n-th visible byte -/
theorem byteAt_eq (s : Slice) (n : Nat) : s.byteAt n = Res.ofOption (s.bytes[n]?) := by
  unfold byteAt index bytes
  by_cases h : n < s.len
  · simp [h]
  · simp [h, List.getElem?_take]

theorem fromR_bytes (s : Slice) (n : Nat) (h : n ≤ s.len) :
    ∃ t, s.fromR n = .ok t ∧ t.bytes = s.bytes.drop n ∧ t.len = s.len - n ∧ t.buf = s.buf.drop n := by
  refine ⟨⟨s.buf.drop n, s.len - n⟩, fromR_ok s n h, ?_, rfl, rfl⟩
  simp only [bytes]
  rw [List.drop_take]

theorem u16From_eq (s : Slice) (n : Nat) : s.u16From n = Res.ofOption (rd16 (s.bytes.drop n)) := by
  unfold u16From
  by_cases h : n ≤ s.len
  · obtain ⟨t, h1, h2, _⟩ := fromR_bytes s n h
    rw [h1]; simp only [Res.bind_ok, u16Here, h2]
  · have : s.fromR n = .panic := by unfold fromR from_ Res.ofOption; simp [h]
    rw [this]
    have hl : s.bytes.drop n = [] := by
      apply List.drop_eq_nil_of_le; simp [bytes]; omega
    rw [hl]; rfl

theorem u32From_eq (s : Slice) (n : Nat) : s.u32From n = Res.ofOption (rd32 (s.bytes.drop n)) := by
  unfold u32From
  by_cases h : n ≤ s.len
  · obtain ⟨t, h1, h2, _⟩ := fromR_bytes s n h
    rw [h1]; simp only [Res.bind_ok, u32Here, h2]
  · have : s.fromR n = .panic := by unfold fromR from_ Res.ofOption; simp [h]
    rw [this]
    have hl : s.bytes.drop n = [] := by
      apply List.drop_eq_nil_of_le; simp [bytes]; omega
    rw [hl]; rfl

theorem u64From_eq (s : Slice) (n : Nat) : s.u64From n = Res.ofOption (rd64 (s.bytes.drop n)) := by
  unfold u64From
  by_cases h : n ≤ s.len
  · obtain ⟨t, h1, h2, _⟩ := fromR_bytes s n h
    rw [h1]; simp only [Res.bind_ok, u64Here, h2]
  · have : s.fromR n = .panic := by unfold fromR from_ Res.ofOption; simp [h]
    rw [this]
    have hl : s.bytes.drop n = [] := by
      apply List.drop_eq_nil_of_le; simp [bytes]; omega
    rw [hl]; rfl

/-- `data[a:b]` with `b ≤ len(data)` shows the visible bytes a..b -/
theorem sliceR_bytes (s : Slice) (hwf : s.WF) (a b : Nat) (hab : a ≤ b) (hb : b ≤ s.len) :
    ∃ t, s.sliceR a b = .ok t ∧ t.bytes = (s.bytes.drop a).take (b - a) ∧ t.len = b - a := by
  unfold WF at hwf
  refine ⟨⟨s.buf.drop a, b - a⟩, sliceR_ok s a b hab (by omega), ?_, rfl⟩
  simp only [bytes]
  rw [List.drop_take, List.take_take]
  congr 1
  omega

theorem uptoR_bytes (s : Slice) (hwf : s.WF) (b : Nat) (hb : b ≤ s.len) :
    ∃ t, s.uptoR b = .ok t ∧ t.bytes = s.bytes.take b ∧ t.len = b := by
  have := sliceR_bytes s hwf 0 b (Nat.zero_le _) hb
  simpa [uptoR, upto, sliceR] using this

theorem u16In_eq (s : Slice) (hwf : s.WF) (a b : Nat) (hab : a ≤ b) (hb : b ≤ s.len) :
    s.u16In a b = Res.ofOption (rd16 ((s.bytes.drop a).take (b - a))) := by
  obtain ⟨t, h1, h2, _⟩ := sliceR_bytes s hwf a b hab hb
  unfold u16In
  rw [h1]; simp only [Res.bind_ok, u16Here, h2]

theorem u32In_eq (s : Slice) (hwf : s.WF) (a b : Nat) (hab : a ≤ b) (hb : b ≤ s.len) :
    s.u32In a b = Res.ofOption (rd32 ((s.bytes.drop a).take (b - a))) := by
  obtain ⟨t, h1, h2, _⟩ := sliceR_bytes s hwf a b hab hb
  unfold u32In
  rw [h1]; simp only [Res.bind_ok, u32Here, h2]

theorem u64In_eq (s : Slice) (hwf : s.WF) (a b : Nat) (hab : a ≤ b) (hb : b ≤ s.len) :
    s.u64In a b = Res.ofOption (rd64 ((s.bytes.drop a).take (b - a))) := by
  obtain ⟨t, h1, h2, _⟩ := sliceR_bytes s hwf a b hab hb
  unfold u64In
  rw [h1]; simp only [Res.bind_ok, u64Here, h2]

/-- the visible bytes are no longer than `len` -/
theorem bytes_length_le (s : Slice) : s.bytes.length ≤ s.len := by
  simp [bytes]; omega

theorem len_ge_of_bytes (s : Slice) (bs tail : Bytes) (h : s.bytes = bs ++ tail) : bs.length + tail.length ≤ s.len := by
  have := bytes_length_le s
  rw [h] at this
  simpa using this

end Slice
end OFV.Go
