/-
  OFV.Lemmas.RT4e — MultipartReply through Parse with a body whose multipart type the record decoder does not support
  ("FIXME: Support all types"): Parse fails.  Used by OFV/Props/C05d.lean.
-/
import OFV.Model.All
import OFV.Lemmas.Size
import OFV.Lemmas.RTBasic
import OFV.Lemmas.RTMsg
namespace OFV.RT4
set_option linter.unusedSimpArgs false
open OFV OFV.Go OFV.Model OFV.RT

/-- the multipart types `MultipartReply.UnmarshalBinary` allocates a record for -/
def supportedReplyTypes : List Nat := [Gen.openflow13.MultipartType_Aggregate, Gen.openflow13.MultipartType_Desc,
  Gen.openflow13.MultipartType_Flow, Gen.openflow13.MultipartType_Port, Gen.openflow13.MultipartType_Table,
  Gen.openflow13.MultipartType_Queue]

theorem decodeRecord_unsupported (t : Nat) (ht : t ∉ supportedReplyTypes) (d : Slice) : MultipartReply.decodeRecord t d = .panic := by
  simp only [supportedReplyTypes, List.mem_cons, List.not_mem_nil, or_false, not_or] at ht
  obtain ⟨k1, k2, k3, k4, k5, k6⟩ := ht
  simp only [MultipartReply.decodeRecord, k1, k2, k3, k4, k5, k6, if_false]

/-- a multipart reply of an unsupported type with at least one body byte: the record interface stays nil, `repl.UnmarshalBinary`
    panics, Parse recovers and returns an error -/
theorem mpReply_unsupported_err (ver xid t f : Nat) (e : Bytes) (hver : ver < 256) (hxid : xid < 4294967296) (ht : t < 65536)
    (hk : t ∉ supportedReplyTypes) (he : 0 < e.length) (hS : 16 + e.length < 65536)
    (depth : Nat) (data : Slice) (tail : Bytes) (hd : data.WF)
    (hb : data.bytes = [n8 ver, n8 Gen.openflow13.Type_MultiPartReply] ++ be16 (n16 (16 + e.length)) ++ be32 (n32 xid)
      ++ (be16 (n16 t) ++ be16 (n16 f) ++ zeros 4) ++ e ++ tail) :
    parse depth data = .err := by
  have hlen := Slice.len_ge_of_bytes data _ _ hb
  simp only [List.length_append, be16_length, be32_length, zeros_length, List.length_cons, List.length_nil] at hlen
  have hb' : data.bytes = ([n8 ver, n8 Gen.openflow13.Type_MultiPartReply] ++ be16 (n16 (16 + e.length)) ++ be32 (n32 xid)) ++ (be16 (n16 t) ++ (be16 (n16 f)
      ++ (zeros 4 ++ (e ++ tail)))) := by
    rw [hb]; simp only [List.append_assoc]
  unfold parse
  obtain ⟨k, hk'⟩ : ∃ k, max depth (data.cap + 1) = k + 1 := ⟨max depth (data.cap + 1) - 1, by omega⟩
  rw [hk']
  unfold parseD parseStep
  have e1 : data.bytes[1]? = some (n8 Gen.openflow13.Type_MultiPartReply) := by rw [hb']; rfl
  have ht19 : (n8 Gen.openflow13.Type_MultiPartReply).toNat = 19 := by decide
  have ht19' : (n8 19).toNat = 19 := by decide
  simp only [Slice.byteAt_eq, e1, Res.ofOption, Res.bind_ok, ht19, ht19',
    Gen.openflow13.Type_EchoRequest, Gen.openflow13.Type_EchoReply, Gen.openflow13.Type_GetConfigRequest,
    Gen.openflow13.Type_BarrierRequest, Gen.openflow13.Type_BarrierReply, Gen.openflow13.Type_FeaturesRequest,
    Gen.openflow13.Type_Hello, Gen.openflow13.Type_Error, Gen.openflow13.Type_Experimenter,
    Gen.openflow13.Type_FeaturesReply, Gen.openflow13.Type_GetConfigReply, Gen.openflow13.Type_SetConfig,
    Gen.openflow13.Type_PacketIn, Gen.openflow13.Type_FlowRemoved, Gen.openflow13.Type_PortStatus,
    Gen.openflow13.Type_FlowMod, Gen.openflow13.Type_PacketOut, Gen.openflow13.Type_GroupMod, Gen.openflow13.Type_PortMod,
    Gen.openflow13.Type_TableMod, Gen.openflow13.Type_QueueGetConfigRequest, Gen.openflow13.Type_QueueGetConfigReply,
    Gen.openflow13.Type_MultiPartRequest, Gen.openflow13.Type_MultiPartReply,
    Nat.reduceEqDiff, reduceIte, if_false, if_true, or_true, true_or, or_false, false_or, or_self]
  obtain ⟨_, _, hhdr⟩ := header_roundtrip ver Gen.openflow13.Type_MultiPartReply (16 + e.length) xid hver (by decide) hS hxid
  have hh := hhdr Header.zero data _ hd hb'
  have e8 : rd16 (data.bytes.drop 8) = some (n16 t) := by rw [hb']; exact rd16_be16 _ _
  have e10 : rd16 (data.bytes.drop 10) = some (n16 f) := by rw [hb']; exact rd16_be16 _ _
  obtain ⟨s, hs1, _⟩ := Slice.fromR_bytes data 16 (by omega)
  simp only [MultipartReply.unmarshalWith, MultipartReply.zero, msgTryU, hh, Res.bind_ok, Slice.u16From_eq, e8, e10, Res.ofOption,
    Header.length, n16_toNat t ht]
  unfold msgLoopW
  have hc : decide (16 < 16 + e.length) = true := by simp; omega
  simp only [hc, if_true, hs1, Res.bind_ok, decodeRecord_unsupported t hk]
  rfl

end OFV.RT4
