/-
  OFV.Lemmas.ParseFlowStats — the instruction loop of a FlowStats record (multipart reply) terminates on every
  well-formed slice:
    * DecodeAction at every nesting depth returns an action whose Len() is stable under a second call (`ActQ`;
      a conntrack action reports 24 + the sizes of its nested actions);
    * hence `Len()` of a decoded InstrActions (8 + Σ) is stable too, and the loop — which refuses an instruction of
      size 0 and then advances by a second `Len()` call — always advances.
-/
import OFV.Lemmas.ParseLenAction
set_option linter.unusedSimpArgs false
namespace OFV.Model
open OFV OFV.Go InstrAux

/-- `xs` are actions on which `Len()` is stable, with the lengths `ls` -/
def LensOK : List V → List UInt16 → Prop
  | [], [] => True
  | x :: xs, l :: ls => Action.lenM x = .ok (l, x) ∧ LensOK xs ls
  | _, _ => False

theorem LensOK_append : ∀ (xs : List V) (ls : List UInt16) (x : V) (l : UInt16),
    LensOK xs ls → Action.lenM x = .ok (l, x) → LensOK (xs ++ [x]) (ls ++ [l]) := by
  intro xs
  induction xs with
  | nil =>
    intro ls x l h hx
    cases ls with
    | nil => exact ⟨hx, trivial⟩
    | cons _ _ => exact absurd h (by simp [LensOK])
  | cons y ys ih =>
    intro ls x l h hx
    cases ls with
    | nil => exact absurd h (by simp [LensOK])
    | cons m ms => exact ⟨h.1, ih ms x l h.2 hx⟩

/-- a Len() function that agrees with Action.Len() wherever it returns gives back the recorded lengths -/
theorem mapM2_LensOK (f : V → R (UInt16 × V)) (hf : ∀ x r, f x = .ok r → Action.lenM x = .ok r) :
    ∀ (xs : List V) (ls : List UInt16), LensOK xs ls → ∀ r, mapM2 f xs = .ok r → r = (ls, xs) := by
  intro xs
  induction xs with
  | nil =>
    intro ls h r hr
    cases ls with
    | nil => simp [mapM2] at hr; exact hr.symm
    | cons _ _ => exact absurd h (by simp [LensOK])
  | cons y ys ih =>
    intro ls h r hr
    cases ls with
    | nil => exact absurd h (by simp [LensOK])
    | cons m ms =>
      simp only [mapM2] at hr
      obtain ⟨⟨a, y'⟩, hy, hr⟩ := bind_ok_inv _ _ _ hr
      obtain ⟨⟨as, ys'⟩, hys, hr⟩ := bind_ok_inv _ _ _ hr
      have h1 := hf _ _ hy
      rw [h.1] at h1
      cases h1
      have h2 := ih ms h.2 _ hys
      cases h2
      simp at hr
      exact hr.symm

theorem mapM2_LensOK_self : ∀ (xs : List V) (ls : List UInt16), LensOK xs ls → mapM2 Action.lenM xs = .ok (ls, xs) := by
  intro xs
  induction xs with
  | nil => intro ls h; cases ls with
    | nil => rfl
    | cons _ _ => exact absurd h (by simp [LensOK])
  | cons y ys ih =>
    intro ls h
    cases ls with
    | nil => exact absurd h (by simp [LensOK])
    | cons m ms => simp only [mapM2, h.1, Res.bind_ok, ih ms h.2]; rfl

theorem sum16_le (ls : List UInt16) : (sum16 ls).toNat ≤ (ls.map UInt16.toNat).sum := by
  induction ls with
  | nil => simp [sum16_nil]
  | cons x xs ih =>
    rw [sum16_cons, UInt16.toNat_add]
    simp only [List.map_cons, List.sum_cons]
    omega

theorem sum_append1 (ls : List UInt16) (l : UInt16) :
    ((ls ++ [l]).map UInt16.toNat).sum = (ls.map UInt16.toNat).sum + l.toNat := by
  simp

/-- more nesting fuel does not change a result of Action.Len() -/
theorem mapM2_mono {α} (f g : V → R (α × V)) (h : ∀ x r, f x = .ok r → g x = .ok r) :
    ∀ xs r, mapM2 f xs = .ok r → mapM2 g xs = .ok r := by
  intro xs
  induction xs with
  | nil => intro r hr; exact hr
  | cons y ys ih =>
    intro r hr
    simp only [mapM2] at hr ⊢
    obtain ⟨⟨a, y'⟩, hy, hr⟩ := bind_ok_inv _ _ _ hr
    obtain ⟨⟨as, ys'⟩, hys, hr⟩ := bind_ok_inv _ _ _ hr
    rw [h _ _ hy, Res.bind_ok]
    simp only []
    rw [ih _ hys, Res.bind_ok]
    exact hr

theorem lenWith_mono (f g : V → R (UInt16 × V)) (h : ∀ x r, f x = .ok r → g x = .ok r) (v : V) (r : UInt16 × V)
    (hr : NXActionConnTrack.lenWith f v = .ok r) : NXActionConnTrack.lenWith g v = .ok r := by
  unfold NXActionConnTrack.lenWith at hr ⊢
  split at hr
  · obtain ⟨⟨hl, h1⟩, hh, hr⟩ := bind_ok_inv _ _ _ hr
    obtain ⟨⟨ls, acts'⟩, hm, hr⟩ := bind_ok_inv _ _ _ hr
    simp only [hh, Res.bind_ok, mapM2_mono f g h _ _ hm]
    exact hr
  · cases hr

theorem lenD_mono : ∀ d v r, Action.lenD d v = .ok r → Action.lenD (d + 1) v = .ok r := by
  intro d
  induction d with
  | zero => intro v r h; simp [Action.lenD] at h
  | succ n ih =>
    intro v r h
    unfold Action.lenD at h ⊢
    split
    · rename_i hk
      rw [if_pos hk] at h
      exact lenWith_mono _ _ ih v r h
    · rename_i hk
      rw [if_neg hk] at h
      exact h


theorem Action_lenM_ConnTrack' (fs : List V) :
    Action.lenM (.obj "NXActionConnTrack" fs)
      = NXActionConnTrack.lenWith (Action.lenD Action.encDepth) (.obj "NXActionConnTrack" fs) := by
  unfold Action.lenM
  rw [Action.lenD]
  exact if_pos rfl

/-- a conntrack action with header `h'` whose nested actions are stable with lengths `ls` -/
theorem ConnTrack_ActQ (d : Slice) (h' a b c e f g : V) (acts : List V) (ls : List UInt16) (hok : LensOK acts ls)
    (hb : 24 + (ls.map UInt16.toNat).sum ≤ d.buf.length + 48) :
    ActQ d (.obj "NXActionConnTrack" [h', a, b, c, e, f, g, .list acts]) := by
  have h24 : (n16 Gen.openflow13.NxActionHeaderLength + 14 : UInt16).toNat = 24 := rfl
  unfold ActQ
  rw [Action_lenM_ConnTrack']
  simp only [NXActionConnTrack.lenWith, NXActionHeader.lenM, same, Res.bind_ok]
  cases hm : mapM2 (Action.lenD Action.encDepth) acts with
  | err => exact post_err
  | panic => exact post_panic
  | spin => exact absurd hm (mapM2_ns _ (Action_lenD_ns Action.encDepth) acts).1
  | ok r =>
    have hr := mapM2_LensOK (Action.lenD Action.encDepth) (fun x r hx => lenD_mono Action.encDepth x r hx) acts ls hok r hm
    subst hr
    simp only [Res.bind_ok]
    apply post_bind_ns (NXActionHeader_setLength_ns _ _); intro h'' hset
    obtain ⟨_, hs2⟩ := NXActionHeader_setLength_inv _ _ _ hset
    apply post_ok
    refine ⟨?_, ?_⟩
    · simp only []
      rw [Action_lenM_ConnTrack']
      simp only [NXActionConnTrack.lenWith, NXActionHeader.lenM, same, Res.bind_ok, hm, hs2]
    · have := sum16_le ls
      simp only [UInt16.toNat_add, h24] at this ⊢
      omega

/-- a decoded conntrack action (decoded into `new(NXActionConnTrack)`): Len() is 24 + the sizes of the nested actions -/
theorem NXActionConnTrack_dec (dec : Slice → R V) (hdec : ∀ ds : Slice, ds.WF → Post (dec ds) (ActQ ds))
    (data : Slice) (hwf : data.WF) :
    Post (NXActionConnTrack.unmarshalWith dec Action.lenM NXActionConnTrack.zero data) (ActQ data) := by
  have hwf' := hwf
  unfold Slice.WF at hwf'
  simp only [NXActionConnTrack.unmarshalWith, NXActionConnTrack.zero]
  apply post_bind_ns (nxPrefix_ns _); intro h _
  apply post_bind_ns (NXActionHeader_length_ns _); intro l _
  apply post_bind_ns (ns_u16From _ _); intro _ _
  apply post_bind_ns (ns_u32From _ _); intro _ _
  apply post_bind_ns (ns_u16From _ _); intro _ _
  apply post_bind_ns (ns_byteAt _ _); intro _ _
  apply post_bind_ns (ns_sliceR _ _ _); intro _ _
  apply post_bind_ns (ns_u16From _ _); intro _ _
  apply post_bind (goLoop_post _ _ _
    (fun s => ∃ ls, LensOK s.acts ls ∧ s.n = 24 + (ls.map UInt16.toNat).sum ∧ s.n ≤ data.buf.length + 48)
    l.toNat ?_ _ _ ?_ ?_)
  · intro st _ ⟨⟨ls, hok, hn, hcap⟩, _⟩
    apply post_bind_ns (NXActionHeader_setLength_ns _ _); intro h' _
    apply post_ok
    exact ConnTrack_ActQ data h' _ _ _ _ _ _ st.acts ls hok (by omega)
  · intro s ⟨ls, hok, hn, hcap⟩ hc
    simp only [decide_eq_true_eq] at hc
    apply post_bind (P := fun ds => ds.WF ∧ s.n ≤ data.len ∧ ds.buf.length = data.buf.length - s.n) ?_ ?_
    · exact ⟨(ns_fromR _ _).1, fun ds hds =>
        ⟨(Slice.fromR_wf data hwf _ _ hds).1, (fromR_inv _ _ _ hds).1, fromR_cap _ _ _ hds⟩⟩
    intro ds _ hds
    apply post_bind (hdec ds hds.1); intro act _ hact
    unfold ActQ at hact
    apply post_bind hact; intro p _ hp
    obtain ⟨al, act'⟩ := p
    simp only [] at hp ⊢
    split
    · exact post_err
    · rename_i hne
      have : al.toNat ≠ 0 := fun h => hne (UInt16.toNat_inj.mp h)
      apply post_ok
      refine ⟨⟨ls ++ [al], LensOK_append _ _ _ _ hok hp.1, ?_, ?_⟩, ?_, ?_⟩
      · simp only [sum_append1]; omega
      · simp only []; omega
      · simp only []; omega
      · omega
  · exact ⟨[], trivial, rfl, by simp⟩
  · have := l.toNat_lt
    simp only []
    omega

/-- DecodeAction at every nesting depth: `Len()` of the decoded action is stable and bounded by the capacity + 48 -/
theorem DecodeAction_dec : ∀ depth (d : Slice), d.WF → Post (DecodeAction depth d) (ActQ d) := by
  intro depth
  induction depth with
  | zero => intro d _; exact post_panic
  | succ n ih =>
    intro d hwf
    unfold DecodeAction
    apply post_bind (newActionFor_post _); intro a _ ha
    split
    · rename_i hk
      rw [ha.2 hk]
      exact NXActionConnTrack_dec _ ih _ hwf
    · exact Action_unmarshalLeaf_dec _ _ hwf ha.1


/-- the action-list loop of InstrActions: the decoded actions are stable under Len(), the cursor is 8 + their sizes and
    stays below capacity + 48 -/
theorem decodeActions_dec (data : Slice) (limit : Nat) (hwf : data.WF) :
    Post (decodeActions data limit 8 [])
      (fun st => ∃ ls, LensOK st.xs ls ∧ st.n = 8 + (ls.map UInt16.toNat).sum ∧ st.n ≤ data.buf.length + 48) := by
  have hwf' := hwf
  unfold Slice.WF at hwf'
  unfold decodeActions
  refine post_mono (goLoop_post _ _ _
    (fun s => ∃ ls, LensOK s.xs ls ∧ s.n = 8 + (ls.map UInt16.toNat).sum ∧ s.n ≤ data.buf.length + 48)
    (data.len + 1) ?_ _ _ ?_ ?_) (fun st h => h.1)
  · intro s ⟨ls, hok, hn, hcap⟩ hc
    simp only [Bool.and_eq_true, Bool.not_eq_true', decide_eq_true_eq] at hc
    apply post_bind (P := fun ds => ds.WF ∧ s.n ≤ data.len ∧ ds.buf.length = data.buf.length - s.n) ?_ ?_
    · exact ⟨(ns_fromR _ _).1, fun ds hds =>
        ⟨(Slice.fromR_wf data hwf _ _ hds).1, (fromR_inv _ _ _ hds).1, fromR_cap _ _ _ hds⟩⟩
    intro ds _ hds
    split
    · rename_i act hact
      have hq := (DecodeAction_dec _ ds hds.1).2 _ hact
      unfold ActQ at hq
      apply post_bind hq; intro p _ hp
      obtain ⟨l, act'⟩ := p
      simp only [] at hp ⊢
      split
      · apply post_ok
        refine ⟨⟨ls, hok, hn, hcap⟩, ?_, ?_⟩ <;> simp [St.cursor, hc.1] <;> omega
      · rename_i hne
        have : l.toNat ≠ 0 := fun h => hne (UInt16.toNat_inj.mp h)
        apply post_ok
        refine ⟨⟨ls ++ [l], LensOK_append _ _ _ _ hok hp.1, ?_, ?_⟩, ?_, ?_⟩
        · simp only [sum_append1]; omega
        · simp only []; omega
        · simp [St.cursor, hc.1]; omega
        · simp [St.cursor, hc.1]; omega
    · apply post_ok
      refine ⟨⟨ls, hok, hn, hcap⟩, ?_, ?_⟩ <;> simp [St.cursor, hc.1] <;> omega
    · exact post_panic
    · exact absurd ‹_› (DecodeAction_ns _ _).1
  · exact ⟨[], trivial, rfl, by simp⟩
  · simp [St.cursor]; omega

theorem Instruction_lenM_InstrActions (fs : List V) :
    Instruction.lenM (.obj "InstrActions" fs) = InstrActions.lenM (.obj "InstrActions" fs) := rfl

/-- `Len()` of a decoded InstrActions changes nothing: a second call returns the same size -/
theorem InstrActions_unmarshalP_dec (d : Slice) (hwf : d.WF) :
    Post (InstrActions.unmarshalP InstrActions.zero d)
      (fun p => Post (Instruction.lenM p.1) (fun q => Instruction.lenM q.2 = .ok q)) := by
  simp only [InstrActions.unmarshalP, InstrActions.zero]
  apply post_bind_ns (InstrHeader_unmarshal4_ns _ _); intro h _
  apply post_bind (decodeActions_dec _ _ hwf); intro st _ ⟨ls, hok, _, _⟩
  apply post_ok
  simp only []
  have hl : Instruction.lenM (.obj "InstrActions" [h, .bytes [], .list st.xs])
      = .ok (8 + sum16 ls, .obj "InstrActions" [h, .bytes [], .list st.xs]) := by
    rw [Instruction_lenM_InstrActions]
    simp only [InstrActions.lenM, mapM2_LensOK_self _ _ hok, Res.bind_ok]
  rw [hl]
  exact post_ok hl

theorem InstrGotoTable_unmarshal_post (recv : V) (d : Slice) :
    Post (InstrGotoTable.unmarshal recv d) (fun v => ∃ fs, v = .obj "InstrGotoTable" fs) := by
  unfold InstrGotoTable.unmarshal; post_auto [InstrHeader_unmarshal4_ns]; exact post_ok ⟨_, rfl⟩
theorem InstrWriteMetadata_unmarshal_post (recv : V) (d : Slice) :
    Post (InstrWriteMetadata.unmarshal recv d) (fun v => ∃ fs, v = .obj "InstrWriteMetadata" fs) := by
  unfold InstrWriteMetadata.unmarshal; post_auto [InstrHeader_unmarshal4_ns]; exact post_ok ⟨_, rfl⟩
theorem InstrMeter_unmarshal_post (recv : V) (d : Slice) :
    Post (InstrMeter.unmarshal recv d) (fun v => ∃ fs, v = .obj "InstrMeter" fs) := by
  unfold InstrMeter.unmarshal; post_auto [InstrHeader_unmarshal4_ns]; exact post_ok ⟨_, rfl⟩

theorem catchErr_post {α} (r : R α) (dflt : α) (P : α → Prop) (h : Post r P) (h0 : P dflt) :
    Post (catchErr r dflt) (fun p => P p.1) := by
  unfold catchErr
  split
  · exact post_ok (h.2 _ rfl)
  · exact post_ok h0
  · exact post_panic
  · exact absurd rfl h.1

theorem stable_of_eq (v : V) (c : UInt16) (h : Instruction.lenM v = .ok (c, v)) :
    Post (Instruction.lenM v) (fun q => Instruction.lenM q.2 = .ok q) := by
  rw [h]; exact post_ok h

/-- every instruction DecodeInstr returns has a stable `Len()`: a second call returns the same size and value -/
theorem DecodeInstr_dec (d : Slice) (hwf : d.WF) :
    Post (DecodeInstr d) (fun i => Post (Instruction.lenM i) (fun q => Instruction.lenM q.2 = .ok q)) := by
  unfold DecodeInstr
  apply post_bind_ns (ns_u16In _ _ _); intro t16 _
  extract_lets t
  refine post_ite (fun _ => ?_) (fun _ => ?_)
  · apply post_bind (catchErr_post _ _ _ (InstrGotoTable_unmarshal_post _ _) ⟨_, rfl⟩); intro p _ ⟨fs, hfs⟩
    obtain ⟨v, e⟩ := p
    simp only [] at hfs ⊢
    subst hfs
    exact post_ok (stable_of_eq (.obj "InstrGotoTable" fs) _ rfl)
  refine post_ite (fun _ => ?_) (fun _ => ?_)
  · apply post_bind (catchErr_post _ _ _ (InstrWriteMetadata_unmarshal_post _ _) ⟨_, rfl⟩); intro p _ ⟨fs, hfs⟩
    obtain ⟨v, e⟩ := p
    simp only [] at hfs ⊢
    subst hfs
    exact post_ok (stable_of_eq (.obj "InstrWriteMetadata" fs) _ rfl)
  refine post_ite (fun _ => ?_) (fun _ => ?_)
  · apply post_bind (InstrActions_unmarshalP_dec d hwf); intro p _ hp
    obtain ⟨v, e⟩ := p
    exact post_ok hp
  refine post_ite (fun _ => ?_) (fun _ => post_panic)
  · apply post_bind (catchErr_post _ _ _ (InstrMeter_unmarshal_post _ _) ⟨_, rfl⟩); intro p _ ⟨fs, hfs⟩
    obtain ⟨v, e⟩ := p
    simp only [] at hfs ⊢
    subst hfs
    exact post_ok (stable_of_eq (.obj "InstrMeter" fs) _ rfl)

/-- THE instruction loop of a FlowStats record terminates on every well-formed slice: an instruction of size 0 is
    refused, and the second `Len()` call, by which the cursor advances, returns the same non-zero size -/
theorem decodeInstrs_ns (data : Slice) (limit n0 : Nat) (is0 : List V) (hwf : data.WF) :
    NS (FlowStats.decodeInstrs data limit n0 is0) := by
  unfold FlowStats.decodeInstrs
  apply post_bind_ns
  · refine (goLoop_post _ _ _ (fun _ => True) (data.len + 1) ?_ _ _ trivial ?_).ns
    · intro s _ hc
      apply post_bind (P := fun ds => ds.WF ∧ s.n ≤ data.len) ?_ ?_
      · exact ⟨(ns_fromR _ _).1, fun ds hds => ⟨(Slice.fromR_wf data hwf _ _ hds).1, (fromR_inv _ _ _ hds).1⟩⟩
      intro ds _ hds
      apply post_bind (DecodeInstr_dec ds hds.1); intro i _ hi
      apply post_bind hi; intro q _ hq
      obtain ⟨l, i'⟩ := q
      simp only [] at hq ⊢
      split
      · exact post_err
      · rename_i hne
        have : l.toNat ≠ 0 := fun h => hne (UInt16.toNat_inj.mp h)
        rw [hq]
        apply post_ok
        simp only [true_and]
        omega
    · simp only []; omega
  · intro st _; post_auto

/-- the hypothesis of `parse_ns` about FlowStats holds -/
theorem flowStatsInstrLoopOK : FlowStatsInstrLoopOK :=
  fun d limit n0 is0 hwf => decodeInstrs_ns d limit n0 is0 hwf

/-- Parse never spins on a well-formed slice, given only that the Ethernet decoder does not -/
theorem parse_ns' (hEth : ∀ recv (d : Slice), d.WF → NS (PEthernet.unmarshal recv d)) (depth : Nat) (b : Slice) (hb : b.WF) :
    NS (parse depth b) := parse_ns hEth flowStatsInstrLoopOK depth b hb

end OFV.Model
