/-
  OFV.Lemmas.RTMsgMore — BundlePropertyExperimenter, ErrorMsg through Parse, PhyPort, PortStatus through Parse.
  Used by OFV/Props/C05.lean.
-/
import OFV.Model.All
import OFV.Lemmas.Size
import OFV.Lemmas.RTBasic
import OFV.Lemmas.RTMsg
import OFV.Lemmas.RTMatch
namespace OFV.RT
set_option linter.unusedSimpArgs false
open OFV OFV.Go OFV.Model

theorem ofNat_lit' (n : Nat) (x : UInt16) (h : x.toNat = n) : x = UInt16.ofNat n := by
  apply UInt16.toNat_inj.mp
  rw [h]
  have := x.toNat_lt
  simp [UInt16.toNat_ofNat']; omega

def bundlePropV (t ln ei et : Nat) (d : Bytes) : V :=
  .obj "BundlePropertyExperimenter" [.num t, .num ln, .num ei, .num et, .bytes d]

/-- BundlePropertyExperimenter: 12-byte header (type, length = 12 + payload, experimenter, exp_type), payload, zero padding to
    a multiple of 8.  `MarshalBinary` stores the unpadded length in the receiver. -/
theorem bundleProp_rt (t ei et : Nat) (d : Bytes) (ht : t < 65536) (hei : ei < 4294967296) (het : et < 4294967296)
    (hd : 12 + d.length + 7 < 65536) :
    let L := (12 + d.length + 7) / 8 * 8
    let bs := be16 (n16 t) ++ be16 (n16 (12 + d.length)) ++ be32 (n32 ei) ++ be32 (n32 et) ++ d ++ zeros (L - (12 + d.length))
    (∀ ln0, BundlePropertyExperimenter.marshalM (bundlePropV t ln0 ei et d) = .ok (bs, bundlePropV t (12 + d.length) ei et d)) ∧
    BundlePropertyExperimenter.lenM (bundlePropV t (12 + d.length) ei et d) = .ok (UInt16.ofNat bs.length, bundlePropV t (12 + d.length) ei et d) ∧
    bs.length % 8 = 0 ∧
    ∀ (recv : V) (data : Slice) (tail : Bytes), data.WF → data.bytes = bs ++ tail →
      BundlePropertyExperimenter.unmarshal recv data = .ok (bundlePropV t (12 + d.length) ei et d) := by
  intro L bs
  have hdl : (n16 d.length).toNat = d.length := n16_toNat _ (by omega)
  have hlen : ∀ ln, BundlePropertyExperimenter.len (bundlePropV t ln ei et d) = .ok (UInt16.ofNat L) := by
    intro ln
    simp only [bundlePropV, BundlePropertyExperimenter.len]
    congr 1
    apply ofNat_lit'
    rw [UInt16.toNat_mul, UInt16.toNat_div, UInt16.toNat_add, UInt16.toNat_add, hdl]
    have h12 : (12 : UInt16).toNat = 12 := rfl
    have h7 : (7 : UInt16).toNat = 7 := rfl
    have h8 : (8 : UInt16).toNat = 8 := rfl
    rw [h12, h7, h8]
    have : (12 + d.length) % 65536 = 12 + d.length := Nat.mod_eq_of_lt (by omega)
    rw [this]
    have : (12 + d.length + 7) % 65536 = 12 + d.length + 7 := Nat.mod_eq_of_lt (by omega)
    rw [this]
    exact Nat.mod_eq_of_lt (by omega)
  have hLto : (UInt16.ofNat L).toNat = L := by
    simp [UInt16.toNat_ofNat']; omega
  have hbl : bs.length = L := by
    simp only [bs, List.length_append, be16_length, be32_length, zeros_length]; omega
  refine ⟨?_, ?_, by rw [hbl]; omega, ?_⟩
  · intro ln0
    simp only [BundlePropertyExperimenter.marshalM, bundlePropV]
    have := hlen ln0
    simp only [bundlePropV] at this
    rw [this]
    simp only [Res.bind_ok, hLto]
    have hp : piecesLen [pU16 t, .put (be16 (n16 (12 + d.length))), pU32 ei, pU32 et, pCopy d] = 12 + d.length := by
      simp [piecesLen, pU16, pU32, pCopy, Piece.adv]; omega
    rw [fill_exact L _ (by intro p hp; simp at hp; rcases hp with rfl | rfl | rfl | rfl | rfl <;> trivial) (by rw [hp]; omega), hp]
    simp only [Res.bind_ok, u16_n16 (12 + d.length) (by omega)]
    simp [piecesBytes, pU16, pU32, pCopy, Piece.bytes, bs]
  · simp only [BundlePropertyExperimenter.lenM, hlen, Res.bind_ok, same, hbl]
  · intro recv data tail hdw hb
    have hlenD := Slice.len_ge_of_bytes data _ _ hb
    rw [hbl] at hlenD
    have hb' : data.bytes = be16 (n16 t) ++ (be16 (n16 (12 + d.length)) ++ (be32 (n32 ei) ++ (be32 (n32 et) ++
        (d ++ (zeros (L - (12 + d.length)) ++ tail))))) := by
      rw [hb]; simp only [bs, List.append_assoc]
    have e0 : rd16 (data.bytes.drop 0) = some (n16 t) := by rw [hb']; exact rd16_be16 _ _
    have e2 : rd16 (data.bytes.drop 2) = some (n16 (12 + d.length)) := by rw [hb']; exact rd16_be16 _ _
    have e4 : rd32 (data.bytes.drop 4) = some (n32 ei) := by rw [hb']; exact rd32_be32 _ _
    have e8 : rd32 (data.bytes.drop 8) = some (n32 et) := by rw [hb']; exact rd32_be32 _ _
    unfold BundlePropertyExperimenter.unmarshal
    rw [if_neg (by omega)]
    simp only [Slice.u16From_eq, Slice.u32From_eq, e0, e2, e4, e8, Res.ofOption, Res.bind_ok, n16_toNat (12 + d.length) (by omega)]
    have hc : (decide (12 + d.length < 12) || decide (data.len < 12 + d.length)) = false := by
      simp; omega
    simp only [hc, Bool.false_eq_true, if_false]
    obtain ⟨s, hs1, hs2, _⟩ := Slice.sliceR_bytes data hdw 12 (12 + d.length) (by omega) (by omega)
    have hsb : s.bytes = d := by
      rw [hs2, hb']
      have : List.drop 12 (be16 (n16 t) ++ (be16 (n16 (12 + d.length)) ++ (be32 (n32 ei) ++ (be32 (n32 et) ++
        (d ++ (zeros (L - (12 + d.length)) ++ tail)))))) = d ++ (zeros (L - (12 + d.length)) ++ tail) := rfl
      rw [this]
      have : 12 + d.length - 12 = d.length := by omega
      rw [this]
      exact List.take_left' rfl
    have h12 : 12 + d.length - 12 = d.length := by omega
    simp only [hs1, Res.bind_ok, hsb, h12, makeCopy_self _ d rfl, Res.pure_eq, u16_n16 t ht,
      u16_n16 (12 + d.length) (by omega), u32_n32 ei hei, u32_n32 et het, bundlePropV]


def errorMsgV (ver ln xid t c : Nat) (d : Bytes) : V :=
  .obj "ErrorMsg" [.obj "Header" [.num ver, .num Gen.openflow13.Type_Error, .num ln, .num xid], .num t, .num c, UBuffer.mk d]

/-- ErrorMsg through Parse (error type other than ET_EXPERIMENTER).  `MarshalBinary` stores the size 12 + |d| in Header.Length (whatever `ln0` was there).  The decoder
    takes everything behind the 12 fixed bytes as the error data: with `tail` behind the message the data is `d ++ tail`;
    with the buffer holding exactly the message (`tail = []`) the value comes back. -/
theorem errorMsg_rt (ver xid t c : Nat) (d : Bytes) (hver : ver < 256) (hxid : xid < 4294967296)
    (ht : t < 65536) (hte : t ≠ Gen.openflow13.ET_EXPERIMENTER) (hc : c < 65536) (hd : 12 + d.length < 65536) :
    let bs := [n8 ver, n8 Gen.openflow13.Type_Error] ++ be16 (n16 (12 + d.length)) ++ be32 (n32 xid) ++ be16 (n16 t) ++ be16 (n16 c) ++ d
    (∀ ln0, ErrorMsg.marshalM (errorMsgV ver ln0 xid t c d) = .ok (bs, errorMsgV ver (12 + d.length) xid t c d)) ∧
    ∀ (depth : Nat) (data : Slice) (tail : Bytes), data.WF → data.bytes = bs ++ tail →
      parse depth data = .ok (errorMsgV ver (12 + d.length) xid t c (d ++ tail)) := by
  intro bs
  have hdl : (n16 d.length).toNat = d.length := n16_toNat _ (by omega)
  refine ⟨?_, ?_⟩
  · intro ln0
    have hlen : ∀ ln', ErrorMsg.lenM (errorMsgV ver ln' xid t c d) = .ok ((8 : UInt16) + 2 + 2 + n16 d.length, errorMsgV ver ln' xid t c d) := by
      intro ln'
      simp only [errorMsgV, ErrorMsg.lenM, UBuffer.lenM, UBuffer.mk, UBuffer.content, Res.bind_ok, same, Res.pure_eq]
    have hto : ((8 : UInt16) + 2 + 2 + n16 d.length).toNat = 12 + d.length := by
      rw [UInt16.toNat_add, hdl]
      have : ((8 : UInt16) + 2 + 2).toNat = 12 := rfl
      rw [this]; omega
    have hu : V.u16 ((8 : UInt16) + 2 + 2 + n16 d.length) = .num (12 + d.length) := by simp only [V.u16, hto]
    unfold ErrorMsg.marshalM
    rw [hlen]
    simp only [Res.bind_ok]
    rw [hlen]
    simp only [Res.bind_ok, errorMsgV, Header.setLength, hu, Header.bytes, UBuffer.marshalM, UBuffer.mk, UBuffer.content, same, hto]
    have hp : piecesLen [pCopy ([n8 ver, n8 Gen.openflow13.Type_Error] ++ be16 (n16 (12 + d.length)) ++ be32 (n32 xid)), pU16 t, pU16 c,
        pCopy d] = 12 + d.length := by
      simp [piecesLen, pU16, pCopy, Piece.adv]; omega
    have := fill_exact' [pCopy ([n8 ver, n8 Gen.openflow13.Type_Error] ++ be16 (n16 (12 + d.length)) ++ be32 (n32 xid)), pU16 t, pU16 c, pCopy d]
      (by intro p hp; simp at hp; rcases hp with rfl | rfl | rfl | rfl <;> trivial)
    rw [hp] at this
    rw [this]
    simp [piecesBytes, pU16, pCopy, Piece.bytes, bs]
  · intro depth data tail hdw hb
    have hlenD := Slice.len_ge_of_bytes data _ _ hb
    simp only [bs, List.length_append, be16_length, be32_length, List.length_cons, List.length_nil] at hlenD
    have hb' : data.bytes = ([n8 ver, n8 Gen.openflow13.Type_Error] ++ be16 (n16 (12 + d.length)) ++ be32 (n32 xid)) ++
        (be16 (n16 t) ++ (be16 (n16 c) ++ (d ++ tail))) := by
      rw [hb]; simp only [bs, List.append_assoc]
    obtain ⟨_, _, hdec⟩ := header_roundtrip ver Gen.openflow13.Type_Error (12 + d.length) xid hver (by decide) hd hxid
    unfold parse
    obtain ⟨k, hk⟩ : ∃ k, max depth (data.cap + 1) = k + 1 := ⟨max depth (data.cap + 1) - 1, by omega⟩
    rw [hk]
    unfold parseD parseStep
    have e1 : data.bytes[1]? = some (n8 Gen.openflow13.Type_Error) := by rw [hb']; rfl
    have ht1 : (n8 Gen.openflow13.Type_Error).toNat = 1 := by decide
    have ht1' : (n8 1).toNat = 1 := by decide
    simp only [Slice.byteAt_eq, e1, Res.ofOption, Res.bind_ok, ht1, ht1', Gen.openflow13.Type_Hello, Gen.openflow13.Type_Error,
      Nat.reduceEqDiff, reduceIte, if_false, if_true]
    have e8 : rd16 (data.bytes.drop 8) = some (n16 t) := by
      rw [hb']
      have : List.drop 8 (([n8 ver, n8 Gen.openflow13.Type_Error] ++ be16 (n16 (12 + d.length)) ++ be32 (n32 xid)) ++
        (be16 (n16 t) ++ (be16 (n16 c) ++ (d ++ tail)))) = be16 (n16 t) ++ (be16 (n16 c) ++ (d ++ tail)) := rfl
      rw [this]; exact rd16_be16 _ _
    have e10 : rd16 (data.bytes.drop 10) = some (n16 c) := by
      rw [hb']
      have : List.drop 10 (([n8 ver, n8 Gen.openflow13.Type_Error] ++ be16 (n16 (12 + d.length)) ++ be32 (n32 xid)) ++
        (be16 (n16 t) ++ (be16 (n16 c) ++ (d ++ tail)))) = be16 (n16 c) ++ (d ++ tail) := rfl
      rw [this]; exact rd16_be16 _ _
    obtain ⟨s, hs1, hs2, _, _⟩ := Slice.fromR_bytes data 12 (by omega)
    have hsb : s.bytes = d ++ tail := by rw [hs2, hb']; rfl
    simp only [ErrorMsg.unmarshal, ErrorMsg.zero, msgTryU, hdec _ data _ hdw hb', Res.bind_ok, Slice.u16From_eq, e8, e10,
      Res.ofOption, hs1, UBuffer.unmarshal, hsb, Res.pure_eq, ErrorMsg.errType, V.u16, n16_toNat t ht, hte, if_false,
      recoverR, errorMsgV, n16_toNat c hc]


theorem copyInto_prefix (dst src rest : Bytes) (h : src.length = dst.length) : copyInto dst (src ++ rest) = src := by
  simp [copyInto, h]

theorem makeCopy_zeros' (n k : Nat) : makeCopy n (zeros k) = zeros n := by
  simp only [makeCopy, copyInto, zeros, List.take_replicate, List.drop_replicate, List.length_replicate,
    List.replicate_append_replicate]
  congr 1
  omega

theorem copyInto_nil (src : Bytes) : copyInto [] src = [] := by
  simp [copyInto]

theorem list_len6 (l : Bytes) (h : l.length = 6) : ∃ a0 a1 a2 a3 a4 a5, l = [a0, a1, a2, a3, a4, a5] := by
  match l, h with
  | [a0, a1, a2, a3, a4, a5], _ => exact ⟨a0, a1, a2, a3, a4, a5, rfl⟩

theorem list_len16 (l : Bytes) (h : l.length = 16) :
    ∃ b0 b1 b2 b3 b4 b5 b6 b7 b8 b9 b10 b11 b12 b13 b14 b15,
      l = [b0, b1, b2, b3, b4, b5, b6, b7, b8, b9, b10, b11, b12, b13, b14, b15] := by
  match l, h with
  | [b0, b1, b2, b3, b4, b5, b6, b7, b8, b9, b10, b11, b12, b13, b14, b15], _ =>
    exact ⟨b0, b1, b2, b3, b4, b5, b6, b7, b8, b9, b10, b11, b12, b13, b14, b15, rfl⟩

/-- a port description in decoded form: unexported pads nil, 6-byte hardware address, 16-byte name -/
def phyPortV (no : Nat) (hw name : Bytes) (cfg st cur adv sup peer cs ms : Nat) : V :=
  .obj "PhyPort" [.num no, .bytes [], .bytes hw, .bytes [], .bytes name, .num cfg, .num st, .num cur, .num adv,
    .num sup, .num peer, .num cs, .num ms]

def phyPortBytes (no : Nat) (hw name : Bytes) (cfg st cur adv sup peer cs ms : Nat) : Bytes :=
  be32 (n32 no) ++ zeros 4 ++ hw ++ zeros 2 ++ name ++ be32 (n32 cfg) ++ be32 (n32 st) ++ be32 (n32 cur) ++ be32 (n32 adv)
    ++ be32 (n32 sup) ++ be32 (n32 peer) ++ be32 (n32 cs) ++ be32 (n32 ms)

/-- PhyPort decoded into NewPhyPort() (allocated 6-byte address and 16-byte name), followed by anything -/
theorem phyPort_rt (no : Nat) (hw name : Bytes) (cfg st cur adv sup peer cs ms : Nat)
    (hno : no < 4294967296) (hhw : hw.length = 6) (hname : name.length = 16) (hcfg : cfg < 4294967296)
    (hst : st < 4294967296) (hcur : cur < 4294967296) (hadv : adv < 4294967296) (hsup : sup < 4294967296)
    (hpeer : peer < 4294967296) (hcs : cs < 4294967296) (hms : ms < 4294967296) :
    let v := phyPortV no hw name cfg st cur adv sup peer cs ms
    let bs := phyPortBytes no hw name cfg st cur adv sup peer cs ms
    bs.length = 64 ∧ PhyPort.marshalM v = .ok (bs, v) ∧ PhyPort.lenM v = .ok (64, v) ∧
    ∀ (data : Slice) (tail : Bytes), data.WF → data.bytes = bs ++ tail → PhyPort.unmarshal PhyPort.new data = .ok v := by
  intro v bs
  have hbl : bs.length = 64 := by
    simp only [bs, phyPortBytes, List.length_append, be32_length, zeros_length, hhw, hname]
  have hlen : PhyPort.len v = .ok 64 := by
    simp only [v, phyPortV, PhyPort.len, hhw, hname]
    rfl
  refine ⟨hbl, ?_, by simp only [PhyPort.lenM, hlen, Res.bind_ok, same], ?_⟩
  · unfold PhyPort.marshalM
    rw [hlen]
    simp only [Res.bind_ok, v, phyPortV]
    have h64 : (64 : UInt16).toNat = 64 := rfl
    have hp : piecesLen [pU32 no, pCopyAdv [] 4, pCopy hw, pCopyAdv [] 2, pCopy name,
        pU32 cfg, pU32 st, pU32 cur, pU32 adv, pU32 sup, pU32 peer, pU32 cs, pU32 ms] = 64 := by
      simp [piecesLen, pU32, pCopyAdv, pCopy, Piece.adv, hhw, hname]
    rw [h64, fill_exact 64 _ (by
      intro p hp
      simp only [List.mem_cons, List.not_mem_nil, or_false] at hp
      rcases hp with rfl | rfl | rfl | rfl | rfl | rfl | rfl | rfl | rfl | rfl | rfl | rfl | rfl <;>
        first | trivial | (show 0 ≤ _; omega)) (by rw [hp]; omega), hp]
    simp [piecesBytes, pU32, pCopyAdv, pCopy, Piece.bytes, bs, phyPortBytes, same, zeros]
  · intro data tail hd hb
    have hlenD := Slice.len_ge_of_bytes data _ _ hb
    rw [hbl] at hlenD
    -- split the two byte strings into their elements so that offsets compute
    obtain ⟨a0, a1, a2, a3, a4, a5, rfl⟩ := list_len6 hw hhw
    obtain ⟨b0, b1, b2, b3, b4, b5, b6, b7, b8, b9, b10, b11, b12, b13, b14, b15, rfl⟩ := list_len16 name hname
    have hb' : data.bytes = be32 (n32 no) ++ (zeros 4 ++ ([a0, a1, a2, a3, a4, a5] ++ (zeros 2 ++
        ([b0, b1, b2, b3, b4, b5, b6, b7, b8, b9, b10, b11, b12, b13, b14, b15] ++ (be32 (n32 cfg) ++ (be32 (n32 st) ++
        (be32 (n32 cur) ++ (be32 (n32 adv) ++ (be32 (n32 sup) ++ (be32 (n32 peer) ++ (be32 (n32 cs) ++ (be32 (n32 ms) ++ tail)))))))))))) := by
      rw [hb]; simp only [bs, phyPortBytes, List.append_assoc]
    have e0 : rd32 (data.bytes.drop 0) = some (n32 no) := by rw [hb']; exact rd32_be32 _ _
    have e32 : rd32 (data.bytes.drop 32) = some (n32 cfg) := by rw [hb']; exact rd32_be32 _ _
    have e36 : rd32 (data.bytes.drop 36) = some (n32 st) := by rw [hb']; exact rd32_be32 _ _
    have e40 : rd32 (data.bytes.drop 40) = some (n32 cur) := by rw [hb']; exact rd32_be32 _ _
    have e44 : rd32 (data.bytes.drop 44) = some (n32 adv) := by rw [hb']; exact rd32_be32 _ _
    have e48 : rd32 (data.bytes.drop 48) = some (n32 sup) := by rw [hb']; exact rd32_be32 _ _
    have e52 : rd32 (data.bytes.drop 52) = some (n32 peer) := by rw [hb']; exact rd32_be32 _ _
    have e56 : rd32 (data.bytes.drop 56) = some (n32 cs) := by rw [hb']; exact rd32_be32 _ _
    have e60 : rd32 (data.bytes.drop 60) = some (n32 ms) := by rw [hb']; exact rd32_be32 _ _
    obtain ⟨s1, h11, h12, _⟩ := Slice.sliceR_bytes data hd 4 8 (by omega) (by omega)
    obtain ⟨s2, h21, h22, _⟩ := Slice.sliceR_bytes data hd 8 14 (by omega) (by omega)
    obtain ⟨s3, h31, h32, _⟩ := Slice.sliceR_bytes data hd 14 16 (by omega) (by omega)
    obtain ⟨s4, h41, h42, _⟩ := Slice.sliceR_bytes data hd 16 32 (by omega) (by omega)
    have hs2 : s2.bytes = [a0, a1, a2, a3, a4, a5] := by rw [h22, hb']; rfl
    have hs4 : s4.bytes = [b0, b1, b2, b3, b4, b5, b6, b7, b8, b9, b10, b11, b12, b13, b14, b15] := by rw [h42, hb']; rfl
    have hc2 : copyInto (zeros Gen.openflow13.ETH_ALEN) [a0, a1, a2, a3, a4, a5] = [a0, a1, a2, a3, a4, a5] := rfl
    have hc4 : copyInto (zeros 16) [b0, b1, b2, b3, b4, b5, b6, b7, b8, b9, b10, b11, b12, b13, b14, b15]
        = [b0, b1, b2, b3, b4, b5, b6, b7, b8, b9, b10, b11, b12, b13, b14, b15] := rfl
    simp only [PhyPort.unmarshal, PhyPort.new, Slice.u32From_eq, e0, e32, e36, e40, e44, e48, e52, e56, e60, Res.ofOption,
      Res.bind_ok, h11, h21, h31, h41, hs2, hs4, copyInto_nil, hc2, hc4, Res.pure_eq, v, phyPortV,
      u32_n32 no hno, u32_n32 cfg hcfg, u32_n32 st hst, u32_n32 cur hcur, u32_n32 adv hadv, u32_n32 sup hsup,
      u32_n32 peer hpeer, u32_n32 cs hcs, u32_n32 ms hms]


def portStatusV (ver ln xid r : Nat) (d : V) : V :=
  .obj "PortStatus" [.obj "Header" [.num ver, .num Gen.openflow13.Type_PortStatus, .num ln, .num xid], .num r,
    .bytes (zeros 7), d]

/-- PortStatus through Parse (decoded into NewPortStatus(), whose Desc is NewPhyPort()): header with the computed Length 80,
    reason, 7 pad bytes, the 64-byte port description -/
theorem portStatus_rt (ver xid r no : Nat) (hw name : Bytes) (cfg st cur adv sup peer cs ms : Nat)
    (hver : ver < 256) (hxid : xid < 4294967296) (hr : r < 256)
    (hno : no < 4294967296) (hhw : hw.length = 6) (hname : name.length = 16) (hcfg : cfg < 4294967296)
    (hst : st < 4294967296) (hcur : cur < 4294967296) (hadv : adv < 4294967296) (hsup : sup < 4294967296)
    (hpeer : peer < 4294967296) (hcs : cs < 4294967296) (hms : ms < 4294967296) :
    let d := phyPortV no hw name cfg st cur adv sup peer cs ms
    let bs := [n8 ver, n8 Gen.openflow13.Type_PortStatus] ++ be16 (n16 80) ++ be32 (n32 xid) ++ ([n8 r] ++ zeros 7)
      ++ phyPortBytes no hw name cfg st cur adv sup peer cs ms
    (∀ ln0, PortStatus.marshalM (portStatusV ver ln0 xid r d) = .ok (bs, portStatusV ver 80 xid r d)) ∧
    ∀ (depth : Nat) (data : Slice) (tail : Bytes), data.WF → data.bytes = bs ++ tail →
      parse depth data = .ok (portStatusV ver 80 xid r d) := by
  intro d bs
  obtain ⟨hpl, hpm, hpln, hpdec⟩ := phyPort_rt no hw name cfg st cur adv sup peer cs ms hno hhw hname hcfg hst hcur hadv hsup
    hpeer hcs hms
  refine ⟨?_, ?_⟩
  · intro ln0
    have hlen : PortStatus.lenM (portStatusV ver ln0 xid r d) = .ok ((8 : UInt16) + 8 + 64, portStatusV ver ln0 xid r d) := by
      simp only [portStatusV, PortStatus.lenM, d, hpln, Res.bind_ok, Res.pure_eq]
    unfold PortStatus.marshalM
    rw [hlen]
    have hu : V.u16 ((8 : UInt16) + 8 + 64) = .num 80 := rfl
    simp only [Res.bind_ok, portStatusV, Header.setLength, Header.bytes, hu, d, hpm, makeCopy_zeros', bs, List.append_assoc]
  · intro depth data tail hdw hb
    have hlenD := Slice.len_ge_of_bytes data _ _ hb
    simp only [bs, List.length_append, be16_length, be32_length, List.length_cons, List.length_nil, zeros_length, hpl] at hlenD
    have hb' : data.bytes = ([n8 ver, n8 Gen.openflow13.Type_PortStatus] ++ be16 (n16 80) ++ be32 (n32 xid)) ++
        ([n8 r] ++ (zeros 7 ++ (phyPortBytes no hw name cfg st cur adv sup peer cs ms ++ tail))) := by
      rw [hb]; simp only [bs, List.append_assoc]
    obtain ⟨_, _, hdec⟩ := header_roundtrip ver Gen.openflow13.Type_PortStatus 80 xid hver (by decide) (by decide) hxid
    unfold parse
    obtain ⟨k, hk⟩ : ∃ k, max depth (data.cap + 1) = k + 1 := ⟨max depth (data.cap + 1) - 1, by omega⟩
    rw [hk]
    unfold parseD parseStep
    have e1 : data.bytes[1]? = some (n8 Gen.openflow13.Type_PortStatus) := by rw [hb']; rfl
    have ht12 : (n8 Gen.openflow13.Type_PortStatus).toNat = 12 := by decide
    have ht12' : (n8 12).toNat = 12 := by decide
    simp only [Slice.byteAt_eq, e1, Res.ofOption, Res.bind_ok, ht12, ht12',
      Gen.openflow13.Type_EchoRequest, Gen.openflow13.Type_EchoReply, Gen.openflow13.Type_GetConfigRequest,
      Gen.openflow13.Type_BarrierRequest, Gen.openflow13.Type_BarrierReply, Gen.openflow13.Type_FeaturesRequest,
      Gen.openflow13.Type_Hello, Gen.openflow13.Type_Error, Gen.openflow13.Type_Experimenter,
      Gen.openflow13.Type_FeaturesReply, Gen.openflow13.Type_GetConfigReply, Gen.openflow13.Type_SetConfig,
      Gen.openflow13.Type_PacketIn, Gen.openflow13.Type_FlowRemoved, Gen.openflow13.Type_PortStatus,
      Nat.reduceEqDiff, reduceIte, if_false, if_true, or_true, true_or, or_false, false_or, or_self]
    have e8 : data.bytes[8]? = some (n8 r) := by rw [hb']; rfl
    obtain ⟨s9, h91, h92, _, _⟩ := Slice.fromR_bytes data 9 (by omega)
    have hs9 : s9.bytes = zeros 7 ++ (phyPortBytes no hw name cfg st cur adv sup peer cs ms ++ tail) := by
      rw [h92, hb']; rfl
    obtain ⟨dd, hd1, hd2, _, _⟩ := Slice.fromR_bytes data 16 (by omega)
    have hddwf : dd.WF := (Slice.fromR_wf data hdw 16 dd hd1).1
    have hddb : dd.bytes = phyPortBytes no hw name cfg st cur adv sup peer cs ms ++ tail := by
      rw [hd2, hb']; rfl
    simp only [PortStatus.unmarshal, PortStatus.new, msgTryU, hdec _ data _ hdw hb', Res.bind_ok, Slice.byteAt_eq, e8,
      Res.ofOption, h91, hd1, hpdec dd tail hddwf hddb, hs9, copyInto_prefix (zeros 7) (zeros 7) _ rfl, Res.pure_eq,
      u8_n8 r hr, recoverR, portStatusV, d]

end OFV.RT
