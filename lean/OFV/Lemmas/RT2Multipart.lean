/-
  OFV.Lemmas.RT2Multipart — multipart-reply records (AggregateStats, DescStats, QueueStats, FlowStats with Match and instructions) and
  MultipartReply with any list of round-tripping records through Parse.  Used by OFV/Props/C05b.lean.
-/
import OFV.Model.All
import OFV.Lemmas.Size
import OFV.Lemmas.RTBasic
import OFV.Lemmas.RTMatch
import OFV.Lemmas.RTInstr
import OFV.Lemmas.RTFlowMod
import OFV.Lemmas.RTMsg
import OFV.Lemmas.RTMsgMore
import OFV.Lemmas.RT2Nx
namespace OFV.RT2
set_option linter.unusedSimpArgs false
open OFV OFV.Go OFV.Model OFV.RT

/-- one multipart-reply record `r` of multipart type `ty` with encoding `e`: encodes unchanged through the `util.Message`
    interface, Len() = |e|, and the record decoder Parse uses for `ty` returns it from `e` followed by anything -/
def RecordRT (ty : Nat) (r : V) (e : Bytes) : Prop :=
  anyMarshalM r = .ok (e, r) ∧ anyLenM r = .ok (n16 e.length, r) ∧ 0 < e.length ∧ e.length < 65536 ∧
  ∀ (data : Slice) (tail : Bytes), data.WF → data.bytes = e ++ tail → MultipartReply.decodeRecord ty data = .ok (r, false)

theorem sum16_lens' (encs : List Bytes) (hsum : ((encs.map (fun e => UInt16.ofNat e.length)).map UInt16.toNat).sum = encs.flatten.length)
    (h : encs.flatten.length < 65536) : sum16 (encs.map (fun e => UInt16.ofNat e.length)) = n16 encs.flatten.length := by
  apply UInt16.toNat_inj.mp
  rw [sum16_toNat _ (by rw [hsum]; exact h), hsum, n16_toNat _ h]

theorem anyLen_agg (fs : List V) : anyLenM (.obj "AggregateStats" fs) = AggregateStats.lenM (.obj "AggregateStats" fs) := rfl
theorem anyMarshal_agg (fs : List V) : anyMarshalM (.obj "AggregateStats" fs) = AggregateStats.marshalM (.obj "AggregateStats" fs) := rfl
theorem anyLen_desc (fs : List V) : anyLenM (.obj "DescStats" fs) = DescStats.lenM (.obj "DescStats" fs) := rfl
theorem anyMarshal_desc (fs : List V) : anyMarshalM (.obj "DescStats" fs) = DescStats.marshalM (.obj "DescStats" fs) := rfl
theorem anyLen_flowStats (fs : List V) : anyLenM (.obj "FlowStats" fs) = FlowStats.lenM (.obj "FlowStats" fs) := rfl
theorem anyMarshal_flowStats (fs : List V) : anyMarshalM (.obj "FlowStats" fs) = FlowStats.marshalM (.obj "FlowStats" fs) := rfl

/-- AggregateStats (24 bytes; decoded into NewAggregateStats(): 4 pad bytes) -/
theorem recordRT_aggregate (pc bc fc : Nat) (hpc : pc < 18446744073709551616) (hbc : bc < 18446744073709551616) (hfc : fc < 4294967296) :
    RecordRT Gen.openflow13.MultipartType_Aggregate (.obj "AggregateStats" [.num pc, .num bc, .num fc, .bytes (zeros 4)])
      (be64 (n64 pc) ++ be64 (n64 bc) ++ be32 (n32 fc) ++ zeros 4) := by
  refine ⟨?_, rfl, by simp, by simp, ?_⟩
  · rw [anyMarshal_agg]
    simp only [AggregateStats.marshalM]
    rw [fill_eq 24 _ (by intro p hp; simp at hp; rcases hp with rfl | rfl | rfl | rfl <;> first | trivial | exact (Nat.le_of_eq rfl)) rfl]
    rfl
  · intro data tail hd hb
    have hlen := Slice.len_ge_of_bytes data _ _ hb
    have h24 : (be64 (n64 pc) ++ be64 (n64 bc) ++ be32 (n32 fc) ++ zeros 4).length = 24 := rfl
    have hb' : data.bytes = be64 (n64 pc) ++ (be64 (n64 bc) ++ (be32 (n32 fc) ++ (zeros 4 ++ tail))) := by
      rw [hb]; simp only [List.append_assoc]
    have e0 : rd64 (data.bytes.drop 0) = some (n64 pc) := by rw [hb']; exact rd64_be64 _ _
    have e8 : rd64 (data.bytes.drop 8) = some (n64 bc) := by rw [hb']; exact rd64_be64 _ _
    have e16 : rd32 (data.bytes.drop 16) = some (n32 fc) := by rw [hb']; exact rd32_be32 _ _
    obtain ⟨s, hs1, hs2, _⟩ := Slice.fromR_bytes data 20 (by omega)
    have hsb : s.bytes = zeros 4 ++ tail := by rw [hs2, hb']; rfl
    simp only [MultipartReply.decodeRecord, if_true, msgTryU, AggregateStats.unmarshal, AggregateStats.new, Slice.u64From_eq,
      Slice.u32From_eq, e0, e8, e16, Res.ofOption, Res.bind_ok, hs1, hsb, copyInto_prefix (zeros 4) (zeros 4) tail rfl, Res.pure_eq,
      u64_n64 pc hpc, u64_n64 bc hbc, u32_n32 fc hfc]

/-- DescStats (1056 bytes: four 256-byte strings and the 32-byte serial number; decoded into NewDescStats()) -/
theorem recordRT_desc (a b c d e : Bytes) (ha : a.length = 256) (hb : b.length = 256) (hc : c.length = 256) (hd : d.length = 32)
    (he : e.length = 256) :
    RecordRT Gen.openflow13.MultipartType_Desc (.obj "DescStats" [.bytes a, .bytes b, .bytes c, .bytes d, .bytes e])
      (a ++ b ++ c ++ d ++ e) := by
  have hl : (a ++ b ++ c ++ d ++ e).length = 1056 := by simp only [List.length_append, ha, hb, hc, hd, he]
  have h1056 : DescStats.len = n16 1056 := rfl
  refine ⟨?_, by rw [anyLen_desc, hl]; rfl, by omega, by omega, ?_⟩
  · rw [anyMarshal_desc]
    simp only [DescStats.marshalM, h1056, n16_toNat 1056 (by decide)]
    rw [fill_eq 1056 _ (by intro p hp; simp at hp; rcases hp with rfl | rfl | rfl | rfl | rfl <;> trivial)
      (by simp [piecesLen, pCopy, Piece.adv, ha, hb, hc, hd, he])]
    simp [piecesBytes, pCopy, Piece.bytes, same]
  · intro data tail hdw hbb
    have hlen := Slice.len_ge_of_bytes data _ _ hbb
    rw [hl] at hlen
    have hb' : data.bytes = a ++ (b ++ (c ++ (d ++ (e ++ tail)))) := by
      rw [hbb]; simp only [List.append_assoc]
    have z256 : (zeros Gen.openflow13.DESC_STR_LEN).length = 256 := by simp [zeros]; rfl
    have z32 : (zeros Gen.openflow13.SERIAL_NUM_LEN).length = 32 := by simp [zeros]; rfl
    obtain ⟨s0, h01, h02, _⟩ := Slice.fromR_bytes data 0 (by omega)
    obtain ⟨s1, h11, h12, _⟩ := Slice.fromR_bytes data 256 (by omega)
    obtain ⟨s2, h21, h22, _⟩ := Slice.fromR_bytes data 512 (by omega)
    obtain ⟨s3, h31, h32, _⟩ := Slice.fromR_bytes data 768 (by omega)
    obtain ⟨s4, h41, h42, _⟩ := Slice.fromR_bytes data 800 (by omega)
    have b0 : s0.bytes = a ++ (b ++ (c ++ (d ++ (e ++ tail)))) := by rw [h02, hb']; rfl
    have b1 : s1.bytes = b ++ (c ++ (d ++ (e ++ tail))) := by
      rw [h12, hb', ← ha]; exact List.drop_left' rfl
    have b2 : s2.bytes = c ++ (d ++ (e ++ tail)) := by
      rw [h22, hb', ← List.append_assoc]; exact List.drop_left' (by simp [ha, hb])
    have b3 : s3.bytes = d ++ (e ++ tail) := by
      rw [h32, hb', ← List.append_assoc, ← List.append_assoc]; exact List.drop_left' (by simp [ha, hb, hc])
    have b4 : s4.bytes = e ++ tail := by
      rw [h42, hb', ← List.append_assoc, ← List.append_assoc, ← List.append_assoc]; exact List.drop_left' (by simp [ha, hb, hc, hd])
    simp only [MultipartReply.decodeRecord, Gen.openflow13.MultipartType_Desc, Gen.openflow13.MultipartType_Aggregate,
      Nat.reduceEqDiff, if_false, if_true, msgTryU, DescStats.unmarshal, DescStats.new, z256, z32, Nat.reduceAdd, h01, h11, h21, h31,
      h41, Res.bind_ok, b0, b1, b2, b3, b4, Res.pure_eq,
      copyInto_prefix _ a _ (ha.trans z256.symm), copyInto_prefix _ b _ (hb.trans z256.symm), copyInto_prefix _ c _ (hc.trans z256.symm),
      copyInto_prefix _ d _ (hd.trans z32.symm), copyInto_prefix _ e _ (he.trans z256.symm)]


theorem anyLen_queue (fs : List V) : anyLenM (.obj "QueueStats" fs) = QueueStats.lenM (.obj "QueueStats" fs) := rfl
theorem anyMarshal_queue (fs : List V) : anyMarshalM (.obj "QueueStats" fs) = QueueStats.marshalM (.obj "QueueStats" fs) := rfl

/-- QueueStats.MarshalBinary with a pad that is nil or at most 2 zero bytes: port, 2 pad bytes, queue id, three counters (32 bytes) -/
theorem queueStats_marshal (p q tb tp te kp : Nat) (hkp : kp ≤ 2) :
    anyMarshalM (.obj "QueueStats" [.num p, .bytes (zeros kp), .num q, .num tb, .num tp, .num te]) =
      .ok (be16 (n16 p) ++ zeros 2 ++ be32 (n32 q) ++ be64 (n64 tb) ++ be64 (n64 tp) ++ be64 (n64 te),
        .obj "QueueStats" [.num p, .bytes (zeros kp), .num q, .num tb, .num tp, .num te]) := by
  rw [anyMarshal_queue]
  simp only [QueueStats.marshalM]
  rw [fill_eq 32 _ (by intro x hx; simp at hx; rcases hx with rfl | rfl | rfl | rfl | rfl | rfl <;>
    first | trivial | (simp only [pCopyAdv, Piece.Tight, zeros_length]; exact hkp)) rfl]
  have hz : (pCopyAdv (zeros kp) 2).bytes = zeros 2 := by
    simp only [pCopyAdv, Piece.bytes, zeros, List.take_replicate, List.length_replicate, List.replicate_append_replicate]
    congr 1; omega
  simp only [piecesBytes, List.map_cons, List.map_nil, List.flatten_cons, List.flatten_nil, List.append_nil, hz, Res.bind_ok, same]
  rfl

/-- QueueStats record (32 bytes; Parse decodes it into `new(QueueStats)`, whose pad is nil and stays nil; fixed: the decoder
    used to advance by `len(s.pad)` = 0 instead of 2 and read queue id and counters 2 bytes early) -/
theorem recordRT_queue (p q tb tp te : Nat) (hp : p < 65536) (hq : q < 4294967296) (htb : tb < 18446744073709551616)
    (htp : tp < 18446744073709551616) (hte : te < 18446744073709551616) :
    RecordRT Gen.openflow13.MultipartType_Queue (.obj "QueueStats" [.num p, .bytes [], .num q, .num tb, .num tp, .num te])
      (be16 (n16 p) ++ zeros 2 ++ be32 (n32 q) ++ be64 (n64 tb) ++ be64 (n64 tp) ++ be64 (n64 te)) := by
  refine ⟨queueStats_marshal p q tb tp te 0 (by omega), rfl, by simp, by simp, ?_⟩
  intro data tail hd hb
  have hlen := Slice.len_ge_of_bytes data _ _ hb
  have h32 : (be16 (n16 p) ++ zeros 2 ++ be32 (n32 q) ++ be64 (n64 tb) ++ be64 (n64 tp) ++ be64 (n64 te)).length = 32 := rfl
  rw [h32] at hlen
  have hb' : data.bytes = be16 (n16 p) ++ (zeros 2 ++ (be32 (n32 q) ++ (be64 (n64 tb) ++ (be64 (n64 tp) ++ (be64 (n64 te) ++ tail))))) := by
    rw [hb]; simp only [List.append_assoc]
  have e0 : rd16 (data.bytes.drop 0) = some (n16 p) := by rw [hb']; exact rd16_be16 _ _
  have e4 : rd32 (data.bytes.drop 4) = some (n32 q) := by rw [hb']; exact rd32_be32 _ _
  have e8 : rd64 (data.bytes.drop 8) = some (n64 tb) := by rw [hb']; exact rd64_be64 _ _
  have e16 : rd64 (data.bytes.drop 16) = some (n64 tp) := by rw [hb']; exact rd64_be64 _ _
  have e24 : rd64 (data.bytes.drop 24) = some (n64 te) := by rw [hb']; exact rd64_be64 _ _
  obtain ⟨s, hs1, _, _⟩ := Slice.fromR_bytes data 2 (by omega)
  simp only [MultipartReply.decodeRecord, Gen.openflow13.MultipartType_Desc, Gen.openflow13.MultipartType_Aggregate,
    Gen.openflow13.MultipartType_Flow, Gen.openflow13.MultipartType_Port, Gen.openflow13.MultipartType_Table,
    Gen.openflow13.MultipartType_Queue, Nat.reduceEqDiff, if_false, if_true, msgTryU, QueueStats.unmarshal, QueueStats.zero,
    Slice.u16From_eq, Slice.u32From_eq, Slice.u64From_eq, Nat.reduceAdd, e0, e4, e8, e16, e24, Res.ofOption, Res.bind_ok, hs1,
    copyInto_nil, Res.pure_eq, u16_n16 p hp, u32_n32 q hq, u64_n64 tb htb, u64_n64 tp htp, u64_n64 te hte]

theorem instrsRT_snoc (init : List V) (last : V) (encs : List Bytes) (h : InstrsRT (init ++ [last]) encs) :
    ∃ ei el, encs = ei ++ [el] ∧ InstrsRT init ei ∧ InstrRT last el := by
  induction init generalizing encs with
  | nil =>
    cases h with
    | cons h1 h2 => cases h2; exact ⟨[], _, rfl, .nil, h1⟩
  | cons i init ih =>
    cases h with
    | cons h1 h2 =>
      obtain ⟨ei, el, rfl, hi, hl⟩ := ih _ h2
      exact ⟨_ :: ei, el, rfl, .cons h1 hi, hl⟩

theorem instrs_tryMarshal (is : List V) (encs : List Bytes) (h : InstrsRT is encs) :
    mapM2 (msgTryM Instruction.marshalM) is = .ok (encs, is) := by
  induction h with
  | nil => rfl
  | cons h1 _ ih =>
    obtain ⟨hm, _⟩ := h1
    simp [mapM2, msgTryM, hm, ih]

/-- the instruction loop of FlowStats.UnmarshalBinary -/
theorem flowStats_loop (data : Slice) (hd : data.WF) (is : List V) (encs : List Bytes) (h : InstrsRT is encs) :
    ∀ (pre rest : Bytes) (acc : List V) (fuel : Nat),
      data.bytes = pre ++ encs.flatten ++ rest → encs.length < fuel →
      goLoop (σ := FlowStats.ISt) fuel (fun s => decide (s.n < pre.length + encs.flatten.length)) (·.n)
        (fun s => do
          let d ← data.fromR s.n
          let i ← DecodeInstr d
          let (l, i) ← Instruction.lenM i
          if l = 0 then .err else
          let (l2, i) ← Instruction.lenM i
          pure { n := s.n + l2.toNat, is := s.is ++ [i] })
        { n := pre.length, is := acc }
      = .ok { n := pre.length + encs.flatten.length, is := acc ++ is } := by
  induction h with
  | nil =>
    intro pre rest acc fuel hb hfuel
    cases fuel with
    | zero => simp at hfuel
    | succ j => simp [goLoop]
  | @cons i e is es h1 _ ih =>
    intro pre rest acc fuel hb hfuel
    obtain ⟨hm, hl, h0, h64, hdec⟩ := h1
    cases fuel with
    | zero => simp at hfuel
    | succ j =>
      have hlen := Slice.bytes_length_le data
      rw [hb] at hlen
      simp only [List.flatten_cons, List.length_append] at hlen
      obtain ⟨t, ht1, ht2, _, _⟩ := Slice.fromR_bytes data pre.length (by omega)
      have htb : t.bytes = e ++ (es.flatten ++ rest) := by
        rw [ht2, hb]; simp only [List.flatten_cons, List.append_assoc]; exact List.drop_left' rfl
      have htwf : t.WF := (Slice.fromR_wf data hd _ t ht1).1
      have hto : (UInt16.ofNat e.length).toNat = e.length := by
        simp [UInt16.toNat_ofNat']; omega
      have hne : ¬ (UInt16.ofNat e.length = 0) := by
        intro h0'
        have := congrArg UInt16.toNat h0'
        rw [hto] at this
        have h00 : (0 : UInt16).toNat = 0 := rfl
        rw [h00] at this; omega
      unfold goLoop
      have hcond : decide (pre.length < pre.length + (e :: es).flatten.length) = true := by
        simp only [List.flatten_cons, List.length_append, decide_eq_true_eq]; omega
      simp only [hcond, if_true, ht1, Res.bind_ok, hdec t _ htwf htb, hl, Res.pure_eq, hto, hne, if_false]
      have hcur : ¬ (pre.length + e.length ≤ pre.length) := by omega
      simp only [if_false, hcur]
      have := ih (pre ++ e) rest (acc ++ [i]) j (by rw [hb]; simp) (by simp only [List.length_cons] at hfuel; omega)
      simp only [List.length_append, List.append_assoc, List.cons_append, List.nil_append, Res.pure_eq] at this
      simp only [List.flatten_cons, List.length_append, ← Nat.add_assoc]
      rw [this]

/-- a FlowStats record -/
def flowStatsV (ln t p ds dn pr it ht fl : Nat) (p2 : Bytes) (c pc bc : Nat) (m : V) (is : List V) : V :=
  .obj "FlowStats" [.num ln, .num t, .num p, .num ds, .num dn, .num pr, .num it, .num ht, .num fl, .bytes p2, .num c, .num pc, .num bc,
    m, .list is]

def flowStatsFixed (ln t p ds dn pr it ht fl c pc bc : Nat) : Bytes :=
  be16 (n16 ln) ++ [n8 t, n8 p] ++ be32 (n32 ds) ++ be32 (n32 dn) ++ be16 (n16 pr) ++ be16 (n16 it) ++ be16 (n16 ht) ++ be16 (n16 fl)
    ++ zeros 4 ++ be64 (n64 c) ++ be64 (n64 pc) ++ be64 (n64 bc)

/-- FlowStats: 48 fixed bytes, the Match, the instructions; Length = the record's size (the decoder's loop bound) -/
theorem recordRT_flowStats (t p ds dn pr it ht fl c pc bc : Nat) (m : V) (is : List V) (encs : List Bytes)
    (ht8 : t < 256) (hp : p < 256) (hds : ds < 4294967296) (hdn : dn < 4294967296) (hpr : pr < 65536) (hit : it < 65536)
    (hht : ht < 65536) (hfl : fl < 65536) (hc : c < 18446744073709551616) (hpc : pc < 18446744073709551616)
    (hbc : bc < 18446744073709551616) (hm : MatchWF m) (his : InstrsRT is encs) :
    ∃ mbs, Match.marshalM m = .ok (mbs, m) ∧ (48 + mbs.length + encs.flatten.length < 65536 →
      let L := 48 + mbs.length + encs.flatten.length
      RecordRT Gen.openflow13.MultipartType_Flow (flowStatsV L t p ds dn pr it ht fl (zeros 4) c pc bc m is)
        (flowStatsFixed L t p ds dn pr it ht fl c pc bc ++ mbs ++ encs.flatten)) := by
  obtain ⟨mbs, hmm, hml, hm8, hmdec, _, _⟩ := RT.match_roundtrip m hm
  refine ⟨mbs, hmm, fun hL => ?_⟩
  intro L
  obtain ⟨hil, hill⟩ := instrs_marshalList is encs his
  obtain ⟨hcnt, hsum⟩ := instrs_len is encs his
  have hfx : (flowStatsFixed L t p ds dn pr it ht fl c pc bc).length = 48 := rfl
  have hel : (flowStatsFixed L t p ds dn pr it ht fl c pc bc ++ mbs ++ encs.flatten).length = L := by
    simp only [List.length_append, hfx, L]
  have hs16 : sum16 (encs.map (fun e => UInt16.ofNat e.length)) = n16 encs.flatten.length := sum16_lens' encs hsum (by omega)
  refine ⟨?_, ?_, by rw [hel]; simp only [L]; omega, by rw [hel]; exact hL, ?_⟩
  · rw [flowStatsV, anyMarshal_flowStats]
    simp only [FlowStats.marshalM]
    rw [fill_eq 48 _ (by intro p hp; simp at hp; rcases hp with rfl | rfl | rfl | rfl | rfl | rfl | rfl | rfl | rfl | rfl | rfl | rfl | rfl <;> trivial) rfl]
    simp only [Res.bind_ok]
    rcases List.eq_nil_or_concat is with rfl | ⟨init, last, rfl⟩
    · have := instrsRT_nil encs his
      subst this
      simp only [List.reverse_nil, hmm, Res.bind_ok, Res.pure_eq, List.flatten_nil, List.append_nil]
      rfl
    · rw [List.concat_eq_append] at his
      obtain ⟨ei, el, rfl, hi, hlast⟩ := instrsRT_snoc init last encs his
      simp only [List.concat_eq_append, List.reverse_append, List.reverse_cons, List.reverse_nil, List.nil_append, List.cons_append,
        List.reverse_reverse, msgTryM, hmm, Res.bind_ok]
      have := instrs_tryMarshal init ei hi
      rw [this]
      simp only [Res.bind_ok, hlast.1, Res.pure_eq, List.flatten_append, List.flatten_cons, List.flatten_nil, List.append_nil,
        List.append_assoc]
      rfl
  · rw [flowStatsV, anyLen_flowStats]
    simp only [FlowStats.lenM, hml, hill, Res.bind_ok, Res.pure_eq, hs16, hel]
    have : (48 : UInt16) + UInt16.ofNat mbs.length + n16 encs.flatten.length = n16 L := by
      have h48 : (48 : UInt16) = n16 48 := rfl
      rw [h48]; show n16 48 + n16 mbs.length + _ = _
      rw [n16_add, n16_add]
    rw [this]
  · intro data tail hd hb
    have hlen := Slice.len_ge_of_bytes data _ _ hb
    rw [hel] at hlen
    have hb' : data.bytes = be16 (n16 L) ++ ([n8 t, n8 p] ++ (be32 (n32 ds) ++ (be32 (n32 dn) ++ (be16 (n16 pr) ++ (be16 (n16 it) ++
        (be16 (n16 ht) ++ (be16 (n16 fl) ++ (zeros 4 ++ (be64 (n64 c) ++ (be64 (n64 pc) ++ (be64 (n64 bc) ++ (mbs ++ (encs.flatten ++ tail))))))))))))) := by
      rw [hb]; simp only [flowStatsFixed, List.append_assoc]
    have e0 : rd16 (data.bytes.drop 0) = some (n16 L) := by rw [hb']; exact rd16_be16 _ _
    have e2 : data.bytes[2]? = some (n8 t) := by rw [hb']; rfl
    have e3 : data.bytes[3]? = some (n8 p) := by rw [hb']; rfl
    have e4 : rd32 (data.bytes.drop 4) = some (n32 ds) := by rw [hb']; exact rd32_be32 _ _
    have e8 : rd32 (data.bytes.drop 8) = some (n32 dn) := by rw [hb']; exact rd32_be32 _ _
    have e12 : rd16 (data.bytes.drop 12) = some (n16 pr) := by rw [hb']; exact rd16_be16 _ _
    have e14 : rd16 (data.bytes.drop 14) = some (n16 it) := by rw [hb']; exact rd16_be16 _ _
    have e16 : rd16 (data.bytes.drop 16) = some (n16 ht) := by rw [hb']; exact rd16_be16 _ _
    have e18 : rd16 (data.bytes.drop 18) = some (n16 fl) := by rw [hb']; exact rd16_be16 _ _
    have e24 : rd64 (data.bytes.drop 24) = some (n64 c) := by rw [hb']; exact rd64_be64 _ _
    have e32 : rd64 (data.bytes.drop 32) = some (n64 pc) := by rw [hb']; exact rd64_be64 _ _
    have e40 : rd64 (data.bytes.drop 40) = some (n64 bc) := by rw [hb']; exact rd64_be64 _ _
    obtain ⟨s, hs1, hs2, _⟩ := Slice.sliceR_bytes data hd 20 24 (by omega) (by omega)
    have hsb : s.bytes = zeros 4 := by rw [hs2, hb']; rfl
    obtain ⟨dm, hm1, hm2, _, _⟩ := Slice.fromR_bytes data 48 (by omega)
    have hdm : dm.WF := (Slice.fromR_wf data hd 48 dm hm1).1
    have hdmb : dm.bytes = mbs ++ (encs.flatten ++ tail) := by rw [hm2, hb']; rfl
    have hmP : Match.unmarshalP Match.new dm = .ok (m, false) := by
      rw [unmarshalP_new]
      exact unmarshalP_of_unmarshal _ _ _ (hmdec dm _ hdm hdmb)
    have hto : (UInt16.ofNat mbs.length).toNat = mbs.length := by
      simp [UInt16.toNat_ofNat']; omega
    have hloop := flowStats_loop data hd is encs his (flowStatsFixed L t p ds dn pr it ht fl c pc bc ++ mbs) tail [] (data.len + 65536)
      (by rw [hb]) (by omega)
    simp only [List.length_append, hfx, List.nil_append] at hloop
    simp only [MultipartReply.decodeRecord, Gen.openflow13.MultipartType_Desc, Gen.openflow13.MultipartType_Aggregate,
      Gen.openflow13.MultipartType_Flow, Nat.reduceEqDiff, if_false, if_true, FlowStats.unmarshalP, FlowStats.new,
      Slice.u16From_eq, Slice.u32From_eq, Slice.u64From_eq, Slice.byteAt_eq, e0, e2, e3, e4, e8, e12, e14, e16, e18, e24, e32, e40,
      Res.ofOption, Res.bind_ok, hs1, hsb, hm1, hmP, hml, hto, FlowStats.decodeInstrs, n16_toNat L hL]
    erw [hloop]
    simp only [Res.bind_ok, Res.pure_eq, u16_n16 L hL, u8_n8 t ht8, u8_n8 p hp, u32_n32 ds hds, u32_n32 dn hdn, u16_n16 pr hpr,
      u16_n16 it hit, u16_n16 ht hht, u16_n16 fl hfl, u64_n64 c hc, u64_n64 pc hpc, u64_n64 bc hbc, flowStatsV]
    rfl


/-- records of one multipart type paired with their encodings -/
inductive RecordsRT (ty : Nat) : List V → List Bytes → Prop
  | nil : RecordsRT ty [] []
  | cons {r : V} {e : Bytes} {rs : List V} {es : List Bytes} : RecordRT ty r e → RecordsRT ty rs es → RecordsRT ty (r :: rs) (e :: es)

theorem recordsRT_nil (ty : Nat) (es : List Bytes) (h : RecordsRT ty [] es) : es = [] := by cases h; rfl

theorem recordsRT_snoc (ty : Nat) (init : List V) (last : V) (encs : List Bytes) (h : RecordsRT ty (init ++ [last]) encs) :
    ∃ ei el, encs = ei ++ [el] ∧ RecordsRT ty init ei ∧ RecordRT ty last el := by
  induction init generalizing encs with
  | nil =>
    cases h with
    | cons h1 h2 => cases h2; exact ⟨[], _, rfl, .nil, h1⟩
  | cons i init ih =>
    cases h with
    | cons h1 h2 =>
      obtain ⟨ei, el, rfl, hi, hl⟩ := ih _ h2
      exact ⟨_ :: ei, el, rfl, .cons h1 hi, hl⟩

theorem records_facts (ty : Nat) (rs : List V) (es : List Bytes) (h : RecordsRT ty rs es) (hfit : es.flatten.length < 65536) :
    mapM2 (msgTryM anyMarshalM) rs = .ok (es, rs) ∧ mapM2 anyLenM rs = .ok (es.map (fun e => n16 e.length), rs) ∧
    sum16 (es.map (fun e => n16 e.length)) = n16 es.flatten.length ∧ es.length ≤ es.flatten.length := by
  induction h with
  | nil => exact ⟨rfl, rfl, rfl, by simp⟩
  | @cons r e rs es h1 _ ih =>
    obtain ⟨hm, hl, h0, _, _⟩ := h1
    simp only [List.flatten_cons, List.length_append] at hfit
    obtain ⟨i1, i2, i3, i4⟩ := ih (by omega)
    refine ⟨?_, ?_, ?_, ?_⟩
    · simp [mapM2, msgTryM, hm, i1]
    · simp [mapM2, hl, i2]
    · simp only [List.map_cons, sum16_cons, i3, n16_add, List.flatten_cons, List.length_append]
    · simp only [List.length_cons, List.flatten_cons, List.length_append]; omega

/-- the record loop of MultipartReply.UnmarshalBinary -/
theorem mpReply_loop (data : Slice) (hd : data.WF) (ty : Nat) (rs : List V) (es : List Bytes) (h : RecordsRT ty rs es) :
    ∀ (pre rest : Bytes) (acc : List V) (fuel : Nat),
      data.bytes = pre ++ es.flatten ++ rest → es.length < fuel →
      msgLoopW (σ := MultipartReply.St) fuel (fun s => decide (s.n < pre.length + es.flatten.length)) (·.n)
        (fun s => do
          let d ← data.fromR s.n
          let (r, e) ← MultipartReply.decodeRecord ty d
          if e then .err else do
          let (l, r) ← anyLenM r
          if l = 0 then .err else
          pure { n := s.n + l.toNat, body := s.body ++ [r], err := e })
        { n := pre.length, body := acc, err := false }
      = .ok { n := pre.length + es.flatten.length, body := acc ++ rs, err := false } := by
  induction h with
  | nil =>
    intro pre rest acc fuel hb hfuel
    cases fuel with
    | zero => simp at hfuel
    | succ j => simp [msgLoopW]
  | @cons r e rs es h1 _ ih =>
    intro pre rest acc fuel hb hfuel
    obtain ⟨hm, hl, h0, h64, hdec⟩ := h1
    cases fuel with
    | zero => simp at hfuel
    | succ j =>
      have hlen := Slice.bytes_length_le data
      rw [hb] at hlen
      simp only [List.flatten_cons, List.length_append] at hlen
      obtain ⟨t, ht1, ht2, _, _⟩ := Slice.fromR_bytes data pre.length (by omega)
      have htb : t.bytes = e ++ (es.flatten ++ rest) := by
        rw [ht2, hb]; simp only [List.flatten_cons, List.append_assoc]; exact List.drop_left' rfl
      have htwf : t.WF := (Slice.fromR_wf data hd _ t ht1).1
      have hto : (n16 e.length).toNat = e.length := n16_toNat _ h64
      have hne : ¬ (n16 e.length = 0) := by
        intro h0'
        have := congrArg UInt16.toNat h0'
        rw [hto] at this
        have h00 : (0 : UInt16).toNat = 0 := rfl
        rw [h00] at this; omega
      unfold msgLoopW
      have hcond : decide (pre.length < pre.length + (e :: es).flatten.length) = true := by
        simp only [List.flatten_cons, List.length_append, decide_eq_true_eq]; omega
      simp only [hcond, if_true, ht1, Res.bind_ok, hdec t _ htwf htb, Bool.false_eq_true, hl, Res.pure_eq, hto, hne, if_false]
      have hcur : ¬ (pre.length + e.length = pre.length) := by omega
      simp only [if_false, hcur]
      have := ih (pre ++ e) rest (acc ++ [r]) j (by rw [hb]; simp) (by simp only [List.length_cons] at hfuel; omega)
      simp only [List.length_append, List.append_assoc, List.cons_append, List.nil_append, Res.pure_eq] at this
      simp only [List.flatten_cons, List.length_append, ← Nat.add_assoc]
      rw [this]

/-- a MultipartReply value (header type = multipart reply) -/
def mpReplyV (ver ln xid t f : Nat) (pad : V) (rs : List V) : V :=
  .obj "MultipartReply" [.obj "Header" [.num ver, .num Gen.openflow13.Type_MultiPartReply, .num ln, .num xid], .num t, .num f, pad, .list rs]

theorem mpReply_rt (ver xid t f : Nat) (rs : List V) (es : List Bytes) (hver : ver < 256) (hxid : xid < 4294967296)
    (ht : t < 65536) (hf : f < 65536) (hrs : RecordsRT t rs es) (hS : 16 + es.flatten.length < 65536) :
    let L := 16 + es.flatten.length
    let bs := [n8 ver, n8 Gen.openflow13.Type_MultiPartReply] ++ be16 (n16 L) ++ be32 (n32 xid) ++ (be16 (n16 t) ++ be16 (n16 f) ++ zeros 4)
      ++ es.flatten
    (∀ (ln0 : Nat) (pad : V), MultipartReply.marshalM (mpReplyV ver ln0 xid t f pad rs) = .ok (bs, mpReplyV ver L xid t f pad rs)) ∧
    bs.length = L ∧
    ∀ (depth : Nat) (data : Slice) (tail : Bytes), data.WF → data.bytes = bs ++ tail →
      parse depth data = .ok (mpReplyV ver L xid t f (.bytes []) rs) := by
  intro L bs
  obtain ⟨htm, hlm, hs16, hcnt⟩ := records_facts t rs es hrs (by omega)
  have hL : L < 65536 := hS
  have hbl : bs.length = L := by
    simp only [bs, List.length_append, be16_length, be32_length, zeros_length, List.length_cons, List.length_nil, L]
  refine ⟨fun ln0 pad => ?_, hbl, ?_⟩
  · unfold MultipartReply.marshalM MultipartReply.marshalWith
    have hlen : MultipartReply.lenWith anyLenM (mpReplyV ver ln0 xid t f pad rs) = .ok (n16 L, mpReplyV ver ln0 xid t f pad rs) := by
      simp only [mpReplyV, MultipartReply.lenWith, hlm, Res.bind_ok, Res.pure_eq, hs16]
      have : (8 : UInt16) + 8 + n16 es.flatten.length = n16 L := by
        have : (8 : UInt16) + 8 = n16 16 := rfl
        rw [this, n16_add]
      rw [this]
    rw [hlen]
    simp only [mpReplyV, Res.bind_ok, Header.setLength, Header.bytes, u16_n16 L hL]
    rcases List.eq_nil_or_concat rs with rfl | ⟨init, last, rfl⟩
    · have := recordsRT_nil t es hrs
      subst this
      simp only [List.reverse_nil, List.flatten_nil, List.append_nil, bs]
    · rw [List.concat_eq_append] at hrs htm ⊢
      obtain ⟨ei, el, rfl, hi, hlast⟩ := recordsRT_snoc t init last es hrs
      obtain ⟨hti, _, _, _⟩ := records_facts t init ei hi (by simp only [List.flatten_append, List.length_append] at hS; omega)
      simp only [List.reverse_append, List.reverse_cons, List.reverse_nil, List.nil_append, List.cons_append,
        List.reverse_reverse, hti, Res.bind_ok, hlast.1]
      simp only [List.flatten_append, List.flatten_cons, List.flatten_nil, List.append_nil, List.append_assoc, bs]
      rfl
  · intro depth data tail hd hb
    have hlen := Slice.len_ge_of_bytes data _ _ hb
    rw [hbl] at hlen
    have hb' : data.bytes = ([n8 ver, n8 Gen.openflow13.Type_MultiPartReply] ++ be16 (n16 L) ++ be32 (n32 xid)) ++ (be16 (n16 t) ++ (be16 (n16 f)
        ++ (zeros 4 ++ (es.flatten ++ tail)))) := by
      rw [hb]; simp only [bs, List.append_assoc]
    unfold parse
    obtain ⟨k, hk⟩ : ∃ k, max depth (data.cap + 1) = k + 1 := ⟨max depth (data.cap + 1) - 1, by omega⟩
    rw [hk]
    unfold parseD parseStep
    have e1 : data.bytes[1]? = some (n8 Gen.openflow13.Type_MultiPartReply) := by rw [hb']; rfl
    have ht19 : (n8 Gen.openflow13.Type_MultiPartReply).toNat = 19 := by decide
    have ht19' : (n8 19).toNat = 19 := by decide
    simp only [Slice.byteAt_eq, e1, Res.ofOption, Res.bind_ok, ht19, ht19',
      Gen.openflow13.Type_EchoRequest, Gen.openflow13.Type_EchoReply, Gen.openflow13.Type_GetConfigRequest,
      Gen.openflow13.Type_BarrierRequest, Gen.openflow13.Type_BarrierReply, Gen.openflow13.Type_FeaturesRequest,
      Gen.openflow13.Type_Hello, Gen.openflow13.Type_Error, Gen.openflow13.Type_Experimenter,
      Gen.openflow13.Type_FeaturesReply, Gen.openflow13.Type_GetConfigReply, Gen.openflow13.Type_SetConfig,
      Gen.openflow13.Type_PacketIn, Gen.openflow13.Type_FlowRemoved, Gen.openflow13.Type_PortStatus,
      Gen.openflow13.Type_FlowMod, Gen.openflow13.Type_PacketOut, Gen.openflow13.Type_GroupMod, Gen.openflow13.Type_PortMod,
      Gen.openflow13.Type_TableMod, Gen.openflow13.Type_QueueGetConfigRequest, Gen.openflow13.Type_QueueGetConfigReply,
      Gen.openflow13.Type_MultiPartRequest, Gen.openflow13.Type_MultiPartReply,
      Nat.reduceEqDiff, reduceIte, if_false, if_true, or_true, true_or, or_false, false_or, or_self]
    obtain ⟨_, _, hhdr⟩ := header_roundtrip ver Gen.openflow13.Type_MultiPartReply L xid hver (by decide) hL hxid
    have hh := hhdr Header.zero data _ hd hb'
    have e8 : rd16 (data.bytes.drop 8) = some (n16 t) := by rw [hb']; exact rd16_be16 _ _
    have e10 : rd16 (data.bytes.drop 10) = some (n16 f) := by rw [hb']; exact rd16_be16 _ _
    have hloop := mpReply_loop data hd t rs es hrs ([n8 ver, n8 Gen.openflow13.Type_MultiPartReply] ++ be16 (n16 L) ++ be32 (n32 xid)
      ++ (be16 (n16 t) ++ be16 (n16 f) ++ zeros 4)) tail [] 65537 (by rw [hb]) (by omega)
    simp only [List.length_append, be16_length, be32_length, zeros_length, List.length_cons, List.length_nil, List.nil_append,
      Nat.reduceAdd] at hloop
    simp only [MultipartReply.unmarshalWith, MultipartReply.zero, msgTryU, hh, Res.bind_ok, Slice.u16From_eq, e8, e10, Res.ofOption,
      Header.length, n16_toNat t ht]
    erw [hloop]
    simp only [Res.bind_ok, Bool.false_eq_true, if_false, Res.pure_eq, recoverR, u16_n16 t ht, u16_n16 f hf, mpReplyV]

end OFV.RT2
