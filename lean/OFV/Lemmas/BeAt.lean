/-
  OFV.Lemmas.BeAt — reading a big-endian field at an offset of a concatenation.
-/
import OFV.Go.Bytes
import OFV.Spec.Layout
namespace OFV.Spec
open OFV

theorem beAt_append_right (a b : Bytes) (k w : Nat) : beAt (a ++ b) (a.length + k) w = beAt b k w := by
  unfold beAt
  rw [List.drop_append]
  have : List.drop (a.length + k) a = [] := List.drop_eq_nil_of_le (by omega)
  simp [this]

theorem beAt_append_right0 (a b : Bytes) (w : Nat) : beAt (a ++ b) a.length w = beAt b 0 w := by
  have := beAt_append_right a b 0 w
  simpa using this

theorem beAt_u8 (x : UInt8) (rest : Bytes) : beAt (x :: rest) 0 1 = x.toNat := by
  simp [beAt]

theorem beAt_be16 (v : UInt16) (rest : Bytes) : beAt (be16 v ++ rest) 0 2 = v.toNat := by
  have := v.toNat_lt
  simp [beAt, be16]
  omega

theorem beAt_be32 (v : UInt32) (rest : Bytes) : beAt (be32 v ++ rest) 0 4 = v.toNat := by
  have := v.toNat_lt
  simp [beAt, be32]
  omega

theorem beAt_be64 (v : UInt64) (rest : Bytes) : beAt (be64 v ++ rest) 0 8 = v.toNat := by
  have := v.toNat_lt
  simp [beAt, be64]
  omega

theorem flatten_length_sum (cs : List Bytes) : cs.flatten.length = (cs.map List.length).sum := by
  induction cs with
  | nil => rfl
  | cons c cs ih => simp [ih]

/-- the k-th chunk of a concatenation of chunks starts at the sum of the lengths before it -/
theorem beAt_nth (cs : List Bytes) (tail : Bytes) (k : Nat) (c : Bytes) (hk : cs[k]? = some c) (off : Nat)
    (hoff : ((cs.take k).map List.length).sum = off) (w : Nat) :
    beAt (cs.flatten ++ tail) off w = beAt (c ++ ((cs.drop (k + 1)).flatten ++ tail)) 0 w := by
  have hlt : k < cs.length := by
    have := List.getElem?_eq_some_iff.mp hk; exact this.1
  have hsplit : cs = cs.take k ++ c :: cs.drop (k + 1) := by
    have hc : cs[k] = c := (List.getElem?_eq_some_iff.mp hk).2
    rw [← hc]
    exact (List.take_append_drop k cs).symm.trans (by rw [List.drop_eq_getElem_cons hlt])
  have hl : (cs.take k).flatten.length = off := by rw [flatten_length_sum, hoff]
  conv => lhs; rw [hsplit]
  simp only [List.flatten_append, List.flatten_cons, List.append_assoc]
  rw [← hl]
  exact beAt_append_right0 _ _ w

end OFV.Spec
