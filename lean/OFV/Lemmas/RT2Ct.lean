/-
  OFV.Lemmas.RT2Ct — NXActionConnTrack holding a list of round-tripping (non-conntrack) actions through DecodeAction: the nested
  encoder (`marshalActs`) and the nested decoder loop, by induction over the list.  Used by OFV/Props/C05b.lean.
-/
import OFV.Model.All
import OFV.Lemmas.Size
import OFV.Lemmas.RTBasic
import OFV.Lemmas.RTMatch
import OFV.Lemmas.RTAction
import OFV.Lemmas.RTList
import OFV.Lemmas.RTNx
import OFV.Lemmas.RT2Nx
namespace OFV.RT2
set_option linter.unusedSimpArgs false
open OFV OFV.Go OFV.Model OFV.RT

/-- no action of the list is itself a conntrack action -/
def Leafs (as : List V) : Prop := ∀ a ∈ as, a.kind ≠ "NXActionConnTrack"

theorem lenD_leaf (d : Nat) (a : V) (h : a.kind ≠ "NXActionConnTrack") : Action.lenD (d + 1) a = Action.lenM a := by
  unfold Action.lenM Action.lenD Action.encDepth
  rw [if_neg h, if_neg h]

theorem marshalD_leaf (d : Nat) (a : V) (h : a.kind ≠ "NXActionConnTrack") : Action.marshalD (d + 1) a = Action.marshalM a := by
  unfold Action.marshalM Action.marshalD Action.encDepth
  rw [if_neg h, if_neg h]

theorem ct_lens (d : Nat) (as : List V) (encs : List Bytes) (h : ActionsRT as encs) (hl : Leafs as) :
    mapM2 (Action.lenD (d + 1)) as = .ok (encs.map (fun e => UInt16.ofNat e.length), as) := by
  induction h with
  | nil => rfl
  | @cons a e as es h1 _ ih =>
    obtain ⟨_, hlen, _⟩ := h1
    have ha := hl a (by simp)
    have := ih (fun x hx => hl x (by simp [hx]))
    simp [mapM2, lenD_leaf d a ha, hlen, this]

theorem ct_marshalActs (d : Nat) (as : List V) (encs : List Bytes) (h : ActionsRT as encs) (hl : Leafs as) :
    ∀ (pre : Bytes) (K : Nat), encs.flatten.length ≤ K →
      NXActionConnTrack.marshalActs (Action.marshalD (d + 1)) as (pre ++ zeros K) pre.length
        = .ok (pre ++ encs.flatten ++ zeros (K - encs.flatten.length), as) := by
  induction h with
  | nil => intro pre K _; simp [NXActionConnTrack.marshalActs]
  | @cons a e as es h1 _ ih =>
    intro pre K hK
    obtain ⟨hm, _, _⟩ := h1
    have ha := hl a (by simp)
    simp only [List.flatten_cons, List.length_append] at hK
    have hf := fillFrom_exact pre [pCopy e] K (by intro p hp; simp at hp; subst hp; trivial)
      (by simp [piecesLen, pCopy, Piece.adv]; omega)
    have hpb : piecesBytes [pCopy e] = e := by simp [piecesBytes, pCopy, Piece.bytes]
    have hpl : piecesLen [pCopy e] = e.length := by simp [piecesLen, pCopy, Piece.adv]
    rw [hpb, hpl] at hf
    have := ih (fun x hx => hl x (by simp [hx])) (pre ++ e) (K - e.length) (by omega)
    simp only [List.length_append] at this
    simp only [NXActionConnTrack.marshalActs, marshalD_leaf d a ha, hm, Res.bind_ok, hf, this, Res.pure_eq]
    simp only [List.flatten_cons, List.append_assoc, List.length_append, Nat.sub_sub]

/-- the nested-action loop of NXActionConnTrack.UnmarshalBinary -/
theorem ct_loop (data : Slice) (hd : data.WF) (k : Nat) (as : List V) (encs : List Bytes) (h : ActionsRT as encs) :
    ∀ (pre rest : Bytes) (acc : List V) (fuel : Nat),
      data.bytes = pre ++ encs.flatten ++ rest → encs.length < fuel →
      goLoop (σ := NXActionConnTrack.St) fuel (fun s => decide (s.n < pre.length + encs.flatten.length)) (·.n)
        (fun s => do
          let d ← data.fromR s.n
          let act ← DecodeAction (k + 1) d
          let (al, act') ← Action.lenM act
          if al = 0 then .err else
          pure { n := s.n + al.toNat, acts := s.acts ++ [act'] })
        { n := pre.length, acts := acc }
      = .ok { n := pre.length + encs.flatten.length, acts := acc ++ as } := by
  induction h with
  | nil =>
    intro pre rest acc fuel hb hfuel
    cases fuel with
    | zero => simp at hfuel
    | succ j => simp [goLoop]
  | @cons a e as es h1 _ ih =>
    intro pre rest acc fuel hb hfuel
    obtain ⟨hm, hl, h0, h64, hdec⟩ := h1
    cases fuel with
    | zero => simp at hfuel
    | succ j =>
      have hlen := Slice.bytes_length_le data
      rw [hb] at hlen
      simp only [List.flatten_cons, List.length_append] at hlen
      obtain ⟨t, ht1, ht2, _, _⟩ := Slice.fromR_bytes data pre.length (by omega)
      have htb : t.bytes = e ++ (es.flatten ++ rest) := by
        rw [ht2, hb]; simp only [List.flatten_cons, List.append_assoc]; exact List.drop_left' rfl
      have htwf : t.WF := (Slice.fromR_wf data hd _ t ht1).1
      have hto : (UInt16.ofNat e.length).toNat = e.length := by
        simp [UInt16.toNat_ofNat']; omega
      have hne : ¬ (UInt16.ofNat e.length = 0) := by
        intro h0'
        have := congrArg UInt16.toNat h0'
        rw [hto] at this
        have h00 : (0 : UInt16).toNat = 0 := rfl
        rw [h00] at this; omega
      unfold goLoop
      have hcond : decide (pre.length < pre.length + (e :: es).flatten.length) = true := by
        simp only [List.flatten_cons, List.length_append, decide_eq_true_eq]; omega
      simp only [hcond, if_true, ht1, Res.bind_ok, hdec t _ k htwf htb, hl, Res.pure_eq, hto, hne, if_false]
      have hcur : ¬ (pre.length + e.length ≤ pre.length) := by omega
      simp only [if_false, hcur]
      have := ih (pre ++ e) rest (acc ++ [a]) j (by rw [hb]; simp) (by simp only [List.length_cons] at hfuel; omega)
      simp only [List.length_append, List.append_assoc, List.cons_append, List.nil_append, Res.pure_eq] at this
      simp only [List.flatten_cons, List.length_append, ← Nat.add_assoc]
      rw [this]


/-- the `switch` of DecodeAction for a Nicira subtype: the receiver it allocates -/
theorem newActionFor_nx (data : Slice) (hd : data.WF) (ln sub : Nat) (hsub : sub < 65536) (rest : Bytes)
    (hb : data.bytes = nxHdrBytes ln sub ++ rest) (z : V) (hlook : nxSubtypeTable.lookup sub = some z) :
    newActionFor data = .ok z := by
  have hlen := Slice.len_ge_of_bytes data _ _ hb
  have hlen10 : 10 ≤ data.len := by
    have : (nxHdrBytes ln sub).length = 10 := rfl
    omega
  have e0 : rd16 ((data.bytes.drop 0).take (2 - 0)) = some (n16 Gen.openflow13.ActionType_Experimenter) := by
    rw [hb]; rfl
  have e4 : rd32 ((data.bytes.drop 4).take (8 - 4)) = some (n32 Gen.openflow13.NxExperimenterID) := by
    rw [hb]; rfl
  have e8 : rd16 (data.bytes.drop 8) = some (n16 sub) := by
    rw [hb]
    have : List.drop 8 (nxHdrBytes ln sub ++ rest) = be16 (n16 sub) ++ rest := rfl
    rw [this]; exact rd16_be16 _ _
  have hnone : actionTypeTable.lookup Gen.openflow13.ActionType_Experimenter = none := by decide
  have ht : (n16 Gen.openflow13.ActionType_Experimenter).toNat = Gen.openflow13.ActionType_Experimenter := by decide
  have hv : (n32 Gen.openflow13.NxExperimenterID).toNat = Gen.openflow13.NxExperimenterID := by decide
  have h10 : Gen.openflow13.NxActionHeaderLength = 10 := rfl
  unfold newActionFor
  simp only [Slice.u16In_eq data hd 0 2 (by omega) (by omega), Slice.u32In_eq data hd 4 8 (by omega) (by omega), e0, e4,
    Res.ofOption, Res.bind_ok, hnone, ht, hv, if_true, h10]
  rw [if_neg (by omega)]
  simp only [DecodeNxAction, Slice.u16From_eq, e8, Res.ofOption, Res.bind_ok, n16_toNat sub hsub, hlook, Option.getD_some,
    Res.pure_eq, if_true]

/-- an NXActionConnTrack value -/
def ctV (ln fl zs zo rt : Nat) (pad : Bytes) (alg : Nat) (as : List V) : V :=
  .obj "NXActionConnTrack" [nxHdr ln Gen.openflow13.NXAST_CT, .num fl, .num zs, .num zo, .num rt, .bytes pad, .num alg, .list as]

/-- the 14 fixed bytes behind the Nicira header -/
def ctFixed (fl zs zo rt alg : Nat) : Bytes :=
  be16 (n16 fl) ++ be32 (n32 zs) ++ be16 (n16 zo) ++ [n8 rt] ++ zeros 3 ++ be16 (n16 alg)

theorem sum16_lens (encs : List Bytes) (hsum : ((encs.map (fun e => UInt16.ofNat e.length)).map UInt16.toNat).sum = encs.flatten.length)
    (h : encs.flatten.length < 65536) : sum16 (encs.map (fun e => UInt16.ofNat e.length)) = n16 encs.flatten.length := by
  apply UInt16.toNat_inj.mp
  rw [sum16_toNat _ (by rw [hsum]; exact h), hsum, n16_toNat _ h]

/-- NXActionConnTrack holding any list of round-tripping non-conntrack actions (`exec(...)`), decoded with a nesting budget of
    at least 2.  `MarshalBinary` stores the size 24 + Σ sizes in Length; the unexported pad (nil or ≤ 3 zero bytes) comes back nil. -/
theorem nxConnTrack_rt (fl zs zo rt alg kp : Nat) (as : List V) (encs : List Bytes)
    (hfl : fl < 65536) (hzs : zs < 4294967296) (hzo : zo < 65536) (hrt : rt < 256) (halg : alg < 65536) (hkp : kp ≤ 3)
    (has : ActionsRT as encs) (hleaf : Leafs as) (hS : 24 + encs.flatten.length < 65536) :
    let L := 24 + encs.flatten.length
    let v' := ctV L fl zs zo rt [] alg as
    let bs := nxHdrBytes L Gen.openflow13.NXAST_CT ++ ctFixed fl zs zo rt alg ++ encs.flatten
    (∀ ln0 : Nat, Action.marshalM (ctV ln0 fl zs zo rt (zeros kp) alg as) = .ok (bs, ctV L fl zs zo rt (zeros kp) alg as)) ∧
    Action.lenM v' = .ok (n16 L, v') ∧ bs.length = L ∧
    ∀ (data : Slice) (tail : Bytes) (k : Nat), data.WF → data.bytes = bs ++ tail → DecodeAction (k + 2) data = .ok v' := by
  intro L v' bs
  obtain ⟨hcnt, hsum⟩ := actions_len as encs has
  obtain ⟨dd, hdd⟩ : ∃ d, Action.encDepth = d + 1 := ⟨Action.encDepth - 1, rfl⟩
  have hlens := ct_lens dd as encs has hleaf
  have hs16 := sum16_lens encs hsum (by omega)
  have hL : L < 65536 := hS
  have hfx : (ctFixed fl zs zo rt alg).length = 14 := rfl
  have h10 : (nxHdrBytes L Gen.openflow13.NXAST_CT).length = 10 := rfl
  have hbl : bs.length = L := by simp only [bs, List.length_append, hfx, h10, L]
  have hlenW : ∀ (ln0 : Nat) (pad : Bytes), NXActionConnTrack.lenWith (Action.lenD Action.encDepth) (ctV ln0 fl zs zo rt pad alg as)
      = .ok (n16 L, ctV L fl zs zo rt pad alg as) := by
    intro ln0 pad
    rw [hdd]
    have hl : n16 Gen.openflow13.NxActionHeaderLength + 14 + n16 encs.flatten.length = n16 L := by
      have : (14 : UInt16) = n16 14 := rfl
      rw [this, n16_add, n16_add]; rfl
    simp only [ctV, NXActionConnTrack.lenWith, NXActionHeader.lenM, same, Res.bind_ok, hlens, hs16, hl, nxHdr_setLength ln0 _ L hL]
  have hk : ∀ ln0 pad, (ctV ln0 fl zs zo rt pad alg as).kind = "NXActionConnTrack" := fun _ _ => rfl
  refine ⟨fun ln0 => ?_, ?_, hbl, ?_⟩
  · unfold Action.marshalM Action.marshalD
    rw [if_pos (hk ln0 _)]
    unfold NXActionConnTrack.marshalWith
    rw [hlenW ln0 (zeros kp), hdd]
    simp only [ctV, Res.bind_ok, nxHdr_bytes, n16_toNat L hL]
    have hpl : piecesLen [pCopy (nxHdrBytes L Gen.openflow13.NXAST_CT), pU16 fl, pU32 zs, pU16 zo, pU8 rt, pCopyAdv (zeros kp) 3, pU16 alg] = 24 := rfl
    rw [fill_exact L _ (by intro p hp; simp at hp; rcases hp with rfl | rfl | rfl | rfl | rfl | rfl | rfl <;>
        first | trivial | (simp [Piece.Tight, pCopyAdv]; exact hkp)) (by rw [hpl]; simp only [L]; omega), hpl]
    have hpre : piecesBytes [pCopy (nxHdrBytes L Gen.openflow13.NXAST_CT), pU16 fl, pU32 zs, pU16 zo, pU8 rt, pCopyAdv (zeros kp) 3, pU16 alg]
        = nxHdrBytes L Gen.openflow13.NXAST_CT ++ ctFixed fl zs zo rt alg := by
      simp [piecesBytes, pCopy, pU16, pU32, pU8, pCopyAdv, Piece.bytes, ctFixed, zeros, List.take_replicate, Nat.min_eq_right hkp]
      have : kp + (3 - kp) = 3 := by omega
      rw [this]; rfl
    rw [hpre]
    have hm := ct_marshalActs dd as encs has hleaf (nxHdrBytes L Gen.openflow13.NXAST_CT ++ ctFixed fl zs zo rt alg) (L - 24)
      (by simp only [L]; omega)
    simp only [List.length_append, hfx, h10] at hm
    simp only [Res.bind_ok, hm]
    have hz : L - 24 - encs.flatten.length = 0 := by simp only [L]; omega
    simp only [hz, zeros, List.replicate_zero, List.append_nil, bs]
  · unfold Action.lenM Action.lenD
    rw [if_pos (hk L _)]
    exact hlenW L []
  · intro data tail k hd hb
    have hlen := Slice.len_ge_of_bytes data _ _ hb
    rw [hbl] at hlen
    have hb' : data.bytes = nxHdrBytes L Gen.openflow13.NXAST_CT ++ (ctFixed fl zs zo rt alg ++ (encs.flatten ++ tail)) := by
      rw [hb]; simp only [bs, List.append_assoc]
    show DecodeAction (k + 1 + 1) data = _
    unfold DecodeAction
    rw [newActionFor_nx data hd L Gen.openflow13.NXAST_CT (by decide) _ hb' NXActionConnTrack.zero rfl]
    simp only [Res.bind_ok]
    rw [if_pos (by rfl)]
    simp only [NXActionConnTrack.zero, NXActionConnTrack.unmarshalWith]
    rw [nxPrefix_ok data hd L Gen.openflow13.NXAST_CT hL (by decide) _ hb' (by omega)]
    have hb2 : data.bytes = nxHdrBytes L Gen.openflow13.NXAST_CT ++ (be16 (n16 fl) ++ (be32 (n32 zs) ++ (be16 (n16 zo) ++ ([n8 rt] ++
        (zeros 3 ++ (be16 (n16 alg) ++ (encs.flatten ++ tail))))))) := by
      rw [hb']; simp only [ctFixed, List.append_assoc]
    have e10 : rd16 (data.bytes.drop 10) = some (n16 fl) := by rw [hb2]; exact rd16_be16 _ _
    have e12 : rd32 (data.bytes.drop 12) = some (n32 zs) := by rw [hb2]; exact rd32_be32 _ _
    have e16 : rd16 (data.bytes.drop 16) = some (n16 zo) := by rw [hb2]; exact rd16_be16 _ _
    have e18 : data.bytes[18]? = some (n8 rt) := by rw [hb2]; rfl
    have e22 : rd16 (data.bytes.drop 22) = some (n16 alg) := by rw [hb2]; exact rd16_be16 _ _
    obtain ⟨s, hs1, _, _⟩ := Slice.sliceR_bytes data hd 19 22 (by omega) (by omega)
    have hloop := ct_loop data hd k as encs has (nxHdrBytes L Gen.openflow13.NXAST_CT ++ ctFixed fl zs zo rt alg) tail [] 65536
      (by rw [hb']; simp only [List.append_assoc]) (by omega)
    simp only [List.length_append, hfx, h10, List.nil_append, Nat.reduceAdd] at hloop
    simp only [Res.bind_ok, nxHdr_length, n16_toNat L hL, Slice.u16From_eq, Slice.u32From_eq, Slice.byteAt_eq, e10, e12, e16, e18, e22,
      hs1, Res.ofOption]
    erw [hloop]
    simp only [Res.bind_ok, nxHdr_setLength L _ (24 + encs.flatten.length) hS, Res.pure_eq, u16_n16 fl hfl, u32_n32 zs hzs,
      u16_n16 zo hzo, u8_n8 rt hrt, u16_n16 alg halg, copyInto, List.length_nil, List.take_zero, List.drop_nil, List.append_nil]
    rfl

end OFV.RT2
