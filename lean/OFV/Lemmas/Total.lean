/-
  OFV.Lemmas.Total — generic helpers for totality proofs of decoders (used by OFV.Props.C08):
    * slice reads stated with the bound in terms of `len` on a well-formed slice (len ≤ cap), returning the
      well-formedness and length of the sub-slice that is handed on;
    * combinators for `Res.Total`;
    * `goLoop_total`: a `goLoop` whose body, whenever the condition holds, returns an error or a state with a larger,
      bounded cursor, returns an error or a final state (never `.panic`, never `.spin`);
    * the two decoder loop bodies of `protocol` (hop-by-hop options, DHCP options) as named functions, definitionally the
      lambdas written inside `PHopByHop.unmarshal` / `PDhcpOpt.parseOptions`, so that lemmas can be stated about them.
-/
import OFV.Model.Proto
import OFV.Lemmas.Read
import OFV.Lemmas.Loop
namespace OFV.Go
open OFV

namespace Slice

/-- `s[a:b]` with `a ≤ b ≤ len` succeeds on a well-formed slice; the result is well-formed and has length `b - a` -/
theorem sliceR_ok_len (s : Slice) (h : s.WF) (a b : Nat) (hab : a ≤ b) (hb : b ≤ s.len) :
    ∃ t, s.sliceR a b = .ok t ∧ t.WF ∧ t.len = b - a := by
  have hb' : b ≤ s.buf.length := Nat.le_trans hb h
  refine ⟨_, sliceR_ok s a b hab hb', ?_, rfl⟩
  unfold WF; simp; omega

/-- `s[a:]` with `a ≤ len` succeeds; the result is well-formed and has length `len - a` -/
theorem fromR_ok_len (s : Slice) (h : s.WF) (a : Nat) (ha : a ≤ s.len) :
    ∃ t, s.fromR a = .ok t ∧ t.WF ∧ t.len = s.len - a := by
  refine ⟨_, fromR_ok s a ha, ?_, rfl⟩
  unfold WF at *; simp; omega

theorem u16In_ok_len (s : Slice) (h : s.WF) (a b : Nat) (hab : a + 2 ≤ b) (hb : b ≤ s.len) :
    ∃ x, s.u16In a b = .ok x :=
  u16In_ok s a b hab (Nat.le_trans hb h)

theorem u32In_ok_len (s : Slice) (h : s.WF) (a b : Nat) (hab : a + 4 ≤ b) (hb : b ≤ s.len) :
    ∃ x, s.u32In a b = .ok x :=
  u32In_ok s a b hab (Nat.le_trans hb h)

end Slice

namespace Res

/-- "error, or a value satisfying P" implies total -/
theorem total_of_cases {α} {r : Res α} {P : α → Prop} (h : r = .err ∨ ∃ a, r = .ok a ∧ P a) : Res.Total r := by
  rcases h with h | ⟨a, h, _⟩
  · exact Or.inr h
  · exact Or.inl ⟨a, h⟩

/-- a total step followed by a continuation that always succeeds is total -/
theorem total_bind_ok {α β} {r : Res α} (h : Res.Total r) (k : α → Res β) (hk : ∀ a, ∃ b, k a = .ok b) :
    Res.Total (r >>= k) := by
  rcases h with ⟨a, ha⟩ | ha
  · obtain ⟨b, hb⟩ := hk a
    rw [ha, Res.bind_ok, hb]; exact Or.inl ⟨_, rfl⟩
  · rw [ha]; exact Or.inr rfl

end Res
end OFV.Go

namespace OFV.Model
open OFV OFV.Go

theorem n8_toNat (x : UInt8) : n8 x.toNat = x := by
  unfold n8; simp

theorem n16_toNat (x : UInt16) : n16 x.toNat = x := by
  unfold n16; simp

/-- a loop whose body — whenever the loop condition holds — returns an error or a state with a strictly larger cursor,
    the cursor being bounded while the condition holds, returns an error or a final state in which the condition is
    false: it neither panics nor runs out of fuel (`.spin`), provided the fuel exceeds `bound - cursor`. -/
theorem goLoop_total {σ} (cond : σ → Bool) (cursor : σ → Nat) (body : σ → R σ) (bound : Nat)
    (hb : ∀ s, cond s = true → cursor s < bound)
    (hbody : ∀ s, cond s = true → body s = .err ∨ ∃ s', body s = .ok s' ∧ cursor s < cursor s')
    (fuel : Nat) (s : σ) (hf : bound - cursor s < fuel) :
    goLoop fuel cond cursor body s = .err ∨ ∃ t, goLoop fuel cond cursor body s = .ok t ∧ cond t = false := by
  have hspin := goLoop_no_spin cond cursor body bound hb
    (fun s s' hc hs => by
      rcases hbody s hc with h | ⟨s'', h, hlt⟩
      · rw [h] at hs; cases hs
      · rw [h] at hs; cases hs; exact hlt)
    (fun s hc => by
      rcases hbody s hc with h | ⟨s'', h, _⟩ <;> rw [h] <;> simp) fuel s hf
  have hpanic := goLoop_no_panic cond cursor body (fun _ => True) (fun _ _ _ _ _ => trivial)
    (fun s _ hc => by
      rcases hbody s hc with h | ⟨s'', h, _⟩ <;> rw [h] <;> simp) fuel s trivial
  cases hr : goLoop fuel cond cursor body s with
  | ok t =>
    exact Or.inr ⟨t, rfl, (goLoop_inv cond cursor body (fun _ => True) (fun _ _ _ _ _ => trivial) fuel s t trivial hr).2⟩
  | err => exact Or.inl rfl
  | panic => exact absurd hr hpanic
  | spin => exact absurd hr hspin

/-- one iteration of the hop-by-hop option loop (the lambda inside `PHopByHop.unmarshal`) -/
def hbhBody (data : Slice) (s : PHopByHop.St) : R PHopByHop.St := do
  let d ← data.fromR s.n
  let o ← POption.unmarshal POption.zero d
  let ol ← POption.len o
  pure { n := s.n + ol.toNat, opts := s.opts ++ [o] }

/-- one iteration of DHCPParseOptions (the lambda inside `PDhcpOpt.parseOptions`) -/
def dhcpBody (inp : Slice) (s : PDhcpOpt.St) : R PDhcpOpt.St := do
  let t ← inp.byteAt s.pos
  let pos := s.pos + 1
  if t.toNat = Gen.protocol.DHCP_OPT_PAD then pure { s with pos := pos, opts := s.opts ++ [PDhcpOpt.mk t []] }
  else if t.toNat = Gen.protocol.DHCP_OPT_END then pure { s with pos := pos, done := true }
  else if inp.len - pos ≥ 1 then do
    let l ← inp.byteAt pos
    let pos := pos + 1
    if inp.len - pos < l.toNat then .err else do
    let d ← inp.sliceR pos (pos + l.toNat)
    pure { s with pos := pos + l.toNat, opts := s.opts ++ [PDhcpOpt.mk t d.bytes] }
  else pure { s with pos := pos }

end OFV.Model
