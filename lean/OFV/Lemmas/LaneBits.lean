/-
  OFV.Lemmas.LaneBits — tools for the bit-field ("lane") theorems of C09.
  * transfer lemmas: a statement about all bytes below a bound follows from the same statement over `Fin n`
    (which `decide +kernel` can check exhaustively);
  * Nat-level facts about masks and shifts that `omega` cannot see through (`&&&`, `|||`).
-/
import OFV.Model.Proto
namespace OFV.Lemmas.Lane
open OFV OFV.Go OFV.Model

/-- a property of every byte below `n` follows from checking the `n` values -/
theorem forall_u8_lt (n : Nat) (P : UInt8 → Prop) (h : ∀ k : Fin n, P (UInt8.ofNat k.val))
    (x : UInt8) (hx : x.toNat < n) : P x := by
  have := h ⟨x.toNat, hx⟩
  simpa using this

/-- … two bytes -/
theorem forall_u8_lt2 (n m : Nat) (P : UInt8 → UInt8 → Prop)
    (h : ∀ (k : Fin n) (j : Fin m), P (UInt8.ofNat k.val) (UInt8.ofNat j.val))
    (x y : UInt8) (hx : x.toNat < n) (hy : y.toNat < m) : P x y := by
  have := h ⟨x.toNat, hx⟩ ⟨y.toNat, hy⟩
  simpa using this

/-- … a flag and a byte -/
theorem forall_bool_u8_lt (m : Nat) (P : Bool → UInt8 → Prop)
    (h : ∀ (b : Bool) (j : Fin m), P b (UInt8.ofNat j.val))
    (b : Bool) (y : UInt8) (hy : y.toNat < m) : P b y := by
  have := h b ⟨y.toNat, hy⟩
  simpa using this

theorem mask_and (n x : Nat) : (2 ^ n - 1) &&& x = x % 2 ^ n := by
  rw [Nat.and_comm]; exact Nat.and_two_pow_sub_one_eq_mod x n

theorem and_mask (n x : Nat) : x &&& (2 ^ n - 1) = x % 2 ^ n := Nat.and_two_pow_sub_one_eq_mod x n

/-- OR of a multiple of 2^i with something below 2^i is their sum -/
theorem or_eq_add (i a b : Nat) (hb : b < 2 ^ i) : a * 2 ^ i ||| b = a * 2 ^ i + b := by
  rw [← Nat.shiftLeft_eq, Nat.shiftLeft_add_eq_or_of_lt hb]

/-! ### byte-level facts checked exhaustively -/

/-- TCP data offset: 4-bit lane in the high nibble -/
theorem tcp_off (hl : UInt8) (h : hl.toNat < 16) : PTCP.unpackOff (PTCP.packOff hl) = hl :=
  forall_u8_lt 16 (fun hl => PTCP.unpackOff (PTCP.packOff hl) = hl) (by decide +kernel) hl h

/-- TCP code bits: 6-bit lane -/
theorem tcp_code (c : UInt8) (h : c.toNat < 64) : PTCP.unpackCode (PTCP.packCode c) = c :=
  forall_u8_lt 64 (fun c => PTCP.unpackCode (PTCP.packCode c) = c) (by decide +kernel) c h

/-- IPv4 version / header length nibbles -/
theorem ipv4_verihl (ver ihl : UInt8) (h1 : ver.toNat < 16) (h2 : ihl.toNat < 16) :
    PIPv4.unpackVersion (PIPv4.packVerIHL ver ihl) = ver ∧ PIPv4.unpackIHL (PIPv4.packVerIHL ver ihl) = ihl :=
  forall_u8_lt2 16 16
    (fun ver ihl => PIPv4.unpackVersion (PIPv4.packVerIHL ver ihl) = ver ∧ PIPv4.unpackIHL (PIPv4.packVerIHL ver ihl) = ihl)
    (by decide +kernel) ver ihl h1 h2

/-- IPv4 DSCP (6 bits) / ECN (2 bits) -/
theorem ipv4_dscpecn (dscp ecn : UInt8) (h1 : dscp.toNat < 64) (h2 : ecn.toNat < 4) :
    PIPv4.unpackDSCP (PIPv4.packDscpEcn dscp ecn) = dscp ∧ PIPv4.unpackECN (PIPv4.packDscpEcn dscp ecn) = ecn :=
  forall_u8_lt2 64 4
    (fun dscp ecn => PIPv4.unpackDSCP (PIPv4.packDscpEcn dscp ecn) = dscp ∧ PIPv4.unpackECN (PIPv4.packDscpEcn dscp ecn) = ecn)
    (by decide +kernel) dscp ecn h1 h2

/-- IGMPv3 query: S flag (bit 3) and QRV (bits 0-2) -/
theorem igmp_sqrv (s : Bool) (qrv : UInt8) (h : qrv.toNat < 8) :
    PIGMPv3Query.unpackS (PIGMPv3Query.packSQRV s qrv) = s ∧ PIGMPv3Query.unpackQRV (PIGMPv3Query.packSQRV s qrv) = qrv :=
  forall_bool_u8_lt 8
    (fun s qrv => PIGMPv3Query.unpackS (PIGMPv3Query.packSQRV s qrv) = s ∧
      PIGMPv3Query.unpackQRV (PIGMPv3Query.packSQRV s qrv) = qrv)
    (by decide +kernel) s qrv h

/-- IPv6 first byte: version in the high nibble, the high nibble of the traffic class in the low nibble -/
theorem ipv6_b0 (ver tc : UInt8) (h1 : ver.toNat < 16) :
    PIPv6.unpackVersion (PIPv6.packB0 ver tc) = ver ∧
      (PIPv6.packB0 ver tc) &&& (0x0f : UInt8) = tc >>> (4 : UInt8) :=
  forall_u8_lt2 16 256
    (fun ver tc => PIPv6.unpackVersion (PIPv6.packB0 ver tc) = ver ∧
      (PIPv6.packB0 ver tc) &&& (0x0f : UInt8) = tc >>> (4 : UInt8))
    (by decide +kernel) ver tc h1 tc.toNat_lt

/-- IPv6 second byte, with `x` the top four bits of the flow label: low nibble of the class above, `x` below -/
theorem ipv6_b1 (tc x : UInt8) (h : x.toNat < 16) :
    ((((tc <<< (4 : UInt8)) &&& (0xf0 : UInt8)) ||| x) >>> (4 : UInt8) = tc &&& (0x0f : UInt8)) ∧
      ((((tc <<< (4 : UInt8)) &&& (0xf0 : UInt8)) ||| x) &&& (0x0f : UInt8) = x) :=
  forall_u8_lt2 256 16
    (fun tc x => ((((tc <<< (4 : UInt8)) &&& (0xf0 : UInt8)) ||| x) >>> (4 : UInt8) = tc &&& (0x0f : UInt8)) ∧
      ((((tc <<< (4 : UInt8)) &&& (0xf0 : UInt8)) ||| x) &&& (0x0f : UInt8) = x))
    (by decide +kernel) tc x tc.toNat_lt h

/-- a byte is its two nibbles -/
theorem nibbles (tc : UInt8) : ((tc >>> (4 : UInt8)) <<< (4 : UInt8)) ||| (tc &&& (0x0f : UInt8)) = tc :=
  forall_u8_lt 256 (fun tc => ((tc >>> (4 : UInt8)) <<< (4 : UInt8)) ||| (tc &&& (0x0f : UInt8)) = tc)
    (by decide +kernel) tc tc.toNat_lt

end OFV.Lemmas.Lane
