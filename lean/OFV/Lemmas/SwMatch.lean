/-
  OFV.Lemmas.SwMatch — decoding an `ofp_match` (empty, or with one in_port field) and an Ethernet frame of unknown
  ethertype from a slice whose visible bytes are known.  Used by OFV/Props/C04.lean (flow-removed, packet-in).
-/
import OFV.Model.All
import OFV.Lemmas.SwBasic
namespace OFV.Sw
open OFV OFV.Go OFV.Model

/-- the value of an `ofp_match` without fields -/
def matchEmptyV : V := .obj "Match" [.num 1, .num 4, .list []]

/-- the value of an `ofp_match` with one in_port field -/
def matchInPortV (port : UInt32) : V :=
  .obj "Match" [.num 1, .num 12, .list [.obj "MatchField" [.num 32768, .num 0, .num 0, .num 4, .num 0,
    .obj "InPortField" [.num port.toNat], .nil]]]

/-- an empty match (type 1, length 4) decodes to a Match without fields, whatever follows it -/
theorem match_empty (a b : V) (dm : Slice) (rest : Bytes) (h : dm.bytes = be16 1 ++ (be16 4 ++ rest)) :
    Match.unmarshalP (.obj "Match" [a, b, .list []]) dm = .ok (matchEmptyV, false) := by
  unfold Match.unmarshalP
  simp only [u16From_at dm 0 1 _ h, u16From_at dm 2 4 _ (by rw [h]; rfl), Res.bind_ok]
  rw [goLoop_stop _ _ _ _ _ (by rfl)]
  rfl

theorem matchEmpty_len : Match.lenM matchEmptyV = .ok (8, matchEmptyV) := by rfl

/-- a match holding one in_port field (type 1, length 12, OXM header 0x8000/0/4, port) decodes to that field -/
theorem match_inPort (a b : V) (dm : Slice) (hwf : dm.WF) (port : UInt32) (rest : Bytes)
    (h : dm.bytes = be16 1 ++ (be16 12 ++ (be16 0x8000 ++ ([0, 4] ++ (be32 port ++ rest))))) :
    Match.unmarshalP (.obj "Match" [a, b, .list []]) dm = .ok (matchInPortV port, false) := by
  have hl : 12 + rest.length = dm.len := by
    rw [← bytes_length dm hwf, h]; simp; omega
  obtain ⟨d, h1, hdwf, hdl, hd⟩ := fromR_at dm hwf 4 (by omega)
  rw [h] at hd
  obtain ⟨d', h2, _, _, hd'⟩ := fromR_at d hdwf 4 (by omega)
  rw [hd] at hd'
  unfold Match.unmarshalP
  simp only [u16From_at dm 0 1 _ h, u16From_at dm 2 12 _ (by rw [h]; rfl), Res.bind_ok]
  have hf : MatchField.unmarshal MatchField.zero d = .ok (.obj "MatchField" [.num 32768, .num 0, .num 0, .num 4, .num 0,
      .obj "InPortField" [.num port.toNat], .nil]) := by
    unfold MatchField.unmarshal MatchField.zero
    simp only [u16From_at d 0 0x8000 _ (by rw [hd]; rfl), byteAt_at d 2 0 _ (by rw [hd]; rfl),
      byteAt_at d 3 4 _ (by rw [hd]; rfl), Res.bind_ok]
    have hdec : DecodeMatchField (0x8000 : UInt16).toNat ((0 : UInt8) >>> 1).toNat (4 : UInt8).toNat
        (((0 : UInt8) &&& 1) == 1) d' = .ok (.obj "InPortField" [.num port.toNat]) := by
      show InPortField.unmarshal InPortField.zero d' = _
      unfold InPortField.unmarshal
      rw [u32From_at d' 0 port rest (by rw [hd']; rfl)]
      rfl
    show (d.fromR 4 >>= fun d2 => DecodeMatchField (0x8000 : UInt16).toNat ((0 : UInt8) >>> 1).toNat (4 : UInt8).toNat
        (((0 : UInt8) &&& 1) == 1) d2 >>= _) = _
    rw [h2]
    simp only [Res.bind_ok, hdec]
    rfl
  rw [goLoop_step _ _ _ _ _ ⟨12, [.obj "MatchField" [.num 32768, .num 0, .num 0, .num 4, .num 0,
      .obj "InPortField" [.num port.toNat], .nil]], false⟩ (by rfl)
      (by simp only [h1, Res.bind_ok, hf]; rfl) (by show 4 + 0 < 12 + 0; omega),
    goLoop_stop _ _ _ _ _ (by rfl)]
  rfl

theorem matchInPort_len (port : UInt32) : Match.lenM (matchInPortV port) = .ok (16, matchInPortV port) := by rfl

/-- an untagged Ethernet frame whose ethertype is none of VLAN / IPv4 / IPv6 / ARP: addresses and ethertype are read
    from their places and the payload is kept as bytes -/
theorem ethernet_opaque (de : Slice) (hwf : de.WF) (dst src : Bytes) (et : UInt16) (payload : Bytes)
    (hdst : dst.length = 6) (hsrc : src.length = 6)
    (het : et.toNat ≠ 33024 ∧ et.toNat ≠ 2048 ∧ et.toNat ≠ 34525 ∧ et.toNat ≠ 2054)
    (h : de.bytes = dst ++ (src ++ (be16 et ++ payload))) :
    PEthernet.unmarshal PEthernet.zero de = .ok (.obj "p.Ethernet" [.num 0, .bytes dst, .bytes src,
      .obj "p.VLAN" [.num 0, .num 0, .num 0, .num 0], .num et.toNat, .obj "u.Buffer" [.bytes payload]]) := by
  obtain ⟨a0, a1, a2, a3, a4, a5, rfl⟩ := len6 dst hdst
  obtain ⟨b0, b1, b2, b3, b4, b5, rfl⟩ := len6 src hsrc
  obtain ⟨h1, h2, h3, h4⟩ := het
  have hl : 14 + payload.length = de.len := by
    rw [← bytes_length de hwf, h]; simp; omega
  obtain ⟨s1, e1, _, _, hs1⟩ := sliceR_at de hwf 0 6 (by omega) (by omega)
  obtain ⟨s2, e2, _, _, hs2⟩ := sliceR_at de hwf 6 12 (by omega) (by omega)
  obtain ⟨r, e3, _, _, hr⟩ := fromR_at de hwf 14 (by omega)
  unfold PEthernet.unmarshal
  rw [if_neg (by omega)]
  simp only [PEthernet.zero, e1, e2, u16From_at de 12 et _ (by rw [h]; rfl), Res.bind_ok,
    Gen.protocol.VLAN_MSG, Gen.protocol.IPv4_MSG, Gen.protocol.IPv6_MSG, Gen.protocol.ARP_MSG,
    if_neg h1, if_neg h2, if_neg h3, if_neg h4, e3, UBuffer.unmarshal, UBuffer.mk, hs1, hs2, hr, h, PVLAN.zero,
    Res.pure_eq]
  rfl

/-- `Len()` through the `util.Message` interface reaches FlowStats.Len -/
theorem anyLenM_flowStats (fs : List V) : anyLenM (.obj "FlowStats" fs) = FlowStats.lenM (.obj "FlowStats" fs) := rfl

/-- the value of a goto-table instruction -/
def gotoTableV (tableId : UInt8) : V :=
  .obj "InstrGotoTable" [.obj "InstrHeader" [.num 1, .num 8], .num tableId.toNat, .bytes []]

/-- a goto-table instruction (type 1, length 8, table id, 3 bytes pad) decodes to that instruction -/
theorem instr_gotoTable (di : Slice) (hwf : di.WF) (tableId : UInt8) (rest : Bytes)
    (h : di.bytes = be16 1 ++ (be16 8 ++ ([tableId, 0, 0, 0] ++ rest))) :
    DecodeInstr di = .ok (gotoTableV tableId) := by
  have hl : 8 + rest.length = di.len := by rw [← bytes_length di hwf, h]; simp; omega
  obtain ⟨d4, h1, hd4wf, hd4l, hd4⟩ := uptoR_at di hwf 4 (by omega)
  rw [h] at hd4
  obtain ⟨p, h2, _, _, _⟩ := sliceR_at di hwf 5 8 (by omega) (by omega)
  have hh : InstrHeader.unmarshal InstrHeader.zero d4 = .ok (.obj "InstrHeader" [.num 1, .num 8]) := by
    unfold InstrHeader.unmarshal
    rw [if_neg (by omega), u16In_at d4 hd4wf 0 2 1 _ (by omega) (by omega) (by rw [hd4]; rfl),
      u16In_at d4 hd4wf 2 4 8 _ (by omega) (by omega) (by rw [hd4]; rfl)]
    rfl
  unfold DecodeInstr
  rw [u16In_at di hwf 0 2 1 _ (by omega) (by omega) h]
  show (InstrAux.catchErr (InstrGotoTable.unmarshal InstrGotoTable.zero di) InstrGotoTable.zero >>= _) = _
  unfold InstrGotoTable.unmarshal InstrGotoTable.zero InstrHeader.unmarshal4 InstrAux.catchErr
  simp only [h1, hh, Res.bind_ok, byteAt_at di 4 tableId _ (by rw [h]; rfl), h2, copyInto_nil]
  rfl

theorem gotoTable_len (tableId : UInt8) : Instruction.lenM (gotoTableV tableId) = .ok (8, gotoTableV tableId) := rfl

theorem len4 (l : Bytes) (h : l.length = 4) : ∃ a b c d, l = [a, b, c, d] := by
  match l, h with
  | [a, b, c, d], _ => exact ⟨a, b, c, d, rfl⟩

/-- an untagged Ethernet frame carrying an Ethernet/IPv4 ARP packet (ethertype 0x0806; htype 1, ptype 0x0800, hlen 6,
    plen 4, operation, sender and target hardware / protocol addresses) -/
theorem ethernet_arp (de : Slice) (hwf : de.WF) (dst src : Bytes) (oper : UInt16) (sha spa tha tpa : Bytes)
    (hdst : dst.length = 6) (hsrc : src.length = 6) (hsha : sha.length = 6) (hspa : spa.length = 4)
    (htha : tha.length = 6) (htpa : tpa.length = 4)
    (h : de.bytes = dst ++ (src ++ (be16 0x0806 ++ (be16 1 ++ (be16 0x0800 ++ ([6, 4] ++ (be16 oper ++ (sha ++ (spa ++
      (tha ++ tpa)))))))))) :
    PEthernet.unmarshal PEthernet.zero de = .ok (.obj "p.Ethernet" [.num 0, .bytes dst, .bytes src,
      .obj "p.VLAN" [.num 0, .num 0, .num 0, .num 0], .num 0x0806,
      .obj "p.ARP" [.num 1, .num 0x0800, .num 6, .num 4, .num oper.toNat, .bytes sha, .bytes spa, .bytes tha,
        .bytes tpa]]) := by
  obtain ⟨a0, a1, a2, a3, a4, a5, rfl⟩ := len6 dst hdst
  obtain ⟨b0, b1, b2, b3, b4, b5, rfl⟩ := len6 src hsrc
  obtain ⟨c0, c1, c2, c3, c4, c5, rfl⟩ := len6 sha hsha
  obtain ⟨e0, e1, e2, e3, e4, e5, rfl⟩ := len6 tha htha
  obtain ⟨f0, f1, f2, f3, rfl⟩ := len4 spa hspa
  obtain ⟨g0, g1, g2, g3, rfl⟩ := len4 tpa htpa
  have hl : de.len = 42 := by rw [← bytes_length de hwf, h]; rfl
  obtain ⟨s1, e1', _, _, hs1⟩ := sliceR_at de hwf 0 6 (by omega) (by omega)
  obtain ⟨s2, e2', _, _, hs2⟩ := sliceR_at de hwf 6 12 (by omega) (by omega)
  obtain ⟨r, e3', hrwf, hrl, hr⟩ := fromR_at de hwf 14 (by omega)
  rw [h] at hr hs1 hs2
  have hrl' : r.len = 28 := by omega
  obtain ⟨t1, q1, _, _, ht1⟩ := sliceR_at r hrwf 8 14 (by omega) (by omega)
  obtain ⟨t2, q2, _, _, ht2⟩ := sliceR_at r hrwf 14 18 (by omega) (by omega)
  obtain ⟨t3, q3, _, _, ht3⟩ := sliceR_at r hrwf 18 24 (by omega) (by omega)
  obtain ⟨t4, q4, _, _, ht4⟩ := sliceR_at r hrwf 24 28 (by omega) (by omega)
  have harp : PARP.unmarshal PARP.zero r = .ok (.obj "p.ARP" [.num 1, .num 0x0800, .num 6, .num 4, .num oper.toNat,
      .bytes [c0, c1, c2, c3, c4, c5], .bytes [f0, f1, f2, f3], .bytes [e0, e1, e2, e3, e4, e5],
      .bytes [g0, g1, g2, g3]]) := by
    unfold PARP.unmarshal
    rw [if_neg (by omega)]
    simp only [u16In_at r hrwf 0 2 1 _ (by omega) (by omega) (by rw [hr]; rfl),
      u16In_at r hrwf 2 4 0x0800 _ (by omega) (by omega) (by rw [hr]; rfl),
      byteAt_at r 4 6 _ (by rw [hr]; rfl), byteAt_at r 5 4 _ (by rw [hr]; rfl),
      u16In_at r hrwf 6 8 oper _ (by omega) (by omega) (by rw [hr]; rfl), Res.bind_ok, hrl']
    rw [if_neg (by decide)]
    show (r.sliceR 8 14 >>= fun s1 => r.sliceR 14 18 >>= fun s2 => r.sliceR 18 24 >>= fun s3 =>
      r.sliceR 24 28 >>= fun s4 => _) = _
    simp only [q1, q2, q3, q4, Res.bind_ok, ht1, ht2, ht3, ht4, hr]
    rfl
  unfold PEthernet.unmarshal
  rw [if_neg (by omega)]
  simp only [PEthernet.zero, e1', e2', u16From_at de 12 0x0806 _ (by rw [h]; rfl), Res.bind_ok]
  rw [if_neg (by decide)]
  simp only [Res.bind_ok, e3']
  rw [if_neg (by decide), if_neg (by decide), if_pos (by decide), harp]
  simp only [Res.bind_ok, hs1, hs2]
  rfl

end OFV.Sw
