/-
  OFV.Lemmas.Local — "frame locality" of the slice read primitives and of the packet decoders of `OFV.Model.Proto`.

  Two slices AGREE when they have the same length and the same visible bytes `s[0:len]`; what their backing arrays hold
  between `len` and `cap` (in the real system: the stale contents of a recycled pool buffer behind the current frame) may
  differ.  Every read primitive that Go bounds-checks against `len` (index, `s[a:]`, `binary.BigEndian.UintN(s[a:])`)
  gives the same result on agreeing slices unconditionally; the primitives that Go checks against `cap` only
  (`s[a:b]`, `s[:b]`, `UintN(s[a:b])`) do so when `b ≤ len`.

  Proof skeleton for a decoder `X` (tactic `loc_steps haw`): rewrite `s.len` to `t.len` and every unconditional read on
  `s` to the read on `t`; then walk down the two `do` blocks in lock-step (`bind_congr2`, `ite_congr`), rewriting each
  cap-checked read once the length guard that makes it stay inside `len` is in the context, and handing agreeing
  sub-slices to the continuation (`fromR_bind_loc`, `sliceR_bind_loc`).
-/
import OFV.Model.Proto
import OFV.Lemmas.Read
import OFV.Lemmas.Loop
namespace OFV.Go
open OFV

namespace Slice

/-- same length, same visible bytes; the backing arrays may differ beyond `len` -/
def Agree (s t : Slice) : Prop := s.len = t.len ∧ s.bytes = t.bytes

/-- two well-formed slices that agree (the relation that is handed down to sub-slices) -/
def AW (s t : Slice) : Prop := s.WF ∧ t.WF ∧ s.Agree t

theorem AW.mk' {s t : Slice} (hs : s.WF) (ht : t.WF) (h : s.Agree t) : AW s t := ⟨hs, ht, h⟩
theorem AW.len_eq {s t : Slice} (h : AW s t) : s.len = t.len := h.2.2.1
theorem AW.bytes_eq {s t : Slice} (h : AW s t) : s.bytes = t.bytes := h.2.2.2
theorem AW.refl {s : Slice} (h : s.WF) : AW s s := ⟨h, h, rfl, rfl⟩
theorem AW.symm {s t : Slice} (h : AW s t) : AW t s := ⟨h.2.1, h.1, h.2.2.1.symm, h.2.2.2.symm⟩

/-- `s[i]` reads the visible bytes only -/
theorem index_eq_bytes (s : Slice) (i : Nat) : s.index i = s.bytes[i]? := by
  unfold index bytes
  rw [List.getElem?_take]

theorem index_loc {s t : Slice} (h : AW s t) (i : Nat) : s.index i = t.index i := by
  rw [index_eq_bytes, index_eq_bytes, h.bytes_eq]

theorem byteAt_loc {s t : Slice} (h : AW s t) (i : Nat) : s.byteAt i = t.byteAt i := by
  unfold byteAt; rw [index_loc h]

/-- the visible bytes of `s[a:]` are the visible bytes of `s` from `a` on -/
theorem from_bytes (s : Slice) (a : Nat) : (Slice.mk (s.buf.drop a) (s.len - a)).bytes = s.bytes.drop a := by
  unfold bytes
  simp only []
  rw [List.drop_take]

/-- `s[a:]` of agreeing slices: both panic, or the two sub-slices agree -/
theorem fromR_loc {s t : Slice} (h : AW s t) (a : Nat) :
    (s.fromR a = .panic ∧ t.fromR a = .panic) ∨ ∃ x y, s.fromR a = .ok x ∧ t.fromR a = .ok y ∧ AW x y := by
  by_cases ha : a ≤ s.len
  · right
    have ha' : a ≤ t.len := h.len_eq ▸ ha
    refine ⟨_, _, fromR_ok s a ha, fromR_ok t a ha', ?_, ?_, ?_, ?_⟩
    · have := h.1; unfold WF at *; simp only [List.length_drop]; omega
    · have := h.2.1; unfold WF at *; simp only [List.length_drop]; omega
    · simp only [h.len_eq]
    · rw [from_bytes, from_bytes, h.bytes_eq]
  · left
    have ha' : ¬ a ≤ t.len := h.len_eq ▸ ha
    unfold fromR from_ Res.ofOption
    simp [ha, ha']

/-- the visible bytes of `s[a:b]` for `b ≤ len` are visible bytes of `s` -/
theorem slice_bytes (s : Slice) (a b : Nat) (hb : b ≤ s.len) :
    (Slice.mk (s.buf.drop a) (b - a)).bytes = (s.bytes.drop a).take (b - a) := by
  unfold bytes
  simp only []
  rw [List.drop_take, List.take_take]
  congr 1
  omega

/-- `s[a:b]` with `b ≤ len` of agreeing slices: both panic, or the two sub-slices agree -/
theorem sliceR_loc {s t : Slice} (h : AW s t) (a b : Nat) (hb : b ≤ t.len) :
    (s.sliceR a b = .panic ∧ t.sliceR a b = .panic) ∨ ∃ x y, s.sliceR a b = .ok x ∧ t.sliceR a b = .ok y ∧ AW x y := by
  have hbs : b ≤ s.len := h.len_eq ▸ hb
  have hs := h.1
  have ht := h.2.1
  by_cases hab : a ≤ b
  · right
    refine ⟨_, _, sliceR_ok s a b hab (Nat.le_trans hbs hs), sliceR_ok t a b hab (Nat.le_trans hb ht), ?_, ?_, rfl, ?_⟩
    · unfold WF at *; simp only [List.length_drop]; omega
    · unfold WF at *; simp only [List.length_drop]; omega
    · rw [slice_bytes s a b hbs, slice_bytes t a b hb, h.bytes_eq]
  · left
    unfold sliceR slice Res.ofOption
    simp [hab]

theorem uptoR_loc {s t : Slice} (h : AW s t) (b : Nat) (hb : b ≤ t.len) :
    (s.uptoR b = .panic ∧ t.uptoR b = .panic) ∨ ∃ x y, s.uptoR b = .ok x ∧ t.uptoR b = .ok y ∧ AW x y :=
  sliceR_loc h 0 b hb

theorem u16Here_loc {s t : Slice} (h : AW s t) : s.u16Here = t.u16Here := by unfold u16Here; rw [h.bytes_eq]
theorem u32Here_loc {s t : Slice} (h : AW s t) : s.u32Here = t.u32Here := by unfold u32Here; rw [h.bytes_eq]
theorem u64Here_loc {s t : Slice} (h : AW s t) : s.u64Here = t.u64Here := by unfold u64Here; rw [h.bytes_eq]

/-- continuation form: a computation that first takes `s[a:]` and continues with a function that respects agreement -/
theorem fromR_bind_loc {β} {s t : Slice} (h : AW s t) (a : Nat) (f g : Slice → Res β)
    (hf : ∀ x y, AW x y → f x = g y) : (s.fromR a >>= f) = (t.fromR a >>= g) := by
  rcases fromR_loc h a with ⟨h1, h2⟩ | ⟨x, y, h1, h2, hxy⟩
  · rw [h1, h2]; rfl
  · rw [h1, h2]; exact hf x y hxy

theorem sliceR_bind_loc {β} {s t : Slice} (h : AW s t) (a b : Nat) (f g : Slice → Res β) (hb : b ≤ t.len)
    (hf : ∀ x y, AW x y → f x = g y) : (s.sliceR a b >>= f) = (t.sliceR a b >>= g) := by
  rcases sliceR_loc h a b hb with ⟨h1, h2⟩ | ⟨x, y, h1, h2, hxy⟩
  · rw [h1, h2]; rfl
  · rw [h1, h2]; exact hf x y hxy

theorem uptoR_bind_loc {β} {s t : Slice} (h : AW s t) (b : Nat) (f g : Slice → Res β) (hb : b ≤ t.len)
    (hf : ∀ x y, AW x y → f x = g y) : (s.uptoR b >>= f) = (t.uptoR b >>= g) :=
  sliceR_bind_loc h 0 b f g hb hf

theorem u16From_loc {s t : Slice} (h : AW s t) (n : Nat) : s.u16From n = t.u16From n := by
  unfold u16From; exact fromR_bind_loc h n _ _ (fun _ _ hxy => u16Here_loc hxy)
theorem u32From_loc {s t : Slice} (h : AW s t) (n : Nat) : s.u32From n = t.u32From n := by
  unfold u32From; exact fromR_bind_loc h n _ _ (fun _ _ hxy => u32Here_loc hxy)
theorem u64From_loc {s t : Slice} (h : AW s t) (n : Nat) : s.u64From n = t.u64From n := by
  unfold u64From; exact fromR_bind_loc h n _ _ (fun _ _ hxy => u64Here_loc hxy)

theorem u16In_loc {s t : Slice} (h : AW s t) (a b : Nat) (hb : b ≤ t.len) : s.u16In a b = t.u16In a b := by
  unfold u16In; exact sliceR_bind_loc h a b _ _ hb (fun _ _ hxy => u16Here_loc hxy)
theorem u32In_loc {s t : Slice} (h : AW s t) (a b : Nat) (hb : b ≤ t.len) : s.u32In a b = t.u32In a b := by
  unfold u32In; exact sliceR_bind_loc h a b _ _ hb (fun _ _ hxy => u32Here_loc hxy)
theorem u64In_loc {s t : Slice} (h : AW s t) (a b : Nat) (hb : b ≤ t.len) : s.u64In a b = t.u64In a b := by
  unfold u64In; exact sliceR_bind_loc h a b _ _ hb (fun _ _ hxy => u64Here_loc hxy)

end Slice

namespace Res
/-- lock-step descent into two `do` blocks -/
theorem bind_congr2 {α β} {x y : Res α} {f g : α → Res β} (hxy : x = y) (hf : ∀ a, f a = g a) :
    (x >>= f) = (y >>= g) := by
  subst hxy
  cases x <;> first | rfl | exact hf _
end Res

end OFV.Go

namespace OFV.Model
open OFV OFV.Go OFV.Go.Slice

/-- one lock-step move in the proof that a decoder gives the same result on the agreeing slices of `haw : AW s t` -/
syntax "loc_step " term : tactic
macro_rules
  | `(tactic| loc_step $haw) => `(tactic| first
    | (with_reducible rfl)
    | (apply Res.bind_congr2 (by with_reducible rfl); intro _)
    | (apply ite_congr (by with_reducible rfl) <;> intro _)
    | (apply Slice.fromR_bind_loc $haw; intro _ _ hxy;
       try simp only [Slice.AW.bytes_eq hxy, Slice.AW.len_eq hxy])
    | (apply Slice.sliceR_bind_loc $haw _ _ _ _ (by omega); intro _ _ hxy;
       try simp only [Slice.AW.bytes_eq hxy, Slice.AW.len_eq hxy])
    | (apply Slice.uptoR_bind_loc $haw _ _ _ (by omega); intro _ _ hxy;
       try simp only [Slice.AW.bytes_eq hxy, Slice.AW.len_eq hxy])
    | (simp (disch := omega) only [Slice.u16In_loc $haw, Slice.u32In_loc $haw, Slice.u64In_loc $haw]))

/-- the first, unconditional, normalisation: everything that Go checks against `len` reads the same on `s` and `t` -/
syntax "loc_norm " term : tactic
macro_rules
  | `(tactic| loc_norm $haw) => `(tactic|
    (try rw [Slice.AW.len_eq $haw]) <;>
    (try simp only [Slice.byteAt_loc $haw, Slice.index_loc $haw, Slice.u16From_loc $haw, Slice.u32From_loc $haw,
      Slice.u64From_loc $haw, UBuffer.unmarshal, Slice.AW.bytes_eq $haw]))

/-! ### leaf packet decoders -/

theorem UBuffer_loc (recv : V) {s t : Slice} (haw : AW s t) : UBuffer.unmarshal recv s = UBuffer.unmarshal recv t := by
  unfold UBuffer.unmarshal; rw [haw.bytes_eq]

theorem PICMP_loc (recv : V) {s t : Slice} (haw : AW s t) : PICMP.unmarshal recv s = PICMP.unmarshal recv t := by
  unfold PICMP.unmarshal
  loc_norm haw
  repeat loc_step haw

theorem PVLAN_loc (recv : V) {s t : Slice} (haw : AW s t) : PVLAN.unmarshal recv s = PVLAN.unmarshal recv t := by
  unfold PVLAN.unmarshal
  loc_norm haw
  repeat loc_step haw

theorem PTCP_loc (recv : V) {s t : Slice} (haw : AW s t) : PTCP.unmarshal recv s = PTCP.unmarshal recv t := by
  unfold PTCP.unmarshal
  loc_norm haw
  repeat loc_step haw

theorem PUDP_loc (recv : V) {s t : Slice} (haw : AW s t) : PUDP.unmarshal recv s = PUDP.unmarshal recv t := by
  unfold PUDP.unmarshal
  loc_norm haw
  repeat loc_step haw

theorem PFragment_loc (recv : V) {s t : Slice} (haw : AW s t) :
    PFragment.unmarshal recv s = PFragment.unmarshal recv t := by
  unfold PFragment.unmarshal
  loc_norm haw

theorem PIGMPv1or2_loc (recv : V) {s t : Slice} (haw : AW s t) :
    PIGMPv1or2.unmarshal recv s = PIGMPv1or2.unmarshal recv t := by
  unfold PIGMPv1or2.unmarshal
  loc_norm haw
  repeat loc_step haw

theorem PARP_loc (recv : V) {s t : Slice} (haw : AW s t) : PARP.unmarshal recv s = PARP.unmarshal recv t := by
  unfold PARP.unmarshal
  loc_norm haw
  repeat loc_step haw

theorem POption_loc (recv : V) {s t : Slice} (haw : AW s t) : POption.unmarshal recv s = POption.unmarshal recv t := by
  unfold POption.unmarshal
  loc_norm haw
  repeat loc_step haw

/-! ### IGMPv3 -/

theorem pReadIPs_loc {s t : Slice} (haw : AW s t) : ∀ (k n : Nat), n + 4 * k ≤ t.len → pReadIPs s n k = pReadIPs t n k := by
  intro k
  induction k with
  | zero => intro n _; rfl
  | succ k ih =>
    intro n hn
    unfold pReadIPs
    apply Slice.sliceR_bind_loc haw _ _ _ _ (by omega)
    intro x y hxy
    rw [ih (n + 4) (by omega), hxy.bytes_eq]

theorem pReadU32s_loc {s t : Slice} (haw : AW s t) : ∀ (k n : Nat), pReadU32s s n k = pReadU32s t n k := by
  intro k
  induction k with
  | zero => intro n; rfl
  | succ k ih =>
    intro n
    unfold pReadU32s
    rw [Slice.u32From_loc haw, ih (n + 4)]

theorem PIGMPv3Query_loc (recv : V) {s t : Slice} (haw : AW s t) :
    PIGMPv3Query.unmarshal recv s = PIGMPv3Query.unmarshal recv t := by
  unfold PIGMPv3Query.unmarshal
  loc_norm haw
  repeat loc_step haw
  rw [pReadIPs_loc haw _ _ (by omega)]

theorem PIGMPv3GroupRecord_loc (recv : V) {s t : Slice} (haw : AW s t) :
    PIGMPv3GroupRecord.unmarshal recv s = PIGMPv3GroupRecord.unmarshal recv t := by
  unfold PIGMPv3GroupRecord.unmarshal
  loc_norm haw
  repeat loc_step haw
  rw [pReadIPs_loc haw _ _ (by omega)]
  simp only [pReadU32s_loc haw]

theorem PIGMPv3_readRecs_loc {s t : Slice} (haw : AW s t) :
    ∀ (k n : Nat), PIGMPv3MembershipReport.readRecs s n k = PIGMPv3MembershipReport.readRecs t n k := by
  intro k
  induction k with
  | zero => intro n; rfl
  | succ k ih =>
    intro n
    unfold PIGMPv3MembershipReport.readRecs
    apply Slice.fromR_bind_loc haw
    intro x y hxy
    rw [PIGMPv3GroupRecord_loc _ hxy]
    simp only [ih]

theorem PIGMPv3MembershipReport_loc (recv : V) {s t : Slice} (haw : AW s t) :
    PIGMPv3MembershipReport.unmarshal recv s = PIGMPv3MembershipReport.unmarshal recv t := by
  unfold PIGMPv3MembershipReport.unmarshal
  loc_norm haw
  simp only [PIGMPv3_readRecs_loc haw]

/-! ### IPv6 extension headers -/

theorem PHopByHop_loc (recv : V) {s t : Slice} (haw : AW s t) :
    PHopByHop.unmarshal recv s = PHopByHop.unmarshal recv t := by
  unfold PHopByHop.unmarshal
  loc_norm haw
  repeat loc_step haw
  apply Res.bind_congr2 _ (fun _ => rfl)
  congr 1; funext st
  apply Slice.fromR_bind_loc haw; intro x y hxy
  rw [POption_loc _ hxy]

theorem routing_len_toNat (h : Gen.protocol.RoutingHeader) :
    (Gen.protocol.RoutingHeader.Len h).toNat = 8 * (h.HEL.toNat + 1) := by
  unfold Gen.protocol.RoutingHeader.Len
  have := h.HEL.toNat_lt
  simp [UInt16.toNat_add, UInt16.toNat_mul]; omega

theorem PRouting_loc (recv : V) {s t : Slice} (haw : AW s t) :
    PRouting.unmarshal recv s = PRouting.unmarshal recv t := by
  unfold PRouting.unmarshal
  loc_norm haw
  repeat loc_step haw
  rename_i b0 hel _ b2 b3
  have hl := routing_len_toNat { NextHeader := b0, HEL := hel, RoutingType := b2, SegmentsLeft := b3 }
  simp only at hl
  repeat loc_step haw

/-! ### containers -/

theorem ihl4_toNat (b : UInt8) : (PIPv4.unpackIHL b * 4).toNat = (PIPv4.unpackIHL b).toNat * 4 := by
  have : (PIPv4.unpackIHL b).toNat < 16 := by
    unfold PIPv4.unpackIHL
    rw [UInt8.toNat_and]
    exact Nat.lt_of_le_of_lt Nat.and_le_right (by decide)
  rw [UInt8.toNat_mul]
  simp; omega

theorem PIPv4_loc (recv : V) {s t : Slice} (haw : AW s t) : PIPv4.unmarshal recv s = PIPv4.unmarshal recv t := by
  unfold PIPv4.unmarshal
  loc_norm haw
  repeat loc_step haw
  rename_i b0 _ _ _ _ _ _ _ _ _ _ _ _ _ hc
  have h4 := ihl4_toNat b0
  simp only [Bool.or_eq_true, decide_eq_true_eq, not_or, Nat.not_lt] at hc
  repeat' (first | loc_step haw | simp only [PICMP_loc _ ‹AW _ _›] | simp only [PUDP_loc _ ‹AW _ _›])

theorem PIPv6_xstep_loc {s t : Slice} (haw : AW s t) (st : PIPv6.XSt) : PIPv6.xstep s st = PIPv6.xstep t st := by
  unfold PIPv6.xstep
  repeat' first
    | loc_step haw
    | simp only [PHopByHop_loc _ ‹AW _ _›]
    | simp only [PRouting_loc _ ‹AW _ _›]
    | simp only [PFragment_loc _ ‹AW _ _›]

theorem PIPv6_xloop_loc {s t : Slice} (haw : AW s t) : ∀ (f : Nat) (st : PIPv6.XSt), PIPv6.xloop s f st = PIPv6.xloop t f st := by
  intro f
  induction f with
  | zero => intro st; rfl
  | succ f ih =>
    intro st
    unfold PIPv6.xloop
    rw [PIPv6_xstep_loc haw]
    simp only [ih]

theorem PIPv6_loc (recv : V) {s t : Slice} (haw : AW s t) : PIPv6.unmarshal recv s = PIPv6.unmarshal recv t := by
  unfold PIPv6.unmarshal
  loc_norm haw
  simp only [PIPv6_xloop_loc haw]
  repeat' (first | loc_step haw | simp only [PICMP_loc _ ‹AW _ _›] | simp only [PUDP_loc _ ‹AW _ _›])

theorem PEthernet_loc (recv : V) {s t : Slice} (haw : AW s t) :
    PEthernet.unmarshal recv s = PEthernet.unmarshal recv t := by
  unfold PEthernet.unmarshal
  loc_norm haw
  repeat' first
    | loc_step haw
    | simp only [PVLAN_loc _ ‹AW _ _›]
    | simp only [PIPv4_loc _ ‹AW _ _›]
    | simp only [PIPv6_loc _ ‹AW _ _›]
    | simp only [PARP_loc _ ‹AW _ _›]

/-- DHCPParseOptions: the option window `in[pos:pos+len]` is checked against `len(in)` first -/
theorem PDhcpOpt_parseOptions_loc {s t : Slice} (haw : AW s t) : PDhcpOpt.parseOptions s = PDhcpOpt.parseOptions t := by
  unfold PDhcpOpt.parseOptions
  loc_norm haw
  apply Res.bind_congr2 _ (fun _ => rfl)
  congr 1; funext st
  repeat' loc_step haw

/-! ### the statements in the form `WF`, `WF`, `Agree` -/

theorem UBuffer_local (recv : V) (s t : Slice) (hs : s.WF) (ht : t.WF) (h : s.Agree t) :
    UBuffer.unmarshal recv s = UBuffer.unmarshal recv t := UBuffer_loc recv ⟨hs, ht, h⟩
theorem PVLAN_local (recv : V) (s t : Slice) (hs : s.WF) (ht : t.WF) (h : s.Agree t) :
    PVLAN.unmarshal recv s = PVLAN.unmarshal recv t := PVLAN_loc recv ⟨hs, ht, h⟩
theorem PARP_local (recv : V) (s t : Slice) (hs : s.WF) (ht : t.WF) (h : s.Agree t) :
    PARP.unmarshal recv s = PARP.unmarshal recv t := PARP_loc recv ⟨hs, ht, h⟩
theorem PICMP_local (recv : V) (s t : Slice) (hs : s.WF) (ht : t.WF) (h : s.Agree t) :
    PICMP.unmarshal recv s = PICMP.unmarshal recv t := PICMP_loc recv ⟨hs, ht, h⟩
theorem PTCP_local (recv : V) (s t : Slice) (hs : s.WF) (ht : t.WF) (h : s.Agree t) :
    PTCP.unmarshal recv s = PTCP.unmarshal recv t := PTCP_loc recv ⟨hs, ht, h⟩
theorem PUDP_local (recv : V) (s t : Slice) (hs : s.WF) (ht : t.WF) (h : s.Agree t) :
    PUDP.unmarshal recv s = PUDP.unmarshal recv t := PUDP_loc recv ⟨hs, ht, h⟩
theorem PIGMPv1or2_local (recv : V) (s t : Slice) (hs : s.WF) (ht : t.WF) (h : s.Agree t) :
    PIGMPv1or2.unmarshal recv s = PIGMPv1or2.unmarshal recv t := PIGMPv1or2_loc recv ⟨hs, ht, h⟩
theorem PIGMPv3Query_local (recv : V) (s t : Slice) (hs : s.WF) (ht : t.WF) (h : s.Agree t) :
    PIGMPv3Query.unmarshal recv s = PIGMPv3Query.unmarshal recv t := PIGMPv3Query_loc recv ⟨hs, ht, h⟩
theorem PIGMPv3GroupRecord_local (recv : V) (s t : Slice) (hs : s.WF) (ht : t.WF) (h : s.Agree t) :
    PIGMPv3GroupRecord.unmarshal recv s = PIGMPv3GroupRecord.unmarshal recv t := PIGMPv3GroupRecord_loc recv ⟨hs, ht, h⟩
theorem PIGMPv3MembershipReport_local (recv : V) (s t : Slice) (hs : s.WF) (ht : t.WF) (h : s.Agree t) :
    PIGMPv3MembershipReport.unmarshal recv s = PIGMPv3MembershipReport.unmarshal recv t :=
  PIGMPv3MembershipReport_loc recv ⟨hs, ht, h⟩
theorem POption_local (recv : V) (s t : Slice) (hs : s.WF) (ht : t.WF) (h : s.Agree t) :
    POption.unmarshal recv s = POption.unmarshal recv t := POption_loc recv ⟨hs, ht, h⟩
theorem PHopByHop_local (recv : V) (s t : Slice) (hs : s.WF) (ht : t.WF) (h : s.Agree t) :
    PHopByHop.unmarshal recv s = PHopByHop.unmarshal recv t := PHopByHop_loc recv ⟨hs, ht, h⟩
theorem PRouting_local (recv : V) (s t : Slice) (hs : s.WF) (ht : t.WF) (h : s.Agree t) :
    PRouting.unmarshal recv s = PRouting.unmarshal recv t := PRouting_loc recv ⟨hs, ht, h⟩
theorem PFragment_local (recv : V) (s t : Slice) (hs : s.WF) (ht : t.WF) (h : s.Agree t) :
    PFragment.unmarshal recv s = PFragment.unmarshal recv t := PFragment_loc recv ⟨hs, ht, h⟩
theorem PIPv4_local (recv : V) (s t : Slice) (hs : s.WF) (ht : t.WF) (h : s.Agree t) :
    PIPv4.unmarshal recv s = PIPv4.unmarshal recv t := PIPv4_loc recv ⟨hs, ht, h⟩
theorem PIPv6_local (recv : V) (s t : Slice) (hs : s.WF) (ht : t.WF) (h : s.Agree t) :
    PIPv6.unmarshal recv s = PIPv6.unmarshal recv t := PIPv6_loc recv ⟨hs, ht, h⟩
theorem PEthernet_local (recv : V) (s t : Slice) (hs : s.WF) (ht : t.WF) (h : s.Agree t) :
    PEthernet.unmarshal recv s = PEthernet.unmarshal recv t := PEthernet_loc recv ⟨hs, ht, h⟩
theorem PDhcpOpt_parseOptions_local (s t : Slice) (hs : s.WF) (ht : t.WF) (h : s.Agree t) :
    PDhcpOpt.parseOptions s = PDhcpOpt.parseOptions t := PDhcpOpt_parseOptions_loc ⟨hs, ht, h⟩

end OFV.Model
