/-
  OFV.Lemmas.ElemWire — vocabulary and helper lemmas for C02b: what a receiver reads at the type / length / vendor /
  subtype offsets of an element (`TLV`, `NXw`), the stored headers of action / instruction values (`ahdr`, `nxhdr`,
  `ihdr`), the two header encoders inverted, and the cores shared by the per-kind theorems.
-/
import OFV.Model.All
import OFV.Lemmas.Size
import OFV.Lemmas.SizeTac
import OFV.Lemmas.SizeList
import OFV.Lemmas.SizeInstr
import OFV.Lemmas.BeAt
import OFV.Lemmas.ElemFill
namespace OFV.Elem
open OFV OFV.Go OFV.Model OFV.Spec

/-! ### vocabulary -/

/-- what a receiver reads at the start of an action / instruction / hello element: type(2) length(2), and the declared
    length is the number of bytes the element occupies -/
structure TLV (code : Nat) (bs : Bytes) : Prop where
  code_ok : beAt bs 0 2 = code
  len_ok : beAt bs 2 2 = bs.length

/-- an experimenter action on the wire: type(2) length(2) vendor(4) subtype(2); the declared length is the number of
    bytes the action occupies -/
structure NXw (ty vendor sub : Nat) (bs : Bytes) : Prop where
  code_ok : beAt bs 0 2 = ty
  len_ok : beAt bs 2 2 = bs.length
  vendor_ok : beAt bs 4 4 = vendor
  sub_ok : beAt bs 8 2 = sub

/-- a Nicira extension action: type 0xffff (OFPAT_EXPERIMENTER), vendor 0x2320 (NX_VENDOR_ID) -/
abbrev NX (sub : Nat) (bs : Bytes) : Prop := NXw 0xffff 0x2320 sub bs

/-- the (type, length) stored in the embedded ActionHeader of a plain action value -/
def ahdr : V → Option (Nat × Nat)
  | .obj _ (.obj "ActionHeader" [.num ty, .num ln] :: _) => some (ty, ln)
  | _ => none

/-- the (type, length, vendor, subtype) stored in the embedded NXActionHeader of a Nicira action value -/
def nxhdr : V → Option (Nat × Nat × Nat × Nat)
  | .obj _ (.obj "NXActionHeader" [.obj "ActionHeader" [.num ty, .num ln], .num vendor, .num sub] :: _) =>
    some (ty, ln, vendor, sub)
  | _ => none

/-- the (type, length) stored in the embedded InstrHeader of an instruction value -/
def ihdr : V → Option (Nat × Nat)
  | .obj _ (.obj "InstrHeader" [.num ty, .num ln] :: _) => some (ty, ln)
  | _ => none

/-- all bytes are zero -/
def AllZero (bs : Bytes) : Prop := ∀ b ∈ bs, b = 0

theorem allZero_zeros (n : Nat) : AllZero (zeros n) := by
  intro b hb; simp [zeros] at hb; exact hb.2

/-! ### helpers: the two header encoders, inverted -/

theorem tlv_of_head (t l : UInt16) (bs rest : Bytes) (e : bs = be16 t ++ be16 l ++ rest) :
    beAt bs 0 2 = t.toNat ∧ beAt bs 2 2 = l.toNat := by
  subst e; exact ⟨beAt_tl_type t l rest, beAt_tl_len t l rest⟩

theorem actionHeader_bytes_inv (h : V) (hb : Bytes) (e : ActionHeader.bytes h = .ok hb) :
    ∃ ty ln, h = .obj "ActionHeader" [.num ty, .num ln] ∧ hb = be16 (n16 ty) ++ be16 (n16 ln) := by
  unfold ActionHeader.bytes at e
  split at e
  · cases e; exact ⟨_, _, rfl, rfl⟩
  · exact absurd e (by simp)

theorem instrHeader_bytes_inv (h : V) (hb : Bytes) (e : InstrHeader.bytes h = .ok hb) :
    ∃ ty ln, h = .obj "InstrHeader" [.num ty, .num ln] ∧ hb = be16 (n16 ty) ++ be16 (n16 ln) := by
  unfold InstrHeader.bytes at e
  split at e
  · cases e; exact ⟨_, _, rfl, rfl⟩
  · exact absurd e (by simp)

theorem nxHeader_bytes_inv (h : V) (hb : Bytes) (e : NXActionHeader.bytes h = .ok hb) :
    ∃ ty ln vd sb, h = .obj "NXActionHeader" [.obj "ActionHeader" [.num ty, .num ln], .num vd, .num sb] ∧
      hb = be16 (n16 ty) ++ be16 (n16 ln) ++ be32 (n32 vd) ++ be16 (n16 sb) := by
  unfold NXActionHeader.bytes at e
  split at e
  · obtain ⟨ab, hab, e⟩ := bind_ok_inv _ _ _ e
    obtain ⟨ty, ln, rfl, rfl⟩ := actionHeader_bytes_inv _ _ hab
    refine ⟨ty, ln, _, _, rfl, ?_⟩
    have := fill_all _ _ _ (by intro p hp; simp only [List.mem_cons, List.mem_nil_iff, or_false] at hp
                               rcases hp with rfl | rfl | rfl <;> simp [pCopy, pU32, pU16, Piece.Tight])
      (by simp [piecesLen, pCopy, pU32, pU16, Piece.adv, Gen.openflow13.NxActionHeaderLength]) e
    rw [this]
    simp [piecesBytes, piecesLen, pCopy, pU32, pU16, Piece.bytes, Piece.adv, Gen.openflow13.NxActionHeaderLength, zeros]
  · exact absurd e (by simp)

/-- plain action whose encoder is `header bytes ++ fixed tail`: stored (type, length) on the wire -/
theorem plain_wire_core (h : V) (hb tail bs : Bytes) (k : String) (r : List V) (ty ln : Nat)
    (hhb : ActionHeader.bytes h = .ok hb) (e : bs = hb ++ tail) (ha : ahdr (.obj k (h :: r)) = some (ty, ln)) :
    beAt bs 0 2 = ty % 65536 ∧ beAt bs 2 2 = ln % 65536 := by
  obtain ⟨ty', ln', rfl, rfl⟩ := actionHeader_bytes_inv _ _ hhb
  simp only [ahdr, Option.some.injEq, Prod.mk.injEq] at ha
  obtain ⟨rfl, rfl⟩ := ha
  obtain ⟨a, b⟩ := tlv_of_head _ _ _ _ e
  exact ⟨by rw [a, n16_toNat'], by rw [b, n16_toNat']⟩

/-- (a)+(c) for a plain action from its `…_wire` facts -/
theorem tlv_of_wire (code N : Nat) (bs : Bytes) (hl : bs.length = N) (h0 : beAt bs 0 2 = code % 65536)
    (h2 : beAt bs 2 2 = N % 65536) (hc : code < 65536) (hN : N < 65536) : TLV code bs :=
  ⟨by rw [h0]; omega, by rw [h2, hl]; omega⟩

theorem nxhdr_inv (k : String) (h : V) (r : List V) (ty ln vd sb : Nat)
    (hn : nxhdr (.obj k (h :: r)) = some (ty, ln, vd, sb)) :
    h = .obj "NXActionHeader" [.obj "ActionHeader" [.num ty, .num ln], .num vd, .num sb] := by
  unfold nxhdr at hn
  split at hn
  · rename_i heq
    cases heq
    cases hn
    rfl
  · exact absurd hn (by simp)

theorem nxHeader_bytes_eq (ty ln vd sb : Nat) :
    NXActionHeader.bytes (.obj "NXActionHeader" [.obj "ActionHeader" [.num ty, .num ln], .num vd, .num sb]) =
      .ok (be16 (n16 ty) ++ be16 (n16 ln) ++ be32 (n32 vd) ++ be16 (n16 sb)) := by
  simp only [NXActionHeader.bytes, ActionHeader.bytes, Res.bind_ok]
  rw [fill_exact _ _ (by intro p hp; simp only [List.mem_cons, List.mem_nil_iff, or_false] at hp
                         rcases hp with rfl | rfl | rfl <;> simp [pCopy, pU32, pU16, Piece.Tight])
      (by simp [piecesLen, pCopy, pU32, pU16, Piece.adv, Gen.openflow13.NxActionHeaderLength])]
  simp [piecesBytes, piecesLen, pCopy, pU32, pU16, Piece.bytes, Piece.adv, Gen.openflow13.NxActionHeaderLength, zeros]

/-- an encoding that starts with the 10 Nicira header bytes and is as long as the length word says -/
theorem nxw_of_head (ty vd sb : Nat) (l : UInt16) (bs rest : Bytes)
    (e : bs = be16 (n16 ty) ++ be16 l ++ be32 (n32 vd) ++ be16 (n16 sb) ++ rest) (hl : bs.length = l.toNat) :
    NXw (ty % 65536) (vd % 4294967296) (sb % 65536) bs := by
  refine ⟨?_, ?_, ?_, ?_⟩
  · rw [e, beAt_nx_type, n16_toNat']
  · rw [hl, e, beAt_nx_len]
  · rw [e, beAt_nx_vendor, n32_toNat']
  · rw [e, beAt_nx_sub, n16_toNat']

/-- the encoders that allocate `make([]byte, a.Length)` from the STORED length and copy the header first -/
theorem nx_stored_core (k : String) (h : V) (r : List V) (rest : List Piece) (l : UInt16) (hb bs : Bytes)
    (ty ln vd sb : Nat) (hn : nxhdr (.obj k (h :: r)) = some (ty, ln, vd, sb))
    (hl : NXActionHeader.length h = .ok l) (hhb : NXActionHeader.bytes h = .ok hb)
    (hf : fill l.toNat (pCopy hb :: rest) = .ok bs) :
    bs.length = ln % 65536 ∧ (10 ≤ bs.length → NXw (ty % 65536) (vd % 4294967296) (sb % 65536) bs) := by
  have e := nxhdr_inv _ _ _ _ _ _ _ hn
  subst e
  rw [nxHeader_bytes_eq] at hhb
  cases hhb
  simp only [NXActionHeader.length, ActionHeader.length] at hl
  cases hl
  have hlen := fill_length _ _ _ hf
  refine ⟨by rw [hlen, n16_toNat'], fun h10 => ?_⟩
  have hh := fill_head _ _ _ _ (by simp; omega) hf
  exact nxw_of_head ty vd sb (n16 ln) bs _ hh hlen

/-- from the explicit well-formedness predicate to the specification's constants -/
theorem nx_of_nxw (sub : Nat) (hs : sub < 65536) (bs : Bytes)
    (h : NXw (Gen.openflow13.ActionType_Experimenter % 65536) (Gen.openflow13.NxExperimenterID % 4294967296) (sub % 65536) bs) :
    NX sub bs := by
  have e : sub % 65536 = sub := Nat.mod_eq_of_lt hs
  rw [e] at h
  exact h

macro "nx_stored" m:ident h:ident hn:ident : tactic => `(tactic| (
  unfold $m at $h:ident
  split at $h:ident
  · obtain ⟨l, hl, $h:ident⟩ := bind_ok_inv _ _ _ $h:ident
    obtain ⟨hb, hhb, $h:ident⟩ := bind_ok_inv _ _ _ $h:ident
    first
      | (obtain ⟨hw, _, $h:ident⟩ := bind_ok_inv _ _ _ $h:ident
         obtain ⟨hw2, _, $h:ident⟩ := bind_ok_inv _ _ _ $h:ident
         obtain ⟨out, hf, $h:ident⟩ := bind_ok_inv _ _ _ $h:ident
         obtain ⟨e, _⟩ := same_ok _ _ _ _ $h:ident
         subst e
         exact nx_stored_core _ _ _ _ _ _ _ _ _ _ _ $hn:ident hl hhb hf)
      | (obtain ⟨hw, _, $h:ident⟩ := bind_ok_inv _ _ _ $h:ident
         obtain ⟨out, hf, $h:ident⟩ := bind_ok_inv _ _ _ $h:ident
         obtain ⟨e, _⟩ := same_ok _ _ _ _ $h:ident
         subst e
         exact nx_stored_core _ _ _ _ _ _ _ _ _ _ _ $hn:ident hl hhb hf)
      | (obtain ⟨out, hf, $h:ident⟩ := bind_ok_inv _ _ _ $h:ident
         obtain ⟨e, _⟩ := same_ok _ _ _ _ $h:ident
         subst e
         exact nx_stored_core _ _ _ _ _ _ _ _ _ _ _ $hn:ident hl hhb hf)
      | (obtain ⟨out, hf, $h:ident⟩ := bind_ok_inv _ _ _ $h:ident
         cases $h:ident
         exact nx_stored_core _ _ _ _ _ _ _ _ _ _ _ $hn:ident hl hhb hf)
  · exact absurd $h:ident (by simp)))

/-- well-formed stored header (type 0xffff, vendor 0x2320, subtype `sub`, length `ln` a multiple of 8 that holds the
    header) + the `…_wire` facts ⇒ (a) declared = occupied = `ln`, (b) aligned, (c) Nicira codes -/
theorem nx_ok_of_wire (sub ln : Nat) (bs : Bytes) (hs : sub < 65536) (h8 : ln % 8 = 0) (h10 : 10 ≤ ln) (hlt : ln < 65536)
    (hw : bs.length = ln % 65536 ∧ (10 ≤ bs.length →
      NXw (Gen.openflow13.ActionType_Experimenter % 65536) (Gen.openflow13.NxExperimenterID % 4294967296) (sub % 65536) bs)) :
    NX sub bs ∧ bs.length = ln ∧ bs.length % 8 = 0 := by
  obtain ⟨a, b⟩ := hw
  have e : bs.length = ln := by rw [a]; exact Nat.mod_eq_of_lt hlt
  exact ⟨nx_of_nxw sub hs bs (b (by omega)), e, by omega⟩

/-- header rewritten with the computed length `l`, buffer of `l` bytes: the declared length is the buffer size -/
theorem nx_set_core (k : String) (h : V) (r : List V) (rest : List Piece) (l : UInt16) (h' : V) (hb bs : Bytes)
    (ty ln vd sb : Nat) (hn : nxhdr (.obj k (h :: r)) = some (ty, ln, vd, sb))
    (hs : NXActionHeader.setLength l h = .ok h') (hhb : NXActionHeader.bytes h' = .ok hb)
    (hf : fill l.toNat (pCopy hb :: rest) = .ok bs) :
    bs.length = l.toNat ∧ (10 ≤ bs.length → NXw (ty % 65536) (vd % 4294967296) (sb % 65536) bs) := by
  have e := nxhdr_inv _ _ _ _ _ _ _ hn
  subst e
  simp only [NXActionHeader.setLength, ActionHeader.setLength, Res.bind_ok, Res.pure_eq, V.u16] at hs
  cases hs
  rw [nxHeader_bytes_eq] at hhb
  cases hhb
  have hlen := fill_length _ _ _ hf
  refine ⟨hlen, fun h10 => ?_⟩
  have hh := fill_head _ _ _ _ (by simp; omega) hf
  rw [n16_of_toNat] at hh
  exact nxw_of_head ty vd sb l bs _ hh hlen

/-- the nested-action loop of NXActionConnTrack only writes at or above its running offset -/
theorem marshalActs_take (sub : V → R (Bytes × V)) : ∀ (acts : List V) (buf : Bytes) (n : Nat) (buf' : Bytes) (acts' : List V),
    NXActionConnTrack.marshalActs sub acts buf n = .ok (buf', acts') → ∀ m, m ≤ n → buf'.take m = buf.take m := by
  intro acts
  induction acts with
  | nil =>
    intro buf n buf' acts' h m _
    simp only [NXActionConnTrack.marshalActs] at h
    cases h; rfl
  | cons a as ih =>
    intro buf n buf' acts' h m hm
    simp only [NXActionConnTrack.marshalActs] at h
    obtain ⟨⟨ab, a'⟩, _, h⟩ := bind_ok_inv _ _ _ h
    obtain ⟨b1, hb1, h⟩ := bind_ok_inv _ _ _ h
    obtain ⟨⟨b2, as'⟩, hb2, h⟩ := bind_ok_inv _ _ _ h
    cases h
    rw [ih _ _ _ _ hb2 m (by omega)]
    exact fillFrom_take _ _ _ _ hb1 m hm

/-! ### lists of children -/

/-- exact sizes through a Len() loop followed by a MarshalBinary() loop over the children it left behind -/
theorem mapM2_lengths (g : V → R (UInt16 × V)) (f : V → R (Bytes × V)) :
    ∀ (xs : List V) (ls : List UInt16) (ys : List V) (bss : List Bytes) (zs : List V),
    mapM2 g xs = .ok (ls, ys) → mapM2 f ys = .ok (bss, zs) →
    (∀ x ∈ xs, ∀ l y b z, g x = .ok (l, y) → f y = .ok (b, z) → b.length = l.toNat) →
    bss.map List.length = ls.map UInt16.toNat := by
  intro xs
  induction xs with
  | nil =>
    intro ls ys bss zs h1 h2 _
    simp [mapM2] at h1; obtain ⟨rfl, rfl⟩ := h1
    simp [mapM2] at h2; obtain ⟨rfl, rfl⟩ := h2
    rfl
  | cons x xs ih =>
    intro ls ys bss zs h1 h2 hp
    obtain ⟨l, y, ls', ys', e1, e2, rfl, rfl⟩ := mapM2_cons_ok _ _ _ _ _ h1
    obtain ⟨b, z, bss', zs', e3, e4, rfl, rfl⟩ := mapM2_cons_ok _ _ _ _ _ h2
    have hx := hp x (by simp) l y b z e1 e3
    have ih' := ih ls' ys' bss' zs' e2 e4 (fun w hw => hp w (by simp [hw]))
    simp [hx, ih']

/-- a property of every result of a MarshalBinary() loop from a property of each child's encoding -/
theorem mapM2_forall_bytes (f : V → R (Bytes × V)) (P : Bytes → Prop) : ∀ (xs : List V) (bss : List Bytes) (ys : List V),
    mapM2 f xs = .ok (bss, ys) → (∀ x ∈ xs, ∀ b y, f x = .ok (b, y) → P b) → ∀ b ∈ bss, P b := by
  intro xs
  induction xs with
  | nil => intro bss ys h _; simp [mapM2] at h; obtain ⟨rfl, _⟩ := h; simp
  | cons x xs ih =>
    intro bss ys h hp
    obtain ⟨b, y, bss', ys', e1, e2, rfl, rfl⟩ := mapM2_cons_ok _ _ _ _ _ h
    intro c hc
    simp only [List.mem_cons] at hc
    rcases hc with rfl | hc
    · exact hp x (by simp) _ _ e1
    · exact ih bss' ys' e2 (fun w hw => hp w (by simp [hw])) c hc

theorem pieces_copy_tight (bss : List Bytes) : ∀ p ∈ bss.map pCopy, p.Tight := by
  intro p hp
  simp only [List.mem_map] at hp
  obtain ⟨b, _, rfl⟩ := hp
  simp [pCopy, Piece.Tight]

theorem piecesLen_copy (bss : List Bytes) : piecesLen (bss.map pCopy) = (bss.map List.length).sum := by
  induction bss with
  | nil => rfl
  | cons b bs ih => simp only [piecesLen, List.map_cons, List.sum_cons] at ih ⊢; rw [ih]; rfl

theorem piecesBytes_copy (bss : List Bytes) : piecesBytes (bss.map pCopy) = bss.flatten := by
  induction bss with
  | nil => rfl
  | cons b bs ih => simp only [piecesBytes, List.map_cons, List.flatten_cons] at ih ⊢; rw [ih]; rfl

theorem piecesLen_cons (p : Piece) (ps : List Piece) : piecesLen (p :: ps) = p.adv + piecesLen ps := by
  simp [piecesLen]
theorem piecesBytes_cons (p : Piece) (ps : List Piece) : piecesBytes (p :: ps) = p.bytes ++ piecesBytes ps := by
  simp [piecesBytes]

theorem sum_toNat_of_sum16 (ls : List UInt16) (h : (ls.map UInt16.toNat).sum < 65536) :
    (sum16 ls).toNat = (ls.map UInt16.toNat).sum := sum16_toNat ls h

/-- pointwise Len() results, as a loop -/
theorem mapM2_of_pointwise (g : V → R (UInt16 × V)) (hpure : ∀ x l y, g x = .ok (l, y) → y = x) :
    ∀ (fs : List V) (ls : List UInt16), ls.length = fs.length →
      (∀ i, (h : i < fs.length) → ∃ f', g fs[i] = .ok (ls[i]?.getD 0, f')) → mapM2 g fs = .ok (ls, fs) := by
  intro fs
  induction fs with
  | nil =>
    intro ls hl _
    have : ls = [] := by cases ls with
      | nil => rfl
      | cons a as => simp at hl
    subst this; rfl
  | cons f fs ih =>
    intro ls hl hall
    cases ls with
    | nil => simp at hl
    | cons l ls =>
      obtain ⟨f', h0⟩ := hall 0 (by simp)
      simp only [List.getElem_cons_zero, List.getElem?_cons_zero, Option.getD_some] at h0
      have e := hpure _ _ _ h0
      subst e
      have ih' := ih ls (by simpa using hl) (fun i hi => by
        obtain ⟨g', hg⟩ := hall (i + 1) (by simp; omega)
        simp only [List.getElem_cons_succ, List.getElem?_cons_succ] at hg
        exact ⟨g', hg⟩)
      exact mapM2_cons_of_ok _ _ _ _ _ _ _ h0 ih'

/-- every result of a MarshalBinary() loop is the encoding of one of the children -/
theorem mapM2_mem_bytes (f : V → R (Bytes × V)) : ∀ (xs : List V) (bss : List Bytes) (ys : List V),
    mapM2 f xs = .ok (bss, ys) → ∀ b ∈ bss, ∃ x ∈ xs, ∃ y, f x = .ok (b, y) := by
  intro xs
  induction xs with
  | nil => intro bss ys h; simp [mapM2] at h; obtain ⟨rfl, _⟩ := h; simp
  | cons x xs ih =>
    intro bss ys h
    obtain ⟨b, y, bss', ys', e1, e2, rfl, rfl⟩ := mapM2_cons_ok _ _ _ _ _ h
    intro c hc
    simp only [List.mem_cons] at hc
    rcases hc with rfl | hc
    · exact ⟨x, by simp, y, e1⟩
    · obtain ⟨w, hw, z, hz⟩ := ih bss' ys' e2 c hc
      exact ⟨w, by simp [hw], z, hz⟩

theorem length_le_flatten (bss : List Bytes) (b : Bytes) (hb : b ∈ bss) : b.length ≤ bss.flatten.length := by
  induction bss with
  | nil => simp at hb
  | cons c cs ih =>
    simp only [List.mem_cons] at hb
    simp only [List.flatten_cons, List.length_append]
    rcases hb with rfl | hb
    · omega
    · have := ih hb; omega

/-! ### the nested-action loop of NXActionConnTrack -/

/-- the loop encodes every nested action exactly once, in order -/
theorem marshalActs_mapM2 (sub : V → R (Bytes × V)) : ∀ (acts : List V) (buf : Bytes) (n : Nat) (buf' : Bytes) (acts' : List V),
    NXActionConnTrack.marshalActs sub acts buf n = .ok (buf', acts') → ∃ bss, mapM2 sub acts = .ok (bss, acts') := by
  intro acts
  induction acts with
  | nil =>
    intro buf n buf' acts' h
    simp only [NXActionConnTrack.marshalActs] at h
    cases h; exact ⟨[], rfl⟩
  | cons a as ih =>
    intro buf n buf' acts' h
    simp only [NXActionConnTrack.marshalActs] at h
    obtain ⟨⟨ab, a'⟩, ha, h1⟩ := bind_ok_inv _ _ _ h
    obtain ⟨b1, _, h2⟩ := bind_ok_inv _ _ _ h1
    obtain ⟨⟨b2, as'⟩, hb2, h3⟩ := bind_ok_inv _ _ _ h2
    obtain ⟨bss, hm⟩ := ih _ _ _ _ hb2
    have e : acts' = a' :: as' := by cases h3; rfl
    subst e
    exact ⟨ab :: bss, mapM2_cons_of_ok _ _ _ _ _ _ _ ha hm⟩

/-- when the encodings fit into the zeroed rest of the buffer, the loop leaves them there one after the other -/
theorem marshalActs_exact (sub : V → R (Bytes × V)) : ∀ (acts : List V) (pre : Bytes) (k : Nat) (buf' : Bytes) (acts' : List V)
    (bss : List Bytes), NXActionConnTrack.marshalActs sub acts (pre ++ zeros k) pre.length = .ok (buf', acts') →
    mapM2 sub acts = .ok (bss, acts') → bss.flatten.length ≤ k →
    buf' = pre ++ bss.flatten ++ zeros (k - bss.flatten.length) := by
  intro acts
  induction acts with
  | nil =>
    intro pre k buf' acts' bss h hm _
    simp only [NXActionConnTrack.marshalActs] at h
    simp [mapM2] at hm
    obtain ⟨rfl, _⟩ := hm
    cases h
    simp
  | cons a as ih =>
    intro pre k buf' acts' bss h hm hfit
    obtain ⟨b, a', bss', as', e1, e2, rfl, rfl⟩ := mapM2_cons_ok _ _ _ _ _ hm
    simp only [NXActionConnTrack.marshalActs, e1, Res.bind_ok] at h
    simp only [List.flatten_cons, List.length_append] at hfit
    have hx : fillFrom (pre ++ zeros k) pre.length [pCopy b] = .ok (pre ++ b ++ zeros (k - b.length)) := by
      have := fillFrom_exact pre [pCopy b] k (by intro p hp; simp [pCopy] at hp; subst hp; trivial)
        (by simp [piecesLen, pCopy, Piece.adv]; omega)
      simpa [piecesBytes, piecesLen, pCopy, Piece.bytes, Piece.adv] using this
    rw [hx] at h
    simp only [Res.bind_ok] at h
    obtain ⟨⟨b2, as2⟩, hb2, h3⟩ := bind_ok_inv _ _ _ h
    have e : buf' = b2 ∧ as' = as2 := by
      simp only [Res.pure_eq, Res.ok.injEq, Prod.mk.injEq, List.cons.injEq, true_and] at h3
      exact ⟨h3.1.symm, h3.2.symm⟩
    obtain ⟨rfl, rfl⟩ := e
    have hl : (pre ++ b).length = pre.length + b.length := by simp
    rw [← hl] at hb2
    have := ih (pre ++ b) (k - b.length) buf' as' bss' hb2 e2 (by omega)
    rw [this]
    simp only [List.flatten_cons, List.append_assoc, List.length_append, Nat.sub_sub]

/-! ### hello elements: the version bitmaps on the wire -/

/-- the version bitmaps of a hello element on the wire: 32 bits each, big-endian, in list order -/
def bitmapBytes (bms : List V) : Bytes := (bms.map (fun b => be32 (n32 b.asNat))).flatten

theorem bitmapBytes_length (bms : List V) : (bitmapBytes bms).length = 4 * bms.length := by
  induction bms with
  | nil => rfl
  | cons b r ih =>
    have : bitmapBytes (b :: r) = be32 (n32 b.asNat) ++ bitmapBytes r := rfl
    rw [this, List.length_append, ih, be32_length, List.length_cons]; omega

/-- the pieces `HelloElemVersionBitmap.MarshalBinary` writes after the header: 4 bytes per bitmap, exactly `bitmapBytes` -/
theorem bitmapPieces (bms : List V) :
    piecesLen (bms.map (fun b => pU32 b.asNat)) = 4 * bms.length ∧
    piecesBytes (bms.map (fun b => pU32 b.asNat)) = bitmapBytes bms ∧
    ∀ p ∈ bms.map (fun b => pU32 b.asNat), p.Tight := by
  induction bms with
  | nil => exact ⟨rfl, rfl, by intro p hp; simp at hp⟩
  | cons b r ih =>
    obtain ⟨a, c, d⟩ := ih
    refine ⟨?_, ?_, ?_⟩
    · have : piecesLen ((b :: r).map (fun b => pU32 b.asNat)) = 4 + piecesLen (r.map (fun b => pU32 b.asNat)) := by
        simp [piecesLen, pU32, Piece.adv]
      rw [this, a, List.length_cons]; omega
    · have : piecesBytes ((b :: r).map (fun b => pU32 b.asNat)) =
          be32 (n32 b.asNat) ++ piecesBytes (r.map (fun b => pU32 b.asNat)) := by
        simp [piecesBytes, pU32, Piece.bytes]
      rw [this, c]; rfl
    · intro p hp
      simp only [List.map_cons, List.mem_cons] at hp
      rcases hp with rfl | hp
      · trivial
      · exact d p hp

end OFV.Elem
