/-
  OFV.Lemmas.Walk7 — walker-only: acceptance of a Nicira NAT action (subtype 36) by `Spec.walkAction`.
-/
import OFV.Lemmas.Walk6
namespace OFV.Walk7
open OFV OFV.Spec OFV.Walk2 OFV.Walk3

/-- the unpadded size of a NAT action with presence word `present`, as the walker computes it -/
def natSz (present : Nat) : Nat :=
  16 + (if present % 2 = 1 then 4 else 0) + (if present / 2 % 2 = 1 then 4 else 0)
    + (if present / 4 % 2 = 1 then 16 else 0) + (if present / 8 % 2 = 1 then 16 else 0)
    + (if present / 16 % 2 = 1 then 2 else 0) + (if present / 32 % 2 = 1 then 2 else 0)

/-- NAT: experimenter type, Nicira vendor, subtype 36, bytes 10-11 zero, a presence word below 64 at offset 14, the
    action is the size the presence bits demand rounded up to 8, and everything behind that size is zero -/
theorem accept_nat (b : Bytes) (present : Nat) (h16 : 16 ≤ b.length) (hal : b.length % 8 = 0)
    (h0 : beAt b 0 2 = 65535) (h2 : beAt b 2 2 = b.length) (hv : beAt b 4 4 = 0x2320) (hsb : beAt b 8 2 = 36)
    (hz1 : allZero (slice b 10 2) = true) (hp : u16At b 14 = present) (hp64 : present < 64)
    (hr : round8 (natSz present) = b.length) (hz2 : allZero (slice b (natSz present) (b.length - natSz present)) = true) :
    ActAccept b (.node "nx 36" b []) := by
  intro fuel tail
  rw [walkAction_tail b tail fuel (by omega) hal h2]
  have e0 : u16At b 0 = 65535 := by rw [u16At_eq_beAt _ _ (by omega), h0]
  have e2 : u16At b 2 = b.length := by rw [u16At_eq_beAt _ _ (by omega), h2]
  have e4 : u32At b 4 = 0x2320 := by rw [u32At_eq_beAt _ _ (by omega), hv]
  have e8 : u16At b 8 = 36 := by rw [u16At_eq_beAt _ _ (by omega), hsb]
  have t2 : b.take b.length = b := List.take_length
  have l1 : ¬ b.length < 4 := by omega
  have l2 : ¬ (b.length < 8 ∨ b.length % 8 ≠ 0) := by omega
  have l3 : ¬ b.length < b.length := by omega
  have l4 : ¬ b.length < 16 := by omega
  have l5 : ¬ present ≥ 64 := by omega
  have hn : nxFixed.lookup 36 = none := by decide
  have z1 := zerosAt_ok b 10 2 "nat" hz1
  have z2 := zerosAt_ok b (natSz present) (b.length - natSz present) "nat" hz2
  have hr' : ¬ round8 (natSz present) ≠ b.length := by rw [hr]; simp
  unfold natSz at z2 hr'
  simp only [walkAction, e0, e2, e4, e8, t2, l1, l2, l3, l4, hn, z1, hp, l5, hr', z2, if_false, ne_eq, not_true_eq_false]
  rfl

end OFV.Walk7
