/-
  OFV.Lemmas.RTFlowRemoved — FlowRemoved (header, 40 fixed bytes, Match) through Parse.  Used by OFV/Props/C05.lean.
-/
import OFV.Model.All
import OFV.Lemmas.Size
import OFV.Lemmas.RTBasic
import OFV.Lemmas.RTMatch
import OFV.Lemmas.RTMsg
namespace OFV.RT
set_option linter.unusedSimpArgs false
open OFV OFV.Go OFV.Model OFV.Model.InstrAux

def flowRemovedV (ver ln xid ck pr rs tid ds dn it ht pc bc : Nat) (m : V) : V :=
  .obj "FlowRemoved" [.obj "Header" [.num ver, .num Gen.openflow13.Type_FlowRemoved, .num ln, .num xid], .num ck, .num pr,
    .num rs, .num tid, .num ds, .num dn, .num it, .num ht, .num pc, .num bc, m]

def flowRemovedFixed (ck pr rs tid ds dn it ht pc bc : Nat) : Bytes :=
  be64 (n64 ck) ++ be16 (n16 pr) ++ [n8 rs, n8 tid] ++ be32 (n32 ds) ++ be32 (n32 dn) ++ be16 (n16 it) ++ be16 (n16 ht)
    ++ be64 (n64 pc) ++ be64 (n64 bc)

theorem flowRemovedFixed_length (ck pr rs tid ds dn it ht pc bc : Nat) :
    (flowRemovedFixed ck pr rs tid ds dn it ht pc bc).length = 40 := rfl

/-- FlowRemoved through Parse.  `MarshalBinary` stores the size in Header.Length (whatever `ln0` was there); `ln` is that
    size, 48 + the size of the Match. -/
theorem flowRemoved_rt (ver ln xid ck pr rs tid ds dn it ht pc bc : Nat) (m : V)
    (hver : ver < 256) (hln : ln < 65536) (hxid : xid < 4294967296) (hck : ck < 18446744073709551616) (hpr : pr < 65536)
    (hrs : rs < 256) (htid : tid < 256) (hds : ds < 4294967296) (hdn : dn < 4294967296) (hit : it < 65536)
    (hht : ht < 65536) (hpc : pc < 18446744073709551616) (hbc : bc < 18446744073709551616) (hm : MatchWF m) :
    ∃ mbs, Match.marshalM m = .ok (mbs, m) ∧ (ln = 48 + mbs.length →
      let v := flowRemovedV ver ln xid ck pr rs tid ds dn it ht pc bc m
      let bs := [n8 ver, n8 Gen.openflow13.Type_FlowRemoved] ++ be16 (n16 ln) ++ be32 (n32 xid)
        ++ flowRemovedFixed ck pr rs tid ds dn it ht pc bc ++ mbs
      (∀ ln0, FlowRemoved.marshalM (flowRemovedV ver ln0 xid ck pr rs tid ds dn it ht pc bc m) = .ok (bs, v)) ∧
      ∀ (depth : Nat) (data : Slice) (tail : Bytes), data.WF → data.bytes = bs ++ tail → parse depth data = .ok v) := by
  obtain ⟨mbs, hmm, hml, _, hmdec, h8m, hm64⟩ := match_roundtrip m hm
  refine ⟨mbs, hmm, fun hlneq => ?_⟩
  have hL : 48 + mbs.length < 65536 := by omega
  intro v bs
  have hto : (UInt16.ofNat mbs.length).toNat = mbs.length := by
    simp [UInt16.toNat_ofNat']; omega
  have h48 : ((8 : UInt16) + UInt16.ofNat mbs.length + 40).toNat = 48 + mbs.length := by
    rw [UInt16.toNat_add, UInt16.toNat_add, hto]
    have h8 : (8 : UInt16).toNat = 8 := rfl
    have h40 : (40 : UInt16).toNat = 40 := rfl
    rw [h8, h40]; omega
  refine ⟨?_, ?_⟩
  · -- encoding
    intro ln0
    have hlen : ∀ ln', FlowRemoved.lenM (flowRemovedV ver ln' xid ck pr rs tid ds dn it ht pc bc m) =
        .ok ((8 : UInt16) + UInt16.ofNat mbs.length + 40, flowRemovedV ver ln' xid ck pr rs tid ds dn it ht pc bc m) := by
      intro ln'
      simp only [flowRemovedV, FlowRemoved.lenM, hml, Res.bind_ok]
    have hu : V.u16 ((8 : UInt16) + UInt16.ofNat mbs.length + 40) = .num ln := by
      simp only [V.u16, h48, hlneq]
    unfold FlowRemoved.marshalM
    rw [hlen]
    simp only [Res.bind_ok]
    rw [hlen]
    simp only [Res.bind_ok, v, flowRemovedV, Header.setLength, hu, Header.bytes, hmm, hml, h48]
    have htight : ∀ p ∈ [pCopyAdv ([n8 ver, n8 Gen.openflow13.Type_FlowRemoved] ++ be16 (n16 ln) ++ be32 (n32 xid)) 8,
        pU64 ck, pU16 pr, pU8 rs, pU8 tid, pU32 ds, pU32 dn, pU16 it, pU16 ht, pU64 pc, pU64 bc], p.Tight := by
      intro p hp
      simp only [List.mem_cons, List.not_mem_nil, or_false] at hp
      rcases hp with rfl | rfl | rfl | rfl | rfl | rfl | rfl | rfl | rfl | rfl | rfl
      · show 8 ≤ 8; omega
      all_goals trivial
    have hp1 : piecesLen [pCopyAdv ([n8 ver, n8 Gen.openflow13.Type_FlowRemoved] ++ be16 (n16 ln) ++ be32 (n32 xid)) 8,
        pU64 ck, pU16 pr, pU8 rs, pU8 tid, pU32 ds, pU32 dn, pU16 it, pU16 ht, pU64 pc, pU64 bc] = 48 := rfl
    rw [fill_exact (48 + mbs.length) _ htight (by rw [hp1]; omega)]
    simp only [Res.bind_ok]
    have htight2 : ∀ p ∈ [pCopyAdv ([n8 ver, n8 Gen.openflow13.Type_FlowRemoved] ++ be16 (n16 ln) ++ be32 (n32 xid)) 8,
        pU64 ck, pU16 pr, pU8 rs, pU8 tid, pU32 ds, pU32 dn, pU16 it, pU16 ht, pU64 pc, pU64 bc] ++ [pCopy mbs], p.Tight := by
      intro p hp
      rcases List.mem_append.mp hp with h | h
      · exact htight p h
      · simp only [List.mem_cons, List.not_mem_nil, or_false] at h; subst h; trivial
    have hp2 : piecesLen ([pCopyAdv ([n8 ver, n8 Gen.openflow13.Type_FlowRemoved] ++ be16 (n16 ln) ++ be32 (n32 xid)) 8,
        pU64 ck, pU16 pr, pU8 rs, pU8 tid, pU32 ds, pU32 dn, pU16 it, pU16 ht, pU64 pc, pU64 bc] ++ [pCopy mbs])
        = 48 + mbs.length := by
      simp only [piecesLen, List.map_append, List.sum_append] at hp1 ⊢
      rw [hp1]; simp [pCopy, Piece.adv]
    rw [fill_exact (48 + mbs.length) _ htight2 (by rw [hp2]; omega), hp2]
    simp only [piecesBytes, List.map_append, List.flatten_append, List.map_cons, List.map_nil, List.flatten_cons,
      List.flatten_nil, Piece.bytes, pCopyAdv, pCopy, pU64, pU32, pU16, pU8, Nat.sub_self, zeros, List.replicate_zero,
      List.append_nil, bs, flowRemovedFixed, List.append_assoc]
    rfl
  · intro depth data tail hd hb
    have hlen := Slice.len_ge_of_bytes data _ _ hb
    simp only [bs, List.length_append, flowRemovedFixed_length, be16_length, be32_length, List.length_cons,
      List.length_nil] at hlen
    have hb' : data.bytes = [n8 ver, n8 Gen.openflow13.Type_FlowRemoved] ++ (be16 (n16 ln) ++ (be32 (n32 xid) ++
        (be64 (n64 ck) ++ (be16 (n16 pr) ++ ([n8 rs, n8 tid] ++ (be32 (n32 ds) ++ (be32 (n32 dn) ++ (be16 (n16 it) ++
        (be16 (n16 ht) ++ (be64 (n64 pc) ++ (be64 (n64 bc) ++ (mbs ++ tail)))))))))))) := by
      rw [hb]; simp only [bs, flowRemovedFixed, List.append_assoc]
    unfold parse
    obtain ⟨k, hk⟩ : ∃ k, max depth (data.cap + 1) = k + 1 := ⟨max depth (data.cap + 1) - 1, by omega⟩
    rw [hk]
    unfold parseD parseStep
    have e1 : data.bytes[1]? = some (n8 Gen.openflow13.Type_FlowRemoved) := by rw [hb']; rfl
    have ht11 : (n8 Gen.openflow13.Type_FlowRemoved).toNat = 11 := by decide
    have ht11' : (n8 11).toNat = 11 := by decide
    simp only [Slice.byteAt_eq, e1, Res.ofOption, Res.bind_ok, ht11, ht11',
      Gen.openflow13.Type_EchoRequest, Gen.openflow13.Type_EchoReply, Gen.openflow13.Type_GetConfigRequest,
      Gen.openflow13.Type_BarrierRequest, Gen.openflow13.Type_BarrierReply, Gen.openflow13.Type_FeaturesRequest,
      Gen.openflow13.Type_Hello, Gen.openflow13.Type_Error, Gen.openflow13.Type_Experimenter,
      Gen.openflow13.Type_FeaturesReply, Gen.openflow13.Type_GetConfigReply, Gen.openflow13.Type_SetConfig,
      Gen.openflow13.Type_PacketIn, Gen.openflow13.Type_FlowRemoved,
      Nat.reduceEqDiff, reduceIte, if_false, if_true, or_true, true_or, or_false, false_or, or_self]
    unfold FlowRemoved.unmarshal flowRemovedRecv
    obtain ⟨d0, h01, h02, _⟩ := Slice.fromR_bytes data 0 (by omega)
    have hd0 : d0.WF := (Slice.fromR_wf data hd 0 d0 h01).1
    obtain ⟨_, _, hhdr⟩ := header_roundtrip ver Gen.openflow13.Type_FlowRemoved ln xid hver (by decide) hln hxid
    have hh : ∀ r, Header.unmarshal r d0 = _ := fun r => hhdr r d0
      (flowRemovedFixed ck pr rs tid ds dn it ht pc bc ++ mbs ++ tail) hd0
      (by rw [h02, hb]; simp only [bs, List.drop_zero, List.append_assoc])
    have e8 : rd64 (data.bytes.drop 8) = some (n64 ck) := by rw [hb']; exact rd64_be64 _ _
    have e16 : rd16 (data.bytes.drop 16) = some (n16 pr) := by rw [hb']; exact rd16_be16 _ _
    have e18 : data.bytes[18]? = some (n8 rs) := by rw [hb']; rfl
    have e19 : data.bytes[19]? = some (n8 tid) := by rw [hb']; rfl
    have e20 : rd32 (data.bytes.drop 20) = some (n32 ds) := by rw [hb']; exact rd32_be32 _ _
    have e24 : rd32 (data.bytes.drop 24) = some (n32 dn) := by rw [hb']; exact rd32_be32 _ _
    have e28 : rd16 (data.bytes.drop 28) = some (n16 it) := by rw [hb']; exact rd16_be16 _ _
    have e30 : rd16 (data.bytes.drop 30) = some (n16 ht) := by rw [hb']; exact rd16_be16 _ _
    have e32 : rd64 (data.bytes.drop 32) = some (n64 pc) := by rw [hb']; exact rd64_be64 _ _
    have e40 : rd64 (data.bytes.drop 40) = some (n64 bc) := by rw [hb']; exact rd64_be64 _ _
    obtain ⟨dm, hm1, hm2, _, _⟩ := Slice.fromR_bytes data 48 (by omega)
    have hdm : dm.WF := (Slice.fromR_wf data hd 48 dm hm1).1
    have hdmb : dm.bytes = mbs ++ tail := by rw [hm2, hb']; rfl
    have hmP : matchUnmarshalP Match.new dm = .ok (m, false) := by
      unfold matchUnmarshalP
      rw [unmarshalP_new]
      exact unmarshalP_of_unmarshal _ _ _ (hmdec dm _ hdm hdmb)
    simp only [h01, Res.bind_ok, hh, catchErr, Slice.u64From_eq, Slice.u32From_eq, Slice.u16From_eq, Slice.byteAt_eq,
      e8, e16, e18, e19, e20, e24, e28, e30, e32, e40, Res.ofOption, hm1, hmP, hml, Bool.false_eq_true, if_false,
      Res.pure_eq, recoverR, v, flowRemovedV, u64_n64 ck hck, u16_n16 pr hpr, u8_n8 rs hrs, u8_n8 tid htid, u32_n32 ds hds,
      u32_n32 dn hdn, u16_n16 it hit, u16_n16 ht hht, u64_n64 pc hpc, u64_n64 bc hbc]

end OFV.RT
