/-
  OFV.Lemmas.Sw2Ip6 — decoding the specification's byte layout of an IPv6 packet: fixed header, the walk along the
  next-header chain (hop-by-hop options header with ANY list of options, Pad1 included; fragment header), and the upper-layer payload
  (ICMPv6, UDP, opaque).  Used by OFV/Props/C04b.lean.
-/
import OFV.Model.All
import OFV.Lemmas.SwBasic
import OFV.Lemmas.SwMatch
import OFV.Lemmas.RTBasic
import OFV.Lemmas.Sw2Eth
namespace OFV.Sw2
open OFV OFV.Go OFV.Model

/-! ### bit fields as arithmetic -/

theorem v6_ver (b : UInt8) : (PIPv6.unpackVersion b).toNat = b.toNat / 16 := by
  unfold PIPv6.unpackVersion
  rw [UInt8.toNat_shiftRight]
  show b.toNat >>> 4 = _
  rw [Nat.shiftRight_eq_div_pow]

theorem v6_class (b0 b1 : UInt8) : (PIPv6.unpackClass b0 b1).toNat = b0.toNat % 16 * 16 + b1.toNat / 16 := by
  unfold PIPv6.unpackClass
  have h1 := b1.toNat_lt
  rw [UInt8.toNat_or, UInt8.toNat_shiftLeft, UInt8.toNat_shiftRight, UInt8.toNat_and]
  show ((b0.toNat &&& 15) <<< 4) % 256 ||| b1.toNat >>> 4 = _
  rw [and_mask _ 4 15 rfl, Nat.shiftRight_eq_div_pow, Nat.shiftLeft_eq]
  have : (b0.toNat % 2 ^ 4 * 2 ^ 4) % 256 = (b0.toNat % 16) <<< 4 := by rw [Nat.shiftLeft_eq]; omega
  rw [this, ← Nat.shiftLeft_add_eq_or_of_lt (by omega), Nat.shiftLeft_eq]

theorem v6_flow (w : UInt32) : (PIPv6.unpackFlow w).toNat = w.toNat % 1048576 := by
  unfold PIPv6.unpackFlow
  rw [UInt32.toNat_and]
  exact and_mask _ 20 _ rfl

theorem frag_off (w : UInt16) : (PFragment.unpackOff w).toNat = w.toNat / 8 := by
  unfold PFragment.unpackOff
  rw [UInt16.toNat_shiftRight]
  show w.toNat >>> 3 = _
  rw [Nat.shiftRight_eq_div_pow]

theorem frag_more (w : UInt16) : V.bool (PFragment.unpackMore w) = .num (w.toNat % 2) := by
  unfold PFragment.unpackMore V.bool
  have hm : (w &&& 1).toNat = w.toNat % 2 := by
    rw [UInt16.toNat_and]; exact and_mask _ 1 _ rfl
  by_cases h : w.toNat % 2 = 1
  · have : w &&& 1 = 1 := UInt16.toNat_inj.mp (by rw [hm, h]; rfl)
    simp [this, h]
  · have h0 : w.toNat % 2 = 0 := by omega
    have : w &&& 1 = 0 := UInt16.toNat_inj.mp (by rw [hm, h0]; rfl)
    simp [this, h0]

/-- the first two bytes of a big-endian 32-bit word -/
theorem be32_b0 (w : UInt32) : (UInt8.ofNat (w.toNat / 16777216)).toNat = w.toNat / 16777216 := by
  have := w.toNat_lt
  rw [UInt8.toNat_ofNat']
  omega

theorem be32_b1 (w : UInt32) : (UInt8.ofNat (w.toNat / 65536 % 256)).toNat = w.toNat / 65536 % 256 := by
  rw [UInt8.toNat_ofNat']
  omega

/-! ### extension headers -/

theorem index_at (s : Slice) (n : Nat) (x : UInt8) (rest : Bytes) (h : s.bytes.drop n = x :: rest) :
    s.index n = some x := by
  have hx : s.bytes[n]? = some x := by
    have := List.getElem?_drop (xs := s.bytes) (i := n) (j := 0)
    rw [h] at this
    simpa using this.symm
  unfold Slice.index
  unfold Slice.bytes at hx
  rw [List.getElem?_take] at hx
  by_cases hn : n < s.len
  · simp only [hn, if_true] at hx ⊢
    exact hx
  · simp [hn] at hx

/-- one option of a hop-by-hop options header as RFC 8200 §4.2 writes it -/
inductive Opt where
  /-- Pad1: the single byte 0 — no length, no data -/
  | pad1
  /-- any other option: type(1), length of the data(1), data -/
  | tlv (ty : UInt8) (data : Bytes)

namespace Opt
/-- the bytes on the wire -/
def bytes : Opt → Bytes
  | pad1 => [0]
  | tlv ty d => [ty, UInt8.ofNat d.length] ++ d
/-- `p.Option(Type,Length,Data)` -/
def val : Opt → V
  | pad1 => .obj "p.Option" [.num 0, .num 0, .bytes []]
  | tlv ty d => .obj "p.Option" [.num ty.toNat, .num d.length, .bytes d]
/-- only Pad1 has type 0; the data length fits its byte -/
def OK : Opt → Prop
  | pad1 => True
  | tlv ty d => ty.toNat ≠ 0 ∧ d.length < 256
instance : (o : Opt) → Decidable o.OK
  | pad1 => isTrue trivial
  | tlv ty d => inferInstanceAs (Decidable (ty.toNat ≠ 0 ∧ d.length < 256))
theorem bytes_pos (o : Opt) : 0 < o.bytes.length := by
  cases o <;> simp [bytes]
end Opt

/-- the options one after the other -/
def optsBytes (os : List Opt) : Bytes := (os.map Opt.bytes).flatten

theorem optsBytes_cons (o : Opt) (os : List Opt) : optsBytes (o :: os) = o.bytes ++ optsBytes os := by
  simp [optsBytes]

theorem optsBytes_len_ge (os : List Opt) : os.length ≤ (optsBytes os).length := by
  induction os with
  | nil => simp [optsBytes]
  | cons o os ih =>
    rw [optsBytes_cons, List.length_append, List.length_cons]
    have := o.bytes_pos
    omega

theorem u8_ofNat_toNat (n : Nat) (h : n < 256) : (UInt8.ofNat n).toNat = n := by
  rw [UInt8.toNat_ofNat']; omega

/-- `Len()` of an option that is not Pad1: its length byte plus 2 -/
theorem opt_len_tlv (ty : UInt8) (hty : ty.toNat ≠ 0) (n : Nat) (hn : n < 256) :
    (Gen.protocol.Option.Len { Type_ := n8 ty.toNat, Length := n8 n }).toNat = n + 2 := by
  have e1 : n8 ty.toNat = ty := UInt8.ofNat_toNat
  have hne : ¬ ty = 0 := by
    intro h0; apply hty; rw [h0]; rfl
  have e2 : (n8 n).toNat = n := u8_ofNat_toNat n hn
  simp only [Gen.protocol.Option.Len, e1, if_neg hne, UInt16.toNat_add, UInt64.toNat_toUInt16, UInt8.toNat_toUInt64, e2]
  have : (2 : UInt16).toNat = 2 := rfl
  rw [this]; omega

/-- one option, followed by anything, is read back as its value, and the value's `Len()` is its size on the wire -/
theorem opt_dec (o : Opt) (hok : o.OK) (d : Slice) (hwf : d.WF) (rest : Bytes) (hb : d.bytes = o.bytes ++ rest) :
    POption.unmarshal POption.zero d = .ok o.val ∧ ∃ l, POption.len o.val = .ok l ∧ l.toNat = o.bytes.length := by
  cases o with
  | pad1 =>
    have hl : d.len = 1 + rest.length := by rw [← Sw.bytes_length d hwf, hb]; simp [Opt.bytes]; omega
    constructor
    · unfold POption.unmarshal
      rw [if_pos ⟨by omega, index_at d 0 0 rest (by rw [hb]; rfl)⟩]
      rfl
    · exact ⟨_, rfl, rfl⟩
  | tlv ty data =>
    obtain ⟨hty, hdl⟩ := hok
    have hb' : d.bytes = [ty, UInt8.ofNat data.length] ++ (data ++ rest) := by
      rw [hb]; simp only [Opt.bytes, List.append_assoc]
    have hl : d.len = 2 + data.length + rest.length := by rw [← Sw.bytes_length d hwf, hb']; simp; omega
    have hln : (UInt8.ofNat data.length).toNat = data.length := u8_ofNat_toNat _ hdl
    obtain ⟨t, e2, _, _, ht⟩ := Sw.sliceR_at d hwf 2 (2 + data.length) (by omega) (by omega)
    have ht' : t.bytes = data := by
      rw [ht, hb']
      show List.take (2 + data.length - 2) (data ++ rest) = _
      rw [show 2 + data.length - 2 = data.length by omega]; simp
    constructor
    · unfold POption.unmarshal
      rw [if_neg (by
        intro h
        have h2 := h.2
        rw [index_at d 0 ty _ (by rw [hb']; rfl)] at h2
        injection h2 with h3
        apply hty; rw [h3]; rfl)]
      rw [if_neg (by omega)]
      simp only [Sw.byteAt_at d 0 ty _ (by rw [hb']; rfl),
        Sw.byteAt_at d 1 (UInt8.ofNat data.length) _ (by rw [hb']; rfl), Res.bind_ok, hln]
      rw [if_neg (by omega)]
      simp only [e2, Res.bind_ok, ht', RT.makeCopy_self _ _ rfl, V.u8, hln]
      rfl
    · refine ⟨_, rfl, ?_⟩
      rw [opt_len_tlv ty hty _ hdl]
      simp [Opt.bytes]

/-- the option loop of the hop-by-hop decoder over ANY list of well-formed options -/
theorem opts_loop (data : Slice) (hwf : data.WF) (rest : Bytes) (os : List Opt) (h : ∀ o ∈ os, o.OK) (n : Nat)
    (acc : List V) (fuel limit : Nat) (hfuel : os.length < fuel) (hb : data.bytes.drop n = optsBytes os ++ rest)
    (hln : limit = n + (optsBytes os).length) :
    goLoop (σ := PHopByHop.St) fuel (fun s => s.n < limit) (·.n)
      (fun s => do
        let d ← data.fromR s.n
        let o ← POption.unmarshal POption.zero d
        let ol ← POption.len o
        pure { n := s.n + ol.toNat, opts := s.opts ++ [o] })
      { n := n, opts := acc } = .ok { n := limit, opts := acc ++ os.map Opt.val } := by
  induction os generalizing n acc fuel with
  | nil =>
    obtain ⟨f, rfl⟩ : ∃ f, fuel = f + 1 := ⟨fuel - 1, by simp at hfuel; omega⟩
    simp [optsBytes] at hln
    rw [Sw.goLoop_stop _ _ _ _ _ (by simp [hln])]
    simp [hln]
  | cons o os ih =>
    obtain ⟨f, rfl⟩ : ∃ f, fuel = f + 1 := ⟨fuel - 1, by simp at hfuel; omega⟩
    rw [optsBytes_cons] at hb hln
    rw [List.length_append] at hln
    have hpos := o.bytes_pos
    have hnl : n + (o.bytes ++ optsBytes os ++ rest).length = data.len := by
      have := congrArg List.length hb
      rw [List.length_drop, Sw.bytes_length data hwf] at this
      simp at this ⊢
      omega
    obtain ⟨d, e1, hdwf, _, hd⟩ := Sw.fromR_at data hwf n (by simp at hnl; omega)
    rw [hb, List.append_assoc] at hd
    obtain ⟨hdec, l, hlen, hl⟩ := opt_dec o (h o (by simp)) d hdwf _ hd
    rw [Sw.goLoop_step _ _ _ _ _ ⟨n + o.bytes.length, acc ++ [o.val]⟩
        (by simp; omega)
        (by simp only [e1, Res.bind_ok, hdec, hlen, hl]; rfl)
        (by show n < n + o.bytes.length; omega)]
    rw [ih (fun q hq => h q (by simp [hq])) (n + o.bytes.length) (acc ++ [o.val]) f (by simp at hfuel; omega)
      (by
        rw [← List.drop_drop, hb, List.append_assoc]
        simp)
      (by omega)]
    simp

/-- `Len()` of a hop-by-hop header: `8 * (HEL + 1)` -/
theorem hbh_len (nh hel : UInt8) :
    (Gen.protocol.HopByHopHeader.Len { NextHeader := nh, HEL := hel }).toNat = 8 * (hel.toNat + 1) := by
  have := hel.toNat_lt
  simp only [Gen.protocol.HopByHopHeader.Len, UInt16.toNat_mul, UInt16.toNat_add, UInt64.toNat_toUInt16, UInt8.toNat_toUInt64]
  have h1 : (1 : UInt16).toNat = 1 := rfl
  have h8 : (8 : UInt16).toNat = 8 := rfl
  rw [h1, h8]; omega

/-- the decoded hop-by-hop header -/
def hbhOptsV (nh hel : UInt8) (os : List Opt) : V :=
  .obj "p.HopByHopHeader" [.num nh.toNat, .num hel.toNat, .list (os.map Opt.val)]

/-- hop-by-hop options header: next header(1), header extension length(1), then ANY list of well-formed options — Pad1
    included — that fills the `8 * (hdr ext len + 1)` bytes: every option comes back, in order -/
theorem hbh_dec_opts (d : Slice) (hwf : d.WF) (nh hel : UInt8) (os : List Opt) (hok : ∀ o ∈ os, o.OK)
    (hlen : 2 + (optsBytes os).length = 8 * (hel.toNat + 1)) (more : Bytes)
    (hb : d.bytes = [nh, hel] ++ (optsBytes os ++ more)) :
    PHopByHop.unmarshal PHopByHop.zero d = .ok (hbhOptsV nh hel os) := by
  have hl : d.len = 8 * (hel.toNat + 1) + more.length := by rw [← Sw.bytes_length d hwf, hb]; simp; omega
  have hge := optsBytes_len_ge os
  unfold PHopByHop.unmarshal
  rw [if_neg (by omega)]
  simp only [Sw.byteAt_at d 0 nh _ (by rw [hb]; rfl), Sw.byteAt_at d 1 hel _ (by rw [hb]; rfl), Res.bind_ok]
  rw [if_neg (by omega)]
  simp only [PHopByHop.zero, hbh_len]
  rw [opts_loop d hwf more os hok 2 [] _ _ (by omega) (by rw [hb]; rfl) (by omega)]
  rfl

/-- the decoded hop-by-hop header holding one option with four bytes of data -/
def hbhV (nh oty : UInt8) (od : Bytes) : V :=
  .obj "p.HopByHopHeader" [.num nh.toNat, .num 0, .list [.obj "p.Option" [.num oty.toNat, .num 4, .bytes od]]]

/-- hop-by-hop options header of 8 bytes: next header(1), header extension length 0, one option: type(1) — not 0, which
    is Pad1 —, length 4, 4 bytes of option data (PadN: type 1, zeros) -/
theorem hbh_dec (d : Slice) (hwf : d.WF) (nh oty : UInt8) (hoty : oty.toNat ≠ 0) (od more : Bytes) (hod : od.length = 4)
    (hb : d.bytes = [nh, 0, oty, 4] ++ (od ++ more)) :
    PHopByHop.unmarshal PHopByHop.zero d = .ok (hbhV nh oty od) := by
  obtain ⟨o0, o1, o2, o3, rfl⟩ := Sw.len4 od hod
  exact hbh_dec_opts d hwf nh 0 [.tlv oty [o0, o1, o2, o3]]
    (by intro o ho; simp only [List.mem_cons, List.not_mem_nil, or_false] at ho; subst ho; exact ⟨hoty, by simp⟩)
    rfl more (by rw [hb]; rfl)

/-- the decoded fragment header: offset = upper 13 bits of the 16-bit word, M = its lowest bit -/
def fragV (nh rsv : UInt8) (w : UInt16) (ident : UInt32) : V :=
  .obj "p.FragmentHeader" [.num nh.toNat, .num rsv.toNat, .num (w.toNat / 8), .num (w.toNat % 2), .num ident.toNat]

/-- fragment header: next header(1), reserved(1), fragment offset(13 bits) res(2) M(1), identification(4) -/
theorem frag_dec (d : Slice) (hwf : d.WF) (nh rsv : UInt8) (w : UInt16) (ident : UInt32) (more : Bytes)
    (hb : d.bytes = [nh, rsv] ++ (be16 w ++ (be32 ident ++ more))) :
    PFragment.unmarshal PFragment.zero d = .ok (fragV nh rsv w ident) := by
  have hl : d.len = 8 + more.length := by rw [← Sw.bytes_length d hwf, hb]; simp; omega
  unfold PFragment.unmarshal
  rw [if_neg (by omega)]
  simp only [Sw.byteAt_at d 0 nh _ (by rw [hb]; rfl), Sw.byteAt_at d 1 rsv _ (by rw [hb]; rfl),
    Sw.u16From_at d 2 w _ (by rw [hb]; rfl), Sw.u32From_at d 4 ident _ (by rw [hb]; rfl), Res.bind_ok, Res.pure_eq,
    frag_more, V.u8, V.u16, V.u32, frag_off, fragV]

/-! ### the walk along the next-header chain -/

theorem drop_len (r : Slice) (hwf : r.WF) (n : Nat) (x : Bytes) (h : r.bytes.drop n = x) : r.len = n + x.length ∨ (x = [] ∧ r.len ≤ n) := by
  have h2 := congrArg List.length h
  rw [List.length_drop, Sw.bytes_length r hwf] at h2
  by_cases hx : x = []
  · subst hx; simp at h2; right; exact ⟨rfl, by omega⟩
  · left
    have : 0 < x.length := List.length_pos_iff.mpr hx
    omega

/-- the chain ends at a next-header value that is not an extension header -/
theorem xloop_end (r : Slice) (f : Nat) (s : PIPv6.XSt) (h0 : s.nxt.toNat ≠ 0) (h1 : s.nxt.toNat ≠ 43)
    (h2 : s.nxt.toNat ≠ 44) : PIPv6.xloop r (f + 1) s = .ok s := by
  unfold PIPv6.xloop PIPv6.xstep
  rw [if_neg (show ¬ s.nxt.toNat = Gen.protocol.Type_HBH from h0), if_neg (show ¬ s.nxt.toNat = Gen.protocol.Type_Routing from h1),
    if_neg (show ¬ s.nxt.toNat = Gen.protocol.Type_Fragment from h2)]

/-- one pass over a hop-by-hop header with any list of well-formed options -/
theorem xloop_hbh_opts (r : Slice) (hwf : r.WF) (f : Nat) (s : PIPv6.XSt) (hn : s.nxt.toNat = 0) (nh hel : UInt8)
    (os : List Opt) (hok : ∀ o ∈ os, o.OK) (hlen : 2 + (optsBytes os).length = 8 * (hel.toNat + 1)) (more : Bytes)
    (hb : r.bytes.drop s.n = [nh, hel] ++ (optsBytes os ++ more)) :
    PIPv6.xloop r (f + 1) s
      = PIPv6.xloop r f { s with n := s.n + 8 * (hel.toNat + 1), nxt := nh, hbh := hbhOptsV nh hel os } := by
  have hl : r.len = s.n + ([nh, hel] ++ (optsBytes os ++ more)).length := by
    rcases drop_len r hwf s.n _ hb with h | ⟨h, _⟩
    · exact h
    · cases h
  obtain ⟨d, e1, hdwf, _, hd⟩ := Sw.fromR_at r hwf s.n (by omega)
  rw [hb] at hd
  have hstep : PIPv6.xstep r s
      = .ok (some { s with n := s.n + 8 * (hel.toNat + 1), nxt := nh, hbh := hbhOptsV nh hel os }) := by
    unfold PIPv6.xstep
    rw [if_pos (show s.nxt.toNat = Gen.protocol.Type_HBH from hn)]
    simp only [e1, Res.bind_ok, hbh_dec_opts d hdwf nh hel os hok hlen more hd]
    unfold hbhOptsV PHopByHop.nextHeader PHopByHop.len
    simp only [Res.bind_ok, Res.pure_eq]
    have e2 : n8 nh.toNat = nh := UInt8.ofNat_toNat
    have e3 : n8 hel.toNat = hel := UInt8.ofNat_toNat
    rw [e2, e3, hbh_len]
  conv => lhs; unfold PIPv6.xloop
  simp only [hstep]
  rw [if_neg (by intro h; have := h.1; simp at this)]

/-- one pass over a hop-by-hop header with one 4-byte option -/
theorem xloop_hbh (r : Slice) (hwf : r.WF) (f : Nat) (s : PIPv6.XSt) (hn : s.nxt.toNat = 0) (nh oty : UInt8)
    (hoty : oty.toNat ≠ 0) (od more : Bytes) (hod : od.length = 4) (hb : r.bytes.drop s.n = [nh, 0, oty, 4] ++ (od ++ more)) :
    PIPv6.xloop r (f + 1) s = PIPv6.xloop r f { s with n := s.n + 8, nxt := nh, hbh := hbhV nh oty od } := by
  obtain ⟨o0, o1, o2, o3, rfl⟩ := Sw.len4 od hod
  exact xloop_hbh_opts r hwf f s hn nh 0 [.tlv oty [o0, o1, o2, o3]]
    (by intro o ho; simp only [List.mem_cons, List.not_mem_nil, or_false] at ho; subst ho; exact ⟨hoty, by simp⟩)
    rfl more (by rw [hb]; rfl)

/-- one pass over a fragment header -/
theorem xloop_frag (r : Slice) (hwf : r.WF) (f : Nat) (s : PIPv6.XSt) (hn : s.nxt.toNat = 44) (nh rsv : UInt8)
    (w : UInt16) (ident : UInt32) (more : Bytes) (hb : r.bytes.drop s.n = [nh, rsv] ++ (be16 w ++ (be32 ident ++ more))) :
    PIPv6.xloop r (f + 1) s = PIPv6.xloop r f { s with n := s.n + 8, nxt := nh, fr := fragV nh rsv w ident } := by
  have hl : r.len = s.n + ([nh, rsv] ++ (be16 w ++ (be32 ident ++ more))).length := by
    rcases drop_len r hwf s.n _ hb with h | ⟨h, _⟩
    · exact h
    · cases h
  obtain ⟨d, e1, hdwf, _, hd⟩ := Sw.fromR_at r hwf s.n (by omega)
  rw [hb] at hd
  have hstep : PIPv6.xstep r s = .ok (some { s with n := s.n + 8, nxt := nh, fr := fragV nh rsv w ident }) := by
    unfold PIPv6.xstep
    rw [if_neg (show ¬ s.nxt.toNat = Gen.protocol.Type_HBH by rw [hn]; decide),
      if_neg (show ¬ s.nxt.toNat = Gen.protocol.Type_Routing by rw [hn]; decide),
      if_pos (show s.nxt.toNat = Gen.protocol.Type_Fragment from hn)]
    simp only [e1, Res.bind_ok, frag_dec d hdwf nh rsv w ident more hd]
    unfold fragV PFragment.nextHeader PFragment.len
    simp only [Res.bind_ok, Res.pure_eq]
    have : n8 nh.toNat = nh := UInt8.ofNat_toNat
    rw [this]
    rfl
  conv => lhs; unfold PIPv6.xloop
  simp only [hstep]
  rw [if_neg (by intro h; have := h.1; simp at this)]

/-- the extension headers `eb` behind an IPv6 fixed header whose next-header field is `nh` are walked completely: the
    walk ends behind them at the upper-layer protocol `nxt`, having stored the headers `hbh`, `rt`, `fr` -/
def Chain (nh : UInt8) (eb : Bytes) (nxt : UInt8) (hbh rt fr : V) : Prop :=
  ∀ (r : Slice), r.WF → ∀ pb : Bytes, r.bytes.drop 40 = eb ++ pb →
    PIPv6.xloop r (r.len + 4) { n := 40, nxt := nh, hbh := .nil, rt := .nil, fr := .nil }
      = .ok { n := 40 + eb.length, nxt := nxt, hbh := hbh, rt := rt, fr := fr }

/-- a next-header value that is no extension header (not 0, 43, 44) -/
def Upper (nh : UInt8) : Prop := nh.toNat ≠ 0 ∧ nh.toNat ≠ 43 ∧ nh.toNat ≠ 44

instance (nh : UInt8) : Decidable (Upper nh) := by unfold Upper; infer_instance

theorem chain_none (nh : UInt8) (h : Upper nh) : Chain nh [] nh .nil .nil .nil := by
  intro r _ pb _
  exact xloop_end r _ _ h.1 h.2.1 h.2.2

/-- a hop-by-hop header with ANY list of well-formed options (Pad1 included) in front of an upper-layer protocol -/
theorem chain_hbh_opts (nh hel : UInt8) (os : List Opt) (hok : ∀ o ∈ os, o.OK)
    (hlen : 2 + (optsBytes os).length = 8 * (hel.toNat + 1)) (h : Upper nh) :
    Chain 0 ([nh, hel] ++ optsBytes os) nh (hbhOptsV nh hel os) .nil .nil := by
  intro r hwf pb hb
  rw [xloop_hbh_opts r hwf _ _ rfl nh hel os hok hlen pb (by rw [hb]; simp), xloop_end r _ _ h.1 h.2.1 h.2.2]
  simp
  omega

theorem chain_hbh (nh oty : UInt8) (hoty : oty.toNat ≠ 0) (od : Bytes) (hod : od.length = 4) (h : Upper nh) :
    Chain 0 ([nh, 0, oty, 4] ++ od) nh (hbhV nh oty od) .nil .nil := by
  intro r hwf pb hb
  rw [xloop_hbh r hwf _ _ rfl nh oty hoty od pb hod (by rw [hb]; simp), xloop_end r _ _ h.1 h.2.1 h.2.2]
  simp [hod]

theorem chain_frag (nh rsv : UInt8) (w : UInt16) (ident : UInt32) (h : Upper nh) :
    Chain 44 ([nh, rsv] ++ (be16 w ++ be32 ident)) nh .nil .nil (fragV nh rsv w ident) := by
  intro r hwf pb hb
  rw [xloop_frag r hwf _ _ rfl nh rsv w ident pb (by rw [hb]; simp), xloop_end r _ _ h.1 h.2.1 h.2.2]
  rfl

/-- a hop-by-hop header with ANY list of well-formed options followed by a fragment header -/
theorem chain_hbh_opts_frag (hel : UInt8) (os : List Opt) (hok : ∀ o ∈ os, o.OK)
    (hlen : 2 + (optsBytes os).length = 8 * (hel.toNat + 1)) (nh rsv : UInt8) (w : UInt16) (ident : UInt32) (h : Upper nh) :
    Chain 0 (([44, hel] ++ optsBytes os) ++ ([nh, rsv] ++ (be16 w ++ be32 ident))) nh (hbhOptsV 44 hel os) .nil
      (fragV nh rsv w ident) := by
  intro r hwf pb hb
  rw [xloop_hbh_opts r hwf _ _ rfl 44 hel os hok hlen ([nh, rsv] ++ (be16 w ++ (be32 ident ++ pb))) (by rw [hb]; simp),
    xloop_frag r hwf _ _ rfl nh rsv w ident pb
      (by
        show r.bytes.drop (40 + 8 * (hel.toNat + 1)) = _
        rw [← List.drop_drop, hb, ← hlen, Nat.add_comm 2]; simp),
    xloop_end r _ _ h.1 h.2.1 h.2.2]
  simp
  omega

theorem chain_hbh_frag (oty : UInt8) (hoty : oty.toNat ≠ 0) (od : Bytes) (hod : od.length = 4) (nh rsv : UInt8) (w : UInt16)
    (ident : UInt32) (h : Upper nh) :
    Chain 0 (([44, 0, oty, 4] ++ od) ++ ([nh, rsv] ++ (be16 w ++ be32 ident))) nh (hbhV 44 oty od) .nil
      (fragV nh rsv w ident) := by
  intro r hwf pb hb
  obtain ⟨o0, o1, o2, o3, rfl⟩ := Sw.len4 od hod
  rw [xloop_hbh r hwf _ _ rfl 44 oty hoty [o0, o1, o2, o3] ([nh, rsv] ++ (be16 w ++ (be32 ident ++ pb))) rfl (by rw [hb]; simp),
    xloop_frag r hwf _ _ rfl nh rsv w ident pb
      (by
        show r.bytes.drop (40 + 8) = _
        rw [← List.drop_drop, hb]; simp),
    xloop_end r _ _ h.1 h.2.1 h.2.2]
  rfl

/-- the two hop-by-hop headers of 8 bytes the specification uses as examples of padding: Pad1 followed by PadN with 3
    data bytes (00 | 01 03 00 00 00), and a router-alert option (type 5, length 2, value) followed by two Pad1 -/
theorem chain_hbh_pad1_padN (nh : UInt8) (h : Upper nh) :
    Chain 0 [nh, 0, 0, 1, 3, 0, 0, 0] nh (hbhOptsV nh 0 [.pad1, .tlv 1 [0, 0, 0]]) .nil .nil :=
  chain_hbh_opts nh 0 [.pad1, .tlv 1 [0, 0, 0]]
    (by intro o ho; simp only [List.mem_cons, List.not_mem_nil, or_false] at ho; rcases ho with rfl | rfl
        · trivial
        · exact ⟨by decide, by decide⟩)
    rfl h

theorem chain_hbh_routerAlert_pad1 (nh : UInt8) (value : UInt16) (h : Upper nh) :
    Chain 0 ([nh, 0, 5, 2] ++ (be16 value ++ [0, 0])) nh (hbhOptsV nh 0 [.tlv 5 (be16 value), .pad1, .pad1]) .nil .nil :=
  chain_hbh_opts nh 0 [.tlv 5 (be16 value), .pad1, .pad1]
    (by intro o ho; simp only [List.mem_cons, List.not_mem_nil, or_false] at ho; rcases ho with rfl | rfl | rfl
        · exact ⟨by decide, by simp⟩
        · trivial
        · trivial)
    rfl h

/-! ### IPv6 -/

/-- what the IPv6 decoder does with the bytes behind the last extension header, by upper-layer protocol -/
def ip6Data (nxt : UInt8) (rest : Slice) : R V :=
  if nxt.toNat = Gen.protocol.Type_IPv6ICMP then PICMP.unmarshal PIPv4.newICMP rest
  else if nxt.toNat = Gen.protocol.Type_UDP then PUDP.unmarshal PIPv4.newUDP rest
  else UBuffer.unmarshal UBuffer.zero rest

theorem ip6Data_icmp (pb : Bytes) (pv : V) (h : Dec (PICMP.unmarshal PIPv4.newICMP) pb pv) : Dec (ip6Data 58) pb pv := h

theorem ip6Data_udp (pb : Bytes) (pv : V) (h : Dec (PUDP.unmarshal PIPv4.newUDP) pb pv) : Dec (ip6Data 17) pb pv := h

theorem ip6Data_other (nxt : UInt8) (h58 : nxt.toNat ≠ 58) (h17 : nxt.toNat ≠ 17) (pb : Bytes) :
    Dec (ip6Data nxt) pb (.obj "u.Buffer" [.bytes pb]) := by
  intro r hwf hb
  unfold ip6Data
  rw [if_neg (show ¬ nxt.toNat = Gen.protocol.Type_IPv6ICMP from h58), if_neg (show ¬ nxt.toNat = Gen.protocol.Type_UDP from h17)]
  exact buffer_dec _ pb r hwf hb

/-- IPv6: first word = version(4 bits) traffic class(8) flow label(20), payload length(2), next header(1), hop limit(1),
    source(16), destination(16), extension headers `eb`, upper-layer payload `pb` -/
theorem ipv6_dec (w : UInt32) (plen : UInt16) (nh hlim : UInt8) (src dst eb pb : Bytes) (nxt : UInt8) (hbh rt fr pv : V)
    (hsrc : src.length = 16) (hdst : dst.length = 16) (hx : Chain nh eb nxt hbh rt fr) (hp : Dec (ip6Data nxt) pb pv) :
    Dec (PIPv6.unmarshal PIPv6.zero) (be32 w ++ (be16 plen ++ ([nh, hlim] ++ (src ++ (dst ++ (eb ++ pb))))))
      (.obj "p.IPv6" [.num (w.toNat / 268435456), .num (w.toNat / 1048576 % 256), .num (w.toNat % 1048576), .num plen.toNat,
        .num nh.toNat, .num hlim.toNat, .bytes src, .bytes dst, hbh, rt, fr, pv]) := by
  intro r hwf hb
  obtain ⟨a0, a1, a2, a3, a4, a5, a6, a7, a8, a9, a10, a11, a12, a13, a14, a15, rfl⟩ := Sw.len16 src hsrc
  obtain ⟨c0, c1, c2, c3, c4, c5, c6, c7, c8, c9, c10, c11, c12, c13, c14, c15, rfl⟩ := Sw.len16 dst hdst
  have hl : r.len = 40 + eb.length + pb.length := by rw [← Sw.bytes_length r hwf, hb]; simp; omega
  obtain ⟨t1, e1, _, _, ht1⟩ := Sw.sliceR_at r hwf 8 24 (by omega) (by omega)
  obtain ⟨t2, e2, _, _, ht2⟩ := Sw.sliceR_at r hwf 24 40 (by omega) (by omega)
  obtain ⟨rest, e3, hrwf, _, hrest⟩ := Sw.fromR_at r hwf (40 + eb.length) (by omega)
  have hd40 : r.bytes.drop 40 = eb ++ pb := by rw [hb]; rfl
  have hrest' : rest.bytes = pb := by
    rw [hrest, ← List.drop_drop, hd40]; simp
  rw [hb] at ht1 ht2
  have hpay := hp rest hrwf hrest'
  unfold ip6Data at hpay
  have hwalk := hx r hwf pb hd40
  unfold PIPv6.unmarshal
  rw [if_neg (by omega)]
  simp only [Sw.byteAt_at r 0 (UInt8.ofNat (w.toNat / 16777216)) _ (by rw [hb]; rfl),
    Sw.byteAt_at r 1 (UInt8.ofNat (w.toNat / 65536 % 256)) _ (by rw [hb]; rfl),
    Sw.u32In_at r hwf 0 4 w _ (by omega) (by omega) (by rw [hb]; rfl),
    Sw.u16From_at r 4 plen _ (by rw [hb]; rfl), Sw.byteAt_at r 6 nh _ (by rw [hb]; rfl),
    Sw.byteAt_at r 7 hlim _ (by rw [hb]; rfl), e1, e2, Res.bind_ok, PIPv6.zero, hwalk, e3, Res.pure_eq, V.u8, V.u16, V.u32,
    v6_ver, v6_class, v6_flow, be32_b0, be32_b1, ht1, ht2]
  have hv : w.toNat / 16777216 / 16 = w.toNat / 268435456 := by omega
  have hc : w.toNat / 16777216 % 16 * 16 + w.toNat / 65536 % 256 / 16 = w.toNat / 1048576 % 256 := by omega
  rw [hv, hc]
  by_cases c1 : nxt.toNat = Gen.protocol.Type_IPv6ICMP
  · rw [if_pos c1] at hpay ⊢; rw [hpay]; rfl
  · rw [if_neg c1] at hpay ⊢
    by_cases c2 : nxt.toNat = Gen.protocol.Type_UDP
    · rw [if_pos c2] at hpay ⊢; rw [hpay]; rfl
    · rw [if_neg c2] at hpay ⊢; rw [hpay]; rfl

end OFV.Sw2
