/-
  OFV.Lemmas.Local9 — frame locality, round 6: flow-stats records and the multipart reply of type flow under the evaluated
  in-frame check `FlowStatsInFrame`; good frames in their final form (`GoodFrame3`).
-/
import OFV.Lemmas.Local8
namespace OFV.Model
open OFV OFV.Go OFV.Go.Slice

/-- `msgLoopW` with bodies that coincide on the states reachable under an invariant -/
theorem msgLoopW_congr_inv {σ} (cond : σ → Bool) (cursor : σ → Nat) (body body' : σ → R σ) (P : σ → Prop)
    (h : ∀ st, P st → cond st = true → body st = body' st)
    (hP : ∀ st st', P st → cond st = true → body' st = .ok st' → P st') :
    ∀ fuel st, P st → msgLoopW fuel cond cursor body st = msgLoopW fuel cond cursor body' st := by
  intro fuel
  induction fuel with
  | zero => intro st _; rfl
  | succ f ih =>
    intro st hst
    unfold msgLoopW
    by_cases hc : cond st = true
    · simp only [hc, if_true]
      rw [h st hst hc]
      cases hb : body' st with
      | ok s' => simp only []; split
                 · rfl
                 · exact ih _ (hP st s' hst hc hb)
      | err => rfl
      | panic => rfl
      | spin => rfl
    · simp only [hc]; rfl

/-- the instruction loop of a flow-stats record (`FlowStats.decodeInstrs`: it advances by the SECOND `instr.Len()`), checked -/
def fsInstrsOK (u : Slice) (limit : Nat) : Nat → Nat → Bool
  | 0, _ => false
  | f + 1, n =>
    if n < limit then
      (match u.fromR n with
       | .ok d =>
         instrOK d &&
         (match DecodeInstr d with
          | .ok i =>
            (match Instruction.lenM i with
             | .ok (l, i') =>
               l == 0 || (match Instruction.lenM i' with
                          | .ok (l2, _) => fsInstrsOK u limit f (n + l2.toNat)
                          | _ => true)
             | _ => true)
          | _ => true)
       | _ => true)
    else true

theorem fsInstrsOK_step (u : Slice) (limit : Nat) (n : Nat) (hI : ∃ f, fsInstrsOK u limit f n = true) (hlt : n < limit) :
    (∀ d, u.fromR n = .ok d → instrOK d = true) ∧
    (∀ d i l i' l2 i'', u.fromR n = .ok d → DecodeInstr d = .ok i → Instruction.lenM i = .ok (l, i') → l ≠ 0 →
      Instruction.lenM i' = .ok (l2, i'') → ∃ f, fsInstrsOK u limit f (n + l2.toNat) = true) := by
  obtain ⟨f, hf⟩ := hI
  cases f with
  | zero => simp [fsInstrsOK] at hf
  | succ f =>
    unfold fsInstrsOK at hf
    rw [if_pos hlt] at hf
    refine ⟨?_, ?_⟩
    · intro d hd
      rw [hd] at hf
      simp only [Bool.and_eq_true] at hf
      exact hf.1
    · intro d i l i' l2 i'' hd hdi hl hz hl2
      rw [hd] at hf
      simp only [hdi, hl, hl2, Bool.and_eq_true, Bool.or_eq_true, beq_iff_eq] at hf
      rcases hf.2 with h | h
      · exact absurd h hz
      · exact ⟨f, h⟩

theorem decodeInstrs_loc_ok {s u : Slice} (haw : AW s u) (limit n0 : Nat) (is0 : List V)
    (hok : ∃ f, fsInstrsOK u limit f n0 = true) :
    FlowStats.decodeInstrs s limit n0 is0 = FlowStats.decodeInstrs u limit n0 is0 := by
  unfold FlowStats.decodeInstrs
  rw [haw.len_eq]
  apply Res.bind_congr2 _ (fun _ => rfl)
  apply goLoop_congr_inv _ _ _ _ (fun st => ∃ f, fsInstrsOK u limit f st.n = true)
  · intro st hst hc
    simp only [decide_eq_true_eq] at hc
    obtain ⟨hin, _⟩ := fsInstrsOK_step u _ st.n hst hc
    rcases Slice.fromR_loc haw st.n with ⟨h5, h6⟩ | ⟨xd, yd, h5, h6, hxyd⟩
    · rw [h5, h6]
    · rw [h5, h6]
      simp only [Res.bind_ok]
      rw [DecodeInstr_loc_ok hxyd (hin yd h6)]
  · intro st st' hst hc hb
    simp only [decide_eq_true_eq] at hc
    obtain ⟨_, hnext⟩ := fsInstrsOK_step u _ st.n hst hc
    cases hd : u.fromR st.n with
    | ok yd =>
      rw [hd] at hb; simp only [Res.bind_ok] at hb
      cases hdi : DecodeInstr yd with
      | ok i =>
        rw [hdi] at hb; simp only [Res.bind_ok] at hb
        cases hl : Instruction.lenM i with
        | ok p =>
          obtain ⟨l, i'⟩ := p
          rw [hl] at hb; simp only [Res.bind_ok] at hb
          by_cases hz : l = 0
          · rw [if_pos hz] at hb; cases hb
          · rw [if_neg hz] at hb
            cases hl2 : Instruction.lenM i' with
            | ok q =>
              obtain ⟨l2, i''⟩ := q
              rw [hl2] at hb; simp only [Res.bind_ok] at hb
              cases hb; exact hnext yd i l i' l2 i'' hd hdi hl hz hl2
            | err => rw [hl2] at hb; cases hb
            | panic => rw [hl2] at hb; cases hb
            | spin => rw [hl2] at hb; cases hb
        | err => rw [hl] at hb; cases hb
        | panic => rw [hl] at hb; cases hb
        | spin => rw [hl] at hb; cases hb
      | err => rw [hdi] at hb; cases hb
      | panic => rw [hdi] at hb; cases hb
      | spin => rw [hdi] at hb; cases hb
    | err => rw [hd] at hb; cases hb
    | panic => rw [hd] at hb; cases hb
    | spin => rw [hd] at hb; cases hb
  · exact hok

/-- one flow-stats record at the start of `d`, checked: the 48 fixed bytes lie inside the slice and the instruction loop —
    from the end of the match up to the record's declared length — passes `fsInstrsOK` -/
def flowStatsOK (d : Slice) : Bool :=
  decide (48 ≤ d.len) &&
  (match d.u16From 0 with
   | .ok ln =>
     (match d.fromR 48 with
      | .ok dm =>
        (match Match.unmarshalP Match.new dm with
         | .ok mp =>
           (match Match.lenM mp.1 with
            | .ok lp => fsInstrsOK d ln.toNat (d.len + 2) (48 + lp.1.toNat)
            | _ => true)
         | _ => true)
      | _ => true)
   | _ => true)

theorem FlowStats_unmarshalP_new_loc_ok {x y : Slice} (haw : AW x y) (hok : flowStatsOK y = true) :
    FlowStats.unmarshalP FlowStats.new x = FlowStats.unmarshalP FlowStats.new y := by
  unfold flowStatsOK at hok
  simp only [Bool.and_eq_true, decide_eq_true_eq] at hok
  obtain ⟨h48, hrest⟩ := hok
  unfold FlowStats.unmarshalP FlowStats.new
  simp only []
  loc_norm haw
  apply bind_congr_ok; intro ln hln
  iterate 8 (apply Res.bind_congr2 rfl; intro _)
  apply Slice.sliceR_bind_loc haw _ _ _ _ (by omega); intro xs ys hxys
  simp only [hxys.bytes_eq]
  iterate 3 (apply Res.bind_congr2 rfl; intro _)
  rcases Slice.fromR_loc haw 48 with ⟨h3, h4⟩ | ⟨xm, ym, h3, h4, hxym⟩
  · rw [h3, h4]; simp only [Res.bind_panic]
  rw [h3, h4]
  simp only [Res.bind_ok]
  rw [Match_unmarshalP_loc _ hxym]
  apply bind_congr_ok; intro mp hmp
  apply bind_congr_ok; intro lp hlp
  simp only [hln, h4, hmp, hlp] at hrest
  rw [decodeInstrs_loc_ok haw _ _ _ ⟨_, hrest⟩]

theorem decodeRecord_loc_ok (ty : Nat) {x y : Slice} (haw : AW x y)
    (hok : ty = Gen.openflow13.MultipartType_Flow → flowStatsOK y = true) :
    MultipartReply.decodeRecord ty x = MultipartReply.decodeRecord ty y := by
  unfold MultipartReply.decodeRecord msgTryU
  rw [AggregateStats_loc _ haw, DescStats_loc _ haw, PortStats_loc _ haw, TableStats_loc _ haw, QueueStats_loc _ haw]
  apply ite_congr rfl (fun _ => rfl); intro _
  apply ite_congr rfl (fun _ => rfl); intro _
  apply ite_congr rfl _ (fun _ => rfl); intro hc
  exact FlowStats_unmarshalP_new_loc_ok haw (hok hc)

/-- the record loop of a multipart reply of type `ty` (`for n < Header.Length`), checked: every reached flow-stats record
    passes `flowStatsOK` -/
def recordsOK (cl : MsgLenF) (u : Slice) (ty limit : Nat) : Nat → Nat → Bool
  | 0, _ => false
  | f + 1, n =>
    if n < limit then
      (match u.fromR n with
       | .ok d =>
         (if ty = Gen.openflow13.MultipartType_Flow then flowStatsOK d else true) &&
         (match MultipartReply.decodeRecord ty d with
          | .ok (r, e) =>
            e || (match cl r with
                  | .ok (l, _) => l == 0 || recordsOK cl u ty limit f (n + l.toNat)
                  | _ => true)
          | _ => true)
       | _ => true)
    else true

theorem recordsOK_step (cl : MsgLenF) (u : Slice) (ty limit n : Nat) (hI : ∃ f, recordsOK cl u ty limit f n = true) (hlt : n < limit) :
    (∀ d, u.fromR n = .ok d → ty = Gen.openflow13.MultipartType_Flow → flowStatsOK d = true) ∧
    (∀ d r l r', u.fromR n = .ok d → MultipartReply.decodeRecord ty d = .ok (r, false) → cl r = .ok (l, r') → l ≠ 0 →
      ∃ f, recordsOK cl u ty limit f (n + l.toNat) = true) := by
  obtain ⟨f, hf⟩ := hI
  cases f with
  | zero => simp [recordsOK] at hf
  | succ f =>
    unfold recordsOK at hf
    rw [if_pos hlt] at hf
    refine ⟨?_, ?_⟩
    · intro d hd hty
      rw [hd] at hf
      simp only [Bool.and_eq_true, hty, if_true] at hf
      exact hf.1
    · intro d r l r' hd hdr hl hz
      rw [hd] at hf
      simp only [hdr, hl, Bool.and_eq_true, Bool.or_eq_true, beq_iff_eq, Bool.false_eq_true, false_or] at hf
      rcases hf.2 with h | h
      · exact absurd h hz
      · exact ⟨f, h⟩

/-- the in-frame condition of a multipart reply as Parse decodes it -/
def MultipartInFrameAt (cl : MsgLenF) (u : Slice) : Prop :=
  8 ≤ u.len ∧
  ∀ hp mt, msgTryU Header.unmarshal Header.zero u = .ok hp → u.u16From 8 = .ok mt →
    recordsOK cl u mt.toNat (Header.length hp.1) (u.len + 2) 16 = true

theorem MultipartReply_loc_inframe (cl : MsgLenF) {s u : Slice} (haw : AW s u) (hok : MultipartInFrameAt cl u) :
    MultipartReply.unmarshalWith cl MultipartReply.zero s = MultipartReply.unmarshalWith cl MultipartReply.zero u := by
  obtain ⟨h8, hok⟩ := hok
  unfold MultipartReply.unmarshalWith MultipartReply.zero
  simp only []
  loc_norm haw
  rw [msgTryU_Header_loc _ haw h8]
  apply bind_congr_ok; intro hp hhp
  apply bind_congr_ok; intro mt hmt
  apply Res.bind_congr2 rfl; intro _
  have hI := hok hp mt hhp hmt
  apply Res.bind_congr2 _ (fun _ => rfl)
  apply msgLoopW_congr_inv _ _ _ _ (fun st => ∃ f, recordsOK cl u mt.toNat (Header.length hp.1) f st.n = true)
  · intro st hst hc
    simp only [decide_eq_true_eq] at hc
    obtain ⟨hin, _⟩ := recordsOK_step cl u _ _ st.n hst hc
    rcases Slice.fromR_loc haw st.n with ⟨h5, h6⟩ | ⟨xd, yd, h5, h6, hxyd⟩
    · rw [h5, h6]
    · rw [h5, h6]
      simp only [Res.bind_ok]
      rw [decodeRecord_loc_ok _ hxyd (hin yd h6)]
  · intro st st' hst hc hb
    simp only [decide_eq_true_eq] at hc
    obtain ⟨_, hnext⟩ := recordsOK_step cl u _ _ st.n hst hc
    cases hd : u.fromR st.n with
    | ok yd =>
      rw [hd] at hb; simp only [Res.bind_ok] at hb
      cases hdr : MultipartReply.decodeRecord mt.toNat yd with
      | ok p =>
        obtain ⟨r, e⟩ := p
        rw [hdr] at hb; simp only [Res.bind_ok] at hb
        cases e with
        | true => simp at hb
        | false =>
          simp only [Bool.false_eq_true, if_false] at hb
          cases hl : cl r with
          | ok q =>
            obtain ⟨l, r'⟩ := q
            rw [hl] at hb; simp only [Res.bind_ok] at hb
            by_cases hz : l = 0
            · rw [if_pos hz] at hb; cases hb
            · rw [if_neg hz] at hb; cases hb; exact hnext yd r l r' hd hdr hl hz
          | err => rw [hl] at hb; cases hb
          | panic => rw [hl] at hb; cases hb
          | spin => rw [hl] at hb; cases hb
      | err => rw [hdr] at hb; cases hb
      | panic => rw [hdr] at hb; cases hb
      | spin => rw [hdr] at hb; cases hb
    | err => rw [hd] at hb; cases hb
    | panic => rw [hd] at hb; cases hb
    | spin => rw [hd] at hb; cases hb
  · exact ⟨_, hI⟩

/-- the in-frame condition of a multipart reply, evaluated on the visible bytes alone.  For a reply of a type other than
    flow it only asks for the 8 header bytes (the record walk has nothing to check). -/
def FlowStatsInFrame (t : Slice) : Prop := MultipartInFrameAt anyLenM (Slice.exact t.bytes)

theorem MultipartReply_loc_visible {s t : Slice} (haw : AW s t) (hok : FlowStatsInFrame t) :
    MultipartReply.unmarshalWith anyLenM MultipartReply.zero s = MultipartReply.unmarshalWith anyLenM MultipartReply.zero t := by
  have ht := AW_exact haw.2.1
  rw [MultipartReply_loc_inframe anyLenM (AW_trans haw ht) hok, MultipartReply_loc_inframe anyLenM ht hok]

/-- good frames, final form: at least 8 bytes; a flow-mod passes `FlowModInFrame`, a multipart reply passes
    `FlowStatsInFrame`; an experimenter frame is not cut before its Length field, a TLV table reply has Length ≥ 32, and the
    message embedded in a bundle-add is again good -/
def GoodFrame3 : Nat → Slice → Prop
  | 0, _ => False
  | n + 1, t =>
    8 ≤ t.len ∧
    ∀ tb, t.byteAt 1 = .ok tb →
      (tb.toNat = Gen.openflow13.Type_FlowMod → FlowModInFrame t) ∧
      (tb.toNat = Gen.openflow13.Type_MultiPartReply → FlowStatsInFrame t) ∧
      (tb.toNat = Gen.openflow13.Type_Experimenter →
        (∀ w, t.u16In 2 4 = .ok w → w.toNat ≤ t.len) ∧
        (∀ ty, t.u32From 12 = .ok ty →
          (ty.toNat = Gen.openflow13.Type_TlvTableReply → ∀ w, t.u16In 2 4 = .ok w → 32 ≤ w.toNat) ∧
          (ty.toNat = Gen.openflow13.Type_BundleAdd → ∀ w body ml inner, t.u16In 2 4 = .ok w →
            t.sliceR 16 w.toNat = .ok body → body.u16From 10 = .ok ml → body.sliceR 8 (8 + ml.toNat) = .ok inner →
            GoodFrame3 n inner)))

theorem parseD_good3_loc : ∀ (n : Nat) (s t : Slice), AW s t → GoodFrame3 n t → ∀ d d', t.len ≤ d → t.len ≤ d' →
    parseD (d + 1) s = parseD (d' + 1) t := by
  intro n
  induction n with
  | zero => intro s t _ hg; exact absurd hg (by unfold GoodFrame3; exact fun h => h)
  | succ n ih =>
    intro s t haw hg d d' hd hd'
    unfold GoodFrame3 at hg
    obtain ⟨h8, hk⟩ := hg
    unfold parseD
    rw [parseStep_loc4 (parseD d) (parseD d') haw h8]
    intro tb htb
    obtain ⟨hfm, hmp, hexp⟩ := hk tb htb
    refine ⟨fun he => ?_, fun hf => FlowMod_loc_visible haw (hfm hf), fun hm => MultipartReply_loc_visible haw (hmp hm)⟩
    obtain ⟨hL, hty⟩ := hexp he
    apply VendorHeader_unmarshalWith_loc_partial3 _ _ _ haw hL
    intro w ty x y hw hty' hy hxy
    obtain ⟨htlv, hba⟩ := hty ty hty'
    have hylen := (Slice.sliceR_wf t 16 _ y hy).2
    have hwle := hL w hw
    apply decodeVendorDataWith_loc_partial2 _ _ _ _ _ hxy
    · intro h26; have := htlv h26 w hw; omega
    · intro h2301 ml u v hml hv huv hv8 hvl
      have hgi := hba h2301 w y ml v hw hy hml hv
      have e1 : d = (d - 1) + 1 := by omega
      have e2 : d' = (d' - 1) + 1 := by omega
      rw [e1, e2]
      exact ih u v huv hgi _ _ (by omega) (by omega)

/-- Parse on every good frame (final form) -/
theorem parse_good4_loc (n : Nat) {s t : Slice} (haw : AW s t) (hg : GoodFrame3 n t) (d d' : Nat) : parse d s = parse d' t := by
  unfold parse
  have hs := haw.1
  have ht := haw.2.1
  have hl := haw.len_eq
  unfold Slice.WF at hs ht
  unfold Slice.cap
  have e1 : max d (s.buf.length + 1) = (max d (s.buf.length + 1) - 1) + 1 := by omega
  have e2 : max d' (t.buf.length + 1) = (max d' (t.buf.length + 1) - 1) + 1 := by omega
  rw [e1, e2]
  exact parseD_good3_loc n s t haw hg _ _ (by omega) (by omega)

/-- a conformant multipart reply of type flow, 104 bytes: one flow-stats record of 88 bytes (empty match, goto-table 5,
    apply-actions [output port 1]) -/
def mpGoodFrame : Bytes :=
  [4, 19, 0, 104, 0, 0, 0, 7, 0, 1, 0, 0, 0, 0, 0, 0] ++
  ([0, 88, 0, 0] ++ zeros 44 ++ [0, 1, 0, 4, 0, 0, 0, 0] ++ [0, 1, 0, 8, 5, 0, 0, 0] ++
   [0, 4, 0, 24, 0, 0, 0, 0] ++ [0, 0, 0, 16, 0, 0, 0, 1, 0xff, 0xff, 0, 0, 0, 0, 0, 0])

theorem mpGoodFrame_inframe (tail : Bytes) : FlowStatsInFrame ⟨mpGoodFrame ++ tail, 104⟩ := by
  have hb : (Slice.mk (mpGoodFrame ++ tail) 104).bytes = mpGoodFrame := by
    unfold Slice.bytes
    show List.take 104 (mpGoodFrame ++ tail) = mpGoodFrame
    rw [List.take_append_of_le_length (by decide)]
    rfl
  unfold FlowStatsInFrame
  rw [hb]
  refine ⟨by decide, ?_⟩
  intro hp mt hhp hmt
  have ehp : msgTryU Header.unmarshal Header.zero (Slice.exact mpGoodFrame) =
      .ok (.obj "Header" [.num 4, .num 19, .num 104, .num 7], false) := rfl
  rw [ehp] at hhp; cases hhp
  have emt : (Slice.exact mpGoodFrame).u16From 8 = .ok 1 := rfl
  rw [emt] at hmt; cases hmt
  rfl

/-- the over-read frame of `parse_multipart_flowstats_not_local_counterexample` fails the check -/
theorem mpCex_not_inframe : ¬ FlowStatsInFrame mpCexT := by
  intro h
  have hb : mpCexT.bytes = mpFrame := by rfl
  unfold FlowStatsInFrame at h
  rw [hb] at h
  have h' := h.2 (.obj "Header" [.num 4, .num 19, .num 80, .num 7], false) 1 rfl rfl
  have hf : recordsOK anyLenM (Slice.exact mpFrame) 1 80 ((Slice.exact mpFrame).len + 2) 16 = false := rfl
  exact absurd (h'.symm.trans hf) (by decide)

/-! ### further action kinds (standalone; not yet part of `ActionKindCovered`) -/

/-- the common prefix of the Nicira actions (`NXActionHeader` from `data[0:]`, then `len(data) < Length`): local -/
theorem nxPrefix_loc {s t : Slice} (haw : AW s t) : nxPrefix s = nxPrefix t := by
  unfold nxPrefix NXActionHeader.fresh
  rw [NXActionHeader_loc _ haw, haw.len_eq]

theorem NXActionConjunction_loc (recv : V) {s t : Slice} (haw : AW s t) :
    NXActionConjunction.unmarshal recv s = NXActionConjunction.unmarshal recv t := by
  unfold NXActionConjunction.unmarshal
  rw [nxPrefix_loc haw]
  loc_norm haw

theorem NXActionCTClear_loc (recv : V) {s t : Slice} (haw : AW s t) :
    NXActionCTClear.unmarshal recv s = NXActionCTClear.unmarshal recv t := by
  unfold NXActionCTClear.unmarshal
  rw [nxPrefix_loc haw]

theorem NXActionDecTTL_loc (recv : V) {s t : Slice} (haw : AW s t) :
    NXActionDecTTL.unmarshal recv s = NXActionDecTTL.unmarshal recv t := by
  unfold NXActionDecTTL.unmarshal
  rw [nxPrefix_loc haw]
  try loc_norm haw

/-- set-field: header from `data[0:]`, field from `data[4:]` — both checked against `len`: local -/
theorem ActionSetField_loc (recv : V) {s t : Slice} (haw : AW s t) :
    ActionSetField.unmarshal recv s = ActionSetField.unmarshal recv t := by
  unfold ActionSetField.unmarshal
  split
  · repeat' first
      | loc_step haw
      | simp only [ActionHeader_loc _ ‹AW _ _›]
      | simp only [MatchField_loc _ ‹AW _ _›]
  · rfl

end OFV.Model
