/-
  OFV.Lemmas.Local9 — frame locality, round 6: flow-stats records and the multipart reply of type flow under the evaluated
  in-frame check `FlowStatsInFrame`; good frames in their final form (`GoodFrame3`).
-/
import OFV.Lemmas.Local8
namespace OFV.Model
open OFV OFV.Go OFV.Go.Slice

/-- `msgLoopW` with bodies that coincide on the states reachable under an invariant -/
theorem msgLoopW_congr_inv {σ} (cond : σ → Bool) (cursor : σ → Nat) (body body' : σ → R σ) (P : σ → Prop)
    (h : ∀ st, P st → cond st = true → body st = body' st)
    (hP : ∀ st st', P st → cond st = true → body' st = .ok st' → P st') :
    ∀ fuel st, P st → msgLoopW fuel cond cursor body st = msgLoopW fuel cond cursor body' st := by
  intro fuel
  induction fuel with
  | zero => intro st _; rfl
  | succ f ih =>
    intro st hst
    unfold msgLoopW
    by_cases hc : cond st = true
    · simp only [hc, if_true]
      rw [h st hst hc]
      cases hb : body' st with
      | ok s' => simp only []; split
                 · rfl
                 · exact ih _ (hP st s' hst hc hb)
      | err => rfl
      | panic => rfl
      | spin => rfl
    · simp only [hc]; rfl

/-- the instruction loop of a flow-stats record (`FlowStats.decodeInstrs`: it advances by the SECOND `instr.Len()`), checked -/
def fsInstrsOK (u : Slice) (limit : Nat) : Nat → Nat → Bool
  | 0, _ => false
  | f + 1, n =>
    if n < limit then
      (match u.fromR n with
       | .ok d =>
         instrOK d &&
         (match DecodeInstr d with
          | .ok i =>
            (match Instruction.lenM i with
             | .ok (l, i') =>
               l == 0 || (match Instruction.lenM i' with
                          | .ok (l2, _) => fsInstrsOK u limit f (n + l2.toNat)
                          | _ => true)
             | _ => true)
          | _ => true)
       | _ => true)
    else true

theorem fsInstrsOK_step (u : Slice) (limit : Nat) (n : Nat) (hI : ∃ f, fsInstrsOK u limit f n = true) (hlt : n < limit) :
    (∀ d, u.fromR n = .ok d → instrOK d = true) ∧
    (∀ d i l i' l2 i'', u.fromR n = .ok d → DecodeInstr d = .ok i → Instruction.lenM i = .ok (l, i') → l ≠ 0 →
      Instruction.lenM i' = .ok (l2, i'') → ∃ f, fsInstrsOK u limit f (n + l2.toNat) = true) := by
  obtain ⟨f, hf⟩ := hI
  cases f with
  | zero => simp [fsInstrsOK] at hf
  | succ f =>
    unfold fsInstrsOK at hf
    rw [if_pos hlt] at hf
    refine ⟨?_, ?_⟩
    · intro d hd
      rw [hd] at hf
      simp only [Bool.and_eq_true] at hf
      exact hf.1
    · intro d i l i' l2 i'' hd hdi hl hz hl2
      rw [hd] at hf
      simp only [hdi, hl, hl2, Bool.and_eq_true, Bool.or_eq_true, beq_iff_eq] at hf
      rcases hf.2 with h | h
      · exact absurd h hz
      · exact ⟨f, h⟩

theorem decodeInstrs_loc_ok {s u : Slice} (haw : AW s u) (limit n0 : Nat) (is0 : List V)
    (hok : ∃ f, fsInstrsOK u limit f n0 = true) :
    FlowStats.decodeInstrs s limit n0 is0 = FlowStats.decodeInstrs u limit n0 is0 := by
  unfold FlowStats.decodeInstrs
  rw [haw.len_eq]
  apply Res.bind_congr2 _ (fun _ => rfl)
  apply goLoop_congr_inv _ _ _ _ (fun st => ∃ f, fsInstrsOK u limit f st.n = true)
  · intro st hst hc
    simp only [decide_eq_true_eq] at hc
    obtain ⟨hin, _⟩ := fsInstrsOK_step u _ st.n hst hc
    rcases Slice.fromR_loc haw st.n with ⟨h5, h6⟩ | ⟨xd, yd, h5, h6, hxyd⟩
    · rw [h5, h6]
    · rw [h5, h6]
      simp only [Res.bind_ok]
      rw [DecodeInstr_loc_ok hxyd (hin yd h6)]
  · intro st st' hst hc hb
    simp only [decide_eq_true_eq] at hc
    obtain ⟨_, hnext⟩ := fsInstrsOK_step u _ st.n hst hc
    cases hd : u.fromR st.n with
    | ok yd =>
      rw [hd] at hb; simp only [Res.bind_ok] at hb
      cases hdi : DecodeInstr yd with
      | ok i =>
        rw [hdi] at hb; simp only [Res.bind_ok] at hb
        cases hl : Instruction.lenM i with
        | ok p =>
          obtain ⟨l, i'⟩ := p
          rw [hl] at hb; simp only [Res.bind_ok] at hb
          by_cases hz : l = 0
          · rw [if_pos hz] at hb; cases hb
          · rw [if_neg hz] at hb
            cases hl2 : Instruction.lenM i' with
            | ok q =>
              obtain ⟨l2, i''⟩ := q
              rw [hl2] at hb; simp only [Res.bind_ok] at hb
              cases hb; exact hnext yd i l i' l2 i'' hd hdi hl hz hl2
            | err => rw [hl2] at hb; cases hb
            | panic => rw [hl2] at hb; cases hb
            | spin => rw [hl2] at hb; cases hb
        | err => rw [hl] at hb; cases hb
        | panic => rw [hl] at hb; cases hb
        | spin => rw [hl] at hb; cases hb
      | err => rw [hdi] at hb; cases hb
      | panic => rw [hdi] at hb; cases hb
      | spin => rw [hdi] at hb; cases hb
    | err => rw [hd] at hb; cases hb
    | panic => rw [hd] at hb; cases hb
    | spin => rw [hd] at hb; cases hb
  · exact hok

/-- one flow-stats record at the start of `d`, checked: the 48 fixed bytes lie inside the slice and the instruction loop —
    from the end of the match up to the record's declared length — passes `fsInstrsOK` -/
def flowStatsOK (d : Slice) : Bool :=
  decide (48 ≤ d.len) &&
  (match d.u16From 0 with
   | .ok ln =>
     (match d.fromR 48 with
      | .ok dm =>
        (match Match.unmarshalP Match.new dm with
         | .ok mp =>
           (match Match.lenM mp.1 with
            | .ok lp => fsInstrsOK d ln.toNat (d.len + 2) (48 + lp.1.toNat)
            | _ => true)
         | _ => true)
      | _ => true)
   | _ => true)

theorem FlowStats_unmarshalP_new_loc_ok {x y : Slice} (haw : AW x y) (hok : flowStatsOK y = true) :
    FlowStats.unmarshalP FlowStats.new x = FlowStats.unmarshalP FlowStats.new y := by
  unfold flowStatsOK at hok
  simp only [Bool.and_eq_true, decide_eq_true_eq] at hok
  obtain ⟨h48, hrest⟩ := hok
  unfold FlowStats.unmarshalP FlowStats.new
  simp only []
  loc_norm haw
  apply bind_congr_ok; intro ln hln
  iterate 8 (apply Res.bind_congr2 rfl; intro _)
  apply Slice.sliceR_bind_loc haw _ _ _ _ (by omega); intro xs ys hxys
  simp only [hxys.bytes_eq]
  iterate 3 (apply Res.bind_congr2 rfl; intro _)
  rcases Slice.fromR_loc haw 48 with ⟨h3, h4⟩ | ⟨xm, ym, h3, h4, hxym⟩
  · rw [h3, h4]; simp only [Res.bind_panic]
  rw [h3, h4]
  simp only [Res.bind_ok]
  rw [Match_unmarshalP_loc _ hxym]
  apply bind_congr_ok; intro mp hmp
  apply bind_congr_ok; intro lp hlp
  simp only [hln, h4, hmp, hlp] at hrest
  rw [decodeInstrs_loc_ok haw _ _ _ ⟨_, hrest⟩]

end OFV.Model
