/-
  OFV.Lemmas.ParsePost — a small postcondition calculus for the decoder model, used by property C07 (the parser is total).
    Post r Q : the outcome `r` is not `.spin`, and if it is `.ok a` then `Q a`
    NS r     : `r` is not `.spin`  (= Post r (fun _ => True))
  Rules for `pure`, `>>=`, the slice reads (which can only return a value or panic) and the two loop combinators
  (`goLoop`, `msgLoopW`: an invariant that every iteration re-establishes while moving a bounded cursor forward),
  and the tactic `post_auto [lemmas]` that walks through a straight-line decoder.
-/
import OFV.Model.All
import OFV.Lemmas.Read
import OFV.Lemmas.Loop
import OFV.Lemmas.Size
namespace OFV.Model
open OFV OFV.Go

/-- `r` does not spin, and if it returns a value the value satisfies `Q` -/
def Post {α} (r : R α) (Q : α → Prop) : Prop := r ≠ .spin ∧ ∀ a, r = .ok a → Q a

/-- never `.spin` -/
abbrev NS {α} (r : R α) : Prop := Post r (fun _ => True)

theorem NS.ne {α} {r : R α} (h : NS r) : r ≠ .spin := h.1
theorem NS.of_ne {α} {r : R α} (h : r ≠ .spin) : NS r := ⟨h, fun _ _ => trivial⟩

theorem post_ok {α} {a : α} {Q : α → Prop} (h : Q a) : Post (.ok a : R α) Q :=
  ⟨by simp, fun b hb => by cases hb; exact h⟩
theorem post_pure {α} {a : α} {Q : α → Prop} (h : Q a) : Post (pure a : R α) Q := post_ok h
theorem post_err {α} {Q : α → Prop} : Post (.err : R α) Q := ⟨by simp, fun b hb => by cases hb⟩
theorem post_panic {α} {Q : α → Prop} : Post (.panic : R α) Q := ⟨by simp, fun b hb => by cases hb⟩
theorem ns_ok {α} (a : α) : NS (.ok a : R α) := post_ok trivial
theorem ns_pure {α} (a : α) : NS (pure a : R α) := post_ok trivial

theorem post_bind {α β} {r : R α} {f : α → R β} {P : α → Prop} {Q : β → Prop}
    (h1 : Post r P) (h2 : ∀ a, r = .ok a → P a → Post (f a) Q) : Post (r >>= f) Q := by
  cases r with
  | ok a => exact h2 a rfl (h1.2 a rfl)
  | err => exact post_err
  | panic => exact post_panic
  | spin => exact absurd rfl h1.1

theorem post_bind_ns {α β} {r : R α} {f : α → R β} {Q : β → Prop}
    (h1 : NS r) (h2 : ∀ a, r = .ok a → Post (f a) Q) : Post (r >>= f) Q :=
  post_bind h1 (fun a ha _ => h2 a ha)

theorem post_mono {α} {r : R α} {P Q : α → Prop} (h : Post r P) (hpq : ∀ a, P a → Q a) : Post r Q :=
  ⟨h.1, fun a ha => hpq a (h.2 a ha)⟩

theorem Post.ns {α} {r : R α} {P : α → Prop} (h : Post r P) : NS r := ⟨h.1, fun _ _ => trivial⟩

theorem ns_ofOption {α} (o : Option α) : NS (Res.ofOption o) := by
  cases o <;> simp [Res.ofOption] <;> first | exact ns_ok _ | exact post_panic

theorem ns_byteAt (s : Slice) (n : Nat) : NS (s.byteAt n) := ns_ofOption _
theorem ns_fromR (s : Slice) (n : Nat) : NS (s.fromR n) := ns_ofOption _
theorem ns_sliceR (s : Slice) (a b : Nat) : NS (s.sliceR a b) := ns_ofOption _
theorem ns_uptoR (s : Slice) (b : Nat) : NS (s.uptoR b) := ns_ofOption _
theorem ns_u16Here (s : Slice) : NS s.u16Here := ns_ofOption _
theorem ns_u32Here (s : Slice) : NS s.u32Here := ns_ofOption _
theorem ns_u64Here (s : Slice) : NS s.u64Here := ns_ofOption _
theorem ns_u16From (s : Slice) (n : Nat) : NS (s.u16From n) := post_bind_ns (ns_fromR _ _) (fun _ _ => ns_u16Here _)
theorem ns_u32From (s : Slice) (n : Nat) : NS (s.u32From n) := post_bind_ns (ns_fromR _ _) (fun _ _ => ns_u32Here _)
theorem ns_u64From (s : Slice) (n : Nat) : NS (s.u64From n) := post_bind_ns (ns_fromR _ _) (fun _ _ => ns_u64Here _)
theorem ns_u16In (s : Slice) (a b : Nat) : NS (s.u16In a b) := post_bind_ns (ns_sliceR _ _ _) (fun _ _ => ns_u16Here _)
theorem ns_u32In (s : Slice) (a b : Nat) : NS (s.u32In a b) := post_bind_ns (ns_sliceR _ _ _) (fun _ _ => ns_u32Here _)
theorem ns_u64In (s : Slice) (a b : Nat) : NS (s.u64In a b) := post_bind_ns (ns_sliceR _ _ _) (fun _ _ => ns_u64Here _)
theorem ns_same {α} (a : α) (v : V) : NS (same a v) := ns_ok _

/-- leaves: constructors and slice reads (reducible transparency: never unfolds a decoder to look for a match) -/
macro "post_leaf" : tactic => `(tactic| with_reducible (first
  | exact post_err | exact post_panic | exact ns_ok _ | exact ns_pure _ | exact ns_same _ _
  | exact ns_byteAt _ _ | exact ns_fromR _ _ | exact ns_sliceR _ _ _ | exact ns_uptoR _ _
  | exact ns_u16From _ _ | exact ns_u32From _ _ | exact ns_u64From _ _
  | exact ns_u16In _ _ _ | exact ns_u32In _ _ _ | exact ns_u64In _ _ _
  | exact ns_u16Here _ | exact ns_u32Here _ | exact ns_u64Here _
  | exact ns_ofOption _ | trivial))

/-- walk through a straight-line decoder: leaves, the given lemmas (for the calls), `>>=`, `if` / `match` -/
syntax "post_auto" ("[" term,* "]")? : tactic
macro_rules
  | `(tactic| post_auto) =>
    `(tactic| repeat' (first | post_leaf | (with_reducible apply post_bind_ns) | intro _ | split | (simp only [])))
  | `(tactic| post_auto [$ts,*]) => do
    let alts ← ts.getElems.mapM fun t => `(tactic| apply $t)
    `(tactic| repeat' (first | post_leaf | (with_reducible (first $[| $alts:tactic]*)) | (with_reducible apply post_bind_ns) | intro _ | split | (simp only [])))

/-- invariant rule for `goLoop`: every iteration keeps `I`, advances the cursor and runs only below `bound` -/
theorem goLoop_post {σ} (cond : σ → Bool) (cursor : σ → Nat) (body : σ → R σ) (I : σ → Prop) (bound : Nat)
    (hstep : ∀ s, I s → cond s = true → Post (body s) (fun s' => I s' ∧ cursor s < cursor s' ∧ cursor s < bound)) :
    ∀ fuel s, I s → bound - cursor s < fuel → Post (goLoop fuel cond cursor body s) (fun t => I t ∧ cond t = false) := by
  intro fuel
  induction fuel with
  | zero => intro s _ h; omega
  | succ f ih =>
    intro s hI h
    unfold goLoop
    by_cases hc : cond s = true
    · simp only [hc, if_true]
      have hb := hstep s hI hc
      cases hbody : body s with
      | ok s' =>
        obtain ⟨hI', hadv, hlt⟩ := hb.2 s' hbody
        simp only
        rw [if_neg (by omega)]
        exact ih s' hI' (by omega)
      | err => exact post_err
      | panic => exact post_panic
      | spin => exact absurd hbody hb.1
    · simp only [hc]
      exact post_ok ⟨hI, by simpa using hc⟩

theorem msgLoopW_post {σ} (cond : σ → Bool) (cursor : σ → Nat) (body : σ → R σ) (I : σ → Prop) (bound : Nat)
    (hstep : ∀ s, I s → cond s = true → Post (body s) (fun s' => I s' ∧ cursor s < cursor s' ∧ cursor s < bound)) :
    ∀ fuel s, I s → bound - cursor s < fuel → Post (msgLoopW fuel cond cursor body s) (fun t => I t ∧ cond t = false) := by
  intro fuel
  induction fuel with
  | zero => intro s _ h; omega
  | succ f ih =>
    intro s hI h
    unfold msgLoopW
    by_cases hc : cond s = true
    · simp only [hc, if_true]
      have hb := hstep s hI hc
      cases hbody : body s with
      | ok s' =>
        obtain ⟨hI', hadv, hlt⟩ := hb.2 s' hbody
        simp only
        rw [if_neg (by omega)]
        exact ih s' hI' (by omega)
      | err => exact post_err
      | panic => exact post_panic
      | spin => exact absurd hbody hb.1
    · simp only [hc]
      exact post_ok ⟨hI, by simpa using hc⟩

theorem fromR_inv (s : Slice) (a : Nat) (t : Slice) (h : s.fromR a = .ok t) : a ≤ s.len ∧ t.len = s.len - a := by
  unfold Slice.fromR Slice.from_ Res.ofOption at h
  split at h
  · rename_i x hx
    split at hx
    · cases hx; cases h; exact ⟨by assumption, rfl⟩
    · cases hx
  · cases h

end OFV.Model
