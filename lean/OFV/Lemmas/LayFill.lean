/-
  OFV.Lemmas.LayFill — where a piece of a `fill L pieces` encoder ends up in the result (for the layout theorems of
  C03b).  The running offset only grows, so a piece is never overwritten by a later one below the offset it advanced to;
  hence the bytes a piece wrote (as far as its own advance reaches) are found in the result at the sum of the advances
  of the pieces before it — whatever those pieces were (no tightness needed) and whatever follows.
-/
import OFV.Go.Fill
import OFV.Lemmas.Fill
import OFV.Lemmas.BeAt
namespace OFV.Go
open OFV OFV.Spec

/-- the bytes a piece copies into the buffer (nothing for a skip) -/
def Piece.raw : Piece → Bytes
  | .put bs => bs
  | .copy bs => bs
  | .copyAdv bs _ => bs
  | .skip _ => []

theorem overwrite_take_le (buf : Bytes) (n : Nat) (bs : Bytes) (m : Nat) (hm : m ≤ n) (hn : n ≤ buf.length) :
    (overwrite buf n bs).take m = buf.take m := by
  unfold overwrite
  rw [List.append_assoc, List.take_append_of_le_length (by simp; omega)]
  rw [List.take_take]
  congr 1; omega

/-- a successful run never touches the bytes below the starting offset -/
theorem fillFrom_take (ps : List Piece) : ∀ (buf : Bytes) (n : Nat) (out : Bytes),
    fillFrom buf n ps = .ok out → ∀ m, m ≤ n → out.take m = buf.take m := by
  induction ps with
  | nil => intro buf n out h m _; simp [fillFrom] at h; rw [h]
  | cons p ps ih =>
    intro buf n out h m hm
    cases p with
    | put bs =>
      simp only [fillFrom] at h
      split at h
      · rw [ih _ _ _ h m (by omega), overwrite_take_le _ _ _ _ hm (by omega)]
      · exact absurd h (by simp)
    | copy bs =>
      simp only [fillFrom] at h
      split at h
      · rw [ih _ _ _ h m (by omega), overwrite_take_le _ _ _ _ hm (by omega)]
      · exact absurd h (by simp)
    | copyAdv bs a =>
      simp only [fillFrom] at h
      split at h
      · rw [ih _ _ _ h m (by omega), overwrite_take_le _ _ _ _ hm (by omega)]
      · exact absurd h (by simp)
    | skip k =>
      simp only [fillFrom] at h
      exact ih _ _ _ h m (by omega)

/-- running the pieces `ps ++ qs` = running `ps`, then `qs` from the offset `ps` advanced to -/
theorem fillFrom_append (ps qs : List Piece) : ∀ (buf : Bytes) (n : Nat),
    fillFrom buf n (ps ++ qs) = (fillFrom buf n ps >>= fun b => fillFrom b (n + piecesLen ps) qs) := by
  induction ps with
  | nil => intro buf n; simp [fillFrom, piecesLen]
  | cons p ps ih =>
    intro buf n
    have hpl : piecesLen (p :: ps) = p.adv + piecesLen ps := by simp [piecesLen]
    cases p with
    | put bs =>
      simp only [List.cons_append, fillFrom, hpl, Piece.adv]
      split
      · rw [ih, Nat.add_assoc]
      · rfl
    | copy bs =>
      simp only [List.cons_append, fillFrom, hpl, Piece.adv]
      split
      · rw [ih, Nat.add_assoc]
      · rfl
    | copyAdv bs a =>
      simp only [List.cons_append, fillFrom, hpl, Piece.adv]
      split
      · rw [ih, Nat.add_assoc]
      · rfl
    | skip k =>
      simp only [List.cons_append, fillFrom, hpl, Piece.adv]
      rw [ih, Nat.add_assoc]

theorem bind_ok_inv' {α β} (r : Res α) (f : α → Res β) (y : β) (h : (r >>= f) = .ok y) :
    ∃ x, r = .ok x ∧ f x = .ok y := by
  cases r with
  | ok x => exact ⟨x, rfl, h⟩
  | err => exact absurd h (by simp)
  | panic => exact absurd h (by simp)
  | spin => exact absurd h (by simp)

theorem overwrite_window (buf : Bytes) (n : Nat) (bs : Bytes) (m : Nat) (hm : m ≤ bs.length) (hfit : n + m ≤ buf.length) :
    (overwrite buf n bs).take (n + m) = buf.take n ++ bs.take m := by
  unfold overwrite
  have hl : (buf.take n).length = n := by simp; omega
  rw [List.append_assoc, List.take_append, hl]
  have h1 : (buf.take n).take (n + m) = buf.take n := by
    rw [List.take_take]; congr 1; omega
  rw [h1]
  congr 1
  have h2 : n + m - n = m := by omega
  rw [h2, List.take_append_of_le_length (by simp; omega), List.take_take]
  congr 1; omega

/-- the first piece: its first `m` bytes (m within what it copies, within its own advance, within the buffer) are in
    the result at the current offset -/
theorem fillFrom_head (p : Piece) (qs : List Piece) (buf : Bytes) (n : Nat) (out : Bytes)
    (h : fillFrom buf n (p :: qs) = .ok out) (m : Nat) (hm : m ≤ p.raw.length) (ha : m ≤ p.adv)
    (hfit : n + m ≤ buf.length) : (out.drop n).take m = p.raw.take m := by
  have key : ∀ (bs : Bytes) (a : Nat), m ≤ bs.length → m ≤ a → n ≤ buf.length →
      fillFrom (overwrite buf n bs) (n + a) qs = .ok out → (out.drop n).take m = bs.take m := by
    intro bs a h1 h2 h3 h4
    have := fillFrom_take qs _ _ _ h4 (n + m) (by omega)
    rw [overwrite_window _ _ _ _ h1 hfit] at this
    rw [List.take_drop, this]
    have hl : (buf.take n).length = n := by simp; omega
    rw [List.drop_append, hl, Nat.sub_self, List.drop_zero]
    have : List.drop n (List.take n buf) = [] := List.drop_eq_nil_of_le (by omega)
    rw [this]; rfl
  cases p with
  | put bs =>
    simp only [fillFrom] at h
    split at h
    · exact key bs _ hm ha (by omega) h
    · exact absurd h (by simp)
  | copy bs =>
    simp only [fillFrom] at h
    split at h
    · exact key bs _ hm ha (by omega) h
    · exact absurd h (by simp)
  | copyAdv bs a =>
    simp only [fillFrom] at h
    split at h
    · exact key bs _ hm ha (by omega) h
    · exact absurd h (by simp)
  | skip k =>
    simp only [Piece.raw, List.length_nil] at hm
    have : m = 0 := by omega
    subst this; simp

/-- a `put` that succeeded fitted -/
theorem fillFrom_put_fits (bs : Bytes) (qs : List Piece) (buf : Bytes) (n : Nat) (out : Bytes)
    (h : fillFrom buf n (.put bs :: qs) = .ok out) : n + bs.length ≤ buf.length := by
  simp only [fillFrom] at h
  split at h
  · assumption
  · exact absurd h (by simp)

/-- THE LAYOUT LEMMA: in a successful `fill L ps`, the k-th piece's first `m` bytes (m ≤ what it copies, m ≤ its own
    advance, all inside the buffer) are found at the sum of the advances of the pieces before it. -/
theorem fill_piece_at (L : Nat) (ps : List Piece) (out : Bytes) (h : fill L ps = .ok out)
    (k : Nat) (p : Piece) (hk : ps[k]? = some p) (off : Nat) (hoff : piecesLen (ps.take k) = off)
    (m : Nat) (hm : m ≤ p.raw.length) (ha : m ≤ p.adv) (hfit : off + m ≤ L) :
    (out.drop off).take m = p.raw.take m := by
  have hlt : k < ps.length := (List.getElem?_eq_some_iff.mp hk).1
  have hsplit : ps = ps.take k ++ p :: ps.drop (k + 1) := by
    have hc : ps[k] = p := (List.getElem?_eq_some_iff.mp hk).2
    rw [← hc]
    exact (List.take_append_drop k ps).symm.trans (by rw [List.drop_eq_getElem_cons hlt])
  unfold fill at h
  rw [hsplit, fillFrom_append] at h
  obtain ⟨b1, hb1, h2⟩ := bind_ok_inv' _ _ _ h
  have hl1 := fillFrom_length _ _ _ _ hb1
  simp only [zeros_length, Nat.zero_add, hoff] at hl1 h2
  exact fillFrom_head p _ b1 off out h2 m hm ha (by omega)

/-- … for a `put` the fit is implied by success -/
theorem fill_put_at (L : Nat) (ps : List Piece) (out : Bytes) (h : fill L ps = .ok out)
    (k : Nat) (bs : Bytes) (hk : ps[k]? = some (.put bs)) (off : Nat) (hoff : piecesLen (ps.take k) = off) :
    (out.drop off).take bs.length = bs := by
  have hlt : k < ps.length := (List.getElem?_eq_some_iff.mp hk).1
  have hsplit : ps = ps.take k ++ .put bs :: ps.drop (k + 1) := by
    have hc : ps[k] = .put bs := (List.getElem?_eq_some_iff.mp hk).2
    rw [← hc]
    exact (List.take_append_drop k ps).symm.trans (by rw [List.drop_eq_getElem_cons hlt])
  have h' := h
  unfold fill at h'
  rw [hsplit, fillFrom_append] at h'
  obtain ⟨b1, hb1, h2⟩ := bind_ok_inv' _ _ _ h'
  have hl1 := fillFrom_length _ _ _ _ hb1
  simp only [zeros_length, Nat.zero_add, hoff] at hl1 h2
  have hfit := fillFrom_put_fits _ _ _ _ _ h2
  have := fill_piece_at L ps out h k _ hk off hoff bs.length (Nat.le_refl _) (Nat.le_refl _) (by omega)
  simpa [Piece.raw] using this

theorem beAt_of_window (out : Bytes) (off w : Nat) (bs : Bytes) (h : (out.drop off).take w = bs) :
    beAt out off w = beAt bs 0 w := by
  unfold beAt
  rw [h, List.drop_zero]
  have : bs.take w = bs := by rw [← h, List.take_take, Nat.min_self]
  rw [this]

theorem fill_be16_at (L : Nat) (ps : List Piece) (out : Bytes) (h : fill L ps = .ok out)
    (k : Nat) (x : UInt16) (hk : ps[k]? = some (.put (be16 x))) (off : Nat) (hoff : piecesLen (ps.take k) = off) :
    beAt out off 2 = x.toNat := by
  have := fill_put_at L ps out h k _ hk off hoff
  rw [beAt_of_window out off 2 _ this]
  simpa using beAt_be16 x []

theorem fill_be32_at (L : Nat) (ps : List Piece) (out : Bytes) (h : fill L ps = .ok out)
    (k : Nat) (x : UInt32) (hk : ps[k]? = some (.put (be32 x))) (off : Nat) (hoff : piecesLen (ps.take k) = off) :
    beAt out off 4 = x.toNat := by
  have := fill_put_at L ps out h k _ hk off hoff
  rw [beAt_of_window out off 4 _ this]
  simpa using beAt_be32 x []

theorem fill_be64_at (L : Nat) (ps : List Piece) (out : Bytes) (h : fill L ps = .ok out)
    (k : Nat) (x : UInt64) (hk : ps[k]? = some (.put (be64 x))) (off : Nat) (hoff : piecesLen (ps.take k) = off) :
    beAt out off 8 = x.toNat := by
  have := fill_put_at L ps out h k _ hk off hoff
  rw [beAt_of_window out off 8 _ this]
  simpa using beAt_be64 x []

theorem fill_u8_at (L : Nat) (ps : List Piece) (out : Bytes) (h : fill L ps = .ok out)
    (k : Nat) (x : UInt8) (hk : ps[k]? = some (.put [x])) (off : Nat) (hoff : piecesLen (ps.take k) = off) :
    beAt out off 1 = x.toNat := by
  have := fill_put_at L ps out h k _ hk off hoff
  rw [beAt_of_window out off 1 _ this]
  simp [beAt]

/-- reading inside the first part of a concatenation -/
theorem beAt_append_left (a b : Bytes) (off w : Nat) (h : off + w ≤ a.length) : beAt (a ++ b) off w = beAt a off w := by
  unfold beAt
  rw [List.drop_append, List.take_append_of_le_length (by simp; omega)]

theorem window_append_left (a b : Bytes) (off w : Nat) (h : off + w ≤ a.length) :
    ((a ++ b).drop off).take w = (a.drop off).take w := by
  rw [List.drop_append, List.take_append_of_le_length (by simp; omega)]

theorem window_append_right (a b : Bytes) (k w : Nat) : ((a ++ b).drop (a.length + k)).take w = (b.drop k).take w := by
  rw [List.drop_append]
  have : List.drop (a.length + k) a = [] := List.drop_eq_nil_of_le (by omega)
  simp [this]

theorem beAt_append_right' (a b : Bytes) (off k w : Nat) (h : off = a.length + k) : beAt (a ++ b) off w = beAt b k w := by
  subst h; exact beAt_append_right a b k w

theorem window_append_right' (a b : Bytes) (off k w : Nat) (h : off = a.length + k) :
    ((a ++ b).drop off).take w = (b.drop k).take w := by
  subst h; exact window_append_right a b k w

/-- a read that lies below `m` only depends on the first `m` bytes -/
theorem beAt_take (bs : Bytes) (m off w : Nat) (h : off + w ≤ m) : beAt (bs.take m) off w = beAt bs off w := by
  unfold beAt
  rw [List.drop_take, List.take_take]
  congr 2; omega

theorem window_take (bs : Bytes) (m off w : Nat) (h : off + w ≤ m) :
    ((bs.take m).drop off).take w = (bs.drop off).take w := by
  rw [List.drop_take, List.take_take]
  congr 1; omega

/-! ### bytes and lengths of piece lists -/

theorem piecesBytes_append (a b : List Piece) : piecesBytes (a ++ b) = piecesBytes a ++ piecesBytes b := by
  simp [piecesBytes]
theorem piecesLen_append (a b : List Piece) : piecesLen (a ++ b) = piecesLen a + piecesLen b := by
  simp [piecesLen]

theorem piecesLen_eq_bytes (ps : List Piece) (ht : ∀ p ∈ ps, p.Tight) : piecesLen ps = (piecesBytes ps).length := by
  induction ps with
  | nil => rfl
  | cons p ps ih =>
    have := ih (fun q hq => ht q (by simp [hq]))
    have htp := ht p (by simp)
    have e : piecesLen (p :: ps) = p.adv + piecesLen ps := by simp [piecesLen]
    have e2 : piecesBytes (p :: ps) = p.bytes ++ piecesBytes ps := by simp [piecesBytes]
    rw [e, e2, List.length_append, this]
    congr 1
    cases p with
    | put bs => rfl
    | copy bs => rfl
    | copyAdv bs a =>
      simp only [Piece.Tight] at htp
      simp [Piece.adv, Piece.bytes]; omega
    | skip k => simp [Piece.adv, Piece.bytes]

theorem piecesBytes_map_copy (bss : List Bytes) : piecesBytes (bss.map Piece.copy) = bss.flatten := by
  induction bss with
  | nil => rfl
  | cons b bs ih =>
    have : piecesBytes (List.map Piece.copy (b :: bs)) = b ++ piecesBytes (List.map Piece.copy bs) := by
      simp [piecesBytes, Piece.bytes]
    rw [this, ih]; simp

theorem tight_map_copy (bss : List Bytes) : ∀ p ∈ bss.map Piece.copy, p.Tight := by
  intro p hp
  simp only [List.mem_map] at hp
  obtain ⟨b, _, rfl⟩ := hp
  trivial

/-! ### big-endian reads in parts, list order -/

theorem be_foldl (b : Bytes) : ∀ acc : Nat,
    b.foldl (fun a (x : UInt8) => a * 256 + x.toNat) acc =
      acc * 256 ^ b.length + b.foldl (fun a (x : UInt8) => a * 256 + x.toNat) 0 := by
  induction b with
  | nil => intro acc; simp
  | cons x xs ih =>
    intro acc
    simp only [List.foldl_cons, List.length_cons]
    rw [ih (acc * 256 + x.toNat), ih (0 * 256 + x.toNat)]
    rw [Nat.pow_succ, Nat.add_mul, Nat.mul_assoc, Nat.mul_comm (256 ^ xs.length) 256]
    simp only [Nat.zero_mul, Nat.zero_add]
    omega

/-- a big-endian field read in two parts -/
theorem beAt_split (bs : Bytes) (off w1 w2 : Nat) (h : off + w1 + w2 ≤ bs.length) :
    beAt bs off (w1 + w2) = beAt bs off w1 * 256 ^ w2 + beAt bs (off + w1) w2 := by
  unfold beAt
  rw [List.take_add, List.foldl_append, be_foldl]
  have hl : (List.take w2 (List.drop w1 (List.drop off bs))).length = w2 := by
    simp; omega
  rw [hl, List.drop_drop]

/-- list order: in `pre ++ bss.flatten ++ tail` the k-th element sits, complete, right after the elements before it -/
theorem flatten_nth_window (pre : Bytes) (bss : List Bytes) (tail : Bytes) (k : Nat) (hk : k < bss.length) :
    ((pre ++ bss.flatten ++ tail).drop (pre.length + ((bss.take k).map List.length).sum)).take bss[k].length = bss[k] := by
  have hsplit : bss = bss.take k ++ bss[k] :: bss.drop (k + 1) := by
    exact (List.take_append_drop k bss).symm.trans (by rw [List.drop_eq_getElem_cons hk])
  have hl : (bss.take k).flatten.length = ((bss.take k).map List.length).sum := flatten_length_sum _
  have e : pre ++ bss.flatten ++ tail = (pre ++ (bss.take k).flatten) ++ (bss[k] ++ ((bss.drop (k + 1)).flatten ++ tail)) := by
    conv => lhs; rw [hsplit]
    simp only [List.flatten_append, List.flatten_cons, List.append_assoc]
  rw [e, ← hl]
  have := window_append_right' (pre ++ (bss.take k).flatten) (bss[k] ++ ((bss.drop (k + 1)).flatten ++ tail))
    (pre.length + (bss.take k).flatten.length) 0 bss[k].length (by simp)
  rw [this]
  simp

end OFV.Go
