/-
  OFV.Model.All — aggregation of the per-file tables.
-/
import OFV.Model.OF.Header
import OFV.Model.OF.Match
import OFV.Model.OF.Action
import OFV.Model.OF.Instr
import OFV.Model.Proto
import OFV.Model.OF.Msg
namespace OFV.Model

def kinds : KindTab := kindsHeader ++ kindsMatch ++ kindsAction ++ kindsInstr ++ kindsProto ++ kindsMsg
def funcs : FuncTab := funcsHeader ++ funcsMatch ++ funcsAction ++ funcsInstr ++ funcsProto ++ funcsMsg
def methods : MethodTab := methodsMatch ++ methodsAction ++ methodsInstr ++ methodsProto ++ methodsMsg

end OFV.Model
