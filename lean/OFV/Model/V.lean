/-
  OFV.Model.V — uniform representation of Go values (the structs of the five packages) and its text form.

  text form (what the Go harness dumps by reflection and what it builds values from):
     123            unsigned integer / bool (0,1)
     x0a0b          byte slice / byte array / net.IP / net.HardwareAddr / bytes.Buffer content   (x = empty or nil)
     [a,b,c]        slice of anything else
     Name(a,b,c)    struct value or pointer to struct, fields in declaration order (embedded structs are fields);
                    for interface-typed fields the dynamic type's name
     ~              nil pointer / nil interface
-/
import OFV.Go.Bytes
import OFV.Go.Res
import OFV.Go.Slice
namespace OFV.Model
open OFV OFV.Go

inductive V where
  | num (n : Nat)
  | bytes (b : Bytes)
  | list (xs : List V)
  | obj (kind : String) (fs : List V)
  | nil
deriving Repr, Inhabited

namespace V

partial def toText : V → String
  | .num n => toString n
  | .bytes b => "x" ++ toHex b
  | .list xs => "[" ++ ",".intercalate (xs.map toText) ++ "]"
  | .obj k fs => k ++ "(" ++ ",".intercalate (fs.map toText) ++ ")"
  | .nil => "~"

/-! recursive-descent parser over a char list -/

def isIdent (c : Char) : Bool := c.isAlphanum || c = '_' || c = '.'

mutual
partial def parseV : List Char → Option (V × List Char)
  | '~' :: r => some (.nil, r)
  | '[' :: r =>
    match r with
    | ']' :: r' => some (.list [], r')
    | _ => (parseSeq r ']').map fun (xs, r') => (.list xs, r')
  | 'x' :: r =>
    -- bytes unless an identifier continues (identifiers never start with a lower-case x followed by hex only)
    let hexs := r.takeWhile (fun c => (hexVal c).isSome)
    let rest := r.dropWhile (fun c => (hexVal c).isSome)
    match ofHexChars hexs with
    | some bs => some (.bytes bs, rest)
    | none => none
  | c :: r =>
    if c.isDigit then
      let ds := (c :: r).takeWhile Char.isDigit
      let rest := (c :: r).dropWhile Char.isDigit
      (String.ofList ds).toNat?.map fun n => (.num n, rest)
    else if c.isAlpha then
      let nm := (c :: r).takeWhile isIdent
      let rest := (c :: r).dropWhile isIdent
      match rest with
      | '(' :: ')' :: r' => some (.obj (String.ofList nm) [], r')
      | '(' :: r' => (parseSeq r' ')').map fun (xs, r'') => (.obj (String.ofList nm) xs, r'')
      | _ => none
    else none
  | [] => none

partial def parseSeq (cs : List Char) (close : Char) : Option (List V × List Char) :=
  match parseV cs with
  | none => none
  | some (v, r) =>
    match r with
    | ',' :: r' => (parseSeq r' close).map fun (vs, r'') => (v :: vs, r'')
    | c :: r' => if c = close then some ([v], r') else none
    | [] => none
end

def ofText (s : String) : Option V :=
  match parseV s.toList with
  | some (v, []) => some v
  | _ => none

/-! accessors used by the model -/

def asNat : V → Nat
  | .num n => n
  | _ => 0

def asBytes : V → Bytes
  | .bytes b => b
  | _ => []

def asList : V → List V
  | .list xs => xs
  | _ => []

def kind : V → String
  | .obj k _ => k
  | _ => ""

def fields : V → List V
  | .obj _ fs => fs
  | _ => []

def isNil : V → Bool
  | .nil => true
  | _ => false

def u8 (n : UInt8) : V := .num n.toNat
def u16 (n : UInt16) : V := .num n.toNat
def u32 (n : UInt32) : V := .num n.toNat
def u64 (n : UInt64) : V := .num n.toNat
def bool (b : Bool) : V := .num (if b then 1 else 0)

end V

/-- width-checked views of a numeric field (a Go uintN field can only hold values below 2^N) -/
def n8 (n : Nat) : UInt8 := UInt8.ofNat n
def n16 (n : Nat) : UInt16 := UInt16.ofNat n
def n32 (n : Nat) : UInt32 := UInt32.ofNat n
def n64 (n : Nat) : UInt64 := UInt64.ofNat n

end OFV.Model
