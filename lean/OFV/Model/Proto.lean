/-
  placeholder — to be replaced by the port (see /verif/PORTING.md)
-/
import OFV.Model.Api
namespace OFV.Model
open OFV OFV.Go

def kindsProto : KindTab := []
def funcsProto : FuncTab := []
def methodsProto : MethodTab := []

end OFV.Model
