/-
  protocol/*.go and util/util.go — packet headers
    u.Buffer(content)
    p.VLAN(TPID,PCP,DEI,VID)                     p.Ethernet(Delimiter,HWDst,HWSrc,VLAN,Ethertype,Data)
    p.ARP(HWType,ProtoType,HWLength,ProtoLength,Operation,HWSrc,IPSrc,HWDst,IPDst)
    p.IPv4(Version,IHL,DSCP,ECN,Length,Id,Flags,FragmentOffset,TTL,Protocol,Checksum,NWSrc,NWDst,Options,Data)
    p.IPv6(Version,TrafficClass,FlowLabel,Length,NextHeader,HopLimit,NWSrc,NWDst,Hbh,Routing,Fragment,Data)
    p.Option(Type,Length,Data)  p.HopByHopHeader(NextHeader,HEL,[Option])  p.RoutingHeader(NextHeader,HEL,RoutingType,SegmentsLeft,Data)
    p.FragmentHeader(NextHeader,Reserved,FragmentOffset,MoreFragments,Identification)
    p.ICMP(Type,Code,Checksum,Data)  p.UDP(PortSrc,PortDst,Length,Checksum,Data)
    p.TCP(PortSrc,PortDst,SeqNum,AckNum,HdrLen,Code,WinSize,Checksum,UrgFlag,Data)
    p.IGMPv1or2 / p.IGMPv3Query / p.IGMPv3GroupRecord / p.IGMPv3MembershipReport
    p.DHCP(...,Options [p.dhcpoption(tag,data)])   p.LLDP(ChassisTLV,PortTLV,TTLTLV)
  Everything follows the Go code statement by statement, defects included.
-/
import OFV.Model.Api
import OFV.Gen.Pure
namespace OFV.Model
open OFV OFV.Go

/-! ### helpers -/

/-- first `k` bytes of `b`, zero-padded to exactly `k` -/
def pFitTo (k : Nat) (b : Bytes) : Bytes := b.take k ++ zeros (k - b.length)

/-- `copy(data[n:n+k], b); n += k` on a freshly made buffer: the slice expression must fit (panic otherwise),
    the copy is cut to `k` bytes and the rest of the window keeps its zeros -/
def pCopyIn (k : Nat) (b : Bytes) : Piece := .put (pFitTo k b)

/-- net.IP.To4(): a 4-byte address as is, a 16-byte v4-mapped address's last four bytes, otherwise nil -/
def pIpTo4? (ip : Bytes) : Option Bytes :=
  if ip.length == 4 then some ip
  else if ip.length == 16 && ip.take 10 == zeros 10 && ip[10]? == some 0xff && ip[11]? == some 0xff then some (ip.drop 12)
  else none

/-- To4() used as the source of a `copy` (nil copies nothing) -/
def pIpTo4 (ip : Bytes) : Bytes := (pIpTo4? ip).getD []

/-- net.IPv4(a,b,c,d): the 16-byte v4-mapped form -/
def ipV4Mapped (a b c d : UInt8) : Bytes := zeros 10 ++ [0xff, 0xff, a, b, c, d]

def pBytesOf : V → R Bytes
  | .bytes b => .ok b
  | _ => .panic

def pIpList : List V → R (List Bytes)
  | [] => .ok []
  | x :: xs => do
    let b ← pBytesOf x
    let r ← pIpList xs
    pure (b :: r)

/-! ### util.Buffer -/
namespace UBuffer
def content : V → R Bytes
  | .obj "u.Buffer" [.bytes c] => .ok c
  | _ => .panic
def mk (b : Bytes) : V := .obj "u.Buffer" [.bytes b]
def lenM (v : V) : R (UInt16 × V) := do let c ← content v; same (n16 c.length) v
def marshalM (v : V) : R (Bytes × V) := do let c ← content v; same c v
/-- Reset(); Write(data) — never fails -/
def unmarshal (_recv : V) (data : Slice) : R V := .ok (mk data.bytes)
def zero : V := mk []
end UBuffer

/-! ### VLAN -/
namespace PVLAN
/-- `tci = (tci | uint16(v.PCP)<<13) + (tci | uint16(v.DEI)<<12) + (tci | v.VID)` with tci = 0 -/
def packTCI (pcp dei : UInt8) (vid : UInt16) : UInt16 :=
  (((0 : UInt16) ||| (pcp.toUInt16 <<< 13)) + ((0 : UInt16) ||| (dei.toUInt16 <<< 12))) + ((0 : UInt16) ||| vid)
def unpackPCP (tci : UInt16) : UInt8 := ((0xe000 &&& tci) >>> 13).toUInt8
def unpackDEI (tci : UInt16) : UInt8 := ((0x1000 &&& tci) >>> 12).toUInt8
def unpackVID (tci : UInt16) : UInt16 := 0x0fff &&& tci

def vid : V → Nat
  | .obj "p.VLAN" [_, _, _, .num v] => v
  | _ => 0
def bytes : V → R Bytes
  | .obj "p.VLAN" [.num tpid, .num pcp, .num dei, .num vid] =>
    .ok (be16 (n16 tpid) ++ be16 (packTCI (n8 pcp) (n8 dei) (n16 vid)))
  | _ => .panic
def lenM (v : V) : R (UInt16 × V) := same 4 v
def marshalM (v : V) : R (Bytes × V) := do let b ← bytes v; same b v
def unmarshal (_recv : V) (data : Slice) : R V :=
  if data.len < 4 then .err else do
    let tpid ← data.u16In 0 2
    let tci ← data.u16From 2
    pure (.obj "p.VLAN" [V.u16 tpid, V.u8 (unpackPCP tci), V.u8 (unpackDEI tci), V.u16 (unpackVID tci)])
def zero : V := .obj "p.VLAN" [.num 0, .num 0, .num 0, .num 0]
/-- NewVLAN() -/
def new : V := .obj "p.VLAN" [.num Gen.protocol.VLAN_MSG, .num 0, .num 0, .num 0]
end PVLAN

/-! ### ARP -/
namespace PARP
def len : V → R UInt16
  | .obj "p.ARP" [.num ht, .num pt, .num hl, .num pl, .num op, _, _, _, _] =>
    .ok (Gen.protocol.ARP.Len
      { HWType := n16 ht, ProtoType := n16 pt, HWLength := n8 hl, ProtoLength := n8 pl, Operation := n16 op })
  | _ => .panic
def lenM (v : V) : R (UInt16 × V) := do let l ← len v; same l v
def marshalM (v : V) : R (Bytes × V) :=
  match v with
  | .obj "p.ARP" [.num ht, .num pt, .num hl, .num pl, .num op, .bytes hs, .bytes ips, .bytes hd, .bytes ipd] => do
    let l ← len v
    let h := (n8 hl).toNat
    let p := (n8 pl).toNat
    let bs ← fill l.toNat [pU16 ht, pU16 pt, pU8 hl, pU8 pl, pU16 op,
      pCopyIn h hs, pCopyIn p (pIpTo4 ips), pCopyIn h hd, pCopyIn p (pIpTo4 ipd)]
    same bs v
  | _ => .panic
def unmarshal (_recv : V) (data : Slice) : R V :=
  if data.len < 8 then .err else do
    let ht ← data.u16In 0 2
    let pt ← data.u16In 2 4
    let hl ← data.byteAt 4
    let pl ← data.byteAt 5
    let op ← data.u16In 6 8
    let h := hl.toNat
    let p := pl.toNat
    if data.len - 8 < h * 2 + p * 2 then .err else do
      let s1 ← data.sliceR 8 (8 + h)
      let s2 ← data.sliceR (8 + h) (8 + h + p)
      let s3 ← data.sliceR (8 + h + p) (8 + h + p + h)
      let s4 ← data.sliceR (8 + h + p + h) (8 + h + p + h + p)
      pure (.obj "p.ARP" [V.u16 ht, V.u16 pt, V.u8 hl, V.u8 pl, V.u16 op,
        .bytes (makeCopy 6 s1.bytes), .bytes (makeCopy 4 s2.bytes), .bytes (makeCopy 6 s3.bytes), .bytes (makeCopy 4 s4.bytes)])
def zero : V := .obj "p.ARP" [.num 0, .num 0, .num 0, .num 0, .num 0, .bytes [], .bytes [], .bytes [], .bytes []]
/-- NewARP(opt) -/
def new (opt : Nat) : R V :=
  if opt ≠ Gen.protocol.Type_Request ∧ opt ≠ Gen.protocol.Type_Reply then .err
  else .ok (.obj "p.ARP" [.num 1, .num 0x800, .num 6, .num 4, V.u16 (n16 opt),
    .bytes (zeros 6), .bytes (zeros 4), .bytes (zeros 6), .bytes (zeros 4)])
end PARP

/-! ### ICMP -/
namespace PICMP
def len : V → R UInt16
  | .obj "p.ICMP" [_, _, _, .bytes d] => .ok (n16 (4 + d.length))
  | _ => .panic
def lenM (v : V) : R (UInt16 × V) := do let l ← len v; same l v
def marshalM (v : V) : R (Bytes × V) :=
  match v with
  | .obj "p.ICMP" [.num ty, .num code, .num cs, .bytes d] => do
    let l ← len v
    let bs ← fill l.toNat [pU8 ty, pU8 code, pU16 cs, pCopy d]
    same bs v
  | _ => .panic
def unmarshal (_recv : V) (data : Slice) : R V :=
  if data.len < 4 then .err else do
    let ty ← data.byteAt 0
    let code ← data.byteAt 1
    let cs ← data.u16In 2 4
    let rest ← data.fromR 4
    pure (.obj "p.ICMP" [V.u8 ty, V.u8 code, V.u16 cs, .bytes (makeCopy (data.len - 4) rest.bytes)])
def zero : V := .obj "p.ICMP" [.num 0, .num 0, .num 0, .bytes []]
end PICMP

/-! ### TCP -/
namespace PTCP
/-- `(t.HdrLen << 4) & 0xf0` -/
def packOff (hdrLen : UInt8) : UInt8 := (hdrLen <<< 4) &&& 0xf0
/-- `t.Code & 0x3f` -/
def packCode (code : UInt8) : UInt8 := code &&& 0x3f
/-- `(data[12] >> 4) & 0xf` -/
def unpackOff (b : UInt8) : UInt8 := (b >>> 4) &&& 0xf
def unpackCode (b : UInt8) : UInt8 := b &&& 0x3f

def len : V → R UInt16
  | .obj "p.TCP" [_, _, _, _, _, _, _, _, _, .bytes d] => .ok (n16 (20 + d.length))
  | _ => .panic
def lenM (v : V) : R (UInt16 × V) := do let l ← len v; same l v
def marshalM (v : V) : R (Bytes × V) :=
  match v with
  | .obj "p.TCP" [.num ps, .num pd, .num sq, .num ak, .num hl, .num code, .num win, .num cs, .num urg, .bytes d] => do
    let l ← len v
    let bs ← fill l.toNat [pU16 ps, pU16 pd, pU32 sq, pU32 ak, .put [packOff (n8 hl)], .put [packCode (n8 code)],
      pU16 win, pU16 cs, pU16 urg, pCopy d]
    same bs v
  | _ => .panic
def unmarshal (recv : V) (data : Slice) : R V :=
  if data.len < 20 then .err else do
    let ps ← data.u16In 0 2
    let pd ← data.u16In 2 4
    let sq ← data.u32In 4 8
    let ak ← data.u32In 8 12
    let b12 ← data.byteAt 12
    let b13 ← data.byteAt 13
    let win ← data.u16In 14 16
    let cs ← data.u16In 16 18
    let urg ← data.u16In 18 20
    let old := match recv with
      | .obj _ [_, _, _, _, _, _, _, _, _, d] => d
      | _ => .bytes []
    let rest ← data.fromR 20
    let d := if data.len > 20 then .bytes (makeCopy (data.len - 20) rest.bytes) else old
    pure (.obj "p.TCP" [V.u16 ps, V.u16 pd, V.u32 sq, V.u32 ak, V.u8 (unpackOff b12), V.u8 (unpackCode b13),
      V.u16 win, V.u16 cs, V.u16 urg, d])
def zero : V := .obj "p.TCP" [.num 0, .num 0, .num 0, .num 0, .num 0, .num 0, .num 0, .num 0, .num 0, .bytes []]
end PTCP

/-! ### UDP -/
namespace PUDP
def len : V → R UInt16
  | .obj "p.UDP" [_, _, _, _, .bytes d] => .ok (n16 (8 + d.length))
  | _ => .panic
def lenM (v : V) : R (UInt16 × V) := do let l ← len v; same l v
def marshalM (v : V) : R (Bytes × V) :=
  match v with
  | .obj "p.UDP" [.num ps, .num pd, .num ln, .num cs, .bytes d] => do
    let l ← len v
    let bs ← fill l.toNat [pU16 ps, pU16 pd, pU16 ln, pU16 cs, pCopy d]
    same bs v
  | _ => .panic
/-- `u.Data = append(u.Data, data[8:]...)`: the receiver's previous payload stays in front -/
def unmarshal (recv : V) (data : Slice) : R V :=
  if data.len < 8 then .err else do
    let ps ← data.u16In 0 2
    let pd ← data.u16In 2 4
    let ln ← data.u16In 4 6
    let cs ← data.u16In 6 8
    let old := match recv with
      | .obj _ [_, _, _, _, .bytes d] => d
      | _ => []
    let rest ← data.fromR 8
    pure (.obj "p.UDP" [V.u16 ps, V.u16 pd, V.u16 ln, V.u16 cs, .bytes (old ++ rest.bytes)])
def zero : V := .obj "p.UDP" [.num 0, .num 0, .num 0, .num 0, .bytes []]
end PUDP

/-! ### IGMP -/
namespace PIGMPv1or2
def len : V → R UInt16
  | .obj "p.IGMPv1or2" [.num ty, .num mrt, .num cs, _] =>
    .ok (Gen.protocol.IGMPv1or2.Len { Type_ := n8 ty, MaxResponseTime := n8 mrt, Checksum := n16 cs })
  | _ => .panic
def lenM (v : V) : R (UInt16 × V) := do let l ← len v; same l v
def marshalM (v : V) : R (Bytes × V) :=
  match v with
  | .obj "p.IGMPv1or2" [.num ty, .num mrt, .num cs, .bytes g] => do
    let l ← len v
    let bs ← fill l.toNat [pU8 ty, pU8 mrt, pU16 cs, pCopyIn 4 (pIpTo4 g)]
    same bs v
  | _ => .panic
def unmarshal (_recv : V) (data : Slice) : R V :=
  if data.len < 8 then .err else do
    let ty ← data.byteAt 0
    let mrt ← data.byteAt 1
    let cs ← data.u16In 2 4
    let g ← data.sliceR 4 8
    pure (.obj "p.IGMPv1or2" [V.u8 ty, V.u8 mrt, V.u16 cs, .bytes (makeCopy 4 g.bytes)])
def zero : V := .obj "p.IGMPv1or2" [.num 0, .num 0, .num 0, .bytes []]
def mk (ty mrt : Nat) (g : V) : V := .obj "p.IGMPv1or2" [.num ty, V.u8 (n8 mrt), .num 0, g]
end PIGMPv1or2

/-- `for …: append(xs, data[n:n+4]); n += 4`, `count` times (the slice expression may reach up to cap) -/
def pReadIPs (data : Slice) : Nat → Nat → R (List V)
  | _, 0 => .ok []
  | n, k + 1 => do
    let s ← data.sliceR n (n + 4)
    let rest ← pReadIPs data (n + 4) k
    pure (.bytes s.bytes :: rest)

/-- `for …: append(xs, binary.BigEndian.Uint32(data[n:])); n += 4`, `count` times -/
def pReadU32s (data : Slice) : Nat → Nat → R (List V)
  | _, 0 => .ok []
  | n, k + 1 => do
    let w ← data.u32From n
    let rest ← pReadU32s data (n + 4) k
    pure (V.u32 w :: rest)

namespace PIGMPv3Query
/-- `sBit | p.RobustnessValue&0x7` with sBit = 0x8 when S is set -/
def packSQRV (s : Bool) (qrv : UInt8) : UInt8 := (if s then (0x8 : UInt8) else 0x0) ||| (qrv &&& 0x7)
def unpackS (b : UInt8) : Bool := b &&& 0x8 != 0
def unpackQRV (b : UInt8) : UInt8 := b &&& 0x7

def len : V → R UInt16
  | .obj "p.IGMPv3Query" [.num ty, .num mrt, .num cs, _, .num rsv, .num s, .num rv, .num it, .num ns, _] =>
    .ok (Gen.protocol.IGMPv3Query.Len
      { Type_ := n8 ty, MaxResponseTime := n8 mrt, Checksum := n16 cs, Reserved := n8 rsv,
        SuppressRouterProcessing := (s != 0), RobustnessValue := n8 rv, IntervalTime := n8 it, NumberOfSources := n16 ns })
  | _ => .panic
def lenM (v : V) : R (UInt16 × V) := do let l ← len v; same l v
def marshalM (v : V) : R (Bytes × V) :=
  match v with
  | .obj "p.IGMPv3Query" [.num ty, .num mrt, .num cs, .bytes g, _, .num s, .num rv, .num it, .num ns, .list srcs] => do
    let l ← len v
    let ips ← pIpList srcs
    let bs ← fill l.toNat ([pU8 ty, pU8 mrt, pU16 cs, pCopyIn 4 (pIpTo4 g), .put [packSQRV (s != 0) (n8 rv)], pU8 it, pU16 ns]
      ++ ips.map (fun ip => pCopyIn 4 (pIpTo4 ip)))
    same bs v
  | _ => .panic
def unmarshal (recv : V) (data : Slice) : R V :=
  if data.len < 12 then .err else do
    let ty ← data.byteAt 0
    let mrt ← data.byteAt 1
    let cs ← data.u16From 2
    let g ← data.sliceR 4 8
    let b8 ← data.byteAt 8
    let it ← data.byteAt 9
    let ns ← data.u16From 10
    let (rsv, old) := match recv with
      | .obj _ [_, _, _, _, r, _, _, _, _, .list o] => (r, o)
      | _ => (.num 0, [])
    if data.len < 12 + ns.toNat * 4 then .err else do
      let ips ← pReadIPs data 12 ns.toNat
      pure (.obj "p.IGMPv3Query" [V.u8 ty, V.u8 mrt, V.u16 cs, .bytes (makeCopy 4 g.bytes), rsv, V.bool (unpackS b8),
        V.u8 (unpackQRV b8), V.u8 it, V.u16 ns, .list (old ++ ips)])
def zero : V := .obj "p.IGMPv3Query" [.num 0, .num 0, .num 0, .bytes [], .num 0, .num 0, .num 0, .num 0, .num 0, .list []]
end PIGMPv3Query

namespace PIGMPv3GroupRecord
def len : V → R UInt16
  | .obj "p.IGMPv3GroupRecord" [.num ty, .num aux, .num ns, _, _, _] =>
    .ok (Gen.protocol.IGMPv3GroupRecord.Len { Type_ := n8 ty, AuxDataLen := n8 aux, NumberOfSources := n16 ns })
  | _ => .panic
def lenM (v : V) : R (UInt16 × V) := do let l ← len v; same l v
/-- the record size computed in `int` (no 16-bit wrap-around) -/
def trueSize : V → R Nat
  | .obj "p.IGMPv3GroupRecord" [_, .num aux, .num ns, _, _, _] => .ok (8 + (n8 aux).toNat * 4 + (n16 ns).toNat * 4)
  | _ => .panic
def bytes (v : V) : R Bytes :=
  match v with
  | .obj "p.IGMPv3GroupRecord" [.num ty, .num aux, .num ns, .bytes mc, .list srcs, .list auxd] => do
    let l ← len v
    let ips ← pIpList srcs
    fill l.toNat ([pU8 ty, pU8 aux, pU16 ns, pCopyIn 4 (pIpTo4 mc)]
      ++ ips.map (fun ip => pCopyIn 4 (pIpTo4 ip)) ++ auxd.map (fun d => pU32 d.asNat))
  | _ => .panic
def marshalM (v : V) : R (Bytes × V) := do let b ← bytes v; same b v
def unmarshal (recv : V) (data : Slice) : R V :=
  if data.len < 8 then .err else do
    let ty ← data.byteAt 0
    let aux ← data.byteAt 1
    let ns ← data.u16From 2
    let mc ← data.sliceR 4 8
    let (oldS, oldA) := match recv with
      | .obj _ [_, _, _, _, .list s, .list a] => (s, a)
      | _ => ([], [])
    if data.len < 8 + aux.toNat * 4 + ns.toNat * 4 then .err else do
      let ips ← pReadIPs data 8 ns.toNat
      let ws ← pReadU32s data (8 + 4 * ns.toNat) aux.toNat
      pure (.obj "p.IGMPv3GroupRecord" [V.u8 ty, V.u8 aux, V.u16 ns, .bytes (makeCopy 4 mc.bytes),
        .list (oldS ++ ips), .list (oldA ++ ws)])
def zero : V := .obj "p.IGMPv3GroupRecord" [.num 0, .num 0, .num 0, .bytes [], .list [], .list []]
end PIGMPv3GroupRecord

namespace PIGMPv3MembershipReport
def recLens : List V → R (List UInt16)
  | [] => .ok []
  | r :: rs => do
    let l ← PIGMPv3GroupRecord.len r
    let ls ← recLens rs
    pure (l :: ls)
def len : V → R UInt16
  | .obj "p.IGMPv3MembershipReport" [_, _, _, _, _, .list rs] => do
    let ls ← recLens rs
    .ok (8 + sum16 ls)
  | _ => .panic
def lenM (v : V) : R (UInt16 × V) := do let l ← len v; same l v
/-- `b, err := r.MarshalBinary(); copy(data[n:], b); n += int(r.Len())` per record -/
def recPieces : List V → R (List Piece)
  | [] => .ok []
  | r :: rs => do
    let b ← PIGMPv3GroupRecord.bytes r
    let l ← PIGMPv3GroupRecord.len r
    let ps ← recPieces rs
    pure (pCopyAdv b l.toNat :: ps)
def marshalM (v : V) : R (Bytes × V) :=
  match v with
  | .obj "p.IGMPv3MembershipReport" [.num ty, _, .num cs, _, .num ng, .list rs] => do
    let l ← len v
    -- the fixed part is written before the first record is marshalled
    let pre := [pU8 ty, pSkip 1, pU16 cs, pSkip 2, pU16 ng]
    let _ ← fill l.toNat pre
    let ps ← recPieces rs
    let bs ← fill l.toNat (pre ++ ps)
    same bs v
  | _ => .panic
/-- the record loop: `NumberOfGroups` iterations, each re-slicing `data[n:]` -/
def readRecs (data : Slice) : Nat → Nat → R (List V)
  | _, 0 => .ok []
  | n, k + 1 => do
    let d ← data.fromR n
    let gr ← PIGMPv3GroupRecord.unmarshal PIGMPv3GroupRecord.zero d
    let l ← PIGMPv3GroupRecord.trueSize gr     -- n += 8 + int(gr.AuxDataLen)*4 + int(gr.NumberOfSources)*4
    let rest ← readRecs data (n + l) k
    pure (gr :: rest)
def unmarshal (recv : V) (data : Slice) : R V :=
  if data.len < 8 then .err else do
    let ty ← data.byteAt 0
    let cs ← data.u16From 2
    let ng ← data.u16From 6
    let (r1, r2, old) := match recv with
      | .obj _ [_, a, _, b, _, .list o] => (a, b, o)
      | _ => (.num 0, .num 0, [])
    let rs ← readRecs data 8 ng.toNat
    pure (.obj "p.IGMPv3MembershipReport" [V.u8 ty, r1, V.u16 cs, r2, V.u16 ng, .list (old ++ rs)])
def zero : V := .obj "p.IGMPv3MembershipReport" [.num 0, .num 0, .num 0, .num 0, .num 0, .list []]
end PIGMPv3MembershipReport

/-! ### IPv6 extension headers -/
namespace POption
def len : V → R UInt16
  | .obj "p.Option" [.num ty, .num ln, _] => .ok (Gen.protocol.Option.Len { Type_ := n8 ty, Length := n8 ln })
  | _ => .panic
def lenM (v : V) : R (UInt16 × V) := do let l ← len v; same l v
/-- `data[0] = Type`; Pad1 (type 0) is that single byte; otherwise `data[1] = Length; copy(data[2:], Data)` -/
def bytes (v : V) : R Bytes :=
  match v with
  | .obj "p.Option" [.num ty, .num ln, .bytes d] => do
    let l ← len v
    if n8 ty = 0 then fill l.toNat [pU8 ty] else fill l.toNat [pU8 ty, pU8 ln, pCopy d]
  | _ => .panic
def marshalM (v : V) : R (Bytes × V) := do let b ← bytes v; same b v
/-- a first byte 0 is Pad1: one byte, no length, no data -/
def unmarshal (_recv : V) (data : Slice) : R V :=
  if 1 ≤ data.len ∧ data.index 0 = some 0 then pure (.obj "p.Option" [.num 0, .num 0, .bytes []])
  else if data.len < 2 then .err else do
  let ty ← data.byteAt 0
  let ln ← data.byteAt 1
  if data.len - 2 < ln.toNat then .err else do
    let s ← data.sliceR 2 (2 + ln.toNat)
    pure (.obj "p.Option" [V.u8 ty, V.u8 ln, .bytes (makeCopy ln.toNat s.bytes)])
def zero : V := .obj "p.Option" [.num 0, .num 0, .bytes []]
end POption

namespace PHopByHop
def len : V → R UInt16
  | .obj "p.HopByHopHeader" [.num nh, .num hel, _] => .ok (Gen.protocol.HopByHopHeader.Len { NextHeader := n8 nh, HEL := n8 hel })
  | _ => .panic
def lenM (v : V) : R (UInt16 × V) := do let l ← len v; same l v
def nextHeader : V → R UInt8
  | .obj "p.HopByHopHeader" [.num nh, _, _] => .ok (n8 nh)
  | _ => .panic
/-- `ob, err := o.MarshalBinary(); copy(data[n:], ob); n += int(o.Len())` per option (a nil option panics) -/
def optPieces : List V → R (List Piece)
  | [] => .ok []
  | o :: os => do
    let b ← POption.bytes o
    let l ← POption.len o
    let ps ← optPieces os
    pure (pCopyAdv b l.toNat :: ps)
def bytes (v : V) : R Bytes :=
  match v with
  | .obj "p.HopByHopHeader" [.num nh, .num hel, .list os] => do
    let l ← len v
    let pre := [pU8 nh, pU8 hel]
    let _ ← fill l.toNat pre
    let ps ← optPieces os
    fill l.toNat (pre ++ ps)
  | _ => .panic
def marshalM (v : V) : R (Bytes × V) := do let b ← bytes v; same b v

structure St where
  n : Nat
  opts : List V

def unmarshal (recv : V) (data : Slice) : R V :=
  if data.len < 2 then .err else do
  let nh ← data.byteAt 0
  let hel ← data.byteAt 1
  -- `len(data) < 8*(int(h.HEL)+1)`
  if data.len < 8 * (hel.toNat + 1) then .err else do
    let old := match recv with
      | .obj _ [_, _, .list o] => o
      | _ => []
    let l := Gen.protocol.HopByHopHeader.Len { NextHeader := nh, HEL := hel }
    let st ← goLoop (σ := St) (l.toNat + 2) (fun s => s.n < l.toNat) (·.n)
      (fun s => do
        let d ← data.fromR s.n
        let o ← POption.unmarshal POption.zero d
        let ol ← POption.len o
        pure { n := s.n + ol.toNat, opts := s.opts ++ [o] })
      { n := 2, opts := old }
    pure (.obj "p.HopByHopHeader" [V.u8 nh, V.u8 hel, .list st.opts])
def zero : V := .obj "p.HopByHopHeader" [.num 0, .num 0, .list []]
end PHopByHop

namespace PRouting
def len : V → R UInt16
  | .obj "p.RoutingHeader" [.num nh, .num hel, .num rt, .num sl, _] =>
    .ok (Gen.protocol.RoutingHeader.Len { NextHeader := n8 nh, HEL := n8 hel, RoutingType := n8 rt, SegmentsLeft := n8 sl })
  | _ => .panic
def lenM (v : V) : R (UInt16 × V) := do let l ← len v; same l v
def nextHeader : V → R UInt8
  | .obj "p.RoutingHeader" [.num nh, _, _, _, _] => .ok (n8 nh)
  | _ => .panic
def bytes (v : V) : R Bytes :=
  match v with
  | .obj "p.RoutingHeader" [.num nh, .num hel, .num rt, .num sl, buf] => do
    let l ← len v
    let _ ← fill l.toNat [pU8 nh, pU8 hel, pU8 rt, pU8 sl]
    let c ← UBuffer.content buf      -- h.Data.Bytes() : nil pointer panics
    fill l.toNat [pU8 nh, pU8 hel, pU8 rt, pU8 sl, pCopy c]
  | _ => .panic
def marshalM (v : V) : R (Bytes × V) := do let b ← bytes v; same b v
def unmarshal (_recv : V) (data : Slice) : R V :=
  if data.len < 2 then .err else do
  let nh ← data.byteAt 0
  let hel ← data.byteAt 1
  if data.len < 8 * (hel.toNat + 1) then .err else do
    let rt ← data.byteAt 2
    let sl ← data.byteAt 3
    let l := Gen.protocol.RoutingHeader.Len { NextHeader := nh, HEL := hel, RoutingType := rt, SegmentsLeft := sl }
    let s ← data.sliceR 4 l.toNat
    let buf ← UBuffer.unmarshal UBuffer.zero s
    pure (.obj "p.RoutingHeader" [V.u8 nh, V.u8 hel, V.u8 rt, V.u8 sl, buf])
def zero : V := .obj "p.RoutingHeader" [.num 0, .num 0, .num 0, .num 0, .nil]
end PRouting

namespace PFragment
/-- `fragment := h.FragmentOffset << 3; if h.MoreFragments { fragment |= 1 }` -/
def packFrag (off : UInt16) (more : Bool) : UInt16 := if more then (off <<< 3) ||| 1 else off <<< 3
def unpackOff (w : UInt16) : UInt16 := w >>> 3
def unpackMore (w : UInt16) : Bool := (w &&& 1) == 1

def len : V → R UInt16
  | .obj "p.FragmentHeader" [.num nh, .num rs, .num off, .num m, .num ident] =>
    .ok (Gen.protocol.FragmentHeader.Len
      { NextHeader := n8 nh, Reserved := n8 rs, FragmentOffset := n16 off, MoreFragments := (m != 0), Identification := n32 ident })
  | _ => .panic
def lenM (v : V) : R (UInt16 × V) := do let l ← len v; same l v
def nextHeader : V → R UInt8
  | .obj "p.FragmentHeader" [.num nh, _, _, _, _] => .ok (n8 nh)
  | _ => .panic
def bytes (v : V) : R Bytes :=
  match v with
  | .obj "p.FragmentHeader" [.num nh, .num rs, .num off, .num m, .num ident] => do
    let l ← len v
    fill l.toNat [pU8 nh, pU8 rs, .put (be16 (packFrag (n16 off) (m != 0))), pU32 ident]
  | _ => .panic
def marshalM (v : V) : R (Bytes × V) := do let b ← bytes v; same b v
def unmarshal (_recv : V) (data : Slice) : R V :=
  if data.len < 8 then .err else do
    let nh ← data.byteAt 0
    let rs ← data.byteAt 1
    let w ← data.u16From 2
    let ident ← data.u32From 4
    pure (.obj "p.FragmentHeader" [V.u8 nh, V.u8 rs, V.u16 (unpackOff w), V.bool (unpackMore w), V.u32 ident])
def zero : V := .obj "p.FragmentHeader" [.num 0, .num 0, .num 0, .num 0, .num 0]
end PFragment

/-! ### containers: IPv4, IPv6, Ethernet.
  Their `Data` field is a `util.Message`; `Len`/`MarshalBinary` take the dispatcher over all message kinds as a parameter
  (`anyLen`, `anyMarshal`) and the knot is tied below by recursion on a nesting depth. -/

namespace PIPv4
/-- `(i.Version << 4) + i.IHL` -/
def packVerIHL (ver ihl : UInt8) : UInt8 := (ver <<< 4) + ihl
/-- `(i.DSCP << 2) + i.ECN` -/
def packDscpEcn (dscp ecn : UInt8) : UInt8 := (dscp <<< 2) + ecn
/-- `(i.Flags << 13) + i.FragmentOffset` -/
def packFlagsFrag (flags frag : UInt16) : UInt16 := (flags <<< 13) + frag
def unpackVersion (b : UInt8) : UInt8 := b >>> 4
def unpackIHL (b : UInt8) : UInt8 := b &&& 0x0f
def unpackDSCP (b : UInt8) : UInt8 := b >>> 2
def unpackECN (b : UInt8) : UInt8 := b &&& 0x03
def unpackFlags (w : UInt16) : UInt16 := w >>> 13
def unpackFrag (w : UInt16) : UInt16 := w &&& 0x1fff

/-- `if i.IHL < 5 { i.IHL = 5 }` -/
def fixIHL (ihl : UInt8) : UInt8 := if ihl < 5 then 5 else ihl
/-- `uint16(i.IHL*4)` — the product is taken in uint8 -/
def hdrLen (ihl : UInt8) : UInt16 := (ihl * 4).toUInt16

def lenW (anyLen : V → R (UInt16 × V)) : V → R (UInt16 × V)
  | .obj "p.IPv4" [ver, .num ihl, dscp, ecn, ln, ident, fl, fo, ttl, pr, cs, src, dst, opts, dat] =>
    let ihl' := fixIHL (n8 ihl)
    if dat.isNil then
      .ok (hdrLen ihl', .obj "p.IPv4" [ver, V.u8 ihl', dscp, ecn, ln, ident, fl, fo, ttl, pr, cs, src, dst, opts, dat])
    else do
      let (l, dat') ← anyLen dat
      .ok (hdrLen ihl' + l, .obj "p.IPv4" [ver, V.u8 ihl', dscp, ecn, ln, ident, fl, fo, ttl, pr, cs, src, dst, opts, dat'])
  | _ => .panic

def marshalW (anyLen : V → R (UInt16 × V)) (anyMarshal : V → R (Bytes × V)) (v : V) : R (Bytes × V) := do
  let (l, v) ← lenW anyLen v
  match v with
  | .obj "p.IPv4" [.num ver, .num ihl, .num dscp, .num ecn, .num ln, .num ident, .num fl, .num fo, .num ttl, .num pr, .num cs,
      .bytes src, .bytes dst, opts, dat] =>
    let ob ← UBuffer.content opts
    let pre := [.put [packVerIHL (n8 ver) (n8 ihl)], .put [packDscpEcn (n8 dscp) (n8 ecn)], pU16 ln, pU16 ident,
      .put (be16 (packFlagsFrag (n16 fl) (n16 fo))), pU8 ttl, pU8 pr, pU16 cs,
      pCopyAdv (pIpTo4 src) 4, pCopyAdv (pIpTo4 dst) 4, pCopy ob]
    let buf ← fill l.toNat pre
    if dat.isNil then .ok (buf, v) else do
      let (b, dat') ← anyMarshal dat
      let out ← fillFrom buf (piecesLen pre) [pCopy b]
      .ok (out, .obj "p.IPv4" [.num ver, .num ihl, .num dscp, .num ecn, .num ln, .num ident, .num fl, .num fo, .num ttl, .num pr,
        .num cs, .bytes src, .bytes dst, opts, dat'])
  | _ => .panic

/-- NewICMP() / NewUDP() / new(util.Buffer) -/
def newICMP : V := .obj "p.ICMP" [.num 0, .num 0, .num 0, .bytes []]
def newUDP : V := .obj "p.UDP" [.num 0, .num 0, .num 0, .num 0, .bytes []]

def unmarshal (recv : V) (data : Slice) : R V :=
  if data.len < 20 then .err else do
    let b0 ← data.byteAt 0
    let b1 ← data.byteAt 1
    let ln ← data.u16From 2
    let ident ← data.u16From 4
    let flg ← data.u16From 6
    let ttl ← data.byteAt 8
    let pr ← data.byteAt 9
    let cs ← data.u16From 10
    let s ← data.sliceR 12 16
    let d ← data.sliceR 16 20
    let ihl := unpackIHL b0
    let oldOpts := match recv with
      | .obj _ [_, _, _, _, _, _, _, _, _, _, _, _, _, o, _] => o
      | _ => UBuffer.zero
    if ihl < 5 || ihl.toNat * 4 > data.len then .err else do
    let osl ← data.sliceR 20 (ihl * 4).toNat
    let opts ← UBuffer.unmarshal oldOpts osl
    let n := (ihl * 4).toNat
    let rest ← data.fromR n
    let dat ←
      if pr.toNat = Gen.protocol.Type_ICMP then PICMP.unmarshal newICMP rest
      else if pr.toNat = Gen.protocol.Type_UDP then PUDP.unmarshal newUDP rest
      else UBuffer.unmarshal UBuffer.zero rest
    pure (.obj "p.IPv4" [V.u8 (unpackVersion b0), V.u8 ihl, V.u8 (unpackDSCP b1), V.u8 (unpackECN b1), V.u16 ln, V.u16 ident,
      V.u16 (unpackFlags flg), V.u16 (unpackFrag flg), V.u8 ttl, V.u8 pr, V.u16 cs,
      .bytes (makeCopy 4 s.bytes), .bytes (makeCopy 4 d.bytes), opts, dat])
def zero : V := .obj "p.IPv4" [.num 0, .num 0, .num 0, .num 0, .num 0, .num 0, .num 0, .num 0, .num 0, .num 0, .num 0,
  .bytes [], .bytes [], UBuffer.zero, .nil]
/-- NewIPv4() -/
def new : V := .obj "p.IPv4" [.num 0, .num 0, .num 0, .num 0, .num 0, .num 0, .num 0, .num 0, .num 0, .num 0, .num 0,
  .bytes (zeros 4), .bytes (zeros 4), UBuffer.zero, .nil]
end PIPv4

namespace PIPv6
/-- `(i.Version << 4) | (i.TrafficClass>>4)&0x0f` -/
def packB0 (ver tc : UInt8) : UInt8 := (ver <<< 4) ||| ((tc >>> 4) &&& 0x0f)
/-- `(i.TrafficClass<<4)&0xf0 | uint8(i.FlowLabel>>16)` -/
def packB1 (tc : UInt8) (fl : UInt32) : UInt8 :=
  let hi : UInt8 := (tc <<< 4) &&& 0xf0
  let lo : UInt8 := (fl >>> 16).toUInt8
  hi ||| lo
/-- `uint16(i.FlowLabel)` -/
def packLo (fl : UInt32) : UInt16 := fl.toUInt16
def unpackVersion (b0 : UInt8) : UInt8 := b0 >>> 4
/-- `tcLeft := (ihl & 0x0f) << 4; tcLeft | (tc >> 4)` -/
def unpackClass (b0 b1 : UInt8) : UInt8 := ((b0 &&& (0x0f : UInt8)) <<< (4 : UInt8)) ||| (b1 >>> (4 : UInt8))
/-- `binary.BigEndian.Uint32(data[0:4]) & 0x000FFFFF` -/
def unpackFlow (w : UInt32) : UInt32 := w &&& 0x000FFFFF

def optLen (f : V → R UInt16) (h : V) : R UInt16 := if h.isNil then .ok 0 else f h

def lenW (anyLen : V → R (UInt16 × V)) : V → R (UInt16 × V)
  | .obj "p.IPv6" [ver, tc, fl, ln, nh, hl, src, dst, hbh, rt, fr, dat] => do
    let l1 ← optLen PHopByHop.len hbh
    let l2 ← optLen PRouting.len rt
    let l3 ← optLen PFragment.len fr
    let (l4, dat') ← anyLen dat           -- i.Data.Len() without a nil check
    .ok (40 + l1 + l2 + l3 + l4, .obj "p.IPv6" [ver, tc, fl, ln, nh, hl, src, dst, hbh, rt, fr, dat'])
  | _ => .panic

/-- the encoder's walk along the next-header chain: the encodings of the visited extension headers, in order.
    Every visited header contributes at least 8 bytes (an encoder of size 0 panics), so after `fuel = L/8 + 2` headers
    the Go code has panicked on `data[n:]`; exhausting the fuel is therefore reported as `panic`. -/
def extChain (hbh rt fr : V) : Nat → UInt8 → R (List Bytes)
  | 0, _ => .panic
  | f + 1, nxt =>
    if nxt.toNat = Gen.protocol.Type_HBH then do
      let nx ← PHopByHop.nextHeader hbh
      let b ← PHopByHop.bytes hbh
      let rest ← extChain hbh rt fr f nx
      pure (b :: rest)
    else if nxt.toNat = Gen.protocol.Type_Routing then do
      let nx ← PRouting.nextHeader rt
      let b ← PRouting.bytes rt
      let rest ← extChain hbh rt fr f nx
      pure (b :: rest)
    else if nxt.toNat = Gen.protocol.Type_Fragment then do
      let nx ← PFragment.nextHeader fr
      let b ← PFragment.bytes fr
      let rest ← extChain hbh rt fr f nx
      pure (b :: rest)
    else .ok []

def marshalW (anyLen : V → R (UInt16 × V)) (anyMarshal : V → R (Bytes × V)) (v : V) : R (Bytes × V) := do
  let (l, v) ← lenW anyLen v
  match v with
  | .obj "p.IPv6" [.num ver, .num tc, .num fl, .num ln, .num nh, .num hl, .bytes src, .bytes dst, hbh, rt, fr, dat] =>
    let pre := [.put [packB0 (n8 ver) (n8 tc)], .put [packB1 (n8 tc) (n32 fl)], .put (be16 (packLo (n32 fl))), pU16 ln,
      pU8 nh, pU8 hl, pCopyAdv src 16, pCopyAdv dst 16]
    let _ ← fill l.toNat pre
    let chain ← extChain hbh rt fr (l.toNat / 8 + 2) (n8 nh)
    let pre2 := pre ++ chain.map pCopy ++ [pCopy []]
    let buf ← fill l.toNat pre2
    if dat.isNil then .ok (buf, v) else do
      let (b, dat') ← anyMarshal dat
      let out ← fillFrom buf (piecesLen pre2) [pCopy b]
      .ok (out, .obj "p.IPv6" [.num ver, .num tc, .num fl, .num ln, .num nh, .num hl, .bytes src, .bytes dst, hbh, rt, fr, dat'])
  | _ => .panic

structure XSt where
  n : Nat
  nxt : UInt8
  hbh : V
  rt : V
  fr : V

/-- one pass through the `switch nxtHeader` of the decoder; `none` = `break checkXHeader` -/
def xstep (data : Slice) (s : XSt) : R (Option XSt) :=
  if s.nxt.toNat = Gen.protocol.Type_HBH then do
    let d ← data.fromR s.n
    let h ← PHopByHop.unmarshal PHopByHop.zero d
    let nx ← PHopByHop.nextHeader h
    let l ← PHopByHop.len h
    pure (some { s with n := s.n + l.toNat, nxt := nx, hbh := h })
  else if s.nxt.toNat = Gen.protocol.Type_Routing then do
    let d ← data.fromR s.n
    let h ← PRouting.unmarshal PRouting.zero d
    let nx ← PRouting.nextHeader h
    let l ← PRouting.len h
    pure (some { s with n := s.n + l.toNat, nxt := nx, rt := h })
  else if s.nxt.toNat = Gen.protocol.Type_Fragment then do
    let d ← data.fromR s.n
    let h ← PFragment.unmarshal PFragment.zero d
    let nx ← PFragment.nextHeader h
    let l ← PFragment.len h
    pure (some { s with n := s.n + l.toNat, nxt := nx, fr := h })
  else .ok none

/-- the `for checkExtHeader` loop. A pass that changes neither the offset nor the next-header value (a hop-by-hop
    header with HEL = 255, i.e. size 0, naming itself as next header) repeats forever: `spin`.
    Any other pass either advances the offset by at least 8 or is followed by one that does or leaves,
    so `fuel = len + 4` is never exhausted otherwise. -/
def xloop (data : Slice) : Nat → XSt → R XSt
  | 0, _ => .spin
  | f + 1, s =>
    match xstep data s with
    | .ok none => .ok s
    | .ok (some s') => if s'.n = s.n ∧ s'.nxt = s.nxt then .spin else xloop data f s'
    | .err => .err
    | .panic => .panic
    | .spin => .spin

def unmarshal (recv : V) (data : Slice) : R V :=
  if data.len < 40 then .err else do
    let b0 ← data.byteAt 0
    let b1 ← data.byteAt 1
    let w ← data.u32In 0 4
    let ln ← data.u16From 4
    let nh ← data.byteAt 6
    let hl ← data.byteAt 7
    let s ← data.sliceR 8 24
    let d ← data.sliceR 24 40
    let (h0, r0, f0) := match recv with
      | .obj _ [_, _, _, _, _, _, _, _, h, r, f, _] => (h, r, f)
      | _ => (.nil, .nil, .nil)
    let st ← xloop data (data.len + 4) { n := 40, nxt := nh, hbh := h0, rt := r0, fr := f0 }
    let rest ← data.fromR st.n
    let dat ←
      if st.nxt.toNat = Gen.protocol.Type_IPv6ICMP then PICMP.unmarshal PIPv4.newICMP rest
      else if st.nxt.toNat = Gen.protocol.Type_UDP then PUDP.unmarshal PIPv4.newUDP rest
      else UBuffer.unmarshal UBuffer.zero rest
    pure (.obj "p.IPv6" [V.u8 (unpackVersion b0), V.u8 (unpackClass b0 b1), V.u32 (unpackFlow w), V.u16 ln, V.u8 nh, V.u8 hl,
      .bytes (makeCopy 16 s.bytes), .bytes (makeCopy 16 d.bytes), st.hbh, st.rt, st.fr, dat])
def zero : V := .obj "p.IPv6" [.num 0, .num 0, .num 0, .num 0, .num 0, .num 0, .bytes [], .bytes [], .nil, .nil, .nil, .nil]
end PIPv6

namespace PEthernet
def lenW (anyLen : V → R (UInt16 × V)) : V → R (UInt16 × V)
  | .obj "p.Ethernet" [del, dst, src, vlan, et, dat] =>
    let n : UInt16 := 12
    let n := if PVLAN.vid vlan ≠ 0 then n + 4 else n
    let n := n + 2
    if dat.isNil then .ok (n, .obj "p.Ethernet" [del, dst, src, vlan, et, dat]) else do
      let (l, dat') ← anyLen dat
      .ok (n + l, .obj "p.Ethernet" [del, dst, src, vlan, et, dat'])
  | _ => .panic

def marshalW (anyLen : V → R (UInt16 × V)) (anyMarshal : V → R (Bytes × V)) (v : V) : R (Bytes × V) := do
  let (l, v) ← lenW anyLen v
  match v with
  | .obj "p.Ethernet" [del, .bytes dst, .bytes src, vlan, .num et, dat] =>
    let tagged := PVLAN.vid vlan ≠ 0
    let vb ← if tagged then PVLAN.bytes vlan else .ok []
    -- binary.BigEndian.PutUint16(data[n:n+2], e.Ethertype)
    let pre := [pCopy dst, pCopy src] ++ (if tagged then [pCopy vb] else []) ++ [pU16 et]
    let buf ← fill l.toNat pre
    if dat.isNil then .ok (buf, v) else do
      let (b, dat') ← anyMarshal dat
      -- copy(data[n:n+len(bytes)], bytes): the slice expression must fit
      let out ← fillFrom buf (piecesLen pre) [.put b]
      .ok (out, .obj "p.Ethernet" [del, .bytes dst, .bytes src, vlan, .num et, dat'])
  | _ => .panic

def zero : V := .obj "p.Ethernet" [.num 0, .bytes [], .bytes [], PVLAN.zero, .num 0, .nil]
/-- NewEthernet() -/
def new : V := .obj "p.Ethernet" [.num 0, .bytes (zeros 6), .bytes (zeros 6), PVLAN.new, .num 0x800, .nil]

def unmarshal (recv : V) (data : Slice) : R V :=
  if data.len < 14 then .err else do
    let del := match recv with
      | .obj _ (d :: _) => d
      | _ => .num 0
    let s1 ← data.sliceR 0 6
    let s2 ← data.sliceR 6 12
    let et0 ← data.u16From 12
    let (vlan, et, n) ←
      if et0.toNat = Gen.protocol.VLAN_MSG then do
        let d ← data.fromR 12
        let vl ← PVLAN.unmarshal PVLAN.zero d
        if data.len < 18 then .err else do   -- n += int(e.VLANID.Len()); if len(data) < n+2
          let et ← data.u16From 16
          pure (vl, et, 18)
      else (.ok (PVLAN.zero, et0, 14) : R (V × UInt16 × Nat))
    let rest ← data.fromR n
    let dat ←
      if et.toNat = Gen.protocol.IPv4_MSG then PIPv4.unmarshal PIPv4.zero rest
      else if et.toNat = Gen.protocol.IPv6_MSG then PIPv6.unmarshal PIPv6.zero rest
      else if et.toNat = Gen.protocol.ARP_MSG then PARP.unmarshal PARP.zero rest
      else UBuffer.unmarshal UBuffer.zero rest
    pure (.obj "p.Ethernet" [del, .bytes (makeCopy 6 s1.bytes), .bytes (makeCopy 6 s2.bytes), vlan, V.u16 et, dat])
end PEthernet

/-! ### `util.Message` dispatch over the kinds of this file.  `depth` bounds the nesting of containers inside
    containers (Ethernet in Ethernet …); it is decreased at each container level and starts at 16, more than any
    generated value nests; exhausting it yields `panic` (unreachable by construction). -/
def protoAnyLenD : Nat → V → R (UInt16 × V)
  | 0, _ => .panic
  | d + 1, v =>
    match v.kind with
    | "p.Ethernet" => PEthernet.lenW (protoAnyLenD d) v
    | "p.IPv4" => PIPv4.lenW (protoAnyLenD d) v
    | "p.IPv6" => PIPv6.lenW (protoAnyLenD d) v
    | "u.Buffer" => UBuffer.lenM v
    | "p.VLAN" => PVLAN.lenM v
    | "p.ARP" => PARP.lenM v
    | "p.ICMP" => PICMP.lenM v
    | "p.TCP" => PTCP.lenM v
    | "p.UDP" => PUDP.lenM v
    | "p.IGMPv1or2" => PIGMPv1or2.lenM v
    | "p.IGMPv3Query" => PIGMPv3Query.lenM v
    | "p.IGMPv3GroupRecord" => PIGMPv3GroupRecord.lenM v
    | "p.IGMPv3MembershipReport" => PIGMPv3MembershipReport.lenM v
    | "p.Option" => POption.lenM v
    | "p.HopByHopHeader" => PHopByHop.lenM v
    | "p.RoutingHeader" => PRouting.lenM v
    | "p.FragmentHeader" => PFragment.lenM v
    | _ => .panic

def protoAnyMarshalD : Nat → V → R (Bytes × V)
  | 0, _ => .panic
  | d + 1, v =>
    match v.kind with
    | "p.Ethernet" => PEthernet.marshalW (protoAnyLenD d) (protoAnyMarshalD d) v
    | "p.IPv4" => PIPv4.marshalW (protoAnyLenD d) (protoAnyMarshalD d) v
    | "p.IPv6" => PIPv6.marshalW (protoAnyLenD d) (protoAnyMarshalD d) v
    | "u.Buffer" => UBuffer.marshalM v
    | "p.VLAN" => PVLAN.marshalM v
    | "p.ARP" => PARP.marshalM v
    | "p.ICMP" => PICMP.marshalM v
    | "p.TCP" => PTCP.marshalM v
    | "p.UDP" => PUDP.marshalM v
    | "p.IGMPv1or2" => PIGMPv1or2.marshalM v
    | "p.IGMPv3Query" => PIGMPv3Query.marshalM v
    | "p.IGMPv3GroupRecord" => PIGMPv3GroupRecord.marshalM v
    | "p.IGMPv3MembershipReport" => PIGMPv3MembershipReport.marshalM v
    | "p.Option" => POption.marshalM v
    | "p.HopByHopHeader" => PHopByHop.marshalM v
    | "p.RoutingHeader" => PRouting.marshalM v
    | "p.FragmentHeader" => PFragment.marshalM v
    | _ => .panic

def protoDepth : Nat := 16
def protoAnyLenM (v : V) : R (UInt16 × V) := protoAnyLenD protoDepth v
def protoAnyMarshalM (v : V) : R (Bytes × V) := protoAnyMarshalD protoDepth v

namespace PEthernet
def lenM (v : V) : R (UInt16 × V) := lenW protoAnyLenM v
def marshalM (v : V) : R (Bytes × V) := marshalW protoAnyLenM protoAnyMarshalM v
end PEthernet
namespace PIPv4
def lenM (v : V) : R (UInt16 × V) := lenW protoAnyLenM v
def marshalM (v : V) : R (Bytes × V) := marshalW protoAnyLenM protoAnyMarshalM v
end PIPv4
namespace PIPv6
def lenM (v : V) : R (UInt16 × V) := lenW protoAnyLenM v
def marshalM (v : V) : R (Bytes × V) := marshalW protoAnyLenM protoAnyMarshalM v
end PIPv6

/-! ### DHCP -/
namespace PDhcpOpt
def tag : V → R UInt8
  | .obj "p.dhcpoption" [.num t, _] => .ok (n8 t)
  | _ => .panic
def data : V → R Bytes
  | .obj "p.dhcpoption" [_, .bytes d] => .ok d
  | _ => .panic
def isPadOrEnd (t : UInt8) : Bool := t.toNat == Gen.protocol.DHCP_OPT_PAD || t.toNat == Gen.protocol.DHCP_OPT_END
/-- dhcpoption.Len(): 1 for a pad or end option (a lone tag byte), `uint16(len(self.data) + 2)` otherwise -/
def len (o : V) : R UInt16 := do
  let t ← tag o
  let d ← data o
  .ok (if isPadOrEnd t then 1 else n16 (d.length + 2))
/-- DHCPNewOption(tag, data) -/
def mk (t : UInt8) (d : Bytes) : V := .obj "p.dhcpoption" [V.u8 t, .bytes d]
/-- DHCPMarshalOption -/
def marshalOption (o : V) : R Bytes := do
  let t ← tag o
  if isPadOrEnd t then .ok [t] else do
    let d ← data o
    if d.length > 253 then .err else .ok ([t, n8 d.length] ++ d)

structure St where
  pos : Nat
  opts : List V
  done : Bool

/-- DHCPParseOptions(in) — `in[pos:pos+int(_len)]` may reach beyond len(in) up to cap(in) -/
def parseOptions (inp : Slice) : R (List V) := do
  let st ← goLoop (σ := St) (inp.len + 1) (fun s => s.pos < inp.len && !s.done) (·.pos)
    (fun s => do
      let t ← inp.byteAt s.pos
      let pos := s.pos + 1
      if t.toNat = Gen.protocol.DHCP_OPT_PAD then pure { s with pos := pos, opts := s.opts ++ [mk t []] }
      else if t.toNat = Gen.protocol.DHCP_OPT_END then pure { s with pos := pos, done := true }
      else if inp.len - pos ≥ 1 then do
        let l ← inp.byteAt pos
        let pos := pos + 1
        if inp.len - pos < l.toNat then .err else do
        let d ← inp.sliceR pos (pos + l.toNat)
        pure { s with pos := pos + l.toNat, opts := s.opts ++ [mk t d.bytes] }
      else pure { s with pos := pos })
    { pos := 0, opts := [], done := false }
  pure st.opts
end PDhcpOpt

namespace PDHCP
/-- dhcpMagic -/
def magic : UInt32 := 0x63825363

def optLens : List V → R (List UInt16)
  | [] => .ok []
  | o :: os => do
    let l ← PDhcpOpt.len o
    let ls ← optLens os
    pure (l :: ls)
def hasEnd : List V → R Bool
  | [] => .ok false
  | o :: os => do
    let t ← PDhcpOpt.tag o
    let r ← hasEnd os
    pure (t.toNat == Gen.protocol.DHCP_OPT_END || r)
def len : V → R UInt16
  | .obj "p.DHCP" [_, _, _, _, _, _, _, _, _, _, _, _, _, _, .list os] => do
    let ls ← optLens os
    let e ← hasEnd os
    .ok (240 + sum16 ls + (if e then 0 else 1))
  | _ => .panic
def lenM (v : V) : R (UInt16 × V) := do let l ← len v; same l v

def optBytes : List V → R Bytes
  | [] => .ok []
  | o :: os => do
    let b ← PDhcpOpt.marshalOption o
    let r ← optBytes os
    pure (b ++ r)

/-- dhcpIP4: `b := make([]byte, 4); copy(b, ip.To4())` — the 4-byte wire form of an address field -/
def ip4 (ip : Bytes) : Bytes := copyInto (zeros 4) (pIpTo4 ip)

/-- the content of the bytes.Buffer that DHCP.Read assembles (binary.Write of a slice writes all its bytes) -/
def readBuf : V → R Bytes
  | .obj "p.DHCP" [.num op, .num ht, .num hl, .num ho, .num xid, .num secs, .num fl, .bytes cip, .bytes yip, .bytes sip,
      .bytes gip, .bytes hw, .bytes sname, .bytes file, .list os] => do
    let hdr := [n8 op, n8 ht, n8 hl, n8 ho] ++ be32 (n32 xid) ++ be16 (n16 secs) ++ be16 (n16 fl)
      ++ ip4 cip ++ ip4 yip ++ ip4 sip ++ ip4 gip ++ copyInto (zeros 16) hw ++ pFitTo 64 sname ++ pFitTo 128 file ++ be32 magic
    let ob ← optBytes os
    let e ← hasEnd os
    let tail ← if e then .ok [] else PDhcpOpt.marshalOption (PDhcpOpt.mk (n8 Gen.protocol.DHCP_OPT_END) [])
    .ok (hdr ++ ob ++ tail)
  | _ => .panic

/-- DHCP.Read(b): what ends up in b[:n] -/
def read (v : V) (blen : Nat) : R Bytes := do
  let buf ← readBuf v
  .ok (buf.take blen)

/-- DHCP.Write(b): updated receiver and n (every field is assigned, so the previous receiver does not matter;
    on an error return the partially updated receiver is not observable and not modelled) -/
def write (_recv : V) (b : Bytes) : R (V × Nat) :=
  if b.length < 240 then .err else
  let data := Slice.exact b
  do
    let op ← data.byteAt 0
    let ht ← data.byteAt 1
    let hl ← data.byteAt 2
    let ho ← data.byteAt 3
    let xid ← data.u32In 4 8
    let secs ← data.u16In 8 10
    let fl ← data.u16In 10 12
    let cip ← data.sliceR 12 16
    let yip ← data.sliceR 16 20
    let sip ← data.sliceR 20 24
    let gip ← data.sliceR 24 28
    let hw ← data.sliceR 28 44
    -- d.ClientHWAddr = clientHWAddr[:d.HardwareLen] on a 16-byte array
    if hl.toNat > 16 then .err else do
    let hws ← (Slice.exact hw.bytes).uptoR hl.toNat
    let sname ← data.sliceR 44 108
    let file ← data.sliceR 108 236
    let mg ← data.u32In 236 240
    if mg ≠ magic then .err else do
      let optlen := b.length - 240
      let opts ← PDhcpOpt.parseOptions (Slice.exact (b.drop 240))
      .ok (.obj "p.DHCP" [V.u8 op, V.u8 ht, V.u8 hl, V.u8 ho, V.u32 xid, V.u16 secs, V.u16 fl, .bytes cip.bytes, .bytes yip.bytes,
        .bytes sip.bytes, .bytes gip.bytes, .bytes hws.bytes, .bytes sname.bytes, .bytes file.bytes, .list opts], 240 + optlen)

/-- NewDHCP(xid, op, hwtype) for xid ≠ 0 (xid = 0 draws a random number) -/
def new (xid op hwtype : Nat) : R V :=
  if n8 hwtype ≠ n8 Gen.protocol.DHCP_HW_ETHERNET then .err
  else .ok (.obj "p.DHCP" [V.u8 (n8 op), V.u8 (n8 hwtype), .num 0, .num 0, V.u32 (n32 xid), .num 0, .num 0,
    .bytes (zeros 4), .bytes (zeros 4), .bytes (zeros 4), .bytes (zeros 4), .bytes (zeros 16), .bytes (zeros 64), .bytes (zeros 128),
    .list []])

/-- NewDHCPDiscover / Offer / Request / Ack / Nak -/
def newMsg (msg : Nat) (withClientId : Bool) (xid : Nat) (hw : Bytes) : R V := do
  let d ← new xid msg Gen.protocol.DHCP_HW_ETHERNET
  match d with
  | .obj k [op, ht, _, ho, x, secs, fl, c, y, s, g, _, sn, f, _] =>
    let o1 := PDhcpOpt.mk 53 [n8 msg]
    let os := if withClientId then [o1, PDhcpOpt.mk (n8 Gen.protocol.DHCP_OPT_CLIENT_ID) hw] else [o1]
    .ok (.obj k [op, ht, V.u8 (n8 hw.length), ho, x, secs, fl, c, y, s, g, .bytes hw, sn, f, .list os])
  | _ => .panic
def zero : V := .obj "p.DHCP" [.num 0, .num 0, .num 0, .num 0, .num 0, .num 0, .num 0, .bytes [], .bytes [], .bytes [], .bytes [],
  .bytes [], .bytes (zeros 64), .bytes (zeros 128), .list []]
end PDHCP

/-! ### LLDP -/
namespace PTLV
/-- `(tni | uint16(t.Type)<<9) + (tni | uint16(t.Length))` with tni = 0 -/
def packTypeLen (ty : UInt8) (ln : UInt16) : UInt16 := ((0 : UInt16) ||| (ty.toUInt16 <<< 9)) + ((0 : UInt16) ||| ln)
def unpackType (w : UInt16) : UInt8 := (w >>> 9).toUInt8
def unpackLen (w : UInt16) : UInt16 := 0x01ff &&& w

/-- ChassisTLV / PortTLV .Read: the buffer content -/
def readBuf (kind : String) : V → R Bytes
  | .obj k [.num ty, .num ln, .num st, .bytes d] =>
    if k = kind then .ok (be16 (packTypeLen (n8 ty) (n16 ln)) ++ [n8 st] ++ d) else .panic
  | _ => .panic

/-- ChassisTLV / PortTLV .Write(b): (n, err ≠ nil, receiver afterwards) -/
def write (kind : String) (v : V) (b : Bytes) : R (Nat × Bool × V) :=
  match v with
  | .obj k [ty0, ln0, st0, d0] =>
    if k ≠ kind then .panic else
    match b with
    | b0 :: b1 :: rest =>
      let w := UInt16.ofNat (b0.toNat * 256 + b1.toNat)
      let ty := V.u8 (unpackType w)
      let ln := unpackLen w
      match rest with
      | [] => .ok (2, true, .obj k [ty, V.u16 ln, st0, d0])
      | st :: rest2 =>
        -- t.Data = make([]uint8, t.Length); binary.Read fills it or fails leaving the zeros
        if rest2.length < ln.toNat then .ok (3, true, .obj k [ty, V.u16 ln, V.u8 st, .bytes (zeros ln.toNat)])
        else .ok (3 + ln.toNat, false, .obj k [ty, V.u16 ln, V.u8 st, .bytes (rest2.take ln.toNat)])
    | _ => .ok (0, true, .obj k [ty0, ln0, st0, d0])
  | _ => .panic

def ttlReadBuf : V → R Bytes
  | .obj "p.TTLTLV" [.num ty, .num ln, .num secs] => .ok (be16 (packTypeLen (n8 ty) (n16 ln)) ++ be16 (n16 secs))
  | _ => .panic
def ttlWrite (v : V) (b : Bytes) : R (Nat × Bool × V) :=
  match v with
  | .obj "p.TTLTLV" [ty0, ln0, s0] =>
    match b with
    | b0 :: b1 :: rest =>
      let w := UInt16.ofNat (b0.toNat * 256 + b1.toNat)
      let ty := V.u8 (unpackType w)
      let ln := V.u16 (unpackLen w)
      match rest with
      | c0 :: c1 :: _ => .ok (4, false, .obj "p.TTLTLV" [ty, ln, .num (c0.toNat * 256 + c1.toNat)])
      | _ => .ok (2, true, .obj "p.TTLTLV" [ty, ln, s0])
    | _ => .ok (0, true, .obj "p.TTLTLV" [ty0, ln0, s0])
  | _ => .panic
end PTLV

namespace PLLDP
/-- (3 + |chassis id|) + (3 + |port id|) + 4, in uint16 -/
def lenM (v : V) : R (UInt16 × V) :=
  match v with
  | .obj "p.LLDP" [.obj _ [_, _, _, .bytes cd], .obj _ [_, _, _, .bytes pd], _] =>
    same (n16 (3 + cd.length) + n16 (3 + pd.length) + 4) v
  | _ => .panic
/-- LLDP.Read(b): chassis TLV, port TLV, ttl TLV one after the other (each `Read` copies what fits into the rest of b;
    a call that copies nothing ends the sequence); result: b afterwards and n -/
def read (v : V) (b : Bytes) : R (Bytes × Nat) :=
  match v with
  | .obj "p.LLDP" [ch, pt, ttl] => do
    let cb ← PTLV.readBuf "p.ChassisTLV" ch
    let m := min b.length cb.length
    let b1 := copyInto b cb
    if m = 0 then .ok (b1, 0) else do
      let pb ← PTLV.readBuf "p.PortTLV" pt
      let o := min (b.length - m) pb.length
      let b2 := b1.take m ++ copyInto (b1.drop m) pb
      if o = 0 then .ok (b2, m) else do
        let tb ← PTLV.ttlReadBuf ttl
        let p := min (b.length - (m + o)) tb.length
        let b3 := b2.take (m + o) ++ copyInto (b2.drop (m + o)) tb
        .ok (b3, m + o + p)
  | _ => .panic
/-- LLDP.Write(b): chassis, port, ttl; the error of the last call made counts -/
def write (v : V) (b : Bytes) : R (V × Nat) :=
  match v with
  | .obj "p.LLDP" [ch, pt, ttl] => do
    let (m, e1, ch1) ← PTLV.write "p.ChassisTLV" ch b
    if m = 0 then (if e1 then .err else .ok (.obj "p.LLDP" [ch1, pt, ttl], 0)) else do
      let (o, e2, pt1) ← PTLV.write "p.PortTLV" pt (b.drop m)
      if o = 0 then (if e2 then .err else .ok (.obj "p.LLDP" [ch1, pt1, ttl], m)) else do
        let (p, e3, ttl1) ← PTLV.ttlWrite ttl (b.drop (m + o))
        if e3 then .err else .ok (.obj "p.LLDP" [ch1, pt1, ttl1], m + o + p)
  | _ => .panic
end PLLDP

/-! ### tables -/

/-- kinds without MarshalBinary/UnmarshalBinary in Go (DHCP, LLDP: only `Len`, `Read`, `Write`): the generic
    `enc`/`dec` ops print "nomarshal"/"nounmarshal" for them, which no model outcome matches; they are reached through
    `methodsProto` instead.  The table entry only serves `Len`. -/
def protoNoMarshal (_ : V) : R (Bytes × V) := .panic
def protoNoUnmarshal (_ : V) (_ : Slice) : R V := .panic

def kindsProto : KindTab := [
  ("u.Buffer", ⟨UBuffer.lenM, UBuffer.marshalM, UBuffer.unmarshal, UBuffer.zero⟩),
  ("p.VLAN", ⟨PVLAN.lenM, PVLAN.marshalM, PVLAN.unmarshal, PVLAN.zero⟩),
  ("p.Ethernet", ⟨PEthernet.lenM, PEthernet.marshalM, PEthernet.unmarshal, PEthernet.zero⟩),
  ("p.ARP", ⟨PARP.lenM, PARP.marshalM, PARP.unmarshal, PARP.zero⟩),
  ("p.IPv4", ⟨PIPv4.lenM, PIPv4.marshalM, PIPv4.unmarshal, PIPv4.zero⟩),
  ("p.IPv6", ⟨PIPv6.lenM, PIPv6.marshalM, PIPv6.unmarshal, PIPv6.zero⟩),
  ("p.Option", ⟨POption.lenM, POption.marshalM, POption.unmarshal, POption.zero⟩),
  ("p.HopByHopHeader", ⟨PHopByHop.lenM, PHopByHop.marshalM, PHopByHop.unmarshal, PHopByHop.zero⟩),
  ("p.RoutingHeader", ⟨PRouting.lenM, PRouting.marshalM, PRouting.unmarshal, PRouting.zero⟩),
  ("p.FragmentHeader", ⟨PFragment.lenM, PFragment.marshalM, PFragment.unmarshal, PFragment.zero⟩),
  ("p.ICMP", ⟨PICMP.lenM, PICMP.marshalM, PICMP.unmarshal, PICMP.zero⟩),
  ("p.TCP", ⟨PTCP.lenM, PTCP.marshalM, PTCP.unmarshal, PTCP.zero⟩),
  ("p.UDP", ⟨PUDP.lenM, PUDP.marshalM, PUDP.unmarshal, PUDP.zero⟩),
  ("p.IGMPv1or2", ⟨PIGMPv1or2.lenM, PIGMPv1or2.marshalM, PIGMPv1or2.unmarshal, PIGMPv1or2.zero⟩),
  ("p.IGMPv3Query", ⟨PIGMPv3Query.lenM, PIGMPv3Query.marshalM, PIGMPv3Query.unmarshal, PIGMPv3Query.zero⟩),
  ("p.IGMPv3GroupRecord", ⟨PIGMPv3GroupRecord.lenM, PIGMPv3GroupRecord.marshalM, PIGMPv3GroupRecord.unmarshal, PIGMPv3GroupRecord.zero⟩),
  ("p.IGMPv3MembershipReport", ⟨PIGMPv3MembershipReport.lenM, PIGMPv3MembershipReport.marshalM, PIGMPv3MembershipReport.unmarshal,
      PIGMPv3MembershipReport.zero⟩),
  ("p.DHCP", ⟨PDHCP.lenM, protoNoMarshal, protoNoUnmarshal, PDHCP.zero⟩),
  ("p.LLDP", ⟨PLLDP.lenM, protoNoMarshal, protoNoUnmarshal,
      .obj "p.LLDP" [.obj "p.ChassisTLV" [.num 0, .num 0, .num 0, .bytes []], .obj "p.PortTLV" [.num 0, .num 0, .num 0, .bytes []],
        .obj "p.TTLTLV" [.num 0, .num 0, .num 0]]⟩)
]

/-- the text of a value as bytes (harness-only observer `obs.Dump`) -/
def protoTextBytes (v : V) : Bytes := v.toText.toUTF8.toList

/-- harness-only observer `obs.Read(v, n)`: `b := make([]byte, n); k, err := v.Read(b)` ↦ `be32 k ++ b` -/
def protoObsRead (v : V) (n : Nat) : R V :=
  match v.kind with
  | "p.DHCP" => do
    let buf ← PDHCP.readBuf v
    .ok (UBuffer.mk (be32 (n32 (min n buf.length)) ++ copyInto (zeros n) buf))
  | "p.LLDP" => do
    let (b, k) ← PLLDP.read v (zeros n)
    .ok (UBuffer.mk (be32 (n32 k) ++ b))
  | "p.ChassisTLV" => do
    let buf ← PTLV.readBuf "p.ChassisTLV" v
    .ok (UBuffer.mk (be32 (n32 (min n buf.length)) ++ copyInto (zeros n) buf))
  | "p.PortTLV" => do
    let buf ← PTLV.readBuf "p.PortTLV" v
    .ok (UBuffer.mk (be32 (n32 (min n buf.length)) ++ copyInto (zeros n) buf))
  | "p.TTLTLV" => do
    let buf ← PTLV.ttlReadBuf v
    .ok (UBuffer.mk (be32 (n32 (min n buf.length)) ++ copyInto (zeros n) buf))
  | _ => .panic

def protoIgmp12 (ty : Nat) : List V → R (List V)
  | [g] => ret1 (PIGMPv1or2.mk ty 0 g)
  | _ => .panic

def protoDhcpMsg (msg : Nat) (cid : Bool) : List V → R (List V)
  | [.num xid, .bytes hw] => do let d ← PDHCP.newMsg msg cid xid hw; ret1 d
  | _ => .panic

def funcsProto : FuncTab := [
  ("u.NewBuffer", fun args => match args with
    | [.bytes b] => ret1 (UBuffer.mk b)
    | _ => .panic),
  ("p.NewEthernet", fun _ => ret1 PEthernet.new),
  ("p.NewVLAN", fun _ => ret1 PVLAN.new),
  ("p.NewARP", fun args => match args with
    | [.num opt] => do let a ← PARP.new opt; ret1 a
    | _ => .panic),
  ("p.NewIPv4", fun _ => ret1 PIPv4.new),
  ("p.NewICMP", fun _ => ret1 PIPv4.newICMP),
  ("p.NewUDP", fun _ => ret1 PIPv4.newUDP),
  ("p.NewTCP", fun _ => ret1 PTCP.zero),
  ("p.NewHopByHopHeader", fun _ => ret1 PHopByHop.zero),
  ("p.NewRoutingHeader", fun _ => ret1 PRouting.zero),
  ("p.NewFragmentHeader", fun _ => ret1 PFragment.zero),
  ("p.NewIGMPv1Query", protoIgmp12 Gen.protocol.IGMPQuery),
  ("p.NewIGMPv1Report", protoIgmp12 Gen.protocol.IGMPv1Report),
  ("p.NewIGMPv2Report", protoIgmp12 Gen.protocol.IGMPv2Report),
  ("p.NewIGMPv2Leave", protoIgmp12 Gen.protocol.IGMPv2LeaveGroup),
  ("p.NewIGMPv2Query", fun args => match args with
    | [g, .num mrt] => ret1 (PIGMPv1or2.mk Gen.protocol.IGMPQuery mrt g)
    | _ => .panic),
  ("p.NewIGMPv3Query", fun args => match args with
    | [g, .num mrt, .num qi, .list srcs] =>
      ret1 (.obj "p.IGMPv3Query" [.num Gen.protocol.IGMPQuery, V.u8 (n8 mrt), .num 0, g, .num 0, .num 0, .num 0, V.u8 (n8 qi),
        V.u16 (n16 srcs.length), .list srcs])
    | _ => .panic),
  ("p.NewGroupRecord", fun args => match args with
    | [.num ty, g, .list srcs] =>
      ret1 (.obj "p.IGMPv3GroupRecord" [V.u8 (n8 ty), .num 0, V.u16 (n16 srcs.length), g, .list srcs, .list []])
    | _ => .panic),
  ("p.NewIGMPv3Report", fun args => match args with
    | [.list gs] =>
      ret1 (.obj "p.IGMPv3MembershipReport" [.num Gen.protocol.IGMPv3Report, .num 0, .num 0, .num 0, V.u16 (n16 gs.length), .list gs])
    | _ => .panic),
  ("p.NewDHCP", fun args => match args with
    | [.num xid, .num op, .num ht] => do let d ← PDHCP.new xid op ht; ret1 d
    | _ => .panic),
  ("p.NewDHCPDiscover", protoDhcpMsg Gen.protocol.DHCP_MSG_DISCOVER true),
  ("p.NewDHCPOffer", protoDhcpMsg Gen.protocol.DHCP_MSG_OFFER false),
  ("p.NewDHCPRequest", protoDhcpMsg Gen.protocol.DHCP_MSG_REQUEST false),
  ("p.NewDHCPAck", protoDhcpMsg Gen.protocol.DHCP_MSG_ACK false),
  ("p.NewDHCPNak", protoDhcpMsg Gen.protocol.DHCP_MSG_NAK false),
  ("p.DHCPNewOption", fun args => match args with
    | [.num t, .bytes d] => ret1 (PDhcpOpt.mk (n8 t) d)
    | _ => .panic),
  ("p.DHCPStringOption", fun args => match args with
    | [.num t, .bytes d] => ret1 (PDhcpOpt.mk (n8 t) d)
    | _ => .panic),
  ("p.DHCPIP4Option", fun args => match args with
    | [.num t, .bytes ip] => match pIpTo4? ip with
      | some b => ret1 (PDhcpOpt.mk (n8 t) b)
      | none => .err
    | _ => .panic),
  ("p.DHCPIP4sOption", fun args => match args with
    | [.num t, .list ips] => do
      let bs ← pIpList ips
      -- the first address that is not IPv4 sets err and stops the loop; the option is built anyway but err is returned
      if bs.all (fun ip => (pIpTo4? ip).isSome) then ret1 (PDhcpOpt.mk (n8 t) (bs.map pIpTo4).flatten) else .err
    | _ => .panic),
  ("p.DHCPMarshalOption", fun args => match args with
    | [o] => do let b ← PDhcpOpt.marshalOption o; ret1 (.bytes b)
    | _ => .panic),
  ("p.DHCPWriteOption", fun args => match args with
    | [w, o] => do
      let b ← PDhcpOpt.marshalOption o
      let _ ← UBuffer.content w
      ret1 (.num b.length)
    | _ => .panic),
  ("p.DHCPParseOptions", fun args => match args with
    | [.bytes b] => do let os ← PDhcpOpt.parseOptions (Slice.exact b); ret1 (.list os)
    | _ => .panic),
  ("obs.Dump", fun args => match args with
    | [v] => ret1 (UBuffer.mk (protoTextBytes v))
    | _ => .panic),
  ("obs.Read", fun args => match args with
    | [v, .num n] => do let r ← protoObsRead v n; ret1 r
    | _ => .panic)
]

def protoTlvMethods (kind : String) : MethodTab := [
  (kind ++ ".Read", fun recv args => match args with
    | [.bytes b] => do let buf ← PTLV.readBuf kind recv; .ok (recv, [.num (min b.length buf.length)])
    | _ => .panic),
  (kind ++ ".Write", fun recv args => match args with
    | [.bytes b] => do
      let (n, e, v') ← PTLV.write kind recv b
      if e then .err else .ok (v', [.num n])
    | _ => .panic)
]

def protoUnmarshalMethod (ops : KindOps) (recv : V) (args : List V) : R (V × List V) :=
  match args with
  | [.bytes b] => do let v ← ops.unmarshal recv (Slice.exact b); upd v
  | _ => .panic

def methodsProtoBase : MethodTab := [
  ("p.DHCP.Len", fun recv _ => do let l ← PDHCP.len recv; .ok (recv, [V.u16 l])),
  ("p.DHCP.Read", fun recv args => match args with
    | [.bytes b] => do let r ← PDHCP.read recv b.length; .ok (recv, [.num r.length])
    | _ => .panic),
  ("p.DHCP.Write", fun recv args => match args with
    | [.bytes b] => do let (v', n) ← PDHCP.write recv b; .ok (v', [.num n])
    | _ => .panic),
  ("p.LLDP.Len", fun recv _ => do let (l, _) ← PLLDP.lenM recv; .ok (recv, [.num l.toNat])),
  ("p.LLDP.Read", fun recv args => match args with
    | [.bytes b] => do let (_, n) ← PLLDP.read recv b; .ok (recv, [.num n])
    | _ => .panic),
  ("p.LLDP.Write", fun recv args => match args with
    | [.bytes b] => do let (v', n) ← PLLDP.write recv b; .ok (v', [.num n])
    | _ => .panic),
  ("p.TTLTLV.Read", fun recv args => match args with
    | [.bytes b] => do let buf ← PTLV.ttlReadBuf recv; .ok (recv, [.num (min b.length buf.length)])
    | _ => .panic),
  ("p.TTLTLV.Write", fun recv args => match args with
    | [.bytes b] => do
      let (n, e, v') ← PTLV.ttlWrite recv b
      if e then .err else .ok (v', [.num n])
    | _ => .panic),
  ("p.dhcpoption.Len", fun recv _ => do let l ← PDhcpOpt.len recv; .ok (recv, [V.u16 l])),
  ("p.dhcpoption.Bytes", fun recv _ => do let d ← PDhcpOpt.data recv; .ok (recv, [.bytes d])),
  ("p.dhcpoption.OptionType", fun recv _ => do let t ← PDhcpOpt.tag recv; .ok (recv, [V.u8 t])),
  ("p.IGMPv1or2.GetMessageType", fun recv _ => match recv with
    | .obj "p.IGMPv1or2" [.num ty, _, _, _] => .ok (recv, [.num ty])
    | _ => .panic),
  ("p.IGMPv3Query.GetMessageType", fun recv _ => .ok (recv, [.num Gen.protocol.IGMPQuery])),
  ("p.IGMPv3MembershipReport.GetMessageType", fun recv _ => .ok (recv, [.num Gen.protocol.IGMPv3Report]))
]

def methodsProto : MethodTab := methodsProtoBase ++ protoTlvMethods "p.ChassisTLV" ++ protoTlvMethods "p.PortTLV"
  -- `$v.UnmarshalBinary(x…)` / `$v.Len()` on an arbitrary receiver (the argument slice has exactly the given bytes)
  ++ kindsProto.map (fun ko => (ko.1 ++ ".UnmarshalBinary", protoUnmarshalMethod ko.2))

end OFV.Model
