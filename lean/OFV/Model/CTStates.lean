/-
  OFV.Model.CTStates — the connection-tracking state builder as a history of operations over the
  REGENERATED setter bodies (Gen.openflow13.CTStates.*), and the match field built from it.
-/
import OFV.Model.Registry
namespace OFV.Model
open OFV OFV.Gen.openflow13

inductive CTOp | set (i : Fin 8) | unset (i : Fin 8)
deriving DecidableEq, Repr

def CTOp.flag : CTOp → Fin 8 | .set i => i | .unset i => i
def CTOp.isSet : CTOp → Bool | .set _ => true | .unset _ => false

/-- flag numbering of OVS ct_state: new0 est1 rel2 rpl3 inv4 trk5 snat6 dnat7 — the API method for each -/
def ctStep (s : CTStates) : CTOp → CTStates
  | .set 0 => s.SetNew   | .unset 0 => s.UnsetNew
  | .set 1 => s.SetEst   | .unset 1 => s.UnsetEst
  | .set 2 => s.SetRel   | .unset 2 => s.UnsetRel
  | .set 3 => s.SetRpl   | .unset 3 => s.UnsetRpl
  | .set 4 => s.SetInv   | .unset 4 => s.UnsetInv
  | .set 5 => s.SetTrk   | .unset 5 => s.UnsetTrk
  | .set 6 => s.SetSNAT  | .unset 6 => s.UnsetSNAT
  | .set 7 => s.SetDNAT  | .unset 7 => s.UnsetDNAT

def ctRun (ops : List CTOp) : CTStates := ops.foldl ctStep NewCTStates

/-- NewCTStateMatchField(states).MarshalBinary(): 4-byte header, value, mask.
    (`none` cannot happen while "NXM_NX_CT_STATE" is registered; the Go code ignores the lookup error and would
    dereference nil.) -/
def ctFieldBytes (s : CTStates) : Option Bytes :=
  (FindFieldHeaderByName "NXM_NX_CT_STATE" true).map fun h =>
    be32 h.MarshalHeader ++ be32 s.data ++ be32 s.mask

end OFV.Model
