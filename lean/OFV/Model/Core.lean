/-
  OFV.Model.Core — helpers shared by the hand-written model of the Go packages.
  See /verif/PORTING.md for the conventions (one Lean def per Go method, values as `V`, outcomes as `Res`).
-/
import OFV.Model.V
import OFV.Go.Fill
import OFV.Go.Read
import OFV.Go.Ints
import OFV.Gen.Consts
namespace OFV.Model
open OFV OFV.Go

abbrev R := Res

/-! ### encoder pieces -/
def pU8 (n : Nat) : Piece := .put [n8 n]
def pU16 (n : Nat) : Piece := .put (be16 (n16 n))
def pU32 (n : Nat) : Piece := .put (be32 (n32 n))
def pU64 (n : Nat) : Piece := .put (be64 (n64 n))
/-- `copy(data[n:], b); n += len(b)` -/
def pCopy (b : Bytes) : Piece := .copy b
/-- `copy(data[n:], b); n += k` -/
def pCopyAdv (b : Bytes) (k : Nat) : Piece := .copyAdv b k
def pSkip (k : Nat) : Piece := .skip k

/-- value unchanged by the call -/
def same {α} (a : α) (v : V) : R (α × V) := .ok (a, v)

/-- thread a value-updating function through a list (children are pointers: their mutations persist) -/
def mapM2 {α} (f : V → R (α × V)) : List V → R (List α × List V)
  | [] => .ok ([], [])
  | x :: xs => do
    let (a, x') ← f x
    let (as, xs') ← mapM2 f xs
    pure (a :: as, x' :: xs')

/-- Σ of uint16 lengths with Go's wrap-around -/
def sum16 (xs : List UInt16) : UInt16 := xs.foldl (· + ·) 0

/-- `for cond(s) { s = body(s) }` where `cursor` must strictly increase for the loop to make progress.
    A non-increasing cursor means the Go loop never terminates (`spin`). `fuel` bounds the iterations. -/
def goLoop {σ} (fuel : Nat) (cond : σ → Bool) (cursor : σ → Nat) (body : σ → R σ) (s : σ) : R σ :=
  match fuel with
  | 0 => .spin
  | f + 1 =>
    if cond s then
      match body s with
      | .ok s' => if cursor s' ≤ cursor s then .spin else goLoop f cond cursor body s'
      | .err => .err
      | .panic => .panic
      | .spin => .spin
    else .ok s

/-- round up to a multiple of 8 in uint16 arithmetic: `((n + 7) / 8) * 8` -/
def round8 (n : UInt16) : UInt16 := ((n + 7) / 8) * 8

end OFV.Model
