/-
  OFV.Model.MatchFieldGen — openflow13.NewMatchField[Int, Mask](regName, data, mask...) and its helpers
  conv / rangeMask / big2byte (nx_match.go, nx_util.go).  math/big integers are Lean `Int`/`Nat`.
  The result is the `V` form of the *MatchField:
     MatchField(Class,Field,HasMask,Length,ExperimenterID,Value,Mask)   with Value/Mask = ByteArrayField(x<data>,len) or ~
-/
import OFV.Model.Core
import OFV.Model.Registry
namespace OFV.Model.MFG
open OFV OFV.Go OFV.Model

/-- `L` bytes, big-endian, of `v` (mod 256^L) -/
def beN : Nat → Nat → Bytes
  | 0, _ => []
  | L + 1, v => beN L (v / 256) ++ [UInt8.ofNat (v % 256)]

@[simp] theorem beN_length (L v : Nat) : (beN L v).length = L := by
  induction L generalizing v with
  | zero => rfl
  | succ L ih => simp [beN, ih]

/-- big.Int.BitLen of a non-negative value -/
def bitLen (n : Nat) : Nat := if n = 0 then 0 else Nat.log2 n + 1

theorem bitLen_le_iff (n k : Nat) : bitLen n ≤ k ↔ n < 2 ^ k := by
  unfold bitLen
  by_cases h : n = 0
  · subst h; simp; exact Nat.pow_pos (by omega)
  · simp only [h, if_false]
    have := Nat.log2_lt (n := n) (k := k) h
    omega

/-- `rangeMask(start, length)` = ((1 << length) - 1) << start -/
def rangeMask (start length : Nat) : Nat := (2 ^ length - 1) * 2 ^ start

/-- `big2byte(i, length)`: `copy(result[int(length)-len(bytes):], bytes)` panics when the value needs more bytes -/
def big2byte (i : Nat) (L : Nat) : R V :=
  if i < 256 ^ L then .ok (.obj "ByteArrayField" [.bytes (beN L i), .num L]) else .panic

/-- the data argument after `conv`: integers keep their sign, byte slices are unsigned big-endian -/
def convBytes (bs : Bytes) : Int := Int.ofNat (bs.foldl (fun acc b => acc * 256 + b.toNat) 0)

/-- the tail of the masked branch: `value & mask == value`, width checks, conversion to bytes -/
def finishMasked (mk : V → V → V) (L v maskInt : Nat) : R V :=
  if v &&& maskInt ≠ v then .err else
  if bitLen maskInt > 8 * L then .err else
  match big2byte maskInt L with
  | .ok m =>
    if bitLen v > 8 * L then .err else
    match big2byte v L with
    | .ok value => .ok (mk value m)
    | .err => .err
    | .panic => .panic
    | .spin => .spin
  | .err => .err
  | .panic => .panic
  | .spin => .spin

/-- `len(mask) != 3 || mask[2] == 1` -/
def shifts : List Int → Bool
  | [_, _, m2] => decide (m2 = 1)
  | _ => true

/-- the no-mask branch -/
def finishPlain (mk : V → V → V) (L v : Nat) : R V :=
  if bitLen v > 8 * L then .err else
  match big2byte v L with
  | .ok value => .ok (mk value .nil)
  | .err => .err
  | .panic => .panic
  | .spin => .spin

/-- NewMatchField after the repair 29c7516: `.err` = error returned -/
def NewMatchField (name : String) (data : Int) (mask : List Int) : R V :=
  if mask.length > 3 then .err else
  match FindFieldHeaderByName name (decide (mask.length > 0)) with
  | none => .err
  | some hdr =>
    if data < 0 then .err else
    let v0 := data.toNat
    let mk (value : V) (maskV : V) : V :=
      .obj "MatchField" [V.u16 hdr.Class, V.u8 hdr.Field, V.bool hdr.HasMask, V.u8 hdr.Length, .num 0, value, maskV]
    match mask with
    | [] => finishPlain mk hdr.Length.toNat v0
    | m0 :: rest =>
      let L := (hdr.Length / 2).toNat
      if mask.any (fun m => decide (m < 0 ∨ m > 8 * (L : Int))) then .err else
      let s := m0.toNat
      let v := if shifts mask then v0 * 2 ^ s else v0
      let maskInt := match rest with
        | [] => rangeMask s (bitLen v)
        | m1 :: _ => rangeMask s m1.toNat
      finishMasked mk L v maskInt

end OFV.Model.MFG
