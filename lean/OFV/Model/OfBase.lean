/-
  OFV.Model.OfBase — hand model of package ofbase: Encoder (bytes.Buffer), Decoder (slice + offset + base offset),
  Header.Decode.  The alignment expression of Decoder.SkipAlign is the REGENERATED Gen.ofbase.Decoder.SkipAlign.
  `none` = the Go code panics (index / slice bounds out of range).
-/
import OFV.Go.Slice
import OFV.Gen.Pure
namespace OFV.Model.OfBase
open OFV OFV.Go

/-! ### Encoder -/

abbrev Enc := Bytes

def putU8 (e : Enc) (v : UInt8) : Enc := e ++ [v]
def putU16 (e : Enc) (v : UInt16) : Enc := e ++ be16 v
def putU32 (e : Enc) (v : UInt32) : Enc := e ++ be32 v
def putU64 (e : Enc) (v : UInt64) : Enc := e ++ be64 v
def putU128 (e : Enc) (hi lo : UInt64) : Enc := e ++ be64 hi ++ be64 lo
def write (e : Enc) (b : Bytes) : Enc := e ++ b
/-- `e.Write(bytes.Repeat([]byte{0}, (length+7)/8*8-length))` -/
def encSkipAlign (e : Enc) : Enc := e ++ zeros ((e.length + 7) / 8 * 8 - e.length)

/-! ### Decoder -/

structure Dec where
  buf : Slice
  offset : Nat
  base : Nat
deriving Repr, DecidableEq

def newDecoder (s : Slice) : Dec := ⟨s, 0, 0⟩

/-- `d.buffer[d.offset]` -/
def readByte (d : Dec) : Option (UInt8 × Dec) :=
  (d.buf.index d.offset).map fun c => (c, { d with offset := d.offset + 1 })

/-- `d.buffer[d.offset : d.offset+n]` as bytes (slice bound is the CAPACITY) -/
def window (d : Dec) (n : Nat) : Option Bytes :=
  (d.buf.slice d.offset (d.offset + n)).map (·.bytes)

def readU16 (d : Dec) : Option (UInt16 × Dec) :=
  match window d 2 with
  | none => none
  | some w => match rd16 w with
    | none => none
    | some v => some (v, { d with offset := d.offset + 2 })
def readU32 (d : Dec) : Option (UInt32 × Dec) :=
  match window d 4 with
  | none => none
  | some w => match rd32 w with
    | none => none
    | some v => some (v, { d with offset := d.offset + 4 })
def readU64 (d : Dec) : Option (UInt64 × Dec) :=
  match window d 8 with
  | none => none
  | some w => match rd64 w with
    | none => none
    | some v => some (v, { d with offset := d.offset + 8 })
def readU128 (d : Dec) : Option ((UInt64 × UInt64) × Dec) :=
  match window d 8 with
  | none => none
  | some w1 => match rd64 w1 with
    | none => none
    | some hi => match (d.buf.slice (d.offset + 8) (d.offset + 16)).map (·.bytes) with
      | none => none
      | some w2 => match rd64 w2 with
        | none => none
        | some lo => some ((hi, lo), { d with offset := d.offset + 16 })
def readN (d : Dec) (n : Nat) : Option (Bytes × Dec) :=
  match window d n with
  | none => none
  | some w => some (w, { d with offset := d.offset + n })
def skip (d : Dec) (n : Nat) : Dec := { d with offset := d.offset + n }

/-- Decoder.SkipAlign through the regenerated Int64 expression -/
def skipAlign (d : Dec) : Dec :=
  let g := Gen.ofbase.Decoder.SkipAlign { offset := Int64.ofNat d.offset, baseOffset := Int64.ofNat d.base }
  { d with offset := g.offset.toNatClampNeg }

/-- `len(d.buffer) - d.offset` (may be negative in Go; Int here) -/
def length (d : Dec) : Int := (d.buf.len : Int) - d.offset

/-- `SliceDecoder(length, rewind)`: child over `buffer[offset : offset+length-rewind]`, parent advanced -/
def sliceDecoder (d : Dec) (length rewind : Nat) : Option (Dec × Dec) :=
  if rewind ≤ length then
    (d.buf.slice d.offset (d.offset + length - rewind)).map fun s =>
      (⟨s, 0, d.offset + d.base⟩, { d with offset := d.offset + length - rewind })
  else none   -- negative length: the harness does not generate it

structure Header where
  version : UInt8
  type : UInt8
  length : UInt16
  xid : UInt32
deriving Repr, DecidableEq

/-- `Header.Decode`: `none` = error returned (too short, or a recovered panic); never a panic -/
def headerDecode (d : Dec) : Option (Header × Dec) :=
  if length d < 8 then none else
  match readByte d with
  | none => none
  | some (v, d) => match readByte d with
    | none => none
    | some (t, d) => match readU16 d with
      | none => none
      | some (l, d) => match readU32 d with
        | none => none   -- a recovered panic ⇒ error
        | some (x, d) => some (({ version := v, type := t, length := l, xid := x } : Header), d)

/-- a typed write -/
inductive W
  | u8 (v : UInt8) | u16 (v : UInt16) | u32 (v : UInt32) | u64 (v : UInt64)
  | u128 (hi lo : UInt64) | raw (bs : Bytes) | align
deriving DecidableEq, Repr

def encStep (e : Enc) : W → Enc
  | .u8 v => putU8 e v
  | .u16 v => putU16 e v
  | .u32 v => putU32 e v
  | .u64 v => putU64 e v
  | .u128 hi lo => putU128 e hi lo
  | .raw bs => write e bs
  | .align => encSkipAlign e

def encRun (e : Enc) (ws : List W) : Enc := ws.foldl encStep e

/-- the matching read: uses only the SHAPE of `w` (for raw: its length) and returns what was read, as a `W` -/
def decStep (d : Dec) : W → Option (W × Dec)
  | .u8 _ => (readByte d).map fun (v, d) => (.u8 v, d)
  | .u16 _ => (readU16 d).map fun (v, d) => (.u16 v, d)
  | .u32 _ => (readU32 d).map fun (v, d) => (.u32 v, d)
  | .u64 _ => (readU64 d).map fun (v, d) => (.u64 v, d)
  | .u128 _ _ => (readU128 d).map fun ((hi, lo), d) => (.u128 hi lo, d)
  | .raw bs => (readN d bs.length).map fun (v, d) => (.raw v, d)
  | .align => some (.align, skipAlign d)

def decAll (d : Dec) : List W → Option (List W × Dec)
  | [] => some ([], d)
  | w :: ws => do
    let (v, d) ← decStep d w
    let (vs, d) ← decAll d ws
    pure (v :: vs, d)


end OFV.Model.OfBase
