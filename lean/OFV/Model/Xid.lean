/-
  OFV.Model.Xid — the process-wide transaction-id counter of common.NewHeaderGenerator:
      xid := atomic.AddUint32(&messageXid, 1)
  One transition = one atomic add by some goroutine; the log records (goroutine, xid) in the order of the adds.
  `NonAtomic` is the contrasting system (load and store as separate transitions) used to show what the atomic
  add buys.
-/
namespace OFV.Model.Xid

structure St where
  ctr : UInt32
  log : List (Nat × UInt32)     -- (goroutine, xid issued)
deriving Repr, DecidableEq

def init : St := ⟨1, []⟩       -- `var messageXid uint32 = 1`

/-- goroutine g draws an id -/
def draw (s : St) (g : Nat) : St := ⟨s.ctr + 1, s.log ++ [(g, s.ctr + 1)]⟩

/-- any schedule: the sequence of goroutines performing their draws -/
def run (sched : List Nat) : St := sched.foldl draw init

namespace NonAtomic
/-- `x := messageXid; messageXid = x + 1` as two transitions per goroutine -/
structure St where
  ctr : UInt32
  loaded : List (Nat × UInt32)  -- goroutines between their load and their store
  log : List (Nat × UInt32)
deriving Repr, DecidableEq

inductive Ev | load (g : Nat) | store (g : Nat)
deriving Repr, DecidableEq

def step (s : St) : Ev → St
  | .load g => { s with loaded := (g, s.ctr) :: s.loaded }
  | .store g =>
    match s.loaded.lookup g with
    | some x => { ctr := x + 1, loaded := s.loaded.filter (·.1 ≠ g), log := s.log ++ [(g, x + 1)] }
    | none => s
def run (evs : List Ev) : St := evs.foldl step ⟨1, [], []⟩
end NonAtomic

end OFV.Model.Xid
