/-
  OFV.Model.Registry — hand model of openflow13.FindFieldHeaderByName and MatchField.UnmarshalHeader,
  over the REGENERATED table Gen.registry and the regenerated MatchField.MarshalHeader.
-/
import OFV.Go.Bytes
import OFV.Gen.Registry
import OFV.Gen.Pure
namespace OFV.Model
open OFV OFV.Gen.openflow13

/-- strings.ToUpper restricted to ASCII input (the harness only generates ASCII names; see DESIGN §8) -/
def toUpperASCII (s : String) : String := s.map Char.toUpper

/-- `FindFieldHeaderByName(name, hasMask)`: `none` = the Go function returns an error.
    `length := field.Length * 2` is uint8 arithmetic. -/
def FindFieldHeaderByName (name : String) (hasMask : Bool) : Option MatchField :=
  match Gen.registry.lookup (toUpperASCII name) with
  | none => none
  | some (c, f, l) =>
    let len : UInt8 := UInt8.ofNat l
    some { Class := UInt16.ofNat c, Field := UInt8.ofNat f, HasMask := hasMask,
           Length := if hasMask then len * 2 else len }

/-- `(*MatchField).UnmarshalHeader(data)`: `none` = error (fewer than 4 bytes) -/
def UnmarshalHeader (data : Bytes) : Option MatchField :=
  match data with
  | b0 :: b1 :: b2 :: b3 :: _ =>
    some { Class := UInt16.ofNat (b0.toNat * 256 + b1.toNat),
           HasMask := decide (b2 &&& 1 = 1),
           Field := b2 >>> 1,
           Length := b3 &&& 0xff }
  | _ => none

end OFV.Model
