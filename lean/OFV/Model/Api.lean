/-
  OFV.Model.Api — tables through which the driver (and the property statements) reach the model:
    kinds    Go type name ↦ Len / MarshalBinary / UnmarshalBinary / zero value (`new(T)`)
    funcs    exported function name ↦ model function on argument values
    methods  "Type.Method" ↦ model method: receiver, arguments ↦ updated receiver, results
-/
import OFV.Model.Core
namespace OFV.Model
open OFV OFV.Go

structure KindOps where
  lenM : V → R (UInt16 × V)
  marshalM : V → R (Bytes × V)
  unmarshal : V → Slice → R V
  zero : V

abbrev FuncTab := List (String × (List V → R (List V)))
abbrev MethodTab := List (String × (V → List V → R (V × List V)))
abbrev KindTab := List (String × KindOps)

/-- result of a function returning one value -/
def ret1 (v : V) : R (List V) := .ok [v]
/-- a method that only updates its receiver -/
def upd (v : V) : R (V × List V) := .ok (v, [])

end OFV.Model
