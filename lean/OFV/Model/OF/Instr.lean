/-
  openflow13/instruction.go, group.go, flowmod.go
    InstrHeader(Type,Length)
    InstrGotoTable(InstrHeader(..),TableId,pad)
    InstrWriteMetadata(InstrHeader(..),pad,Metadata,MetadataMask)
    InstrActions(InstrHeader(..),pad,[action…])
    InstrMeter(InstrHeader(..),MeterId)                 -- 8 bytes: header + meter id
    Bucket(Length,Weight,WatchPort,WatchGroup,pad,[action…])
    GroupMod(Header(..),Command,Type,pad,GroupId,[Bucket…])          -- Buckets is a slice of VALUES
    FlowMod(Header(..),Cookie,CookieMask,TableId,Command,IdleTimeout,HardTimeout,Priority,BufferId,OutPort,OutGroup,
            Flags,pad,Match(..),[instruction…])
    FlowRemoved(Header(..),Cookie,Priority,Reason,TableId,DurationSec,DurationNSec,IdleTimeout,HardTimeout,
            PacketCount,ByteCount,Match(..))

  Behaviours reproduced on purpose (see the report of the port):
    * FlowMod.MarshalBinary writes OutPort into the out_group slot; `pad` is never written.
    * FlowMod (DELETE / DELETE_STRICT) and GroupMod (DELETE): Len() and Header.Length exclude the children,
      MarshalBinary still appends them.
    * DecodeInstr: unknown / experimenter type ⇒ method call on a nil interface ⇒ panic; errors of UnmarshalBinary are dropped.
    * decoder loops are driven by the length FIELD and advance by the children's Len().
    * FlowRemoved.MarshalBinary does not set Header.Length.
  Approximations (cannot be expressed with the interfaces `R (Bytes × V)` / `Match.unmarshal : V → Slice → R V`):
    * a child whose MarshalBinary returns an error together with partial bytes contributes no bytes
      (only NXActionConnTrack does that in the library);
    * FlowMod.UnmarshalBinary ignores the error of Match.UnmarshalBinary and keeps the partially decoded Match;
      the model keeps the receiver's Match unchanged instead (`InstrAux.matchUnmarshalP`, one place to swap), e.g.
        dec FlowMod 040e0038…0001 0008 80000204 00000007   Go: Match(1,8,[])   model: Match(0,0,[])
-/
import OFV.Model.OF.Action
namespace OFV.Model
open OFV OFV.Go

namespace InstrAux

/-- keep the error flag of a call whose error the Go code ignores, overwrites or returns later;
    `dflt` is the state the receiver is left in when the call fails -/
def catchErr {α} (r : R α) (dflt : α) : R (α × Bool) :=
  match r with
  | .ok a => .ok (a, false)
  | .err => .ok (dflt, true)
  | .panic => .panic
  | .spin => .spin

/-- `for _, x := range xs { b, err = x.MarshalBinary(); data = append(data, b...) }`:
    appended bytes, children after the calls, and whether the LAST assignment to `err` was an error
    (`e` = state of `err` before the loop). -/
def marshalList (f : V → R (Bytes × V)) : List V → Bool → R (Bytes × List V × Bool)
  | [], e => .ok ([], [], e)
  | x :: xs, _ =>
    match f x with
    | .ok (b, x') =>
      match marshalList f xs false with
      | .ok (bs, xs', e) => .ok (b ++ bs, x' :: xs', e)
      | .err => .err
      | .panic => .panic
      | .spin => .spin
    | .err =>
      match marshalList f xs true with
      | .ok (bs, xs', e) => .ok (bs, x :: xs', e)
      | .err => .err
      | .panic => .panic
      | .spin => .spin
    | .panic => .panic
    | .spin => .spin

/-- state of the child-decoding loops: cursor, children so far, error returned from inside the loop -/
structure St where
  n : Nat
  xs : List V
  err : Bool

/-- progress measure of those loops: an error leaves the loop (counted as progress) -/
def St.cursor (s : St) : Nat := s.n + (if s.err then 1 else 0)

/-- `for n < limit { a, err := DecodeAction(data[n:]); if err != nil { return err }; xs = append(xs, a); n += int(a.Len()) }` -/
def decodeActions (data : Slice) (limit : Nat) (n0 : Nat) (xs0 : List V) : R St :=
  goLoop (σ := St) (data.len + 2) (fun s => !s.err && s.n < limit) St.cursor
    (fun s => do
      let d ← data.fromR s.n
      match DecodeAction (d.len + 1) d with
      | .ok act => do
        let (l, act') ← Action.lenM act
        -- `if act.Len() == 0 { return errors.New(...) }`
        if l = 0 then pure { s with err := true }
        else pure { n := s.n + l.toNat, xs := s.xs ++ [act'], err := false }
      | .err => .ok { s with err := true }
      | .panic => .panic
      | .spin => .spin)
    { n := n0, xs := xs0, err := false }

/-- `f.Match.UnmarshalBinary(d)` keeping the receiver when the error is not propagated.
    NOTE: Go leaves a partially decoded Match behind when it fails; `Match.unmarshal` does not expose that state,
    so the receiver is taken as unchanged (swap for `Match.unmarshalP` if the Match model offers it). -/
def matchUnmarshalP (recv : V) (d : Slice) : R (V × Bool) := Match.unmarshalP recv d

/-- capacity Go's allocator gives `append([]byte(nil), b...)` (malloc size classes, go1.23), the way the harness
    builds a `[]byte` ARGUMENT of `fn`; the spare capacity is zeroed -/
def sizeClasses : List Nat :=
  [8, 16, 24, 32, 48, 64, 80, 96, 112, 128, 144, 160, 176, 192, 208, 224, 240, 256, 288, 320, 352, 384, 416, 448,
   480, 512, 576, 640, 704, 768, 896, 1024, 1152, 1280, 1408, 1536, 1792, 2048, 2304, 2688, 3072, 3200, 3456, 4096,
   4864, 5376, 6144, 6528, 6784, 6912, 8192, 9472, 9728, 10240, 10880, 12288, 13568, 14336, 16384, 18432, 19072,
   20480, 21760, 24576, 27264, 28672, 32768]
def argSlice (b : Bytes) : Slice :=
  match sizeClasses.find? (fun c => b.length ≤ c) with
  | some c => if b.length = 0 then ⟨[], 0⟩ else ⟨b ++ zeros (c - b.length), b.length⟩
  | none => ⟨b ++ zeros ((8192 - b.length % 8192) % 8192), b.length⟩

/-- `recv.UnmarshalBinary(b)` called from an API program (the byte-slice argument is built like those of `fn`) -/
def unmarshalMethod (f : V → Slice → R V) : V → List V → R (V × List V) := fun recv args =>
  match args with
  | [.bytes b] => do let v ← f recv (argSlice b); upd v
  | _ => .panic

end InstrAux
open InstrAux

/-! ## instruction.go -/

namespace InstrHeader
def zero : V := .obj "InstrHeader" [.num 0, .num 0]
def lenM (v : V) : R (UInt16 × V) := same 4 v
def bytes : V → R Bytes
  | .obj "InstrHeader" [.num t, .num l] => .ok (be16 (n16 t) ++ be16 (n16 l))
  | _ => .panic
def marshalM (v : V) : R (Bytes × V) := do let b ← bytes v; same b v
def unmarshal (_recv : V) (data : Slice) : R V :=
  if data.len ≠ 4 then .err else do
    let t ← data.u16In 0 2
    let l ← data.u16In 2 4
    pure (.obj "InstrHeader" [V.u16 t, V.u16 l])
/-- `instr.InstrHeader.UnmarshalBinary(data[:4])`, result ignored (the 4-byte slice never fails the size check) -/
def unmarshal4 (recv : V) (data : Slice) : R V := do
  let d4 ← data.uptoR 4
  let (h, _) ← catchErr (unmarshal recv d4) recv
  pure h
def length : V → Nat
  | .obj "InstrHeader" [_, .num l] => l
  | _ => 0
end InstrHeader

namespace InstrGotoTable
def zero : V := .obj "InstrGotoTable" [InstrHeader.zero, .num 0, .bytes []]
def lenM (v : V) : R (UInt16 × V) := same 8 v
def marshalM (v : V) : R (Bytes × V) :=
  match v with
  | .obj "InstrGotoTable" [h, .num tid, .bytes pad] => do
    let hb ← InstrHeader.bytes h
    -- b := make([]byte, 4); b[0] = TableId; copy(b[3:], pad)
    same (hb ++ [n8 tid, 0, 0] ++ makeCopy 1 pad) v
  | _ => .panic
def unmarshal (recv : V) (data : Slice) : R V :=
  match recv with
  | .obj "InstrGotoTable" [h0, _, .bytes pad0] => do
    let h ← InstrHeader.unmarshal4 h0 data
    let tid ← data.byteAt 4
    let s ← data.sliceR 5 8
    pure (.obj "InstrGotoTable" [h, V.u8 tid, .bytes (copyInto pad0 s.bytes)])
  | _ => .panic
/-- NewInstrGotoTable(tableId) -/
def new (tid : Nat) : V :=
  .obj "InstrGotoTable" [.obj "InstrHeader" [.num Gen.openflow13.InstrType_GOTO_TABLE, .num 8], V.u8 (n8 tid), .bytes (zeros 3)]
end InstrGotoTable

namespace InstrWriteMetadata
def zero : V := .obj "InstrWriteMetadata" [InstrHeader.zero, .bytes [], .num 0, .num 0]
def lenM (v : V) : R (UInt16 × V) := same 24 v
def marshalM (v : V) : R (Bytes × V) :=
  match v with
  | .obj "InstrWriteMetadata" [h, .bytes pad, .num md, .num mk] => do
    let hb ← InstrHeader.bytes h
    -- b := make([]byte, 20); copy(b, pad); PutUint64(b[4:], md); PutUint64(b[12:], mask)
    same (hb ++ makeCopy 4 pad ++ be64 (n64 md) ++ be64 (n64 mk)) v
  | _ => .panic
def unmarshal (recv : V) (data : Slice) : R V :=
  match recv with
  | .obj "InstrWriteMetadata" [h0, .bytes pad0, _, _] => do
    let h ← InstrHeader.unmarshal4 h0 data
    let s ← data.sliceR 4 8
    let md ← data.u64In 8 16
    let mk ← data.u64In 16 24
    pure (.obj "InstrWriteMetadata" [h, .bytes (copyInto pad0 s.bytes), V.u64 md, V.u64 mk])
  | _ => .panic
/-- NewInstrWriteMetadata(metadata, metadataMask) -/
def new (md mk : Nat) : V :=
  .obj "InstrWriteMetadata" [.obj "InstrHeader" [.num Gen.openflow13.InstrType_WRITE_METADATA, .num 24],
    .bytes (zeros 4), V.u64 (n64 md), V.u64 (n64 mk)]
end InstrWriteMetadata

namespace InstrActions
def zero : V := .obj "InstrActions" [InstrHeader.zero, .bytes [], .list []]
def lenM : V → R (UInt16 × V)
  | .obj "InstrActions" [h, p, .list as] => do
    let (ls, as') ← mapM2 Action.lenM as
    .ok (8 + sum16 ls, .obj "InstrActions" [h, p, .list as'])
  | _ => .panic
/-- `instr.Length = instr.Len()` first: the header carries the size of the CURRENT actions -/
def marshalM (v : V) : R (Bytes × V) := do
  let (l, v) ← lenM v
  match v with
  | .obj "InstrActions" [.obj "InstrHeader" [t, _], .bytes pad, .list as] => do
    let h := V.obj "InstrHeader" [t, V.u16 l]
    let hb ← InstrHeader.bytes h
    let (bs, as', e) ← marshalList Action.marshalM as false
    if e then .err else .ok (hb ++ makeCopy 4 pad ++ bs, .obj "InstrActions" [h, .bytes pad, .list as'])
  | _ => .panic
/-- UnmarshalBinary: receiver after the call and whether an error was returned -/
def unmarshalP (recv : V) (data : Slice) : R (V × Bool) :=
  match recv with
  | .obj "InstrActions" [h0, pad, .list as0] => do
    let h ← InstrHeader.unmarshal4 h0 data
    let st ← decodeActions data (InstrHeader.length h) 8 as0
    pure (.obj "InstrActions" [h, pad, .list st.xs], st.err)
  | _ => .panic
def unmarshal (recv : V) (data : Slice) : R V := do
  let (v, e) ← unmarshalP recv data
  if e then .err else pure v
/-- AddAction(act, prepend) -/
def addAction (v act : V) (prepend : Bool) : R V :=
  match v with
  | .obj "InstrActions" [h, p, .list as] => do
    let as1 := if prepend then act :: as else as ++ [act]
    let (l, v1) ← lenM (.obj "InstrActions" [h, p, .list as1])
    match v1 with
    | .obj "InstrActions" [.obj "InstrHeader" [t, _], p', as'] =>
      pure (.obj "InstrActions" [.obj "InstrHeader" [t, V.u16 l], p', as'])
    | _ => .panic
  | _ => .panic
/-- NewInstrWriteActions / NewInstrApplyActions -/
def new (ty : Nat) : V := .obj "InstrActions" [.obj "InstrHeader" [.num ty, .num 8], .bytes (zeros 4), .list []]
end InstrActions

namespace InstrMeter
def zero : V := .obj "InstrMeter" [InstrHeader.zero, .num 0]
def lenM (v : V) : R (UInt16 × V) := same 8 v
def marshalM (v : V) : R (Bytes × V) :=
  match v with
  | .obj "InstrMeter" [h, .num m] => do let hb ← InstrHeader.bytes h; same (hb ++ be32 (n32 m)) v
  | _ => .panic
/-- fewer than 8 bytes: error; the header from `data[:4]` (its error ignored), then the meter id -/
def unmarshal (recv : V) (data : Slice) : R V :=
  match recv with
  | .obj "InstrMeter" [h0, _] =>
    if data.len < 8 then .err else do
      let h ← InstrHeader.unmarshal4 h0 data
      let m ← data.u32From 4
      pure (.obj "InstrMeter" [h, V.u32 m])
  | _ => .panic
/-- NewInstrMeter(meterId) -/
def new (m : Nat) : V := .obj "InstrMeter" [.obj "InstrHeader" [.num Gen.openflow13.InstrType_METER, .num 8], V.u32 (n32 m)]
end InstrMeter

/- interface Instruction -/
namespace Instruction
def lenM (v : V) : R (UInt16 × V) :=
  match v.kind with
  | "InstrGotoTable" => InstrGotoTable.lenM v
  | "InstrWriteMetadata" => InstrWriteMetadata.lenM v
  | "InstrActions" => InstrActions.lenM v
  | "InstrMeter" => InstrMeter.lenM v
  | _ => .panic
def marshalM (v : V) : R (Bytes × V) :=
  match v.kind with
  | "InstrGotoTable" => InstrGotoTable.marshalM v
  | "InstrWriteMetadata" => InstrWriteMetadata.marshalM v
  | "InstrActions" => InstrActions.marshalM v
  | "InstrMeter" => InstrMeter.marshalM v
  | _ => .panic
end Instruction

/-- DecodeInstr(data): the error of UnmarshalBinary is dropped, the (partially filled) value is returned;
    an unknown or experimenter type leaves the interface nil and the method call panics -/
def DecodeInstr (data : Slice) : R V := do
  let t16 ← data.u16In 0 2
  let t := t16.toNat
  if t = Gen.openflow13.InstrType_GOTO_TABLE then do
    let (v, _) ← catchErr (InstrGotoTable.unmarshal InstrGotoTable.zero data) InstrGotoTable.zero
    pure v
  else if t = Gen.openflow13.InstrType_WRITE_METADATA then do
    let (v, _) ← catchErr (InstrWriteMetadata.unmarshal InstrWriteMetadata.zero data) InstrWriteMetadata.zero
    pure v
  else if t = Gen.openflow13.InstrType_WRITE_ACTIONS ∨ t = Gen.openflow13.InstrType_APPLY_ACTIONS
      ∨ t = Gen.openflow13.InstrType_CLEAR_ACTIONS then do
    let (v, _) ← InstrActions.unmarshalP InstrActions.zero data
    pure v
  else if t = Gen.openflow13.InstrType_METER then do
    let (v, _) ← catchErr (InstrMeter.unmarshal InstrMeter.zero data) InstrMeter.zero
    pure v
  else .panic

/-! ## group.go -/

namespace Bucket
def zero : V := .obj "Bucket" [.num 0, .num 0, .num 0, .num 0, .bytes [], .list []]
def lenM : V → R (UInt16 × V)
  | .obj "Bucket" [l, w, wp, wg, p, .list as] => do
    let (ls, as') ← mapM2 Action.lenM as
    .ok (round8 (16 + sum16 ls), .obj "Bucket" [l, w, wp, wg, p, .list as'])
  | _ => .panic
def marshalM (v : V) : R (Bytes × V) := do
  let (l, v) ← lenM v             -- b.Length = b.Len()
  match v with
  | .obj "Bucket" [_, .num w, .num wp, .num wg, p, .list as] => do
    let (bs, as', e) ← marshalList Action.marshalM as false
    if e then .err
    else
      -- the padding Len() counts is written: data is extended with zeros up to b.Length
      let body := be16 l ++ be16 (n16 w) ++ be32 (n32 wp) ++ be32 (n32 wg) ++ zeros 4 ++ bs
      .ok (body ++ zeros (l.toNat - body.length),
              .obj "Bucket" [V.u16 l, .num w, .num wp, .num wg, p, .list as'])
  | _ => .panic
def unmarshalP (recv : V) (data : Slice) : R (V × Bool) :=
  match recv with
  | .obj "Bucket" [_, _, _, _, p, .list as0] => do
    let l ← data.u16From 0
    let w ← data.u16From 2
    let wp ← data.u32From 4
    let wg ← data.u32From 8
    let st ← decodeActions data l.toNat 16 as0
    pure (.obj "Bucket" [V.u16 l, V.u16 w, V.u32 wp, V.u32 wg, p, .list st.xs], st.err)
  | _ => .panic
def unmarshal (recv : V) (data : Slice) : R V := do
  let (v, e) ← unmarshalP recv data
  if e then .err else pure v
/-- NewBucket() -/
def new : V := .obj "Bucket" [.num 16, .num 0, .num Gen.openflow13.P_ANY, .num Gen.openflow13.OFPG_ANY,
  .bytes (zeros 4), .list []]
def addAction : V → V → R V
  | .obj "Bucket" [l, w, wp, wg, p, .list as], act => .ok (.obj "Bucket" [l, w, wp, wg, p, .list (as ++ [act])])
  | _, _ => .panic
def length : V → V
  | .obj "Bucket" (l :: _) => l
  | _ => .num 0
def setLength (l : V) : V → V
  | .obj "Bucket" (_ :: r) => .obj "Bucket" (l :: r)
  | v => v
/-- MarshalBinary on a COPY of the bucket (`for _, bkt := range g.Buckets`): the copy's Length is lost,
    what happens to the actions (shared pointers) stays -/
def marshalCopyM (b : V) : R (Bytes × V) := do
  let (bs, b') ← marshalM b
  pure (bs, setLength (length b) b')
end Bucket

namespace GroupMod
def zero : V := .obj "GroupMod" [Header.zero, .num 0, .num 0, .num 0, .num 0, .list []]
def lenM (v : V) : R (UInt16 × V) :=
  match v with
  | .obj "GroupMod" [h, .num cmd, t, p, g, .list bs] =>
    if cmd = Gen.openflow13.OFPGC_DELETE then .ok (16, v)
    else do
      let (ls, bs') ← mapM2 Bucket.lenM bs
      .ok (16 + sum16 ls, .obj "GroupMod" [h, .num cmd, t, p, g, .list bs'])
  | _ => .panic
def marshalM (v : V) : R (Bytes × V) := do
  let (l, v) ← lenM v             -- g.Header.Length = g.Len()
  match v with
  | .obj "GroupMod" [h, .num cmd, .num t, .num p, .num g, .list bs] => do
    let h := Header.setLength l h
    let hb ← Header.bytes h
    let (bb, bs', e) ← (if cmd = Gen.openflow13.OFPGC_DELETE
      then (.ok ([], bs, false) : R (Bytes × List V × Bool)) else marshalList Bucket.marshalCopyM bs false)
    if e then .err
    else .ok (hb ++ be16 (n16 cmd) ++ [n8 t, n8 p] ++ be32 (n32 g) ++ bb,
              .obj "GroupMod" [h, .num cmd, .num t, .num p, .num g, .list bs'])
  | _ => .panic
def unmarshal (recv : V) (data : Slice) : R V :=
  match recv with
  | .obj "GroupMod" [h0, _, _, _, _, .list bs0] => do
    let d0 ← data.fromR 0
    let (h, _) ← catchErr (Header.unmarshal h0 d0) h0
    let cmd ← data.u16From 8
    let t ← data.byteAt 10
    let p ← data.byteAt 11
    let g ← data.u32From 12
    let limit := Header.length h
    let st ← goLoop (σ := St) (data.len + 2) (fun s => s.n < limit) (·.n)
      (fun s => do
        let d ← data.fromR s.n
        -- bkt := new(Bucket); bkt.UnmarshalBinary(data[n:])  (error ignored);  append(*bkt);  n += bkt.Len()
        let (b, _) ← Bucket.unmarshalP Bucket.zero d
        let (l, b') ← Bucket.lenM b
        if l = 0 then .err else
        pure { n := s.n + l.toNat, xs := s.xs ++ [b'], err := false })
      { n := 16, xs := bs0, err := false }
    pure (.obj "GroupMod" [h, V.u16 cmd, V.u8 t, V.u8 p, V.u32 g, .list st.xs])
  | _ => .panic
/-- NewGroupMod() with the transaction id supplied -/
def new (xid : Nat) : V :=
  match newHeader 4 xid with
  | .obj "Header" [ver, _, l, x] =>
    .obj "GroupMod" [.obj "Header" [ver, .num Gen.openflow13.Type_GroupMod, l, x],
      .num Gen.openflow13.OFPGC_ADD, .num Gen.openflow13.OFPGT_ALL, .num 0, .num 0, .list []]
  | _ => .nil
def addBucket : V → V → R V
  | .obj "GroupMod" [h, c, t, p, g, .list bs], b => .ok (.obj "GroupMod" [h, c, t, p, g, .list (bs ++ [b])])
  | _, _ => .panic
end GroupMod

/-! ## flowmod.go -/

namespace FlowMod
def zero : V := .obj "FlowMod" [Header.zero, .num 0, .num 0, .num 0, .num 0, .num 0, .num 0, .num 0, .num 0, .num 0,
  .num 0, .num 0, .bytes [], Match.zero, .list []]
def lenM (v : V) : R (UInt16 × V) :=
  match v with
  | .obj "FlowMod" [h, ck, cm, tid, .num cmd, it, ht, pr, bid, op, og, fl, pad, m, .list is] => do
    let (ml, m') ← Match.lenM m
    let n : UInt16 := 8 + 40 + ml
    if cmd = Gen.openflow13.FC_DELETE ∨ cmd = Gen.openflow13.FC_DELETE_STRICT then
      .ok (n, .obj "FlowMod" [h, ck, cm, tid, .num cmd, it, ht, pr, bid, op, og, fl, pad, m', .list is])
    else do
      let (ls, is') ← mapM2 Instruction.lenM is
      .ok (n + sum16 ls, .obj "FlowMod" [h, ck, cm, tid, .num cmd, it, ht, pr, bid, op, og, fl, pad, m', .list is'])
  | _ => .panic
def marshalM (v : V) : R (Bytes × V) := do
  let (l, v) ← lenM v             -- f.Header.Length = f.Len()
  match v with
  | .obj "FlowMod" [h, .num ck, .num cm, .num tid, .num cmd, .num it, .num ht, .num pr, .num bid, .num op, .num og,
      .num fl, pad, m, .list is] => do
    let h := Header.setLength l h
    let hb ← Header.bytes h
    let fixed := be64 (n64 ck) ++ be64 (n64 cm) ++ [n8 tid, n8 cmd] ++ be16 (n16 it) ++ be16 (n16 ht)
      ++ be16 (n16 pr) ++ be32 (n32 bid) ++ be32 (n32 op) ++ be32 (n32 og)
      ++ be16 (n16 fl) ++ zeros 2
    -- bytes, err = f.Match.MarshalBinary(); data = append(data, bytes...)   (Match returns nil bytes with an error)
    let ((mb, m'), e0) ← catchErr (Match.marshalM m) ([], m)
    -- delete commands carry no instructions on the wire (as in Len)
    let (ib, is', e) ← (if cmd = Gen.openflow13.FC_DELETE ∨ cmd = Gen.openflow13.FC_DELETE_STRICT
      then (.ok ([], is, e0) : R (Bytes × List V × Bool)) else marshalList Instruction.marshalM is e0)
    if e then .err
    else .ok (hb ++ fixed ++ mb ++ ib,
      .obj "FlowMod" [h, .num ck, .num cm, .num tid, .num cmd, .num it, .num ht, .num pr, .num bid, .num op, .num og,
        .num fl, pad, m', .list is'])
  | _ => .panic
def unmarshal (recv : V) (data : Slice) : R V :=
  match recv with
  | .obj "FlowMod" [h0, _, _, _, _, _, _, _, _, _, _, _, pad, m0, .list is0] => do
    let d0 ← data.fromR 0
    let (h, _) ← catchErr (Header.unmarshal h0 d0) h0
    let ck ← data.u64From 8
    let cm ← data.u64From 16
    let tid ← data.byteAt 24
    let cmd ← data.byteAt 25
    let it ← data.u16From 26
    let ht ← data.u16From 28
    let pr ← data.u16From 30
    let bid ← data.u32From 32
    let op ← data.u32From 36
    let og ← data.u32From 40
    let fl ← data.u16From 44
    let dm ← data.fromR 48
    let (m, _) ← matchUnmarshalP m0 dm       -- f.Match.UnmarshalBinary(data[n:])  (error ignored)
    let (ml, m) ← Match.lenM m
    let limit := Header.length h
    let st ← goLoop (σ := St) (data.len + 2) (fun s => s.n < limit) (·.n)
      (fun s => do
        let d ← data.fromR s.n
        let i ← DecodeInstr d
        let (l, i') ← Instruction.lenM i
        if l = 0 then .err else
        pure { n := s.n + l.toNat, xs := s.xs ++ [i'], err := false })
      { n := 48 + ml.toNat, xs := is0, err := false }
    pure (.obj "FlowMod" [h, V.u64 ck, V.u64 cm, V.u8 tid, V.u8 cmd, V.u16 it, V.u16 ht, V.u16 pr, V.u32 bid,
      V.u32 op, V.u32 og, V.u16 fl, pad, m, .list st.xs])
  | _ => .panic
/-- NewFlowMod() with the transaction id supplied -/
def new (xid : Nat) : V :=
  match newHeader 4 xid with
  | .obj "Header" [ver, _, l, x] =>
    .obj "FlowMod" [.obj "Header" [ver, .num Gen.openflow13.Type_FlowMod, l, x],
      .num 0, .num 0, .num 0, .num Gen.openflow13.FC_ADD, .num 0, .num 0, .num 1000, .num 4294967295,
      .num Gen.openflow13.P_ANY, .num Gen.openflow13.OFPG_ANY, .num 0, .bytes [], Match.new, .list []]
  | _ => .nil
def addInstruction : V → V → R V
  | .obj "FlowMod" [h, ck, cm, tid, cmd, it, ht, pr, bid, op, og, fl, pad, m, .list is], i =>
    .ok (.obj "FlowMod" [h, ck, cm, tid, cmd, it, ht, pr, bid, op, og, fl, pad, m, .list (is ++ [i])])
  | _, _ => .panic
end FlowMod

namespace FlowRemoved
def zero : V := .obj "FlowRemoved" [Header.zero, .num 0, .num 0, .num 0, .num 0, .num 0, .num 0, .num 0, .num 0,
  .num 0, .num 0, Match.zero]
def lenM : V → R (UInt16 × V)
  | .obj "FlowRemoved" [h, ck, pr, rs, tid, ds, dn, it, ht, pc, bc, m] => do
    let (ml, m') ← Match.lenM m
    .ok (8 + ml + 40, .obj "FlowRemoved" [h, ck, pr, rs, tid, ds, dn, it, ht, pc, bc, m'])
  | _ => .panic
def marshalM (v : V) : R (Bytes × V) := do
  let (l0, v) ← lenM v            -- f.Header.Length = f.Len()
  let (l, v) ← lenM v             -- data = make([]byte, int(f.Len()))
  match v with
  | .obj "FlowRemoved" [h, .num ck, .num pr, .num rs, .num tid, .num ds, .num dn, .num it, .num ht, .num pc,
      .num bc, m] => do
    let h := Header.setLength l0 h
    let hb ← Header.bytes h
    let fixed := [pCopyAdv hb 8, pU64 ck, pU16 pr, pU8 rs, pU8 tid, pU32 ds, pU32 dn, pU16 it, pU16 ht,
      pU64 pc, pU64 bc]
    let _ ← fill l.toNat fixed     -- the fixed part is written (and may panic) before the Match is marshalled
    let (mb, m) ← Match.marshalM m -- an error of the Match is what MarshalBinary returns
    let (_, m) ← Match.lenM m      -- next += int(f.Match.Len())
    let bs ← fill l.toNat (fixed ++ [pCopy mb])
    .ok (bs, .obj "FlowRemoved" [h, .num ck, .num pr, .num rs, .num tid, .num ds, .num dn, .num it, .num ht,
      .num pc, .num bc, m])
  | _ => .panic
def unmarshal (recv : V) (data : Slice) : R V :=
  match recv with
  | .obj "FlowRemoved" [h0, _, _, _, _, _, _, _, _, _, _, m0] => do
    let d0 ← data.fromR 0
    let (h, _) ← catchErr (Header.unmarshal h0 d0) h0      -- err is overwritten below
    let ck ← data.u64From 8
    let pr ← data.u16From 16
    let rs ← data.byteAt 18
    let tid ← data.byteAt 19
    let ds ← data.u32From 20
    let dn ← data.u32From 24
    let it ← data.u16From 28
    let ht ← data.u16From 30
    let pc ← data.u64From 32
    let bc ← data.u64From 40
    let dm ← data.fromR 48
    let (m, e) ← matchUnmarshalP m0 dm
    let (_, m) ← Match.lenM m       -- next += int(f.Match.Len())
    if e then .err
    else pure (.obj "FlowRemoved" [h, V.u64 ck, V.u16 pr, V.u8 rs, V.u8 tid, V.u32 ds, V.u32 dn, V.u16 it, V.u16 ht,
      V.u64 pc, V.u64 bc, m])
  | _ => .panic
/-- NewFlowRemoved() with the transaction id supplied -/
def new (xid : Nat) : V :=
  .obj "FlowRemoved" [.obj "Header" [.num 4, .num Gen.openflow13.Type_FlowRemoved, .num 8, V.u32 (n32 xid)], .num 0, .num 0, .num 0, .num 0, .num 0, .num 0, .num 0, .num 0, .num 0, .num 0,
    Match.new]
end FlowRemoved

/-! ## tables -/

def kindsInstr : KindTab := [
  ("InstrHeader", ⟨InstrHeader.lenM, InstrHeader.marshalM, InstrHeader.unmarshal, InstrHeader.zero⟩),
  ("InstrGotoTable", ⟨InstrGotoTable.lenM, InstrGotoTable.marshalM, InstrGotoTable.unmarshal, InstrGotoTable.zero⟩),
  ("InstrWriteMetadata", ⟨InstrWriteMetadata.lenM, InstrWriteMetadata.marshalM, InstrWriteMetadata.unmarshal,
      InstrWriteMetadata.zero⟩),
  ("InstrActions", ⟨InstrActions.lenM, InstrActions.marshalM, InstrActions.unmarshal, InstrActions.zero⟩),
  ("InstrMeter", ⟨InstrMeter.lenM, InstrMeter.marshalM, InstrMeter.unmarshal, InstrMeter.zero⟩),
  ("Bucket", ⟨Bucket.lenM, Bucket.marshalM, Bucket.unmarshal, Bucket.zero⟩),
  ("GroupMod", ⟨GroupMod.lenM, GroupMod.marshalM, GroupMod.unmarshal, GroupMod.zero⟩),
  ("FlowMod", ⟨FlowMod.lenM, FlowMod.marshalM, FlowMod.unmarshal, FlowMod.zero⟩),
  ("FlowRemoved", ⟨FlowRemoved.lenM, FlowRemoved.marshalM, FlowRemoved.unmarshal, FlowRemoved.zero⟩)
]

def funcsInstr : FuncTab := [
  ("DecodeInstr", fun args => match args with
    | [.bytes b] => do let v ← DecodeInstr (argSlice b); ret1 v
    | _ => .panic),
  ("NewInstrGotoTable", fun args => match args with
    | [.num t] => ret1 (InstrGotoTable.new t)
    | _ => .panic),
  ("NewInstrWriteMetadata", fun args => match args with
    | [.num md, .num mk] => ret1 (InstrWriteMetadata.new md mk)
    | _ => .panic),
  ("NewInstrMeter", fun args => match args with
    | [.num m] => ret1 (InstrMeter.new m)
    | _ => .panic),
  ("NewInstrWriteActions", fun _ => ret1 (InstrActions.new Gen.openflow13.InstrType_WRITE_ACTIONS)),
  ("NewInstrApplyActions", fun _ => ret1 (InstrActions.new Gen.openflow13.InstrType_APPLY_ACTIONS)),
  ("NewBucket", fun _ => ret1 Bucket.new),
  ("NewGroupMod", fun _ => ret1 (GroupMod.new 0)),
  ("NewFlowMod", fun _ => ret1 (FlowMod.new 0)),
  ("NewFlowRemoved", fun _ => ret1 (FlowRemoved.new 0))
]

def methodsInstr : MethodTab := [
  ("InstrHeader.UnmarshalBinary", unmarshalMethod InstrHeader.unmarshal),
  ("InstrGotoTable.UnmarshalBinary", unmarshalMethod InstrGotoTable.unmarshal),
  ("InstrWriteMetadata.UnmarshalBinary", unmarshalMethod InstrWriteMetadata.unmarshal),
  ("InstrActions.UnmarshalBinary", unmarshalMethod InstrActions.unmarshal),
  ("InstrMeter.UnmarshalBinary", unmarshalMethod InstrMeter.unmarshal),
  ("Bucket.UnmarshalBinary", unmarshalMethod Bucket.unmarshal),
  ("GroupMod.UnmarshalBinary", unmarshalMethod GroupMod.unmarshal),
  ("FlowMod.UnmarshalBinary", unmarshalMethod FlowMod.unmarshal),
  ("FlowRemoved.UnmarshalBinary", unmarshalMethod FlowRemoved.unmarshal),
  ("InstrGotoTable.AddAction", fun _ _ => .err),
  ("InstrWriteMetadata.AddAction", fun _ _ => .err),
  ("InstrMeter.AddAction", fun _ _ => .err),
  ("InstrActions.AddAction", fun recv args => match args with
    | [act, .num p] => do let v ← InstrActions.addAction recv act (p ≠ 0); upd v
    | _ => .panic),
  ("Bucket.AddAction", fun recv args => match args with
    | [act] => do let v ← Bucket.addAction recv act; upd v
    | _ => .panic),
  ("GroupMod.AddBucket", fun recv args => match args with
    | [b] => do let v ← GroupMod.addBucket recv b; upd v
    | _ => .panic),
  ("FlowMod.AddInstruction", fun recv args => match args with
    | [i] => do let v ← FlowMod.addInstruction recv i; upd v
    | _ => .panic)
]

end OFV.Model
