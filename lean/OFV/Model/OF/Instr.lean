/-
  placeholder — to be replaced by the port (see /verif/PORTING.md)
-/
import OFV.Model.OF.Action
namespace OFV.Model
open OFV OFV.Go

def kindsInstr : KindTab := []
def funcsInstr : FuncTab := []
def methodsInstr : MethodTab := []

end OFV.Model
