/-
  common/header.go — Header, HelloElemHeader, HelloElemVersionBitmap, Hello
    Header(Version,Type,Length,Xid)
    HelloElemHeader(Type,Length)
    HelloElemVersionBitmap(HelloElemHeader(..),[bitmap…])
    Hello(Header(..),[elem…])
-/
import OFV.Model.Api
namespace OFV.Model
open OFV OFV.Go

namespace Header
def len (_ : V) : UInt16 := 8
def lenM (v : V) : R (UInt16 × V) := same 8 v
def bytes : V → R Bytes
  | .obj "Header" [.num ver, .num ty, .num ln, .num xid] =>
    .ok ([n8 ver, n8 ty] ++ be16 (n16 ln) ++ be32 (n32 xid))
  | _ => .panic
def marshalM (v : V) : R (Bytes × V) := do let b ← bytes v; same b v
def unmarshal (_recv : V) (data : Slice) : R V :=
  if data.len < 4 then .err else do
    let ver ← data.byteAt 0
    let ty ← data.byteAt 1
    let ln ← data.u16In 2 4
    let xid ← data.u32In 4 8
    pure (.obj "Header" [V.u8 ver, V.u8 ty, V.u16 ln, V.u32 xid])
def zero : V := .obj "Header" [.num 0, .num 0, .num 0, .num 0]
def setLength (ln : UInt16) : V → V
  | .obj "Header" [a, b, _, d] => .obj "Header" [a, b, V.u16 ln, d]
  | v => v
def length : V → Nat
  | .obj "Header" [_, _, .num l, _] => l
  | _ => 0
end Header

namespace HelloElemHeader
def bytes : V → R Bytes
  | .obj "HelloElemHeader" [.num ty, .num ln] => .ok (be16 (n16 ty) ++ be16 (n16 ln))
  | _ => .panic
def lenM (v : V) : R (UInt16 × V) := same 4 v
def marshalM (v : V) : R (Bytes × V) := do let b ← bytes v; same b v
def unmarshal (_recv : V) (data : Slice) : R V :=
  if data.len < 4 then .err else do
    let ty ← data.u16In 0 2
    let ln ← data.u16In 2 4
    pure (.obj "HelloElemHeader" [V.u16 ty, V.u16 ln])
/-- NewHelloElemHeader() -/
def new : V := .obj "HelloElemHeader" [.num 1, .num 4]
end HelloElemHeader

namespace HelloElemVersionBitmap
/-- 4 + 4·|bitmaps| rounded up to a multiple of 8 (all in uint16) -/
def len : V → R UInt16
  | .obj "HelloElemVersionBitmap" [_, .list bms] => .ok ((4 + n16 (bms.length * 4) + 7) / 8 * 8)
  | _ => .panic
def lenM (v : V) : R (UInt16 × V) := do let l ← len v; same l v
/-- `h.Length = 4 + 4·|bitmaps|` is stored, then header and bitmaps are written into `make([]byte, Len())` (the padding
    stays zero) -/
def marshalM (v : V) : R (Bytes × V) :=
  match v with
  | .obj "HelloElemVersionBitmap" [.obj "HelloElemHeader" [ty, _], .list bms] => do
    let l ← len v
    let hdr := V.obj "HelloElemHeader" [ty, V.u16 (4 + n16 (bms.length * 4))]
    let hb ← HelloElemHeader.bytes hdr
    let bs ← fill l.toNat (pCopy hb :: bms.map (fun b => pU32 b.asNat))
    .ok (bs, .obj "HelloElemVersionBitmap" [hdr, .list bms])
  | _ => .panic
/-- NewHelloElemVersionBitmap(): one bitmap 0x12, length 8 -/
def new : V := .obj "HelloElemVersionBitmap" [.obj "HelloElemHeader" [.num 1, .num 8], .list [.num 18]]

structure St where
  read : Nat
  bms : List V

/-- header from `data[:4]`; the bitmaps end at the element's own Length (an element longer than the data is an error);
    a trailing fragment of fewer than 4 bytes inside the element is ignored -/
def unmarshal (recv : V) (data : Slice) : R V := do
  let hdrRecv := match recv with | .obj _ (h :: _) => h | _ => .nil
  let d4 ← data.uptoR 4
  let hdr ← HelloElemHeader.unmarshal hdrRecv d4
  let length := match hdr with | .obj _ [_, .num l] => l | _ => 0
  if length > data.len then .err else do
  let st ← goLoop (σ := St) (data.len + 1) (fun s => s.read + 4 ≤ length) (·.read)
    (fun s => do
      let w ← data.u32In s.read (s.read + 4)
      pure { read := s.read + 4, bms := s.bms ++ [V.u32 w] })
    { read := 4, bms := [] }
  pure (.obj "HelloElemVersionBitmap" [hdr, .list st.bms])
end HelloElemVersionBitmap

/- interface HelloElem: dispatch on the dynamic type (only one implementation exists) -/
namespace HelloElem
def lenM (v : V) : R (UInt16 × V) :=
  match v.kind with
  | "HelloElemVersionBitmap" => HelloElemVersionBitmap.lenM v
  | "HelloElemHeader" => HelloElemHeader.lenM v
  | _ => .panic
def marshalM (v : V) : R (Bytes × V) :=
  match v.kind with
  | "HelloElemVersionBitmap" => HelloElemVersionBitmap.marshalM v
  | "HelloElemHeader" => HelloElemHeader.marshalM v
  | _ => .panic
end HelloElem

namespace Hello
def lenM : V → R (UInt16 × V)
  | .obj "Hello" [hdr, .list es] => do
    let (ls, es') ← mapM2 HelloElem.lenM es
    .ok (8 + sum16 ls, .obj "Hello" [hdr, .list es'])
  | _ => .panic

def marshalM (v : V) : R (Bytes × V) := do
  let (l0, v) ← lenM v          -- make([]byte, int(h.Len()))
  let (l1, v) ← lenM v          -- h.Header.Length = h.Len()
  match v with
  | .obj "Hello" [hdr, .list es] =>
    let hdr := Header.setLength l1 hdr
    let hb ← Header.bytes hdr
    let (ebs, es') ← mapM2 HelloElem.marshalM es
    let bs ← fill l0.toNat (pCopy hb :: ebs.map pCopy)
    .ok (bs, .obj "Hello" [hdr, .list es'])
  | _ => .panic

structure St where
  next : Nat
  elems : List V
  err : Bool

def unmarshal (recv : V) (data : Slice) : R V := do
  let hdrRecv := match recv with | .obj _ (h :: _) => h | _ => Header.zero
  let d0 ← data.fromR 0
  -- err := h.Header.UnmarshalBinary(data[next:])   (this error is only returned at the end, if no element resets it)
  let (hdr, e0) ← match Header.unmarshal hdrRecv d0 with
    | .ok h => (.ok (h, false) : R (V × Bool))
    | .err => .ok (hdrRecv, true)
    | .panic => .panic
    | .spin => .spin
  let st ← goLoop (σ := St) (data.len + 1) (fun s => s.next < data.len) (·.next)
    (fun s => do
      let d ← data.fromR s.next
      -- e := NewHelloElemHeader(); an undecodable element header (fewer than 4 bytes left) is an error
      let e ← HelloElemHeader.unmarshal HelloElemHeader.new d
      match e with
      | .obj _ [.num ty, .num elen] =>
        if elen < 4 then .err else
        -- elements are padded to a multiple of 8 bytes: next += (int(e.Length) + 7) / 8 * 8
        let adv := (elen + 7) / 8 * 8
        if ty = 1 then do
          let v ← HelloElemVersionBitmap.unmarshal HelloElemVersionBitmap.new d
          pure { next := s.next + adv, elems := s.elems ++ [v], err := false }
        else .ok { s with next := s.next + adv }
      | _ => .panic)
    { next := 8, elems := [], err := e0 }
  if st.err then .err else pure (.obj "Hello" [hdr, .list st.elems])

end Hello

/-- common.NewHeaderGenerator(ver)() with the xid supplied by the caller (the counter is modelled in Xid.lean) -/
def newHeader (ver xid : Nat) : V := .obj "Header" [V.u8 (n8 ver), .num 0, .num 8, V.u32 (n32 xid)]

/-- common.NewHello(ver) -/
def NewHello (ver xid : Nat) : V := .obj "Hello" [newHeader ver xid, .list [HelloElemVersionBitmap.new]]

end OFV.Model

namespace OFV.Model
open OFV OFV.Go

def kindsHeader : KindTab := [
  ("Header", ⟨Header.lenM, Header.marshalM, Header.unmarshal, Header.zero⟩),
  ("HelloElemHeader", ⟨HelloElemHeader.lenM, HelloElemHeader.marshalM, HelloElemHeader.unmarshal,
      .obj "HelloElemHeader" [.num 0, .num 0]⟩),
  ("HelloElemVersionBitmap", ⟨HelloElemVersionBitmap.lenM, HelloElemVersionBitmap.marshalM, HelloElemVersionBitmap.unmarshal,
      .obj "HelloElemVersionBitmap" [.obj "HelloElemHeader" [.num 0, .num 0], .list []]⟩),
  ("Hello", ⟨Hello.lenM, Hello.marshalM, Hello.unmarshal, .obj "Hello" [Header.zero, .list []]⟩)
]

def funcsHeader : FuncTab := [
  ("NewHelloElemHeader", fun _ => ret1 HelloElemHeader.new),
  ("NewHelloElemVersionBitmap", fun _ => ret1 HelloElemVersionBitmap.new),
  ("NewHello", fun args => match args with
    | [.num ver] => ret1 (NewHello ver 0)
    | _ => .panic)
]

end OFV.Model
