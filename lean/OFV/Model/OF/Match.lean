/-
  placeholder — to be replaced by the port (see /verif/PORTING.md)
-/
import OFV.Model.OF.Header
namespace OFV.Model
open OFV OFV.Go

def kindsMatch : KindTab := []
def funcsMatch : FuncTab := []
def methodsMatch : MethodTab := []

end OFV.Model
