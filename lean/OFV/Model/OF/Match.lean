/-
  openflow13/match.go, openflow13/nx_match.go (and FindFieldHeaderByName / NXRange of nx_util.go)

    Match(Type,Length,[MatchField…])                     Fields is a slice of VALUES
    MatchField(Class,Field,HasMask,Length,ExperimenterID,Value,Mask)       Value/Mask: util.Message (payload kinds below)
    payload kinds (one numeric / byte-string field each unless noted):
      InPortField EthDstField EthSrcField EthTypeField VlanIdField MplsLabelField MplsBosField Ipv4SrcField
      Ipv4DstField Ipv6SrcField Ipv6DstField IPv6FlowLabelField IpProtoField IpDscpField TunnelIdField MetadataField
      PortField TcpFlagsField ArpOperField TunnelIpv4SrcField TunnelIpv4DstField ArpXHaField ArpXPaField
      ActsetOutputField IcmpTypeField IcmpCodeField Uint16Message Uint32Message ByteArrayField(Data,Length) CTLabel(data[16])
    CTStates(data,mask)   NXRange(start,end)            (no Len/MarshalBinary: only functions and methods)

  Behaviours of the Go code that the model reproduces on purpose (see the report of the port):
    * MatchField.Len counts 4 bytes for a non-zero ExperimenterID, MarshalBinary never writes the id
    * ArpXHaField.UnmarshalBinary copies into the receiver's slice: nil for new(ArpXHaField) ⇒ the address is lost
    * DecodeMatchField calls UnmarshalBinary on a nil interface for the NXM_1 fields without a case body and for
      unknown experimenter fields (panic); unknown class ⇒ log.Panicf
    * none of the fixed-width decoders checks the input length (index out of range panics)
-/
import OFV.Model.OF.Header
import OFV.Model.Registry
import OFV.Gen.Pure
namespace OFV.Model
open OFV OFV.Go

/-! ### net.IP helpers (nil slice = `[]`) -/

/-- `ip.To4()` -/
def ipTo4 (ip : Bytes) : Bytes :=
  if ip.length = 4 then ip
  else if ip.length = 16 ∧ ip.take 10 = zeros 10 ∧ ip[10]? = some 255 ∧ ip[11]? = some 255 then ip.drop 12
  else []

/-- `net.IPv4(a,b,c,d)`: the 16-byte v4-in-v6 form -/
def ipv4 (a b c d : UInt8) : Bytes := zeros 10 ++ [255, 255, a, b, c, d]

/-- `ip.To16()` -/
def ipTo16 (ip : Bytes) : Bytes :=
  if ip.length = 4 then zeros 10 ++ [255, 255] ++ ip
  else if ip.length = 16 then ip
  else []

/-- `net.IPv4Mask(a,b,c,d)`: 4 bytes -/
def ipv4Mask (a b c d : UInt8) : Bytes := [a, b, c, d]

/-- `net.IPv4(data[0], data[1], data[2], data[3])` -/
def readIPv4 (data : Slice) : R Bytes := do
  let a ← data.byteAt 0
  let b ← data.byteAt 1
  let c ← data.byteAt 2
  let d ← data.byteAt 3
  pure (ipv4 a b c d)

/-! ### payload kinds -/

namespace InPortField
def lenM (v : V) : R (UInt16 × V) := same 4 v
def marshalM (v : V) : R (Bytes × V) :=
  match v with
  | .obj "InPortField" [.num x] => same (be32 (n32 x)) v
  | _ => .panic
def unmarshal (_recv : V) (data : Slice) : R V := do
  let x ← data.u32From 0
  pure (.obj "InPortField" [V.u32 x])
def zero : V := .obj "InPortField" [.num 0]
end InPortField

namespace EthDstField
def lenM (v : V) : R (UInt16 × V) := same 6 v
def marshalM (v : V) : R (Bytes × V) :=
  match v with
  | .obj "EthDstField" [.bytes b] => same (makeCopy 6 b) v
  | _ => .panic
def unmarshal (_recv : V) (data : Slice) : R V :=
  .ok (.obj "EthDstField" [.bytes (makeCopy 6 data.bytes)])
def zero : V := .obj "EthDstField" [.bytes []]
end EthDstField

namespace EthSrcField
def lenM (v : V) : R (UInt16 × V) := same 6 v
def marshalM (v : V) : R (Bytes × V) :=
  match v with
  | .obj "EthSrcField" [.bytes b] => same (makeCopy 6 b) v
  | _ => .panic
def unmarshal (_recv : V) (data : Slice) : R V :=
  .ok (.obj "EthSrcField" [.bytes (makeCopy 6 data.bytes)])
def zero : V := .obj "EthSrcField" [.bytes []]
end EthSrcField

namespace EthTypeField
def lenM (v : V) : R (UInt16 × V) := same 2 v
def marshalM (v : V) : R (Bytes × V) :=
  match v with
  | .obj "EthTypeField" [.num x] => same (be16 (n16 x)) v
  | _ => .panic
def unmarshal (_recv : V) (data : Slice) : R V := do
  let x ← data.u16From 0
  pure (.obj "EthTypeField" [V.u16 x])
def zero : V := .obj "EthTypeField" [.num 0]
end EthTypeField

namespace VlanIdField
def lenM (v : V) : R (UInt16 × V) := same 2 v
def marshalM (v : V) : R (Bytes × V) :=
  match v with
  | .obj "VlanIdField" [.num x] => same (be16 (n16 x)) v
  | _ => .panic
def unmarshal (_recv : V) (data : Slice) : R V := do
  let x ← data.u16From 0
  pure (.obj "VlanIdField" [V.u16 x])
def zero : V := .obj "VlanIdField" [.num 0]
end VlanIdField

namespace MplsLabelField
def lenM (v : V) : R (UInt16 × V) := same 4 v
def marshalM (v : V) : R (Bytes × V) :=
  match v with
  | .obj "MplsLabelField" [.num x] => same (be32 (n32 x)) v
  | _ => .panic
def unmarshal (_recv : V) (data : Slice) : R V := do
  let x ← data.u32From 0
  pure (.obj "MplsLabelField" [V.u32 x])
def zero : V := .obj "MplsLabelField" [.num 0]
end MplsLabelField

namespace MplsBosField
def lenM (v : V) : R (UInt16 × V) := same 1 v
def marshalM (v : V) : R (Bytes × V) :=
  match v with
  | .obj "MplsBosField" [.num x] => same [n8 x] v
  | _ => .panic
def unmarshal (_recv : V) (data : Slice) : R V := do
  let x ← data.byteAt 0
  pure (.obj "MplsBosField" [V.u8 x])
def zero : V := .obj "MplsBosField" [.num 0]
end MplsBosField

namespace Ipv4SrcField
def lenM (v : V) : R (UInt16 × V) := same 4 v
def marshalM (v : V) : R (Bytes × V) :=
  match v with
  | .obj "Ipv4SrcField" [.bytes ip] => same (makeCopy 4 (ipTo4 ip)) v
  | _ => .panic
def unmarshal (_recv : V) (data : Slice) : R V := do
  let ip ← readIPv4 data
  pure (.obj "Ipv4SrcField" [.bytes ip])
def zero : V := .obj "Ipv4SrcField" [.bytes []]
end Ipv4SrcField

namespace Ipv4DstField
def lenM (v : V) : R (UInt16 × V) := same 4 v
def marshalM (v : V) : R (Bytes × V) :=
  match v with
  | .obj "Ipv4DstField" [.bytes ip] => same (makeCopy 4 (ipTo4 ip)) v
  | _ => .panic
def unmarshal (_recv : V) (data : Slice) : R V := do
  let ip ← readIPv4 data
  pure (.obj "Ipv4DstField" [.bytes ip])
def zero : V := .obj "Ipv4DstField" [.bytes []]
end Ipv4DstField

namespace Ipv6SrcField
def lenM (v : V) : R (UInt16 × V) := same 16 v
def marshalM (v : V) : R (Bytes × V) :=
  match v with
  | .obj "Ipv6SrcField" [.bytes ip] => same (makeCopy 16 ip) v
  | _ => .panic
def unmarshal (_recv : V) (data : Slice) : R V :=
  .ok (.obj "Ipv6SrcField" [.bytes (makeCopy 16 data.bytes)])
def zero : V := .obj "Ipv6SrcField" [.bytes []]
end Ipv6SrcField

namespace Ipv6DstField
def lenM (v : V) : R (UInt16 × V) := same 16 v
def marshalM (v : V) : R (Bytes × V) :=
  match v with
  | .obj "Ipv6DstField" [.bytes ip] => same (makeCopy 16 ip) v
  | _ => .panic
def unmarshal (_recv : V) (data : Slice) : R V :=
  .ok (.obj "Ipv6DstField" [.bytes (makeCopy 16 data.bytes)])
def zero : V := .obj "Ipv6DstField" [.bytes []]
end Ipv6DstField

/- Len() is 3, the encoder writes 4 bytes, the decoder reads 4 bytes -/
namespace IPv6FlowLabelField
def lenM (v : V) : R (UInt16 × V) := same 4 v
def marshalM (v : V) : R (Bytes × V) :=
  match v with
  | .obj "IPv6FlowLabelField" [.num x] => same (be32 (n32 x)) v
  | _ => .panic
def unmarshal (_recv : V) (data : Slice) : R V := do
  let x ← data.u32From 0
  pure (.obj "IPv6FlowLabelField" [V.u32 x])
def zero : V := .obj "IPv6FlowLabelField" [.num 0]
end IPv6FlowLabelField

namespace IpProtoField
def lenM (v : V) : R (UInt16 × V) := same 1 v
def marshalM (v : V) : R (Bytes × V) :=
  match v with
  | .obj "IpProtoField" [.num x] => same [n8 x] v
  | _ => .panic
def unmarshal (_recv : V) (data : Slice) : R V := do
  let x ← data.byteAt 0
  pure (.obj "IpProtoField" [V.u8 x])
def zero : V := .obj "IpProtoField" [.num 0]
end IpProtoField

namespace IpDscpField
def lenM (v : V) : R (UInt16 × V) := same 1 v
def marshalM (v : V) : R (Bytes × V) :=
  match v with
  | .obj "IpDscpField" [.num x] => same [n8 x] v
  | _ => .panic
def unmarshal (_recv : V) (data : Slice) : R V := do
  let x ← data.byteAt 0
  pure (.obj "IpDscpField" [V.u8 x])
def zero : V := .obj "IpDscpField" [.num 0]
end IpDscpField

namespace TunnelIdField
def lenM (v : V) : R (UInt16 × V) := same 8 v
def marshalM (v : V) : R (Bytes × V) :=
  match v with
  | .obj "TunnelIdField" [.num x] => same (be64 (n64 x)) v
  | _ => .panic
def unmarshal (_recv : V) (data : Slice) : R V := do
  let x ← data.u64From 0
  pure (.obj "TunnelIdField" [V.u64 x])
def zero : V := .obj "TunnelIdField" [.num 0]
end TunnelIdField

namespace MetadataField
def lenM (v : V) : R (UInt16 × V) := same 8 v
def marshalM (v : V) : R (Bytes × V) :=
  match v with
  | .obj "MetadataField" [.num x] => same (be64 (n64 x)) v
  | _ => .panic
def unmarshal (_recv : V) (data : Slice) : R V := do
  let x ← data.u64From 0
  pure (.obj "MetadataField" [V.u64 x])
def zero : V := .obj "MetadataField" [.num 0]
end MetadataField

namespace PortField
def lenM (v : V) : R (UInt16 × V) := same 2 v
def marshalM (v : V) : R (Bytes × V) :=
  match v with
  | .obj "PortField" [.num x] => same (be16 (n16 x)) v
  | _ => .panic
def unmarshal (_recv : V) (data : Slice) : R V := do
  let x ← data.u16From 0
  pure (.obj "PortField" [V.u16 x])
def zero : V := .obj "PortField" [.num 0]
/-- NewPortField(port) -/
def new (port : Nat) : V := .obj "PortField" [V.u16 (n16 port)]
end PortField

namespace TcpFlagsField
def lenM (v : V) : R (UInt16 × V) := same 2 v
def marshalM (v : V) : R (Bytes × V) :=
  match v with
  | .obj "TcpFlagsField" [.num x] => same (be16 (n16 x)) v
  | _ => .panic
def unmarshal (_recv : V) (data : Slice) : R V := do
  let x ← data.u16From 0
  pure (.obj "TcpFlagsField" [V.u16 x])
def zero : V := .obj "TcpFlagsField" [.num 0]
end TcpFlagsField

namespace ArpOperField
def lenM (v : V) : R (UInt16 × V) := same 2 v
def marshalM (v : V) : R (Bytes × V) :=
  match v with
  | .obj "ArpOperField" [.num x] => same (be16 (n16 x)) v
  | _ => .panic
def unmarshal (_recv : V) (data : Slice) : R V := do
  let x ← data.u16From 0
  pure (.obj "ArpOperField" [V.u16 x])
def zero : V := .obj "ArpOperField" [.num 0]
end ArpOperField

namespace TunnelIpv4SrcField
def lenM (v : V) : R (UInt16 × V) := same 4 v
def marshalM (v : V) : R (Bytes × V) :=
  match v with
  | .obj "TunnelIpv4SrcField" [.bytes ip] => same (makeCopy 4 (ipTo4 ip)) v
  | _ => .panic
def unmarshal (_recv : V) (data : Slice) : R V := do
  let ip ← readIPv4 data
  pure (.obj "TunnelIpv4SrcField" [.bytes ip])
def zero : V := .obj "TunnelIpv4SrcField" [.bytes []]
end TunnelIpv4SrcField

namespace TunnelIpv4DstField
def lenM (v : V) : R (UInt16 × V) := same 4 v
def marshalM (v : V) : R (Bytes × V) :=
  match v with
  | .obj "TunnelIpv4DstField" [.bytes ip] => same (makeCopy 4 (ipTo4 ip)) v
  | _ => .panic
def unmarshal (_recv : V) (data : Slice) : R V := do
  let ip ← readIPv4 data
  pure (.obj "TunnelIpv4DstField" [.bytes ip])
def zero : V := .obj "TunnelIpv4DstField" [.bytes []]
end TunnelIpv4DstField

/- the decoder copies INTO the receiver's current slice (`copy(m.ArpHa, data[:6])`): nothing for a nil slice -/
namespace ArpXHaField
def lenM (v : V) : R (UInt16 × V) := same 6 v
def marshalM (v : V) : R (Bytes × V) :=
  match v with
  | .obj "ArpXHaField" [.bytes b] => same (makeCopy 6 b) v
  | _ => .panic
def unmarshal (recv : V) (data : Slice) : R V :=
  match recv with
  | .obj "ArpXHaField" [.bytes _] =>
    if data.len < 6 then .err else do
      let s ← data.uptoR 6
      pure (.obj "ArpXHaField" [.bytes (makeCopy 6 s.bytes)])
  | _ => .panic
def zero : V := .obj "ArpXHaField" [.bytes []]
end ArpXHaField

namespace ArpXPaField
def lenM (v : V) : R (UInt16 × V) := same 4 v
def marshalM (v : V) : R (Bytes × V) :=
  match v with
  | .obj "ArpXPaField" [.bytes ip] => same (makeCopy 4 (ipTo4 ip)) v
  | _ => .panic
def unmarshal (_recv : V) (data : Slice) : R V :=
  if data.len < 4 then .err else do
    let ip ← readIPv4 data
    pure (.obj "ArpXPaField" [.bytes ip])
def zero : V := .obj "ArpXPaField" [.bytes []]
end ArpXPaField

namespace ActsetOutputField
def lenM (v : V) : R (UInt16 × V) := same 4 v
def marshalM (v : V) : R (Bytes × V) :=
  match v with
  | .obj "ActsetOutputField" [.num x] => same (be32 (n32 x)) v
  | _ => .panic
def unmarshal (_recv : V) (data : Slice) : R V := do
  let x ← data.u32From 0
  pure (.obj "ActsetOutputField" [V.u32 x])
def zero : V := .obj "ActsetOutputField" [.num 0]
end ActsetOutputField

namespace IcmpTypeField
def lenM (v : V) : R (UInt16 × V) := same 1 v
def marshalM (v : V) : R (Bytes × V) :=
  match v with
  | .obj "IcmpTypeField" [.num x] => same [n8 x] v
  | _ => .panic
def unmarshal (_recv : V) (data : Slice) : R V :=
  if data.len < 1 then .err else do
    let x ← data.byteAt 0
    pure (.obj "IcmpTypeField" [V.u8 x])
def zero : V := .obj "IcmpTypeField" [.num 0]
end IcmpTypeField

namespace IcmpCodeField
def lenM (v : V) : R (UInt16 × V) := same 1 v
def marshalM (v : V) : R (Bytes × V) :=
  match v with
  | .obj "IcmpCodeField" [.num x] => same [n8 x] v
  | _ => .panic
def unmarshal (_recv : V) (data : Slice) : R V :=
  if data.len < 1 then .err else do
    let x ← data.byteAt 0
    pure (.obj "IcmpCodeField" [V.u8 x])
def zero : V := .obj "IcmpCodeField" [.num 0]
end IcmpCodeField

namespace Uint16Message
def lenM (v : V) : R (UInt16 × V) := same 2 v
def marshalM (v : V) : R (Bytes × V) :=
  match v with
  | .obj "Uint16Message" [.num x] => same (be16 (n16 x)) v
  | _ => .panic
def unmarshal (_recv : V) (data : Slice) : R V :=
  if data.len < 2 then .err else do
    let x ← data.u16In 0 2
    pure (.obj "Uint16Message" [V.u16 x])
def zero : V := .obj "Uint16Message" [.num 0]
/-- newUint16Message(data) -/
def new (x : UInt16) : V := .obj "Uint16Message" [V.u16 x]
end Uint16Message

namespace Uint32Message
def lenM (v : V) : R (UInt16 × V) := same 4 v
def marshalM (v : V) : R (Bytes × V) :=
  match v with
  | .obj "Uint32Message" [.num x] => same (be32 (n32 x)) v
  | _ => .panic
def unmarshal (_recv : V) (data : Slice) : R V :=
  if data.len < 4 then .err else do
    let x ← data.u32In 0 4
    pure (.obj "Uint32Message" [V.u32 x])
def zero : V := .obj "Uint32Message" [.num 0]
/-- newUint32Message(data) -/
def new (x : UInt32) : V := .obj "Uint32Message" [V.u32 x]
end Uint32Message

/- ByteArrayField(Data, Length): Len() = Length, whatever len(Data) is -/
namespace ByteArrayField
def lenM (v : V) : R (UInt16 × V) :=
  match v with
  | .obj "ByteArrayField" [_, .num l] => same (n8 l).toUInt16 v
  | _ => .panic
def marshalM (v : V) : R (Bytes × V) :=
  match v with
  | .obj "ByteArrayField" [.bytes d, .num l] => same (makeCopy (n8 l).toNat d) v
  | _ => .panic
def unmarshal (recv : V) (data : Slice) : R V :=
  match recv with
  | .obj "ByteArrayField" [_, .num l] =>
    let expect := (n8 l).toNat
    if data.len < expect then .err else do
      let s ← data.uptoR expect
      pure (.obj "ByteArrayField" [.bytes (makeCopy expect s.bytes), .num l])
  | _ => .panic
def zero : V := .obj "ByteArrayField" [.bytes [], .num 0]
end ByteArrayField

/- CTLabel(data [16]byte) -/
namespace CTLabel
def lenM (v : V) : R (UInt16 × V) := same 16 v
def marshalM (v : V) : R (Bytes × V) :=
  match v with
  | .obj "CTLabel" [.bytes d] => same (makeCopy 16 d) v
  | _ => .panic
def unmarshal (_recv : V) (data : Slice) : R V :=
  -- m.data = [16]byte{}; copy(m.data[:], data) or copy(m.data[:], data[:16]): both = the first ≤16 visible bytes
  .ok (.obj "CTLabel" [.bytes (makeCopy 16 data.bytes)])
def zero : V := .obj "CTLabel" [.bytes (zeros 16)]
/-- newCTLabel(data [16]byte): the argument array is zero-padded / cut to 16 bytes -/
def new (d : Bytes) : V := .obj "CTLabel" [.bytes (makeCopy 16 (makeCopy 16 d))]
end CTLabel

/-! ### interface util.Message as held by MatchField.Value / Mask: dispatch on the dynamic type -/
namespace MatchPayload
def lenM (v : V) : R (UInt16 × V) :=
  match v.kind with
  | "InPortField" => InPortField.lenM v
  | "EthDstField" => EthDstField.lenM v
  | "EthSrcField" => EthSrcField.lenM v
  | "EthTypeField" => EthTypeField.lenM v
  | "VlanIdField" => VlanIdField.lenM v
  | "MplsLabelField" => MplsLabelField.lenM v
  | "MplsBosField" => MplsBosField.lenM v
  | "Ipv4SrcField" => Ipv4SrcField.lenM v
  | "Ipv4DstField" => Ipv4DstField.lenM v
  | "Ipv6SrcField" => Ipv6SrcField.lenM v
  | "Ipv6DstField" => Ipv6DstField.lenM v
  | "IPv6FlowLabelField" => IPv6FlowLabelField.lenM v
  | "IpProtoField" => IpProtoField.lenM v
  | "IpDscpField" => IpDscpField.lenM v
  | "TunnelIdField" => TunnelIdField.lenM v
  | "MetadataField" => MetadataField.lenM v
  | "PortField" => PortField.lenM v
  | "TcpFlagsField" => TcpFlagsField.lenM v
  | "ArpOperField" => ArpOperField.lenM v
  | "TunnelIpv4SrcField" => TunnelIpv4SrcField.lenM v
  | "TunnelIpv4DstField" => TunnelIpv4DstField.lenM v
  | "ArpXHaField" => ArpXHaField.lenM v
  | "ArpXPaField" => ArpXPaField.lenM v
  | "ActsetOutputField" => ActsetOutputField.lenM v
  | "IcmpTypeField" => IcmpTypeField.lenM v
  | "IcmpCodeField" => IcmpCodeField.lenM v
  | "Uint16Message" => Uint16Message.lenM v
  | "Uint32Message" => Uint32Message.lenM v
  | "ByteArrayField" => ByteArrayField.lenM v
  | "CTLabel" => CTLabel.lenM v
  | _ => .panic      -- nil interface (or a message kind that is not a match payload)

def marshalM (v : V) : R (Bytes × V) :=
  match v.kind with
  | "InPortField" => InPortField.marshalM v
  | "EthDstField" => EthDstField.marshalM v
  | "EthSrcField" => EthSrcField.marshalM v
  | "EthTypeField" => EthTypeField.marshalM v
  | "VlanIdField" => VlanIdField.marshalM v
  | "MplsLabelField" => MplsLabelField.marshalM v
  | "MplsBosField" => MplsBosField.marshalM v
  | "Ipv4SrcField" => Ipv4SrcField.marshalM v
  | "Ipv4DstField" => Ipv4DstField.marshalM v
  | "Ipv6SrcField" => Ipv6SrcField.marshalM v
  | "Ipv6DstField" => Ipv6DstField.marshalM v
  | "IPv6FlowLabelField" => IPv6FlowLabelField.marshalM v
  | "IpProtoField" => IpProtoField.marshalM v
  | "IpDscpField" => IpDscpField.marshalM v
  | "TunnelIdField" => TunnelIdField.marshalM v
  | "MetadataField" => MetadataField.marshalM v
  | "PortField" => PortField.marshalM v
  | "TcpFlagsField" => TcpFlagsField.marshalM v
  | "ArpOperField" => ArpOperField.marshalM v
  | "TunnelIpv4SrcField" => TunnelIpv4SrcField.marshalM v
  | "TunnelIpv4DstField" => TunnelIpv4DstField.marshalM v
  | "ArpXHaField" => ArpXHaField.marshalM v
  | "ArpXPaField" => ArpXPaField.marshalM v
  | "ActsetOutputField" => ActsetOutputField.marshalM v
  | "IcmpTypeField" => IcmpTypeField.marshalM v
  | "IcmpCodeField" => IcmpCodeField.marshalM v
  | "Uint16Message" => Uint16Message.marshalM v
  | "Uint32Message" => Uint32Message.marshalM v
  | "ByteArrayField" => ByteArrayField.marshalM v
  | "CTLabel" => CTLabel.marshalM v
  | _ => .panic

def unmarshal (recv : V) (data : Slice) : R V :=
  match recv.kind with
  | "InPortField" => InPortField.unmarshal recv data
  | "EthDstField" => EthDstField.unmarshal recv data
  | "EthSrcField" => EthSrcField.unmarshal recv data
  | "EthTypeField" => EthTypeField.unmarshal recv data
  | "VlanIdField" => VlanIdField.unmarshal recv data
  | "MplsLabelField" => MplsLabelField.unmarshal recv data
  | "MplsBosField" => MplsBosField.unmarshal recv data
  | "Ipv4SrcField" => Ipv4SrcField.unmarshal recv data
  | "Ipv4DstField" => Ipv4DstField.unmarshal recv data
  | "Ipv6SrcField" => Ipv6SrcField.unmarshal recv data
  | "Ipv6DstField" => Ipv6DstField.unmarshal recv data
  | "IPv6FlowLabelField" => IPv6FlowLabelField.unmarshal recv data
  | "IpProtoField" => IpProtoField.unmarshal recv data
  | "IpDscpField" => IpDscpField.unmarshal recv data
  | "TunnelIdField" => TunnelIdField.unmarshal recv data
  | "MetadataField" => MetadataField.unmarshal recv data
  | "PortField" => PortField.unmarshal recv data
  | "TcpFlagsField" => TcpFlagsField.unmarshal recv data
  | "ArpOperField" => ArpOperField.unmarshal recv data
  | "TunnelIpv4SrcField" => TunnelIpv4SrcField.unmarshal recv data
  | "TunnelIpv4DstField" => TunnelIpv4DstField.unmarshal recv data
  | "ArpXHaField" => ArpXHaField.unmarshal recv data
  | "ArpXPaField" => ArpXPaField.unmarshal recv data
  | "ActsetOutputField" => ActsetOutputField.unmarshal recv data
  | "IcmpTypeField" => IcmpTypeField.unmarshal recv data
  | "IcmpCodeField" => IcmpCodeField.unmarshal recv data
  | "Uint16Message" => Uint16Message.unmarshal recv data
  | "Uint32Message" => Uint32Message.unmarshal recv data
  | "ByteArrayField" => ByteArrayField.unmarshal recv data
  | "CTLabel" => CTLabel.unmarshal recv data
  | _ => .panic
end MatchPayload

/-! ### DecodeMatchField -/

/-- what the `switch field` leaves in `val` -/
inductive DecTarget where
  | val (recv : V)     -- val = new(T)
  | nilVal             -- a `case` without a body: val stays nil
  | unhandled          -- the `default:` branch

open Gen.openflow13 in
/-- `switch field` of class OXM_CLASS_OPENFLOW_BASIC: field ↦ new(T) (`none` = case without a body) -/
def basicFieldTable : List (Nat × Option V) := [
  (OXM_FIELD_IN_PORT, some InPortField.zero),
  (OXM_FIELD_IN_PHY_PORT, none),
  (OXM_FIELD_METADATA, some MetadataField.zero),
  (OXM_FIELD_ETH_DST, some EthDstField.zero),
  (OXM_FIELD_ETH_SRC, some EthSrcField.zero),
  (OXM_FIELD_ETH_TYPE, some EthTypeField.zero),
  (OXM_FIELD_VLAN_VID, some VlanIdField.zero),
  (OXM_FIELD_VLAN_PCP, none),
  (OXM_FIELD_IP_DSCP, some IpDscpField.zero),
  (OXM_FIELD_IP_ECN, none),
  (OXM_FIELD_IP_PROTO, some IpProtoField.zero),
  (OXM_FIELD_IPV4_SRC, some Ipv4SrcField.zero),
  (OXM_FIELD_IPV4_DST, some Ipv4DstField.zero),
  (OXM_FIELD_TCP_SRC, some PortField.zero),
  (OXM_FIELD_TCP_DST, some PortField.zero),
  (OXM_FIELD_UDP_SRC, some PortField.zero),
  (OXM_FIELD_UDP_DST, some PortField.zero),
  (OXM_FIELD_SCTP_SRC, some PortField.zero),
  (OXM_FIELD_SCTP_DST, some PortField.zero),
  (OXM_FIELD_ICMPV4_TYPE, some IcmpTypeField.zero),
  (OXM_FIELD_ICMPV4_CODE, some IcmpCodeField.zero),
  (OXM_FIELD_ARP_OP, some ArpOperField.zero),
  (OXM_FIELD_ARP_SPA, some ArpXPaField.zero),
  (OXM_FIELD_ARP_TPA, some ArpXPaField.zero),
  (OXM_FIELD_ARP_SHA, some ArpXHaField.zero),
  (OXM_FIELD_ARP_THA, some ArpXHaField.zero),
  (OXM_FIELD_IPV6_SRC, some Ipv6SrcField.zero),
  (OXM_FIELD_IPV6_DST, some Ipv6DstField.zero),
  (OXM_FIELD_IPV6_FLABEL, some IPv6FlowLabelField.zero),
  (OXM_FIELD_ICMPV6_TYPE, some IcmpTypeField.zero),
  (OXM_FIELD_ICMPV6_CODE, some IcmpCodeField.zero),
  (OXM_FIELD_IPV6_ND_TARGET, some Ipv6DstField.zero),
  (OXM_FIELD_IPV6_ND_SLL, some EthSrcField.zero),
  (OXM_FIELD_IPV6_ND_TLL, some EthDstField.zero),
  (OXM_FIELD_MPLS_LABEL, some MplsLabelField.zero),
  (OXM_FIELD_MPLS_TC, none),
  (OXM_FIELD_MPLS_BOS, some MplsBosField.zero),
  (OXM_FIELD_PBB_ISID, none),
  (OXM_FIELD_TUNNEL_ID, some TunnelIdField.zero),
  (OXM_FIELD_IPV6_EXTHDR, none),
  (OXM_FIELD_TCP_FLAGS, some TcpFlagsField.zero),
  (OXM_FIELD_ACTSET_OUTPUT, some ActsetOutputField.zero)
]

/-- the ByteArrayField receiver prepared for tun_metadata / xxreg: Length = length or length/2 (uint8) -/
def byteArrayRecv (length : Nat) (hasMask : Bool) : V :=
  let l : UInt8 := n8 length
  .obj "ByteArrayField" [.bytes [], V.u8 (if hasMask then l / 2 else l)]

open Gen.openflow13 in
/-- `switch field` of class OXM_CLASS_NXM_1 -/
def nxm1FieldTable (length : Nat) (hasMask : Bool) : List (Nat × Option V) := [
  (NXM_NX_REG0, some Uint32Message.zero),
  (NXM_NX_REG1, some Uint32Message.zero),
  (NXM_NX_REG2, some Uint32Message.zero),
  (NXM_NX_REG3, some Uint32Message.zero),
  (NXM_NX_REG4, some Uint32Message.zero),
  (NXM_NX_REG5, some Uint32Message.zero),
  (NXM_NX_REG6, some Uint32Message.zero),
  (NXM_NX_REG7, some Uint32Message.zero),
  (NXM_NX_REG8, some Uint32Message.zero),
  (NXM_NX_REG9, some Uint32Message.zero),
  (NXM_NX_REG10, some Uint32Message.zero),
  (NXM_NX_REG11, some Uint32Message.zero),
  (NXM_NX_REG12, some Uint32Message.zero),
  (NXM_NX_REG13, some Uint32Message.zero),
  (NXM_NX_REG14, some Uint32Message.zero),
  (NXM_NX_REG15, some Uint32Message.zero),
  (NXM_NX_TUN_ID, some (byteArrayRecv length hasMask)),
  (NXM_NX_ARP_SHA, some ArpXHaField.zero),
  (NXM_NX_ARP_THA, some ArpXHaField.zero),
  (NXM_NX_IPV6_SRC, some Ipv6SrcField.zero),
  (NXM_NX_IPV6_DST, some Ipv6DstField.zero),
  (NXM_NX_ICMPV6_TYPE, some IcmpTypeField.zero),
  (NXM_NX_ICMPV6_CODE, some IcmpCodeField.zero),
  (NXM_NX_ND_TARGET, some Ipv6DstField.zero),
  (NXM_NX_ND_SLL, some EthDstField.zero),
  (NXM_NX_ND_TLL, some EthSrcField.zero),
  (NXM_NX_IP_FRAG, some (byteArrayRecv length hasMask)),
  (NXM_NX_IPV6_LABEL, some IPv6FlowLabelField.zero),
  (NXM_NX_IP_ECN, some (byteArrayRecv length hasMask)),
  (NXM_NX_IP_TTL, some (byteArrayRecv length hasMask)),
  (NXM_NX_MPLS_TTL, some (byteArrayRecv length hasMask)),
  (NXM_NX_TUN_IPV4_SRC, some TunnelIpv4SrcField.zero),
  (NXM_NX_TUN_IPV4_DST, some TunnelIpv4DstField.zero),
  (NXM_NX_PKT_MARK, some Uint32Message.zero),
  (NXM_NX_TCP_FLAGS, some (byteArrayRecv length hasMask)),
  (NXM_NX_DP_HASH, some (byteArrayRecv length hasMask)),
  (NXM_NX_RECIRC_ID, some (byteArrayRecv length hasMask)),
  (NXM_NX_CONJ_ID, some Uint32Message.zero),
  (NXM_NX_TUN_GBP_ID, some (byteArrayRecv length hasMask)),
  (NXM_NX_TUN_GBP_FLAGS, some (byteArrayRecv length hasMask)),
  (NXM_NX_TUN_METADATA0, some (byteArrayRecv length hasMask)),
  (NXM_NX_TUN_METADATA1, some (byteArrayRecv length hasMask)),
  (NXM_NX_TUN_METADATA2, some (byteArrayRecv length hasMask)),
  (NXM_NX_TUN_METADATA3, some (byteArrayRecv length hasMask)),
  (NXM_NX_TUN_METADATA4, some (byteArrayRecv length hasMask)),
  (NXM_NX_TUN_METADATA5, some (byteArrayRecv length hasMask)),
  (NXM_NX_TUN_METADATA6, some (byteArrayRecv length hasMask)),
  (NXM_NX_TUN_METADATA7, some (byteArrayRecv length hasMask)),
  (NXM_NX_TUN_FLAGS, some (byteArrayRecv length hasMask)),
  (NXM_NX_CT_STATE, some Uint32Message.zero),
  (NXM_NX_CT_ZONE, some Uint16Message.zero),
  (NXM_NX_CT_MARK, some Uint32Message.zero),
  (NXM_NX_CT_LABEL, some CTLabel.zero),
  (NXM_NX_TUN_IPV6_SRC, some Ipv6SrcField.zero),
  (NXM_NX_TUN_IPV6_DST, some Ipv6DstField.zero),
  (NXM_NX_CT_NW_PROTO, some IpProtoField.zero),
  (NXM_NX_CT_NW_SRC, some Ipv4SrcField.zero),
  (NXM_NX_CT_NW_DST, some Ipv4DstField.zero),
  (NXM_NX_CT_IPV6_SRC, some Ipv6SrcField.zero),
  (NXM_NX_CT_IPV6_DST, some Ipv6DstField.zero),
  (NXM_NX_CT_TP_DST, some PortField.zero),
  (NXM_NX_CT_TP_SRC, some PortField.zero),
  (NXM_NX_XXREG0, some (byteArrayRecv length hasMask)),
  (NXM_NX_XXREG1, some (byteArrayRecv length hasMask)),
  (NXM_NX_XXREG2, some (byteArrayRecv length hasMask)),
  (NXM_NX_XXREG3, some (byteArrayRecv length hasMask))
]

open Gen.openflow13 in
/-- `switch field` of class OXM_CLASS_EXPERIMENTER (no default branch) -/
def experimenterFieldTable : List (Nat × Option V) := [
  (OXM_FIELD_TCP_FLAGS, some TcpFlagsField.zero),
  (OXM_FIELD_ACTSET_OUTPUT, some ActsetOutputField.zero)
]

def decTarget (tab : List (Nat × Option V)) (field : Nat) : DecTarget :=
  match tab.lookup field with
  | some (some recv) => .val recv
  | some none => .nilVal
  | none => .unhandled

/-- DecodeMatchField(class, field, length, hasMask, data) -/
def DecodeMatchField (cls field length : Nat) (hasMask : Bool) (data : Slice) : R V :=
  if cls = Gen.openflow13.OXM_CLASS_OPENFLOW_BASIC then
    match decTarget basicFieldTable field with
    | .val recv => MatchPayload.unmarshal recv data
    | .nilVal => .err          -- `if val == nil { return nil, fmt.Errorf(...) }`
    | .unhandled => .err
  else if cls = Gen.openflow13.OXM_CLASS_NXM_1 then
    match decTarget (nxm1FieldTable length hasMask) field with
    | .val recv => MatchPayload.unmarshal recv data
    | .nilVal => .panic        -- val.UnmarshalBinary on a nil interface
    | .unhandled => .err
  else if cls = Gen.openflow13.OXM_CLASS_EXPERIMENTER then
    match decTarget experimenterFieldTable field with
    | .val recv => MatchPayload.unmarshal recv data
    | .nilVal => .panic
    | .unhandled => .panic     -- no default branch: val is nil
  else .panic                  -- log.Panicf("Unsupported match field …")

/-! ### MatchField -/
namespace MatchField

def zero : V := .obj "MatchField" [.num 0, .num 0, .num 0, .num 0, .num 0, .nil, .nil]

def lenM (v : V) : R (UInt16 × V) :=
  match v with
  | .obj "MatchField" [c, f, .num hm, l, .num eid, val, mask] => do
    let n : UInt16 := if eid = 0 then 4 else 8
    let (lv, val) ← MatchPayload.lenM val
    if hm = 0 then
      pure (n + lv, .obj "MatchField" [c, f, .num hm, l, .num eid, val, mask])
    else do
      let (lm, mask) ← MatchPayload.lenM mask
      pure (n + lv + lm, .obj "MatchField" [c, f, .num hm, l, .num eid, val, mask])
  | _ => .panic

/-- `if m.ExperimenterID != 0 { PutUint32(data[n:], m.ExperimenterID); n += 4 }` -/
def eidPieces (eid : V) : List Piece := if eid.asNat = 0 then [] else [pU32 eid.asNat]

/-- an error of a payload encoder would be returned together with the data (no payload kind has one) -/
def marshalM (v : V) : R (Bytes × V) := do
  let (l, v) ← lenM v
  match v with
  | .obj "MatchField" [.num c, .num f, .num hm, .num ln, eid, val, mask] =>
    let fld : UInt8 := if hm = 0 then shl8 (n8 f) 1 else shl8 (n8 f) 1 ||| 1
    let (vb, val) ← MatchPayload.marshalM val
    if hm = 0 then do
      let bs ← fill l.toNat ([pU16 c, .put [fld], pU8 ln] ++ eidPieces eid ++ [pCopy vb])
      pure (bs, .obj "MatchField" [.num c, .num f, .num hm, .num ln, eid, val, mask])
    else do
      let (mb, mask) ← MatchPayload.marshalM mask
      let bs ← fill l.toNat ([pU16 c, .put [fld], pU8 ln] ++ eidPieces eid ++ [pCopy vb, pCopy mb])
      pure (bs, .obj "MatchField" [.num c, .num f, .num hm, .num ln, eid, val, mask])
  | _ => .panic

def unmarshal (recv : V) (data : Slice) : R V :=
  match recv with
  | .obj "MatchField" [_, _, _, _, eid0, _, mask0] => do
    let cls ← data.u16From 0
    let fld ← data.byteAt 2
    let hasMask : Bool := (fld &&& 1) == 1
    let field : UInt8 := fld >>> 1
    let length ← data.byteAt 3
    let (n, eid) ← (if cls.toNat = Gen.openflow13.OXM_CLASS_EXPERIMENTER then do
        let e ← data.u32From 4
        if e.toNat = Gen.openflow13.ONF_EXPERIMENTER_ID then pure ((8 : UInt16), V.u32 e) else .err
      else pure ((4 : UInt16), eid0) : R (UInt16 × V))
    let d ← data.fromR n.toNat
    let val ← DecodeMatchField cls.toNat field.toNat length.toNat hasMask d
    let (lv, val) ← MatchPayload.lenM val
    let n : UInt16 := n + lv
    if hasMask then do
      let d2 ← data.fromR n.toNat
      let mask ← DecodeMatchField cls.toNat field.toNat length.toNat hasMask d2
      let (_, mask) ← MatchPayload.lenM mask
      pure (.obj "MatchField" [V.u16 cls, V.u8 field, V.bool hasMask, V.u8 length, eid, val, mask])
    else
      pure (.obj "MatchField" [V.u16 cls, V.u8 field, V.bool hasMask, V.u8 length, eid, val, mask0])
  | _ => .panic

/-- scalar projection used by the regenerated helpers -/
def scalars : V → Gen.openflow13.MatchField
  | .obj "MatchField" [.num c, .num f, .num hm, .num l, .num eid, _, _] =>
    { Class := n16 c, Field := n8 f, HasMask := hm ≠ 0, Length := n8 l, ExperimenterID := n32 eid }
  | _ => {}

/-- MatchField.MarshalHeader() -/
def headerWord (v : V) : UInt32 := Gen.openflow13.MatchField.MarshalHeader (scalars v)

/-- MatchField.UnmarshalHeader(data): Class / Field / HasMask / Length set, the rest kept -/
def unmarshalHeader (recv : V) (data : Slice) : R V :=
  match recv with
  | .obj "MatchField" [_, _, _, _, eid, val, mask] =>
    match UnmarshalHeader data.bytes with
    | none => .err
    | some h => .ok (.obj "MatchField" [V.u16 h.Class, V.u8 h.Field, V.bool h.HasMask, V.u8 h.Length, eid, val, mask])
  | _ => .panic

/-- MatchField.GetOXMName() -/
def getOXMName : V → Bytes
  | .obj "MatchField" (.num c :: .num f :: _) =>
    if c = Gen.openflow13.OXM_CLASS_OPENFLOW_BASIC ∧ f = Gen.openflow13.OXM_FIELD_IN_PORT
    then "in_port".toUTF8.toList else []
  | _ => []

/-- a freshly built field -/
def mk (cls field : Nat) (hasMask : Bool) (length : UInt8) (val mask : V) : V :=
  .obj "MatchField" [.num cls, .num field, V.bool hasMask, V.u8 length, .num 0, val, mask]

/-- the constructor pattern: Length = uint8(value.Len()), and with a mask HasMask = true, Length += uint8(mask.Len()) -/
def mkMasked (cls field : Nat) (l : UInt8) (val : V) (mask : Option V) : V :=
  match mask with
  | none => mk cls field false l val .nil
  | some m => mk cls field true (l + l) val m

end MatchField

/-! ### Match -/
namespace Match

/-- NewMatch() -/
def new : V := .obj "Match" [.num Gen.openflow13.MatchType_OXM, .num 4, .list []]
def zero : V := .obj "Match" [.num 0, .num 0, .list []]

/-- `for _, a := range m.Fields` iterates over copies; no payload Len() modifies anything, so nothing is lost -/
def lenM (v : V) : R (UInt16 × V) :=
  match v with
  | .obj "Match" [_, _, .list fs] => do
    let (ls, _) ← mapM2 MatchField.lenM fs
    same (round8 (4 + sum16 ls)) v
  | _ => .panic

def marshalM (v : V) : R (Bytes × V) := do
  let (l, v) ← lenM v
  match v with
  | .obj "Match" [.num ty, .num ln, .list fs] =>
    let (bs, _) ← mapM2 MatchField.marshalM fs
    let out ← fill l.toNat (pU16 ty :: pU16 ln :: bs.map pCopy)
    same out v
  | _ => .panic

structure St where
  n : Nat
  fields : List V
  err : Bool

/-- Match.UnmarshalBinary(data) with the intermediate state: (receiver AFTER the call, true iff a non-nil error was
    returned).  On an error of a field decoder Type and Length are as read and the fields parsed so far stay appended
    to the receiver's fields (FlowMod / FlowStats / AggregateStatsRequest ignore the error and keep using the value). -/
def unmarshalP (recv : V) (data : Slice) : R (V × Bool) :=
  match recv with
  | .obj "Match" [_, _, .list fs0] => do
    let ty ← data.u16From 0
    let ln ← data.u16From 2
    -- every successful iteration advances n by field.Len() ≥ 4 and needs n ≤ len(data): fewer than len+2 iterations;
    -- an error ends the loop (the cursor counts it as progress)
    let st ← goLoop (σ := St) (data.len + 2) (fun s => !s.err && s.n < ln.toNat)
      (fun s => s.n + (if s.err then 1 else 0))
      (fun s => do
        let d ← data.fromR s.n
        match MatchField.unmarshal MatchField.zero d with
        | .ok f => do
          let (l, f) ← MatchField.lenM f
          pure { n := s.n + l.toNat, fields := s.fields ++ [f], err := false }
        | .err => pure { s with err := true }
        | .panic => .panic
        | .spin => .spin)
      { n := 4, fields := fs0, err := false }
    pure (.obj "Match" [V.u16 ty, V.u16 ln, .list st.fields], st.err)
  | _ => .panic

def unmarshal (recv : V) (data : Slice) : R V :=
  match unmarshalP recv data with
  | .ok (v, false) => .ok v
  | .ok (_, true) => .err
  | .err => .err
  | .panic => .panic
  | .spin => .spin

/-- Match.AddField(f): append, Length += f.Len() -/
def addField (m f : V) : R V :=
  match m with
  | .obj "Match" [ty, .num ln, .list fs] => do
    let (l, f) ← MatchField.lenM f
    pure (.obj "Match" [ty, V.u16 (n16 ln + l), .list (fs ++ [f])])
  | _ => .panic

end Match

/-! ### constructors of match.go -/

/-- optional pointer argument: `~` = nil -/
def optArg : V → Option V
  | .nil => none
  | v => some v

open Gen.openflow13 in
def ctorsBasic : FuncTab := [
  ("NewMatch", fun _ => ret1 Match.new),
  ("NewInPortField", fun (args : List V) => match args with
    | [.num p] => ret1 (MatchField.mk OXM_CLASS_OPENFLOW_BASIC OXM_FIELD_IN_PORT false 4 (.obj "InPortField" [V.u32 (n32 p)]) .nil)
    | _ => .panic),
  ("NewEthDstField", fun (args : List V) => match args with
    | [.bytes a, m] => ret1 (MatchField.mkMasked OXM_CLASS_OPENFLOW_BASIC OXM_FIELD_ETH_DST 6 (.obj "EthDstField" [.bytes a])
        ((optArg m).map fun x => .obj "EthDstField" [.bytes x.asBytes]))
    | _ => .panic),
  ("NewEthSrcField", fun (args : List V) => match args with
    | [.bytes a, m] => ret1 (MatchField.mkMasked OXM_CLASS_OPENFLOW_BASIC OXM_FIELD_ETH_SRC 6 (.obj "EthSrcField" [.bytes a])
        ((optArg m).map fun x => .obj "EthSrcField" [.bytes x.asBytes]))
    | _ => .panic),
  ("NewEthTypeField", fun (args : List V) => match args with
    | [.num x] => ret1 (MatchField.mk OXM_CLASS_OPENFLOW_BASIC OXM_FIELD_ETH_TYPE false 2 (.obj "EthTypeField" [V.u16 (n16 x)]) .nil)
    | _ => .panic),
  ("NewVlanIdField", fun (args : List V) => match args with
    | [.num x, m] => ret1 (MatchField.mkMasked OXM_CLASS_OPENFLOW_BASIC OXM_FIELD_VLAN_VID 2
        (.obj "VlanIdField" [V.u16 (n16 x ||| n16 OFPVID_PRESENT)])
        ((optArg m).map fun y => .obj "VlanIdField" [V.u16 (n16 y.asNat)]))
    | _ => .panic),
  ("NewMplsLabelField", fun (args : List V) => match args with
    | [.num x] => ret1 (MatchField.mk OXM_CLASS_OPENFLOW_BASIC OXM_FIELD_MPLS_LABEL false 4 (.obj "MplsLabelField" [V.u32 (n32 x)]) .nil)
    | _ => .panic),
  ("NewMplsBosField", fun (args : List V) => match args with
    | [.num x] => ret1 (MatchField.mk OXM_CLASS_OPENFLOW_BASIC OXM_FIELD_MPLS_BOS false 1 (.obj "MplsBosField" [V.u8 (n8 x)]) .nil)
    | _ => .panic),
  ("NewIpv4SrcField", fun (args : List V) => match args with
    | [.bytes a, m] => ret1 (MatchField.mkMasked OXM_CLASS_OPENFLOW_BASIC OXM_FIELD_IPV4_SRC 4 (.obj "Ipv4SrcField" [.bytes a])
        ((optArg m).map fun x => .obj "Ipv4SrcField" [.bytes x.asBytes]))
    | _ => .panic),
  ("NewIpv4DstField", fun (args : List V) => match args with
    | [.bytes a, m] => ret1 (MatchField.mkMasked OXM_CLASS_OPENFLOW_BASIC OXM_FIELD_IPV4_DST 4 (.obj "Ipv4DstField" [.bytes a])
        ((optArg m).map fun x => .obj "Ipv4DstField" [.bytes x.asBytes]))
    | _ => .panic),
  ("NewIpv6SrcField", fun (args : List V) => match args with
    | [.bytes a, m] => ret1 (MatchField.mkMasked OXM_CLASS_OPENFLOW_BASIC OXM_FIELD_IPV6_SRC 16 (.obj "Ipv6SrcField" [.bytes a])
        ((optArg m).map fun x => .obj "Ipv6SrcField" [.bytes x.asBytes]))
    | _ => .panic),
  ("NewIpv6DstField", fun (args : List V) => match args with
    | [.bytes a, m] => ret1 (MatchField.mkMasked OXM_CLASS_OPENFLOW_BASIC OXM_FIELD_IPV6_DST 16 (.obj "Ipv6DstField" [.bytes a])
        ((optArg m).map fun x => .obj "Ipv6DstField" [.bytes x.asBytes]))
    | _ => .panic),
  ("NewIPV6FlowLabelField", fun (args : List V) => match args with
    | [.num x, m] => ret1 (MatchField.mkMasked OXM_CLASS_OPENFLOW_BASIC OXM_FIELD_IPV6_FLABEL 4
        (.obj "IPv6FlowLabelField" [V.u32 (n32 x)])
        ((optArg m).map fun y => .obj "IPv6FlowLabelField" [V.u32 (n32 y.asNat)]))
    | _ => .panic),
  ("NewIpProtoField", fun (args : List V) => match args with
    | [.num x] => ret1 (MatchField.mk OXM_CLASS_OPENFLOW_BASIC OXM_FIELD_IP_PROTO false 1 (.obj "IpProtoField" [V.u8 (n8 x)]) .nil)
    | _ => .panic),
  ("NewIpDscpField", fun (args : List V) => match args with
    | [.num x] => ret1 (MatchField.mk OXM_CLASS_OPENFLOW_BASIC OXM_FIELD_IP_DSCP false 1 (.obj "IpDscpField" [V.u8 (n8 x)]) .nil)
    | _ => .panic),
  ("NewTunnelIdField", fun (args : List V) => match args with
    | [.num x] => ret1 (MatchField.mk OXM_CLASS_OPENFLOW_BASIC OXM_FIELD_TUNNEL_ID false 8 (.obj "TunnelIdField" [V.u64 (n64 x)]) .nil)
    | _ => .panic),
  ("NewMetadataField", fun (args : List V) => match args with
    | [.num x, m] => ret1 (MatchField.mkMasked OXM_CLASS_OPENFLOW_BASIC OXM_FIELD_METADATA 8
        (.obj "MetadataField" [V.u64 (n64 x)])
        ((optArg m).map fun y => .obj "MetadataField" [V.u64 (n64 y.asNat)]))
    | _ => .panic),
  ("NewPortField", fun (args : List V) => match args with
    | [.num x] => ret1 (PortField.new x)
    | _ => .panic),
  ("NewTcpSrcField", fun (args : List V) => match args with
    | [.num x] => ret1 (MatchField.mk OXM_CLASS_OPENFLOW_BASIC OXM_FIELD_TCP_SRC false 2 (PortField.new x) .nil)
    | _ => .panic),
  ("NewTcpDstField", fun (args : List V) => match args with
    | [.num x] => ret1 (MatchField.mk OXM_CLASS_OPENFLOW_BASIC OXM_FIELD_TCP_DST false 2 (PortField.new x) .nil)
    | _ => .panic),
  ("NewUdpSrcField", fun (args : List V) => match args with
    | [.num x] => ret1 (MatchField.mk OXM_CLASS_OPENFLOW_BASIC OXM_FIELD_UDP_SRC false 2 (PortField.new x) .nil)
    | _ => .panic),
  ("NewUdpDstField", fun (args : List V) => match args with
    | [.num x] => ret1 (MatchField.mk OXM_CLASS_OPENFLOW_BASIC OXM_FIELD_UDP_DST false 2 (PortField.new x) .nil)
    | _ => .panic),
  ("NewTcpFlagsField", fun (args : List V) => match args with
    | [.num x, m] => ret1 (MatchField.mkMasked OXM_CLASS_OPENFLOW_BASIC OXM_FIELD_TCP_FLAGS 2
        (.obj "TcpFlagsField" [V.u16 (n16 x)])
        ((optArg m).map fun y => .obj "TcpFlagsField" [V.u16 (n16 y.asNat)]))
    | _ => .panic),
  ("NewArpOperField", fun (args : List V) => match args with
    | [.num x] => ret1 (MatchField.mk OXM_CLASS_OPENFLOW_BASIC OXM_FIELD_ARP_OP false 2 (.obj "ArpOperField" [V.u16 (n16 x)]) .nil)
    | _ => .panic),
  ("NewTunnelIpv4SrcField", fun (args : List V) => match args with
    | [.bytes a, m] => ret1 (MatchField.mkMasked OXM_CLASS_NXM_1 NXM_NX_TUN_IPV4_SRC 4 (.obj "TunnelIpv4SrcField" [.bytes a])
        ((optArg m).map fun x => .obj "TunnelIpv4SrcField" [.bytes x.asBytes]))
    | _ => .panic),
  ("NewTunnelIpv4DstField", fun (args : List V) => match args with
    | [.bytes a, m] => ret1 (MatchField.mkMasked OXM_CLASS_NXM_1 NXM_NX_TUN_IPV4_DST 4 (.obj "TunnelIpv4DstField" [.bytes a])
        ((optArg m).map fun x => .obj "TunnelIpv4DstField" [.bytes x.asBytes]))
    | _ => .panic),
  ("NewSctpDstField", fun (args : List V) => match args with
    | [.num x] => ret1 (MatchField.mk OXM_CLASS_OPENFLOW_BASIC OXM_FIELD_SCTP_DST false 2 (PortField.new x) .nil)
    | _ => .panic),
  ("NewSctpSrcField", fun (args : List V) => match args with
    | [.num x] => ret1 (MatchField.mk OXM_CLASS_OPENFLOW_BASIC OXM_FIELD_SCTP_SRC false 2 (PortField.new x) .nil)
    | _ => .panic),
  ("NewArpThaField", fun (args : List V) => match args with
    | [.bytes a] => ret1 (MatchField.mk OXM_CLASS_OPENFLOW_BASIC OXM_FIELD_ARP_THA false 6 (.obj "ArpXHaField" [.bytes a]) .nil)
    | _ => .panic),
  ("NewArpShaField", fun (args : List V) => match args with
    | [.bytes a] => ret1 (MatchField.mk OXM_CLASS_OPENFLOW_BASIC OXM_FIELD_ARP_SHA false 6 (.obj "ArpXHaField" [.bytes a]) .nil)
    | _ => .panic),
  ("NewArpTpaField", fun (args : List V) => match args with
    | [.bytes a] => ret1 (MatchField.mk OXM_CLASS_OPENFLOW_BASIC OXM_FIELD_ARP_TPA false 4 (.obj "ArpXPaField" [.bytes a]) .nil)
    | _ => .panic),
  ("NewArpSpaField", fun (args : List V) => match args with
    | [.bytes a] => ret1 (MatchField.mk OXM_CLASS_OPENFLOW_BASIC OXM_FIELD_ARP_SPA false 4 (.obj "ArpXPaField" [.bytes a]) .nil)
    | _ => .panic),
  ("NewActsetOutputField", fun (args : List V) => match args with
    | [.num x] => ret1 (MatchField.mk OXM_CLASS_OPENFLOW_BASIC OXM_FIELD_ACTSET_OUTPUT false 4 (.obj "ActsetOutputField" [V.u32 (n32 x)]) .nil)
    | _ => .panic),
  ("NewIcmpCodeField", fun (args : List V) => match args with
    | [.num x] => ret1 (MatchField.mk OXM_CLASS_OPENFLOW_BASIC OXM_FIELD_ICMPV4_CODE false 1 (.obj "IcmpCodeField" [V.u8 (n8 x)]) .nil)
    | _ => .panic),
  ("NewIcmpTypeField", fun (args : List V) => match args with
    | [.num x] => ret1 (MatchField.mk OXM_CLASS_OPENFLOW_BASIC OXM_FIELD_ICMPV4_TYPE false 1 (.obj "IcmpTypeField" [V.u8 (n8 x)]) .nil)
    | _ => .panic),
  ("DecodeMatchField", fun (args : List V) => match args with
    | [.num c, .num f, .num l, .num hm, .bytes d] => do
      let v ← DecodeMatchField (n16 c).toNat (n8 f).toNat (n8 l).toNat (hm ≠ 0) (Slice.exact d)
      ret1 v
    | _ => .panic)
]

/-! ### nx_util.go: FindFieldHeaderByName, NXRange; nx_match.go: CTStates and the NXM constructors -/

/-- bytes of an all-ASCII Go string as a Lean string -/
def asciiString (bs : Bytes) : String := String.ofList (bs.map fun b => Char.ofNat b.toNat)

/-- the only non-ASCII runes whose `unicode.ToUpper` is ASCII: U+017F `ſ` (C5 BF) ↦ `S`, U+0131 `ı` (C4 B1) ↦ `I` -/
def foldSpecialUpper : Bytes → Bytes
  | 0xC5 :: 0xBF :: r => 0x53 :: foldSpecialUpper r
  | 0xC4 :: 0xB1 :: r => 0x49 :: foldSpecialUpper r
  | b :: r => b :: foldSpecialUpper r
  | [] => []

/-- the string to look up for `strings.ToUpper(name)` (the registry lookup upper-cases ASCII letters itself).
    `none`: the upper-cased name keeps a non-ASCII rune (or an invalid UTF-8 byte / U+FFFD) and so equals no
    registry key, all of which are ASCII. -/
def lookupName (name : Bytes) : Option String :=
  let bs := foldSpecialUpper name
  if bs.any (fun b => b ≥ 0x80) then none else some (asciiString bs)

/-- FindFieldHeaderByName(name, hasMask) as a value: `none` = error -/
def findHeaderV (name : String) (hasMask : Bool) : Option V :=
  (FindFieldHeaderByName name hasMask).map fun h =>
    .obj "MatchField" [V.u16 h.Class, V.u8 h.Field, V.bool h.HasMask, V.u8 h.Length, V.u32 h.ExperimenterID, .nil, .nil]

/-- `field, _ := FindFieldHeaderByName(..)` followed by a field assignment: a nil header is dereferenced -/
def headerOrPanic (name : String) (hasMask : Bool) : R V :=
  match findHeaderV name hasMask with
  | some h => .ok h
  | none => .panic

def setValueMask (h val : V) (mask : Option V) : V :=
  match h with
  | .obj "MatchField" [c, f, hm, l, e, _, m0] => .obj "MatchField" [c, f, hm, l, e, val, mask.getD m0]
  | v => v

def setLength (h : V) (l : UInt8) : V :=
  match h with
  | .obj "MatchField" [c, f, hm, _, e, v, m] => .obj "MatchField" [c, f, hm, V.u8 l, e, v, m]
  | v => v

namespace NXRange
/-- Go `int` argument / field ↦ Int64 -/
def i64 (n : Nat) : Int64 := (UInt64.ofNat n).toInt64
def ofV : V → Gen.openflow13.NXRange
  | .obj "NXRange" [.num s, .num e] => { start := i64 s, end_ := i64 e }
  | _ => {}
/-- the dump prints non-negative ints only (the harness writes `?neg` otherwise; generators avoid it) -/
def toV (r : Gen.openflow13.NXRange) : V :=
  .obj "NXRange" [.num r.start.toUInt64.toNat, .num r.end_.toUInt64.toNat]
end NXRange

namespace CTStates
def ofV : V → Gen.openflow13.CTStates
  | .obj "CTStates" [.num d, .num m] => { data := n32 d, mask := n32 m }
  | _ => {}
def toV (s : Gen.openflow13.CTStates) : V := .obj "CTStates" [V.u32 s.data, V.u32 s.mask]
/-- a method that only updates the receiver, through the regenerated body -/
def lift (f : Gen.openflow13.CTStates → Gen.openflow13.CTStates) : V → List V → R (V × List V) :=
  fun recv _ =>
    match recv with
    | .obj "CTStates" [.num _, .num _] => upd (toV (f (ofV recv)))
    | _ => .panic
end CTStates

/-- cntUint32SuffixZero -/
def cntUint32SuffixZero (data : UInt32) : Nat :=
  if data = 0 then 32 else
    ((List.range 32).find? (fun i => (data >>> UInt32.ofNat i) &&& 1 = 1)).getD 32

/-- shiftDataByMask -/
def shiftDataByMask (data oldMask newMask : UInt32) : UInt32 :=
  let o := cntUint32SuffixZero oldMask
  let n := cntUint32SuffixZero newMask
  if n < o then shl32 data (o - n) else data

/-- `x.(*Uint32Message).Data`: a failed type assertion panics -/
def u32Data : V → R UInt32
  | .obj "Uint32Message" [.num d] => .ok (n32 d)
  | _ => .panic

/-- NewMulitiRegMatch(fields...): registers with the same Field are merged into the first one.
    The Go result is `maps.Values(map)`: its ORDER is random when more than one distinct Field occurs; the model
    lists them in order of first occurrence (the generator only uses inputs with one distinct Field). -/
def multiRegMerge (acc : List V) (reg : V) : R (List V) :=
  match reg with
  | .obj "MatchField" [_, .num rf, .num rhm, _, _, rval, rmask] =>
    match acc.findIdx? (fun v => match v with | .obj "MatchField" (_ :: .num f :: _) => f = rf | _ => false) with
    | none => .ok (acc ++ [reg])
    | some i =>
      match acc[i]? with
      | some (.obj "MatchField" [c, f, .num hm, l, e, vval, vmask]) => do
        let hm' := if hm ≠ 0 ∨ rhm ≠ 0 then 1 else 0
        let vm ← u32Data vmask
        let rm ← u32Data rmask
        let newMask := vm ||| rm
        let vd ← u32Data vval
        let vm2 ← u32Data vmask
        let rd ← u32Data rval
        let rm2 ← u32Data rmask
        let val := Uint32Message.new (shiftDataByMask vd vm2 newMask ||| shiftDataByMask rd rm2 newMask)
        pure (acc.set i (.obj "MatchField" [c, f, .num hm', l, e, val, Uint32Message.new newMask]))
      | _ => .panic
  | _ => .panic     -- a nil *MatchField is dereferenced

def multiRegMatch : List V → List V → R (List V)
  | acc, [] => .ok acc
  | acc, r :: rs => do
    let acc ← multiRegMerge acc r
    multiRegMatch acc rs

def ctorsNX : FuncTab := [
  ("FindFieldHeaderByName", fun (args : List V) => match args with
    | [.bytes nm, .num hm] =>
      match (lookupName nm).bind (fun n => findHeaderV n (hm ≠ 0)) with
      | some h => ret1 h
      | none => .err
    | _ => .panic),
  ("NewNXRange", fun (args : List V) => match args with
    | [.num s, .num e] => ret1 (NXRange.toV (Gen.openflow13.NewNXRange (NXRange.i64 s) (NXRange.i64 e)))
    | _ => .panic),
  ("NewNXRangeByOfsNBits", fun (args : List V) => match args with
    | [.num o, .num n] => ret1 (NXRange.toV (Gen.openflow13.NewNXRangeByOfsNBits (NXRange.i64 o) (NXRange.i64 n)))
    | _ => .panic),
  ("NewCTStates", fun _ => ret1 (CTStates.toV Gen.openflow13.NewCTStates)),
  ("NewRegMatchField", fun (args : List V) => match args with
    | [.num idx, .num data, rng] => do
      -- fmt.Sprintf("NXM_NX_REG%d", idx): a negative idx (≥ 2^63 as an unsigned argument) names no register either
      let h ← headerOrPanic ("NXM_NX_REG" ++ toString idx) (!rng.isNil)
      let val := Uint32Message.new (n32 data)
      match rng with
      | .nil => ret1 (setValueMask h val none)
      | r => ret1 (setValueMask h val (some (Uint32Message.new (Gen.openflow13.NXRange.ToUint32Mask (NXRange.ofV r)))))
    | _ => .panic),
  ("NewMulitiRegMatch", fun (args : List V) => do
      let rs ← multiRegMatch [] args
      ret1 (.list rs)),
  ("NewTunMetadataField", fun (args : List V) => match args with
    | [.num idx, .bytes data, .bytes mask] => do
      let h ← headerOrPanic ("NXM_NX_TUN_METADATA" ++ toString idx) (mask.length > 0)
      let dl : UInt8 := n8 data.length
      let val := .obj "ByteArrayField" [.bytes data, V.u8 dl]
      if mask.length > 0 then
        let ml : UInt8 := n8 mask.length
        ret1 (setLength (setValueMask h val (some (.obj "ByteArrayField" [.bytes mask, V.u8 ml]))) (dl + ml))
      else
        ret1 (setLength (setValueMask h val none) dl)
    | _ => .panic),
  ("NewCTStateMatchField", fun (args : List V) => match args with
    | [.obj "CTStates" [.num d, .num m]] => do
      let h ← headerOrPanic "NXM_NX_CT_STATE" true
      ret1 (setValueMask h (Uint32Message.new (n32 d)) (some (Uint32Message.new (n32 m))))
    | _ => .panic),   -- a nil *CTStates is dereferenced
  ("NewCTZoneMatchField", fun (args : List V) => match args with
    | [.num z] => do
      let h ← headerOrPanic "NXM_NX_CT_ZONE" false
      ret1 (setValueMask h (Uint16Message.new (n16 z)) none)
    | _ => .panic),
  ("NewCTMarkMatchField", fun (args : List V) => match args with
    | [.num mark, m] => do
      let h ← headerOrPanic "NXM_NX_CT_MARK" (!m.isNil)
      ret1 (setValueMask h (Uint32Message.new (n32 mark)) ((optArg m).map fun x => Uint32Message.new (n32 x.asNat)))
    | _ => .panic),
  ("NewCTLabelMatchField", fun (args : List V) => match args with
    | [.bytes label, m] => do
      let h ← headerOrPanic "NXM_NX_CT_LABEL" (!m.isNil)
      ret1 (setValueMask h (CTLabel.new label) ((optArg m).map fun x => CTLabel.new x.asBytes))
    | _ => .panic),
  ("NewConjIDMatchField", fun (args : List V) => match args with
    | [.num c] => do
      let h ← headerOrPanic "NXM_NX_CONJ_ID" false
      ret1 (setValueMask h (Uint32Message.new (n32 c)) none)
    | _ => .panic),
  -- the masks below are slices: nil ⇔ empty
  ("NewNxARPShaMatchField", fun (args : List V) => match args with
    | [.bytes a, .bytes m] => do
      let h ← headerOrPanic "NXM_NX_ARP_SHA" (m.length > 0)
      ret1 (setValueMask h (.obj "ArpXHaField" [.bytes a]) (if m.length > 0 then some (.obj "ArpXHaField" [.bytes m]) else none))
    | _ => .panic),
  ("NewNxARPThaMatchField", fun (args : List V) => match args with
    | [.bytes a, .bytes m] => do
      let h ← headerOrPanic "NXM_NX_ARP_THA" (m.length > 0)
      ret1 (setValueMask h (.obj "ArpXHaField" [.bytes a]) (if m.length > 0 then some (.obj "ArpXHaField" [.bytes m]) else none))
    | _ => .panic),
  ("NewNxARPSpaMatchField", fun (args : List V) => match args with
    | [.bytes a, .bytes m] => do
      let h ← headerOrPanic "NXM_OF_ARP_SPA" (m.length > 0)
      ret1 (setValueMask h (.obj "ArpXPaField" [.bytes a]) (if m.length > 0 then some (.obj "ArpXPaField" [.bytes m]) else none))
    | _ => .panic),
  ("NewNxARPTpaMatchField", fun (args : List V) => match args with
    | [.bytes a, .bytes m] => do
      let h ← headerOrPanic "NXM_OF_ARP_TPA" (m.length > 0)
      ret1 (setValueMask h (.obj "ArpXPaField" [.bytes a]) (if m.length > 0 then some (.obj "ArpXPaField" [.bytes m]) else none))
    | _ => .panic)
]

/-! ### tables -/

def kindsMatch : KindTab := [
  ("Match", ⟨Match.lenM, Match.marshalM, Match.unmarshal, Match.zero⟩),
  ("MatchField", ⟨MatchField.lenM, MatchField.marshalM, MatchField.unmarshal, MatchField.zero⟩),
  ("InPortField", ⟨InPortField.lenM, InPortField.marshalM, InPortField.unmarshal, InPortField.zero⟩),
  ("EthDstField", ⟨EthDstField.lenM, EthDstField.marshalM, EthDstField.unmarshal, EthDstField.zero⟩),
  ("EthSrcField", ⟨EthSrcField.lenM, EthSrcField.marshalM, EthSrcField.unmarshal, EthSrcField.zero⟩),
  ("EthTypeField", ⟨EthTypeField.lenM, EthTypeField.marshalM, EthTypeField.unmarshal, EthTypeField.zero⟩),
  ("VlanIdField", ⟨VlanIdField.lenM, VlanIdField.marshalM, VlanIdField.unmarshal, VlanIdField.zero⟩),
  ("MplsLabelField", ⟨MplsLabelField.lenM, MplsLabelField.marshalM, MplsLabelField.unmarshal, MplsLabelField.zero⟩),
  ("MplsBosField", ⟨MplsBosField.lenM, MplsBosField.marshalM, MplsBosField.unmarshal, MplsBosField.zero⟩),
  ("Ipv4SrcField", ⟨Ipv4SrcField.lenM, Ipv4SrcField.marshalM, Ipv4SrcField.unmarshal, Ipv4SrcField.zero⟩),
  ("Ipv4DstField", ⟨Ipv4DstField.lenM, Ipv4DstField.marshalM, Ipv4DstField.unmarshal, Ipv4DstField.zero⟩),
  ("Ipv6SrcField", ⟨Ipv6SrcField.lenM, Ipv6SrcField.marshalM, Ipv6SrcField.unmarshal, Ipv6SrcField.zero⟩),
  ("Ipv6DstField", ⟨Ipv6DstField.lenM, Ipv6DstField.marshalM, Ipv6DstField.unmarshal, Ipv6DstField.zero⟩),
  ("IPv6FlowLabelField", ⟨IPv6FlowLabelField.lenM, IPv6FlowLabelField.marshalM, IPv6FlowLabelField.unmarshal, IPv6FlowLabelField.zero⟩),
  ("IpProtoField", ⟨IpProtoField.lenM, IpProtoField.marshalM, IpProtoField.unmarshal, IpProtoField.zero⟩),
  ("IpDscpField", ⟨IpDscpField.lenM, IpDscpField.marshalM, IpDscpField.unmarshal, IpDscpField.zero⟩),
  ("TunnelIdField", ⟨TunnelIdField.lenM, TunnelIdField.marshalM, TunnelIdField.unmarshal, TunnelIdField.zero⟩),
  ("MetadataField", ⟨MetadataField.lenM, MetadataField.marshalM, MetadataField.unmarshal, MetadataField.zero⟩),
  ("PortField", ⟨PortField.lenM, PortField.marshalM, PortField.unmarshal, PortField.zero⟩),
  ("TcpFlagsField", ⟨TcpFlagsField.lenM, TcpFlagsField.marshalM, TcpFlagsField.unmarshal, TcpFlagsField.zero⟩),
  ("ArpOperField", ⟨ArpOperField.lenM, ArpOperField.marshalM, ArpOperField.unmarshal, ArpOperField.zero⟩),
  ("TunnelIpv4SrcField", ⟨TunnelIpv4SrcField.lenM, TunnelIpv4SrcField.marshalM, TunnelIpv4SrcField.unmarshal, TunnelIpv4SrcField.zero⟩),
  ("TunnelIpv4DstField", ⟨TunnelIpv4DstField.lenM, TunnelIpv4DstField.marshalM, TunnelIpv4DstField.unmarshal, TunnelIpv4DstField.zero⟩),
  ("ArpXHaField", ⟨ArpXHaField.lenM, ArpXHaField.marshalM, ArpXHaField.unmarshal, ArpXHaField.zero⟩),
  ("ArpXPaField", ⟨ArpXPaField.lenM, ArpXPaField.marshalM, ArpXPaField.unmarshal, ArpXPaField.zero⟩),
  ("ActsetOutputField", ⟨ActsetOutputField.lenM, ActsetOutputField.marshalM, ActsetOutputField.unmarshal, ActsetOutputField.zero⟩),
  ("IcmpTypeField", ⟨IcmpTypeField.lenM, IcmpTypeField.marshalM, IcmpTypeField.unmarshal, IcmpTypeField.zero⟩),
  ("IcmpCodeField", ⟨IcmpCodeField.lenM, IcmpCodeField.marshalM, IcmpCodeField.unmarshal, IcmpCodeField.zero⟩),
  ("Uint16Message", ⟨Uint16Message.lenM, Uint16Message.marshalM, Uint16Message.unmarshal, Uint16Message.zero⟩),
  ("Uint32Message", ⟨Uint32Message.lenM, Uint32Message.marshalM, Uint32Message.unmarshal, Uint32Message.zero⟩),
  ("ByteArrayField", ⟨ByteArrayField.lenM, ByteArrayField.marshalM, ByteArrayField.unmarshal, ByteArrayField.zero⟩),
  ("CTLabel", ⟨CTLabel.lenM, CTLabel.marshalM, CTLabel.unmarshal, CTLabel.zero⟩)
]

def funcsMatch : FuncTab := ctorsBasic ++ ctorsNX

namespace Methods
def addField (recv : V) (args : List V) : R (V × List V) :=
  match args with
  | [f] => do
    let m ← Match.addField recv f
    upd m
  | _ => .panic
def marshalHeader (recv : V) (_args : List V) : R (V × List V) :=
  match recv with
  | .obj "MatchField" _ => .ok (recv, [V.u32 (MatchField.headerWord recv)])
  | _ => .panic
def unmarshalHeader (recv : V) (args : List V) : R (V × List V) :=
  match args with
  | [.bytes d] => do
    let m ← MatchField.unmarshalHeader recv (Slice.exact d)
    upd m
  | _ => .panic
def getOXMName (recv : V) (_args : List V) : R (V × List V) :=
  match recv with
  | .obj "MatchField" _ => .ok (recv, [.bytes (MatchField.getOXMName recv)])
  | _ => .panic
def toUint32Mask (recv : V) (_args : List V) : R (V × List V) :=
  match recv with
  | .obj "NXRange" _ => .ok (recv, [V.u32 (Gen.openflow13.NXRange.ToUint32Mask (NXRange.ofV recv))])
  | _ => .panic
def toOfsBits (recv : V) (_args : List V) : R (V × List V) :=
  match recv with
  | .obj "NXRange" _ => .ok (recv, [V.u16 (Gen.openflow13.NXRange.ToOfsBits (NXRange.ofV recv))])
  | _ => .panic
def getOfs (recv : V) (_args : List V) : R (V × List V) :=
  match recv with
  | .obj "NXRange" _ => .ok (recv, [V.u16 (Gen.openflow13.NXRange.GetOfs (NXRange.ofV recv))])
  | _ => .panic
def getNbits (recv : V) (_args : List V) : R (V × List V) :=
  match recv with
  | .obj "NXRange" _ => .ok (recv, [V.u16 (Gen.openflow13.NXRange.GetNbits (NXRange.ofV recv))])
  | _ => .panic
/-- `$v.UnmarshalBinary(data)` called from an API program on an EXISTING value (the receiver matters for
    ArpXHaField, ByteArrayField, MatchField and Match) -/
def unmarshalInto (f : V → Slice → R V) (recv : V) (args : List V) : R (V × List V) :=
  match args with
  | [.bytes d] => do
    let v ← f recv (Slice.exact d)
    upd v
  | _ => .panic
end Methods

def methodsMatch : MethodTab := [
  ("Match.AddField", Methods.addField),
  ("MatchField.MarshalHeader", Methods.marshalHeader),
  ("MatchField.UnmarshalHeader", Methods.unmarshalHeader),
  ("MatchField.GetOXMName", Methods.getOXMName),
  ("CTStates.SetNew", CTStates.lift Gen.openflow13.CTStates.SetNew),
  ("CTStates.UnsetNew", CTStates.lift Gen.openflow13.CTStates.UnsetNew),
  ("CTStates.SetEst", CTStates.lift Gen.openflow13.CTStates.SetEst),
  ("CTStates.UnsetEst", CTStates.lift Gen.openflow13.CTStates.UnsetEst),
  ("CTStates.SetRel", CTStates.lift Gen.openflow13.CTStates.SetRel),
  ("CTStates.UnsetRel", CTStates.lift Gen.openflow13.CTStates.UnsetRel),
  ("CTStates.SetRpl", CTStates.lift Gen.openflow13.CTStates.SetRpl),
  ("CTStates.UnsetRpl", CTStates.lift Gen.openflow13.CTStates.UnsetRpl),
  ("CTStates.SetInv", CTStates.lift Gen.openflow13.CTStates.SetInv),
  ("CTStates.UnsetInv", CTStates.lift Gen.openflow13.CTStates.UnsetInv),
  ("CTStates.SetTrk", CTStates.lift Gen.openflow13.CTStates.SetTrk),
  ("CTStates.UnsetTrk", CTStates.lift Gen.openflow13.CTStates.UnsetTrk),
  ("CTStates.SetSNAT", CTStates.lift Gen.openflow13.CTStates.SetSNAT),
  ("CTStates.UnsetSNAT", CTStates.lift Gen.openflow13.CTStates.UnsetSNAT),
  ("CTStates.SetDNAT", CTStates.lift Gen.openflow13.CTStates.SetDNAT),
  ("CTStates.UnsetDNAT", CTStates.lift Gen.openflow13.CTStates.UnsetDNAT),
  ("ArpXHaField.UnmarshalBinary", Methods.unmarshalInto ArpXHaField.unmarshal),
  ("ByteArrayField.UnmarshalBinary", Methods.unmarshalInto ByteArrayField.unmarshal),
  ("MatchField.UnmarshalBinary", Methods.unmarshalInto MatchField.unmarshal),
  ("Match.UnmarshalBinary", Methods.unmarshalInto Match.unmarshal),
  ("NXRange.ToUint32Mask", Methods.toUint32Mask),
  ("NXRange.ToOfsBits", Methods.toOfsBits),
  ("NXRange.GetOfs", Methods.getOfs),
  ("NXRange.GetNbits", Methods.getNbits)
]

end OFV.Model
