/-
  placeholder — to be replaced by the port (see /verif/PORTING.md)
-/
import OFV.Model.OF.Match
namespace OFV.Model
open OFV OFV.Go

def kindsAction : KindTab := []
def funcsAction : FuncTab := []
def methodsAction : MethodTab := []

end OFV.Model
